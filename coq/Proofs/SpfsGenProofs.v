(** The functions of [Gen/SpfsGen.v] -- generated from [src/superrec2/compute/super_reconciliation.py] by
    [translator/spfs_gen.py] -- instantiated at root paths, against the model [Model/Spfs.v] of the ordered
    super-reconciliation solvers (property C02).  ASSEMBLED from parts developed separately: every part is a [Module] of this
    file (all exported at the end); the part a theorem lives in is given below.

    Instantiation (as in [Proofs/ThlGenProofs.v]).  Species are root paths ([sp := path], [path_eqb]), gene families [N]
    ([fam_eqb := N.eqb]); the LCA object is a value of an arbitrary type whose operations are the path operations
    ([is_ancestor_of := anc], [distance := dist], ...) and whose [tree] is [sembed3 S []] ([Embed]): the species tree [S] of
    the model with the path of every node as its identifier.  Object nodes carry identifiers of an arbitrary type with a
    decidable equality ([nid_eqb], [nid_eqb_spec]); theorems about whole trees assume them pairwise distinct
    ([NoDup (map TreeNode_id (TreeNode_postorder O))]: distinct Python objects).  The table has the keys
    [inl (inl node)] / [inl (inr species)] / [inr mask]; [gsem3 tb n s m] is what [table[n][s][m]] reads as, [gkeys tb n s]
    the keys of the dictionary [table[n][s]] in insertion order -- what [for child_synteny in table[n][s]] iterates --,
    [inv3 rp tb] a well-formed table with three dictionary dimensions and the policies MIN / [rp] ([Common]).  A tag
    [((sl, ml), (sr, mr))] of the model is [ChildrenAssignment (Some (ObjectAssignment sl ml)) (Some (..))] ([tag_ca]).

    STAGE 1 ([Stage1], [Rename]).  [gen_make_prec_graph_eq]: the generated [_make_prec_graph] equals
    [Toposort.make_prec_graph] on the values of the dictionary, errors included (IndexError on an empty leaf synteny);
    [gen_root_orders_spec_perm]: for every iteration order of the dictionary, of the successor sets and of the sets
    [toposort_all] builds, the generated [toposort_all] on the generated graph returns a permutation of
    [Spfs.root_orders o]; [gen_root_orders_empty_synteny]; [Rename.prec_rename_N] / [toposort_all_rename_N]: the same
    functions at the family type [N] (the instance [_spfs] calls) are the [nat] instance renamed by [N.of_nat].
    STAGE 2 ([Keys], [ModelO], [ModelPerm], [Entry]).  [Entry.gen_compute_spfs_entry_eq]: one call of the generated
    [_compute_spfs_entry] never fails, writes [cell_upd3 rp e0 batch] into the cell [(object, species, mask)], leaves
    every other cell and key list alone and appends the mask to the key list of [table[object][species]] exactly when the
    batch has a finite candidate and the mask is not yet a key; [batch = ModelO.sbatch_o ..] is the candidate list of
    [Spfs.scell] with the existing child cells enumerated in the order of the code (species in level order, masks in
    insertion order) instead of [skeys] ([ModelO.scell_o_eq]); [ModelPerm.scell_o_sim]: the enumeration order does not
    matter -- same value for every policy, same tags as a set under ALL ([scell_o_sim_val], [scell_o_sim_tags_perm]).
    [Keys]: [TableProxy.keys] / [__iter__] as generated, and what reading / updating the table does to key lists.
    STAGE 3 ([TableO], [TableExact], [TableModel], [Embed], [TableFinal]).  [TableExact.gen_compute_spfs_table_eq]: for any
    callbacks allowing distinct species nodes and distinct masks, every cell of the generated table is [TableO.tcell3]
    and every key list [TableO.tkeys3] (the table for the orders of the code); [TableModel.tcell3_model] (+ [_val],
    [_tags]): [tcell3] against [Spfs.spfs_table] up to the order of enumeration; [TableFinal.gen_compute_spfs_table_extended]
    / [_base]: for the callbacks of the two entry points every cell of the generated table has the VALUE of the model's cell
    for every retention policy, empty tags exactly when the model's are, and under ALL the model's tags up to a permutation
    (hypotheses: [nn (c_hgt c)], distinct node identifiers, leaf species in [S]; [Example3]: satisfiable, generated code run).
    STAGE 4 ([Decode], [SpfsLink]).  [Decode]: the exact layer -- [gen_decode_spfs_eq] (the generator as a list, IndexError
    included), [soutput_cost_eq] (the evaluator of [Gen/EvalGen.v]), [gen_spfs_exact] / [gen_spfs_eq] (root orders, tables,
    root species in level order, every failure propagated), the two entry points ([gen_sreconcile_extended_spfs_eq],
    [gen_sreconcile_base_spfs_eq] with [gen_reconcile_lca_super_eq], [base_species_eq]); [SpfsLink]: the link to
    [Spfs.sdecode] / [spfs_candidates] / [spfs .. RALL] (see that part for what is proved).

    No generated function can fail on well-formed inputs except where the model says so: the theorems have the form
    [gen_f .. = Ok ..] or state the error.  In particular TypeError (a key of the third dimension that is not a mask),
    ValueError / IndexError (children of a leaf), KeyError / AttributeError (nested dictionaries, a tag with a missing
    assignment) do not arise. *)

From Coq Require Import List Bool Arith ZArith NArith Lia Permutation.
From SR Require Gen.SpfsGen Gen.ToposortGen Model.Toposort Proofs.ToposortProofs Proofs.ToposortGenProofs Model.Recon Model.Spfs Base.PathB Base.Ext Model.Subseq Model.Entry Model.LcaRec Model.Thl Proofs.PathFacts Proofs.EntryProofs Proofs.EntryGenProofs Proofs.TableGenProofs Gen.EntryGen Gen.TableGen Gen.EvalGen Proofs.ThlProofs Proofs.SpfsProofs Proofs.ThlGenProofs Proofs.EvalGenProofs Gen.ThlGen Proofs.ReconProofs Proofs.LcaProofs.

(* ====================================================================== *)
Module Stage1.
(** Tie of the generated [_make_prec_graph] (SR.Gen.SpfsGen.Prec) to the model [make_prec_graph],
    and the root orders computed from it by the generated [toposort_all]. *)


Import SR.Model.Toposort SR.Proofs.ToposortProofs SR.Proofs.ToposortGenProofs.

Import ListNotations.

Module P := SR.Gen.SpfsGen.Prec.

(* ------------------------------------------------------------------ *)
(** * Conversion of results *)

Definition pcerr {X : Type} (e : P.err) : tres X :=
  match e with
  | P.IndexError => TIndexError
  | P.OutOfFuel => TOutOfFuel
  | P.KeyError => TKeyError
  end.

Definition pcres {X : Type} (r : P.res X) : tres X :=
  match r with P.Ok x => TOk x | P.Err e => pcerr e end.

Definition pcflow {X : Type} (f : P.flow X X) : tres X :=
  match f with P.Next p => TOk p | P.Ret r => TOk r | P.Fail e => pcerr e end.

(* ------------------------------------------------------------------ *)
(** * Containers *)

Lemma pc_adict_get_eq {V} (m : list (nat * V)) k : P.adict_get Nat.eqb m k = lookup m k.
Proof. induction m as [|[k' a] m IH]; simpl; [reflexivity|]. now rewrite IH. Qed.

Lemma pc_set_mem_eq x l : P.set_mem Nat.eqb x l = memb x l.
Proof. induction l as [|y l IH]; simpl; [reflexivity|]. now rewrite IH. Qed.

Lemma pc_set_add_eq x l : P.set_add Nat.eqb x l = set_add x l.
Proof. unfold P.set_add, set_add. now rewrite pc_set_mem_eq. Qed.

Lemma pc_adict_set_absent {V} (m : list (nat * V)) k v :
  lookup m k = None -> P.adict_set Nat.eqb m k v = m ++ [(k, v)].
Proof.
  induction m as [|[k' a] m IH]; simpl; [reflexivity|].
  destruct (Nat.eqb k k'); [discriminate|]. intros H. now rewrite IH.
Qed.

Lemma pc_lookup_app_new {V} (m : list (nat * V)) k v :
  lookup m k = None -> lookup (m ++ [(k, v)]) k = Some v.
Proof.
  induction m as [|[k' a] m IH]; simpl.
  - intros _. now rewrite Nat.eqb_refl.
  - destruct (Nat.eqb k k'); [discriminate|]. exact IH.
Qed.

Lemma pc_add_succ_eq (m : list (nat * list nat)) k v old : lookup m k = Some old ->
  P.adict_set Nat.eqb m k (P.set_add Nat.eqb v old) = add_succ m k v.
Proof.
  induction m as [|[k' ss] m IH]; simpl; [discriminate|].
  destruct (Nat.eqb k k').
  - intros H. injection H as ->. now rewrite pc_set_add_eq.
  - intros H. now rewrite (IH H).
Qed.

(* [if k not in prec: prec[k] = set()] *)
Lemma pc_ensure_key_eq (prec : list (nat * list nat)) k :
  (if negb (P.adict_mem Nat.eqb prec k) then P.adict_set Nat.eqb prec k [] else prec) = ensure_key prec k.
Proof.
  unfold P.adict_mem, ensure_key, node. rewrite pc_adict_get_eq.
  destruct (lookup prec k) as [old|] eqn:E; cbn [negb]; [reflexivity|].
  exact (pc_adict_set_absent prec k [] E).
Qed.

Lemma pc_lookup_ensure_key (prec : list (nat * list nat)) k : exists old, lookup (ensure_key prec k) k = Some old.
Proof.
  unfold ensure_key, node. destruct (lookup prec k) as [old|] eqn:E.
  - exists old. exact E.
  - exists []. exact (pc_lookup_app_new prec k [] E).
Qed.

(* ------------------------------------------------------------------ *)
(** * The inner loop *)

Lemma pc_if_ensure {T} (prec : list (nat * list nat)) k (f : list (nat * list nat) -> T) :
  (if negb (P.adict_mem Nat.eqb prec k) then f (P.adict_set Nat.eqb prec k []) else f prec) = f (ensure_key prec k).
Proof. rewrite <- (pc_ensure_key_eq prec k). destruct (negb (P.adict_mem Nat.eqb prec k)); reflexivity. Qed.

(* one iteration; the [KeyError] branch of [prec[gene_1].add(gene_2)] never fires *)
Lemma prec_for2_cons (x y : nat) (it : list (nat * nat)) (prec : list (nat * list nat)) :
  P.gen_make_prec_graph_for2 Nat.eqb ((x, y) :: it) prec =
  P.gen_make_prec_graph_for2 Nat.eqb it (add_succ (ensure_key prec x) x y).
Proof.
  destruct (pc_lookup_ensure_key prec x) as [old Hold].
  transitivity (match P.adict_get Nat.eqb (ensure_key prec x) x with
                | None => P.Fail P.KeyError
                | Some t => P.gen_make_prec_graph_for2 Nat.eqb it
                              (P.adict_set Nat.eqb (ensure_key prec x) x (P.set_add Nat.eqb y t))
                end).
  - exact (pc_if_ensure prec x (fun p =>
      match P.adict_get Nat.eqb p x with
      | None => P.Fail P.KeyError
      | Some t => P.gen_make_prec_graph_for2 Nat.eqb it (P.adict_set Nat.eqb p x (P.set_add Nat.eqb y t))
      end)).
  - rewrite pc_adict_get_eq, Hold. f_equal. exact (pc_add_succ_eq _ x y old Hold).
Qed.

Lemma prec_zget_last {X} : forall (s : list X) (x d : X), P.zget (x :: s) (-1)%Z = Some (last (x :: s) d).
Proof.
  intros s x d. unfold P.zget, P.zpos.
  replace (Z.leb 0 (-1)) with false by reflexivity.
  assert (Z.leb 0 (Z.of_nat (length (x :: s)) + -1) = true) as H1.
  { apply Z.leb_le. cbn [length]. lia. }
  rewrite H1.
  replace (Z.to_nat (Z.of_nat (length (x :: s)) + -1)) with (length s) by (cbn [length]; lia).
  clear H1. revert x. induction s as [|y s IH]; intros x; [reflexivity|].
  cbn [length nth_error]. rewrite (IH y). reflexivity.
Qed.

Lemma prec_zget_nil {X} : P.zget (@nil X) (-1)%Z = None.
Proof. reflexivity. Qed.

(* the pairs loop of a non-empty synteny, followed by [ensure_key] on its last element, is [prec_leaf] *)
Lemma prec_for2_leaf : forall (s : list nat) (x : nat) (prec : list (nat * list nat)),
  exists p, P.gen_make_prec_graph_for2 Nat.eqb (combine (removelast (x :: s)) (skipn 1 (x :: s))) prec = P.Next p /\
            forall d, prec_leaf prec (x :: s) = TOk (ensure_key p (last (x :: s) d)).
Proof.
  induction s as [|y s IH]; intros x prec.
  - exists prec. split; [reflexivity|]. intros d. reflexivity.
  - destruct (IH y (add_succ (ensure_key prec x) x y)) as [p [E1 E2]].
    exists p. split.
    + change (removelast (x :: y :: s)) with (x :: removelast (y :: s)).
      change (skipn 1 (x :: y :: s)) with (y :: s).
      cbn [combine]. rewrite prec_for2_cons.
      change (skipn 1 (y :: s)) with s in E1. exact E1.
    + intros d.
      change (prec_leaf prec (x :: y :: s)) with (prec_leaf (add_succ (ensure_key prec x) x y) (y :: s)).
      rewrite (E2 d). reflexivity.
Qed.

(* ------------------------------------------------------------------ *)
(** * The outer loop *)

Lemma prec_for1_eq : forall (leaves : list (list nat)) (prec : list (nat * list nat)),
  pcflow (P.gen_make_prec_graph_for1 Nat.eqb leaves prec) = fold_res prec_leaf leaves prec.
Proof.
  induction leaves as [|s leaves IH]; intros prec; [reflexivity|].
  cbn [P.gen_make_prec_graph_for1 fold_res].
  destruct s as [|x s].
  - reflexivity.
  - destruct (prec_for2_leaf s x prec) as [p [E1 E2]].
    rewrite E1, (E2 x). cbn [tbind]. rewrite (prec_zget_last s x x).
    rewrite <- (IH (ensure_key p (last (x :: s) x))). f_equal.
    exact (pc_if_ensure p (last (x :: s) x) (fun q => P.gen_make_prec_graph_for1 Nat.eqb leaves q)).
Qed.

Theorem gen_make_prec_graph_eq : forall (items : list (nat * list nat)),
  pcres (P.gen_make_prec_graph Nat.eqb items) = make_prec_graph (map snd items).
Proof.
  intros items. unfold P.gen_make_prec_graph, make_prec_graph.
  transitivity (pcflow (P.gen_make_prec_graph_for1 Nat.eqb (map snd items) [])).
  - destruct (P.gen_make_prec_graph_for1 Nat.eqb (map snd items) []); reflexivity.
  - exact (prec_for1_eq (map snd items) []).
Qed.
Print Assumptions gen_make_prec_graph_eq.

Lemma gen_make_prec_graph_ok (items : list (nat * list nat)) (g : list (nat * list nat)) : make_prec_graph (map snd items) = TOk g ->
  P.gen_make_prec_graph Nat.eqb items = P.Ok g.
Proof.
  intros E. rewrite <- gen_make_prec_graph_eq in E.
  destruct (P.gen_make_prec_graph Nat.eqb items) as [g'|[]]; try discriminate.
  injection E as ->. reflexivity.
Qed.

Lemma gen_make_prec_graph_indexerror (items : list (nat * list nat)) : make_prec_graph (map snd items) = TIndexError ->
  P.gen_make_prec_graph Nat.eqb items = P.Err P.IndexError.
Proof.
  intros E. rewrite <- gen_make_prec_graph_eq in E.
  destruct (P.gen_make_prec_graph Nat.eqb items) as [g'|[]]; try discriminate. reflexivity.
Qed.

(* ------------------------------------------------------------------ *)
(** * Successor sets iterated in an order Python chooses *)

Definition reorder (sord : list nat -> list nat) (g : graph) : graph :=
  map (fun '(k, ss) => (k, sord ss)) g.

Lemma gen_root_orders_reorder_keys sord g : keys (reorder sord g) = keys g.
Proof.
  unfold keys, reorder. rewrite map_map. apply map_ext. intros [k ss]. reflexivity.
Qed.

Lemma gen_root_orders_reorder_edge sord g u v : set_order sord ->
  edge (reorder sord g) u v <-> edge g u v.
Proof.
  intros Hs. unfold edge, reorder. split.
  - intros [ss [Hin Hv]]. apply in_map_iff in Hin as [[k ss'] [Heq Hin]].
    injection Heq as -> <-. exists ss'. split; [exact Hin|].
    exact (Permutation_in v (Hs ss') Hv).
  - intros [ss [Hin Hv]]. exists (sord ss). split.
    + apply in_map_iff. exists (u, ss). split; [reflexivity|exact Hin].
    + exact (Permutation_in v (Permutation_sym (Hs ss)) Hv).
Qed.

Lemma gen_root_orders_reorder_wf sord g : set_order sord -> wf g -> wf (reorder sord g).
Proof.
  intros Hs [Hnd Hcl]. split.
  - rewrite gen_root_orders_reorder_keys. exact Hnd.
  - intros u v He. rewrite gen_root_orders_reorder_keys. apply (Hcl u v).
    apply (gen_root_orders_reorder_edge sord g u v Hs). exact He.
Qed.

Lemma gen_root_orders_reorder_topo sord g l : set_order sord ->
  topo (reorder sord g) l <-> topo g l.
Proof.
  intros Hs. unfold topo. rewrite gen_root_orders_reorder_keys. split.
  - intros [Hp Hb]. split; [exact Hp|]. intros u v He. apply Hb.
    apply (gen_root_orders_reorder_edge sord g u v Hs). exact He.
  - intros [Hp Hb]. split; [exact Hp|]. intros u v He. apply Hb.
    apply (gen_root_orders_reorder_edge sord g u v Hs). exact He.
Qed.

(* ------------------------------------------------------------------ *)
(** * The root orders *)

Lemma gen_root_orders_family_perm (l1 l2 : list (list node)) x : Permutation l1 l2 ->
  family l1 x -> family l2 x.
Proof.
  intros Hp [s [Hs Hx]]. exists s. split; [exact (Permutation_in s Hp Hs)|exact Hx].
Qed.

(* the orderings of the precedence graph depend only on the set of leaf syntenies *)
Lemma gen_root_orders_topo_perm l1 l2 g1 g2 : Permutation l1 l2 ->
  make_prec_graph l1 = TOk g1 -> make_prec_graph l2 = TOk g2 ->
  forall l, topo g1 l <-> topo g2 l.
Proof.
  intros Hp E1 E2 l.
  destruct (ToposortProofs.root_orders l1 g1 E1) as [_ H1].
  destruct (ToposortProofs.root_orders l2 g2 E2) as [_ H2].
  rewrite (H1 l), (H2 l).
  assert (forall a b : list (list node), Permutation a b ->
    NoDup l /\ (forall x, In x l <-> family a x) /\ (forall s, In s a -> SubseqProofs.Subseq s l) ->
    NoDup l /\ (forall x, In x l <-> family b x) /\ (forall s, In s b -> SubseqProofs.Subseq s l)) as Hdir.
  { intros a b Hab [Hn [Hf Hs]]. split; [exact Hn|]. split.
    - intros x. rewrite (Hf x). split.
      + apply gen_root_orders_family_perm. exact Hab.
      + apply gen_root_orders_family_perm. apply Permutation_sym. exact Hab.
    - intros s Hin. apply Hs. exact (Permutation_in s (Permutation_sym Hab) Hin). }
  split; [apply Hdir; exact Hp | apply Hdir; apply Permutation_sym; exact Hp].
Qed.

Theorem gen_root_orders_spec_perm :
  forall (o : Recon.otree) (ord sord : list nat -> list nat) (items : list (nat * list nat)),
  set_order ord -> set_order sord ->
  Permutation (map snd items) (map (map N.to_nat) (Spfs.leaf_syns o)) ->
  (forall s, In s (Spfs.leaf_syns o) -> s <> []) ->
  exists g R orders,
    P.gen_make_prec_graph Nat.eqb items = P.Ok g /\
    G.gen_toposort_all Nat.eqb ord (reorder sord g) = G.Ok R /\
    Spfs.root_orders o = Some orders /\
    Permutation (map (map N.of_nat) R) orders.
Proof.
  intros o ord sord items Hord Hsord Hitems Hne.
  remember (map (map N.to_nat) (Spfs.leaf_syns o)) as leaves eqn:Hl.
  assert (forall s, In s leaves -> s <> []) as Hne2.
  { intros s Hs. rewrite Hl in Hs. apply in_map_iff in Hs as [s0 [<- Hs0]].
    specialize (Hne s0 Hs0). destruct s0; [exfalso; apply Hne; reflexivity|discriminate]. }
  assert (forall s, In s (map snd items) -> s <> []) as Hne1.
  { intros s Hs. apply Hne2. exact (Permutation_in s Hitems Hs). }
  destruct (make_prec_graph_total (map snd items) Hne1) as [g Eg].
  destruct (make_prec_graph_total leaves Hne2) as [g2 Eg2].
  destruct (ToposortProofs.root_orders (map snd items) g Eg) as [Hwf _].
  destruct (ToposortProofs.root_orders leaves g2 Eg2) as [Hwf2 _].
  pose proof (gen_root_orders_topo_perm _ _ g g2 Hitems Eg Eg2) as Htopo.
  destruct (gen_toposort_all_spec ord (reorder sord g)
              (gen_root_orders_reorder_wf sord g Hsord Hwf) Hord) as (R & ER & HndR & HinR).
  destruct (toposort_all_total g2 Hwf2 (fun s => s) set_order_id) as [R2 ER2].
  pose proof (toposort_all_nodup g2 Hwf2 (fun s => s) set_order_id R2 ER2) as HndR2.
  pose proof (toposort_all_complete_sound g2 Hwf2 (fun s => s) set_order_id R2 ER2) as HinR2.
  exists g, R, (map (map N.of_nat) R2).
  split; [exact (gen_make_prec_graph_ok items g Eg)|].
  split; [exact ER|]. split.
  - unfold Spfs.root_orders. rewrite <- Hl, Eg2. unfold toposort_all. rewrite ER2. reflexivity.
  - apply Permutation_map. apply NoDup_Permutation; [exact HndR|exact HndR2|].
    intros l. rewrite (HinR l), (HinR2 l), (gen_root_orders_reorder_topo sord g l Hsord). apply Htopo.
Qed.
Print Assumptions gen_root_orders_spec_perm.

Theorem gen_root_orders_spec :
  forall (o : Recon.otree) (ord sord : list nat -> list nat) (items : list (nat * list nat)),
  set_order ord -> set_order sord ->
  map snd items = map (map N.to_nat) (Spfs.leaf_syns o) ->
  (forall s, In s (Spfs.leaf_syns o) -> s <> []) ->
  exists g R orders,
    P.gen_make_prec_graph Nat.eqb items = P.Ok g /\
    G.gen_toposort_all Nat.eqb ord (reorder sord g) = G.Ok R /\
    Spfs.root_orders o = Some orders /\
    Permutation (map (map N.of_nat) R) orders.
Proof.
  intros o ord sord items Hord Hsord Hitems Hne.
  apply gen_root_orders_spec_perm; try assumption. rewrite Hitems. apply Permutation_refl.
Qed.
Print Assumptions gen_root_orders_spec.

(* ------------------------------------------------------------------ *)
(** * An empty leaf synteny: [leaf_synteny[-1]] raises [IndexError] *)

Lemma prec_leaf_cases : forall (s : list node) (prec : graph),
  (s = [] /\ prec_leaf prec s = TIndexError) \/ (s <> [] /\ exists p, prec_leaf prec s = TOk p).
Proof.
  induction s as [|x s IH]; intros prec; [left; split; reflexivity|].
  right. split; [discriminate|]. destruct s as [|y s].
  - eexists. reflexivity.
  - destruct (IH (add_succ (ensure_key prec x) x y)) as [[H _]|[_ [p Hp]]]; [discriminate|].
    exists p. exact Hp.
Qed.

Lemma prec_fold_empty : forall (leaves : list (list node)) (prec : graph),
  In [] leaves -> fold_res prec_leaf leaves prec = TIndexError.
Proof.
  induction leaves as [|s leaves IH]; intros prec Hin; [destruct Hin|].
  cbn [fold_res]. destruct (prec_leaf_cases s prec) as [[-> E]|[Hs [p Hp]]].
  - reflexivity.
  - rewrite Hp. cbn [tbind]. apply IH. destruct Hin as [H|H]; [congruence|exact H].
Qed.

(* and conversely: [make_prec_graph] raises exactly when some synteny is empty *)
Lemma prec_make_prec_graph_indexerror_iff leaves :
  make_prec_graph leaves = TIndexError <-> In [] leaves.
Proof.
  split.
  - intros E. destruct (in_dec (list_eq_dec Nat.eq_dec) [] leaves) as [H|H]; [exact H|].
    exfalso. destruct (make_prec_graph_total leaves) as [g Eg].
    + intros s Hs ->. exact (H Hs).
    + rewrite Eg in E. discriminate.
  - intros H. exact (prec_fold_empty leaves [] H).
Qed.

Theorem gen_root_orders_empty_synteny :
  forall (o : Recon.otree) (items : list (nat * list nat)),
  map snd items = map (map N.to_nat) (Spfs.leaf_syns o) ->
  In [] (Spfs.leaf_syns o) ->
  Spfs.root_orders o = None /\ P.gen_make_prec_graph Nat.eqb items = P.Err P.IndexError.
Proof.
  intros o items Hitems Hin.
  assert (make_prec_graph (map (map N.to_nat) (Spfs.leaf_syns o)) = TIndexError) as E.
  { apply prec_make_prec_graph_indexerror_iff.
    change (@nil node) with (map N.to_nat []). apply in_map. exact Hin. }
  split.
  - unfold Spfs.root_orders. rewrite E. reflexivity.
  - apply gen_make_prec_graph_indexerror. rewrite <- E. f_equal. exact Hitems.
Qed.
Print Assumptions gen_root_orders_empty_synteny.

(* ------------------------------------------------------------------ *)
(** * Non-vacuity *)

Definition gen_root_orders_ex_tree : Recon.otree :=
  Recon.ONode (Recon.ONode (Recon.OLeaf [] [1; 2; 4]%N) (Recon.OLeaf [] [3; 2]%N)) (Recon.OLeaf [] [2; 4; 5]%N).
Definition gen_root_orders_ex_items : list (nat * list nat) :=
  [(10, [1; 2; 4]); (11, [3; 2]); (12, [2; 4; 5])].

Lemma gen_root_orders_set_order_rev : set_order (@rev nat).
Proof. intros s. apply Permutation_sym. apply Permutation_rev. Qed.

Example gen_root_orders_ex :
  set_order (fun s => s) /\ set_order (@rev nat) /\
  map snd gen_root_orders_ex_items = map (map N.to_nat) (Spfs.leaf_syns gen_root_orders_ex_tree) /\
  (forall s, In s (Spfs.leaf_syns gen_root_orders_ex_tree) -> s <> []) /\
  P.gen_make_prec_graph Nat.eqb gen_root_orders_ex_items
    = P.Ok [(1, [2]); (2, [4]); (4, [5]); (3, [2]); (5, [])] /\
  G.gen_toposort_all Nat.eqb (fun s => s) (reorder (@rev nat) [(1, [2]); (2, [4]); (4, [5]); (3, [2]); (5, [])])
    = G.Ok [[1; 3; 2; 4; 5]; [3; 1; 2; 4; 5]] /\
  G.gen_toposort_all Nat.eqb (@rev nat) (reorder (@rev nat) [(1, [2]); (2, [4]); (4, [5]); (3, [2]); (5, [])])
    = G.Ok [[3; 1; 2; 4; 5]; [1; 3; 2; 4; 5]] /\
  Spfs.root_orders gen_root_orders_ex_tree = Some [[1; 3; 2; 4; 5]; [3; 1; 2; 4; 5]]%N.
Proof.
  split; [exact set_order_id|]. split; [exact gen_root_orders_set_order_rev|].
  split; [reflexivity|]. split.
  - intros s Hs. cbn in Hs. destruct Hs as [<- | [<- | [<- | []]]]; discriminate.
  - repeat split; vm_compute; reflexivity.
Qed.

Example gen_root_orders_ex_empty :
  Spfs.root_orders (Recon.ONode (Recon.OLeaf [] [1; 2]%N) (Recon.OLeaf [] [])) = None /\
  P.gen_make_prec_graph Nat.eqb [(0, [1; 2]); (1, [])] = P.Err P.IndexError.
Proof. apply gen_root_orders_empty_synteny; [reflexivity|]. right; left; reflexivity. Qed.
End Stage1.

(* ====================================================================== *)
Module Common.
(** Stage 2-3 common definitions: conversions between the model's tags and the generated records, the three-dimensional
    table of the solver read through [Proofs/TableGenProofs.v]. *)

Import SR.Base.PathB SR.Base.Ext SR.Model.Subseq SR.Model.Entry SR.Model.Recon SR.Model.LcaRec SR.Model.Thl SR.Model.Spfs SR.Proofs.PathFacts SR.Proofs.EntryProofs SR.Proofs.EntryGenProofs SR.Proofs.TableGenProofs.

Import ListNotations.
Local Open Scope Z_scope.
Module SG := SR.Gen.SpfsGen.
Module TG := SR.Gen.TableGen.
Module EV := SR.Gen.EvalGen.
Module EG := SR.Gen.EntryGen.

(** * Tags: [sassign] / [stag] of the model as [ObjectAssignment] / [ChildrenAssignment] of the code *)
Notation oa := (@SG.ObjectAssignment path).
Notation ca := (@SG.ChildrenAssignment path).
Definition oa_of (a : sassign) : oa := SG.mk_ObjectAssignment (fst a) (snd a).
Definition tag_ca (t : stag) : ca := SG.mk_ChildrenAssignment (Some (oa_of (fst t))) (Some (oa_of (snd t))).

Lemma oa_eqb_of a b : SG.ObjectAssignment_eqb path_eqb (oa_of a) (oa_of b) = sassign_eqb a b.
Proof. unfold SG.ObjectAssignment_eqb, sassign_eqb, oa_of. cbn. now rewrite andb_true_r. Qed.
Lemma ca_eqb_tag a b : SG.ChildrenAssignment_eqb path_eqb (tag_ca a) (tag_ca b) = stag_eqb a b.
Proof.
  unfold SG.ChildrenAssignment_eqb, stag_eqb, tag_ca. cbn [SG.ChildrenAssignment_left SG.ChildrenAssignment_right SG.option_eqb].
  now rewrite !oa_eqb_of, andb_true_r.
Qed.

(** * The table: three dictionary dimensions -- object node, species, synteny mask *)
Section Table3.
  Context {node_id : Type} (nid_eqb : node_id -> node_id -> bool).
  Hypothesis nid_eqb_spec : forall a b, reflect (a = b) (nid_eqb a b).
  Notation key := (@SG.key path node_id).
  Notation keqb := (SG.key_eqb path_eqb nid_eqb).
  Notation caeqb := (SG.ChildrenAssignment_eqb path_eqb).
  Notation tstate := (TG.table_state key ca).

  Lemma keqb_spec3 : forall a b : key, reflect (a = b) (keqb a b).
  Proof.
    intros [[x|x]|x] [[y|y]|y]; cbn; try (constructor; congruence).
    - destruct (nid_eqb_spec x y); constructor; congruence.
    - destruct (path_eqb_spec x y); constructor; congruence.
    - destruct (N.eqb_spec x y); constructor; congruence.
  Qed.

  Definition kn (n : node_id) : key := inl (inl n).
  Definition ks (s : path) : key := inl (inr s).
  Definition km (m : N) : key := inr m.
  Definition ck3 (n : node_id) (s : path) (m : N) : list key := [kn n; ks s; km m].
  (** the entry [table[n][s][m]] reads as *)
  Definition gsem3 (tb : tstate) (n : node_id) (s : path) (m : N) : entry ca := sem keqb tb (ck3 n s m).

  Definition inv3 (rp : ret) (tb : tstate) : Prop :=
    twf tb /\ length (TG.table_dimensions tb) = 3%nat /\ TG.table_merge_policy tb = EG.MergePolicy_MIN /\
    TG.table_retention_policy tb = prc rp.

  (** the keys of the dictionary reached by the keys [pre] from the root, in insertion order ([[]] when there is none):
      what [for k in table[k1]..[ki]] iterates *)
  Definition dkeys (tb : tstate) (pre : list key) : list key :=
    match TG.Cell_at keqb pre (TG.table__table tb) with
    | TG.Ok (TG.Cell_dict _ items) => map fst items
    | _ => []
    end.
  (** the masks of the cells [table[n][s][..]] that exist *)
  Definition gkeys (tb : tstate) (n : node_id) (s : path) : list key := dkeys tb [kn n; ks s].
End Table3.
End Common.

(* ====================================================================== *)
Module ModelO.
(** The cell computation of [Model/Spfs.v] with the enumeration of the existing child cells taken as an argument. *)

Import SR.Base.PathB SR.Base.Ext SR.Model.Subseq SR.Model.Entry SR.Model.Recon SR.Model.LcaRec SR.Model.Thl SR.Model.Spfs.
Import ListNotations.
Local Open Scope Z_scope.

Definition one_cands (S : stree) (c : costs) (sub : sassign -> ext) (s : path) (m : N) (k : sassign)
    : list (nat * (ext * option sassign)) :=
  let '(d, cm) := k in
  let cs := seg_dist cm m true in
  if cs <? 0 then []
  else
    let conserv := Fin (cs * c_sloss c) in
    let segment := Fin (seg_dist cm m false * c_sloss c) in
    let sub := sub k in
    if anc s d then
      let above := Fin (dist s d * c_floss c) in
      let v_cons := ext_add (ext_add above sub) conserv in
      let v_seg := ext_add (ext_add above sub) segment in
      let below := Fin (dist s d * c_floss c - c_floss c) in
      let v_side := ext_add (ext_add below sub) conserv in
      [(2%nat, (v_cons, Some k)); (3%nat, (v_seg, Some k))]
      ++ (if sleaf S s then []
          else if anc (s ++ [false]) d then [(0%nat, (v_side, Some k))]
          else if anc (s ++ [true]) d then [(1%nat, (v_side, Some k))]
          else [])
    else if negb (anc d s) then [(4%nat, (ext_add sub segment, Some k))]
    else [].

Definition pick_o (i : nat) (all : list (nat * (ext * option sassign))) : list (ext * option sassign) :=
  map snd (filter (fun x => Nat.eqb (fst x) i) all).

Definition choices_o (S : stree) (c : costs) (rp : ret) (sub : sassign -> ext) (s : path) (m : N) (ks : list sassign) : choices :=
  let all := flat_map (one_cands S c sub s m) ks in
  {| ch_left := aggp rp (pick_o 0%nat all); ch_right := aggp rp (pick_o 1%nat all); ch_conserved := aggp rp (pick_o 2%nat all);
     ch_segment := aggp rp (pick_o 3%nat all); ch_separate := aggp rp (pick_o 4%nat all) |}.

Definition sbatch_o (S : stree) (c : costs) (rp : ret) (subA subB : sassign -> ext) (ksA ksB : list sassign) (s : path) (m : N)
    : list (ext * option stag) :=
  let p0 := choices_o S c rp subA s m ksA in
  let p1 := choices_o S c rp subB s m ksB in
  let spe := Fin (c_spe c) in let dup := Fin (c_dup c) in let hgt := c_hgt c in
  comb2 rp spe (ch_left p0) (ch_right p1) ++ comb2 rp spe (ch_right p0) (ch_left p1)
  ++ comb2 rp dup (ch_conserved p0) (ch_segment p1) ++ comb2 rp dup (ch_segment p0) (ch_conserved p1)
  ++ comb2 rp hgt (ch_conserved p0) (ch_separate p1) ++ comb2 rp hgt (ch_separate p0) (ch_conserved p1).

Definition scell_o (S : stree) (c : costs) (rp : ret) (subA subB : sassign -> ext) (ksA ksB : list sassign) (s : path) (m : N)
    : entry stag := first_write rp (sbatch_o S c rp subA subB ksA ksB s m).

Lemma child_choices_o_eq S c rp t s m : child_choices S c rp t s m = choices_o S c rp (fun k => val (sread t k)) s m (skeys t).
Proof. reflexivity. Qed.
Lemma scell_o_eq S c rp ta tb s m :
  scell S c rp ta tb s m = scell_o S c rp (fun k => val (sread ta k)) (fun k => val (sread tb k)) (skeys ta) (skeys tb) s m.
Proof. reflexivity. Qed.
End ModelO.

(* ====================================================================== *)
Module Keys.
(** The key lists (insertion order) of the inner dictionaries of the generated table: what [TableProxy.keys] /
    [__iter__] return, and how reading through proxies ([walk]) and [EntryProxy.update] / [TableProxy.__setitem__]
    change them.  Companion of [Proofs/TableGenProofs.v], which only speaks of the entries under full keys. *)

Import SR.Base.PathB SR.Base.Ext SR.Model.Subseq SR.Model.Entry SR.Model.Recon SR.Model.LcaRec SR.Model.Thl SR.Model.Spfs SR.Proofs.PathFacts SR.Proofs.EntryProofs SR.Proofs.EntryGenProofs SR.Proofs.TableGenProofs.

Import Common.
Import ListNotations.

(* ------------------------------------------------------------------ *)
(** * Key lists of cells, any number of dimensions *)
Section CKeys.
  Context {K A : Type} (keqb : K -> K -> bool).
  Hypothesis keqb_spec : forall a b, reflect (a = b) (keqb a b).
  Notation cell := (G.Cell K A).

  (** the keys of the dictionary reached from [c] by the keys [q], in insertion order; [[]] when there is none *)
  Definition ckeys (q : list K) (c : cell) : list K :=
    match G.Cell_at keqb q c with
    | G.Ok (G.Cell_dict _ items) => map fst items
    | _ => []
    end.

  (** equality of lists of keys *)
  Fixpoint leqb (a b : list K) : bool :=
    match a, b with
    | [], [] => true
    | x :: a', y :: b' => keqb x y && leqb a' b'
    | _, _ => false
    end.

  Lemma leqb_spec a : forall b, reflect (a = b) (leqb a b).
  Proof.
    induction a as [|x a IH]; intros [|y b]; cbn; try (constructor; congruence).
    destruct (keqb_spec x y) as [->|N]; cbn; [|constructor; congruence].
    destruct (IH b) as [->|N]; constructor; congruence.
  Qed.
  Lemma leqb_refl a : leqb a a = true.
  Proof. destruct (leqb_spec a a); congruence. Qed.
  Lemma leqb_neq a b : a <> b -> leqb a b = false.
  Proof. intros N. destruct (leqb_spec a b); congruence. Qed.

  (** [l] once [k] has been inserted (if it was not there) *)
  Definition add_key (l : list K) (k : K) : list K := if existsb (keqb k) l then l else l ++ [k].

  (** ** association lists: the keys *)
  Lemma set_keys_present {V} (l : list (K * V)) k v v0 :
    G.adict_get keqb l k = Some v0 -> map fst (G.adict_set keqb l k v) = map fst l.
  Proof.
    induction l as [|[k' v'] l IH]; cbn; [discriminate|].
    destruct (keqb k k') eqn:E; cbn; [reflexivity|]. intros H. now rewrite IH.
  Qed.
  Lemma set_keys_absent {V} (l : list (K * V)) k v :
    G.adict_get keqb l k = None -> map fst (G.adict_set keqb l k v) = map fst l ++ [k].
  Proof.
    induction l as [|[k' v'] l IH]; cbn; [reflexivity|].
    destruct (keqb k k') eqn:E; cbn; [discriminate|]. intros H. now rewrite IH.
  Qed.
  Lemma get_existsb {V} (l : list (K * V)) k :
    existsb (keqb k) (map fst l) = match G.adict_get keqb l k with Some _ => true | None => false end.
  Proof.
    induction l as [|[k' v'] l IH]; cbn; [reflexivity|]. destruct (keqb k k'); cbn; [reflexivity|exact IH].
  Qed.
  Lemma existsb_In (l : list K) k : existsb (keqb k) l = true <-> In k l.
  Proof.
    rewrite existsb_exists. split.
    - intros [x [Hi Hx]]. destruct (keqb_spec k x); [now subst|discriminate].
    - intros Hi. exists k. split; [exact Hi|]. destruct (keqb_spec k k); congruence.
  Qed.

  (** ** [ckeys] *)
  Lemma ckeys_cons k q env items :
    ckeys (k :: q) (G.Cell_dict env items) = match G.adict_get keqb items k with Some v => ckeys q v | None => [] end.
  Proof. unfold ckeys. cbn. destruct (G.adict_get keqb items k); reflexivity. Qed.
  Lemma ckeys_at p r (c v : cell) : G.Cell_at keqb p c = G.Ok v -> ckeys (p ++ r) c = ckeys r v.
  Proof. intros E. unfold ckeys. now rewrite (at_app keqb p c v r E). Qed.
  Lemma ckeys_at0 p (c v : cell) : G.Cell_at keqb p c = G.Ok v -> ckeys p c = ckeys [] v.
  Proof. intros E. rewrite <- (app_nil_r p) at 1. now apply ckeys_at. Qed.

  (** a fresh cell has no keys anywhere *)
  Lemma generate_keys d (c : cell) : G.gen_generate_table d = G.Ok c -> forall r, ckeys r c = [].
  Proof.
    destruct d as [|x rem]; cbn; intros E; inversion E; subst; intros [|k r]; reflexivity.
  Qed.

  Lemma prefix_dec (p : list K) : forall q, (exists r, q = p ++ r) \/ (forall r, q <> p ++ r).
  Proof.
    induction p as [|x p IH]; intros q; [left; exists q; reflexivity|].
    destruct q as [|y q]; [right; intros r; discriminate|].
    destruct (keqb_spec y x) as [->|N]; [|right; intros r E; cbn in E; congruence].
    destruct (IH q) as [[r ->]|H]; [left; exists r; reflexivity|].
    right. intros r E. cbn in E. inversion E. now apply (H r).
  Qed.

  (** ** [Cell_alter]: what it is made of, and the key lists away from the path *)
  Lemma alter_inv f path : forall (c c' : cell), G.Cell_alter keqb f path c = G.Ok c' ->
    exists v v', G.Cell_at keqb path c = G.Ok v /\ f v = G.Ok v' /\ G.Cell_at keqb path c' = G.Ok v'.
  Proof.
    induction path as [|k path IH]; intros c c' Ea; cbn in *; [eauto|].
    destruct c as [| |env items]; try discriminate.
    destruct (G.adict_get keqb items k) as [w|] eqn:Eg; [|discriminate].
    destruct (G.Cell_alter keqb f path w) as [w'|] eqn:Ew; [|discriminate]. inversion Ea; subst c'. clear Ea.
    destruct (IH w w' Ew) as [v [v' [E1 [E2 E3]]]]. exists v, v'. repeat split; auto.
    cbn. now rewrite (get_set_same keqb keqb_spec).
  Qed.

  Lemma alter_keys_other f path : forall (c c' : cell), G.Cell_alter keqb f path c = G.Ok c' ->
    forall q, (forall r, q <> path ++ r) -> ckeys q c' = ckeys q c.
  Proof.
    induction path as [|k path IH]; intros c c' Ea q H; cbn in *; [exfalso; now apply (H q)|].
    destruct c as [| |env items]; try discriminate.
    destruct (G.adict_get keqb items k) as [w|] eqn:Eg; [|discriminate].
    destruct (G.Cell_alter keqb f path w) as [w'|] eqn:Ew; [|discriminate]. inversion Ea; subst c'. clear Ea.
    destruct q as [|k2 q].
    - unfold ckeys. cbn. apply (set_keys_present items k w' w Eg).
    - rewrite !ckeys_cons. destruct (keqb_spec k2 k) as [->|N].
      + rewrite (get_set_same keqb keqb_spec), Eg. apply (IH w w' Ew). intros r E. apply (H r). now rewrite E.
      + now rewrite (get_set_other keqb keqb_spec items k k2 w' N).
  Qed.

  (** ** reading [r[k]]: the dictionary [r] gains the key [k] if it is new; no other key list changes *)
  Lemma touch_keys path k (c c' : cell) : G.Cell_touch keqb path k c = G.Ok c' ->
    ckeys path c' = add_key (ckeys path c) k /\ forall q, q <> path -> ckeys q c' = ckeys q c.
  Proof.
    unfold G.Cell_touch. intros Ea. destruct (alter_inv _ _ _ _ Ea) as [v [v' [Ev [Ef Ev']]]].
    pose proof (alter_keys_other _ _ _ _ Ea) as Ho.
    destruct v as [| |env items]; try discriminate. cbn in Ef.
    destruct (G.adict_get keqb items k) as [w|] eqn:Eg.
    - (* the key is there *)
      inversion Ef; subst v'. clear Ef. split.
      + rewrite (ckeys_at0 _ _ _ Ev), (ckeys_at0 _ _ _ Ev'). unfold add_key, ckeys. cbn. now rewrite get_existsb, Eg.
      + intros q N. destruct (prefix_dec path q) as [[r ->]|H]; [|now apply Ho].
        now rewrite (ckeys_at _ r _ _ Ev), (ckeys_at _ r _ _ Ev').
    - destruct (G.gen_generate_table env) as [cn|] eqn:Ec; [|discriminate]. inversion Ef; subst v'. clear Ef.
      pose proof (generate_keys _ _ Ec) as Hn. split.
      + rewrite (ckeys_at0 _ _ _ Ev), (ckeys_at0 _ _ _ Ev'). unfold add_key, ckeys. cbn. rewrite get_existsb, Eg.
        apply set_keys_absent. exact Eg.
      + intros q N. destruct (prefix_dec path q) as [[r ->]|H]; [|now apply Ho].
        rewrite (ckeys_at _ r _ _ Ev), (ckeys_at _ r _ _ Ev').
        destruct r as [|k2 r]; [exfalso; apply N; now rewrite app_nil_r|].
        rewrite !ckeys_cons. destruct (keqb_spec k2 k) as [->|N2].
        * rewrite (get_set_same keqb keqb_spec), Eg. apply Hn.
        * now rewrite (get_set_other keqb keqb_spec items k k2 cn N2).
  Qed.

  (** ** [r[k] = v] on a key that is there: no key list at most as deep as [r] changes *)
  Lemma store_keys path k (w w0 c c' : cell) : G.Cell_at keqb (path ++ [k]) c = G.Ok w0 ->
    G.Cell_store keqb path k w c = G.Ok c' -> forall q, length q <= length path -> ckeys q c' = ckeys q c.
  Proof.
    unfold G.Cell_store. intros E0 Ea q L. destruct (alter_inv _ _ _ _ Ea) as [v [v' [Ev [Ef Ev']]]].
    destruct (prefix_dec path q) as [[r ->]|H]; [|now apply (alter_keys_other _ _ _ _ Ea)].
    assert (r = []) as -> by (rewrite app_length in L; destruct r; [reflexivity|cbn in L; lia]).
    rewrite (ckeys_at _ [] _ _ Ev), (ckeys_at _ [] _ _ Ev').
    rewrite (at_app keqb path c v [k] Ev) in E0.
    destruct v as [| |env items]; try discriminate. cbn in Ef. inversion Ef; subst v'. cbn in E0.
    destruct (G.adict_get keqb items k) as [u|] eqn:Eg; [|discriminate].
    unfold ckeys. cbn. apply (set_keys_present items k w u Eg).
  Qed.

  (** ** [walk]: following keys from a reference *)
  Variables (mp : EG.MergePolicy) (rp : EG.RetentionPolicy) (d : list G.DictDimension).

  Lemma walk_keys_short it : forall (root : cell) entry v, wfc mp rp d root -> G.Cell_at keqb entry root = G.Ok v ->
    length entry + length it <= length d ->
    forall q, length entry + length it <= length q -> ckeys q (walk keqb it root entry) = ckeys q root.
  Proof.
    induction it as [|k it IH]; intros root entry v W E L q Lq; cbn [walk]; [reflexivity|].
    cbn in L, Lq. destruct (touch_ok keqb keqb_spec mp rp entry k d root v W E ltac:(lia)) as [c' [w [Et [Wc [_ [Ac _]]]]]].
    rewrite Et. rewrite (IH c' (entry ++ [k]) w Wc Ac) by (rewrite app_length; cbn; lia).
    destruct (touch_keys _ _ _ _ Et) as [_ Ho]. apply Ho. intros ->. lia.
  Qed.

  Lemma walk_app a : forall b (root : cell) entry v, wfc mp rp d root -> G.Cell_at keqb entry root = G.Ok v ->
    length entry + length a <= length d ->
    walk keqb (a ++ b) root entry = walk keqb b (walk keqb a root entry) (entry ++ a).
  Proof.
    induction a as [|k a IH]; intros b root entry v W E L; cbn [walk app]; [now rewrite app_nil_r|].
    cbn in L. destruct (touch_ok keqb keqb_spec mp rp entry k d root v W E ltac:(lia)) as [c' [w [Et [Wc [_ [Ac _]]]]]].
    rewrite Et. rewrite (IH b c' (entry ++ [k]) w Wc Ac) by (rewrite app_length; cbn; lia).
    now rewrite <- app_assoc.
  Qed.

  (** one more key: the dictionary reached gains it (if new), no other key list changes *)
  Lemma walk_snoc_keys a k (root : cell) : wfc mp rp d root -> length a < length d ->
    ckeys a (walk keqb (a ++ [k]) root []) = add_key (ckeys a (walk keqb a root [])) k /\
    forall q, q <> a -> ckeys q (walk keqb (a ++ [k]) root []) = ckeys q (walk keqb a root []).
  Proof.
    intros W L. rewrite (walk_app a [k] root [] root W eq_refl ltac:(cbn; lia)). cbn [app walk].
    destruct (walk_ok keqb keqb_spec mp rp d a root [] root W eq_refl ltac:(cbn; lia)) as [W1 [_ [[w1 A1] _]]].
    cbn [app] in A1.
    destruct (touch_ok keqb keqb_spec mp rp a k d _ w1 W1 A1 L) as [c' [w [Et _]]]. rewrite Et.
    apply (touch_keys _ _ _ _ Et).
  Qed.
End CKeys.

(* ------------------------------------------------------------------ *)
(** * [EntryProxy.update] and the key lists, any number of dimensions *)
Section UpdKeys.
  Context {K A : Type} (keqb : K -> K -> bool) (eqb : A -> A -> bool).
  Hypothesis keqb_spec : forall a b, reflect (a = b) (keqb a b).
  Notation cell := (G.Cell K A).
  Notation tbl := (G.table_state K A).
  Notation tmp := G.table_merge_policy.
  Notation trp := G.table_retention_policy.
  Notation tdims := G.table_dimensions.
  Notation troot := G.table__table.

  (* the end of [update] (as in TableGenProofs.v), with the key lists *)
  Local Ltac update_tail mp rp d pre k cs r v e Wr Av Ae L Lfull :=
    rewrite ?zget_last; rewrite (touch_present keqb pre k r _ Ae); unfold G.Cell_get; rewrite Ae;
    let Lb := fresh "Lb" in let Pm := fresh "Pm" in let Pr := fresh "Pr" in
    destruct (lookupc_bottom keqb mp rp (pre ++ [k]) d r _ Wr Lfull Ae) as [Lb [Pm Pr]];
    rewrite gen_entry_update_eq; cbn [G.entry_res]; rewrite Pm, Pr;
    let r' := fresh "r'" in let Es := fresh "Es" in let Wr' := fresh "Wr'" in let Lk := fresh "Lk" in let Lo' := fresh "Lo'" in
    let Ks := fresh "Ks" in
    destruct (store_ok keqb keqb_spec mp rp pre k d r v
                (G.Cell_Entry (mk mp rp (update eqb (cmp mp) (crp rp) (ent e) (map ccand cs)))) Wr Av L ltac:(split; reflexivity))
      as [r' [Es [Wr' [Lk [Lo' _]]]]];
    pose proof (store_keys keqb keqb_spec pre k _ _ r r' Ae Es) as Ks;
    rewrite Es; exists (G.mk_table mp rp d r'), (mk mp rp (update eqb (cmp mp) (crp rp) (ent e) (map ccand cs)));
    split; [reflexivity|]; split; [reflexivity|]; split; [reflexivity|];
    split; [reflexivity|]; split; [exact Wr'|]; split; [unfold tlookup; cbn [troot]; rewrite Lk; reflexivity|]; split;
    [rewrite ent_mk
    |split; [intros ks' Hl Hn; unfold tlookup; cbn [troot]; rewrite Lo' by auto
            |intros q Hq; cbn [troot]; rewrite (Ks q) by lia]].

  Theorem update_fin_keys t pre k cs : twf t -> S (length pre) = length (tdims t) -> has_fin cs = true ->
    exists t' e', G.gen_eproxy_update keqb eqb (G.mk_eproxy t (pre ++ [k])) cs = G.Ok (G.mk_eproxy t' (pre ++ [k]), tt) /\
      tmp t' = tmp t /\ trp t' = trp t /\ tdims t' = tdims t /\ twf t' /\
      tlookup keqb t' (pre ++ [k]) = Some e' /\
      ent e' = update eqb (cmp (tmp t)) (crp (trp t)) (sem keqb t (pre ++ [k])) (map ccand cs) /\
      (forall ks', length ks' = length (tdims t) -> ks' <> pre ++ [k] -> tlookup keqb t' ks' = tlookup keqb t ks') /\
      (forall q, length q = length pre ->
         ckeys keqb q (troot t') = if leqb keqb q pre then add_key keqb (ckeys keqb pre (troot t)) k else ckeys keqb q (troot t)).
  Proof.
    intros W L Hf. destruct t as [mp rp d root]. unfold twf in W. cbn in W, L.
    unfold G.gen_eproxy_update. cbv beta iota. fold (has_fin cs). rewrite Hf.
    rewrite removelast_last.
    destruct (walk_ok keqb keqb_spec mp rp d pre root [] root W eq_refl ltac:(cbn; lia)) as [W1 [L1 [[w1 A1] [_ [F2 _]]]]].
    pose proof (walk_keys_short keqb keqb_spec mp rp d pre root [] root W eq_refl ltac:(cbn; lia)) as K1.
    rewrite F2. cbv beta iota. change (@app K [] pre) with pre in *. set (root1 := walk keqb pre root []) in *. clearbody root1.
    assert (Lfull : length (pre ++ [k]) = length d) by (rewrite app_length; cbn; lia).
    rewrite zget_last.
    destruct (touch_ok keqb keqb_spec mp rp pre k d root1 w1 W1 A1 ltac:(lia)) as [root2 [w2 [Et [W2 [L2 [A2 [v2 Av2]]]]]]].
    destruct (touch_keys keqb keqb_spec pre k root1 root2 Et) as [K2a K2b].
    assert (K2 : forall q, length q = length pre ->
              ckeys keqb q root2 = if leqb keqb q pre then add_key keqb (ckeys keqb pre root) k else ckeys keqb q root).
    { intros q Hq. destruct (leqb_spec keqb keqb_spec q pre) as [->|N].
      - rewrite K2a, K1 by (cbn; lia). reflexivity.
      - rewrite (K2b q N), K1 by (cbn; lia). reflexivity. }
    clear K1 K2a K2b.
    rewrite Et. unfold G.Cell_get at 1. rewrite A2.
    destruct (lookupc_bottom keqb mp rp (pre ++ [k]) d root2 w2 W2 Lfull A2) as [Lb Wb].
    assert (Lroot : forall ks, lookupc keqb ks root2 = lookupc keqb ks root) by (intros ks; now rewrite L2, L1).
    cbn [tmp trp tdims troot].
    destruct w2 as [|e|]; [| |destruct Wb]; cbn [G.Cell_is_None].
    - (* the cell holds None: a fresh entry with the policies of the table is stored first *)
      unfold G.gen_table_entry. rewrite gen_entry_default_eq. cbn [G.entry_res].
      set (e0 := mk mp rp (@default_entry A (cmp mp))).
      destruct (store_ok keqb keqb_spec mp rp pre k d root2 v2 (G.Cell_Entry e0) W2 Av2 L ltac:(split; reflexivity))
        as [root3 [Es [W3 [Lk [Lo [Ap A3]]]]]].
      pose proof (store_keys keqb keqb_spec pre k _ _ root2 root3 A2 Es) as K3.
      rewrite Es.
      assert (exists v3, G.Cell_at keqb pre root3 = G.Ok v3) as [v3 Av3].
      { pose proof (wfc_at keqb mp rp _ _ _ _ W2 Av2) as Wv.
        assert (Hs : exists x rem, skipn (length pre) d = x :: rem).
        { destruct (skipn (length pre) d) eqn:Es'; [|eauto].
          apply (f_equal (@length _)) in Es'. rewrite skipn_length in Es'. cbn in Es'. lia. }
        destruct Hs as [x [rem Hs]]. rewrite Hs in Wv. destruct v2 as [| |env items]; try (exfalso; exact Wv).
        rewrite Ap. cbn. eauto. }
      update_tail mp rp d pre k cs root3 v3 e0 W3 Av3 A3 L Lfull.
      + unfold e0. rewrite ent_mk. unfold sem, tlookup. cbn [troot tmp]. now rewrite <- Lroot, Lb.
      + rewrite Lo by auto. apply Lroot.
      + rewrite (K3 q) by lia. now apply K2.
    - (* the cell holds an entry *)
      update_tail mp rp d pre k cs root2 v2 e W2 Av2 A2 L Lfull.
      + unfold sem, tlookup. cbn [troot tmp]. now rewrite <- Lroot, Lb.
      + apply Lroot.
      + now apply K2.
  Qed.

  (** the key-list companion of [gen_eproxy_update_spec] *)
  Theorem update_keys_spec t pre k cs : twf t -> S (length pre) = length (tdims t) ->
    exists t', G.gen_eproxy_update keqb eqb (G.mk_eproxy t (pre ++ [k])) cs = G.Ok (G.mk_eproxy t' (pre ++ [k]), tt) /\
      tmp t' = tmp t /\ trp t' = trp t /\ tdims t' = tdims t /\ twf t' /\
      sem keqb t' (pre ++ [k]) = (if has_fin cs then update eqb (cmp (tmp t)) (crp (trp t)) (sem keqb t (pre ++ [k])) (map ccand cs)
                                  else sem keqb t (pre ++ [k])) /\
      (forall ks', length ks' = length (tdims t) -> ks' <> pre ++ [k] -> tlookup keqb t' ks' = tlookup keqb t ks') /\
      (forall q, length q = length pre ->
         ckeys keqb q (troot t') = if has_fin cs
                                   then (if leqb keqb q pre then add_key keqb (ckeys keqb pre (troot t)) k else ckeys keqb q (troot t))
                                   else ckeys keqb q (troot t)).
  Proof.
    intros W L. destruct (has_fin cs) eqn:Hf.
    - destruct (update_fin_keys t pre k cs W L Hf) as [t' [e' [E [P1 [P2 [P3 [W' [Lk [He [Lo Kk]]]]]]]]]].
      exists t'. repeat split; auto. unfold sem at 1. now rewrite Lk, He.
    - exists t. rewrite (gen_eproxy_update_nofin keqb eqb t _ cs Hf). repeat split; auto.
  Qed.

  (** the same for [TableProxy.__setitem__] *)
  Theorem setitem_keys_spec t pre k c : twf t -> S (length pre) = length (tdims t) ->
    exists t', G.gen_tproxy_setitem keqb eqb (G.mk_tproxy t pre) k c = G.Ok (G.mk_tproxy t' pre, tt) /\
      tmp t' = tmp t /\ trp t' = trp t /\ tdims t' = tdims t /\ twf t' /\
      sem keqb t' (pre ++ [k]) = (if has_fin [c] then update eqb (cmp (tmp t)) (crp (trp t)) (sem keqb t (pre ++ [k])) [ccand c]
                                  else sem keqb t (pre ++ [k])) /\
      (forall ks', length ks' = length (tdims t) -> ks' <> pre ++ [k] -> tlookup keqb t' ks' = tlookup keqb t ks') /\
      (forall q, length q = length pre ->
         ckeys keqb q (troot t') = if has_fin [c]
                                   then (if leqb keqb q pre then add_key keqb (ckeys keqb pre (troot t)) k else ckeys keqb q (troot t))
                                   else ckeys keqb q (troot t)).
  Proof.
    intros W L. destruct (update_keys_spec t pre k [c] W L) as [t' [E P]].
    exists t'. split; [|exact P]. destruct t as [mp rp d root]. cbn in L.
    unfold G.gen_tproxy_setitem. cbv beta iota zeta. rewrite full_test, L, Nat.eqb_refl.
    unfold G.gen_eproxy_init. cbv beta iota zeta. rewrite E. destruct t'; reflexivity.
  Qed.
End UpdKeys.

(* ------------------------------------------------------------------ *)
(** * The three-dimensional table of the solver *)
Section Keys3.
  Context {node_id : Type} (nid_eqb : node_id -> node_id -> bool).
  Hypothesis nid_eqb_spec : forall a b, reflect (a = b) (nid_eqb a b).
  Notation key := (@SG.key path node_id).
  Notation keqb := (SG.key_eqb path_eqb nid_eqb).
  Notation caeqb := (SG.ChildrenAssignment_eqb path_eqb).
  Notation tstate := (TG.table_state key ca).
  Notation tdims := TG.table_dimensions.
  Notation tmp := TG.table_merge_policy.
  Notation trp := TG.table_retention_policy.
  Notation kspec := (keqb_spec3 nid_eqb nid_eqb_spec).
  Notation dkeys := (dkeys nid_eqb).
  (** equality of key prefixes, [l] once [k] is inserted (if new) *)
  Notation pre_eqb := (leqb keqb).
  Notation add_key := (add_key keqb).

  Lemma pre_eqb_spec (a b : list key) : reflect (a = b) (pre_eqb a b).
  Proof. apply leqb_spec. exact kspec. Qed.

  Lemma dkeys_ckeys (tb : tstate) pre : dkeys tb pre = ckeys keqb pre (TG.table__table tb).
  Proof. reflexivity. Qed.

  Lemma add_key_in (l : list key) k : In k l -> add_key l k = l.
  Proof. intros H. unfold Keys.add_key. apply (existsb_In keqb kspec) in H. now rewrite H. Qed.
  Lemma add_key_notin (l : list key) k : ~ In k l -> add_key l k = l ++ [k].
  Proof.
    intros H. unfold Keys.add_key. destruct (existsb (keqb k) l) eqn:E; [|reflexivity].
    apply (existsb_In keqb kspec) in E. contradiction.
  Qed.

  (** ** K1: [TableProxy.keys], [__iter__] *)
  Lemma keys_for1 mp rp d it : forall (root : TG.Cell key ca) entry v, wfc mp rp d root ->
    TG.Cell_at keqb entry root = TG.Ok v -> length entry + length it <= length d ->
    SG.gen_tproxy_keys_for1 path_eqb nid_eqb it root entry = SG.Next (walk keqb it root entry, entry ++ it).
  Proof.
    induction it as [|k it IH]; intros root entry v W E L; cbn [walk SG.gen_tproxy_keys_for1]; [now rewrite app_nil_r|].
    cbn in L. destruct (touch_ok keqb kspec mp rp entry k d root v W E ltac:(lia)) as [c' [w [Et [Wc [_ [Ac _]]]]]].
    rewrite Et. cbn [SG.table_res]. rewrite (IH c' (entry ++ [k]) w Wc Ac) by (rewrite app_length; cbn; lia).
    now rewrite <- app_assoc.
  Qed.

  Theorem keys_eq (tb : tstate) pre : twf tb -> length pre < length (tdims tb) ->
    SG.gen_tproxy_keys path_eqb nid_eqb (TG.mk_tproxy tb pre) =
      SG.Ok (TG.mk_tproxy (walked keqb tb pre) pre, dkeys (walked keqb tb pre) pre).
  Proof.
    intros W L. destruct tb as [mp rp d root]. unfold twf in W. cbn in W, L.
    unfold SG.gen_tproxy_keys. cbv beta iota zeta.
    rewrite (keys_for1 mp rp d pre root [] root W eq_refl ltac:(cbn; lia)).
    destruct (walk_ok keqb kspec mp rp d pre root [] root W eq_refl ltac:(cbn; lia)) as [W1 [_ [[w Aw] _]]].
    cbn [app] in *. rewrite Aw. cbn [SG.table_res].
    pose proof (wfc_at keqb mp rp _ _ _ _ W1 Aw) as Ww.
    destruct (skipn (length pre) d) as [|x rem] eqn:Es.
    { apply (f_equal (@length _)) in Es. rewrite skipn_length in Es. cbn in Es. lia. }
    destruct w as [| |env items]; try (exfalso; exact Ww).
    unfold Common.dkeys, walked, with_root. cbn. rewrite Aw. reflexivity.
  Qed.

  Theorem tproxy_iter_eq (tb : tstate) pre : twf tb -> length pre < length (tdims tb) ->
    SG.gen_tproxy_iter path_eqb nid_eqb (TG.mk_tproxy tb pre) =
      SG.Ok (TG.mk_tproxy (walked keqb tb pre) pre, dkeys (walked keqb tb pre) pre).
  Proof.
    intros W L. pose proof (keys_eq tb pre W L) as E. destruct tb as [mp rp d root].
    unfold SG.gen_tproxy_iter. rewrite E. reflexivity.
  Qed.

  Theorem proxy_iter_eq (tb : tstate) pre : twf tb -> length pre < length (tdims tb) ->
    SG.gen_Proxy_iter path_eqb nid_eqb (TG.Proxy_TableProxy (TG.mk_tproxy tb pre)) =
      SG.Ok (TG.Proxy_TableProxy (TG.mk_tproxy (walked keqb tb pre) pre), dkeys (walked keqb tb pre) pre).
  Proof.
    intros W L. unfold SG.gen_Proxy_iter. now rewrite (tproxy_iter_eq tb pre W L).
  Qed.

  (** ** K2, K3: walking and the key lists of depth 2 *)
  Theorem dkeys_walked_short (tb : tstate) ks pre : twf tb -> length (tdims tb) = 3 -> length pre = 2 -> length ks <= 2 ->
    dkeys (walked keqb tb ks) pre = dkeys tb pre.
  Proof.
    intros W D Lp Lk. rewrite !dkeys_ckeys. unfold walked, with_root. cbn [TG.table__table].
    apply (walk_keys_short keqb kspec (tmp tb) (trp tb) (tdims tb) ks _ [] _ W eq_refl); cbn; lia.
  Qed.

  Theorem dkeys_walked_full (tb : tstate) k1 k2 k3 pre : twf tb -> length (tdims tb) = 3 -> length pre = 2 ->
    dkeys (walked keqb tb [k1; k2; k3]) pre =
      if pre_eqb pre [k1; k2] && negb (existsb (keqb k3) (dkeys tb [k1; k2])) then dkeys tb pre ++ [k3] else dkeys tb pre.
  Proof.
    intros W D Lp.
    pose proof (dkeys_walked_short tb [k1; k2] pre W D Lp ltac:(cbn; lia)) as S2.
    pose proof (dkeys_walked_short tb [k1; k2] [k1; k2] W D eq_refl ltac:(cbn; lia)) as S3.
    rewrite !dkeys_ckeys in *. unfold walked, with_root in *. cbn [TG.table__table] in *.
    destruct (walk_snoc_keys keqb kspec (tmp tb) (trp tb) (tdims tb) [k1; k2] k3 _ W ltac:(cbn; lia)) as [Ha Ho].
    change ([k1; k2] ++ [k3]) with [k1; k2; k3] in *.
    destruct (pre_eqb_spec pre [k1; k2]) as [->|N]; cbn [andb].
    - rewrite Ha, S3. unfold Keys.add_key. destruct (existsb (keqb k3) _); reflexivity.
    - now rewrite (Ho pre N), S2.
  Qed.

  Theorem dkeys_walked_present (tb : tstate) k1 k2 k3 pre : twf tb -> length (tdims tb) = 3 -> length pre = 2 ->
    In k3 (dkeys tb [k1; k2]) -> dkeys (walked keqb tb [k1; k2; k3]) pre = dkeys tb pre.
  Proof.
    intros W D Lp Hi. rewrite (dkeys_walked_full tb k1 k2 k3 pre W D Lp).
    apply (existsb_In keqb kspec) in Hi. rewrite Hi. cbn. now rewrite andb_false_r.
  Qed.

  (** ** K4, K5: [EntryProxy.update], [TableProxy.__setitem__] *)
  Theorem update_dkeys (tb : tstate) pre k cs : twf tb -> length (tdims tb) = 3 -> length pre = 2 ->
    exists tb', TG.gen_eproxy_update keqb caeqb (TG.mk_eproxy tb (pre ++ [k])) cs = TG.Ok (TG.mk_eproxy tb' (pre ++ [k]), tt) /\
      tmp tb' = tmp tb /\ trp tb' = trp tb /\ tdims tb' = tdims tb /\ twf tb' /\
      sem keqb tb' (pre ++ [k]) = (if has_fin cs
                                   then update caeqb (cmp (tmp tb)) (crp (trp tb)) (sem keqb tb (pre ++ [k])) (map ccand cs)
                                   else sem keqb tb (pre ++ [k])) /\
      (forall ks', length ks' = length (tdims tb) -> ks' <> pre ++ [k] -> tlookup keqb tb' ks' = tlookup keqb tb ks') /\
      (forall pre', length pre' = 2 ->
         dkeys tb' pre' = if has_fin cs
                          then (if pre_eqb pre' pre && negb (existsb (keqb k) (dkeys tb pre)) then dkeys tb pre ++ [k]
                                else dkeys tb pre')
                          else dkeys tb pre').
  Proof.
    intros W D Lp. destruct (update_keys_spec keqb caeqb kspec tb pre k cs W ltac:(lia)) as [tb' [E [P1 [P2 [P3 [W' [S [Lo Kk]]]]]]]].
    exists tb'. repeat split; auto. intros pre' Lp'. rewrite !dkeys_ckeys, (Kk pre') by lia.
    destruct (has_fin cs); [|reflexivity].
    destruct (pre_eqb_spec pre' pre) as [->|N]; cbn [andb]; [|reflexivity].
    unfold Keys.add_key. destruct (existsb (keqb k) _); reflexivity.
  Qed.

  Theorem setitem_dkeys (tb : tstate) pre k c : twf tb -> length (tdims tb) = 3 -> length pre = 2 ->
    exists tb', TG.gen_tproxy_setitem keqb caeqb (TG.mk_tproxy tb pre) k c = TG.Ok (TG.mk_tproxy tb' pre, tt) /\
      tmp tb' = tmp tb /\ trp tb' = trp tb /\ tdims tb' = tdims tb /\ twf tb' /\
      sem keqb tb' (pre ++ [k]) = (if has_fin [c]
                                   then update caeqb (cmp (tmp tb)) (crp (trp tb)) (sem keqb tb (pre ++ [k])) [ccand c]
                                   else sem keqb tb (pre ++ [k])) /\
      (forall ks', length ks' = length (tdims tb) -> ks' <> pre ++ [k] -> tlookup keqb tb' ks' = tlookup keqb tb ks') /\
      (forall pre', length pre' = 2 ->
         dkeys tb' pre' = if has_fin [c]
                          then (if pre_eqb pre' pre && negb (existsb (keqb k) (dkeys tb pre)) then dkeys tb pre ++ [k]
                                else dkeys tb pre')
                          else dkeys tb pre').
  Proof.
    intros W D Lp. destruct (setitem_keys_spec keqb caeqb kspec tb pre k c W ltac:(lia)) as [tb' [E [P1 [P2 [P3 [W' [S [Lo Kk]]]]]]]].
    exists tb'. repeat split; auto. intros pre' Lp'. rewrite !dkeys_ckeys, (Kk pre') by lia.
    destruct (has_fin [c]); [|reflexivity].
    destruct (pre_eqb_spec pre' pre) as [->|N]; cbn [andb]; [|reflexivity].
    unfold Keys.add_key. destruct (existsb (keqb k) _); reflexivity.
  Qed.

  (** ** K6: a fresh table has no key anywhere (any dimensions, any prefix) *)
  Theorem init_dkeys d mp rp (t0 : tstate) : TG.gen_table_init d mp rp = TG.Ok t0 -> forall pre, dkeys t0 pre = [].
  Proof.
    unfold TG.gen_table_init. intros E pre. destruct (TG.gen_generate_table d) as [c|] eqn:Ec; [|discriminate].
    inversion E; subst t0. rewrite dkeys_ckeys. cbn [TG.table__table]. apply (generate_keys keqb d c Ec).
  Qed.

  (** the form for the table of [gen_table_init_eq]: the same existential, with the key lists *)
  Theorem init_dkeys_eq (d : list TG.DictDimension) mp rp :
    exists t0 : tstate, TG.gen_table_init d mp rp = TG.Ok t0 /\ tmp t0 = mp /\ trp t0 = rp /\ tdims t0 = d /\ twf t0 /\
      (forall ks, tlookup keqb t0 ks = None) /\ forall pre, dkeys t0 pre = [].
  Proof.
    destruct (gen_table_init_eq (K := key) (A := ca) keqb d mp rp) as [t0 [E [P1 [P2 [P3 [W Lk]]]]]].
    exists t0. repeat split; auto. apply (init_dkeys d mp rp t0 E).
  Qed.
End Keys3.

Check @keys_eq. Check @proxy_iter_eq. Check @dkeys_walked_short. Check @dkeys_walked_present. Check @dkeys_walked_full.
Check @update_dkeys. Check @setitem_dkeys. Check @init_dkeys. Check @init_dkeys_eq.
Print Assumptions keys_eq.
Print Assumptions proxy_iter_eq.
Print Assumptions dkeys_walked_short.
Print Assumptions dkeys_walked_present.
Print Assumptions dkeys_walked_full.
Print Assumptions update_dkeys.
Print Assumptions setitem_dkeys.
Print Assumptions init_dkeys.
Print Assumptions init_dkeys_eq.
End Keys.

(* ====================================================================== *)
Module ModelPerm.
(** One cell of the SPFS table up to the enumeration order of the existing child cells.
    [ModelO.scell_o] takes the two enumerations ([ksA], [ksB]) and the two value readers ([subA], [subB]) as
    arguments.  Here: the cell only depends on the readers on the members of the enumerations ([scell_o_ext]), and
    on the enumerations as sets ([scell_o_sim]: same value under every retention policy, same tags as sets under
    ALL, hence a permutation of the tags since the tag lists are duplicate-free). *)

Import SR.Base.PathB SR.Base.Ext SR.Model.Subseq SR.Model.Entry SR.Model.Recon SR.Model.LcaRec SR.Model.Thl SR.Model.Spfs SR.Proofs.EntryProofs SR.Proofs.ThlProofs SR.Proofs.SpfsProofs SR.Proofs.ThlGenProofs.
Import ModelO.
Import ListNotations.
Local Open Scope Z_scope.

(* ------------------------------------------------------------------ *)
(** * M3: the readers only matter on the members of the enumerations *)
Lemma one_cands_ext S c (f g : sassign -> ext) s m k : f k = g k -> one_cands S c f s m k = one_cands S c g s m k.
Proof. intros E. unfold one_cands. destruct k as [d cm]. now rewrite E. Qed.

Lemma flat_map_ext_mem {A B} (f g : A -> list B) l : (forall x, In x l -> f x = g x) -> flat_map f l = flat_map g l.
Proof.
  induction l as [|x l IH]; intros E; cbn [flat_map]; [reflexivity|].
  rewrite (E x (or_introl eq_refl)), IH; [reflexivity|]. intros y Hy. apply E. now right.
Qed.

Lemma choices_o_ext S c rp (f g : sassign -> ext) s m ks :
  (forall k, In k ks -> f k = g k) -> choices_o S c rp f s m ks = choices_o S c rp g s m ks.
Proof.
  intros E. unfold choices_o.
  rewrite (flat_map_ext_mem (one_cands S c f s m) (one_cands S c g s m) ks); [reflexivity|].
  intros k Hk. apply one_cands_ext. auto.
Qed.

Theorem scell_o_ext S c rp (subA subA' subB subB' : sassign -> ext) ksA ksB s m :
  (forall k, In k ksA -> subA k = subA' k) -> (forall k, In k ksB -> subB k = subB' k) ->
  scell_o S c rp subA subB ksA ksB s m = scell_o S c rp subA' subB' ksA ksB s m.
Proof.
  intros EA EB. unfold scell_o, sbatch_o.
  now rewrite (choices_o_ext S c rp subA subA' s m ksA EA), (choices_o_ext S c rp subB subB' s m ksB EB).
Qed.

(* ------------------------------------------------------------------ *)
(** * M4: the enumerations only matter as sets *)

(** candidate lists with the same members *)
Lemma csim_of_sameset {X} rp (cs cs' : list (ext * option X)) : tagged cs -> tagged cs' -> sameset cs cs' -> csim rp cs cs'.
Proof.
  intros T T' Sm. split; [exact T|]. split; [exact T'|]. split; [|intros _; exact Sm].
  intros v. split; intros [o I]; exists o; now apply Sm.
Qed.

Lemma In_pick i (f : sassign -> list (nat * (ext * option sassign))) ks x :
  In x (pick_o i (flat_map f ks)) <-> exists k, In k ks /\ In (i, x) (f k).
Proof.
  unfold pick_o. rewrite in_map_iff. split.
  - intros [[j y] [E H]]. cbn [snd] in E. subst y. apply filter_In in H as [H1 H2]. cbn [fst] in H2.
    apply Nat.eqb_eq in H2. subst j. apply in_flat_map in H1. exact H1.
  - intros [k [Hk H]]. exists (i, x). split; [reflexivity|]. apply filter_In. split; [apply in_flat_map; eauto|].
    cbn [fst]. apply Nat.eqb_refl.
Qed.

(** every candidate of a child cell carries the key of that cell *)
Lemma one_tagged S c (f : sassign -> ext) s m k i v o : In (i, (v, o)) (one_cands S c f s m k) -> o = Some k.
Proof.
  unfold one_cands. destruct k as [d cm].
  repeat match goal with |- context [if ?b then _ else _] => destruct b end; cbn [app In]; intuition congruence.
Qed.

Lemma pick_sim S c rp (f g : sassign -> ext) s m ks ks' i :
  sameset ks ks' -> (forall k, In k ks -> f k = g k) ->
  csim rp (pick_o i (flat_map (one_cands S c f s m) ks)) (pick_o i (flat_map (one_cands S c g s m) ks')).
Proof.
  intros Sk E. apply csim_of_sameset.
  - intros v o I. apply In_pick in I as [k [_ I]]. apply one_tagged in I. eauto.
  - intros v o I. apply In_pick in I as [k [_ I]]. apply one_tagged in I. eauto.
  - intros x. rewrite !In_pick. split; intros [k [Hk I]]; exists k.
    + split; [now apply Sk|]. now rewrite <- (one_cands_ext S c f g s m k (E k Hk)).
    + apply Sk in Hk. split; [exact Hk|]. now rewrite (one_cands_ext S c f g s m k (E k Hk)).
Qed.

(** the aggregators *)
Lemma aggp_sim rp l l' : csim rp l l' -> esim rp (aggp rp l) (aggp rp l').
Proof. intros C. unfold aggp. now apply (upd_sim sassign_eqb sassign_eqb_spec). Qed.

(** the five aggregators of a child, one by one *)
Lemma choices_o_sim S c rp (f g : sassign -> ext) s m ks ks' :
  sameset ks ks' -> (forall k, In k ks -> f k = g k) ->
  esim rp (ch_left (choices_o S c rp f s m ks)) (ch_left (choices_o S c rp g s m ks')) /\
  esim rp (ch_right (choices_o S c rp f s m ks)) (ch_right (choices_o S c rp g s m ks')) /\
  esim rp (ch_conserved (choices_o S c rp f s m ks)) (ch_conserved (choices_o S c rp g s m ks')) /\
  esim rp (ch_segment (choices_o S c rp f s m ks)) (ch_segment (choices_o S c rp g s m ks')) /\
  esim rp (ch_separate (choices_o S c rp f s m ks)) (ch_separate (choices_o S c rp g s m ks')).
Proof.
  intros Sk E. unfold choices_o. cbn [ch_left ch_right ch_conserved ch_segment ch_separate].
  split; [|split; [|split; [|split]]]; apply aggp_sim; now apply pick_sim.
Qed.

(** one combination of two aggregators *)
Lemma comb2_sim rp k (a b a' b' : entry sassign) : esim rp a a' -> esim rp b b' -> csim rp (comb2 rp k a b) (comb2 rp k a' b').
Proof.
  intros [V1 [N1 S1]] [V2 [N2 S2]]. unfold comb2. apply cands_sim. unfold combine.
  apply (upd_sim stag_eqb stag_eqb_spec). rewrite <- V1, <- V2.
  change (csim rp (pairs a b (scomb k (val a) (val b))) (pairs a' b' (scomb k (val a) (val b)))).
  repeat split.
  - intros v o I. apply In_pairs in I as [x [y [_ [_ E]]]]. inversion E. eauto.
  - intros v o I. apply In_pairs in I as [x [y [_ [_ E]]]]. inversion E. eauto.
  - intros [o I]. apply In_pairs in I as [x [y [Ia [Ib E]]]]. inversion E; subst.
    destruct (tags a') as [|x' l1] eqn:T1; [rewrite (proj2 N1 eq_refl) in Ia; destruct Ia|].
    destruct (tags b') as [|y' l2] eqn:T2; [rewrite (proj2 N2 eq_refl) in Ib; destruct Ib|].
    exists (Some (x', y')). apply In_pairs. exists x', y'. rewrite T1, T2. repeat split; now left.
  - intros [o I]. apply In_pairs in I as [x [y [Ia [Ib E]]]]. inversion E; subst.
    destruct (tags a) as [|x' l1] eqn:T1; [rewrite (proj1 N1 eq_refl) in Ia; destruct Ia|].
    destruct (tags b) as [|y' l2] eqn:T2; [rewrite (proj1 N2 eq_refl) in Ib; destruct Ib|].
    exists (Some (x', y')). apply In_pairs. exists x', y'. rewrite T1, T2. repeat split; now left.
  - intros I. apply In_pairs in I as [u [w [Ia [Ib ->]]]]. apply In_pairs. exists u, w.
    repeat split; [now apply (S1 H)|now apply (S2 H)].
  - intros I. apply In_pairs in I as [u [w [Ia [Ib ->]]]]. apply In_pairs. exists u, w.
    repeat split; [now apply (S1 H)|now apply (S2 H)].
Qed.

(** the batch of the six combinations *)
Lemma sbatch_o_sim S c rp (subA subA' subB subB' : sassign -> ext) ksA ksA' ksB ksB' s m :
  sameset ksA ksA' -> sameset ksB ksB' ->
  (forall k, In k ksA -> subA k = subA' k) -> (forall k, In k ksB -> subB k = subB' k) ->
  csim rp (sbatch_o S c rp subA subB ksA ksB s m) (sbatch_o S c rp subA' subB' ksA' ksB' s m).
Proof.
  intros SA SB EA EB. unfold sbatch_o. cbv zeta.
  destruct (choices_o_sim S c rp subA subA' s m ksA ksA' SA EA) as [A0 [A1 [A2 [A3 A4]]]].
  destruct (choices_o_sim S c rp subB subB' s m ksB ksB' SB EB) as [B0 [B1 [B2 [B3 B4]]]].
  repeat apply csim_app; apply comb2_sim; assumption.
Qed.

(** writing a batch into a cell that does not exist yet *)
Lemma first_write_upd rp b :
  first_write rp b = update stag_eqb MIN rp (default_entry MIN) (if Thl.has_finite b then b else []).
Proof. unfold first_write. now destruct (Thl.has_finite b). Qed.

Lemma first_write_sim rp b b' : csim rp b b' -> esim rp (first_write rp b) (first_write rp b').
Proof.
  intros C. rewrite !first_write_upd. apply (upd_sim stag_eqb stag_eqb_spec).
  pose proof C as [_ [_ [V _]]]. rewrite (has_finite_vsame b b' V). destruct (Thl.has_finite b'); [exact C|apply csim_nil].
Qed.

(** the main theorem; no hypothesis on the transfer cost is needed: the candidates of one [comb2] all carry the
    same value whatever that value is *)
Theorem scell_o_sim S c rp (subA subA' subB subB' : sassign -> ext) ksA ksA' ksB ksB' s m :
  sameset ksA ksA' -> sameset ksB ksB' ->
  (forall k, In k ksA -> subA k = subA' k) -> (forall k, In k ksB -> subB k = subB' k) ->
  esim rp (scell_o S c rp subA subB ksA ksB s m) (scell_o S c rp subA' subB' ksA' ksB' s m).
Proof. intros SA SB EA EB. unfold scell_o. apply first_write_sim. now apply sbatch_o_sim. Qed.

(* ------------------------------------------------------------------ *)
(** * M5: what [esim] says *)
Corollary scell_o_sim_val S c rp (subA subA' subB subB' : sassign -> ext) ksA ksA' ksB ksB' s m :
  sameset ksA ksA' -> sameset ksB ksB' ->
  (forall k, In k ksA -> subA k = subA' k) -> (forall k, In k ksB -> subB k = subB' k) ->
  val (scell_o S c rp subA subB ksA ksB s m) = val (scell_o S c rp subA' subB' ksA' ksB' s m).
Proof. intros SA SB EA EB. exact (proj1 (scell_o_sim S c rp subA subA' subB subB' ksA ksA' ksB ksB' s m SA SB EA EB)). Qed.

Corollary scell_o_sim_tags_empty S c rp (subA subA' subB subB' : sassign -> ext) ksA ksA' ksB ksB' s m :
  sameset ksA ksA' -> sameset ksB ksB' ->
  (forall k, In k ksA -> subA k = subA' k) -> (forall k, In k ksB -> subB k = subB' k) ->
  (tags (scell_o S c rp subA subB ksA ksB s m) = [] <-> tags (scell_o S c rp subA' subB' ksA' ksB' s m) = []).
Proof. intros SA SB EA EB. exact (proj1 (proj2 (scell_o_sim S c rp subA subA' subB subB' ksA ksA' ksB ksB' s m SA SB EA EB))). Qed.

Corollary scell_o_sim_tags S c (subA subA' subB subB' : sassign -> ext) ksA ksA' ksB ksB' s m :
  sameset ksA ksA' -> sameset ksB ksB' ->
  (forall k, In k ksA -> subA k = subA' k) -> (forall k, In k ksB -> subB k = subB' k) ->
  sameset (tags (scell_o S c RALL subA subB ksA ksB s m)) (tags (scell_o S c RALL subA' subB' ksA' ksB' s m)).
Proof.
  intros SA SB EA EB.
  exact (proj2 (proj2 (scell_o_sim S c RALL subA subA' subB subB' ksA ksA' ksB ksB' s m SA SB EA EB)) eq_refl).
Qed.

(** under ALL the tag list of a cell is duplicate-free, whatever was enumerated *)
Lemma first_write_all_nodup b : NoDup (tags (first_write RALL b)).
Proof. rewrite first_write_upd. apply (entry_tags_all_nodup stag_eqb stag_eqb_spec MIN). Qed.

Lemma scell_o_all_nodup S c (subA subB : sassign -> ext) ksA ksB s m : NoDup (tags (scell_o S c RALL subA subB ksA ksB s m)).
Proof. unfold scell_o. apply first_write_all_nodup. Qed.

Corollary scell_o_sim_tags_perm S c (subA subA' subB subB' : sassign -> ext) ksA ksA' ksB ksB' s m :
  sameset ksA ksA' -> sameset ksB ksB' ->
  (forall k, In k ksA -> subA k = subA' k) -> (forall k, In k ksB -> subB k = subB' k) ->
  Permutation (tags (scell_o S c RALL subA subB ksA ksB s m)) (tags (scell_o S c RALL subA' subB' ksA' ksB' s m)).
Proof.
  intros SA SB EA EB. apply NoDup_Permutation; [apply scell_o_all_nodup|apply scell_o_all_nodup|].
  exact (scell_o_sim_tags S c subA subA' subB subB' ksA ksA' ksB ksB' s m SA SB EA EB).
Qed.

(** the same, stated for the model's [scell]: any duplicate-free or not enumeration of the existing cells of the two
    children with the same members, and any readers that agree with the tables on these cells *)
Corollary scell_enum_sim S c rp ta tb (subA subB : sassign -> ext) ksA ksB s m :
  sameset (skeys ta) ksA -> sameset (skeys tb) ksB ->
  (forall k, In k (skeys ta) -> val (sread ta k) = subA k) -> (forall k, In k (skeys tb) -> val (sread tb k) = subB k) ->
  esim rp (scell S c rp ta tb s m) (scell_o S c rp subA subB ksA ksB s m).
Proof. intros SA SB EA EB. rewrite (scell_o_eq S c rp ta tb s m). now apply scell_o_sim. Qed.

Print Assumptions scell_o_eq.
Print Assumptions scell_o_ext.
Print Assumptions scell_o_sim.
Print Assumptions scell_o_sim_val.
Print Assumptions scell_o_sim_tags_empty.
Print Assumptions scell_o_sim_tags.
Print Assumptions scell_o_sim_tags_perm.
Print Assumptions scell_enum_sim.
End ModelPerm.

(* ====================================================================== *)
Module TableO.
(** Stage 3: the table of the solver for the enumeration orders of the code: what every object node ends up with. *)

Import SR.Base.PathB SR.Base.Ext SR.Model.Subseq SR.Model.Entry SR.Model.Recon SR.Model.LcaRec SR.Model.Thl SR.Model.Spfs.

Import ModelO.
Import ListNotations.
Local Open Scope Z_scope.
Module EVo := SR.Gen.EvalGen.

(** the cells of a child in the order the code visits them: species by species ([xs]: level order), each with the masks of
    its existing cells in insertion order *)
Definition kl (ML : path -> list N) (xs : list path) : list sassign := flat_map (fun x => map (fun m' => (x, m')) (ML x)) xs.

Section TableO.
  Context {node_id : Type}.
  Variables (S : stree) (c : costs) (rp : ret) (ord : list fam) (leafsp : node_id -> path) (syn : node_id -> list fam).
  (** the species in the order of [traverse()] (level order) *)
  Variable lev : list path.
  (** the species / masks the callbacks allow for an internal object node, in the order of the code *)
  Variables (AS : EVo.TreeNode node_id -> list path) (AM : EVo.TreeNode node_id -> list N).

  (** for an object node: the entry every cell [(species, mask)] reads as, and for every species the masks of the cells
      that exist, in insertion order *)
  Fixpoint trow3 (t : EVo.TreeNode node_id) : (sassign -> entry stag) * (path -> list N) :=
    match t with
    | EVo.TreeNode_leaf i =>
        (fun k => if sassign_eqb k (leafsp i, mask_of ord (syn i)) then {| val := Fin 0; tags := [] |} else default_entry MIN,
         fun s => if path_eqb s (leafsp i) then [mask_of ord (syn i)] else [])
    | EVo.TreeNode_node _ a b =>
        let Ea := fst (trow3 a) in let Ka := snd (trow3 a) in
        let Eb := fst (trow3 b) in let Kb := snd (trow3 b) in
        let batch s m := sbatch_o S c rp (fun k => val (Ea k)) (fun k => val (Eb k)) (kl Ka lev) (kl Kb lev) s m in
        (fun k => if existsb (path_eqb (fst k)) (AS t) && existsb (N.eqb (snd k)) (AM t)
                  then first_write rp (batch (fst k) (snd k)) else default_entry MIN,
         fun s => if existsb (path_eqb s) (AS t) then filter (fun m => Thl.has_finite (batch s m)) (AM t) else [])
    end.
  Definition tcell3 (t : EVo.TreeNode node_id) (k : sassign) : entry stag := fst (trow3 t) k.
  Definition tkeys3 (t : EVo.TreeNode node_id) (s : path) : list N := snd (trow3 t) s.
End TableO.
End TableO.

(* ====================================================================== *)
Module Entry.
(** Stage 2: [_compute_spfs_entry] as generated = the cell of the model for the enumeration order of the code. *)

Import SR.Base.PathB SR.Base.Ext SR.Model.Subseq SR.Model.Entry SR.Model.Recon SR.Model.LcaRec SR.Model.Thl SR.Model.Spfs SR.Proofs.PathFacts SR.Proofs.EntryProofs SR.Proofs.EntryGenProofs SR.Proofs.EvalGenProofs SR.Proofs.TableGenProofs SR.Proofs.ThlGenProofs.

Import Common ModelO Keys TableO.
Import ListNotations.
Local Open Scope Z_scope.

Section Entry3.
  Context {lca node_id : Type} (nid_eqb : node_id -> node_id -> bool).
  Hypothesis nid_eqb_spec : forall a b, reflect (a = b) (nid_eqb a b).
  Notation key := (@SG.key path node_id).
  Notation keqb := (SG.key_eqb path_eqb nid_eqb).
  Notation caeqb := (SG.ChildrenAssignment_eqb path_eqb).
  Notation oaeqb := (SG.ObjectAssignment_eqb path_eqb).
  Notation tstate := (TG.table_state key ca).
  Notation tree := (EV.TreeNode node_id).
  Notation kspec := (keqb_spec3 nid_eqb nid_eqb_spec).
  Notation inv3 := (@inv3 node_id).
  Notation gsem3 := (gsem3 nid_eqb).
  Notation dkeys := (dkeys nid_eqb).
  Notation gkeys := (gkeys nid_eqb).

  Lemma inv3_same rp a b : inv3 rp a -> tsame keqb a b -> inv3 rp b.
  Proof. intros [W [D [M R]]] [A1 [A2 [A3 [A4 A5]]]]. repeat split; auto; congruence. Qed.
  Lemma gsem3_same a b n s m : tsame keqb a b -> gsem3 b n s m = gsem3 a n s m.
  Proof. intros S. unfold Common.gsem3. now apply tsame_sem. Qed.

  (** ** the chain [table[k1][k2][k3]] *)
  Lemma rd3_getitem rp tb k1 : inv3 rp tb ->
    SG.table_res (TG.gen_table_getitem keqb tb k1) = SG.Ok (tb, TG.Proxy_TableProxy (TG.mk_tproxy tb [k1])).
  Proof.
    intros [W [D _]]. rewrite (gen_table_getitem_eq keqb kspec tb k1 W) by (intros E; rewrite E in D; discriminate).
    now rewrite D.
  Qed.
  Lemma rd3_sub1 rp tb k1 k2 : inv3 rp tb ->
    SG.table_res (TG.gen_Proxy_getitem keqb (TG.Proxy_TableProxy (TG.mk_tproxy tb [k1])) k2) =
      SG.Ok (TG.Proxy_TableProxy (TG.mk_tproxy tb [k1]), TG.Proxy_TableProxy (TG.mk_tproxy tb [k1; k2])).
  Proof.
    intros [W [D _]]. rewrite Proxy_getitem_table, (gen_tproxy_getitem_eq keqb kspec tb [k1] k2 W) by (cbn; lia).
    cbn [length]. now rewrite D.
  Qed.
  Lemma rd3_sub2 rp tb k1 k2 k3 : inv3 rp tb ->
    SG.table_res (TG.gen_Proxy_getitem keqb (TG.Proxy_TableProxy (TG.mk_tproxy tb [k1; k2])) k3) =
      SG.Ok (TG.Proxy_TableProxy (TG.mk_tproxy (walked keqb tb [k1; k2]) [k1; k2]),
             TG.Proxy_EntryProxy (TG.mk_eproxy (walked keqb tb [k1; k2]) [k1; k2; k3])).
  Proof.
    intros [W [D _]]. rewrite Proxy_getitem_table, (gen_tproxy_getitem_eq keqb kspec tb [k1; k2] k3 W) by (cbn; lia).
    cbn [length]. now rewrite D.
  Qed.
  Definition rd3 (tb : tstate) (k1 k2 k3 : key) : tstate := walked keqb (walked keqb tb [k1; k2]) [k1; k2; k3].
  Lemma rd3_same rp tb k1 k2 k3 : inv3 rp tb -> tsame keqb tb (rd3 tb k1 k2 k3).
  Proof.
    intros [W [D _]]. unfold rd3.
    assert (S1 : tsame keqb tb (walked keqb tb [k1; k2])) by (apply walked_same; [apply kspec|exact W|cbn; lia]).
    eapply tsame_trans; [exact S1|]. destruct S1 as [_ [_ [D1 [W1 _]]]].
    apply walked_same; [apply kspec|exact W1|cbn; lia].
  Qed.
  Lemma rd3_value rp tb k1 k2 k3 : inv3 rp tb ->
    SG.table_res (TG.gen_Proxy_value keqb (TG.Proxy_EntryProxy (TG.mk_eproxy (walked keqb tb [k1; k2]) [k1; k2; k3]))) =
      SG.Ok (TG.Proxy_EntryProxy (TG.mk_eproxy (rd3 tb k1 k2 k3) [k1; k2; k3]), val (sem keqb tb [k1; k2; k3])).
  Proof.
    intros I. pose proof I as [W [D _]].
    assert (S1 : tsame keqb tb (walked keqb tb [k1; k2])) by (apply walked_same; [apply kspec|exact W|cbn; lia]).
    pose proof S1 as [_ [_ [D1 [W1 _]]]].
    rewrite Proxy_value_entry, (gen_eproxy_value_eq keqb kspec _ [k1; k2; k3] W1) by (cbn; lia).
    now rewrite (tsame_sem keqb _ _ [k1; k2; k3] S1).
  Qed.
  Lemma parent_entry3 (t : tstate) l : TG.Proxy_parent (TG.Proxy_EntryProxy (TG.mk_eproxy t l)) = t.
  Proof. reflexivity. Qed.
  Lemma parent_table3 (t : tstate) l : TG.Proxy_parent (TG.Proxy_TableProxy (TG.mk_tproxy t l)) = t.
  Proof. reflexivity. Qed.

  (** ** the aggregators: five entries per child, tags [ObjectAssignment] *)
  Definition agg_state (rp : ret) (e : entry sassign) : EG.entry_state oa := mk EG.MergePolicy_MIN (prc rp) (emap oa_of e).
  Definition mc_of (rp : ret) (p : choices) : SG.MappingChoices :=
    SG.mk_MappingChoices (agg_state rp (ch_left p)) (agg_state rp (ch_right p)) (agg_state rp (ch_conserved p))
                         (agg_state rp (ch_segment p)) (agg_state rp (ch_separate p)).

  Lemma agg_update rp e v (x : sassign) :
    SG.entry_res (EG.gen_entry_update oaeqb (agg_state rp e) [EG.mk_Candidate v (Some (oa_of x))]) =
      SG.Ok (agg_state rp (update sassign_eqb MIN rp e [(v, Some x)]), tt).
  Proof.
    unfold agg_state. rewrite gen_entry_update_mk. cbn [cmp map ccand EG.Candidate_value EG.Candidate_info SG.entry_res].
    rewrite crp_prc. do 3 f_equal.
    exact (update_emap sassign_eqb oaeqb oa_of oa_eqb_of MIN rp [(v, Some x)] e).
  Qed.

  (** one candidate offered to the aggregator number [i] *)
  Definition feed1 (rp : ret) (p : choices) (x : nat * (ext * option sassign)) : choices :=
    let u e := update sassign_eqb MIN rp e [snd x] in
    match fst x with
    | 0%nat => {| ch_left := u (ch_left p); ch_right := ch_right p; ch_conserved := ch_conserved p; ch_segment := ch_segment p; ch_separate := ch_separate p |}
    | 1%nat => {| ch_left := ch_left p; ch_right := u (ch_right p); ch_conserved := ch_conserved p; ch_segment := ch_segment p; ch_separate := ch_separate p |}
    | 2%nat => {| ch_left := ch_left p; ch_right := ch_right p; ch_conserved := u (ch_conserved p); ch_segment := ch_segment p; ch_separate := ch_separate p |}
    | 3%nat => {| ch_left := ch_left p; ch_right := ch_right p; ch_conserved := ch_conserved p; ch_segment := u (ch_segment p); ch_separate := ch_separate p |}
    | 4%nat => {| ch_left := ch_left p; ch_right := ch_right p; ch_conserved := ch_conserved p; ch_segment := ch_segment p; ch_separate := u (ch_separate p) |}
    | _ => p
    end.
  Definition feed (rp : ret) (p : choices) (l : list (nat * (ext * option sassign))) : choices := fold_left (feed1 rp) l p.

  Lemma feed_app rp p l1 l2 : feed rp p (l1 ++ l2) = feed rp (feed rp p l1) l2.
  Proof. unfold feed. apply fold_left_app. Qed.

  Definition upd_s (rp : ret) (e : entry sassign) l := update sassign_eqb MIN rp e l.
  Lemma upd_s_app rp e l1 l2 : upd_s rp e (l1 ++ l2) = upd_s rp (upd_s rp e l1) l2.
  Proof. unfold upd_s, update. apply fold_left_app. Qed.

  Lemma feed_fields rp l : forall p,
    feed rp p l = {| ch_left := upd_s rp (ch_left p) (pick_o 0 l); ch_right := upd_s rp (ch_right p) (pick_o 1 l);
                     ch_conserved := upd_s rp (ch_conserved p) (pick_o 2 l); ch_segment := upd_s rp (ch_segment p) (pick_o 3 l);
                     ch_separate := upd_s rp (ch_separate p) (pick_o 4 l) |}.
  Proof.
    induction l as [|[i x] l IH]; intros p; [destruct p; reflexivity|].
    change (feed rp p ((i, x) :: l)) with (feed rp (feed1 rp p (i, x)) l). rewrite IH. unfold pick_o. cbn [filter fst].
    destruct i as [|[|[|[|[|i]]]]]; cbn [Nat.eqb map snd feed1 fst ch_left ch_right ch_conserved ch_segment ch_separate]; reflexivity.
  Qed.

  Definition choices0 : choices :=
    {| ch_left := default_entry MIN; ch_right := default_entry MIN; ch_conserved := default_entry MIN;
       ch_segment := default_entry MIN; ch_separate := default_entry MIN |}.
  Lemma feed_choices_o S c rp sub s m kl :
    feed rp choices0 (flat_map (one_cands S c sub s m) kl) = choices_o S c rp sub s m kl.
  Proof. rewrite feed_fields. reflexivity. Qed.

  (** ** the facts about key lists this file relies on (proved in the key-list part) *)
  Lemma HK2 : forall (tb : tstate) pre ksl, twf tb -> length (TG.table_dimensions tb) = 3%nat -> length pre = 2%nat ->
    (length ksl <= 2)%nat -> dkeys (walked keqb tb ksl) pre = dkeys tb pre.
  Proof. intros tb pre ksl. exact (dkeys_walked_short nid_eqb nid_eqb_spec tb ksl pre). Qed.
  Lemma HK3 : forall (tb : tstate) pre k1 k2 k3, twf tb -> length (TG.table_dimensions tb) = 3%nat -> length pre = 2%nat ->
    In k3 (dkeys tb [k1; k2]) -> dkeys (walked keqb tb [k1; k2; k3]) pre = dkeys tb pre.
  Proof. intros tb pre k1 k2 k3. exact (dkeys_walked_present nid_eqb nid_eqb_spec tb k1 k2 k3 pre). Qed.

  Lemma rd3_dkeys rp tb k1 k2 k3 pre : inv3 rp tb -> length pre = 2%nat -> In k3 (dkeys tb [k1; k2]) ->
    dkeys (rd3 tb k1 k2 k3) pre = dkeys tb pre.
  Proof.
    intros [W [D _]] L H. unfold rd3.
    assert (S1 : tsame keqb tb (walked keqb tb [k1; k2])) by (apply walked_same; [apply kspec|exact W|cbn; lia]).
    pose proof S1 as [_ [_ [D1 [W1 _]]]].
    rewrite (HK3 _ pre k1 k2 k3 W1) by (try congruence; try exact L; rewrite (HK2 tb [k1; k2] [k1; k2] W D eq_refl) by (cbn; lia); exact H).
    apply HK2; auto.
  Qed.

  Variable lcaobj : lca.
  Notation DIST := (fun (_ : lca) => dist).
  Notation ANC := (fun (_ : lca) => anc).
  Notation sid := (@SG.STree_id path).

  (** the species node of the code stands for the species [s] of the species tree [S] *)
  Definition rs_ok (S : stree) (rs : @SG.STree path) : Prop :=
    match rs with
    | SG.STree_leaf s => sleaf S s = true
    | SG.STree_node s L R => sleaf S s = false /\ sid L = s ++ [false] /\ sid R = s ++ [true]
    end.

  Definition sub_of (tb : tstate) (n : node_id) (k : sassign) : ext := val (gsem3 tb n (fst k) (snd k)).
  Lemma sub_of_same a b n k : tsame keqb a b -> sub_of b n k = sub_of a n k.
  Proof. intros S. unfold sub_of. now rewrite (gsem3_same a b _ _ _ S). Qed.

  Definition two (rp : ret) (ci : N) (p0 p1 : choices) (l : list (nat * (ext * option sassign))) : list SG.MappingChoices :=
    if N.eqb ci 0 then [mc_of rp (feed rp p0 l); mc_of rp p1] else [mc_of rp p0; mc_of rp (feed rp p1 l)].

  Lemma one_cands_ext S c sub sub' s m k : sub k = sub' k -> one_cands S c sub s m k = one_cands S c sub' s m k.
  Proof. intros E. unfold one_cands. destruct k as [d cm]. now rewrite E. Qed.

  Definition pc (ci : N) (p0 p1 : choices) : choices := if N.eqb ci 0 then p0 else p1.
  Lemma two_nth rp ci p0 p1 acc : (ci = 0 \/ ci = 1)%N ->
    nth_error (two rp ci p0 p1 acc) (N.to_nat ci) = Some (mc_of rp (feed rp (pc ci p0 p1) acc)).
  Proof. intros [-> | ->]; reflexivity. Qed.
  Lemma two_set rp ci p0 p1 acc x : (ci = 0 \/ ci = 1)%N ->
    SG.nset (two rp ci p0 p1 acc) ci (mc_of rp (feed1 rp (feed rp (pc ci p0 p1) acc) x)) = Some (two rp ci p0 p1 (acc ++ [x])).
  Proof. intros [-> | ->]; unfold two, pc; cbn [N.eqb]; rewrite feed_app; reflexivity. Qed.

  Ltac agg_step rp ci p0 p1 Hci i :=
    match goal with |- context [nth_error (two rp ci p0 p1 ?acc) (N.to_nat ci)] =>
      rewrite (two_nth rp ci p0 p1 acc Hci);
      cbn [mc_of SG.MappingChoices_left SG.MappingChoices_right SG.MappingChoices_conserved SG.MappingChoices_segment
           SG.MappingChoices_separate];
      rewrite agg_update;
      match goal with |- context [SG.nset (two rp ci p0 p1 acc) ci ?r] =>
        match r with context [update sassign_eqb MIN rp _ [?x]] =>
          change r with (mc_of rp (feed1 rp (feed rp (pc ci p0 p1) acc) (i, x)));
          rewrite (two_set rp ci p0 p1 acc (i, x) Hci)
        end
      end
    end.

  Lemma entry_loop3 rp S c (rs : @SG.STree path) m ci (child : tree) (ds : @SG.STree path) p0 p1 :
    rs_ok S rs -> (ci = 0 \/ ci = 1)%N ->
    forall (ML done : list N) tb acc, inv3 rp tb ->
      gkeys tb (EV.TreeNode_id child) (sid ds) = map (@km node_id) (done ++ ML) ->
      exists tb',
        SG.gen_compute_spfs_entry_for3 path_eqb nid_eqb ANC DIST lcaobj rs m (c_sloss c) (c_floss c) ci child ds (map (@km node_id) ML) tb
            (two rp ci p0 p1 acc) =
          SG.Next (tb', two rp ci p0 p1 (acc ++ flat_map (one_cands S c (sub_of tb (EV.TreeNode_id child)) (sid rs) m)
                                                  (map (fun m' => (sid ds, m')) ML)))
        /\ tsame keqb tb tb' /\ (forall pre, length pre = 2%nat -> dkeys tb' pre = dkeys tb pre).
  Proof.
    intros Hrs Hci. induction ML as [|m' ML IH]; intros done tb acc I HK.
    - exists tb. split; [cbn; now rewrite app_nil_r|]. split; [apply tsame_refl; apply I|reflexivity].
    - cbn [map SG.gen_compute_spfs_entry_for3]. unfold km at 1. cbv zeta.
      assert (Hin : In (km m') (dkeys tb [kn (EV.TreeNode_id child); ks (sid ds)])).
      { unfold Common.gkeys in HK. rewrite HK. apply in_map. rewrite in_app_iff. right. now left. }
      (* what follows one key: the other keys *)
      assert (Tail : forall tb1 l1, inv3 rp tb1 -> tsame keqb tb tb1 -> (forall pre, length pre = 2%nat -> dkeys tb1 pre = dkeys tb pre) ->
                l1 = one_cands S c (sub_of tb (EV.TreeNode_id child)) (sid rs) m (sid ds, m') ->
                exists tb',
                  SG.gen_compute_spfs_entry_for3 path_eqb nid_eqb ANC DIST lcaobj rs m (c_sloss c) (c_floss c) ci child ds (map (@km node_id) ML) tb1
                      (two rp ci p0 p1 (acc ++ l1)) =
                  SG.Next (tb', two rp ci p0 p1 (acc ++ flat_map (one_cands S c (sub_of tb (EV.TreeNode_id child)) (sid rs) m)
                                                          (map (fun m' => (sid ds, m')) (m' :: ML))))
                  /\ tsame keqb tb tb' /\ (forall pre, length pre = 2%nat -> dkeys tb' pre = dkeys tb pre)).
      { intros tb1 l1 I1 S1 D1 El.
        destruct (IH (done ++ [m']) tb1 (acc ++ l1) I1) as [tb' [E [S' D']]].
        { unfold Common.gkeys. rewrite D1 by reflexivity. unfold Common.gkeys in HK. rewrite HK, <- app_assoc. reflexivity. }
        exists tb'. split; [|split; [eapply tsame_trans; eauto|intros pre L; now rewrite D', D1]].
        rewrite E. f_equal. f_equal. cbn [map flat_map]. rewrite <- El, <- app_assoc. do 3 f_equal.
        apply flat_map_ext. intros k. apply one_cands_ext. now apply sub_of_same. }
      unfold one_cands in Tail. cbv zeta in Tail.
      destruct (seg_dist m' m true <? 0) eqn:Ecs.
      + (* not a subsequence: continue *)
        destruct (Tail tb [] I (tsame_refl keqb tb (proj1 I)) (fun _ _ => eq_refl) eq_refl) as [tb' [E R]].
        rewrite app_nil_r in E. exists tb'. split; [exact E|exact R].
      + rewrite (rd3_getitem rp tb _ I), (rd3_sub1 rp tb _ _ I), (rd3_sub2 rp tb _ _ _ I), (rd3_value rp tb _ _ _ I), parent_entry3.
        pose proof (rd3_same rp tb (inl (inl (EV.TreeNode_id child))) (inl (inr (sid ds))) (inr m') I) as S1.
        pose proof (inv3_same _ _ _ I S1) as I1.
        pose proof (fun pre L => rd3_dkeys rp tb (kn (EV.TreeNode_id child)) (ks (sid ds)) (km m') pre I L Hin) as D1.
        unfold kn, ks, km in D1.
        change (val (sem keqb tb [_; _; _])) with (sub_of tb (EV.TreeNode_id child) (sid ds, m')).
        remember (sub_of tb (EV.TreeNode_id child) (sid ds, m')) as sub eqn:Esub.
        remember (rd3 tb (inl (inl (EV.TreeNode_id child))) (inl (inr (sid ds))) (inr m')) as tb1 eqn:Etb1.
        change (SG.mk_ObjectAssignment (sid ds) m') with (oa_of (sid ds, m')).
        destruct (Tail tb1 _ I1 S1 D1 eq_refl) as [tb' [E R]]. clear Tail IH.
        exists tb'. split; [|exact R]. refine (eq_trans _ E). clear E R.
        destruct (anc (sid rs) (sid ds)) eqn:A1.
        * agg_step rp ci p0 p1 Hci 2%nat. agg_step rp ci p0 p1 Hci 3%nat.
          destruct rs as [s|s L R]; cbn [SG.STree_is_leaf negb sid SG.STree_id] in *.
          -- rewrite Hrs. rewrite <- !app_assoc. reflexivity.
          -- destruct Hrs as [Hl [HL HR]]. rewrite Hl, HL, HR.
             destruct (anc (s ++ [false]) (sid ds)) eqn:A2.
             ++ agg_step rp ci p0 p1 Hci 0%nat. rewrite <- !app_assoc. reflexivity.
             ++ destruct (anc (s ++ [true]) (sid ds)) eqn:A3.
                ** agg_step rp ci p0 p1 Hci 1%nat. rewrite <- !app_assoc. reflexivity.
                ** rewrite <- !app_assoc. reflexivity.
        * destruct (anc (sid ds) (sid rs)) eqn:A2; cbn [negb].
          -- now rewrite app_nil_r.
          -- agg_step rp ci p0 p1 Hci 4%nat. reflexivity.
  Qed.

  (** ** the loop over the species, for one child; the two children *)
  Lemma HK1 : forall (tb : tstate) pre, twf tb -> (length pre < length (TG.table_dimensions tb))%nat ->
    SG.gen_Proxy_iter path_eqb nid_eqb (TG.Proxy_TableProxy (TG.mk_tproxy tb pre)) =
      SG.Ok (TG.Proxy_TableProxy (TG.mk_tproxy (walked keqb tb pre) pre), dkeys (walked keqb tb pre) pre).
  Proof. exact (proxy_iter_eq nid_eqb nid_eqb_spec). Qed.

  Definition sids3 (l : list (@SG.STree path)) : list path := map sid l.

  Lemma entry_loop2 rp S c (rs : @SG.STree path) m ci (child : tree) p0 p1 (ML : path -> list N) :
    rs_ok S rs -> (ci = 0 \/ ci = 1)%N ->
    forall xs tb acc, inv3 rp tb -> (forall x, gkeys tb (EV.TreeNode_id child) x = map (@km node_id) (ML x)) ->
      exists tb',
        SG.gen_compute_spfs_entry_for2 path_eqb nid_eqb ANC DIST lcaobj rs m (c_sloss c) (c_floss c) ci child xs tb (two rp ci p0 p1 acc) =
          SG.Next (tb', two rp ci p0 p1 (acc ++ flat_map (one_cands S c (sub_of tb (EV.TreeNode_id child)) (sid rs) m) (kl ML (sids3 xs))))
        /\ tsame keqb tb tb' /\ (forall pre, length pre = 2%nat -> dkeys tb' pre = dkeys tb pre).
  Proof.
    intros Hrs Hci. induction xs as [|ds xs IH]; intros tb acc I HK.
    - exists tb. split; [cbn; now rewrite app_nil_r|]. split; [apply tsame_refl; apply I|reflexivity].
    - cbn [SG.gen_compute_spfs_entry_for2].
      rewrite (rd3_getitem rp tb _ I), (rd3_sub1 rp tb _ _ I).
      pose proof I as [W [D _]].
      rewrite (HK1 tb _ W) by (rewrite D; cbn; lia). rewrite parent_table3.
      assert (S1 : tsame keqb tb (walked keqb tb [inl (inl (EV.TreeNode_id child)); inl (inr (sid ds))])).
      { apply walked_same; [apply kspec|exact W|cbn; lia]. }
      pose proof (inv3_same _ _ _ I S1) as I1.
      assert (D1 : forall pre, length pre = 2%nat ->
                 dkeys (walked keqb tb [inl (inl (EV.TreeNode_id child)); inl (inr (sid ds))]) pre = dkeys tb pre).
      { intros pre L. apply HK2; auto. }
      match goal with |- context [SG.gen_compute_spfs_entry_for3 _ _ _ _ _ _ _ _ _ _ _ _ ?l _ _] =>
        replace l with (map (@km node_id) (ML (sid ds)))
          by (rewrite <- (HK (sid ds)); symmetry; exact (D1 [kn (EV.TreeNode_id child); ks (sid ds)] eq_refl)) end.
      match goal with |- context [SG.gen_compute_spfs_entry_for3 _ _ _ _ _ _ _ _ _ _ _ _ _ ?t _] => remember t as tb1 eqn:Etb1 end.
      assert (Etb1' : tb1 = walked keqb tb [inl (inl (EV.TreeNode_id child)); inl (inr (sid ds))]) by exact Etb1.
      clear Etb1. rewrite <- Etb1' in S1, I1, D1.
      destruct (entry_loop3 rp S c rs m ci child ds p0 p1 Hrs Hci (ML (sid ds)) [] tb1 acc I1) as [tb2 [E2 [S2 D2]]].
      { unfold Common.gkeys. rewrite D1 by reflexivity. apply HK. }
      rewrite E2.
      pose proof (tsame_trans keqb _ _ _ S1 S2) as S12. pose proof (inv3_same _ _ _ I S12) as I2.
      destruct (IH tb2 (acc ++ flat_map (one_cands S c (sub_of tb1 (EV.TreeNode_id child)) (sid rs) m)
                                        (map (fun m' => (sid ds, m')) (ML (sid ds)))) I2) as [tb' [E' [S' D']]].
      { intros x. unfold Common.gkeys. rewrite D2, D1 by reflexivity. apply HK. }
      exists tb'. split; [|split; [eapply tsame_trans; eauto|intros pre L; now rewrite D', D2, D1]].
      rewrite E'. f_equal. f_equal. f_equal. unfold kl, sids3. cbn [map flat_map]. rewrite <- app_assoc, flat_map_app. f_equal. f_equal.
      + apply flat_map_ext. intros k. apply one_cands_ext. now apply sub_of_same.
      + apply flat_map_ext. intros k. apply one_cands_ext. now apply sub_of_same.
  Qed.

  (** ** [combine] with an event combinator, the iteration of the combined entry, the write into the cell *)
  Definition combinator3 (k : ext) : EG.Candidate oa -> EG.Candidate oa -> EG.Candidate ca :=
    fun l r => EG.mk_Candidate (ext_add (ext_add k (EG.Candidate_value l)) (EG.Candidate_value r))
                 (Some (SG.mk_ChildrenAssignment (EG.Candidate_info l) (EG.Candidate_info r))).
  Lemma make_comb k : SG.gen_make_event_combinator (sp := path) k = SG.Ok (combinator3 k).
  Proof. reflexivity. Qed.

  Lemma flat_map_cmap3 (k v1 v2 : ext) (l1 l2 : list sassign) :
    flat_map (fun a => map (fun b => comb_f (combinator3 k) v1 v2 a b) (map oa_of l2)) (map oa_of l1) =
    map (cmap tag_ca) (flat_map (fun a => map (fun b => scomb k v1 v2 a b) l2) l1).
  Proof.
    induction l1 as [|a l1 IH]; cbn [flat_map map]; [reflexivity|]. rewrite map_app, IH. f_equal.
    rewrite !map_map. apply map_ext. intros b. reflexivity.
  Qed.

  Lemma comb3_eq rp k (E1 E2 : entry sassign) :
    SG.entry_res (EG.gen_entry_combine caeqb (agg_state rp E1) (agg_state rp E2) (combinator3 k)) =
      SG.Ok (agg_state rp E1, mk EG.MergePolicy_MIN (prc rp) (emap tag_ca (combine stag_eqb MIN rp E1 E2 (scomb k (val E1) (val E2))))).
  Proof.
    rewrite gen_entry_combine_eq. unfold agg_state. cbn [EG.entry__merge_policy EG.entry__retention_policy mk cmp SG.entry_res].
    rewrite crp_prc, !ent_mk. unfold combine. cbn [emap tags val]. rewrite flat_map_cmap3.
    change (@default_entry ca MIN) with (emap tag_ca (@default_entry stag MIN)).
    now rewrite (update_emap stag_eqb caeqb tag_ca ca_eqb_tag).
  Qed.

  Lemma iter3_eq rp (C : entry stag) :
    SG.table_res (TG.gen_entry_iter (mk EG.MergePolicy_MIN (prc rp) (emap tag_ca C))) =
      SG.Ok (mk EG.MergePolicy_MIN (prc rp) (emap tag_ca C), map (fun t => EG.mk_Candidate (val C) (Some (tag_ca t))) (tags C)).
  Proof. rewrite gen_entry_iter_eq. cbn. now rewrite map_map. Qed.

  Lemma ccand_cands3 (C : entry stag) :
    map ccand (map (fun t => EG.mk_Candidate (val C) (Some (tag_ca t))) (tags C)) = map (cmap tag_ca) (cands C).
  Proof. unfold cands. rewrite !map_map. reflexivity. Qed.

  Lemma has_fin_cmap3 (b : list (ext * option stag)) (cs : list (EG.Candidate ca)) :
    map ccand cs = map (cmap tag_ca) b -> has_fin cs = Thl.has_finite b.
  Proof.
    intros E. rewrite has_fin_model, E. unfold Thl.has_finite. clear E. induction b as [|x b IH]; cbn [map existsb]; [reflexivity|].
    now rewrite IH.
  Qed.

  (** [EntryProxy.update] on a cell that reads as [e] *)
  Definition cell_upd3 (rp : ret) (e : entry stag) (cs : list (ext * option stag)) : entry stag :=
    if Thl.has_finite cs then update stag_eqb MIN rp e cs else e.
  Lemma cell_upd3_default rp cs : cell_upd3 rp (default_entry MIN) cs = first_write rp cs.
  Proof. reflexivity. Qed.

  Lemma entry2_agg3 rp tb : inv3 rp tb ->
    SG.table_res (TG.gen_table_entry2 (U := oa) tb) = SG.Ok (tb, agg_state rp (default_entry MIN)).
  Proof. intros [_ [_ [M R]]]. rewrite gen_table_entry2_eq. unfold agg_state. now rewrite M, R. Qed.

  (** ** [_compute_spfs_entry] = the batch of the model, for the enumeration of the code, written into the cell *)
  Theorem gen_compute_spfs_entry_eq rp S c (rs ST : @SG.STree path) m nid L R tb e0 (MLL MLR : path -> list N) :
    rs_ok S rs -> inv3 rp tb ->
    (forall x, gkeys tb (EV.TreeNode_id L) x = map (@km node_id) (MLL x)) ->
    (forall x, gkeys tb (EV.TreeNode_id R) x = map (@km node_id) (MLR x)) ->
    gsem3 tb nid (sid rs) m = emap tag_ca e0 ->
    let batch := sbatch_o S c rp (sub_of tb (EV.TreeNode_id L)) (sub_of tb (EV.TreeNode_id R))
                          (kl MLL (sids3 (SG.STree_levelorder ST))) (kl MLR (sids3 (SG.STree_levelorder ST))) (sid rs) m in
    exists tb',
      SG.gen_compute_spfs_entry path_eqb nid_eqb ANC DIST (fun _ => ST) lcaobj rs m (EV.TreeNode_node nid L R) tb (stsocc c) = SG.Ok (tb', tt) /\
      inv3 rp tb' /\
      gsem3 tb' nid (sid rs) m = emap tag_ca (cell_upd3 rp e0 batch) /\
      (forall n x m', (n, x, m') <> (nid, sid rs, m) -> gsem3 tb' n x m' = gsem3 tb n x m') /\
      (forall n x, (n, x) <> (nid, sid rs) -> gkeys tb' n x = gkeys tb n x) /\
      gkeys tb' nid (sid rs) = (if Thl.has_finite batch && negb (existsb (keqb (km m)) (gkeys tb nid (sid rs)))
                                then gkeys tb nid (sid rs) ++ [km m] else gkeys tb nid (sid rs)).
  Proof.
    intros Hrs I HL HR E0 batch. unfold SG.gen_compute_spfs_entry. cbv beta iota zeta.
    rewrite (entry2_agg3 rp tb I).
    change (repeat _ 2) with (two rp 0 choices0 choices0 []).
    change (N.to_nat 2) with 2%nat. cbn [SG.gen_compute_spfs_entry_for1 N.eqb].
    cbn [EV.CostValues_SEGMENTAL_LOSS EV.CostValues_FULL_LOSS EV.CostValues_SPECIATION EV.CostValues_DUPLICATION
         EV.CostValues_HORIZONTAL_TRANSFER stsocc].
    destruct (entry_loop2 rp S c rs m 0 L choices0 choices0 MLL Hrs (or_introl eq_refl) (SG.STree_levelorder ST) tb [] I HL)
      as [tb1 [E1 [S1 D1]]].
    rewrite E1. cbn [app]. pose proof (inv3_same _ _ _ I S1) as I1.
    change (N.succ 0) with 1%N. cbn [N.eqb Pos.eqb].
    remember (flat_map (one_cands S c (sub_of tb (EV.TreeNode_id L)) (sid rs) m) (kl MLL (sids3 (SG.STree_levelorder ST)))) as L0 eqn:EL0.
    change (two rp 0 choices0 choices0 L0) with (two rp 1 (feed rp choices0 L0) choices0 []).
    destruct (entry_loop2 rp S c rs m 1 R (feed rp choices0 L0) choices0 MLR Hrs (or_intror eq_refl) (SG.STree_levelorder ST) tb1 [] I1)
      as [tb2 [E2 [S2 D2]]].
    { intros x. unfold Common.gkeys. rewrite D1 by reflexivity. apply HR. }
    rewrite E2. cbn [app].
    pose proof (tsame_trans keqb _ _ _ S1 S2) as S12. pose proof (inv3_same _ _ _ I S12) as I2.
    assert (EL1 : flat_map (one_cands S c (sub_of tb1 (EV.TreeNode_id R)) (sid rs) m) (kl MLR (sids3 (SG.STree_levelorder ST))) =
                  flat_map (one_cands S c (sub_of tb (EV.TreeNode_id R)) (sid rs) m) (kl MLR (sids3 (SG.STree_levelorder ST)))).
    { apply flat_map_ext. intros k. apply one_cands_ext. now apply sub_of_same. }
    rewrite EL1. clear EL1.
    remember (flat_map (one_cands S c (sub_of tb (EV.TreeNode_id R)) (sid rs) m) (kl MLR (sids3 (SG.STree_levelorder ST)))) as L1 eqn:EL1.
    rewrite !make_comb. unfold two. cbn [N.eqb nth_error]. cbn [mc_of SG.MappingChoices_left SG.MappingChoices_right SG.MappingChoices_conserved
      SG.MappingChoices_segment SG.MappingChoices_separate].
    rewrite (rd3_getitem rp tb2 _ I2), (rd3_sub1 rp tb2 _ _ I2), (rd3_sub2 rp tb2 _ _ _ I2).
    rewrite !comb3_eq, !iter3_eq.
    match goal with |- context [TG.gen_Proxy_update _ _ _ ?l] => remember l as cs eqn:Ecs end.
    pose proof I2 as [W2 [Dm2 [M2 R2]]].
    assert (S3 : tsame keqb tb2 (walked keqb tb2 [inl (inl nid); inl (inr (sid rs))])).
    { apply walked_same; [apply kspec|exact W2|cbn; lia]. }
    pose proof (tsame_trans keqb _ _ _ S12 S3) as S123. pose proof (inv3_same _ _ _ I S123) as I3.
    assert (D3 : forall pre, length pre = 2%nat -> dkeys (walked keqb tb2 [inl (inl nid); inl (inr (sid rs))]) pre = dkeys tb pre).
    { intros pre Lp. rewrite HK2 by auto. now rewrite D2, D1. }
    match goal with |- context [TG.gen_Proxy_update _ _ (TG.Proxy_EntryProxy (TG.mk_eproxy ?t _)) _] => remember t as tb3 eqn:Etb3 end.
    assert (Etb3' : tb3 = walked keqb tb2 [inl (inl nid); inl (inr (sid rs))]) by exact Etb3.
    clear Etb3. rewrite <- Etb3' in S3, S123, I3, D3.
    pose proof I3 as [W3 [Dm3 [M3 R3]]].
    destruct (update_dkeys nid_eqb nid_eqb_spec tb3 [inl (inl nid); inl (inr (sid rs))] (inr m) cs W3 Dm3 eq_refl)
      as [tb' [E [P1 [P2 [P3 [W' [Sk [So Kk]]]]]]]].
    cbn [app] in *. cbn [TG.gen_Proxy_update].
    match goal with |- context [TG.gen_eproxy_update ?a ?b ?p ?q] =>
      replace (TG.gen_eproxy_update a b p q) with (TG.Ok (TG.mk_eproxy tb' [inl (inl nid); inl (inr (sid rs)); inr m], tt))
        by (symmetry; exact E) end.
    cbn [SG.table_res]. rewrite parent_entry3.
    assert (Ecs' : map ccand cs = map (cmap tag_ca) batch).
    { rewrite Ecs. unfold batch, sbatch_o, comb2. rewrite !map_app, !ccand_cands3.
      rewrite <- !(feed_choices_o S c rp), <- EL0, <- EL1. cbn [ch_left ch_right ch_conserved ch_segment ch_separate]. reflexivity. }
    exists tb'. split; [reflexivity|]. split; [repeat split; auto; congruence|]. split; [|split; [|split]].
    - unfold Common.gsem3, ck3, kn, ks, km. rewrite Sk, (has_fin_cmap3 batch cs Ecs'), M3, R3. cbn [cmp]. rewrite crp_prc.
      rewrite (tsame_sem keqb tb tb3 _ S123). change (sem keqb tb [inl (inl nid); inl (inr (sid rs)); inr m]) with (gsem3 tb nid (sid rs) m).
      rewrite E0, Ecs'. unfold cell_upd3. destruct (Thl.has_finite batch); [|reflexivity].
      now rewrite (update_emap stag_eqb caeqb tag_ca ca_eqb_tag).
    - intros n x m' Hne. unfold Common.gsem3.
      transitivity (sem keqb tb3 (ck3 n x m')); [|apply tsame_sem; exact S123].
      unfold sem. rewrite So, P1; [reflexivity|rewrite Dm3; reflexivity|].
      unfold ck3, kn, ks, km. intros Eq. inversion Eq. congruence.
    - intros n x Hne. unfold Common.gkeys, kn, ks. rewrite Kk by reflexivity.
      destruct (has_fin cs); [|apply D3; reflexivity].
      match goal with |- context [leqb ?e ?a ?b] => destruct (leqb e a b) eqn:El end; cbn [andb]; [|apply D3; reflexivity].
      exfalso. apply Hne.
      assert (Eq : [inl (inl n); inl (inr x)] = [@inl (node_id + path) N (inl nid); inl (inr (sid rs))]).
      { apply (reflect_iff _ _ (pre_eqb_spec nid_eqb nid_eqb_spec _ _)). exact El. }
      inversion Eq. reflexivity.
    - unfold Common.gkeys, kn, ks, km. rewrite Kk by reflexivity. rewrite (has_fin_cmap3 batch cs Ecs').
      match goal with |- context [leqb ?e ?a ?b] => destruct (leqb e a b) eqn:El end.
      2:{ exfalso. assert (Hr := pre_eqb_spec nid_eqb nid_eqb_spec [@inl (node_id + path) N (inl nid); inl (inr (sid rs))]
                                              [inl (inl nid); inl (inr (sid rs))]).
          assert (Et : leqb keqb [@inl (node_id + path) N (inl nid); inl (inr (sid rs))] [inl (inl nid); inl (inr (sid rs))] = true)
            by (apply (reflect_iff _ _ Hr); reflexivity).
          assert (Ef : leqb keqb [@inl (node_id + path) N (inl nid); inl (inr (sid rs))] [inl (inl nid); inl (inr (sid rs))] = false) by exact El.
          rewrite Et in Ef. discriminate Ef. }
      cbn [andb]. rewrite (D3 [inl (inl nid); inl (inr (sid rs))] eq_refl).
      destruct (Thl.has_finite batch); cbn [andb].
      + match goal with |- (if ?b then _ else _) = (if ?b' then _ else _) => change b' with b; destruct b end;
          [reflexivity|exact (D3 [inl (inl nid); inl (inr (sid rs))] eq_refl)].
      + try reflexivity; exact (D3 [inl (inl nid); inl (inr (sid rs))] eq_refl).
  Qed.
End Entry3.

Print Assumptions gen_compute_spfs_entry_eq.
End Entry.

(* ====================================================================== *)
Module Embed.
(** The species tree of the model as the tree of nodes the generated SPFS code walks ([SG.STree], identifiers = paths):
    the facts of [Proofs/ThlGenProofs.v] about [sembed] transported along the isomorphism of the two generated tree types. *)

Import SR.Base.PathB SR.Base.Ext SR.Model.Entry SR.Model.Recon SR.Model.Thl SR.Model.Spfs SR.Proofs.PathFacts SR.Proofs.ThlGenProofs.

Import Common Entry.
Import ListNotations.
Module T3 := SR.Gen.ThlGen.

Fixpoint t2s (t : T3.STree path) : @SG.STree path :=
  match t with
  | T3.STree_leaf i => SG.STree_leaf i
  | T3.STree_node i a b => SG.STree_node i (t2s a) (t2s b)
  end.
Definition sembed3 (S : stree) (p : path) : @SG.STree path := t2s (sembed S p).

Lemma t2s_id t : SG.STree_id (t2s t) = T3.STree_id t.
Proof. destruct t; reflexivity. Qed.

Lemma zip_levels_map {X Y} (f : X -> Y) (a : list (list X)) : forall b,
  SG.zip_levels (map (map f) a) (map (map f) b) = map (map f) (T3.zip_levels a b).
Proof.
  induction a as [|x a IH]; intros b; [reflexivity|]. destruct b as [|y b]; [reflexivity|].
  cbn [map SG.zip_levels T3.zip_levels]. now rewrite IH, map_app.
Qed.
Lemma t2s_levels t : SG.STree_levels (t2s t) = map (map t2s) (T3.STree_levels t).
Proof.
  induction t as [i|i a IHa b IHb]; [reflexivity|]. cbn [t2s SG.STree_levels T3.STree_levels map].
  now rewrite IHa, IHb, zip_levels_map.
Qed.
Lemma t2s_levelorder t : SG.STree_levelorder (t2s t) = map t2s (T3.STree_levelorder t).
Proof. unfold SG.STree_levelorder, T3.STree_levelorder. now rewrite t2s_levels, concat_map. Qed.
Lemma t2s_postorder t : SG.STree_postorder (t2s t) = map t2s (T3.STree_postorder t).
Proof.
  induction t as [i|i a IHa b IHb]; [reflexivity|]. cbn [t2s SG.STree_postorder T3.STree_postorder].
  now rewrite IHa, IHb, !map_app.
Qed.

Lemma sids3_t2s l : sids3 (map t2s l) = ids l.
Proof. unfold sids3, ids. rewrite map_map. apply map_ext. intros x. apply t2s_id. Qed.

(** the level-order list of the code has exactly the species of [S] *)
Lemma lev_sameset S : sameset (sids3 (SG.STree_levelorder (sembed3 S []))) (snodes S).
Proof. unfold sembed3. rewrite t2s_levelorder, sids3_t2s. exact (sameset_snodes S). Qed.
Lemma post_sameset S : sameset (sids3 (SG.STree_postorder (sembed3 S []))) (snodes S).
Proof.
  unfold sembed3. rewrite t2s_postorder, sids3_t2s. intros y. rewrite <- (sameset_snodes S y). unfold sids, ids.
  rewrite !in_map_iff. split; intros [x [<- Hx]]; exists x; (split; [reflexivity|]).
  - apply In_levelorder. now apply In_postorder.
  - apply In_postorder. now apply In_levelorder.
Qed.
Lemma post_nodup S : NoDup (sids3 (SG.STree_postorder (sembed3 S []))).
Proof. unfold sembed3. rewrite t2s_postorder, sids3_t2s. apply postorder_ids_nodup. Qed.

(** every node of the embedding stands for its species: leaves for leaves, children with the child paths *)
Lemma sub_rs_ok S q S' : sub S q = Some S' -> rs_ok S (t2s (sembed S' q)).
Proof.
  intros H. destruct S' as [|l r]; cbn [sembed t2s rs_ok].
  - now apply sleaf_sub.
  - split; [|split; rewrite t2s_id; apply sembed_id].
    destruct (sleaf S q) eqn:E; [|reflexivity]. apply sleaf_sub in E. congruence.
Qed.
Lemma post_rs_ok S rs : In rs (SG.STree_postorder (sembed3 S [])) -> rs_ok S rs.
Proof.
  unfold sembed3. rewrite t2s_postorder, in_map_iff. intros [x [<- Hx]].
  apply In_postorder in Hx as [q [S' [Hs ->]]]. cbn [app]. now apply sub_rs_ok.
Qed.
Lemma lev_rs_ok S rs : In rs (SG.STree_levelorder (sembed3 S [])) -> rs_ok S rs.
Proof.
  unfold sembed3. rewrite t2s_levelorder, in_map_iff. intros [x [<- Hx]].
  apply In_levelorder in Hx as [q [S' [Hs ->]]]. cbn [app]. now apply sub_rs_ok.
Qed.
End Embed.

(* ====================================================================== *)
Module TableExact.
(** Stage 3: [_compute_spfs_table] as generated = the table of [TableO.v] (cells and key lists), for the enumeration
    orders of the code. *)

Import SR.Base.PathB SR.Base.Ext SR.Model.Subseq SR.Model.Entry SR.Model.Recon SR.Model.LcaRec SR.Model.Thl SR.Model.Spfs SR.Proofs.PathFacts SR.Proofs.EntryProofs SR.Proofs.EntryGenProofs SR.Proofs.EvalGenProofs SR.Proofs.TableGenProofs SR.Proofs.ThlGenProofs.

Import Common ModelO Keys TableO Entry ModelPerm.
Import ListNotations.
Local Open Scope Z_scope.

(** * generic list facts *)
Lemma existsb_eqb_In {X} (eqb : X -> X -> bool) (spec : forall a b, reflect (a = b) (eqb a b)) (l : list X) k :
  existsb (eqb k) l = true <-> In k l.
Proof.
  rewrite existsb_exists. split.
  - intros [x [Hi Hx]]. destruct (spec k x); [now subst|discriminate].
  - intros Hi. exists k. split; [exact Hi|]. destruct (spec k k); congruence.
Qed.
Lemma existsb_eqb_notIn {X} (eqb : X -> X -> bool) (spec : forall a b, reflect (a = b) (eqb a b)) (l : list X) k :
  existsb (eqb k) l = false <-> ~ In k l.
Proof.
  rewrite <- (existsb_eqb_In eqb spec l k). destruct (existsb (eqb k) l); split; intros H; try congruence.
  all: try (exfalso; now apply H).
Qed.
Lemma NoDup_app_l3 {X} (l1 l2 : list X) : NoDup (l1 ++ l2) -> NoDup l1.
Proof.
  induction l1 as [|x l1 IH]; cbn; intros H; [constructor|]. inversion H as [|? ? Hx Hl]; subst.
  constructor; [intros Hi; apply Hx; rewrite in_app_iff; now left|auto].
Qed.
Lemma NoDup_app_r3 {X} (l1 l2 : list X) : NoDup (l1 ++ l2) -> NoDup l2.
Proof. induction l1 as [|x l1 IH]; cbn; intros H; [exact H|]. inversion H; subst. auto. Qed.
Lemma NoDup_app_disj3 {X} (l1 l2 : list X) x : NoDup (l1 ++ l2) -> In x l1 -> In x l2 -> False.
Proof.
  induction l1 as [|y l1 IH]; cbn; intros H H1 H2; [destruct H1|]. inversion H as [|? ? Hy Hl]; subst.
  destruct H1 as [->|H1]; [apply Hy; rewrite in_app_iff; now right|eauto].
Qed.

(** the batch depends on the readers of the children through their values only *)
Lemma sbatch_o_ext S c rp (subA subA' subB subB' : sassign -> ext) ksA ksB s m :
  (forall k, subA k = subA' k) -> (forall k, subB k = subB' k) ->
  sbatch_o S c rp subA subB ksA ksB s m = sbatch_o S c rp subA' subB' ksA ksB s m.
Proof.
  intros EA EB. unfold sbatch_o.
  now rewrite (choices_o_ext S c rp subA subA' s m ksA (fun k _ => EA k)), (choices_o_ext S c rp subB subB' s m ksB (fun k _ => EB k)).
Qed.

Section Table3X.
  Context {lca node_id : Type} (nid_eqb : node_id -> node_id -> bool).
  Hypothesis nid_eqb_spec : forall a b, reflect (a = b) (nid_eqb a b).
  Notation key := (@SG.key path node_id).
  Notation keqb := (SG.key_eqb path_eqb nid_eqb).
  Notation caeqb := (SG.ChildrenAssignment_eqb path_eqb).
  Notation tstate := (TG.table_state key ca).
  Notation tree := (EV.TreeNode node_id).
  Notation kspec := (keqb_spec3 nid_eqb nid_eqb_spec).
  Notation inv3 := (@inv3 node_id).
  Notation gsem3 := (gsem3 nid_eqb).
  Notation dkeys := (dkeys nid_eqb).
  Notation gkeys := (gkeys nid_eqb).
  Notation sub_of := (sub_of nid_eqb).
  Notation km := (@km node_id).
  Variable lcaobj : lca.
  Notation DIST := (fun (_ : lca) => dist).
  Notation ANC := (fun (_ : lca) => anc).
  Notation sid := (@SG.STree_id path).
  Notation oids l := (map (@EV.TreeNode_id node_id) l).

  Lemma km_inj a b : km a = km b -> a = b.
  Proof. unfold Common.km. congruence. Qed.
  Lemma in_map_km m l : In (km m) (map km l) <-> In m l.
  Proof.
    split; [|apply in_map]. rewrite in_map_iff. intros [x [E H]]. apply km_inj in E. now subst.
  Qed.

  (** ** T1: [table[k1][k2][k3] = Candidate(0)] on a cell that does not exist yet *)
  Lemma leaf_write rp tb (i : node_id) (s : path) (m : N) : inv3 rp tb ->
    gsem3 tb i s m = default_entry MIN -> ~ In (km m) (gkeys tb i s) ->
    exists tb',
      SG.table_res (TG.gen_Proxy_setitem keqb caeqb (TG.Proxy_TableProxy (TG.mk_tproxy tb [inl (inl i); inl (inr s)])) (inr m)
                      (EG.mk_Candidate (Fin 0) None)) =
        SG.Ok (TG.Proxy_TableProxy (TG.mk_tproxy tb' [inl (inl i); inl (inr s)]), tt) /\
      inv3 rp tb' /\
      gsem3 tb' i s m = emap tag_ca {| val := Fin 0; tags := [] |} /\
      (forall n x m', (n, x, m') <> (i, s, m) -> gsem3 tb' n x m' = gsem3 tb n x m') /\
      gkeys tb' i s = gkeys tb i s ++ [km m] /\
      (forall n x, (n, x) <> (i, s) -> gkeys tb' n x = gkeys tb n x).
  Proof.
    intros I E0 Hk. pose proof I as [W [D [M R]]].
    destruct (setitem_dkeys nid_eqb nid_eqb_spec tb [inl (inl i); inl (inr s)] (inr m) (EG.mk_Candidate (Fin 0) None) W D eq_refl)
      as [tb' [E [P1 [P2 [P3 [W' [Sk [So Kk]]]]]]]].
    cbn [app] in *. exists tb'. split.
    { cbn [TG.gen_Proxy_setitem].
      match goal with |- context [TG.gen_tproxy_setitem ?a ?b ?p ?q ?r] =>
        replace (TG.gen_tproxy_setitem a b p q r) with (TG.Ok (TG.mk_tproxy tb' [inl (inl i); inl (inr s)], tt))
          by (symmetry; exact E) end.
      reflexivity. }
    split; [repeat split; auto; congruence|].
    assert (Hf : has_fin [EG.mk_Candidate (A := ca) (Fin 0) None] = true) by reflexivity.
    rewrite Hf in Sk, Kk. split; [|split; [|split]].
    - unfold Common.gsem3, ck3, kn, ks, Common.km. rewrite Sk, M, R. cbn [cmp]. rewrite crp_prc.
      change (sem keqb tb [inl (inl i); inl (inr s); inr m]) with (gsem3 tb i s m). rewrite E0.
      destruct rp; reflexivity.
    - intros n x m' Hne. unfold Common.gsem3, sem. rewrite So, P1; [reflexivity|rewrite D; reflexivity|].
      unfold ck3, kn, ks, Common.km. intros Eq. inversion Eq. congruence.
    - unfold Common.gkeys, kn, ks. rewrite Kk by reflexivity.
      assert (Et : leqb keqb [@inl (node_id + path) N (inl i); inl (inr s)] [inl (inl i); inl (inr s)] = true).
      { apply (reflect_iff _ _ (pre_eqb_spec nid_eqb nid_eqb_spec _ _)). reflexivity. }
      assert (Ex : existsb (keqb (inr m)) (dkeys tb [inl (inl i); inl (inr s)]) = false).
      { apply (existsb_eqb_notIn keqb kspec). exact Hk. }
      match goal with |- context [leqb ?e ?a ?b] => destruct (leqb e a b) eqn:El end.
      2:{ exfalso. assert (Ef : leqb keqb [@inl (node_id + path) N (inl i); inl (inr s)] [inl (inl i); inl (inr s)] = false) by exact El.
          rewrite Et in Ef. discriminate Ef. }
      cbn [andb].
      match goal with |- context [existsb ?f ?l] => destruct (existsb f l) eqn:Ee end; [|reflexivity].
      exfalso. clear - Ex Ee. congruence.
    - intros n x Hne. unfold Common.gkeys, kn, ks. rewrite Kk by reflexivity.
      match goal with |- context [leqb ?e ?a ?b] => destruct (leqb e a b) eqn:El end; cbn [andb]; [|reflexivity].
      exfalso. apply Hne.
      assert (Eq : [inl (inl n); inl (inr x)] = [@inl (node_id + path) N (inl i); inl (inr s)]).
      { apply (reflect_iff _ _ (pre_eqb_spec nid_eqb nid_eqb_spec _ _)). exact El. }
      inversion Eq. reflexivity.
  Qed.

  (** ** T2: one internal object node: the product loop (species x masks) *)
  Variables (rp : ret) (S : stree) (c : costs) (ST : @SG.STree path) (leafsp : node_id -> path) (syn : node_id -> list N) (O : tree).
  Let sin : EV.sin_state N path lca node_id := EV.mk_sin O lcaobj leafsp (stsocc c) syn.
  Notation lev := (sids3 (SG.STree_levelorder ST)).
  Notation FOR2IN := (SG.gen_compute_spfs_table_for2_in path_eqb nid_eqb ANC DIST (fun _ => ST) sin).
  Notation FOR2 := (SG.gen_compute_spfs_table_for2 path_eqb nid_eqb ANC DIST (fun _ => ST) sin).

  Section Node.
    Variables (nid : node_id) (L R : tree) (EA EB : sassign -> entry stag) (KA KB : path -> list N).
    Hypothesis N1 : nid <> EV.TreeNode_id L.
    Hypothesis N2 : nid <> EV.TreeNode_id R.
    Notation bat := (sbatch_o S c rp (fun k => val (EA k)) (fun k => val (EB k)) (kl KA lev) (kl KB lev)).

    (** the rows of the two children are complete *)
    Definition child_ok (tb : tstate) : Prop :=
      (forall x m, gsem3 tb (EV.TreeNode_id L) x m = emap tag_ca (EA (x, m))) /\
      (forall x, gkeys tb (EV.TreeNode_id L) x = map km (KA x)) /\
      (forall x m, gsem3 tb (EV.TreeNode_id R) x m = emap tag_ca (EB (x, m))) /\
      (forall x, gkeys tb (EV.TreeNode_id R) x = map km (KB x)).

    Lemma child_ok_frame tb tb' :
      (forall n x m, n <> nid -> gsem3 tb' n x m = gsem3 tb n x m) -> (forall n x, n <> nid -> gkeys tb' n x = gkeys tb n x) ->
      child_ok tb -> child_ok tb'.
    Proof.
      intros F1 F2 [HA [HKA [HB HKB]]]. repeat split; intros.
      - rewrite F1 by congruence. apply HA.
      - rewrite F2 by congruence. apply HKA.
      - rewrite F1 by congruence. apply HB.
      - rewrite F2 by congruence. apply HKB.
    Qed.

    Lemma child_ok_batch tb x m : child_ok tb ->
      sbatch_o S c rp (sub_of tb (EV.TreeNode_id L)) (sub_of tb (EV.TreeNode_id R)) (kl KA lev) (kl KB lev) x m = bat x m.
    Proof.
      intros [HA [_ [HB _]]]. apply sbatch_o_ext; intros [y m']; unfold Entry.sub_of; cbn [fst snd]; [rewrite HA|rewrite HB]; reflexivity.
    Qed.

    Lemma mask_loop rs : rs_ok S rs -> forall ms tb, inv3 rp tb -> NoDup ms -> child_ok tb ->
      (forall m, In m ms -> gsem3 tb nid (sid rs) m = default_entry MIN) ->
      (forall m, In m ms -> ~ In (km m) (gkeys tb nid (sid rs))) ->
      exists tb', FOR2IN (EV.TreeNode_node nid L R) rs ms tb = SG.Next tb' /\ inv3 rp tb' /\
        (forall m, In m ms -> gsem3 tb' nid (sid rs) m = emap tag_ca (first_write rp (bat (sid rs) m))) /\
        gkeys tb' nid (sid rs) = gkeys tb nid (sid rs) ++ map km (filter (fun m => Thl.has_finite (bat (sid rs) m)) ms) /\
        (forall n x m, (n, x) <> (nid, sid rs) \/ ~ In m ms -> gsem3 tb' n x m = gsem3 tb n x m) /\
        (forall n x, (n, x) <> (nid, sid rs) -> gkeys tb' n x = gkeys tb n x).
    Proof.
      intros Hrs. induction ms as [|m ms IH]; intros tb I ND HC H0 Hk.
      - exists tb. split; [reflexivity|]. split; [exact I|]. split; [intros m []|]. split; [cbn; now rewrite app_nil_r|].
        split; reflexivity.
      - inversion ND as [|? ? Nm ND']; subst. cbn [SG.gen_compute_spfs_table_for2_in].
        change (EV.sin_species_lca sin) with lcaobj. change (EV.sin_costs sin) with (stsocc c).
        pose proof HC as [HA [HKA [HB HKB]]].
        assert (E0 : gsem3 tb nid (sid rs) m = emap tag_ca (default_entry MIN)) by (apply H0; now left).
        pose proof (gen_compute_spfs_entry_eq nid_eqb nid_eqb_spec lcaobj rp S c rs ST m nid L R tb (default_entry MIN) KA KB
                      Hrs I HKA HKB E0) as X.
        cbv zeta in X. rewrite (child_ok_batch tb (sid rs) m HC), cell_upd3_default in X.
        destruct X as [tb1 [E1 [I1 [Sk1 [So1 [Ko1 Kk1]]]]]].
        rewrite E1.
        assert (Ex : existsb (keqb (km m)) (gkeys tb nid (sid rs)) = false).
        { apply (existsb_eqb_notIn keqb kspec). apply Hk. now left. }
        rewrite Ex in Kk1. cbn [negb] in Kk1. rewrite andb_true_r in Kk1.
        assert (HC1 : child_ok tb1).
        { apply (child_ok_frame tb tb1); [| |exact HC].
          - intros n x m' Hn. apply So1. intros Eq. inversion Eq. congruence.
          - intros n x Hn. apply Ko1. intros Eq. inversion Eq. congruence. }
        destruct (IH tb1 I1 ND' HC1) as [tb' [E' [I' [Sk' [Kk' [So' Ko']]]]]].
        { intros m' Hm'. rewrite So1; [apply H0; now right|]. intros Eq. inversion Eq. subst. contradiction. }
        { intros m' Hm'. rewrite Kk1. destruct (Thl.has_finite (bat (sid rs) m)); [|apply Hk; now right].
          rewrite in_app_iff. intros [H|[H|[]]]; [revert H; apply Hk; now right|].
          apply km_inj in H. subst. contradiction. }
        exists tb'. split; [exact E'|]. split; [exact I'|]. split; [|split; [|split]].
        + intros m' [<-|Hm']; [rewrite So' by (right; exact Nm); exact Sk1|now apply Sk'].
        + rewrite Kk', Kk1. cbn [filter]. destruct (Thl.has_finite (bat (sid rs) m)); cbn [map]; [|reflexivity].
          rewrite <- app_assoc. reflexivity.
        + intros n x m' H. rewrite So'; [rewrite So1; [reflexivity|]|].
          * intros Eq. inversion Eq. subst. destruct H as [H|H]; [apply H; reflexivity|apply H; now left].
          * destruct H as [H|H]; [left; exact H|right; intros Hi; apply H; now right].
        + intros n x H. rewrite Ko' by exact H. apply Ko1. exact H.
    Qed.

    Lemma product_loop ms : NoDup ms -> forall xs tb, inv3 rp tb -> (forall rs, In rs xs -> rs_ok S rs) -> NoDup (sids3 xs) ->
      child_ok tb ->
      (forall x m, In x (sids3 xs) -> gsem3 tb nid x m = default_entry MIN) ->
      (forall x, In x (sids3 xs) -> gkeys tb nid x = []) ->
      exists tb', FOR2 (EV.TreeNode_node nid L R) xs ms tb = SG.Next tb' /\ inv3 rp tb' /\
        (forall rs m, In rs xs -> In m ms -> gsem3 tb' nid (sid rs) m = emap tag_ca (first_write rp (bat (sid rs) m))) /\
        (forall rs, In rs xs -> gkeys tb' nid (sid rs) = map km (filter (fun m => Thl.has_finite (bat (sid rs) m)) ms)) /\
        (forall n x m, n <> nid \/ ~ In x (sids3 xs) \/ ~ In m ms -> gsem3 tb' n x m = gsem3 tb n x m) /\
        (forall n x, n <> nid \/ ~ In x (sids3 xs) -> gkeys tb' n x = gkeys tb n x).
    Proof.
      intros NDm. induction xs as [|rs xs IH]; intros tb I Hrs ND HC H0 HK0.
      - exists tb. split; [reflexivity|]. split; [exact I|]. split; [intros ? ? []|]. split; [intros ? []|]. split; reflexivity.
      - cbn [sids3 map] in ND. inversion ND as [|? ? Nx ND']; subst. cbn [SG.gen_compute_spfs_table_for2].
        destruct (mask_loop rs (Hrs rs (or_introl eq_refl)) ms tb I NDm HC) as [tb1 [E1 [I1 [Sk1 [Kk1 [So1 Ko1]]]]]].
        { intros m _. apply H0. now left. }
        { intros m _. rewrite HK0 by (now left). intros []. }
        rewrite E1. rewrite HK0 in Kk1 by (now left). cbn [app] in Kk1.
        assert (HC1 : child_ok tb1).
        { apply (child_ok_frame tb tb1); [| |exact HC].
          - intros n x m' Hn. apply So1. left. congruence.
          - intros n x Hn. apply Ko1. congruence. }
        destruct (IH tb1 I1 (fun r Hr => Hrs r (or_intror Hr)) ND' HC1) as [tb' [E' [I' [Sk' [Kk' [So' Ko']]]]]].
        { intros x m Hx. rewrite So1; [apply H0; now right|]. left. intros Eq. inversion Eq. subst. contradiction. }
        { intros x Hx. rewrite Ko1; [apply HK0; now right|]. intros Eq. inversion Eq. subst. contradiction. }
        exists tb'. split; [exact E'|]. split; [exact I'|]. split; [|split; [|split]].
        + intros r m [<-|Hr] Hm; [|now apply Sk'].
          rewrite So' by (right; left; exact Nx). now apply Sk1.
        + intros r [<-|Hr]; [|now apply Kk'].
          rewrite Ko' by (right; exact Nx). exact Kk1.
        + intros n x m H. cbn [sids3 map In] in H. rewrite So'; [rewrite So1; [reflexivity|]|].
          * destruct H as [H|[H|H]]; [left; congruence| |right; exact H].
            left. intros Eq. inversion Eq. subst. apply H. now left.
          * destruct H as [H|[H|H]]; [left; exact H| |right; right; exact H].
            right; left. intros Hi. apply H. now right.
        + intros n x H. cbn [sids3 map In] in H. rewrite Ko'; [rewrite Ko1; [reflexivity|]|].
          * destruct H as [H|H]; [congruence|]. intros Eq. inversion Eq. subst. apply H. now left.
          * destruct H as [H|H]; [left; exact H|]. right. intros Hi. apply H. now right.
    Qed.
  End Node.

  (** ** T3: the loop over the object nodes, children first; the whole table *)
  Variables (ord : list N) (AS : @SG.STree path -> tree -> list (@SG.STree path)) (AM : list N -> tree -> list N).
  Notation FOR1 := (SG.gen_compute_spfs_table_for1 N.eqb path_eqb nid_eqb ANC DIST (fun _ => ST) sin ord AS AM).
  Notation TC := (tcell3 S c rp ord leafsp syn lev (fun u => sids3 (AS ST u)) (AM ord)).
  Notation TK := (tkeys3 S c rp ord leafsp syn lev (fun u => sids3 (AS ST u)) (AM ord)).

  (** what the two callbacks must satisfy on an internal object node *)
  Definition allowed_ok (u : tree) : Prop :=
    (forall rs, In rs (AS ST u) -> rs_ok S rs) /\ NoDup (sids3 (AS ST u)) /\ NoDup (AM ord u).

  Lemma root_in_postorder3 (t : tree) : In t (SG.TreeNode_postorder t).
  Proof. destruct t; cbn; [now left|]. rewrite !in_app_iff. right; right. now left. Qed.

  Lemma object_loop3 (t : tree) : forall rest tb, inv3 rp tb -> NoDup (oids (SG.TreeNode_postorder t)) ->
    (forall u, In u (SG.TreeNode_postorder t) -> EV.TreeNode_is_leaf u = false -> allowed_ok u) ->
    (forall n, In n (oids (SG.TreeNode_postorder t)) -> forall s m, gsem3 tb n s m = default_entry MIN) ->
    (forall n, In n (oids (SG.TreeNode_postorder t)) -> forall s, gkeys tb n s = []) ->
    exists tb', FOR1 (SG.TreeNode_postorder t ++ rest) tb = FOR1 rest tb' /\ inv3 rp tb' /\
      (forall u, In u (SG.TreeNode_postorder t) -> forall s m, gsem3 tb' (EV.TreeNode_id u) s m = emap tag_ca (TC u (s, m))) /\
      (forall u, In u (SG.TreeNode_postorder t) -> forall s, gkeys tb' (EV.TreeNode_id u) s = map km (TK u s)) /\
      (forall n s m, ~ In n (oids (SG.TreeNode_postorder t)) -> gsem3 tb' n s m = gsem3 tb n s m) /\
      (forall n s, ~ In n (oids (SG.TreeNode_postorder t)) -> gkeys tb' n s = gkeys tb n s).
  Proof.
    induction t as [i|i a IHa b IHb]; intros rest tb I ND HAL H0 HK0.
    - (* a leaf: the cell of its species and of the mask of its synteny receives the candidate 0 *)
      cbn [SG.TreeNode_postorder app SG.gen_compute_spfs_table_for1 EV.TreeNode_is_leaf]. cbv zeta.
      change (EV.sin_leaf_syntenies sin) with syn. change (EV.sin_leaf_object_species sin) with leafsp. cbn [EV.TreeNode_id].
      change (mask_from_subseq N.eqb (syn i) ord) with (mask_of ord (syn i)).
      rewrite (rd3_getitem nid_eqb nid_eqb_spec rp tb _ I), (rd3_sub1 nid_eqb nid_eqb_spec rp tb _ _ I).
      destruct (leaf_write rp tb i (leafsp i) (mask_of ord (syn i)) I) as [tb' [E [I' [Sk [So [Kk Ko]]]]]].
      { apply H0. now left. }
      { rewrite HK0 by (now left). intros []. }
      match goal with |- context [SG.table_res (TG.gen_Proxy_setitem ?a ?b ?p ?k ?cd)] =>
        replace (SG.table_res (TG.gen_Proxy_setitem a b p k cd))
          with (SG.Ok (R := TG.Proxy key ca * unit) (TG.Proxy_TableProxy (TG.mk_tproxy tb' [inl (inl i); inl (inr (leafsp i))]), tt))
          by (symmetry; exact E) end.
      cbn [TG.Proxy_parent TG.tproxy_parent].
      exists tb'. split; [reflexivity|]. split; [exact I'|]. split; [|split; [|split]].
      + intros u [<-|[]] s m. cbn [EV.TreeNode_id]. unfold tcell3. cbn [trow3 fst].
        destruct (sassign_eqb (s, m) (leafsp i, mask_of ord (syn i))) eqn:Es.
        * unfold sassign_eqb in Es. cbn [fst snd] in Es. apply andb_true_iff in Es as [E1 E2].
          destruct (path_eqb_spec s (leafsp i)) as [->|]; [|discriminate]. apply N.eqb_eq in E2. subst m. exact Sk.
        * rewrite So; [exact (H0 i (or_introl eq_refl) s m)|].
          intros Eq. inversion Eq. subst. unfold sassign_eqb in Es. cbn [fst snd] in Es. rewrite N.eqb_refl in Es.
          destruct (path_eqb_spec (leafsp i) (leafsp i)); [discriminate|congruence].
      + intros u [<-|[]] s. cbn [EV.TreeNode_id]. unfold tkeys3. cbn [trow3 snd].
        destruct (path_eqb_spec s (leafsp i)) as [->|Hs].
        * rewrite Kk, HK0 by (now left). reflexivity.
        * rewrite Ko by congruence. apply HK0. now left.
      + intros n s m Hn. apply So. intros Eq. inversion Eq. apply Hn. now left.
      + intros n s Hn. apply Ko. intros Eq. inversion Eq. apply Hn. now left.
    - (* an internal node: its subtrees, then every allowed species and mask *)
      cbn [SG.TreeNode_postorder] in *. rewrite !map_app in ND, H0, HK0. cbn [map] in ND, H0, HK0.
      rewrite <- !app_assoc. cbn [app].
      pose proof (NoDup_app_l3 _ _ ND) as NDa. pose proof (NoDup_app_r3 _ _ ND) as NDb'.
      pose proof (NoDup_app_l3 _ _ NDb') as NDb.
      destruct (IHa (SG.TreeNode_postorder b ++ EV.TreeNode_node i a b :: rest) tb I NDa) as [tb1 [E1 [I1 [Sa [Ka [Fa Ga]]]]]].
      { intros u Hu. apply HAL. rewrite in_app_iff. now left. }
      { intros n Hn. apply H0. rewrite in_app_iff. now left. }
      { intros n Hn. apply HK0. rewrite in_app_iff. now left. }
      rewrite E1.
      assert (Hdisj : forall n, In n (oids (SG.TreeNode_postorder a)) -> In n (oids (SG.TreeNode_postorder b)) -> False).
      { intros n H1 H2. eapply (NoDup_app_disj3 _ _ n ND H1). rewrite in_app_iff. now left. }
      destruct (IHb (EV.TreeNode_node i a b :: rest) tb1 I1 NDb) as [tb2 [E2 [I2 [Sb [Kb [Fb Gb]]]]]].
      { intros u Hu. apply HAL. rewrite !in_app_iff. right. now left. }
      { intros n Hn s m. rewrite Fa; [apply H0; rewrite !in_app_iff; right; now left|]. intros Ha. exact (Hdisj n Ha Hn). }
      { intros n Hn s. rewrite Ga; [apply HK0; rewrite !in_app_iff; right; now left|]. intros Ha. exact (Hdisj n Ha Hn). }
      rewrite E2. cbn [SG.gen_compute_spfs_table_for1 EV.TreeNode_is_leaf].
      assert (Ni_a : ~ In i (oids (SG.TreeNode_postorder a))).
      { intros H. eapply (NoDup_app_disj3 _ _ i ND H). rewrite in_app_iff. right. now left. }
      assert (Ni_b : ~ In i (oids (SG.TreeNode_postorder b))).
      { intros H. eapply (NoDup_app_disj3 _ _ i NDb' H). now left. }
      assert (Ia : In (EV.TreeNode_id a) (oids (SG.TreeNode_postorder a))) by (apply in_map, root_in_postorder3).
      assert (Ib : In (EV.TreeNode_id b) (oids (SG.TreeNode_postorder b))) by (apply in_map, root_in_postorder3).
      destruct (HAL (EV.TreeNode_node i a b)) as [Hrs [NDs NDm]].
      { rewrite !in_app_iff. right; right. now left. }
      { reflexivity. }
      assert (Hi0 : forall s m, gsem3 tb2 i s m = default_entry MIN).
      { intros s m. rewrite Fb, Fa by assumption. apply H0. rewrite !in_app_iff. right; right. now left. }
      assert (Hk0 : forall s, gkeys tb2 i s = []).
      { intros s. rewrite Gb, Ga by assumption. apply HK0. rewrite !in_app_iff. right; right. now left. }
      destruct (product_loop i a b (TC a) (TC b) (TK a) (TK b)
                  ltac:(intros E; apply Ni_a; now rewrite E) ltac:(intros E; apply Ni_b; now rewrite E)
                  (AM ord (EV.TreeNode_node i a b)) NDm (AS ST (EV.TreeNode_node i a b)) tb2 I2 Hrs NDs)
        as [tb3 [E3 [I3 [Sk3 [Kk3 [So3 Ko3]]]]]].
      { repeat split.
        - intros x m. rewrite Fb by (intros H; exact (Hdisj _ Ia H)). exact (Sa a (root_in_postorder3 a) x m).
        - intros x. rewrite Gb by (intros H; exact (Hdisj _ Ia H)). exact (Ka a (root_in_postorder3 a) x).
        - intros x m. exact (Sb b (root_in_postorder3 b) x m).
        - intros x. exact (Kb b (root_in_postorder3 b) x). }
      { intros x m _. apply Hi0. }
      { intros x _. apply Hk0. }
      change (EV.sin_species_lca sin) with lcaobj. cbv beta. rewrite E3.
      exists tb3. split; [reflexivity|]. split; [exact I3|]. split; [|split; [|split]].
      + intros u Hu s m. rewrite !in_app_iff in Hu. destruct Hu as [Hu|[Hu|[<-|[]]]].
        * rewrite So3 by (left; intros E; apply Ni_a; rewrite <- E; now apply in_map).
          rewrite Fb by (intros H; eapply Hdisj; [apply in_map; exact Hu|exact H]). now apply Sa.
        * rewrite So3 by (left; intros E; apply Ni_b; rewrite <- E; now apply in_map). now apply Sb.
        * cbn [EV.TreeNode_id]. unfold tcell3. cbn [trow3 fst snd].
          destruct (existsb (path_eqb s) (sids3 (AS ST (EV.TreeNode_node i a b)))) eqn:Es;
            [destruct (existsb (N.eqb m) (AM ord (EV.TreeNode_node i a b))) eqn:Em|]; cbn [andb].
          -- apply (existsb_eqb_In path_eqb path_eqb_spec) in Es. apply (existsb_eqb_In N.eqb N.eqb_spec) in Em.
             unfold sids3 in Es. apply in_map_iff in Es as [rs [<- Hr]]. exact (Sk3 rs m Hr Em).
          -- apply (existsb_eqb_notIn N.eqb N.eqb_spec) in Em. rewrite So3 by (right; right; exact Em). apply Hi0.
          -- apply (existsb_eqb_notIn path_eqb path_eqb_spec) in Es. rewrite So3 by (right; left; exact Es). apply Hi0.
      + intros u Hu s. rewrite !in_app_iff in Hu. destruct Hu as [Hu|[Hu|[<-|[]]]].
        * rewrite Ko3 by (left; intros E; apply Ni_a; rewrite <- E; now apply in_map).
          rewrite Gb by (intros H; eapply Hdisj; [apply in_map; exact Hu|exact H]). now apply Ka.
        * rewrite Ko3 by (left; intros E; apply Ni_b; rewrite <- E; now apply in_map). now apply Kb.
        * cbn [EV.TreeNode_id]. unfold tkeys3. cbn [trow3 fst snd].
          destruct (existsb (path_eqb s) (sids3 (AS ST (EV.TreeNode_node i a b)))) eqn:Es.
          -- apply (existsb_eqb_In path_eqb path_eqb_spec) in Es.
             unfold sids3 in Es. apply in_map_iff in Es as [rs [<- Hr]]. exact (Kk3 rs Hr).
          -- apply (existsb_eqb_notIn path_eqb path_eqb_spec) in Es. rewrite Ko3 by (right; exact Es). apply Hk0.
      + intros n s m Hn. rewrite !map_app, !in_app_iff in Hn. cbn [In map EV.TreeNode_id] in Hn.
        rewrite So3 by (left; intros ->; apply Hn; right; right; now left).
        rewrite Fb, Fa; [reflexivity| |]; intros H; apply Hn; tauto.
      + intros n s Hn. rewrite !map_app, !in_app_iff in Hn. cbn [In map EV.TreeNode_id] in Hn.
        rewrite Ko3 by (left; intros ->; apply Hn; right; right; now left).
        rewrite Gb, Ga; [reflexivity| |]; intros H; apply Hn; tauto.
  Qed.

  (** ** the whole table *)
  Theorem gen_compute_spfs_table_eq : NoDup (oids (SG.TreeNode_postorder O)) ->
    (forall u, In u (SG.TreeNode_postorder O) -> EV.TreeNode_is_leaf u = false -> allowed_ok u) ->
    exists tb, SG.gen_compute_spfs_table N.eqb path_eqb nid_eqb ANC DIST (fun _ => ST) sin ord AS AM (prc rp) = SG.Ok tb /\ inv3 rp tb /\
      (forall u, In u (SG.TreeNode_postorder O) -> forall s m, gsem3 tb (EV.TreeNode_id u) s m = emap tag_ca (TC u (s, m))) /\
      (forall u, In u (SG.TreeNode_postorder O) -> forall s, gkeys tb (EV.TreeNode_id u) s = map km (TK u s)) /\
      (forall n s m, ~ In n (oids (SG.TreeNode_postorder O)) -> gsem3 tb n s m = default_entry MIN) /\
      (forall n s, ~ In n (oids (SG.TreeNode_postorder O)) -> gkeys tb n s = []).
  Proof.
    intros ND HAL. unfold SG.gen_compute_spfs_table.
    destruct (init_dkeys_eq (node_id := node_id) nid_eqb [TG.mk_DictDimension; TG.mk_DictDimension; TG.mk_DictDimension]
                EG.MergePolicy_MIN (prc rp)) as [t0 [E0 [M0 [R0 [D0 [W0 [L0 K0]]]]]]].
    rewrite E0. cbn [SG.table_res]. cbv zeta.
    assert (I0 : inv3 rp t0) by (repeat split; auto; now rewrite D0).
    assert (G0 : forall n s m, gsem3 t0 n s m = default_entry MIN).
    { intros n s m. unfold Common.gsem3, sem. now rewrite L0, M0. }
    assert (GK0 : forall n s, gkeys t0 n s = []).
    { intros n s. unfold Common.gkeys. apply K0. }
    destruct (object_loop3 O [] t0 I0 ND HAL (fun n _ s m => G0 n s m) (fun n _ s => GK0 n s)) as [tb [E [I [Sc [Sk [F G]]]]]].
    change (EV.sin_object_tree sin) with O. rewrite app_nil_r in E. rewrite E. cbn [SG.gen_compute_spfs_table_for1].
    exists tb. split; [reflexivity|]. split; [exact I|]. split; [exact Sc|]. split; [exact Sk|]. split.
    - intros n s m Hn. now rewrite F.
    - intros n s Hn. now rewrite G.
  Qed.
End Table3X.

Check @leaf_write. Check @product_loop. Check @object_loop3. Check @gen_compute_spfs_table_eq.
Print Assumptions gen_compute_spfs_table_eq.
End TableExact.

(* ====================================================================== *)
Module TableModel.
(** Stage 3, model side: the table [TableO.tcell3] / [TableO.tkeys3] (enumeration orders of the generated code) agrees
    with the hand-written model [Spfs.spfs_table] up to the order of enumeration.  Purely about the two Gallina models.
    Two side conditions are genuinely needed (the two tables differ without them):
    - [nn (c_hgt c)]: the code keeps a cell iff its batch has a finite candidate, the model iff the value of the cell is
      finite; with a transfer cost of -inf a batch with a finite candidate has the value -inf: the model drops the cell
      (it then reads +inf, no key), the code keeps it (it reads -inf, key present);
    - the leaves sit at species of [S] ([valid_sp]): the parent loops of the code run over [lev] (the species of [S]),
      so a cell of a leaf whose species is foreign to [S] is never visited, whereas [skeys] of the model lists it. *)

Import SR.Base.PathB SR.Base.Ext SR.Model.Subseq SR.Model.Entry SR.Model.Recon SR.Model.LcaRec SR.Model.Thl SR.Model.Spfs SR.Proofs.EntryProofs SR.Proofs.ReconProofs SR.Proofs.LcaProofs SR.Proofs.ThlProofs SR.Proofs.SpfsProofs SR.Proofs.ThlGenProofs SR.Proofs.EvalGenProofs.
Import ModelO ModelPerm TableO.
Import ListNotations.
Local Open Scope Z_scope.

(* ------------------------------------------------------------------ *)
(** * small facts *)
Lemma path_eqb_eq a b : path_eqb a b = true <-> a = b.
Proof. destruct (path_eqb_spec a b); split; auto; discriminate. Qed.
Lemma existsb_path s l : existsb (path_eqb s) l = true <-> In s l.
Proof.
  rewrite existsb_exists. split.
  - intros [x [I E]]. apply path_eqb_eq in E. now subst x.
  - intros I. exists s. split; [exact I|]. now apply path_eqb_eq.
Qed.
Lemma existsb_N m l : existsb (N.eqb m) l = true <-> In m l.
Proof.
  rewrite existsb_exists. split.
  - intros [x [I E]]. apply N.eqb_eq in E. now subst x.
  - intros I. exists m. split; [exact I|]. apply N.eqb_refl.
Qed.

Lemma in_kl K xs s m : In (s, m) (kl K xs) <-> In s xs /\ In m (K s).
Proof.
  unfold kl. rewrite in_flat_map. split.
  - intros [x [Ix H]]. apply in_map_iff in H as [m' [E Im]]. inversion E; subst. auto.
  - intros [Is Im]. exists s. split; [exact Is|]. apply in_map_iff. exists m. auto.
Qed.

(** * no candidate is [-inf] *)
Lemma one_cands_nn S c (f : sassign -> ext) s m k i v o : nn (f k) -> In (i, (v, o)) (one_cands S c f s m k) -> nn v.
Proof.
  intros Nf. unfold one_cands. destruct k as [d cm].
  repeat match goal with |- context [if ?b then _ else _] => destruct b end; cbn [app In]; intros H;
    repeat (destruct H as [H|H]; [inversion H; subst; repeat apply nn_add; auto using nn_Fin; unfold nn in *; destruct (f (d, cm)); congruence|]); destruct H.
Qed.

Lemma aggp_pick_nn S c rp (f : sassign -> ext) s m ks i :
  (forall k, nn (f k)) -> nn (val (aggp rp (pick_o i (flat_map (one_cands S c f s m) ks)))).
Proof.
  intros Nf. unfold aggp. apply upd_nn. intros w ot I. apply In_pick in I as [k [_ I]].
  eapply one_cands_nn; [apply Nf|exact I].
Qed.

Lemma comb2_nn rp k (a b : entry sassign) w ot : nn k -> nn (val a) -> nn (val b) -> In (w, ot) (comb2 rp k a b) -> nn w.
Proof.
  intros Nk Na Nb I. destruct (scomb_some rp k a b w ot I) as [[l r] ->].
  apply scomb_sound in I as [_ [_ ->]]. repeat apply nn_add; assumption.
Qed.

Lemma sbatch_o_nn S c rp (f g : sassign -> ext) ksA ksB s m w ot :
  nn (c_hgt c) -> (forall k, nn (f k)) -> (forall k, nn (g k)) ->
  In (w, ot) (sbatch_o S c rp f g ksA ksB s m) -> nn w.
Proof.
  intros Hh Nf Ng. unfold sbatch_o, choices_o. cbv zeta. cbn [ch_left ch_right ch_conserved ch_segment ch_separate].
  intros I. repeat (apply in_app_or in I as [I|I]; [eapply comb2_nn; [| | |exact I]; auto using nn_Fin, aggp_pick_nn|]).
  eapply comb2_nn; [| | |exact I]; auto using nn_Fin, aggp_pick_nn.
Qed.

(** a cell written for the first time is finite iff its batch has a finite candidate *)
Lemma fw_inf_iff rp (cs : list (ext * option stag)) : (forall w ot, In (w, ot) cs -> nn w) ->
  ext_is_inf (val (first_write rp cs)) = negb (Thl.has_finite cs).
Proof.
  intros NN. unfold first_write. destruct (Thl.has_finite cs) eqn:F; [|reflexivity]. cbn [negb].
  destruct (has_finite_true_ex _ F) as [w [ot [Iw Ew]]].
  pose proof (upd_le stag_eqb rp cs w ot Iw) as L.
  pose proof (upd_nn stag_eqb rp cs NN) as Nv.
  destruct (val (Entry.update stag_eqb MIN rp (default_entry MIN) cs)), w; simpl in *; try discriminate; auto.
  exfalso. now apply Nv.
Qed.

Lemma fw_no_finite rp (cs : list (ext * option stag)) : Thl.has_finite cs = false -> first_write rp cs = default_entry MIN.
Proof. intros F. unfold first_write. now rewrite F. Qed.

(* ------------------------------------------------------------------ *)
Section TableModel.
  Context {node_id : Type}.
  Variables (S : stree) (c : costs) (rp : ret) (extended : bool) (ord : list fam).
  Variables (leafsp : node_id -> path) (syn : node_id -> list fam) (lev : list path).
  Variables (AS : EVo.TreeNode node_id -> list path) (AM : EVo.TreeNode node_id -> list N).
  Notation tree := (EVo.TreeNode node_id).
  Notation cellC := (tcell3 S c rp ord leafsp syn lev AS AM).
  Notation keysC := (tkeys3 S c rp ord leafsp syn lev AS AM).
  Notation tblM := (spfs_table S c rp extended ord).
  Notation ot := (otree_of leafsp syn).

  (** the batch the code computes for the cell [(s, m)] of an internal node with children [a], [b] *)
  Definition batchC (a b : tree) (s : path) (m : N) : list (ext * option stag) :=
    sbatch_o S c rp (fun k => val (cellC a k)) (fun k => val (cellC b k)) (kl (keysC a) lev) (kl (keysC b) lev) s m.

  Lemma tcell3_leaf i k :
    cellC (EVo.TreeNode_leaf i) k
    = if sassign_eqb k (leafsp i, mask_of ord (syn i)) then {| val := Fin 0; tags := [] |} else default_entry MIN.
  Proof. reflexivity. Qed.
  Lemma tkeys3_leaf i s :
    keysC (EVo.TreeNode_leaf i) s = if path_eqb s (leafsp i) then [mask_of ord (syn i)] else [].
  Proof. reflexivity. Qed.
  Lemma tcell3_node i a b k :
    cellC (EVo.TreeNode_node i a b) k
    = if existsb (path_eqb (fst k)) (AS (EVo.TreeNode_node i a b)) && existsb (N.eqb (snd k)) (AM (EVo.TreeNode_node i a b))
      then first_write rp (batchC a b (fst k) (snd k)) else default_entry MIN.
  Proof. reflexivity. Qed.
  Lemma tkeys3_node i a b s :
    keysC (EVo.TreeNode_node i a b) s
    = if existsb (path_eqb s) (AS (EVo.TreeNode_node i a b))
      then filter (fun m => Thl.has_finite (batchC a b s m)) (AM (EVo.TreeNode_node i a b)) else [].
  Proof. reflexivity. Qed.

  Hypothesis H_lev : sameset lev (snodes S).
  Hypothesis Hh : nn (c_hgt c).

  (** the cells of the code never hold [-inf] *)
  Lemma tcell3_nn t : forall k, nn (val (cellC t k)).
  Proof.
    induction t as [i|i a IHa b IHb]; intros k.
    - rewrite tcell3_leaf. destruct (sassign_eqb k _); cbn; discriminate.
    - rewrite tcell3_node. destruct (_ && _).
      + apply fw_nn. intros w o I. unfold batchC in I. eapply sbatch_o_nn; [exact Hh| | |exact I]; assumption.
      + apply nn_PInf.
  Qed.

  Lemma batchC_nn a b s m w o : In (w, o) (batchC a b s m) -> nn w.
  Proof. intros I. unfold batchC in I. eapply sbatch_o_nn; [exact Hh| | |exact I]; apply tcell3_nn. Qed.

  (** what is assumed of the callbacks and of the input, along the tree: the leaves sit at species of [S]; at an
      internal node the allowed species are those of the model (as a set) and the allowed masks are those of the model
      (as a list); [is_root] is the flag [spfs_table] passes *)
  Fixpoint ok (is_root : bool) (t : tree) : Prop :=
    match t with
    | EVo.TreeNode_leaf i => valid_sp S (leafsp i) = true
    | EVo.TreeNode_node _ a b =>
        sameset (AS t) (allowed_species S extended (ot t)) /\ AM t = masks_for ord is_root /\ ok false a /\ ok false b
    end.

  Lemma ok_leaves is_root t : ok is_root t -> leaves_ok S (ot t).
  Proof.
    revert is_root. induction t as [i|i a IHa b IHb]; intros is_root H; cbn [ok otree_of leaves_ok] in *; [exact H|].
    destruct H as [_ [_ [Ha Hb]]]. split; eauto.
  Qed.

  (** the two tables: cell by cell up to [esim], and the same existing cells *)
  Theorem table_model t : forall is_root, ok is_root t ->
    (forall k, esim rp (cellC t k) (sread (tblM is_root (ot t)) k)) /\
    sameset (kl (keysC t) lev) (skeys (tblM is_root (ot t))).
  Proof.
    induction t as [i|i a IHa b IHb]; intros is_root Hok.
    - cbn [ok] in Hok. cbn [otree_of spfs_table]. split.
      + intros k. rewrite tcell3_leaf. cbn [sread]. apply esim_refl.
      + intros [s m]. rewrite in_kl, tkeys3_leaf. cbn [skeys In]. split.
        * intros [Is Im]. destruct (path_eqb s (leafsp i)) eqn:E; [|destruct Im].
          apply path_eqb_eq in E. destruct Im as [<-|[]]. left. now subst s.
        * intros [E|[]]. inversion E; subst. split.
          -- apply H_lev. now apply snodes_valid.
          -- replace (path_eqb (leafsp i) (leafsp i)) with true by (symmetry; now apply path_eqb_eq). now left.
    - pose proof (ok_leaves is_root _ Hok) as Lv.
      remember (EVo.TreeNode_node i a b) as t eqn:Et.
      assert (sameset (AS t) (allowed_species S extended (ot t)) /\ AM t = masks_for ord is_root /\ ok false a /\ ok false b)
        as [HAS [HAM [Oa Ob]]] by (subst t; exact Hok).
      assert (forall k, cellC t k = if existsb (path_eqb (fst k)) (AS t) && existsb (N.eqb (snd k)) (AM t)
                                    then first_write rp (batchC a b (fst k) (snd k)) else default_entry MIN) as Ecell
        by (subst t; intros; apply tcell3_node).
      assert (forall s, keysC t s = if existsb (path_eqb s) (AS t)
                                    then filter (fun m => Thl.has_finite (batchC a b s m)) (AM t) else []) as Ekeys
        by (subst t; intros; apply tkeys3_node).
      destruct (IHa false Oa) as [Ca Ka]. destruct (IHb false Ob) as [Cb Kb]. clear IHa IHb.
      remember (tblM false (ot a)) as Ta eqn:ETa. remember (tblM false (ot b)) as Tb eqn:ETb.
      assert (tblM is_root (ot t) = STNode (flat_map (cellrow S c rp Ta Tb) (ckeys S extended ord is_root (ot t))) Ta Tb) as ET.
      { subst t Ta Tb. cbn [otree_of]. apply spfs_table_node. }
      rewrite ET.
      (* membership in the keys of the model *)
      assert (forall s m, In (s, m) (ckeys S extended ord is_root (ot t)) <-> In s (AS t) /\ In m (AM t)) as Hkeys.
      { intros s m. subst t. cbn [otree_of ckeys]. rewrite in_prod_iff, HAM. cbn [otree_of] in HAS. now rewrite (HAS s). }
      (* the cell of the code against the cell of the model *)
      assert (forall s m, esim rp (first_write rp (batchC a b s m)) (scell S c rp Ta Tb s m)) as Hcell.
      { intros s m. rewrite (scell_o_eq S c rp Ta Tb s m). unfold scell_o. apply first_write_sim. unfold batchC.
        apply sbatch_o_sim; [exact Ka|exact Kb| |].
        - intros k _. exact (proj1 (Ca k)).
        - intros k _. exact (proj1 (Cb k)). }
      assert (forall s m, ext_is_inf (val (scell S c rp Ta Tb s m)) = negb (Thl.has_finite (batchC a b s m))) as Hfin.
      { intros s m. rewrite <- (proj1 (Hcell s m)). apply fw_inf_iff. apply batchC_nn. }
      assert (forall s, In s (AS t) -> In s lev) as Hsp.
      { intros s Is. apply H_lev. apply snodes_valid. apply (allowed_species_valid S extended (ot t) s Lv). now apply HAS. }
      split.
      + intros [s m]. cbn [sread]. rewrite (Ecell (s, m)). cbn [fst snd].
        destruct (existsb (path_eqb s) (AS t) && existsb (N.eqb m) (AM t)) eqn:Ec.
        * apply andb_prop in Ec as [E1 E2]. apply existsb_path in E1. apply existsb_N in E2.
          assert (In (s, m) (ckeys S extended ord is_root (ot t))) as Ik by (apply Hkeys; auto).
          destruct (ext_is_inf (val (scell S c rp Ta Tb s m))) eqn:F.
          -- (* allowed but infinite: no finite candidate, the code holds the default entry too *)
             destruct (srow_lookup _ (s, m)) as [e|] eqn:L.
             ++ apply sread_node_some in L as [_ [F' _]]. cbn [fst snd] in F'. congruence.
             ++ rewrite Hfin in F. apply negb_true_iff in F. rewrite (fw_no_finite rp _ F). apply esim_refl.
          -- rewrite (srow_lookup_found (fun k => scell S c rp Ta Tb (fst k) (snd k)) (cellrow S c rp Ta Tb)
                       (cellrow_eq S c rp Ta Tb) _ (s, m) Ik F). cbn [fst snd]. apply Hcell.
        * destruct (srow_lookup _ (s, m)) as [e|] eqn:L; [|apply esim_refl]. exfalso.
          apply sread_node_some in L as [Ik _]. apply Hkeys in Ik as [I1 I2].
          apply existsb_path in I1. apply existsb_N in I2. rewrite I1, I2 in Ec. discriminate.
      + intros [s m]. rewrite skeys_node, in_kl. cbn [fst snd]. rewrite Hkeys, Hfin.
        rewrite (Ekeys s). split.
        * intros [Is Im]. destruct (existsb (path_eqb s) (AS t)) eqn:E1; [|destruct Im].
          apply existsb_path in E1. apply filter_In in Im as [Im F]. rewrite F. auto.
        * intros [[I1 I2] F]. split; [now apply Hsp|].
          replace (existsb (path_eqb s) (AS t)) with true by (symmetry; now apply existsb_path).
          apply filter_In. split; [exact I2|]. now apply negb_false_iff in F.
  Qed.

  (** TM1 *)
  Theorem tcell3_model t is_root s m : ok is_root t ->
    esim rp (cellC t (s, m)) (sread (tblM is_root (ot t)) (s, m)).
  Proof. intros H. apply (table_model t is_root H). Qed.

  Corollary tcell3_model_val t is_root s m : ok is_root t ->
    val (cellC t (s, m)) = val (sread (tblM is_root (ot t)) (s, m)).
  Proof. intros H. exact (proj1 (tcell3_model t is_root s m H)). Qed.

  Corollary tcell3_model_tags_empty t is_root s m : ok is_root t ->
    (tags (cellC t (s, m)) = [] <-> tags (sread (tblM is_root (ot t)) (s, m)) = []).
  Proof. intros H. exact (proj1 (proj2 (tcell3_model t is_root s m H))). Qed.

  (** TM2 *)
  Theorem tkeys3_model t is_root : ok is_root t ->
    sameset (kl (keysC t) lev) (skeys (tblM is_root (ot t))).
  Proof. intros H. apply (table_model t is_root H). Qed.
End TableModel.

(* ------------------------------------------------------------------ *)
(** * under ALL: the tags are a permutation *)
Lemma default_tags_nodup : NoDup (tags (default_entry MIN (T := stag))).
Proof. cbn. constructor. Qed.

Section TagsAll.
  Context {node_id : Type}.
  Variables (S : stree) (c : costs) (extended : bool) (ord : list fam).
  Variables (leafsp : node_id -> path) (syn : node_id -> list fam) (lev : list path).
  Variables (AS : EVo.TreeNode node_id -> list path) (AM : EVo.TreeNode node_id -> list N).

  Lemma tcell3_all_nodup t k : NoDup (tags (tcell3 S c RALL ord leafsp syn lev AS AM t k)).
  Proof.
    destruct t as [i|i a b].
    - rewrite tcell3_leaf. destruct (sassign_eqb k _); cbn; constructor.
    - rewrite tcell3_node. destruct (_ && _); [apply first_write_all_nodup|apply default_tags_nodup].
  Qed.

  Lemma sread_all_nodup is_root o k : NoDup (tags (sread (spfs_table S c RALL extended ord is_root o) k)).
  Proof.
    destruct o as [sp sy|a b].
    - cbn [spfs_table sread]. destruct (sassign_eqb k _); cbn; constructor.
    - rewrite spfs_table_node. cbn [sread]. destruct (srow_lookup _ k) as [e|] eqn:L; [|apply default_tags_nodup].
      apply sread_node_some in L as [_ [_ ->]]. rewrite scell_o_eq. apply scell_o_all_nodup.
  Qed.

  Theorem tcell3_model_tags t is_root s m :
    sameset lev (snodes S) -> nn (c_hgt c) -> ok S extended ord leafsp syn AS AM is_root t ->
    Permutation (tags (tcell3 S c RALL ord leafsp syn lev AS AM t (s, m)))
                (tags (sread (spfs_table S c RALL extended ord is_root (otree_of leafsp syn t)) (s, m))).
  Proof.
    intros H_lev Hh H. apply NoDup_Permutation; [apply tcell3_all_nodup|apply sread_all_nodup|].
    exact (proj2 (proj2 (tcell3_model S c RALL extended ord leafsp syn lev AS AM H_lev Hh t is_root s m H)) eq_refl).
  Qed.
End TagsAll.


(* ------------------------------------------------------------------ *)
(** * the masks callback of the code: "the complete synteny at the root, every mask elsewhere", decided on identifiers *)
Section RootMasks.
  Context {node_id : Type} (id_eqb : node_id -> node_id -> bool).
  Hypothesis id_eqb_spec : forall x y, reflect (x = y) (id_eqb x y).
  Variables (S : stree) (extended : bool) (ord : list fam).
  Variables (leafsp : node_id -> path) (syn : node_id -> list fam).
  Variable AS : EVo.TreeNode node_id -> list path.
  Notation tree := (EVo.TreeNode node_id).

  Fixpoint ids (t : tree) : list node_id :=
    match t with EVo.TreeNode_leaf i => [i] | EVo.TreeNode_node i a b => i :: ids a ++ ids b end.

  (** [ok] without the part on the masks *)
  Fixpoint ok_rest (t : tree) : Prop :=
    match t with
    | EVo.TreeNode_leaf i => valid_sp S (leafsp i) = true
    | EVo.TreeNode_node _ a b =>
        sameset (AS t) (allowed_species S extended (otree_of leafsp syn t)) /\ ok_rest a /\ ok_rest b
    end.

  Definition AM_root (r : node_id) (t : tree) : list N :=
    if id_eqb (EVo.TreeNode_id t) r then [subseq_complete ord] else all_masks (length ord).

  Lemma AM_nonroot_ok r t : ~ In r (ids t) -> ok_rest t -> ok S extended ord leafsp syn AS (AM_root r) false t.
  Proof.
    induction t as [i|i a IHa b IHb]; intros Hr H; cbn [ok ok_rest ids] in *; [exact H|].
    destruct H as [HAS [Ha Hb]]. split; [exact HAS|]. split; [|split].
    - unfold AM_root, masks_for. cbn [EVo.TreeNode_id]. destruct (id_eqb_spec i r) as [E|_]; [|reflexivity].
      exfalso. apply Hr. now left.
    - apply IHa; [|exact Ha]. intros I. apply Hr. right. apply in_or_app. now left.
    - apply IHb; [|exact Hb]. intros I. apply Hr. right. apply in_or_app. now right.
  Qed.

  (** on a tree with pairwise distinct identifiers the callback of the code satisfies [ok] at the root *)
  Theorem AM_root_ok O : NoDup (ids O) -> ok_rest O ->
    ok S extended ord leafsp syn AS (AM_root (EVo.TreeNode_id O)) true O.
  Proof.
    destruct O as [i|i a b]; intros ND H; cbn [ok ok_rest ids EVo.TreeNode_id] in *; [exact H|].
    destruct H as [HAS [Ha Hb]]. inversion ND as [|x l Ni ND']; subst. split; [exact HAS|]. split; [|split].
    - unfold AM_root, masks_for. cbn [EVo.TreeNode_id]. destruct (id_eqb_spec i i) as [_|E]; [reflexivity|congruence].
    - apply AM_nonroot_ok; [|exact Ha]. intros I. apply Ni. apply in_or_app. now left.
    - apply AM_nonroot_ok; [|exact Hb]. intros I. apply Ni. apply in_or_app. now right.
  Qed.
End RootMasks.

Print Assumptions tcell3_model.
Print Assumptions tcell3_model_val.
Print Assumptions tcell3_model_tags.
Print Assumptions tkeys3_model.
Print Assumptions AM_root_ok.
End TableModel.

(* ====================================================================== *)
Module TableFinal.
(** Stage 3, packaged: the table [_compute_spfs_table] builds, for the callbacks of the two entry points, against
    [Spfs.spfs_table]: every cell has the model's value for every retention policy, and under ALL the model's tags up to a
    permutation. *)

Import SR.Base.PathB SR.Base.Ext SR.Model.Subseq SR.Model.Entry SR.Model.Recon SR.Model.LcaRec SR.Model.Thl SR.Model.Spfs SR.Proofs.PathFacts SR.Proofs.EntryProofs SR.Proofs.EntryGenProofs SR.Proofs.EvalGenProofs SR.Proofs.TableGenProofs SR.Proofs.ReconProofs SR.Proofs.ThlProofs SR.Proofs.LcaProofs SR.Proofs.ThlGenProofs.

Import Common ModelO Keys TableO Entry Embed ModelPerm TableExact TableModel.
Import ListNotations.
Local Open Scope Z_scope.

Lemma all_masks_code n : map N.of_nat (seq 0 (N.to_nat (2 ^ N.of_nat n))) = all_masks n.
Proof. unfold all_masks. now rewrite N2Nat.inj_pow, Nat2N.id. Qed.
Lemma all_masks_nodup n : NoDup (all_masks n).
Proof. unfold all_masks. apply FinFun.Injective_map_NoDup; [intros a b; apply Nat2N.inj|apply seq_NoDup]. Qed.

Section Final3.
  Context {lca node_id : Type} (nid_eqb : node_id -> node_id -> bool).
  Hypothesis nid_eqb_spec : forall a b, reflect (a = b) (nid_eqb a b).
  Variable lcaobj : lca.
  Variables (S : stree) (c : costs) (leafsp : node_id -> path) (syn : node_id -> list fam) (O : EV.TreeNode node_id) (ord : list fam).
  Notation tree := (EV.TreeNode node_id).
  Notation DIST := (fun (_ : lca) => dist).
  Notation ANC := (fun (_ : lca) => anc).
  Notation ST := (sembed3 S []).
  Notation oids l := (map (@EV.TreeNode_id node_id) l).
  Notation ot := (otree_of leafsp syn).
  Notation gsem3 := (gsem3 nid_eqb).

  (** the masks callback of both entry points: the complete synteny for the root object, every mask elsewhere *)
  Definition masks_cb (ordering : list fam) (obj : tree) : list N :=
    if nid_eqb (EV.TreeNode_id obj) (EV.TreeNode_id O) then [subseq_complete ordering]
    else map N.of_nat (seq 0 (N.to_nat (2 ^ N.of_nat (length ordering)))).
  (** the species callback of [sreconcile_extended_spfs] *)
  Definition species_ext (species : @SG.STree path) (_ : tree) : list (@SG.STree path) := SG.STree_postorder species.

  Lemma masks_cb_root u : masks_cb ord u = AM_root nid_eqb ord (EV.TreeNode_id O) u.
  Proof. unfold masks_cb, AM_root. destruct (nid_eqb _ _); [reflexivity|apply all_masks_code]. Qed.
  Lemma masks_cb_nodup u : NoDup (masks_cb ord u).
  Proof.
    rewrite masks_cb_root. unfold AM_root. destruct (nid_eqb _ _); [constructor; [intros []|constructor]|apply all_masks_nodup].
  Qed.

  (** ** well-formed inputs *)
  Definition leaves_valid (t : tree) : Prop :=
    forall i, In (EV.TreeNode_leaf i) (SG.TreeNode_postorder t) -> valid_sp S (leafsp i) = true.

  Lemma ids_post (t : tree) : forall x, In x (TableModel.ids t) <-> In x (oids (SG.TreeNode_postorder t)).
  Proof.
    induction t as [i|i a IHa b IHb]; intros x; cbn [TableModel.ids SG.TreeNode_postorder map]; [tauto|].
    rewrite !map_app, !in_app_iff. cbn [map In EV.TreeNode_id]. rewrite in_app_iff, IHa, IHb. tauto.
  Qed.
  Lemma ids_perm (t : tree) : Permutation (TableModel.ids t) (oids (SG.TreeNode_postorder t)).
  Proof.
    induction t as [i|i a IHa b IHb]; cbn [TableModel.ids SG.TreeNode_postorder map]; [apply Permutation_refl|].
    rewrite !map_app. cbn [map EV.TreeNode_id].
    eapply Permutation_trans; [apply Permutation_cons_append|]. rewrite <- app_assoc.
    apply Permutation_app; [exact IHa|]. apply Permutation_app; [exact IHb|apply Permutation_refl].
  Qed.
  Lemma post_sub (t u v : tree) : In u (SG.TreeNode_postorder t) -> In v (SG.TreeNode_postorder u) -> In v (SG.TreeNode_postorder t).
  Proof.
    induction t as [i|i a IHa b IHb]; cbn [SG.TreeNode_postorder]; intros Hu Hv.
    - destruct Hu as [<-|[]]. exact Hv.
    - rewrite !in_app_iff in *. destruct Hu as [Hu|[Hu|[<-|[]]]]; [left; eauto|right; left; eauto|].
      cbn [SG.TreeNode_postorder] in Hv. now rewrite !in_app_iff in Hv.
  Qed.
  Lemma self_post (t : tree) : In t (SG.TreeNode_postorder t).
  Proof. destruct t; cbn; [now left|]. rewrite !in_app_iff. right; right. now left. Qed.

  Lemma id_inj_list (l : list tree) : NoDup (oids l) -> forall u v, In u l -> In v l -> EV.TreeNode_id u = EV.TreeNode_id v -> u = v.
  Proof.
    induction l as [|x l IH]; cbn [map]; intros ND u v Hu Hv E; [destruct Hu|]. inversion ND as [|? ? Hx ND']; subst.
    destruct Hu as [<-|Hu], Hv as [<-|Hv]; [reflexivity| | |auto].
    - exfalso. apply Hx. rewrite E. now apply in_map.
    - exfalso. apply Hx. rewrite <- E. now apply in_map.
  Qed.

  Lemma leaves_ok_sub (t u : tree) : leaves_valid t -> In u (SG.TreeNode_postorder t) -> leaves_ok S (ot u).
  Proof.
    intros Hl Hu. assert (Hlu : leaves_valid u) by (intros j Hj; apply Hl; eapply post_sub; eauto). clear Hl Hu.
    induction u as [i|i a IHa b IHb]; cbn [otree_of leaves_ok].
    - apply Hlu. cbn. now left.
    - split; [apply IHa|apply IHb]; intros j Hj; apply Hlu; cbn [SG.TreeNode_postorder]; rewrite !in_app_iff; [now left|right; now left].
  Qed.

  Section Callbacks.
    (** any species callback that allows, at every internal node, the species of the model (as a set), as distinct nodes
        of the embedded species tree *)
    Variable extended : bool.
    Variable AS : @SG.STree path -> tree -> list (@SG.STree path).
    Hypothesis AS_nodes : forall u rs, In rs (AS ST u) -> rs_ok S rs.
    Hypothesis AS_nodup : forall u, NoDup (sids3 (AS ST u)).
    Hypothesis AS_model : forall u, In u (SG.TreeNode_postorder O) -> EV.TreeNode_is_leaf u = false ->
      sameset (sids3 (AS ST u)) (allowed_species S extended (ot u)).

    Lemma ok_rest_sub (t : tree) : (forall u, In u (SG.TreeNode_postorder t) -> In u (SG.TreeNode_postorder O)) -> leaves_valid t ->
      ok_rest S extended leafsp syn (fun u => sids3 (AS ST u)) t.
    Proof.
      induction t as [i|i a IHa b IHb]; intros Hsub Hl; cbn [ok_rest].
      - apply Hl. cbn. now left.
      - split; [apply AS_model; [apply Hsub, self_post|reflexivity]|]. split.
        + apply IHa; [intros u Hu; apply Hsub; cbn [SG.TreeNode_postorder]; rewrite !in_app_iff; now left|].
          intros j Hj. apply Hl. cbn [SG.TreeNode_postorder]. rewrite !in_app_iff. now left.
        + apply IHb; [intros u Hu; apply Hsub; cbn [SG.TreeNode_postorder]; rewrite !in_app_iff; right; now left|].
          intros j Hj. apply Hl. cbn [SG.TreeNode_postorder]. rewrite !in_app_iff. right. now left.
    Qed.

    Lemma proper_sub_ids (t u : tree) : In u (SG.TreeNode_postorder t) -> u <> t -> NoDup (oids (SG.TreeNode_postorder t)) ->
      ~ In (EV.TreeNode_id t) (TableModel.ids u).
    Proof.
      destruct t as [i|i a b]; cbn [SG.TreeNode_postorder]; intros Hu Hne ND.
      - destruct Hu as [<-|[]]. congruence.
      - rewrite !in_app_iff in Hu. rewrite !map_app in ND. cbn [map EV.TreeNode_id] in *.
        intros Hi. apply ids_post in Hi.
        destruct Hu as [Hu|[Hu|[E|[]]]]; [| |congruence].
        + assert (Hia : In i (oids (SG.TreeNode_postorder a))).
          { apply in_map_iff in Hi as [v [Ev Hv]]. apply in_map_iff. exists v. split; [exact Ev|]. eapply post_sub; eauto. }
          clear - ND Hia. induction (oids (SG.TreeNode_postorder a)) as [|x l IH]; [destruct Hia|].
          cbn in ND. inversion ND as [|? ? Hx ND']; subst. destruct Hia as [->|Hia]; [|auto].
          apply Hx. rewrite !in_app_iff. right. right. now left.
        + assert (Hib : In i (oids (SG.TreeNode_postorder b))).
          { apply in_map_iff in Hi as [v [Ev Hv]]. apply in_map_iff. exists v. split; [exact Ev|]. eapply post_sub; eauto. }
          clear - ND Hib. induction (oids (SG.TreeNode_postorder a)) as [|x l IH]; cbn in ND.
          * induction (oids (SG.TreeNode_postorder b)) as [|x l IH]; [destruct Hib|].
            cbn in ND. inversion ND as [|? ? Hx ND']; subst. destruct Hib as [->|Hib]; [|auto].
            apply Hx. rewrite in_app_iff. right. now left.
          * inversion ND; subst. auto.
    Qed.

    Hypothesis Hh : nn (c_hgt c).
    Hypothesis ids_distinct : NoDup (oids (SG.TreeNode_postorder O)).
    Hypothesis Hleaves : leaves_valid O.

    Lemma ok_at (u : tree) : In u (SG.TreeNode_postorder O) ->
      ok S extended ord leafsp syn (fun u => sids3 (AS ST u)) (masks_cb ord) (nid_eqb (EV.TreeNode_id u) (EV.TreeNode_id O)) u.
    Proof.
      intros Hu.
      assert (Hr : ok_rest S extended leafsp syn (fun u => sids3 (AS ST u)) u).
      { apply ok_rest_sub; [intros v Hv; eapply post_sub; eauto|]. intros j Hj. apply Hleaves. eapply post_sub; eauto. }
      assert (Eam : forall w, masks_cb ord w = AM_root nid_eqb ord (EV.TreeNode_id O) w) by apply masks_cb_root.
      assert (Hext : forall r t, ok S extended ord leafsp syn (fun u => sids3 (AS ST u)) (AM_root nid_eqb ord (EV.TreeNode_id O)) r t ->
                                 ok S extended ord leafsp syn (fun u => sids3 (AS ST u)) (masks_cb ord) r t).
      { intros r t. revert r. induction t as [i|i a IHa b IHb]; intros r H; cbn [ok] in *; [exact H|].
        destruct H as [H1 [H2 [H3 H4]]]. rewrite Eam. auto. }
      apply Hext.
      destruct (nid_eqb_spec (EV.TreeNode_id u) (EV.TreeNode_id O)) as [E|Ne].
      - assert (u = O) as -> by (apply (id_inj_list _ ids_distinct u O Hu (self_post O) E)).
        apply (AM_root_ok nid_eqb nid_eqb_spec); [|exact Hr].
        apply (Permutation_NoDup (Permutation_sym (ids_perm O))). exact ids_distinct.
      - apply (AM_nonroot_ok nid_eqb nid_eqb_spec); [|exact Hr].
        apply proper_sub_ids; [exact Hu|congruence|exact ids_distinct].
    Qed.

    (** ** Stage 3: every cell of the generated table against the model's table *)
    Theorem gen_compute_spfs_table_model rp :
      exists tb,
        SG.gen_compute_spfs_table N.eqb path_eqb nid_eqb ANC DIST (fun _ => ST) (EV.mk_sin O lcaobj leafsp (stsocc c) syn) ord AS masks_cb (prc rp)
          = SG.Ok tb /\
        inv3 rp tb /\
        forall u, In u (SG.TreeNode_postorder O) -> forall s m,
          let cellM := sread (spfs_table S c rp extended ord (nid_eqb (EV.TreeNode_id u) (EV.TreeNode_id O)) (ot u)) (s, m) in
          val (gsem3 tb (EV.TreeNode_id u) s m) = val cellM /\
          (tags (gsem3 tb (EV.TreeNode_id u) s m) = [] <-> tags cellM = []) /\
          (rp = RALL -> exists l, tags (gsem3 tb (EV.TreeNode_id u) s m) = map tag_ca l /\ Permutation l (tags cellM)).
    Proof.
      destruct (gen_compute_spfs_table_eq nid_eqb nid_eqb_spec lcaobj rp S c ST leafsp syn O ord AS masks_cb ids_distinct)
        as [tb [E [I [Hc _]]]].
      { intros u Hu Hl. split; [apply AS_nodes|]. split; [apply AS_nodup|apply masks_cb_nodup]. }
      exists tb. split; [exact E|]. split; [exact I|]. intros u Hu s m cellM.
      rewrite (Hc u Hu s m). cbn [emap val tags].
      pose proof (ok_at u Hu) as Hok.
      split; [|split].
      - exact (tcell3_model_val S c rp extended ord leafsp syn _ _ _ (lev_sameset S) Hh u _ s m Hok).
      - pose proof (tcell3_model_tags_empty S c rp extended ord leafsp syn _ _ _ (lev_sameset S) Hh u _ s m Hok) as [H1 H2].
        split; [intros H; apply H1; now apply map_eq_nil in H|intros H; now rewrite (H2 H)].
      - intros ->. eexists. split; [reflexivity|].
        exact (tcell3_model_tags S c extended ord leafsp syn _ _ _ u _ s m (lev_sameset S) Hh Hok).
    Qed.
  End Callbacks.

  (** ** the extended variant: every species, in post-order *)
  Theorem gen_compute_spfs_table_extended rp : nn (c_hgt c) -> NoDup (oids (SG.TreeNode_postorder O)) -> leaves_valid O ->
    exists tb,
      SG.gen_compute_spfs_table N.eqb path_eqb nid_eqb ANC DIST (fun _ => ST) (EV.mk_sin O lcaobj leafsp (stsocc c) syn) ord species_ext masks_cb (prc rp)
        = SG.Ok tb /\
      inv3 rp tb /\
      forall u, In u (SG.TreeNode_postorder O) -> forall s m,
        let cellM := sread (spfs_table S c rp true ord (nid_eqb (EV.TreeNode_id u) (EV.TreeNode_id O)) (ot u)) (s, m) in
        val (gsem3 tb (EV.TreeNode_id u) s m) = val cellM /\
        (tags (gsem3 tb (EV.TreeNode_id u) s m) = [] <-> tags cellM = []) /\
        (rp = RALL -> exists l, tags (gsem3 tb (EV.TreeNode_id u) s m) = map tag_ca l /\ Permutation l (tags cellM)).
  Proof.
    intros Hh ND Hl. apply (gen_compute_spfs_table_model true species_ext); auto.
    - intros u rs. apply post_rs_ok.
    - intros u. apply post_nodup.
    - intros u _ _. exact (post_sameset S).
  Qed.

  (** ** the base variant: the species of the LCA mapping, looked up in the dictionary [reconcile_lca] returns *)
  Theorem gen_compute_spfs_table_base rp (d : list (node_id * path)) :
    nn (c_hgt c) -> NoDup (oids (SG.TreeNode_postorder O)) -> leaves_valid O ->
    (forall u, In u (SG.TreeNode_postorder O) -> SG.dict_get nid_eqb d (EV.TreeNode_id u) = Some (root (lca_rec (ot u)))) ->
    exists tb,
      SG.gen_compute_spfs_table N.eqb path_eqb nid_eqb ANC DIST (fun _ => ST) (EV.mk_sin O lcaobj leafsp (stsocc c) syn) ord
          (fun _ obj => SG.base_species path_eqb nid_eqb ST d obj) masks_cb (prc rp) = SG.Ok tb /\
      inv3 rp tb /\
      forall u, In u (SG.TreeNode_postorder O) -> forall s m,
        let cellM := sread (spfs_table S c rp false ord (nid_eqb (EV.TreeNode_id u) (EV.TreeNode_id O)) (ot u)) (s, m) in
        val (gsem3 tb (EV.TreeNode_id u) s m) = val cellM /\
        (tags (gsem3 tb (EV.TreeNode_id u) s m) = [] <-> tags cellM = []) /\
        (rp = RALL -> exists l, tags (gsem3 tb (EV.TreeNode_id u) s m) = map tag_ca l /\ Permutation l (tags cellM)).
  Proof.
    intros Hh ND Hl Hd.
    assert (Hfind : forall u rs, In rs (SG.base_species path_eqb nid_eqb ST d u) ->
              In rs (SG.STree_postorder ST) /\ SG.base_species path_eqb nid_eqb ST d u = [rs]).
    { intros u rs. unfold SG.base_species. destruct (SG.dict_get nid_eqb d (EV.TreeNode_id u)) as [s|]; [|intros []].
      destruct (find _ (SG.STree_postorder ST)) as [n|] eqn:F; [|intros []]. intros [<-|[]].
      split; [|reflexivity]. now apply find_some in F. }
    apply (gen_compute_spfs_table_model false (fun _ obj => SG.base_species path_eqb nid_eqb ST d obj)); auto.
    - intros u rs H. apply post_rs_ok. now apply Hfind in H.
    - intros u. destruct (SG.base_species path_eqb nid_eqb ST d u) as [|rs l] eqn:E; [constructor|].
      destruct (Hfind u rs) as [_ E']; [rewrite E; now left|]. rewrite E in E'. inversion E'. subst. cbn. constructor; [intros []|constructor].
    - intros u Hu Hi. unfold allowed_species. unfold SG.base_species. rewrite (Hd u Hu).
      assert (Hv : In (root (lca_rec (ot u))) (sids3 (SG.STree_postorder ST))).
      { apply (post_sameset S). apply (sameset_snodes S). apply sids_sembed. exists (root (lca_rec (ot u))). split; [|reflexivity].
        apply (valid_rec_root_valid S (ot u)). apply lca_valid. apply (leaves_ok_sub O u Hl Hu). }
      unfold sids3 in Hv. apply in_map_iff in Hv as [rs [Ers Hrs]].
      destruct (find (fun n => path_eqb (SG.STree_id n) (root (lca_rec (ot u)))) (SG.STree_postorder ST)) as [n|] eqn:F.
      + apply find_some in F as [_ Fn]. destruct (path_eqb_spec (SG.STree_id n) (root (lca_rec (ot u)))) as [En|]; [|discriminate].
        unfold sids3. cbn [map]. rewrite En. intros y. reflexivity.
      + exfalso. apply (find_none _ _ F) in Hrs. rewrite Ers in Hrs.
        destruct (path_eqb_spec (root (lca_rec (ot u))) (root (lca_rec (ot u)))); [discriminate|congruence].
  Qed.
End Final3.

Print Assumptions gen_compute_spfs_table_model.
Print Assumptions gen_compute_spfs_table_extended.
Print Assumptions gen_compute_spfs_table_base.

(** * Non-vacuity: a concrete instance satisfying the hypotheses, with the generated code evaluated *)
Module Example3.
  Definition S1 : stree := SNode SLeaf (SNode SLeaf SLeaf).
  Definition O1 : EV.TreeNode nat := EV.TreeNode_node 0%nat (EV.TreeNode_leaf 1%nat) (EV.TreeNode_node 2%nat (EV.TreeNode_leaf 3%nat) (EV.TreeNode_leaf 4%nat)).
  Definition leafsp1 (i : nat) : path := match i with 1%nat => [false] | 3%nat => [true; false] | _ => [true; true] end.
  Definition syn1 (i : nat) : list fam := match i with 1%nat => [1; 2]%N | 3%nat => [2; 3]%N | _ => [1; 3]%N end.
  Definition ord1 : list fam := [1; 2; 3]%N.
  Definition c1 : costs := {| c_spe := 0; c_dup := 1; c_hgt := Fin 1; c_floss := 1; c_sloss := 1 |}.

  Example hyps : nn (c_hgt c1) /\ NoDup (map (@EV.TreeNode_id nat) (SG.TreeNode_postorder O1)) /\ leaves_valid S1 leafsp1 O1.
  Proof.
    split; [discriminate|]. split.
    - cbn. repeat constructor; cbn; intuition congruence.
    - intros i H. cbn in H. repeat (destruct H as [H|H]; [inversion H; subst; reflexivity|]). destruct H.
  Qed.

  Definition table1 (rp : ret) :=
    SG.gen_compute_spfs_table N.eqb path_eqb Nat.eqb (fun (_ : unit) => anc) (fun _ => dist) (fun _ => sembed3 S1 [])
      (EV.mk_sin O1 tt leafsp1 (stsocc c1) syn1) ord1 species_ext (masks_cb Nat.eqb O1) (prc rp).

  (** the generated code, run: the root cell at the root species and the complete synteny has the model's value and
      (here) exactly the model's tags *)
  Example run_all :
    match table1 RALL with
    | SG.Ok tb => let e := gsem3 Nat.eqb tb 0%nat [] (subseq_complete ord1) in
                  let eM := sread (spfs_table S1 c1 RALL true ord1 true (otree_of leafsp1 syn1 O1)) ([], subseq_complete ord1) in
                  ext_eqb (val e) (val eM) && Nat.eqb (length (tags e)) (length (tags eM)) && negb (ext_is_inf (val e))
    | SG.Err _ => false
    end = true.
  Proof. vm_compute. reflexivity. Qed.
End Example3.
End TableFinal.

(* ====================================================================== *)
Module Decode.
(** Stage 4 (EXACT layer): [_decode_spfs_table], [output.cost()], [_spfs], [sreconcile_base_spfs],
    [sreconcile_extended_spfs] as generated = a Gallina description that uses the enumeration orders of the code, errors
    included.  The link of that description to [Model/Spfs.v] is not made here. *)

Import SR.Base.PathB SR.Base.Ext SR.Model.Subseq SR.Model.Entry SR.Model.Recon SR.Model.LcaRec SR.Model.Thl SR.Model.Spfs SR.Proofs.PathFacts SR.Proofs.EntryProofs SR.Proofs.EntryGenProofs SR.Proofs.EvalGenProofs SR.Proofs.TableGenProofs SR.Proofs.ThlGenProofs.


Import Common ModelO Keys TableO Entry.
Import ListNotations.
Local Open Scope Z_scope.

(** * Sequential concatenation with failure *)
Section OCat.
  Context {X Y : Type} (f : X -> option (list Y)).
  (** the lists [f x] one after the other; [None] as soon as one [f x] is [None] *)
  Fixpoint ocat (l : list X) : option (list Y) :=
    match l with
    | [] => Some []
    | x :: l' => match f x with
                 | None => None
                 | Some a => match ocat l' with None => None | Some r => Some (a ++ r) end
                 end
    end.
End OCat.

Lemma ocat_ext {X Y} (f g : X -> option (list Y)) l : (forall x, In x l -> f x = g x) -> ocat f l = ocat g l.
Proof.
  induction l as [|x l IH]; intros H; cbn [ocat]; [reflexivity|].
  rewrite (H x (or_introl eq_refl)), IH; [reflexivity|]. intros y Hy. apply H. now right.
Qed.

Lemma ocat_some {X Y} (f : X -> option (list Y)) l : (forall x, In x l -> exists a, f x = Some a) -> exists r, ocat f l = Some r.
Proof.
  induction l as [|x l IH]; intros H; cbn [ocat]; [eauto|].
  destruct (H x (or_introl eq_refl)) as [a ->]. destruct IH as [r ->]; [|eauto]. intros y Hy. apply H. now right.
Qed.

Section RCat.
  Context {X Y : Type} (f : X -> SG.res (list Y)).
  (** the same with the errors of the generated code: the first error *)
  Fixpoint rcat (l : list X) : SG.res (list Y) :=
    match l with
    | [] => SG.Ok []
    | x :: l' => match f x with
                 | SG.Err e => SG.Err e
                 | SG.Ok a => match rcat l' with SG.Err e => SG.Err e | SG.Ok r => SG.Ok (a ++ r) end
                 end
    end.
End RCat.

Lemma rcat_ext {X Y} (f g : X -> SG.res (list Y)) l : (forall x, In x l -> f x = g x) -> rcat f l = rcat g l.
Proof.
  induction l as [|x l IH]; intros H; cbn [rcat]; [reflexivity|].
  rewrite (H x (or_introl eq_refl)), IH; [reflexivity|]. intros y Hy. apply H. now right.
Qed.

Section Decode3.
  Context {lca node_id : Type} (nid_eqb : node_id -> node_id -> bool).
  Hypothesis nid_eqb_spec : forall a b, reflect (a = b) (nid_eqb a b).
  Notation key := (@SG.key path node_id).
  Notation keqb := (SG.key_eqb path_eqb nid_eqb).
  Notation caeqb := (SG.ChildrenAssignment_eqb path_eqb).
  Notation tstate := (TG.table_state key ca).
  Notation tree := (EV.TreeNode node_id).
  Notation kspec := (keqb_spec3 nid_eqb nid_eqb_spec).
  Notation inv3 := (@inv3 node_id).
  Notation gsem3 := (gsem3 nid_eqb).
  Notation rd3 := (rd3 nid_eqb).
  Notation oids l := (map (@EV.TreeNode_id node_id) l).

  Variables (lcaobj : lca) (c : costs) (rp : ret) (ST : @SG.STree path) (leafsp : node_id -> path)
            (syn : node_id -> list fam) (O : tree).
  Notation sin := (EV.mk_sin O lcaobj leafsp (stsocc c) syn).
  Notation spout := (@SG.spout_state fam path lca node_id).
  Notation DIST := (fun (_ : lca) => dist).
  Notation ANC := (fun (_ : lca) => anc).
  Notation SANC := (fun (_ : lca) => sanc).
  Notation COMP := (fun (_ : lca) => comparable).
  Notation LCP := (fun (_ : lca) => lcp).

  (* ------------------------------------------------------------------ *)
  (** * the chain [table[k1][k2][k3].is_infinite()] / [.infos()] *)
  Lemma rd3_is_infinite tb k1 k2 k3 : inv3 rp tb ->
    SG.table_res (TG.gen_Proxy_is_infinite keqb (TG.Proxy_EntryProxy (TG.mk_eproxy (walked keqb tb [k1; k2]) [k1; k2; k3]))) =
      SG.Ok (TG.Proxy_EntryProxy (TG.mk_eproxy (rd3 tb k1 k2 k3) [k1; k2; k3]), ext_is_inf (val (sem keqb tb [k1; k2; k3]))).
  Proof.
    intros I. pose proof I as [W [D _]].
    assert (S1 : tsame keqb tb (walked keqb tb [k1; k2])) by (apply walked_same; [apply kspec|exact W|cbn; lia]).
    pose proof S1 as [_ [_ [D1 [W1 _]]]].
    cbn [TG.gen_Proxy_is_infinite]. rewrite (gen_eproxy_is_infinite_eq keqb kspec _ [k1; k2; k3] W1) by (cbn; lia).
    now rewrite (tsame_sem keqb _ _ [k1; k2; k3] S1).
  Qed.

  Lemma rd3_infos tb k1 k2 k3 : inv3 rp tb ->
    SG.table_res (TG.gen_Proxy_infos keqb (TG.Proxy_EntryProxy (TG.mk_eproxy (walked keqb tb [k1; k2]) [k1; k2; k3]))) =
      SG.Ok (TG.Proxy_EntryProxy (TG.mk_eproxy (rd3 tb k1 k2 k3) [k1; k2; k3]), tags (sem keqb tb [k1; k2; k3])).
  Proof.
    intros I. pose proof I as [W [D _]].
    assert (S1 : tsame keqb tb (walked keqb tb [k1; k2])) by (apply walked_same; [apply kspec|exact W|cbn; lia]).
    pose proof S1 as [_ [_ [D1 [W1 _]]]].
    cbn [TG.gen_Proxy_infos]. rewrite (gen_eproxy_infos_eq keqb kspec _ [k1; k2; k3] W1) by (cbn; lia).
    now rewrite (tsame_sem keqb _ _ [k1; k2; k3] S1).
  Qed.

  (* ------------------------------------------------------------------ *)
  (** * D1: [_decode_spfs_table] *)
  Notation dsp := (list (node_id * path)).
  Notation dsyn := (list (node_id * list fam)).
  Definition dout : Type := (dsp * dsyn)%type.
  Definition mk_out (d : dout) : spout := SG.mk_spout sin (fst d) (snd d) true.

  Variable ord_infos : list ca -> list ca.
  Hypothesis ord_incl : forall l m, In m (ord_infos l) -> In m l.
  Section D1.
  Variable ro : list fam.

  (** every pair (left output, right output), left first, merged after the assignment of the node: the dictionaries as the
      lists of their stores, newest first *)
  Definition prod3 (i : node_id) (s : path) (y : list fam) (dl dr : list dout) : list dout :=
    flat_map (fun l => map (fun r => (fst r ++ fst l ++ [(i, s)], snd r ++ snd l ++ [(i, y)])) dr) dl.

  (** the outputs the generator yields for (t, s, m), the table reading as [G]; [None]: the IndexError of
      [subseq_from_mask], for the mask [m] or a mask reached below *)
  Fixpoint decode3_g (G : node_id -> path -> N -> entry ca) (t : tree) (s : path) (m : N) {struct t} : option (list dout) :=
    match subseq_from_mask m ro with
    | None => None
    | Some y =>
        match t with
        | EV.TreeNode_leaf i => if ext_is_inf (val (G i s m)) then Some [] else Some [([(i, s)], [(i, y)])]
        | EV.TreeNode_node i a b =>
            ocat (fun info => match SG.ChildrenAssignment_left info, SG.ChildrenAssignment_right info with
                              | Some l, Some r =>
                                  match decode3_g G a (SG.ObjectAssignment_species l) (SG.ObjectAssignment_synteny l) with
                                  | None => None
                                  | Some dl =>
                                      match decode3_g G b (SG.ObjectAssignment_species r) (SG.ObjectAssignment_synteny r) with
                                      | None => None
                                      | Some dr => Some (prod3 i s y dl dr)
                                      end
                                  end
                              | _, _ => Some []
                              end) (ord_infos (tags (G i s m)))
        end
    end.

  Lemma decode3_g_ext G G' t : (forall n x k, G n x k = G' n x k) -> forall s m, decode3_g G t s m = decode3_g G' t s m.
  Proof.
    intros E. induction t as [i|i a IHa b IHb]; intros s m; cbn [decode3_g]; rewrite E; [reflexivity|].
    destruct (subseq_from_mask m ro) as [y|]; [|reflexivity].
    apply ocat_ext. intros info _. destruct (SG.ChildrenAssignment_left info), (SG.ChildrenAssignment_right info); try reflexivity.
    now rewrite IHa, IHb.
  Qed.

  Lemma decode3_for2 root s y (l : list (spout * spout)) : forall acc,
    SG.gen_decode_spfs_table_for2 root s sin y l acc =
      SG.Next (acc ++ map (fun p => SG.mk_spout sin (SG.spout_object_species (snd p) ++ SG.spout_object_species (fst p)
                                                       ++ [(EV.TreeNode_id root, s)])
                                                     (SG.spout_syntenies (snd p) ++ SG.spout_syntenies (fst p)
                                                       ++ [(EV.TreeNode_id root, y)]) true) l).
  Proof.
    induction l as [|[ml mr] l IH]; intros acc; cbn [SG.gen_decode_spfs_table_for2 map]; [now rewrite app_nil_r|].
    rewrite IH, <- app_assoc. reflexivity.
  Qed.

  (** every tag of every cell of the subtree is [tag_ca] of a model tag: both fields are [Some] *)
  Definition tags_ok3 (tb : tstate) (t : tree) : Prop :=
    forall u, In u (SG.TreeNode_postorder t) -> forall x m tg, In tg (tags (gsem3 tb (EV.TreeNode_id u) x m)) -> exists lr, tg = tag_ca lr.
  (** a leaf cell that is infinite has no tags *)
  Definition leaf_tags_ok (tb : tstate) (t : tree) : Prop :=
    forall i, In (EV.TreeNode_leaf i) (SG.TreeNode_postorder t) -> forall x m,
      ext_is_inf (val (gsem3 tb i x m)) = true -> tags (gsem3 tb i x m) = [].

  Lemma tags_ok3_same tb tb' t : tsame keqb tb tb' -> tags_ok3 tb t -> tags_ok3 tb' t.
  Proof. intros S H u Hu x m tg Hm. rewrite (gsem3_same nid_eqb tb tb' _ _ _ S) in Hm. eauto. Qed.
  Lemma leaf_tags_ok_same tb tb' t : tsame keqb tb tb' -> leaf_tags_ok tb t -> leaf_tags_ok tb' t.
  Proof. intros S H i Hi x m. rewrite (gsem3_same nid_eqb tb tb' _ _ _ S). now apply H. Qed.

  Lemma ord_nil : ord_infos [] = [].
  Proof. destruct (ord_infos []) as [|x l] eqn:E; [reflexivity|]. exfalso. apply (ord_incl [] x). rewrite E. now left. Qed.

  Lemma root_in_postorder3 (t : tree) : In t (SG.TreeNode_postorder t).
  Proof. destruct t; cbn; [now left|]. rewrite !in_app_iff. right; right. now left. Qed.

  Notation DEC := (SG.gen_decode_spfs_table (fam := fam) (lca := lca) path_eqb nid_eqb ord_infos ro).

  Theorem gen_decode_spfs_eq (t : tree) : forall s m tb, inv3 rp tb -> tags_ok3 tb t -> leaf_tags_ok tb t ->
    match decode3_g (gsem3 tb) t s m with
    | None => DEC t s m sin tb = SG.Err SG.IndexError
    | Some outs => exists tb', DEC t s m sin tb = SG.Ok (tb', map mk_out outs) /\ tsame keqb tb tb'
    end.
  Proof.
    induction t as [i|i a IHa b IHb]; intros s m tb I Ht Hl.
    - cbn [SG.gen_decode_spfs_table decode3_g EV.TreeNode_is_leaf EV.TreeNode_id]. unfold SG.gen_subseq_from_mask.
      destruct (subseq_from_mask m ro) as [y|]; [|reflexivity]. cbv zeta.
      rewrite (rd3_getitem nid_eqb nid_eqb_spec rp tb _ I), (rd3_sub1 nid_eqb nid_eqb_spec rp tb _ _ I),
        (rd3_sub2 nid_eqb nid_eqb_spec rp tb _ _ _ I), (rd3_is_infinite tb _ _ _ I), parent_entry3.
      pose proof (rd3_same nid_eqb nid_eqb_spec rp tb (inl (inl i)) (inl (inr s)) (inr m) I) as S0.
      change (sem keqb tb [inl (inl i); inl (inr s); inr m]) with (gsem3 tb i s m).
      destruct (ext_is_inf (val (gsem3 tb i s m))) eqn:Einf; cbn [negb].
      + (* an infinite leaf cell: the loop over its tags, of which there is none *)
        remember (rd3 tb (inl (inl i)) (inl (inr s)) (inr m)) as tb0 eqn:Etb0.
        pose proof (inv3_same nid_eqb _ _ _ I S0) as I0.
        rewrite (rd3_getitem nid_eqb nid_eqb_spec rp tb0 _ I0), (rd3_sub1 nid_eqb nid_eqb_spec rp tb0 _ _ I0),
          (rd3_sub2 nid_eqb nid_eqb_spec rp tb0 _ _ _ I0), (rd3_infos tb0 _ _ _ I0), parent_entry3.
        change (sem keqb tb0 [inl (inl i); inl (inr s); inr m]) with (gsem3 tb0 i s m).
        rewrite (gsem3_same nid_eqb tb tb0 _ _ _ S0).
        rewrite (Hl i (or_introl eq_refl) s m Einf), ord_nil.
        eexists. split; [reflexivity|].
        eapply tsame_trans; [exact S0|]. apply (rd3_same nid_eqb nid_eqb_spec rp); exact I0.
      + eexists. split; [reflexivity|exact S0].
    - cbn [SG.gen_decode_spfs_table decode3_g EV.TreeNode_is_leaf EV.TreeNode_id]. unfold SG.gen_subseq_from_mask.
      destruct (subseq_from_mask m ro) as [y|]; [|reflexivity]. cbv zeta.
      rewrite (rd3_getitem nid_eqb nid_eqb_spec rp tb _ I), (rd3_sub1 nid_eqb nid_eqb_spec rp tb _ _ I),
        (rd3_sub2 nid_eqb nid_eqb_spec rp tb _ _ _ I), (rd3_infos tb _ _ _ I), parent_entry3.
      pose proof (rd3_same nid_eqb nid_eqb_spec rp tb (inl (inl i)) (inl (inr s)) (inr m) I) as S0.
      change (sem keqb tb [inl (inl i); inl (inr s); inr m]) with (gsem3 tb i s m).
      remember (rd3 tb (inl (inl i)) (inl (inr s)) (inr m)) as tb0 eqn:Etb0. clear Etb0.
      match goal with |- context [match ?f ?l ?t ?a with SG.Next _ => _ | SG.Ret _ => _ | SG.Fail _ => _ end] => set (F := f) end.
      assert (Hta : tags_ok3 tb a).
      { intros u Hu. apply Ht. cbn [SG.TreeNode_postorder]. rewrite !in_app_iff. now left. }
      assert (Htb : tags_ok3 tb b).
      { intros u Hu. apply Ht. cbn [SG.TreeNode_postorder]. rewrite !in_app_iff. right. now left. }
      assert (Hla : leaf_tags_ok tb a).
      { intros u Hu. apply Hl. cbn [SG.TreeNode_postorder]. rewrite !in_app_iff. now left. }
      assert (Hlb : leaf_tags_ok tb b).
      { intros u Hu. apply Hl. cbn [SG.TreeNode_postorder]. rewrite !in_app_iff. right. now left. }
      remember (fun info : ca => match SG.ChildrenAssignment_left info, SG.ChildrenAssignment_right info with
                              | Some l, Some r =>
                                  match decode3_g (gsem3 tb) a (SG.ObjectAssignment_species l) (SG.ObjectAssignment_synteny l) with
                                  | None => None
                                  | Some dl =>
                                      match decode3_g (gsem3 tb) b (SG.ObjectAssignment_species r) (SG.ObjectAssignment_synteny r) with
                                      | None => None
                                      | Some dr => Some (prod3 i s y dl dr)
                                      end
                                  end
                              | _, _ => Some []
                              end) as per eqn:Eper.
      assert (Hper : forall ls lm rs rm, per (tag_ca ((ls, lm), (rs, rm))) =
                  match decode3_g (gsem3 tb) a ls lm with
                  | None => None
                  | Some dl => match decode3_g (gsem3 tb) b rs rm with None => None | Some dr => Some (prod3 i s y dl dr) end
                  end) by (intros; rewrite Eper; reflexivity).
      clear Eper.
      assert (HF : forall l, (forall tg, In tg l -> exists lr, tg = tag_ca lr) -> forall tbx acc, tsame keqb tb tbx ->
                match ocat per l with
                | None => F l tbx acc = SG.Fail SG.IndexError
                | Some outs => exists tb', F l tbx acc = SG.Next (tb', acc ++ map mk_out outs) /\ tsame keqb tb tb'
                end).
      { induction l as [|tg l IHl]; intros Hl' tbx acc Sx.
        - cbn [ocat]. exists tbx. split; [cbn; now rewrite app_nil_r|exact Sx].
        - destruct (Hl' tg (or_introl eq_refl)) as [[[ls lm] [rs rm]] ->].
          cbn [ocat]. rewrite Hper.
          unfold F. cbn [tag_ca oa_of SG.ChildrenAssignment_left SG.ChildrenAssignment_right SG.ObjectAssignment_species
                         SG.ObjectAssignment_synteny fst snd]. fold F.
          pose proof (inv3_same nid_eqb _ _ _ I Sx) as Ix.
          pose proof (IHa ls lm tbx Ix (tags_ok3_same _ _ _ Sx Hta) (leaf_tags_ok_same _ _ _ Sx Hla)) as Ea.
          rewrite (decode3_g_ext (gsem3 tbx) (gsem3 tb) a (fun n x k => gsem3_same nid_eqb tb tbx n x k Sx)) in Ea.
          destruct (decode3_g (gsem3 tb) a ls lm) as [dl|]; [|rewrite Ea; reflexivity].
          destruct Ea as [tb1 [E1 S1]]. rewrite E1.
          pose proof (tsame_trans keqb _ _ _ Sx S1) as Sx1. pose proof (inv3_same nid_eqb _ _ _ I Sx1) as I1.
          pose proof (IHb rs rm tb1 I1 (tags_ok3_same _ _ _ Sx1 Htb) (leaf_tags_ok_same _ _ _ Sx1 Hlb)) as Eb.
          rewrite (decode3_g_ext (gsem3 tb1) (gsem3 tb) b (fun n x k => gsem3_same nid_eqb tb tb1 n x k Sx1)) in Eb.
          destruct (decode3_g (gsem3 tb) b rs rm) as [dr|]; [|rewrite Eb; reflexivity].
          destruct Eb as [tb2 [E2 S2]]. rewrite E2.
          pose proof (tsame_trans keqb _ _ _ Sx1 S2) as Sx2.
          rewrite decode3_for2.
          match goal with |- context [F l tb2 ?acc'] =>
            pose proof (IHl (fun m' Hm' => Hl' m' (or_intror Hm')) tb2 acc' Sx2) as El end.
          destruct (ocat per l) as [rest|]; [|rewrite El; reflexivity].
          destruct El as [tb' [E' S']]. exists tb'. split; [|exact S']. rewrite E'. f_equal. f_equal.
          rewrite <- app_assoc. f_equal. rewrite map_app. f_equal.
          rewrite (map_list_prod mk_out). cbn [SG.spout_object_species SG.spout_syntenies mk_out fst snd EV.TreeNode_id].
          unfold prod3. rewrite map_flat_map'. apply flat_map_ext. intros x. now rewrite map_map. }
      pose proof (HF (ord_infos (tags (gsem3 tb i s m)))
                  (fun tg Hm => Ht _ (root_in_postorder3 (EV.TreeNode_node i a b)) s m tg (ord_incl _ _ Hm)) tb0 [] S0) as E.
      destruct (ocat per (ord_infos (tags (gsem3 tb i s m)))) as [outs|].
      + destruct E as [tb' [E' S']]. rewrite E'. exists tb'. split; [reflexivity|exact S'].
      + rewrite E. reflexivity.
  Qed.


  (** no IndexError when the masks are those of subsequences of the root ordering: the mask asked for and the masks the
      tags of the subtree hold are below [2 ^ length ro] ([SpfsProofs.from_mask_lt]) *)
  Definition masks_ok (G : node_id -> path -> N -> entry ca) (t : tree) : Prop :=
    forall u, In u (SG.TreeNode_postorder t) -> forall x k tg, In tg (tags (G (EV.TreeNode_id u) x k)) ->
      forall o, SG.ChildrenAssignment_left tg = Some o \/ SG.ChildrenAssignment_right tg = Some o ->
        (SG.ObjectAssignment_synteny o < 2 ^ N.of_nat (length ro))%N.

  Lemma decode3_g_some G (t : tree) : masks_ok G t -> forall s m, (m < 2 ^ N.of_nat (length ro))%N ->
    exists outs, decode3_g G t s m = Some outs.
  Proof.
    induction t as [i|i a IHa b IHb]; intros Hm s m Lm; cbn [decode3_g];
      destruct (SR.Proofs.SpfsProofs.from_mask_lt ro m Lm) as [y ->].
    - destruct (ext_is_inf _); eauto.
    - apply ocat_some. intros info Hi. apply ord_incl in Hi.
      pose proof (Hm _ (root_in_postorder3 (EV.TreeNode_node i a b)) s m info Hi) as Hb. cbn [EV.TreeNode_id] in Hb.
      destruct (SG.ChildrenAssignment_left info) as [l|]; [|eauto].
      destruct (SG.ChildrenAssignment_right info) as [r|]; [|eauto].
      destruct (IHa (fun u Hu => Hm u ltac:(cbn [SG.TreeNode_postorder]; rewrite !in_app_iff; now left)) (SG.ObjectAssignment_species l)
                  (SG.ObjectAssignment_synteny l) (Hb l (or_introl eq_refl))) as [dl ->].
      destruct (IHb (fun u Hu => Hm u ltac:(cbn [SG.TreeNode_postorder]; rewrite !in_app_iff; right; now left)) (SG.ObjectAssignment_species r)
                  (SG.ObjectAssignment_synteny r) (Hb r (or_intror eq_refl))) as [dr ->].
      eauto.
  Qed.

  End D1.

  (* ------------------------------------------------------------------ *)
  (** * D2: [output.cost()] *)
  Variables (oeqb : spout -> spout -> bool) (missing : node_id -> path) (missing_syn : node_id -> list fam).
  Notation OCOST := (SG.gen_soutput_cost fam_eqb path_eqb nid_eqb ANC LCP DIST SANC COMP missing missing_syn).
  Hypothesis sloss_nn : 0 <= c_sloss c.

  (** the labelled reconciliation the two dictionaries denote (a key that is absent reads as [missing] / [missing_syn]) and
      its cost in the evaluator model; [None]: the AssertionError of the evaluator *)
  Definition lt_of3 (d : dout) : ltree :=
    ltree_of (SG.dict_fun nid_eqb missing (fst d)) (SG.dict_fun_syn nid_eqb missing_syn (snd d)) O.
  Definition cost_of3 (d : dout) : option ext := total_cost c (otree_of leafsp syn O) true (lt_of3 d).

  Lemma soutput_cost_eq d :
    OCOST (mk_out d) = match cost_of3 d with Some v => SG.Ok (mk_out d, v) | None => SG.Err SG.AssertionError end.
  Proof.
    unfold SG.gen_soutput_cost, mk_out. cbn [SG.spout_input SG.spout_object_species SG.spout_syntenies SG.spout_ordered].
    match goal with |- context [EV.gen_super_cost _ _ _ _ _ _ _ _ ?o] =>
      change (EV.gen_super_cost fam_eqb nid_eqb path_eqb ANC SANC COMP LCP DIST o) with (scost_p (lca := lca) nid_eqb o);
      rewrite (gen_super_cost_eq nid_eqb nid_eqb_spec o)
    end.
    2:{ unfold co_of. cbn [EV.sout_input EV.sin_costs]. now rewrite ccosts_stsocc. }
    unfold co_of, ot_of, lt_of, cost_of3, lt_of3.
    cbn [EV.sout_input EV.sout_object_species EV.sout_syntenies EV.sout_ordered EV.sin_costs EV.sin_leaf_object_species
         EV.sin_leaf_syntenies EV.sin_object_tree].
    rewrite ccosts_stsocc. destruct (total_cost _ _ _ _); reflexivity.
  Qed.

  (** the candidates of a list of outputs: each with its cost; the first AssertionError *)
  Definition ocosts (ds : list dout) : SG.res (list (ext * option spout)) :=
    rcat (fun d => match cost_of3 d with Some v => SG.Ok [(v, Some (mk_out d))] | None => SG.Err SG.AssertionError end) ds.
  Definition mkC (p : ext * option spout) : EG.Candidate spout := EG.mk_Candidate (fst p) (snd p).
  Lemma ccand_mkC l : map ccand (map mkC l) = l.
  Proof. rewrite map_map. rewrite <- (map_id l) at 2. apply map_ext. intros [v o]. reflexivity. Qed.

  Lemma map_costs3 (ds : list dout) :
    (fix map'4 (it' : list spout) {struct it'} : SG.res (list (EG.Candidate spout)) :=
       match it' with
       | [] => SG.Ok []
       | output :: it'' =>
           match OCOST output with
           | SG.Err e' => SG.Err e'
           | SG.Ok (_, t'4) => match map'4 it'' with SG.Err e' => SG.Err e' | SG.Ok r' => SG.Ok (EG.mk_Candidate t'4 (Some output) :: r') end
           end
       end) (map mk_out ds) = match ocosts ds with SG.Err e => SG.Err e | SG.Ok cs => SG.Ok (map mkC cs) end.
  Proof.
    induction ds as [|d ds IH]; cbn [map]; [reflexivity|]. rewrite soutput_cost_eq. unfold ocosts. cbn [rcat].
    destruct (cost_of3 d) as [v|]; [|reflexivity]. rewrite IH. unfold ocosts.
    match goal with |- context [rcat ?f ds] => destruct (rcat f ds) end; reflexivity.
  Qed.

  (* ------------------------------------------------------------------ *)
  (** * D3: [_spfs] *)
  Variables (syn_mem : (node_id -> list fam) -> node_id -> bool) (syn_items : (node_id -> list fam) -> list (fam * list fam))
            (set_order : list fam -> list fam) (graph_of_prec : list (fam * list fam) -> list (fam * list fam))
            (find_cycle_fn : list (fam * list fam) -> list fam).
  Notation sid := (@SG.STree_id path).

  Definition res_state3 (e : entry spout) : EG.entry_state spout := mk EG.MergePolicy_MIN (prc rp) e.

  (** the candidates one root species contributes, for the root ordering [ro] and the table reading as [G]: the outputs
      decoded from (O, species, complete mask), each with its cost; or the first error *)
  Definition species_cands (G : node_id -> path -> N -> entry ca) (ro : list fam) (x : @SG.STree path) : SG.res (list (ext * option spout)) :=
    match decode3_g ro G O (sid x) (subseq_complete ro) with
    | None => SG.Err SG.IndexError
    | Some outs => ocosts outs
    end.
  (** ... one root ordering contributes: every species of the species tree in level order *)
  Definition order_cands (G : node_id -> path -> N -> entry ca) (ro : list fam) : SG.res (list (ext * option spout)) :=
    rcat (species_cands G ro) (SG.STree_levelorder ST).
  (** ... all root orderings, each with its table *)
  Definition spfs_cands (l : list (list fam * tstate)) : SG.res (list (ext * option spout)) :=
    rcat (fun p => order_cands (gsem3 (snd p)) (fst p)) l.

  Lemma upd_res3 e cs :
    SG.entry_res (EG.gen_entry_update oeqb (res_state3 e) (map mkC cs)) = SG.Ok (res_state3 (update oeqb MIN rp e cs), tt).
  Proof. unfold res_state3. rewrite gen_entry_update_mk. cbn [SG.entry_res cmp]. now rewrite crp_prc, ccand_mkC. Qed.

  Notation FOR3 := (SG.gen_spfs_for3 fam_eqb path_eqb nid_eqb ANC LCP DIST SANC COMP oeqb missing missing_syn ord_infos sin O).

  Lemma spfs_loop3 ro xs : forall tb e, inv3 rp tb -> tags_ok3 tb O -> leaf_tags_ok tb O ->
    match rcat (species_cands (gsem3 tb) ro) xs with
    | SG.Err e' => FOR3 ro xs (res_state3 e) tb = SG.Fail e'
    | SG.Ok cs => exists tb', FOR3 ro xs (res_state3 e) tb = SG.Next (res_state3 (update oeqb MIN rp e cs), tb') /\ tsame keqb tb tb'
    end.
  Proof.
    induction xs as [|x xs IH]; intros tb e I Ht Hl.
    - cbn [rcat SG.gen_spfs_for3]. exists tb. split; [reflexivity|apply tsame_refl; apply I].
    - cbn [SG.gen_spfs_for3 rcat]. unfold species_cands at 1.
      pose proof (gen_decode_spfs_eq ro O (sid x) (subseq_complete ro) tb I Ht Hl) as Ed.
      destruct (decode3_g ro (gsem3 tb) O (sid x) (subseq_complete ro)) as [outs|]; [|rewrite Ed; reflexivity].
      destruct Ed as [tb1 [E1 S1]]. rewrite E1. rewrite map_costs3.
      destruct (ocosts outs) as [cs|e']; [|reflexivity].
      rewrite upd_res3.
      pose proof (inv3_same nid_eqb _ _ _ I S1) as I1.
      pose proof (IH tb1 (update oeqb MIN rp e cs) I1 (tags_ok3_same _ _ _ S1 Ht) (leaf_tags_ok_same _ _ _ S1 Hl)) as E'.
      rewrite (rcat_ext (species_cands (gsem3 tb1) ro) (species_cands (gsem3 tb) ro) xs) in E'.
      2:{ intros y _. unfold species_cands.
          now rewrite (decode3_g_ext ro (gsem3 tb1) (gsem3 tb) O (fun n z k => gsem3_same nid_eqb tb tb1 n z k S1)). }
      destruct (rcat (species_cands (gsem3 tb) ro) xs) as [cs'|e']; [|exact E'].
      destruct E' as [tb' [E' S']]. exists tb'. split; [|eapply tsame_trans; eauto].
      rewrite E'. now rewrite (update_app oeqb).
  Qed.

  Variables (AS : @SG.STree path -> tree -> list (@SG.STree path)) (AM : list fam -> tree -> list N).
  Notation COMPUTE ro := (SG.gen_compute_spfs_table fam_eqb path_eqb nid_eqb ANC DIST (fun _ => ST) sin ro AS AM (prc rp)).
  Notation FOR2 := (SG.gen_spfs_for2 fam_eqb path_eqb nid_eqb ANC LCP DIST (fun _ => ST) SANC COMP oeqb missing missing_syn ord_infos
                      sin (prc rp) AS AM sin O).
  Notation SPFS := (SG.gen_spfs fam_eqb path_eqb nid_eqb ANC LCP DIST (fun _ => ST) SANC COMP oeqb missing missing_syn ord_infos
                      syn_mem syn_items set_order graph_of_prec find_cycle_fn sin (prc rp)).

  (** the table of a root ordering is what the decoder needs *)
  Definition table_ok (ro : list fam) (tb : tstate) : Prop :=
    COMPUTE ro = SG.Ok tb /\ inv3 rp tb /\ tags_ok3 tb O /\ leaf_tags_ok tb O.

  Lemma spfs_loop2 (l : list (list fam * tstate)) : (forall p, In p l -> table_ok (fst p) (snd p)) -> forall e,
    FOR2 (map fst l) (res_state3 e) =
      match spfs_cands l with
      | SG.Err e' => SG.Fail e'
      | SG.Ok cs => SG.Next (res_state3 (update oeqb MIN rp e cs))
      end.
  Proof.
    induction l as [|[ro tb] l IH]; intros H e.
    - cbn. unfold update. reflexivity.
    - cbn [map fst SG.gen_spfs_for2]. destruct (H _ (or_introl eq_refl)) as [Ec [I [Ht Hl]]]. cbn [fst snd] in Ec, I, Ht, Hl.
      rewrite Ec. cbv zeta. cbn [EV.sin_species_lca].
      unfold spfs_cands. cbn [rcat fst snd]. unfold order_cands at 1.
      pose proof (spfs_loop3 ro (SG.STree_levelorder ST) tb e I Ht Hl) as E3.
      destruct (rcat (species_cands (gsem3 tb) ro) (SG.STree_levelorder ST)) as [cs|e']; [|rewrite E3; reflexivity].
      destruct E3 as [tb' [E3 _]]. rewrite E3.
      rewrite (IH (fun p Hp => H p (or_intror Hp))). unfold spfs_cands.
      match goal with |- context [rcat ?f l] => destruct (rcat f l) end; [|reflexivity].
      now rewrite (update_app oeqb).
  Qed.

  Lemma tables_exist (orders : list (list fam)) : (forall ro, In ro orders -> exists tb, table_ok ro tb) ->
    exists l : list (list fam * tstate), map fst l = orders /\ forall p, In p l -> table_ok (fst p) (snd p).
  Proof.
    induction orders as [|ro orders IH]; intros H.
    - exists []. split; [reflexivity|intros p []].
    - destruct (H ro (or_introl eq_refl)) as [tb Htb]. destruct (IH (fun r Hr => H r (or_intror Hr))) as [l [El Hl]].
      exists ((ro, tb) :: l). split; [cbn; now rewrite El|]. intros p [<-|Hp]; [exact Htb|now apply Hl].
  Qed.

  (** the root orderings [_spfs] considers *)
  Definition spfs_orders (orders : list (list fam)) : Prop :=
    if syn_mem syn (EV.TreeNode_id O) then orders = [syn (EV.TreeNode_id O)]
    else exists g, SG.gen_make_prec_graph_syn fam_eqb syn_items syn = SG.Ok g /\
                   SG.gen_toposort_all_prec fam_eqb set_order graph_of_prec g = SG.Ok orders.

  (** [_spfs] around the loop over the root orderings *)
  Lemma spfs_of_loop2 (orders : list (list fam)) (R : SG.res (list (ext * option spout))) : spfs_orders orders ->
    FOR2 orders (res_state3 (default_entry MIN)) =
      match R with SG.Err e' => SG.Fail e' | SG.Ok cs => SG.Next (res_state3 (update oeqb MIN rp (default_entry MIN) cs)) end ->
    SPFS AS AM = match R with
                 | SG.Err e' => SG.Err e'
                 | SG.Ok cs => SG.Ok (tags (update oeqb MIN rp (default_entry MIN) cs))
                 end.
  Proof.
    intros Ho E2.
    unfold SG.gen_spfs. rewrite gen_entry_default_eq. cbn [SG.entry_res]. cbv zeta.
    cbn [SG.gen_spfs_for1 EV.sin_object_tree EV.sin_leaf_syntenies]. cbv zeta.
    unfold res_state3 in E2 at 1. cbn [cmp].
    assert (Fin' : match FOR2 orders (mk EG.MergePolicy_MIN (prc rp) (default_entry MIN)) with
                  | SG.Next results =>
                      match SG.entry_res (EG.gen_entry_infos results) with SG.Err e' => SG.Err e' | SG.Ok (_, t'8) => SG.Ok t'8 end
                  | SG.Ret r' => SG.Ok r'
                  | SG.Fail e' => SG.Err e'
                  end = match R with
                        | SG.Err e' => SG.Err e'
                        | SG.Ok cs => SG.Ok (tags (update oeqb MIN rp (default_entry MIN) cs))
                        end).
    { rewrite E2. destruct R as [cs|e']; [|reflexivity].
      unfold res_state3. rewrite gen_entry_infos_eq. cbn [SG.entry_res]. now rewrite ent_mk. }
    unfold spfs_orders in Ho. destruct (syn_mem syn (EV.TreeNode_id O)); cbn [negb].
    - rewrite <- Ho. destruct (FOR2 orders _) eqn:EF; exact Fin'.
    - destruct Ho as [g [Eg Eo]]. rewrite Eg, Eo. cbv zeta.
      destruct (negb (negb (SG.is_empty orders))); [destruct (negb (SG.is_empty (find_cycle_fn g)))|];
        destruct (FOR2 orders _) eqn:EF; exact Fin'.
  Qed.

  Theorem gen_spfs_eq (orders : list (list fam)) : spfs_orders orders ->
    (forall ro, In ro orders -> exists tb, table_ok ro tb) ->
    exists l : list (list fam * tstate), map fst l = orders /\ (forall p, In p l -> table_ok (fst p) (snd p)) /\
      SPFS AS AM = match spfs_cands l with
                   | SG.Err e' => SG.Err e'
                   | SG.Ok cs => SG.Ok (tags (update oeqb MIN rp (default_entry MIN) cs))
                   end.
  Proof.
    intros Ho Ht. destruct (tables_exist orders Ht) as [l [El Hl]]. exists l. split; [exact El|]. split; [exact Hl|].
    apply (spfs_of_loop2 orders (spfs_cands l) Ho). rewrite <- El. apply (spfs_loop2 l Hl).
  Qed.

  (** the same without naming the tables, the failure of [_compute_spfs_table] included: what one root ordering contributes *)
  Definition order_res (ro : list fam) : SG.res (list (ext * option spout)) :=
    match COMPUTE ro with SG.Err e => SG.Err e | SG.Ok tb => order_cands (gsem3 tb) ro end.
  Definition tables_ok (orders : list (list fam)) : Prop :=
    forall ro tb, In ro orders -> COMPUTE ro = SG.Ok tb -> inv3 rp tb /\ tags_ok3 tb O /\ leaf_tags_ok tb O.

  Lemma spfs_loop2x (orders : list (list fam)) : tables_ok orders -> forall e,
    FOR2 orders (res_state3 e) =
      match rcat order_res orders with
      | SG.Err e' => SG.Fail e'
      | SG.Ok cs => SG.Next (res_state3 (update oeqb MIN rp e cs))
      end.
  Proof.
    induction orders as [|ro orders IH]; intros H e.
    - cbn. unfold update. reflexivity.
    - cbn [SG.gen_spfs_for2 rcat]. unfold order_res at 1.
      pose proof (H ro) as Hro. destruct (COMPUTE ro) as [tb|e']; [|reflexivity].
      destruct (Hro tb (or_introl eq_refl) eq_refl) as [I [Ht Hl]]. cbv zeta. cbn [EV.sin_species_lca].
      unfold order_cands at 1.
      pose proof (spfs_loop3 ro (SG.STree_levelorder ST) tb e I Ht Hl) as E3.
      destruct (rcat (species_cands (gsem3 tb) ro) (SG.STree_levelorder ST)) as [cs|e']; [|rewrite E3; reflexivity].
      destruct E3 as [tb' [E3 _]]. rewrite E3.
      rewrite (IH (fun r t Hr => H r t (or_intror Hr))).
      destruct (rcat order_res orders); [|reflexivity].
      now rewrite (update_app oeqb).
  Qed.

  Theorem gen_spfs_exact (orders : list (list fam)) : spfs_orders orders -> tables_ok orders ->
    SPFS AS AM = match rcat order_res orders with
                 | SG.Err e' => SG.Err e'
                 | SG.Ok cs => SG.Ok (tags (update oeqb MIN rp (default_entry MIN) cs))
                 end.
  Proof. intros Ho Ht. apply (spfs_of_loop2 orders _ Ho). apply (spfs_loop2x orders Ht). Qed.

  (** the failures of the precedence graph and of the enumeration of its topological orders are those of [_spfs] *)
  Lemma gen_spfs_prec_err e : syn_mem syn (EV.TreeNode_id O) = false ->
    SG.gen_make_prec_graph_syn fam_eqb syn_items syn = SG.Err e -> SPFS AS AM = SG.Err e.
  Proof.
    intros Em Eg. unfold SG.gen_spfs. rewrite gen_entry_default_eq. cbn [SG.entry_res]. cbv zeta.
    cbn [SG.gen_spfs_for1 EV.sin_object_tree EV.sin_leaf_syntenies]. cbv zeta. rewrite Em. cbn [negb]. now rewrite Eg.
  Qed.
  Lemma gen_spfs_toposort_err g e : syn_mem syn (EV.TreeNode_id O) = false ->
    SG.gen_make_prec_graph_syn fam_eqb syn_items syn = SG.Ok g ->
    SG.gen_toposort_all_prec fam_eqb set_order graph_of_prec g = SG.Err e -> SPFS AS AM = SG.Err e.
  Proof.
    intros Em Eg Eo. unfold SG.gen_spfs. rewrite gen_entry_default_eq. cbn [SG.entry_res]. cbv zeta.
    cbn [SG.gen_spfs_for1 EV.sin_object_tree EV.sin_leaf_syntenies]. cbv zeta. rewrite Em. cbn [negb]. now rewrite Eg, Eo.
  Qed.

  (* ------------------------------------------------------------------ *)
  (** * D4: the two entry points *)
  Notation SPFS0 := (SG.gen_spfs fam_eqb path_eqb nid_eqb ANC LCP DIST (fun _ => ST) SANC COMP oeqb missing missing_syn ord_infos
                       syn_mem syn_items set_order graph_of_prec find_cycle_fn sin (prc rp)).

  (** the syntenies both variants allow: the complete mask at the root of the object tree, every mask elsewhere *)
  Definition std_syntenies (ordering : list fam) (obj : tree) : list N :=
    if nid_eqb (EV.TreeNode_id obj) (EV.TreeNode_id O) then [subseq_complete ordering]
    else map N.of_nat (seq 0 (N.to_nat (N.pow 2%N (N.of_nat (length ordering))))).

  Theorem gen_sreconcile_extended_spfs_eq :
    SG.gen_sreconcile_extended_spfs fam_eqb path_eqb nid_eqb ANC LCP DIST (fun _ => ST) SANC COMP oeqb missing missing_syn ord_infos
      syn_mem syn_items set_order graph_of_prec find_cycle_fn sin (prc rp) =
    SPFS0 (fun (species : @SG.STree path) (_ : tree) => SG.STree_postorder species) std_syntenies.
  Proof.
    unfold SG.gen_sreconcile_extended_spfs. cbv zeta. cbn [EV.sin_object_tree]. fold std_syntenies.
    match goal with |- match ?r with SG.Err _ => _ | SG.Ok _ => _ end = _ => destruct r end; reflexivity.
  Qed.

  Lemma sg_dict_get (d : dsp) n : SG.dict_get nid_eqb d n = T.dict_get nid_eqb d n.
  Proof. induction d as [|[k v] d IH]; cbn; [reflexivity|]. now rewrite IH. Qed.
  Lemma sg_postorder (t : tree) : SG.TreeNode_postorder t = T.TreeNode_postorder t.
  Proof. induction t as [i|i a IHa b IHb]; cbn; [reflexivity|]. now rewrite IHa, IHb. Qed.

  (** [reconcile_lca]: the dictionary maps every node of the object tree to the species of the LCA reconciliation *)
  Theorem gen_reconcile_lca_super_eq : NoDup (oids (SG.TreeNode_postorder O)) ->
    exists d : dsp, SG.gen_reconcile_lca_super (fam := fam) nid_eqb LCP sin = SG.Ok d /\
      forall u, In u (SG.TreeNode_postorder O) ->
        SG.dict_get nid_eqb d (EV.TreeNode_id u) = Some (root (LcaRec.lca_rec (otree_of leafsp syn u))).
  Proof.
    intros ND. rewrite sg_postorder in ND.
    destruct (lca_loop nid_eqb nid_eqb_spec lcaobj (stsocc c) leafsp syn O O [] [] ND (fun _ _ => eq_refl)) as [d [E [Sk _]]].
    rewrite app_nil_r in E. exists d. split.
    - unfold SG.gen_reconcile_lca_super. cbn [EV.sin_object_tree EV.sin_species_lca EV.sin_leaf_object_species EV.sin_costs].
      unfold T.gen_reconcile_lca. cbv zeta. cbn [EV.rin_object_tree]. rewrite E. reflexivity.
    - intros u Hu. rewrite sg_postorder in Hu. rewrite sg_dict_get. now apply Sk.
  Qed.

  (** what [allowed_species] of the base variant answers: the species node that carries the identifier the dictionary holds *)
  Theorem base_species_eq (d : dsp) (u : tree) s rs : SG.dict_get nid_eqb d (EV.TreeNode_id u) = Some s ->
    find (fun n => path_eqb (sid n) s) (SG.STree_postorder ST) = Some rs ->
    SG.base_species path_eqb nid_eqb ST d u = [rs].
  Proof. intros E1 E2. unfold SG.base_species. now rewrite E1, E2. Qed.

  Theorem gen_sreconcile_base_spfs_eq : NoDup (oids (SG.TreeNode_postorder O)) ->
    exists d : dsp,
      (forall u, In u (SG.TreeNode_postorder O) ->
         SG.dict_get nid_eqb d (EV.TreeNode_id u) = Some (root (LcaRec.lca_rec (otree_of leafsp syn u)))) /\
      SG.gen_sreconcile_base_spfs fam_eqb path_eqb nid_eqb ANC LCP DIST (fun _ => ST) SANC COMP oeqb missing missing_syn ord_infos
        syn_mem syn_items set_order graph_of_prec find_cycle_fn sin (prc rp) =
      SPFS0 (fun (_ : @SG.STree path) (obj : tree) => SG.base_species path_eqb nid_eqb ST d obj) std_syntenies.
  Proof.
    intros ND. destruct (gen_reconcile_lca_super_eq ND) as [d [E Hd]]. exists d. split; [exact Hd|].
    unfold SG.gen_sreconcile_base_spfs. rewrite E. cbv zeta. cbn [EV.sin_object_tree EV.sin_species_lca]. unfold SG.lca_object_species.
    fold std_syntenies.
    match goal with |- match ?r with SG.Err _ => _ | SG.Ok _ => _ end = _ => destruct r end; reflexivity.
  Qed.

End Decode3.

Print Assumptions gen_decode_spfs_eq.
Print Assumptions soutput_cost_eq.
Print Assumptions decode3_g_some.
Print Assumptions gen_spfs_eq.
Print Assumptions gen_spfs_exact.
Print Assumptions gen_spfs_prec_err.
Print Assumptions gen_spfs_toposort_err.
Print Assumptions gen_sreconcile_extended_spfs_eq.
Print Assumptions gen_reconcile_lca_super_eq.
Print Assumptions base_species_eq.
Print Assumptions gen_sreconcile_base_spfs_eq.
End Decode.

(* ====================================================================== *)
Module SpfsLink.
(** Stage 5: the generated ordered super-reconciliation solvers ([Gen/SpfsGen.v]) against the hand-written model
    [Model/Spfs.v], under the ALL policy: the table facts the exact layer ([Decode.v]) needs, the decoder, the candidates
    and the two entry points. *)

Import SR.Base.PathB SR.Base.Ext SR.Model.Subseq SR.Model.Entry SR.Model.Recon SR.Model.LcaRec SR.Model.Thl SR.Model.Spfs SR.Proofs.PathFacts SR.Proofs.EntryProofs SR.Proofs.EntryGenProofs SR.Proofs.EvalGenProofs SR.Proofs.TableGenProofs SR.Proofs.ThlGenProofs SR.Proofs.ReconProofs SR.Proofs.LcaProofs SR.Proofs.ThlProofs SR.Proofs.SpfsProofs.

Import Common ModelO ModelPerm Keys TableO Entry Embed TableExact TableModel Decode.
Import ListNotations.
Local Open Scope Z_scope.

(* ------------------------------------------------------------------ *)
(** * Part 0: sequential concatenations as sets *)
Lemma ocat_in {X Y} (f : X -> option (list Y)) l : forall r, ocat f l = Some r ->
  forall y, In y r <-> exists x a, In x l /\ f x = Some a /\ In y a.
Proof.
  induction l as [|x l IH]; intros r E y; cbn [ocat] in E.
  - inversion E; subst. split; [intros []|intros [x [a [[] _]]]].
  - destruct (f x) as [a|] eqn:Ex; [|discriminate]. destruct (ocat f l) as [r'|]; [|discriminate]. inversion E; subst. clear E.
    rewrite in_app_iff, (IH r' eq_refl y). split.
    + intros [H|[x' [a' [I [E' H]]]]]; [exists x, a; split; [now left|auto]|exists x', a'; split; [now right|auto]].
    + intros [x' [a' [[<-|I] [E' H]]]]; [left; congruence|right; eauto].
Qed.

Lemma rcat_ok {X Y} (f : X -> SG.res (list Y)) l : forall r, rcat f l = SG.Ok r ->
  (forall x, In x l -> exists a, f x = SG.Ok a) /\
  forall y, In y r <-> exists x a, In x l /\ f x = SG.Ok a /\ In y a.
Proof.
  induction l as [|x l IH]; intros r E; cbn [rcat] in E.
  - inversion E; subst. split; [intros x []|]. intros y. split; [intros []|intros [x [a [[] _]]]].
  - destruct (f x) as [a|] eqn:Ex; [|discriminate]. destruct (rcat f l) as [r'|]; [|discriminate]. inversion E; subst. clear E.
    destruct (IH r' eq_refl) as [A Bq]. split.
    + intros x' [<-|I]; eauto.
    + intros y. rewrite in_app_iff, (Bq y). split.
      * intros [H|[x' [a' [I [E' H]]]]]; [exists x, a; split; [now left|auto]|exists x', a'; split; [now right|auto]].
      * intros [x' [a' [[<-|I] [E' H]]]]; [left; congruence|right; eauto].
Qed.

Lemma rcat_err {X Y} (f : X -> SG.res (list Y)) l e : rcat f l = SG.Err e -> exists x, In x l /\ f x = SG.Err e.
Proof.
  induction l as [|x l IH]; cbn [rcat]; [discriminate|].
  destruct (f x) as [a|e'] eqn:Ex.
  - destruct (rcat f l) as [r'|e'']; [discriminate|]. intros E. inversion E; subst. destruct (IH eq_refl) as [x' [I E']].
    exists x'. split; [now right|exact E'].
  - intros E. inversion E; subst. exists x. split; [now left|exact Ex].
Qed.

Lemma all_some_none_in {X} (l : list (option X)) : all_some l = None -> In None l.
Proof.
  induction l as [|[x|] l IH]; cbn [all_some]; [discriminate| |intros _; now left].
  destruct (all_some l); [discriminate|]. intros _. right. now apply IH.
Qed.
Lemma all_some_in {X} (l : list (option X)) l' : all_some l = Some l' ->
  (forall x, In x l -> exists y, x = Some y) /\ forall y, In y l' <-> In (Some y) l.
Proof.
  intros E. assert (H : forall x, In x l -> exists y, x = Some y).
  { intros [y|] I; [eauto|]. apply all_some_none in I. congruence. }
  split; [exact H|]. destruct (all_some_spec l H) as [l2 [E2 I2]]. rewrite E in E2. inversion E2; subst. exact I2.
Qed.

(* ------------------------------------------------------------------ *)
(** * Part A: the tags of a cell of the table are pairs of existing child cells; the masks are below [2 ^ length ord] *)
Lemma agg_tag_key S c rp (f : sassign -> ext) s m ks i l :
  In l (tags (aggp rp (pick_o i (flat_map (one_cands S c f s m) ks)))) -> In l ks.
Proof.
  unfold aggp. intros H. apply (upd_tags_sound sassign_eqb sassign_eqb_spec) in H.
  apply In_pick in H as [k [Ik H]]. apply one_tagged in H. inversion H; subst. exact Ik.
Qed.

Lemma sbatch_o_tag_keys S c rp (f g : sassign -> ext) ksA ksB s m w l r :
  In (w, Some (l, r)) (sbatch_o S c rp f g ksA ksB s m) -> In l ksA /\ In r ksB.
Proof.
  unfold sbatch_o, choices_o. cbv zeta. cbn [ch_left ch_right ch_conserved ch_segment ch_separate].
  intros I. repeat (apply in_app_or in I as [I|I]; [apply scomb_sound in I as [Hl [Hr _]]; split; eapply agg_tag_key; eassumption|]).
  apply scomb_sound in I as [Hl [Hr _]]; split; eapply agg_tag_key; eassumption.
Qed.

Section Masks.
  Context {node_id : Type}.
  Variables (S : stree) (c : costs) (rp : ret) (ord : list fam) (leafsp : node_id -> path) (syn : node_id -> list fam)
            (lev : list path) (AS : EVo.TreeNode node_id -> list path) (AM : EVo.TreeNode node_id -> list N).
  Hypothesis AM_lt : forall u m, In m (AM u) -> (m < 2 ^ N.of_nat (length ord))%N.
  Notation TC := (tcell3 S c rp ord leafsp syn lev AS AM).
  Notation TK := (tkeys3 S c rp ord leafsp syn lev AS AM).

  Lemma tkeys3_lt t s m : In m (TK t s) -> (m < 2 ^ N.of_nat (length ord))%N.
  Proof.
    destruct t as [i|i a b].
    - rewrite tkeys3_leaf. destruct (path_eqb s (leafsp i)); [|intros []]. intros [<-|[]]. apply mask_from_subseq_lt.
    - rewrite tkeys3_node. destruct (existsb _ _); [|intros []]. intros H. apply filter_In in H as [H _]. eapply AM_lt; eauto.
  Qed.

  Lemma tcell3_leaf_tags i k : tags (TC (EVo.TreeNode_leaf i) k) = [].
  Proof. rewrite tcell3_leaf. now destruct (sassign_eqb k _). Qed.

  Lemma tcell3_tag_keys i a b k l r : In (l, r) (tags (TC (EVo.TreeNode_node i a b) k)) ->
    In (snd l) (TK a (fst l)) /\ In (snd r) (TK b (fst r)).
  Proof.
    rewrite tcell3_node. destruct (_ && _); [|intros []]. intros H. apply fw_tags_sound in H.
    unfold batchC in H. apply sbatch_o_tag_keys in H as [Hl Hr]. destruct l as [ls lm], r as [rs rm].
    apply in_kl in Hl as [_ Hl]. apply in_kl in Hr as [_ Hr]. auto.
  Qed.

  Lemma tcell3_tag_lt i a b k l r : In (l, r) (tags (TC (EVo.TreeNode_node i a b) k)) ->
    (snd l < 2 ^ N.of_nat (length ord))%N /\ (snd r < 2 ^ N.of_nat (length ord))%N.
  Proof. intros H. apply tcell3_tag_keys in H as [Hl Hr]. split; eapply tkeys3_lt; eauto. Qed.
End Masks.

(* ------------------------------------------------------------------ *)
(** * Part B: the code against the model, for a species callback [AS] that answers the allowed species of the model *)
Lemma ok_ext {node_id : Type} S extended ord (leafsp : node_id -> path) syn AS (AM1 AM2 : EVo.TreeNode node_id -> list N) :
  (forall u, AM1 u = AM2 u) -> forall t is_root, ok S extended ord leafsp syn AS AM1 is_root t -> ok S extended ord leafsp syn AS AM2 is_root t.
Proof.
  intros E. induction t as [i|i a IHa b IHb]; intros is_root H; cbn [ok] in *; [exact H|].
  destruct H as [H1 [H2 [H3 H4]]]. split; [exact H1|]. split; [now rewrite <- E|]. split; auto.
Qed.

Lemma ids_perm {node_id : Type} (t : EV.TreeNode node_id) : Permutation (ids t) (map (@EV.TreeNode_id node_id) (SG.TreeNode_postorder t)).
Proof.
  induction t as [i|i a IHa b IHb]; cbn [ids SG.TreeNode_postorder map]; [reflexivity|].
  rewrite !map_app. cbn [map EV.TreeNode_id]. rewrite app_assoc.
  eapply Permutation_trans; [apply Permutation_cons_append|]. apply Permutation_app_tail. now apply Permutation_app.
Qed.

Lemma find_sid (l : list (@SG.STree path)) s : In s (sids3 l) ->
  exists rs, find (fun n => path_eqb (SG.STree_id n) s) l = Some rs /\ In rs l /\ SG.STree_id rs = s.
Proof.
  induction l as [|x l IH]; cbn [sids3 map In find]; [intros []|].
  destruct (path_eqb_spec (SG.STree_id x) s) as [E|NE].
  - intros _. exists x. auto.
  - intros [E|I]; [congruence|]. destruct (IH I) as [rs [E1 [E2 E3]]]. exists rs. auto.
Qed.

Section Link.
  Context {lca node_id : Type} (nid_eqb : node_id -> node_id -> bool).
  Hypothesis nid_eqb_spec : forall a b, reflect (a = b) (nid_eqb a b).
  Notation key := (@SG.key path node_id).
  Notation keqb := (SG.key_eqb path_eqb nid_eqb).
  Notation tstate := (TG.table_state key ca).
  Notation tree := (EV.TreeNode node_id).
  Notation inv3 := (@inv3 node_id).
  Notation gsem3 := (gsem3 nid_eqb).
  Notation oids l := (map (@EV.TreeNode_id node_id) l).
  Notation post := (@SG.TreeNode_postorder node_id).
  Notation tid := (@EV.TreeNode_id node_id).
  Variables (lcaobj : lca) (S : stree) (c : costs) (leafsp : node_id -> path) (syn : node_id -> list fam) (O : tree).
  Variables (missing : node_id -> path) (missing_syn : node_id -> list fam) (ord_infos : list ca -> list ca).
  Notation ST := (sembed3 S []).
  Notation OT := (otree_of leafsp syn).
  Notation lev := (sids3 (SG.STree_levelorder ST)).
  Notation sin := (EV.mk_sin O lcaobj leafsp (stsocc c) syn).
  Notation DIST := (fun (_ : lca) => dist).
  Notation ANC := (fun (_ : lca) => anc).
  Notation SANC := (fun (_ : lca) => sanc).
  Notation COMP := (fun (_ : lca) => comparable).
  Notation LCP := (fun (_ : lca) => lcp).
  Variables (extended : bool) (AS : @SG.STree path -> tree -> list (@SG.STree path)).
  Notation AM := (std_syntenies nid_eqb O).
  Notation AS' := (fun u : tree => sids3 (AS ST u)).
  Notation TC ro := (tcell3 S c RALL ro leafsp syn lev AS' (AM ro)).
  Notation TK ro := (tkeys3 S c RALL ro leafsp syn lev AS' (AM ro)).
  Notation COMPUTE ro := (SG.gen_compute_spfs_table fam_eqb path_eqb nid_eqb ANC DIST (fun _ => ST) sin ro AS AM (prc RALL)).

  (** the well-formedness hypotheses W *)
  Hypothesis Hh : nn (c_hgt c).
  Hypothesis ND : NoDup (oids (post O)).
  Hypothesis Lv : leaves_ok S (OT O).
  Hypothesis ord_same : forall l, sameset (ord_infos l) l.
  (** the species callback: nodes of the species tree, pairwise distinct, standing for the allowed species of the model *)
  Hypothesis HAS : forall u, In u (post O) -> EV.TreeNode_is_leaf u = false ->
    (forall rs, In rs (AS ST u) -> rs_ok S rs) /\ NoDup (sids3 (AS ST u)) /\
    sameset (sids3 (AS ST u)) (allowed_species S extended (OT u)).

  Lemma ord_incl : forall l m, In m (ord_infos l) -> In m l.
  Proof. intros l m. apply ord_same. Qed.

  (** ** the masks callback *)
  Lemma std_eq ro u : AM ro u = AM_root nid_eqb ro (tid O) u.
  Proof.
    unfold std_syntenies, AM_root, all_masks. destruct (nid_eqb _ _); [reflexivity|].
    rewrite N2Nat.inj_pow, Nat2N.id. reflexivity.
  Qed.
  Lemma std_lt ro u m : In m (AM ro u) -> (m < 2 ^ N.of_nat (length ro))%N.
  Proof.
    rewrite std_eq. unfold AM_root. destruct (nid_eqb _ _); [intros [<-|[]]; apply complete_lt|apply in_all_masks].
  Qed.
  Lemma std_nodup ro u : NoDup (AM ro u).
  Proof.
    rewrite std_eq. unfold AM_root, all_masks. destruct (nid_eqb _ _); [constructor; [intros []|constructor]|].
    apply FinFun.Injective_map_NoDup; [intros x y; apply Nat2N.inj|apply seq_NoDup].
  Qed.

  Lemma lev_same : sameset lev (snodes S).
  Proof. apply lev_sameset. Qed.

  Lemma ok_rest_of t : (forall u, In u (post t) -> In u (post O)) -> leaves_ok S (OT t) -> ok_rest S extended leafsp syn AS' t.
  Proof.
    induction t as [i|i a IHa b IHb]; intros Hs L; cbn [ok_rest otree_of leaves_ok] in *; [exact L|].
    destruct L as [La Lb]. split; [|split].
    - apply (HAS (EV.TreeNode_node i a b)); [|reflexivity]. apply Hs. apply root_in_postorder3.
    - apply IHa; [|exact La]. intros u Hu. apply Hs. cbn [SG.TreeNode_postorder]. rewrite !in_app_iff. now left.
    - apply IHb; [|exact Lb]. intros u Hu. apply Hs. cbn [SG.TreeNode_postorder]. rewrite !in_app_iff. right. now left.
  Qed.

  Lemma ok_root ro : ok S extended ro leafsp syn AS' (AM ro) true O.
  Proof.
    apply (ok_ext S extended ro leafsp syn AS' (AM_root nid_eqb ro (tid O)) (AM ro)); [intros u; symmetry; apply std_eq|].
    apply AM_root_ok; [exact nid_eqb_spec| |apply ok_rest_of; [auto|exact Lv]].
    eapply Permutation_NoDup; [apply Permutation_sym, ids_perm|exact ND].
  Qed.

  (** ** L1: the facts about the table the exact layer needs *)
  Theorem table_facts ro : exists tb,
    COMPUTE ro = SG.Ok tb /\ inv3 RALL tb /\ tags_ok3 nid_eqb tb O /\ leaf_tags_ok nid_eqb tb O /\ masks_ok ro (gsem3 tb) O /\
    (forall u, In u (post O) -> forall s m, gsem3 tb (tid u) s m = emap tag_ca (TC ro u (s, m))).
  Proof.
    destruct (gen_compute_spfs_table_eq nid_eqb nid_eqb_spec lcaobj RALL S c ST leafsp syn O ro AS AM ND) as [tb [E [I [Sc _]]]].
    { intros u Hu Hl. destruct (HAS u Hu Hl) as [H1 [H2 _]]. split; [exact H1|]. split; [exact H2|apply std_nodup]. }
    exists tb. split; [exact E|]. split; [exact I|]. split; [|split; [|split; [|exact Sc]]].
    - intros u Hu x m tg Htg. rewrite (Sc u Hu) in Htg. cbn [emap tags] in Htg. apply in_map_iff in Htg as [lr [<- _]]. eauto.
    - intros i Hi x m _. rewrite (Sc _ Hi). cbn [emap tags]. now rewrite tcell3_leaf_tags.
    - intros u Hu x k tg Htg o Ho. rewrite (Sc u Hu) in Htg. cbn [emap tags] in Htg. apply in_map_iff in Htg as [[l r] [<- Hlr]].
      destruct u as [i|i a b]; [rewrite tcell3_leaf_tags in Hlr; destruct Hlr|].
      apply (tcell3_tag_lt S c RALL ro leafsp syn lev AS' (AM ro) (std_lt ro)) in Hlr as [Hl Hr].
      cbn [tag_ca SG.ChildrenAssignment_left SG.ChildrenAssignment_right fst snd] in Ho.
      destruct Ho as [Ho|Ho]; inversion Ho; subst; cbn [oa_of SG.ObjectAssignment_synteny]; assumption.
  Qed.

  (** ** dictionaries kept as the lists of their stores *)
  Definition dget {V} (mis : node_id -> V) (d : list (node_id * V)) (n : node_id) : V :=
    match SG.dict_get nid_eqb d n with Some v => v | None => mis n end.
  Lemma sg_get_app {V} (d1 d2 : list (node_id * V)) k :
    SG.dict_get nid_eqb (d1 ++ d2) k = match SG.dict_get nid_eqb d1 k with Some v => Some v | None => SG.dict_get nid_eqb d2 k end.
  Proof. induction d1 as [|[k' v] d1 IH]; cbn; [reflexivity|]. destruct (nid_eqb k k'); auto. Qed.
  Lemma sg_get_none {V} (d : list (node_id * V)) k : ~ In k (map fst d) -> SG.dict_get nid_eqb d k = None.
  Proof.
    induction d as [|[k' v] d IH]; cbn; [reflexivity|]. intros H.
    destruct (nid_eqb_spec k k') as [->|NE]; [exfalso; apply H; now left|]. apply IH. intros Hk. apply H. now right.
  Qed.
  Lemma sg_get_some {V} (d : list (node_id * V)) k : In k (map fst d) -> exists v, SG.dict_get nid_eqb d k = Some v.
  Proof.
    induction d as [|[k' v] d IH]; cbn; [intros []|]. intros H.
    destruct (nid_eqb_spec k k') as [->|NE]; [eauto|]. destruct H as [H|H]; [congruence|auto].
  Qed.

  Lemma dget_merge {V} (mis : node_id -> V) (dl dr : list (node_id * V)) i v (A B : list node_id) :
    NoDup (A ++ B ++ [i]) -> sameset (map fst dl) A -> sameset (map fst dr) B ->
    dget mis (dr ++ dl ++ [(i, v)]) i = v /\
    (forall n, In n A -> dget mis (dr ++ dl ++ [(i, v)]) n = dget mis dl n) /\
    (forall n, In n B -> dget mis (dr ++ dl ++ [(i, v)]) n = dget mis dr n).
  Proof.
    intros NDx Kl Kr. unfold dget. split; [|split].
    - rewrite !sg_get_app, (sg_get_none dr i), (sg_get_none dl i).
      + cbn. destruct (nid_eqb_spec i i); congruence.
      + intros H. apply Kl in H. eapply (NoDup_app_disj3 _ _ i NDx H). rewrite in_app_iff. right. now left.
      + intros H. apply Kr in H. eapply (NoDup_app_disj3 _ _ i (NoDup_app_r3 _ _ NDx) H). now left.
    - intros n Hn. rewrite !sg_get_app, (sg_get_none dr n).
      + destruct (sg_get_some dl n (proj2 (Kl n) Hn)) as [w ->]. reflexivity.
      + intros H. apply Kr in H. eapply (NoDup_app_disj3 _ _ n NDx Hn). rewrite in_app_iff. now left.
    - intros n Hn. rewrite !sg_get_app. destruct (sg_get_some dr n (proj2 (Kr n) Hn)) as [w ->]. reflexivity.
  Qed.

  (** the labelled tree two dictionaries denote on a subtree *)
  Definition lt_at (t : tree) (d : @dout node_id) : ltree :=
    ltree_of (SG.dict_fun nid_eqb missing (fst d)) (SG.dict_fun_syn nid_eqb missing_syn (snd d)) t.
  Lemma lt_at_dget t d : lt_at t d = ltree_of (dget missing (fst d)) (dget missing_syn (snd d)) t.
  Proof. reflexivity. Qed.

  Lemma ltree_of_ext f f' g g' (t : tree) : (forall n, In n (oids (post t)) -> f n = f' n /\ g n = g' n) ->
    ltree_of f g t = ltree_of f' g' t.
  Proof.
    induction t as [i|i a IHa b IHb]; intros E; cbn [ltree_of SG.TreeNode_postorder] in *.
    - destruct (E i (or_introl eq_refl)) as [-> ->]. reflexivity.
    - rewrite !map_app in E. cbn [map EV.TreeNode_id] in E.
      destruct (E i) as [-> ->]; [rewrite !in_app_iff; right; right; now left|]. f_equal.
      + apply IHa. intros n Hn. apply E. rewrite !in_app_iff. now left.
      + apply IHb. intros n Hn. apply E. rewrite !in_app_iff. right. now left.
  Qed.

  Lemma ltree_merge i (a b : tree) s y (dl dr : @dout node_id) :
    NoDup (oids (post a) ++ oids (post b) ++ [i]) ->
    sameset (map fst (fst dl)) (oids (post a)) -> sameset (map fst (snd dl)) (oids (post a)) ->
    sameset (map fst (fst dr)) (oids (post b)) -> sameset (map fst (snd dr)) (oids (post b)) ->
    lt_at (EV.TreeNode_node i a b) (fst dr ++ fst dl ++ [(i, s)], snd dr ++ snd dl ++ [(i, y)]) = LNode s y (lt_at a dl) (lt_at b dr).
  Proof.
    intros NDx K1 K2 K3 K4. rewrite !lt_at_dget. cbn [fst snd ltree_of].
    destruct (dget_merge missing (fst dl) (fst dr) i s _ _ NDx K1 K3) as [E1 [E2 E3]].
    destruct (dget_merge missing_syn (snd dl) (snd dr) i y _ _ NDx K2 K4) as [F1 [F2 F3]].
    rewrite E1, F1. f_equal; apply ltree_of_ext; intros n Hn; auto.
  Qed.

  (** ** L2: the decoder *)
  Section DecodeModel.
  Variables (ro : list fam) (G : node_id -> path -> N -> entry ca).
  Notation tblM := (spfs_table S c RALL extended ro).
  Notation B := (2 ^ N.of_nat (length ro))%N.

  Theorem decode_model3 (t : tree) : forall is_root, ok S extended ro leafsp syn AS' (AM ro) is_root t ->
    NoDup (oids (post t)) ->
    (forall u, In u (post t) -> forall x k, G (tid u) x k = emap tag_ca (TC ro u (x, k))) ->
    forall k : sassign, (snd k < B)%N ->
    exists outs, decode3_g ord_infos ro G t (fst k) (snd k) = Some outs /\
      sameset (map (fun d => Some (lt_at t d)) outs) (sdecode ro (tblM is_root (OT t)) k) /\
      (forall d, In d outs -> sameset (map fst (fst d)) (oids (post t)) /\ sameset (map fst (snd d)) (oids (post t))).
  Proof.
    induction t as [i|i a IHa b IHb]; intros is_root Hok NDt HG [s m] Lm; cbn [fst snd] in *.
    - destruct (from_mask_lt ro m Lm) as [y Ey]. cbn [decode3_g otree_of spfs_table sdecode snd fst]. rewrite Ey.
      pose proof (HG _ (or_introl eq_refl) s m) as HGi. cbn [EV.TreeNode_id] in HGi. rewrite HGi.
      cbn [emap val]. rewrite tcell3_leaf. cbn [sread].
      destruct (ext_is_inf _).
      + exists []. split; [reflexivity|]. split; [intros x; cbn; tauto|intros d []].
      + eexists. split; [reflexivity|]. split.
        * cbn [map option_map]. unfold lt_at. cbn [fst snd ltree_of]. unfold SG.dict_fun, SG.dict_fun_syn. cbn [SG.dict_get].
          destruct (nid_eqb_spec i i); [|congruence]. intros x; tauto.
        * intros d [<-|[]]. cbn [fst snd map SG.TreeNode_postorder EV.TreeNode_id]. split; intros x; tauto.
    - remember (EV.TreeNode_node i a b) as t eqn:Et.
      assert (Hoka : ok S extended ro leafsp syn AS' (AM ro) false a) by (subst t; apply Hok).
      assert (Hokb : ok S extended ro leafsp syn AS' (AM ro) false b) by (subst t; apply Hok).
      assert (Ept : post t = post a ++ post b ++ [t]) by (subst t; reflexivity).
      assert (NDx : NoDup (oids (post a) ++ oids (post b) ++ [i])).
      { rewrite Ept, !map_app in NDt. subst t. exact NDt. }
      pose proof (NoDup_app_l3 _ _ NDx) as NDa. pose proof (NoDup_app_l3 _ _ (NoDup_app_r3 _ _ NDx)) as NDb.
      assert (HGa : forall u, In u (post a) -> forall x k, G (tid u) x k = emap tag_ca (TC ro u (x, k))).
      { intros u Hu. apply HG. rewrite Ept, !in_app_iff. now left. }
      assert (HGb : forall u, In u (post b) -> forall x k, G (tid u) x k = emap tag_ca (TC ro u (x, k))).
      { intros u Hu. apply HG. rewrite Ept, !in_app_iff. right. now left. }
      specialize (IHa false Hoka NDa HGa). specialize (IHb false Hokb NDb HGb).
      pose proof (tcell3_model_tags S c extended ro leafsp syn lev AS' (AM ro) t is_root s m lev_same Hh Hok) as PM.
      assert (Hlt : forall l r, In (l, r) (tags (TC ro t (s, m))) -> (snd l < B)%N /\ (snd r < B)%N).
      { intros l r H. subst t. exact (tcell3_tag_lt S c RALL ro leafsp syn lev AS' (AM ro) (std_lt ro) i a b (s, m) l r H). }
      assert (HGt : G i s m = emap tag_ca (TC ro t (s, m))).
      { replace i with (tid t) by (subst t; reflexivity). apply HG. rewrite Ept, !in_app_iff. right; right. now left. }
      destruct (from_mask_lt ro m Lm) as [y Ey].
      remember (fun info : ca => match SG.ChildrenAssignment_left info, SG.ChildrenAssignment_right info with
                              | Some l, Some r =>
                                  match decode3_g ord_infos ro G a (SG.ObjectAssignment_species l) (SG.ObjectAssignment_synteny l) with
                                  | None => None
                                  | Some dl =>
                                      match decode3_g ord_infos ro G b (SG.ObjectAssignment_species r) (SG.ObjectAssignment_synteny r) with
                                      | None => None
                                      | Some dr => Some (prod3 i s y dl dr)
                                      end
                                  end
                              | _, _ => Some []
                              end) as per eqn:Eper.
      assert (Edec : decode3_g ord_infos ro G t s m = ocat per (ord_infos (tags (G i s m)))).
      { subst t per. cbn [decode3_g]. rewrite Ey. reflexivity. }
      assert (Hper : forall l r, In (l, r) (tags (TC ro t (s, m))) ->
                exists dl dr, decode3_g ord_infos ro G a (fst l) (snd l) = Some dl /\ decode3_g ord_infos ro G b (fst r) (snd r) = Some dr /\
                  per (tag_ca (l, r)) = Some (prod3 i s y dl dr) /\
                  sameset (map (fun d => Some (lt_at a d)) dl) (sdecode ro (tblM false (OT a)) l) /\
                  sameset (map (fun d => Some (lt_at b d)) dr) (sdecode ro (tblM false (OT b)) r) /\
                  (forall d, In d dl -> sameset (map fst (fst d)) (oids (post a)) /\ sameset (map fst (snd d)) (oids (post a))) /\
                  (forall d, In d dr -> sameset (map fst (fst d)) (oids (post b)) /\ sameset (map fst (snd d)) (oids (post b)))).
      { intros l r H. destruct (Hlt l r H) as [Ll Lr].
        destruct (IHa l Ll) as [dl [E1 [S1 K1]]]. destruct (IHb r Lr) as [dr [E2 [S2 K2]]].
        exists dl, dr. split; [exact E1|]. split; [exact E2|]. split; [|auto].
        rewrite Eper. cbn [tag_ca oa_of SG.ChildrenAssignment_left SG.ChildrenAssignment_right SG.ObjectAssignment_species
                           SG.ObjectAssignment_synteny fst snd]. now rewrite E1, E2. }
      assert (Hin : forall info, In info (ord_infos (tags (G i s m))) <-> exists lr, info = tag_ca lr /\ In lr (tags (TC ro t (s, m)))).
      { intros info. rewrite (ord_same _ info), HGt. cbn [emap tags]. rewrite in_map_iff.
        split; intros [lr [E H]]; exists lr; auto. }
      destruct (ocat_some per (ord_infos (tags (G i s m)))) as [outs Eouts].
      { intros info Hi. apply Hin in Hi as [[l r] [-> H]]. destruct (Hper l r H) as [dl [dr [_ [_ [E _]]]]]. eauto. }
      exists outs. split; [now rewrite Edec|].
      pose proof (ocat_in per _ outs Eouts) as Iouts.
      assert (Emodel : forall x, In x (sdecode ro (tblM is_root (OT t)) (s, m)) <->
                exists l r oa ob, In (l, r) (tags (TC ro t (s, m))) /\ In oa (sdecode ro (tblM false (OT a)) l) /\
                  In ob (sdecode ro (tblM false (OT b)) r) /\
                  x = match oa, ob with Some la, Some lb => Some (LNode s y la lb) | _, _ => None end).
      { intros x. subst t. cbn [otree_of]. rewrite spfs_table_node. cbn [sdecode]. rewrite <- spfs_table_node.
        cbn [fst snd]. rewrite Ey. rewrite in_flat_map. split.
        - intros [[l r] [Ht H]]. apply in_flat_map in H as [oa [Ha H]]. apply in_map_iff in H as [ob [<- Hb]].
          exists l, r, oa, ob. cbn [fst snd] in *. split; [eapply Permutation_in; [apply Permutation_sym, PM|exact Ht]|]. auto.
        - intros [l [r [oa [ob [Ht [Ha [Hb ->]]]]]]]. exists (l, r). split; [eapply Permutation_in; [apply PM|exact Ht]|].
          apply in_flat_map. exists oa. split; [exact Ha|]. apply in_map_iff. exists ob. auto. }
      split; [|].
      + intros x. rewrite Emodel, in_map_iff. split.
        * intros [d [<- Hd]]. apply Iouts in Hd as [info [a' [Hi [Ea' Hd]]]].
          apply Hin in Hi as [[l r] [-> H]]. destruct (Hper l r H) as [dl [dr [_ [_ [E [S1 [S2 [K1 K2]]]]]]]].
          rewrite E in Ea'. inversion Ea'; subst a'. clear Ea'. unfold prod3 in Hd.
          apply in_flat_map in Hd as [d1 [H1 Hd]]. apply in_map_iff in Hd as [d2 [<- H2]].
          exists l, r, (Some (lt_at a d1)), (Some (lt_at b d2)). split; [exact H|]. split; [|split].
          -- apply S1. apply (in_map (fun d => Some (lt_at a d))). exact H1.
          -- apply S2. apply (in_map (fun d => Some (lt_at b d))). exact H2.
          -- f_equal. subst t. apply ltree_merge; [exact NDx|apply (K1 d1 H1)|apply (K1 d1 H1)|apply (K2 d2 H2)|apply (K2 d2 H2)].
        * intros [l [r [oa [ob [H [Ha [Hb ->]]]]]]]. destruct (Hper l r H) as [dl [dr [_ [_ [E [S1 [S2 [K1 K2]]]]]]]].
          pose proof (proj2 (S1 oa) Ha) as Ha'. pose proof (proj2 (S2 ob) Hb) as Hb'.
          apply in_map_iff in Ha' as [d1 [Eoa H1]]. apply in_map_iff in Hb' as [d2 [Eob H2]]. subst oa ob.
          exists (fst d2 ++ fst d1 ++ [(i, s)], snd d2 ++ snd d1 ++ [(i, y)]). split.
          -- f_equal. subst t. apply ltree_merge; [exact NDx|apply (K1 d1 H1)|apply (K1 d1 H1)|apply (K2 d2 H2)|apply (K2 d2 H2)].
          -- apply Iouts. exists (tag_ca (l, r)), (prod3 i s y dl dr). split; [apply Hin; eauto|]. split; [exact E|].
             unfold prod3. apply in_flat_map. exists d1. split; [exact H1|]. apply in_map_iff. exists d2. auto.
      + intros d Hd. apply Iouts in Hd as [info [a' [Hi [Ea' Hd]]]].
        apply Hin in Hi as [[l r] [-> H]]. destruct (Hper l r H) as [dl [dr [_ [_ [E [_ [_ [K1 K2]]]]]]]].
        rewrite E in Ea'. inversion Ea'; subst a'. clear Ea'. unfold prod3 in Hd.
        apply in_flat_map in Hd as [d1 [H1 Hd]]. apply in_map_iff in Hd as [d2 [<- H2]].
        destruct (K1 d1 H1) as [A1 A2]. destruct (K2 d2 H2) as [B1 B2]. rewrite Ept. cbn [fst snd].
        split; intros x; rewrite !map_app, !in_app_iff; [rewrite (A1 x), (B1 x)|rewrite (A2 x), (B2 x)]; subst t; cbn; tauto.
  Qed.
  End DecodeModel.

  (** L2 for the table of L1: every subtree of [O], with the flag [is_root] true exactly for [O] *)
  Lemma ok_sub ro t : forall is_root, ok S extended ro leafsp syn AS' (AM ro) is_root t ->
    forall u, In u (post t) -> u = t \/ ok S extended ro leafsp syn AS' (AM ro) false u.
  Proof.
    induction t as [i|i a IHa b IHb]; intros is_root H u Hu; cbn [SG.TreeNode_postorder] in Hu.
    - destruct Hu as [<-|[]]. now left.
    - rewrite !in_app_iff in Hu. cbn [ok] in H. destruct H as [_ [_ [Ha Hb]]]. destruct Hu as [Hu|[Hu|[<-|[]]]]; [| |now left].
      + right. destruct (IHa false Ha u Hu) as [->|H]; assumption.
      + right. destruct (IHb false Hb u Hu) as [->|H]; assumption.
  Qed.
  Lemma nodup_sub (t u : tree) : NoDup (oids (post t)) -> In u (post t) -> NoDup (oids (post u)).
  Proof.
    induction t as [i|i a IHa b IHb]; cbn [SG.TreeNode_postorder]; intros NDt Hu.
    - destruct Hu as [<-|[]]. exact NDt.
    - rewrite !in_app_iff in Hu. rewrite !map_app in NDt. destruct Hu as [Hu|[Hu|[<-|[]]]].
      + apply IHa; [eapply NoDup_app_l3; eauto|exact Hu].
      + apply IHb; [eapply NoDup_app_l3, NoDup_app_r3; eauto|exact Hu].
      + cbn [SG.TreeNode_postorder]. now rewrite !map_app.
  Qed.
  Lemma post_trans (t u v : tree) : In u (post t) -> In v (post u) -> In v (post t).
  Proof.
    induction t as [i|i a IHa b IHb]; cbn [SG.TreeNode_postorder]; intros H1 H2.
    - destruct H1 as [<-|[]]. exact H2.
    - rewrite !in_app_iff in *. destruct H1 as [H1|[H1|[<-|[]]]]; [left; eauto|right; left; eauto|].
      cbn [SG.TreeNode_postorder] in H2. rewrite !in_app_iff in H2. exact H2.
  Qed.

  Theorem decode_model3_table ro : exists tb, COMPUTE ro = SG.Ok tb /\
    forall u, In u (post O) -> forall k : sassign, (snd k < 2 ^ N.of_nat (length ro))%N ->
      exists outs, decode3_g ord_infos ro (gsem3 tb) u (fst k) (snd k) = Some outs /\
        (u = O -> sameset (map (fun d => Some (lt_at u d)) outs) (sdecode ro (spfs_table S c RALL extended ro true (OT u)) k)) /\
        (u <> O -> sameset (map (fun d => Some (lt_at u d)) outs) (sdecode ro (spfs_table S c RALL extended ro false (OT u)) k)).
  Proof.
    destruct (table_facts ro) as [tb [E [_ [_ [_ [_ HG]]]]]]. exists tb. split; [exact E|]. intros u Hu k Lk.
    assert (HGu : forall v, In v (post u) -> forall x m, gsem3 tb (tid v) x m = emap tag_ca (TC ro v (x, m))).
    { intros v Hv. apply HG. eapply post_trans; eauto. }
    pose proof (nodup_sub O u ND Hu) as NDu.
    destruct (ok_sub ro O true (ok_root ro) u Hu) as [->|Hok].
    - destruct (decode_model3 ro (gsem3 tb) O true (ok_root ro) NDu HGu k Lk) as [outs [Ed [Sd _]]].
      exists outs. split; [exact Ed|]. split; [intros _; exact Sd|congruence].
    - destruct (decode_model3 ro (gsem3 tb) u false Hok NDu HGu k Lk) as [outs [Ed [Sd _]]].
      exists outs. split; [exact Ed|]. split; [|intros _; exact Sd]. intros ->.
      destruct (decode_model3 ro (gsem3 tb) O true (ok_root ro) NDu HGu k Lk) as [outs' [Ed' [Sd' _]]].
      rewrite Ed in Ed'. inversion Ed'; subst outs'. exact Sd'.
  Qed.

  (** ** L3: the candidates *)
  Notation spout := (@SG.spout_state fam path lca node_id).
  Notation MKO := (mk_out lcaobj c leafsp syn O).
  Notation OCOSTS := (ocosts nid_eqb lcaobj c leafsp syn O missing missing_syn).
  Notation COST := (cost_of3 nid_eqb c leafsp syn O missing missing_syn).
  Notation SCANDS := (species_cands nid_eqb lcaobj c leafsp syn O ord_infos missing missing_syn).
  Notation ORES := (order_res nid_eqb lcaobj c RALL ST leafsp syn O ord_infos missing missing_syn AS AM).
  Notation sid := (@SG.STree_id path).

  (** the labelled tree an output denotes *)
  Definition lt_out (o : spout) : ltree :=
    ltree_of (SG.dict_fun nid_eqb missing (SG.spout_object_species o)) (SG.dict_fun_syn nid_eqb missing_syn (SG.spout_syntenies o)) O.
  Lemma lt_out_mk d : lt_out (MKO d) = lt_at O d.
  Proof. reflexivity. Qed.
  Lemma cost_lt_at d : COST d = total_cost c (OT O) true (lt_at O d).
  Proof. reflexivity. Qed.

  Lemma ocosts_ok outs a : OCOSTS outs = SG.Ok a ->
    (forall d, In d outs -> exists v, COST d = Some v) /\
    forall p, In p a <-> exists d v, In d outs /\ COST d = Some v /\ p = (v, Some (MKO d)).
  Proof.
    unfold ocosts. intros E. apply rcat_ok in E as [A Bq]. split.
    - intros d Hd. destruct (A d Hd) as [a' Ea]. destruct (COST d) as [v|]; [eauto|discriminate].
    - intros p. rewrite (Bq p). split.
      + intros [d [a' [Hd [Ea Hp]]]]. destruct (COST d) as [v|] eqn:Ec; [|discriminate]. inversion Ea; subst a'.
        destruct Hp as [<-|[]]. exists d, v. auto.
      + intros [d [v [Hd [Ec ->]]]]. exists d, [(v, Some (MKO d))]. split; [exact Hd|]. rewrite Ec. split; [reflexivity|now left].
  Qed.
  Lemma ocosts_err outs e : OCOSTS outs = SG.Err e -> exists d, In d outs /\ COST d = None.
  Proof.
    unfold ocosts. intros E. apply rcat_err in E as [d [Hd E]]. exists d. split; [exact Hd|].
    destruct (COST d); [discriminate|reflexivity].
  Qed.

  (** what one root ordering contributes, in the code and in the model *)
  Definition mcands (ro : list fam) (q : ext * option ltree) : Prop :=
    exists s lt v, In s (snodes S) /\
      In (Some lt) (sdecode ro (spfs_table S c RALL extended ro true (OT O)) (s, subseq_complete ro)) /\
      total_cost c (OT O) true lt = Some v /\ q = (v, Some lt).

  Lemma order_link ro :
    match ORES ro with
    | SG.Ok cs =>
        (forall s ot, In s (snodes S) ->
           In ot (sdecode ro (spfs_table S c RALL extended ro true (OT O)) (s, subseq_complete ro)) ->
           exists lt v, ot = Some lt /\ total_cost c (OT O) true lt = Some v) /\
        (forall q, In q (map (cmap lt_out) cs) <-> mcands ro q)
    | SG.Err e =>
        e = SG.AssertionError /\
        exists s lt, In s (snodes S) /\
          In (Some lt) (sdecode ro (spfs_table S c RALL extended ro true (OT O)) (s, subseq_complete ro)) /\
          total_cost c (OT O) true lt = None
    end.
  Proof.
    destruct (table_facts ro) as [tb [E [I [Ht [Hl [Hm HG]]]]]]. unfold order_res. rewrite E. unfold order_cands.
    assert (HX : forall x, exists outs, SCANDS (gsem3 tb) ro x = OCOSTS outs /\
               sameset (map (fun d => Some (lt_at O d)) outs)
                       (sdecode ro (spfs_table S c RALL extended ro true (OT O)) (sid x, subseq_complete ro))).
    { intros x. destruct (decode_model3 ro (gsem3 tb) O true (ok_root ro) ND HG (sid x, subseq_complete ro) (complete_lt ro))
        as [outs [Ed [Sd _]]]. cbn [fst snd] in Ed. exists outs. split; [|exact Sd]. unfold species_cands. now rewrite Ed. }
    assert (Hsp : forall s, In s (snodes S) <-> exists x, In x (SG.STree_levelorder ST) /\ sid x = s).
    { intros s. rewrite <- (lev_same s). unfold sids3. rewrite in_map_iff. split; intros [x [H1 H2]]; exists x; auto. }
    match goal with |- match rcat ?f ?l with SG.Ok _ => _ | SG.Err _ => _ end => destruct (rcat f l) as [cs|e] eqn:ER end.
    - apply rcat_ok in ER as [Aok Bq]. split.
      + intros s ot Hs Hot. apply Hsp in Hs as [x [Hx <-]]. destruct (HX x) as [outs [Es Sd]].
        pose proof (proj2 (Sd ot) Hot) as Hot'. apply in_map_iff in Hot' as [d [Eot Hd]]. subst ot. destruct (Aok x Hx) as [a Ea]. rewrite Es in Ea.
        apply ocosts_ok in Ea as [Ac _]. destruct (Ac d Hd) as [v Ev]. exists (lt_at O d), v. split; [reflexivity|]. now rewrite <- cost_lt_at.
      + intros q. rewrite in_map_iff. split.
        * intros [p [<- Hp]]. apply Bq in Hp as [x [a [Hx [Ea Hp]]]]. destruct (HX x) as [outs [Es Sd]]. rewrite Es in Ea.
          apply ocosts_ok in Ea as [_ Ia]. apply Ia in Hp as [d [v [Hd [Ev ->]]]].
          exists (sid x), (lt_at O d), v. split; [apply Hsp; eauto|]. split; [|split; [now rewrite <- cost_lt_at|reflexivity]].
          apply Sd. apply (in_map (fun d => Some (lt_at O d))). exact Hd.
        * intros [s [lt [v [Hs [Hlt [Ev ->]]]]]]. apply Hsp in Hs as [x [Hx <-]]. destruct (HX x) as [outs [Es Sd]].
          pose proof (proj2 (Sd _) Hlt) as Hlt'. apply in_map_iff in Hlt' as [d [Ed Hd]]. inversion Ed; subst lt. destruct (Aok x Hx) as [a Ea].
          exists (v, Some (MKO d)). split; [reflexivity|]. apply Bq. exists x, a. split; [exact Hx|]. split; [exact Ea|].
          rewrite Es in Ea. apply ocosts_ok in Ea as [_ Ia]. apply Ia. exists d, v. rewrite cost_lt_at. auto.
    - pose proof ER as ER'. apply rcat_err in ER as [x [Hx Ex]]. destruct (HX x) as [outs [Es Sd]]. rewrite Es in Ex.
      split.
      + unfold ocosts in Ex. apply rcat_err in Ex as [d [_ Ex]]. destruct (COST d); [discriminate|]. now inversion Ex.
      + apply ocosts_err in Ex as [d [Hd Ec]]. exists (sid x), (lt_at O d). split; [apply Hsp; eauto|]. split; [|now rewrite <- cost_lt_at].
        apply Sd. apply (in_map (fun d => Some (lt_at O d))). exact Hd.
  Qed.

  Section Orders.
  Variable orders : list (list fam).
  Notation MC := (spfs_candidates S c RALL extended orders (OT O)).

  (** the candidates of the code (all root orderings, every species of the species tree in level order, every decoded
      output with its cost), read as labelled trees, against the candidates of the model; the code fails (on the
      AssertionError of the evaluator) iff some candidate of the model is [None] *)
  Theorem candidates_model3 :
    match rcat ORES orders with
    | SG.Ok cs => exists l', all_some MC = Some l' /\ csim RALL (map (cmap lt_out) cs) l'
    | SG.Err e => e = SG.AssertionError /\ all_some MC = None
    end.
  Proof.
    destruct (rcat ORES orders) as [cs|e] eqn:ER.
    - apply rcat_ok in ER as [Aok Bq].
      assert (Hsome : forall x, In x MC -> exists y, x = Some y).
      { intros x Hx. apply in_spfs_candidates in Hx as [ro [s [ot [Hro [Hs [Hot ->]]]]]].
        destruct (Aok ro Hro) as [a Ea]. pose proof (order_link ro) as OL. rewrite Ea in OL. destruct OL as [OL _].
        destruct (OL s ot Hs Hot) as [lt [v [-> Ev]]]. rewrite Ev. cbn [option_map]. eauto. }
      destruct (all_some_spec MC Hsome) as [l' [El Il]]. exists l'. split; [exact El|].
      assert (HC : forall q, In q (map (cmap lt_out) cs) <-> exists ro, In ro orders /\ mcands ro q).
      { intros q. rewrite in_map_iff. split.
        - intros [p [<- Hp]]. apply Bq in Hp as [ro [a [Hro [Ea Hp]]]]. exists ro. split; [exact Hro|].
          pose proof (order_link ro) as OL. rewrite Ea in OL. destruct OL as [_ OL]. apply OL. now apply in_map.
        - intros [ro [Hro Hq]]. destruct (Aok ro Hro) as [a Ea]. pose proof (order_link ro) as OL. rewrite Ea in OL.
          destruct OL as [_ OL]. pose proof (proj2 (OL q) Hq) as Hq'. apply in_map_iff in Hq' as [p [Ep Hp]]. subst q. exists p. split; [reflexivity|]. apply Bq. eauto. }
      assert (HM : forall q, In q l' <-> exists ro, In ro orders /\ mcands ro q).
      { intros q. rewrite (Il q), in_spfs_candidates. split.
        - intros [ro [s [ot [Hro [Hs [Hot Eq]]]]]]. exists ro. split; [exact Hro|]. destruct ot as [lt|]; [|discriminate].
          destruct (total_cost c (OT O) true lt) as [v|] eqn:Ev; [|discriminate]. cbn [option_map] in Eq. inversion Eq; subst q.
          exists s, lt, v. auto.
        - intros [ro [Hro [s [lt [v [Hs [Hlt [Ev ->]]]]]]]]. exists ro, s, (Some lt). rewrite Ev. cbn [option_map]. auto. }
      apply csim_of_sameset.
      + intros v o Hq. apply HC in Hq as [ro [_ [s [lt [w [_ [_ [_ Eq]]]]]]]]. inversion Eq. eauto.
      + intros v o Hq. apply HM in Hq as [ro [_ [s [lt [w [_ [_ [_ Eq]]]]]]]]. inversion Eq. eauto.
      + intros q. now rewrite HC, HM.
    - apply rcat_err in ER as [ro [Hro Ero]]. pose proof (order_link ro) as OL. rewrite Ero in OL.
      destruct OL as [-> [s [lt [Hs [Hlt Ev]]]]]. split; [reflexivity|]. apply all_some_none.
      apply in_spfs_candidates. exists ro, s, (Some lt). rewrite Ev. cbn [option_map]. auto.
  Qed.

  (** ** L4: [_spfs] with the two callbacks *)
  Variable oeqb : spout -> spout -> bool.
  Hypothesis sloss_nn : 0 <= c_sloss c.
  Hypothesis oeqb_lt : forall a b, ltree_eqb (lt_out a) (lt_out b) = oeqb a b.
  Variables (syn_mem : (node_id -> list fam) -> node_id -> bool) (syn_items : (node_id -> list fam) -> list (fam * list fam))
            (set_order : list fam -> list fam) (graph_of_prec : list (fam * list fam) -> list (fam * list fam))
            (find_cycle_fn : list (fam * list fam) -> list fam).
  Hypothesis Ho : spfs_orders syn O syn_mem syn_items set_order graph_of_prec orders.
  Notation SPFS := (SG.gen_spfs fam_eqb path_eqb nid_eqb ANC LCP DIST (fun _ => ST) SANC COMP oeqb missing missing_syn ord_infos
                      syn_mem syn_items set_order graph_of_prec find_cycle_fn sin (prc RALL) AS AM).

  Lemma tables_ok_all : tables_ok nid_eqb lcaobj c RALL ST leafsp syn O AS AM orders.
  Proof.
    intros ro tb _ Ec. destruct (table_facts ro) as [tb' [E' [I [Ht [Hl _]]]]]. rewrite E' in Ec. inversion Ec; subst tb'. auto.
  Qed.

  Theorem gen_spfs_model :
    match spfs S c RALL extended orders (OT O) with
    | None => SPFS = SG.Err SG.AssertionError
    | Some e => exists outs, SPFS = SG.Ok outs /\ Permutation (map lt_out outs) (tags e)
    end.
  Proof.
    rewrite (gen_spfs_exact nid_eqb nid_eqb_spec lcaobj c RALL ST leafsp syn O ord_infos ord_incl oeqb missing missing_syn sloss_nn
               syn_mem syn_items set_order graph_of_prec find_cycle_fn AS AM orders Ho tables_ok_all).
    pose proof candidates_model3 as C. unfold spfs.
    destruct (rcat ORES orders) as [cs|e].
    - destruct C as [l' [El C]]. rewrite El. cbn [option_map]. eexists. split; [reflexivity|].
      apply (upd_sim ltree_eqb ltree_eqb_spec) in C as [_ [_ Ss]]. specialize (Ss eq_refl).
      pose proof (update_emap oeqb ltree_eqb lt_out oeqb_lt MIN RALL cs (default_entry MIN)) as E2.
      change (emap lt_out (default_entry MIN)) with (@default_entry ltree MIN) in E2.
      rewrite E2 in Ss. cbn [emap tags] in Ss.
      apply NoDup_Permutation; [| |exact Ss].
      + match goal with |- NoDup (map ?f (tags ?e)) => change (NoDup (tags (emap f e))) end.
        rewrite <- E2. apply (entry_tags_all_nodup ltree_eqb ltree_eqb_spec).
      + apply (entry_tags_all_nodup ltree_eqb ltree_eqb_spec).
    - destruct C as [-> El]. now rewrite El.
  Qed.
  End Orders.
End Link.

(* ------------------------------------------------------------------ *)
(** * Part C: the two entry points *)
Lemma perm_map_nil {X Y} (f : X -> Y) (l : list X) (l' : list Y) : Permutation (map f l) l' -> (l = [] <-> l' = []).
Proof.
  intros P. split.
  - intros ->. now apply Permutation_nil in P.
  - intros ->. apply Permutation_sym, Permutation_nil in P. now destruct l.
Qed.

Section Final.
  Context {lca node_id : Type} (nid_eqb : node_id -> node_id -> bool).
  Hypothesis nid_eqb_spec : forall a b, reflect (a = b) (nid_eqb a b).
  Notation tree := (EV.TreeNode node_id).
  Notation spout := (@SG.spout_state fam path lca node_id).
  Notation oids l := (map (@EV.TreeNode_id node_id) l).
  Variables (lcaobj : lca) (S : stree) (c : costs) (leafsp : node_id -> path) (syn : node_id -> list fam) (O : tree).
  Variables (missing : node_id -> path) (missing_syn : node_id -> list fam) (ord_infos : list ca -> list ca).
  Variable oeqb : spout -> spout -> bool.
  Variables (syn_mem : (node_id -> list fam) -> node_id -> bool) (syn_items : (node_id -> list fam) -> list (fam * list fam))
            (set_order : list fam -> list fam) (graph_of_prec : list (fam * list fam) -> list (fam * list fam))
            (find_cycle_fn : list (fam * list fam) -> list fam).
  Variable orders : list (list fam).
  Notation ST := (sembed3 S []).
  Notation OT := (otree_of leafsp syn).
  Notation sin := (EV.mk_sin O lcaobj leafsp (stsocc c) syn).
  Notation DIST := (fun (_ : lca) => dist).
  Notation ANC := (fun (_ : lca) => anc).
  Notation SANC := (fun (_ : lca) => sanc).
  Notation COMP := (fun (_ : lca) => comparable).
  Notation LCP := (fun (_ : lca) => lcp).
  Notation LT := (lt_out nid_eqb O missing missing_syn).

  (** the well-formedness hypotheses W *)
  Definition W : Prop :=
    nn (c_hgt c) /\ 0 <= c_sloss c /\
    NoDup (oids (SG.TreeNode_postorder O)) /\
    leaves_ok S (OT O) /\
    (forall l, sameset (ord_infos l) l) /\
    (forall a b : spout, ltree_eqb (LT a) (LT b) = oeqb a b).

  Lemma leaves_ok_sub (t u : tree) : leaves_ok S (OT t) -> In u (SG.TreeNode_postorder t) -> leaves_ok S (OT u).
  Proof.
    induction t as [i|i a IHa b IHb]; cbn [SG.TreeNode_postorder]; intros L H.
    - destruct H as [<-|[]]. exact L.
    - cbn [otree_of leaves_ok] in L. destruct L as [La Lb]. rewrite !in_app_iff in H.
      destruct H as [H|[H|[<-|[]]]]; [auto|auto|]. cbn [otree_of leaves_ok]. auto.
  Qed.

  (** [sreconcile_extended_spfs] *)
  Theorem gen_sreconcile_extended_spfs_model : W ->
    spfs_orders syn O syn_mem syn_items set_order graph_of_prec orders ->
    match spfs S c RALL true orders (OT O) with
    | None =>
        SG.gen_sreconcile_extended_spfs fam_eqb path_eqb nid_eqb ANC LCP DIST (fun _ => ST) SANC COMP oeqb missing missing_syn ord_infos
          syn_mem syn_items set_order graph_of_prec find_cycle_fn sin (prc RALL) = SG.Err SG.AssertionError
    | Some e =>
        exists outs,
          SG.gen_sreconcile_extended_spfs fam_eqb path_eqb nid_eqb ANC LCP DIST (fun _ => ST) SANC COMP oeqb missing missing_syn ord_infos
            syn_mem syn_items set_order graph_of_prec find_cycle_fn sin (prc RALL) = SG.Ok outs /\
          Permutation (map LT outs) (tags e) /\ (outs = [] <-> tags e = [])
    end.
  Proof.
    intros [Hh [Hs [ND [Lv [Hord Heq]]]]] Ho. rewrite gen_sreconcile_extended_spfs_eq.
    pose proof (gen_spfs_model nid_eqb nid_eqb_spec lcaobj S c leafsp syn O missing missing_syn ord_infos true
                  (fun (species : @SG.STree path) (_ : tree) => SG.STree_postorder species) Hh ND Lv Hord) as M.
    specialize (M ltac:(intros u _ _; split; [apply post_rs_ok|split; [apply post_nodup|apply post_sameset]])
                  orders oeqb Hs Heq syn_mem syn_items set_order graph_of_prec find_cycle_fn Ho).
    destruct (spfs S c RALL true orders (OT O)) as [e|]; [|exact M].
    destruct M as [outs [E P]]. exists outs. split; [exact E|]. split; [exact P|]. exact (perm_map_nil _ _ _ P).
  Qed.

  (** [sreconcile_base_spfs] *)
  Theorem gen_sreconcile_base_spfs_model : W ->
    spfs_orders syn O syn_mem syn_items set_order graph_of_prec orders ->
    match spfs S c RALL false orders (OT O) with
    | None =>
        SG.gen_sreconcile_base_spfs fam_eqb path_eqb nid_eqb ANC LCP DIST (fun _ => ST) SANC COMP oeqb missing missing_syn ord_infos
          syn_mem syn_items set_order graph_of_prec find_cycle_fn sin (prc RALL) = SG.Err SG.AssertionError
    | Some e =>
        exists outs,
          SG.gen_sreconcile_base_spfs fam_eqb path_eqb nid_eqb ANC LCP DIST (fun _ => ST) SANC COMP oeqb missing missing_syn ord_infos
            syn_mem syn_items set_order graph_of_prec find_cycle_fn sin (prc RALL) = SG.Ok outs /\
          Permutation (map LT outs) (tags e) /\ (outs = [] <-> tags e = [])
    end.
  Proof.
    intros [Hh [Hs [ND [Lv [Hord Heq]]]]] Ho.
    destruct (gen_sreconcile_base_spfs_eq nid_eqb nid_eqb_spec lcaobj c RALL ST leafsp syn O ord_infos oeqb missing missing_syn
                syn_mem syn_items set_order graph_of_prec find_cycle_fn ND) as [d [Hd E]].
    rewrite E.
    pose proof (gen_spfs_model nid_eqb nid_eqb_spec lcaobj S c leafsp syn O missing missing_syn ord_infos false
                  (fun (_ : @SG.STree path) (obj : tree) => SG.base_species path_eqb nid_eqb ST d obj) Hh ND Lv Hord) as M.
    assert (HAS : forall u, In u (SG.TreeNode_postorder O) -> EV.TreeNode_is_leaf u = false ->
              (forall rs, In rs (SG.base_species path_eqb nid_eqb ST d u) -> rs_ok S rs) /\
              NoDup (sids3 (SG.base_species path_eqb nid_eqb ST d u)) /\
              sameset (sids3 (SG.base_species path_eqb nid_eqb ST d u)) (allowed_species S false (OT u))).
    { intros u Hu _. pose proof (leaves_ok_sub O u Lv Hu) as Lu.
      pose proof (allowed_species_valid S false (OT u) (root (lca_rec (OT u))) Lu (or_introl eq_refl)) as V.
      apply snodes_valid, (post_sameset S) in V. destruct (find_sid _ _ V) as [rs [E1 [E2 E3]]].
      rewrite (base_species_eq nid_eqb ST d u _ rs (Hd u Hu) E1). split; [|split].
      - intros rs' [<-|[]]. now apply post_rs_ok.
      - cbn. constructor; [intros []|constructor].
      - cbn [sids3 map allowed_species]. rewrite E3. intros x; tauto. }
    specialize (M HAS orders oeqb Hs Heq syn_mem syn_items set_order graph_of_prec find_cycle_fn Ho).
    destruct (spfs S c RALL false orders (OT O)) as [e|]; [|exact M].
    destruct M as [outs [E' P]]. exists outs. split; [exact E'|]. split; [exact P|]. exact (perm_map_nil _ _ _ P).
  Qed.
End Final.

(* ------------------------------------------------------------------ *)
(** * Part D: the hypotheses are satisfiable: two leaves whose syntenies share a family, a species tree with two leaves *)
Module Ex.
  Definition S0 : stree := SNode SLeaf SLeaf.
  Definition c0 : costs := {| c_spe := 0; c_dup := 1; c_hgt := Fin 1; c_floss := 1; c_sloss := 1 |}.
  Definition O0 : EV.TreeNode nat := EV.TreeNode_node 0%nat (EV.TreeNode_leaf 1%nat) (EV.TreeNode_leaf 2%nat).
  Definition leafsp0 (i : nat) : path := if Nat.eqb i 1 then [false] else [true].
  Definition syn0 (i : nat) : list fam := if Nat.eqb i 1 then [1; 2]%N else [2; 3]%N.
  Definition miss0 (_ : nat) : path := [].
  Definition msyn0 (_ : nat) : list fam := [].
  Definition ord0 (l : list ca) : list ca := l.
  Definition oeqb0 (a b : @SG.spout_state fam path unit nat) : bool :=
    ltree_eqb (lt_out Nat.eqb O0 miss0 msyn0 a) (lt_out Nat.eqb O0 miss0 msyn0 b).
  Definition syn_mem0 (_ : nat -> list fam) (_ : nat) : bool := false.
  Definition syn_items0 (d : nat -> list fam) : list (fam * list fam) := [(1%N, d 1%nat); (2%N, d 2%nat)].
  Definition set_order0 (l : list fam) : list fam := l.
  Definition graph0 (g : list (fam * list fam)) : list (fam * list fam) := g.

  Example W_satisfiable : W Nat.eqb S0 c0 leafsp0 syn0 O0 miss0 msyn0 ord0 oeqb0.
  Proof.
    unfold W. split; [discriminate|]. split; [vm_compute; discriminate|]. split; [|split; [|split]].
    - cbn. repeat constructor; cbn; intuition discriminate.
    - cbn. split; reflexivity.
    - intros l x. unfold ord0. tauto.
    - intros a b. reflexivity.
  Qed.

  Example orders_satisfiable : exists orders, orders <> [] /\ spfs_orders syn0 O0 syn_mem0 syn_items0 set_order0 graph0 orders.
  Proof.
    eexists. split; [|unfold spfs_orders; cbn [syn_mem0]; eexists; split; vm_compute; reflexivity]. discriminate.
  Qed.

  (** the instance evaluated: the root orderings, the model and the generated code (three solutions of cost 2 for the
      extended variant, one for the base variant), and the two theorems applied to it *)
  Definition orders0 : list (list fam) := [[1; 2; 3]%N].
  Example orders0_ok : spfs_orders syn0 O0 syn_mem0 syn_items0 set_order0 graph0 orders0.
  Proof. unfold spfs_orders. cbn [syn_mem0]. eexists. split; vm_compute; reflexivity. Qed.

  Notation GEN_EXT := (SG.gen_sreconcile_extended_spfs fam_eqb path_eqb Nat.eqb (fun _ : unit => anc) (fun _ => lcp) (fun _ => dist)
                         (fun _ => sembed3 S0 []) (fun _ => sanc) (fun _ => comparable) oeqb0 miss0 msyn0 ord0
                         syn_mem0 syn_items0 set_order0 graph0 (fun _ => []) (EV.mk_sin O0 tt leafsp0 (stsocc c0) syn0) (prc RALL)).
  Notation GEN_BASE := (SG.gen_sreconcile_base_spfs fam_eqb path_eqb Nat.eqb (fun _ : unit => anc) (fun _ => lcp) (fun _ => dist)
                         (fun _ => sembed3 S0 []) (fun _ => sanc) (fun _ => comparable) oeqb0 miss0 msyn0 ord0
                         syn_mem0 syn_items0 set_order0 graph0 (fun _ => []) (EV.mk_sin O0 tt leafsp0 (stsocc c0) syn0) (prc RALL)).
  Notation LT0 := (lt_out Nat.eqb O0 miss0 msyn0).

  Example instance_extended_evaluated :
    option_map (@tags ltree) (spfs S0 c0 RALL true orders0 (otree_of leafsp0 syn0 O0)) =
      Some [LNode [] [1; 2; 3]%N (LLeaf [false] [1; 2]%N) (LLeaf [true] [2; 3]%N);
            LNode [false] [1; 2; 3]%N (LLeaf [false] [1; 2]%N) (LLeaf [true] [2; 3]%N);
            LNode [true] [1; 2; 3]%N (LLeaf [false] [1; 2]%N) (LLeaf [true] [2; 3]%N)] /\
    match GEN_EXT with SG.Ok outs => Some (map LT0 outs) | SG.Err _ => None end =
      Some [LNode [] [1; 2; 3]%N (LLeaf [false] [1; 2]%N) (LLeaf [true] [2; 3]%N);
            LNode [false] [1; 2; 3]%N (LLeaf [false] [1; 2]%N) (LLeaf [true] [2; 3]%N);
            LNode [true] [1; 2; 3]%N (LLeaf [false] [1; 2]%N) (LLeaf [true] [2; 3]%N)].
  Proof. split; vm_compute; reflexivity. Qed.

  Example instance_extended_theorem : exists outs, GEN_EXT = SG.Ok outs /\ length outs = 3%nat.
  Proof.
    pose proof (gen_sreconcile_extended_spfs_model Nat.eqb Nat.eqb_spec tt S0 c0 leafsp0 syn0 O0 miss0 msyn0 ord0 oeqb0
                  syn_mem0 syn_items0 set_order0 graph0 (fun _ => []) orders0 W_satisfiable orders0_ok) as M.
    remember (spfs S0 c0 RALL true orders0 (otree_of leafsp0 syn0 O0)) as r eqn:Er. vm_compute in Er. subst r.
    destruct M as [outs [E [P _]]]. exists outs. split; [exact E|].
    apply Permutation_length in P. rewrite map_length in P. exact P.
  Qed.

  Example instance_base_theorem : exists outs, GEN_BASE = SG.Ok outs /\ length outs = 1%nat.
  Proof.
    pose proof (gen_sreconcile_base_spfs_model Nat.eqb Nat.eqb_spec tt S0 c0 leafsp0 syn0 O0 miss0 msyn0 ord0 oeqb0
                  syn_mem0 syn_items0 set_order0 graph0 (fun _ => []) orders0 W_satisfiable orders0_ok) as M.
    remember (spfs S0 c0 RALL false orders0 (otree_of leafsp0 syn0 O0)) as r eqn:Er. vm_compute in Er. subst r.
    destruct M as [outs [E [P _]]]. exists outs. split; [exact E|].
    apply Permutation_length in P. rewrite map_length in P. exact P.
  Qed.
End Ex.

Print Assumptions table_facts.
Print Assumptions decode_model3.
Print Assumptions decode_model3_table.
Print Assumptions candidates_model3.
Print Assumptions gen_spfs_model.
Print Assumptions gen_sreconcile_extended_spfs_model.
Print Assumptions gen_sreconcile_base_spfs_model.
Print Assumptions Ex.W_satisfiable.
Print Assumptions Ex.orders_satisfiable.
Print Assumptions Ex.instance_extended_evaluated.
Print Assumptions Ex.instance_extended_theorem.
Print Assumptions Ex.instance_base_theorem.
End SpfsLink.

(* ====================================================================== *)
Module Rename.
(** The generated functions [Prec.gen_make_prec_graph] (Gen/SpfsGen.v) and [gen_toposort_all]
    (Gen/ToposortGen.v) are polymorphic in the type of elements and use only an equality test (and, for the
    second, the iteration order of sets): they commute with an INJECTIVE renaming [f] of the elements.

    - [prec_rename] (R1), [toposort_all_rename] (R2): for any [f] with [eqB (f a) (f b) = eqA a b];
    - [prec_rename_N], [toposort_all_rename_N] (R3): the instance [f := N.of_nat]. *)


Import ListNotations.
Module G := SR.Gen.ToposortGen.
Module P := SR.Gen.SpfsGen.Prec.

(* ------------------------------------------------------------------ *)
(** * Results and loop results mapped through a function *)

Definition pmap {X Y : Type} (g : X -> Y) (r : P.res X) : P.res Y :=
  match r with P.Ok x => P.Ok (g x) | P.Err e => P.Err e end.
Definition gmap {X Y : Type} (g : X -> Y) (r : G.res X) : G.res Y :=
  match r with G.Ok x => G.Ok (g x) | G.Err e => G.Err e end.

Definition fmapP {S R S' R' : Type} (gs : S -> S') (gr : R -> R') (x : P.flow S R) : P.flow S' R' :=
  match x with P.Next s => P.Next (gs s) | P.Ret r => P.Ret (gr r) | P.Fail e => P.Fail e end.
Definition fmapG {S R S' R' : Type} (gs : S -> S') (gr : R -> R') (x : G.flow S R) : G.flow S' R' :=
  match x with G.Next s => G.Next (gs s) | G.Ret r => G.Ret (gr r) | G.Fail e => G.Fail e end.

(* ------------------------------------------------------------------ *)
(** * The loop [for node_from in starts] of [_toposort_all_bt], a local [fix] in the generated text *)

Fixpoint gloop {A : Type} (eqb : A -> A -> bool) (ord : list A -> list A) (fuel : nat) (g : list (A * list A))
    (starts : list A) (it : list A) (indeg : list (A * Z)) (results : list (list A))
    : G.flow (list (A * Z) * list (list A)) (list (A * Z) * list (list A)) :=
  match it with
  | [] => G.Next (indeg, results)
  | node_from :: it' =>
      match G.seq_remove eqb node_from starts with
      | None => G.Fail G.KeyError
      | Some next_starts =>
          match G.adict_get eqb g node_from with
          | None => G.Fail G.KeyError
          | Some succs =>
              match G.gen__toposort_all_bt_for2 eqb succs indeg next_starts with
              | G.Next (indeg, next_starts) =>
                  match G.gen__toposort_all_bt_rec eqb ord fuel next_starts g indeg with
                  | G.Err e => G.Fail e
                  | G.Ok (indeg, subresults) =>
                      match G.gen__toposort_all_bt_for3 node_from subresults results with
                      | G.Next results =>
                          match G.adict_get eqb g node_from with
                          | None => G.Fail G.KeyError
                          | Some succs' =>
                              match G.gen__toposort_all_bt_for4 eqb succs' indeg with
                              | G.Next indeg => gloop eqb ord fuel g starts it' indeg results
                              | G.Ret r => G.Ret r
                              | G.Fail e => G.Fail e
                              end
                          end
                      | G.Ret r => G.Ret r
                      | G.Fail e => G.Fail e
                      end
                  end
              | G.Ret r => G.Ret r
              | G.Fail e => G.Fail e
              end
          end
      end
  end.

Lemma bt_rec_unfold {A : Type} (eqb : A -> A -> bool) (ord : list A -> list A) fuel starts g indeg :
  G.gen__toposort_all_bt_rec eqb ord (S fuel) starts g indeg =
    if negb (negb (G.is_empty starts)) then G.Ok (indeg, [[]])
    else match gloop eqb ord fuel g starts (ord starts) indeg [] with
         | G.Next (indeg, results) => G.Ok (indeg, results)
         | G.Ret r => G.Ok r
         | G.Fail e => G.Err e
         end.
Proof.
  cbn [G.gen__toposort_all_bt_rec]. destruct (negb (negb (G.is_empty starts))); [reflexivity|].
  match goal with |- match ?a with _ => _ end = match ?b with _ => _ end => assert (a = b) as -> end; [|reflexivity].
  generalize (@nil (list A)) as results. generalize indeg as indeg0.
  induction (ord starts) as [|node_from it IH]; intros indeg0 results; [reflexivity|].
  cbn [gloop].
  destruct (G.seq_remove eqb node_from starts) as [next_starts|]; [|reflexivity].
  destruct (G.adict_get eqb g node_from) as [succs|]; [|reflexivity].
  destruct (G.gen__toposort_all_bt_for2 eqb succs indeg0 next_starts) as [[indeg1 next_starts1]|r|e]; try reflexivity.
  destruct (G.gen__toposort_all_bt_rec eqb ord fuel next_starts1 g indeg1) as [[indeg2 subresults]|e]; try reflexivity.
  destruct (G.gen__toposort_all_bt_for3 node_from subresults results) as [results1|r|e]; try reflexivity.
  destruct (G.gen__toposort_all_bt_for4 eqb succs indeg2) as [indeg3|r|e]; try reflexivity.
  apply IH.
Qed.

(* ------------------------------------------------------------------ *)
(** * Lists and maps *)

Lemma removelast_map {X Y : Type} (h : X -> Y) (l : list X) : removelast (map h l) = map h (removelast l).
Proof.
  induction l as [|x l IH]; [reflexivity|]. destruct l as [|y l]; [reflexivity|].
  cbn [map removelast] in IH |- *. now rewrite IH.
Qed.

Lemma combine_map {X Y : Type} (h : X -> Y) (a b : list X) :
  combine (map h a) (map h b) = map (fun p => (h (fst p), h (snd p))) (combine a b).
Proof.
  revert b. induction a as [|x a IH]; intros b; [reflexivity|]. destruct b as [|y b]; [reflexivity|].
  cbn [map combine fst snd]. now rewrite IH.
Qed.

Lemma list_set_map {X Y : Type} (h : X -> Y) (l : list X) i v :
  G.list_set (map h l) i (h v) = option_map (map h) (G.list_set l i v).
Proof.
  revert i. induction l as [|x l IH]; intros i; [reflexivity|]. destruct i as [|i]; [reflexivity|].
  cbn [map G.list_set]. rewrite IH. destruct (G.list_set l i v); reflexivity.
Qed.

Lemma is_empty_map {X Y : Type} (h : X -> Y) (l : list X) : G.is_empty (map h l) = G.is_empty l.
Proof. destruct l; reflexivity. Qed.

Lemma zget_map {X Y : Type} (h : X -> Y) (l : list X) i : P.zget (map h l) i = option_map h (P.zget l i).
Proof.
  unfold P.zget, P.zpos. rewrite map_length.
  destruct (Z.leb 0 i); [apply nth_error_map|].
  destruct (Z.leb 0 (Z.of_nat (length l) + i)); [apply nth_error_map|reflexivity].
Qed.

(* ------------------------------------------------------------------ *)
Section Rename.
  Context {A B : Type} (eqA : A -> A -> bool) (eqB : B -> B -> bool) (f : A -> B).
  Hypothesis eq_f : forall a b, eqB (f a) (f b) = eqA a b.

  (** an item of a dictionary of successor sets, renamed on both sides; an item of any dictionary, renamed on
      the key; a pair of elements *)
  Definition rn (kv : A * list A) : B * list B := (f (fst kv), map f (snd kv)).
  Definition rk {V : Type} (kv : A * V) : B * V := (f (fst kv), snd kv).
  Definition pp (p : A * A) : B * B := (f (fst p), f (snd p)).

  (* ---------------------------------------------------------------- *)
  (** ** The helpers of [Module Prec] *)

  Lemma P_get_rn (d : list (A * list A)) k :
    P.adict_get eqB (map rn d) (f k) = option_map (map f) (P.adict_get eqA d k).
  Proof.
    induction d as [|[k' v] d IH]; [reflexivity|].
    cbn [map rn fst snd P.adict_get]. rewrite (eq_f k k'). destruct (eqA k k'); [reflexivity|apply IH].
  Qed.

  Lemma P_set_rn (d : list (A * list A)) k v :
    P.adict_set eqB (map rn d) (f k) (map f v) = map rn (P.adict_set eqA d k v).
  Proof.
    induction d as [|[k' v'] d IH]; [reflexivity|].
    cbn [map rn fst snd P.adict_set]. rewrite (eq_f k k'). destruct (eqA k k'); [reflexivity|].
    cbn [map rn fst snd]. now rewrite IH.
  Qed.

  Lemma P_set_nil_rn (d : list (A * list A)) k :
    P.adict_set eqB (map rn d) (f k) [] = map rn (P.adict_set eqA d k []).
  Proof. exact (P_set_rn d k []). Qed.

  Lemma P_mem_rn (d : list (A * list A)) k : P.adict_mem eqB (map rn d) (f k) = P.adict_mem eqA d k.
  Proof. unfold P.adict_mem. rewrite (P_get_rn d k). destruct (P.adict_get eqA d k); reflexivity. Qed.

  Lemma P_set_mem_rn x s : P.set_mem eqB (f x) (map f s) = P.set_mem eqA x s.
  Proof.
    induction s as [|y s IH]; [reflexivity|]. cbn [map P.set_mem]. now rewrite (eq_f x y), IH.
  Qed.

  Lemma P_set_add_rn x s : P.set_add eqB (f x) (map f s) = map f (P.set_add eqA x s).
  Proof.
    unfold P.set_add. rewrite (P_set_mem_rn x s). destruct (P.set_mem eqA x s); [reflexivity|].
    rewrite map_app. reflexivity.
  Qed.

  (* ---------------------------------------------------------------- *)
  (** ** The loops of [_make_prec_graph] *)

  Lemma P_for2_rn : forall it prec,
    P.gen_make_prec_graph_for2 eqB (map pp it) (map rn prec)
    = fmapP (map rn) (map rn) (P.gen_make_prec_graph_for2 eqA it prec).
  Proof.
    induction it as [|[g1 g2] it IH]; intros prec; [reflexivity|].
    cbn [map pp fst snd P.gen_make_prec_graph_for2].
    rewrite (P_mem_rn prec g1).
    destruct (P.adict_mem eqA prec g1); cbn [negb].
    - rewrite (P_get_rn prec g1).
      destruct (P.adict_get eqA prec g1) as [t|]; cbn [option_map]; [|reflexivity].
      rewrite (P_set_add_rn g2 t), (P_set_rn prec g1 (P.set_add eqA g2 t)). apply IH.
    - rewrite (P_set_nil_rn prec g1). rewrite (P_get_rn (P.adict_set eqA prec g1 []) g1).
      destruct (P.adict_get eqA (P.adict_set eqA prec g1 []) g1) as [t|]; cbn [option_map]; [|reflexivity].
      rewrite (P_set_add_rn g2 t), (P_set_rn (P.adict_set eqA prec g1 []) g1 (P.set_add eqA g2 t)). apply IH.
  Qed.

  Lemma P_for1_rn : forall it prec,
    P.gen_make_prec_graph_for1 eqB (map (map f) it) (map rn prec)
    = fmapP (map rn) (map rn) (P.gen_make_prec_graph_for1 eqA it prec).
  Proof.
    induction it as [|ls it IH]; intros prec; [reflexivity|].
    cbn [map P.gen_make_prec_graph_for1].
    rewrite (removelast_map f ls), (skipn_map f 1 ls), (combine_map f (removelast ls) (skipn 1 ls)).
    change (fun p : A * A => (f (fst p), f (snd p))) with pp.
    rewrite (P_for2_rn (combine (removelast ls) (skipn 1 ls)) prec).
    destruct (P.gen_make_prec_graph_for2 eqA (combine (removelast ls) (skipn 1 ls)) prec) as [prec1|r|e];
      cbn [fmapP]; [|reflexivity|reflexivity].
    rewrite (zget_map f ls (-1)%Z).
    destruct (P.zget ls (-1)%Z) as [t|]; cbn [option_map]; [|reflexivity].
    rewrite (P_mem_rn prec1 t).
    destruct (P.adict_mem eqA prec1 t); cbn [negb]; [apply IH|].
    rewrite (P_set_nil_rn prec1 t). apply IH.
  Qed.

  (** R1 *)
  Theorem prec_rename (items : list (A * list A)) :
    P.gen_make_prec_graph eqB (map (fun kv => (f (fst kv), map f (snd kv))) items)
    = pmap (map (fun kv => (f (fst kv), map f (snd kv)))) (P.gen_make_prec_graph eqA items).
  Proof.
    change (fun kv : A * list A => (f (fst kv), map f (snd kv))) with rn.
    unfold P.gen_make_prec_graph.
    assert (map snd (map rn items) = map (map f) (map snd items)) as ->.
    { rewrite !map_map. reflexivity. }
    change (@nil (B * list B)) with (map rn (@nil (A * list A))).
    rewrite (P_for1_rn (map snd items) []).
    destruct (P.gen_make_prec_graph_for1 eqA (map snd items) []); reflexivity.
  Qed.

  (* ---------------------------------------------------------------- *)
  (** ** The helpers of Gen/ToposortGen.v *)

  Lemma G_get_rn (d : list (A * list A)) k :
    G.adict_get eqB (map rn d) (f k) = option_map (map f) (G.adict_get eqA d k).
  Proof.
    induction d as [|[k' v] d IH]; [reflexivity|].
    cbn [map rn fst snd G.adict_get]. rewrite (eq_f k k'). destruct (eqA k k'); [reflexivity|apply IH].
  Qed.

  Lemma G_get_rk {V : Type} (d : list (A * V)) k : G.adict_get eqB (map rk d) (f k) = G.adict_get eqA d k.
  Proof.
    induction d as [|[k' v] d IH]; [reflexivity|].
    cbn [map rk fst snd G.adict_get]. rewrite (eq_f k k'). destruct (eqA k k'); [reflexivity|apply IH].
  Qed.

  Lemma G_set_rk {V : Type} (d : list (A * V)) k v :
    G.adict_set eqB (map rk d) (f k) v = map rk (G.adict_set eqA d k v).
  Proof.
    induction d as [|[k' v'] d IH]; [reflexivity|].
    cbn [map rk fst snd G.adict_set]. rewrite (eq_f k k'). destruct (eqA k k'); [reflexivity|].
    cbn [map rk fst snd]. now rewrite IH.
  Qed.

  Lemma G_set_mem_rn x s : G.set_mem eqB (f x) (map f s) = G.set_mem eqA x s.
  Proof.
    induction s as [|y s IH]; [reflexivity|]. cbn [map G.set_mem]. now rewrite (eq_f x y), IH.
  Qed.

  Lemma G_set_add_rn x s : G.set_add eqB (f x) (map f s) = map f (G.set_add eqA x s).
  Proof.
    unfold G.set_add. rewrite (G_set_mem_rn x s). destruct (G.set_mem eqA x s); [reflexivity|].
    rewrite map_app. reflexivity.
  Qed.

  Lemma G_seq_remove_rn x s : G.seq_remove eqB (f x) (map f s) = option_map (map f) (G.seq_remove eqA x s).
  Proof.
    induction s as [|y s IH]; [reflexivity|]. cbn [map G.seq_remove]. rewrite (eq_f x y).
    destruct (eqA x y); [reflexivity|]. rewrite IH. destruct (G.seq_remove eqA x s); reflexivity.
  Qed.

  Lemma G_set_discard_rn x s : G.set_discard eqB (f x) (map f s) = map f (G.set_discard eqA x s).
  Proof.
    unfold G.set_discard. induction s as [|y s IH]; [reflexivity|]. cbn [map filter]. rewrite (eq_f x y).
    destruct (eqA x y); cbn [negb map]; [apply IH|]. now rewrite IH.
  Qed.

  (* ---------------------------------------------------------------- *)
  (** ** The loops of [toposort_all] and [_toposort_all_bt] *)

  (** the states and results of the loops, renamed *)
  Definition st_si (p : list A * list (A * Z)) : list B * list (B * Z) := (map f (fst p), map rk (snd p)).
  Definition st_is (p : list (A * Z) * list A) : list (B * Z) * list B := (map rk (fst p), map f (snd p)).
  Definition st_ir (p : list (A * Z) * list (list A)) : list (B * Z) * list (list B) :=
    (map rk (fst p), map (map f) (snd p)).

  Lemma all_for2_rn : forall it starts indeg,
    G.gen_toposort_all_for2 eqB (map f it) (map f starts) (map rk indeg)
    = fmapG st_si (map (map f)) (G.gen_toposort_all_for2 eqA it starts indeg).
  Proof.
    induction it as [|succ it IH]; intros starts indeg; [reflexivity|].
    cbn [map G.gen_toposort_all_for2].
    rewrite (G_get_rk indeg succ). destruct (G.adict_get eqA indeg succ) as [t|]; [|reflexivity].
    rewrite (G_set_discard_rn succ starts), (G_set_rk indeg succ (t + 1)%Z). apply IH.
  Qed.

  Lemma all_for1_rn : forall it starts indeg,
    G.gen_toposort_all_for1 eqB (map (map f) it) (map f starts) (map rk indeg)
    = fmapG st_si (map (map f)) (G.gen_toposort_all_for1 eqA it starts indeg).
  Proof.
    induction it as [|succs it IH]; intros starts indeg; [reflexivity|].
    cbn [map G.gen_toposort_all_for1]. rewrite (all_for2_rn succs starts indeg).
    destruct (G.gen_toposort_all_for2 eqA succs starts indeg) as [[starts1 indeg1]|r|e];
      cbn [fmapG st_si fst snd]; [apply IH|reflexivity|reflexivity].
  Qed.

  Lemma bt_for2_rn : forall it indeg next_starts,
    G.gen__toposort_all_bt_for2 eqB (map f it) (map rk indeg) (map f next_starts)
    = fmapG st_is st_ir (G.gen__toposort_all_bt_for2 eqA it indeg next_starts).
  Proof.
    induction it as [|node_to it IH]; intros indeg next_starts; [reflexivity|].
    cbn [map G.gen__toposort_all_bt_for2].
    rewrite (G_get_rk indeg node_to). destruct (G.adict_get eqA indeg node_to) as [t|]; [|reflexivity].
    rewrite (G_set_rk indeg node_to (t - 1)%Z), (G_get_rk (G.adict_set eqA indeg node_to (t - 1)%Z) node_to).
    destruct (G.adict_get eqA (G.adict_set eqA indeg node_to (t - 1)%Z) node_to) as [t'|]; [|reflexivity].
    destruct (Z.eqb t' 0); [|apply IH].
    rewrite (G_set_add_rn node_to next_starts). apply IH.
  Qed.

  Lemma bt_for3_rn : forall node_from it results,
    G.gen__toposort_all_bt_for3 (f node_from) (map (map f) it) (map (map f) results)
    = fmapG (map (map f)) st_ir (G.gen__toposort_all_bt_for3 node_from it results).
  Proof.
    intros node_from. induction it as [|sub it IH]; intros results; [reflexivity|].
    cbn [map G.gen__toposort_all_bt_for3].
    replace (map (map f) results ++ [map f sub ++ [f node_from]])
      with (map (map f) (results ++ [sub ++ [node_from]])); [apply IH|].
    rewrite map_app. cbn [map]. rewrite map_app. reflexivity.
  Qed.

  Lemma bt_for4_rn : forall it indeg,
    G.gen__toposort_all_bt_for4 eqB (map f it) (map rk indeg)
    = fmapG (map rk) st_ir (G.gen__toposort_all_bt_for4 eqA it indeg).
  Proof.
    induction it as [|node_to it IH]; intros indeg; [reflexivity|].
    cbn [map G.gen__toposort_all_bt_for4].
    rewrite (G_get_rk indeg node_to). destruct (G.adict_get eqA indeg node_to) as [t|]; [|reflexivity].
    rewrite (G_set_rk indeg node_to (t + 1)%Z). apply IH.
  Qed.

  Lemma all_for3_rn : forall (g : list (A * list A)) it idx results,
    G.gen_toposort_all_for3 (map rn g) (map (map f) it) idx (map (map f) results)
    = fmapG (map (map f)) (map (map f)) (G.gen_toposort_all_for3 g it idx results).
  Proof.
    intros g. induction it as [|sub it IH]; intros idx results; [reflexivity|].
    cbn [map G.gen_toposort_all_for3]. rewrite !map_length.
    destruct (negb (N.eqb (N.of_nat (length sub)) (N.of_nat (length g)))); [reflexivity|].
    rewrite <- (map_rev f sub), (list_set_map (map f) results idx (rev sub)).
    destruct (G.list_set results idx (rev sub)) as [results1|]; cbn [option_map]; [apply IH|reflexivity].
  Qed.

  Section Ord.
    Variables (ordA : list A -> list A) (ordB : list B -> list B).
    Hypothesis ord_f : forall l, ordB (map f l) = map f (ordA l).

    (* one level of the recursion: if the recursive calls on [fuel] commute with the renaming, so does the
       loop over the start nodes *)
    Lemma gloop_rn fuel (g : list (A * list A)) starts
      (IH : forall starts indeg,
          G.gen__toposort_all_bt_rec eqB ordB fuel (map f starts) (map rn g) (map rk indeg)
          = gmap st_ir (G.gen__toposort_all_bt_rec eqA ordA fuel starts g indeg)) :
      forall it indeg results,
        gloop eqB ordB fuel (map rn g) (map f starts) (map f it) (map rk indeg) (map (map f) results)
        = fmapG st_ir st_ir (gloop eqA ordA fuel g starts it indeg results).
    Proof.
      induction it as [|node_from it IHit]; intros indeg results; [reflexivity|].
      cbn [map gloop].
      rewrite (G_seq_remove_rn node_from starts).
      destruct (G.seq_remove eqA node_from starts) as [next_starts|]; cbn [option_map]; [|reflexivity].
      rewrite (G_get_rn g node_from).
      destruct (G.adict_get eqA g node_from) as [succs|]; cbn [option_map]; [|reflexivity].
      rewrite (bt_for2_rn succs indeg next_starts).
      destruct (G.gen__toposort_all_bt_for2 eqA succs indeg next_starts) as [[indeg1 next_starts1]|r|e];
        cbn [fmapG st_is fst snd]; [|reflexivity|reflexivity].
      rewrite (IH next_starts1 indeg1).
      destruct (G.gen__toposort_all_bt_rec eqA ordA fuel next_starts1 g indeg1) as [[indeg2 subresults]|e];
        cbn [gmap st_ir fst snd]; [|reflexivity].
      rewrite (bt_for3_rn node_from subresults results).
      destruct (G.gen__toposort_all_bt_for3 node_from subresults results) as [results1|r|e];
        cbn [fmapG]; [|reflexivity|reflexivity].
      rewrite (bt_for4_rn succs indeg2).
      destruct (G.gen__toposort_all_bt_for4 eqA succs indeg2) as [indeg3|r|e];
        cbn [fmapG]; [|reflexivity|reflexivity].
      apply IHit.
    Qed.

    Lemma bt_rec_rn (g : list (A * list A)) : forall fuel starts indeg,
      G.gen__toposort_all_bt_rec eqB ordB fuel (map f starts) (map rn g) (map rk indeg)
      = gmap st_ir (G.gen__toposort_all_bt_rec eqA ordA fuel starts g indeg).
    Proof.
      induction fuel as [|fuel IH]; intros starts indeg; [reflexivity|].
      rewrite (bt_rec_unfold eqB ordB fuel (map f starts) (map rn g) (map rk indeg)).
      rewrite (bt_rec_unfold eqA ordA fuel starts g indeg).
      rewrite (is_empty_map f starts).
      destruct (negb (negb (G.is_empty starts))); [reflexivity|].
      rewrite (ord_f starts).
      change (@nil (list B)) with (map (map f) (@nil (list A))).
      rewrite (gloop_rn fuel g starts IH (ordA starts) indeg []).
      destruct (gloop eqA ordA fuel g starts (ordA starts) indeg []) as [[indeg1 results]|r|e]; reflexivity.
    Qed.

    (** R2 *)
    Theorem toposort_all_rename_rn (g : list (A * list A)) :
      G.gen_toposort_all eqB ordB (map rn g) = gmap (map (map f)) (G.gen_toposort_all eqA ordA g).
    Proof.
      unfold G.gen_toposort_all, G.gen__toposort_all_bt.
      assert (map snd (map rn g) = map (map f) (map snd g)) as -> by (rewrite !map_map; reflexivity).
      assert (map fst (map rn g) = map f (map fst g)) as -> by (rewrite !map_map; reflexivity).
      assert (map (fun node : B => (node, 0%Z)) (map f (map fst g))
              = map rk (map (fun node : A => (node, 0%Z)) (map fst g))) as -> by (rewrite !map_map; reflexivity).
      rewrite (all_for1_rn (map snd g) (map fst g) (map (fun node : A => (node, 0%Z)) (map fst g))).
      destruct (G.gen_toposort_all_for1 eqA (map snd g) (map fst g) (map (fun node : A => (node, 0%Z)) (map fst g)))
        as [[starts indeg]|r|e]; cbn [fmapG st_si fst snd]; [|reflexivity|reflexivity].
      rewrite map_length. rewrite (bt_rec_rn g (S (length g)) starts indeg).
      destruct (G.gen__toposort_all_bt_rec eqA ordA (S (length g)) starts g indeg) as [[indeg1 results]|e];
        cbn [gmap st_ir fst snd]; [|reflexivity].
      rewrite (all_for3_rn g results 0 results).
      destruct (G.gen_toposort_all_for3 g results 0 results); reflexivity.
    Qed.
  End Ord.

  Theorem toposort_all_rename : forall (ordA : list A -> list A) (ordB : list B -> list B),
    (forall l, ordB (map f l) = map f (ordA l)) ->
    forall g, G.gen_toposort_all eqB ordB (map (fun kv => (f (fst kv), map f (snd kv))) g)
              = gmap (map (map f)) (G.gen_toposort_all eqA ordA g).
  Proof. intros ordA ordB Hord g. exact (toposort_all_rename_rn ordA ordB Hord g). Qed.
End Rename.

(* ------------------------------------------------------------------ *)
(** * R3: the instance of the SPFS solver, [f := N.of_nat] *)

Lemma N_of_nat_eqb a b : N.eqb (N.of_nat a) (N.of_nat b) = Nat.eqb a b.
Proof.
  destruct (Nat.eqb_spec a b) as [->|H]; [apply N.eqb_refl|]. apply N.eqb_neq. lia.
Qed.

Theorem prec_rename_N (items : list (nat * list nat)) :
  P.gen_make_prec_graph N.eqb (map (fun kv => (N.of_nat (fst kv), map N.of_nat (snd kv))) items)
  = pmap (map (fun kv => (N.of_nat (fst kv), map N.of_nat (snd kv)))) (P.gen_make_prec_graph Nat.eqb items).
Proof. exact (prec_rename Nat.eqb N.eqb N.of_nat N_of_nat_eqb items). Qed.

(** the set order on [N] induced by a set order on [nat] *)
Definition ord_N (ordA : list nat -> list nat) (l : list N) : list N := map N.of_nat (ordA (map N.to_nat l)).

Lemma ord_N_spec (ordA : list nat -> list nat) l : ord_N ordA (map N.of_nat l) = map N.of_nat (ordA l).
Proof.
  unfold ord_N. rewrite map_map.
  assert (map (fun x => N.to_nat (N.of_nat x)) l = l) as ->; [|reflexivity].
  induction l as [|x l IH]; [reflexivity|]. cbn [map]. now rewrite Nat2N.id, IH.
Qed.

Theorem toposort_all_rename_N (ordA : list nat -> list nat) (g : list (nat * list nat)) :
  G.gen_toposort_all N.eqb (fun l => map N.of_nat (ordA (map N.to_nat l)))
    (map (fun kv => (N.of_nat (fst kv), map N.of_nat (snd kv))) g)
  = gmap (map (map N.of_nat)) (G.gen_toposort_all Nat.eqb ordA g).
Proof.
  exact (toposort_all_rename Nat.eqb N.eqb N.of_nat N_of_nat_eqb ordA (ord_N ordA) (ord_N_spec ordA) g).
Qed.

Print Assumptions prec_rename.
Print Assumptions toposort_all_rename.
Print Assumptions prec_rename_N.
Print Assumptions toposort_all_rename_N.
End Rename.

Export Stage1 Common ModelO Keys ModelPerm TableO Entry Embed TableExact TableModel TableFinal Decode SpfsLink Rename.
