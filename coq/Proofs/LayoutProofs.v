(** C14: geometric coherence and orientation symmetry of the layout model
    ([Model/Layout.v]). *)
From Coq Require Import List Bool Arith QArith Qminmax Lia Lqa.
From SR Require Import Base.PathB Model.Recon Model.Branches Model.Layout Proofs.PathFacts Proofs.ReconProofs Proofs.BranchesProofs.
Import ListNotations.
Local Open Scope Q_scope.

Arguments Qplus : simpl never.
Arguments Qminus : simpl never.
Arguments Qopp : simpl never.
Arguments Qdiv : simpl never.
Arguments Qmult : simpl never.
Arguments Qmin : simpl never.
Arguments Qmax : simpl never.

(** * Transposition (x and y exchanged) *)
Definition tp (p : pos) : pos := (snd p, fst p).
Definition tr (r : rect) : rect := mkR (ry r) (rx r) (rh r) (rw r).
Definition t_entry (e : anchor * (kind * rect)) : anchor * (kind * rect) := (fst e, (fst (snd e), tr (snd (snd e)))).
Definition t_apos (e : anchor * pos) : anchor * pos := (fst e, tp (snd e)).
Definition t_st (st : lbstate) : lbstate := {| na := na st; ns := ns st; done := map t_entry (done st) |}.
Definition t_slay (sl : slay) : slay := {| s_branches := map t_entry (s_branches sl); s_anchors := map t_apos (s_anchors sl) |}.
Definition t_info (i : sinfo) : sinfo :=
  {| i_size := tp (i_size i); i_trunk := tr (i_trunk i); i_fork := i_fork i;
     i_lpos := tp (i_lpos i); i_rpos := tp (i_rpos i); i_lay := t_slay (i_lay i) |}.
Fixpoint t_itree (t : itree) : itree :=
  match t with ILeaf i => ILeaf (t_info i) | INode i l r => INode (t_info i) (t_itree l) (t_itree r) end.
Definition t_db (d : dbranch) : dbranch :=
  {| d_id := d_id d; d_kind := d_kind d; d_rect := tr (d_rect d);
     d_parent := tp (d_parent d); d_left := tp (d_left d); d_right := tp (d_right d); d_child := tp (d_child d) |}.
Definition t_sub (s : sublayout) : sublayout :=
  {| l_rect := tr (l_rect s); l_trunk := tr (l_trunk s); l_fork := l_fork s;
     l_anchors := map t_apos (l_anchors s); l_branches := map t_db (l_branches s) |}.
Fixpoint t_ltree (t : ltree) : ltree :=
  match t with LLeaf s => LLeaf (t_sub s) | LNode s l r => LNode (t_sub s) (t_ltree l) (t_ltree r) end.
Definition swap_size (bs : branch * size) : branch * size := (fst bs, tp (snd bs)).

Lemma tp_invol p : tp (tp p) = p. Proof. destruct p; reflexivity. Qed.
Lemma tr_invol r : tr (tr r) = r. Proof. destruct r; reflexivity. Qed.

(** * [_layout_branches] *)
Lemma afind_map a l : afind a (map t_entry l) = option_map (fun v => (fst v, tr (snd v))) (afind a l).
Proof.
  induction l as [|[k v] l IH]; simpl; auto. destruct (anchor_eqb a k); auto.
Qed.

Lemma look_t st a : look (t_st st) a = option_map tr (look st a).
Proof.
  unfold look. destruct a as [k|]; simpl; auto. rewrite afind_map.
  destruct (afind k (done st)) as [[kd r]|]; reflexivity.
Qed.

Lemma push_t st a b bb r : t_st (push st a b bb r) = push (t_st st) a b bb (tr r).
Proof. unfold push, t_st. simpl. now rewrite map_app. Qed.

Lemma step_mirror P st bs : step_H P (t_st st) (swap_size bs) = option_map t_st (step_V P st bs).
Proof.
  destruct bs as [b [w h]]. unfold step_H, step_V, swap_size. simpl.
  rewrite !look_t.
  destruct (b_kind b); simpl; try (rewrite push_t; reflexivity).
  - destruct (look st (b_left b)) as [L|]; simpl; auto.
    destruct (look st (b_right b)) as [R|]; simpl; auto. rewrite push_t. reflexivity.
  - destruct (look st (b_left b)) as [C|]; simpl; auto. rewrite push_t. reflexivity.
Qed.

Lemma run_mirror P l : forall st,
  run_steps (step_H P) (t_st st) (map swap_size l) = option_map t_st (run_steps (step_V P) st l).
Proof.
  induction l as [|x l IH]; intros st; simpl; auto.
  rewrite step_mirror. destruct (step_V P st x) as [st'|]; simpl; auto.
Qed.

Lemma map_flat_map {A B C} (h : B -> C) (f : A -> list B) l :
  map h (flat_map f l) = flat_map (fun x => map h (f x)) l.
Proof. induction l as [|x l IH]; simpl; auto. now rewrite map_app, IH. Qed.
Lemma flat_map_map {A B C} (f : B -> list C) (g : A -> B) l :
  flat_map f (map g l) = flat_map (fun x => f (g x)) l.
Proof. induction l as [|x l IH]; simpl; auto. now rewrite IH. Qed.

Lemma shift_mirror P brs : shift_H P (map t_entry brs) = tp (shift_V P brs).
Proof. unfold shift_H, shift_V. destruct brs as [|e brs]; [reflexivity|]. unfold tp. simpl. now rewrite map_map. Qed.

Lemma anchors_mirror ancs brs : anchors_H ancs (map t_entry brs) = map t_apos (anchors_V ancs brs).
Proof.
  unfold anchors_H, anchors_V. rewrite flat_map_map, map_flat_map. apply flat_map_ext. intros e. simpl.
  destruct (amem (fst e) ancs); reflexivity.
Qed.

Lemma shifted_mirror brs anchors sh :
  shifted (map t_entry brs) (map t_apos anchors) (tp sh) = t_slay (shifted brs anchors sh).
Proof. unfold shifted, t_slay. simpl. now rewrite !map_map. Qed.

Lemma species_mirror P l ancs : species_H P (map swap_size l) ancs = option_map t_slay (species_V P l ancs).
Proof.
  unfold species_H, species_V.
  change (init P) with (t_st (init P)) at 1. rewrite run_mirror.
  destruct (run_steps (step_V P) (init P) l) as [st|]; simpl; auto.
  now rewrite shift_mirror, anchors_mirror, shifted_mirror.
Qed.

(** * [_layout_subtrees] *)
Lemma rects_of_t sl : rects_of (t_slay sl) = map tr (rects_of sl).
Proof. unfold rects_of, t_slay. simpl. now rewrite !map_map. Qed.

Lemma trunk_dims_mirror P sl :
  trunk_dims_H P (t_slay sl) = (snd (fst (trunk_dims_V P sl)), fst (fst (trunk_dims_V P sl)), snd (trunk_dims_V P sl)).
Proof.
  unfold trunk_dims_H, trunk_dims_V. rewrite rects_of_t.
  destruct (rects_of sl) as [|r rs]; [reflexivity|]. simpl. now rewrite !map_map.
Qed.

Lemma node_info_mirror P tw th fk sl L R :
  node_info_H P th tw fk (t_slay sl) (t_info L) (t_info R) = t_info (node_info_V P tw th fk sl L R).
Proof. reflexivity. Qed.

Lemma iinfo_t t : iinfo (t_itree t) = t_info (iinfo t).
Proof. destruct t; reflexivity. Qed.

Lemma sizes_mirror P lays lays' S : (forall X, lays' X = t_slay (lays X)) ->
  forall X, sizes_H P lays' S X = t_itree (sizes_V P lays S X).
Proof.
  intros E. induction S as [|l IHl r IHr]; intros X; simpl; rewrite E, trunk_dims_mirror;
    destruct (trunk_dims_V P (lays X)) as [[tw th] fk]; simpl.
  - reflexivity.
  - rewrite IHl, IHr, !iinfo_t, node_info_mirror. reflexivity.
Qed.

Lemma dbranch_mirror c e : dbranch_H (tp c) (t_entry e) = t_db (dbranch_V c e).
Proof. destruct e as [a [k r]]. unfold dbranch_H, dbranch_V. simpl. destruct k; reflexivity. Qed.

Lemma place_mirror i R : place_H (t_info i) (tr R) = t_sub (place_V i R).
Proof.
  unfold place_H, place_V, t_sub. simpl. f_equal.
  - rewrite !map_map. apply map_ext. intros e. reflexivity.
  - rewrite !map_map. apply map_ext. intros e.
    change (bottom_right (rshift (tr (i_trunk i)) (top_left (tr R)))) with (tp (bottom_right (rshift (i_trunk i) (top_left R)))).
    apply dbranch_mirror.
Qed.

Lemma absolute_mirror t : forall R, absolute place_H (t_itree t) (tr R) = t_ltree (absolute place_V t R).
Proof.
  induction t as [i|i l IHl r IHr]; intros R; simpl; rewrite place_mirror; [reflexivity|].
  rewrite !iinfo_t. f_equal.
  - rewrite <- IHl. reflexivity.
  - rewrite <- IHr. reflexivity.
Qed.

(** * measuring *)
Lemma zip_nil bs : zip_sizes bs [] = (map (fun b => (b, (0, 0))) bs, []).
Proof. induction bs as [|b bs IH]; simpl; auto. now rewrite IH. Qed.

Lemma zip_mirror bs : forall sizes,
  zip_sizes bs (map tp sizes) = (map swap_size (fst (zip_sizes bs sizes)), map tp (snd (zip_sizes bs sizes))).
Proof.
  induction bs as [|b bs IH]; intros sizes; [reflexivity|].
  destruct sizes as [|s sizes].
  - cbn [map]. rewrite !zip_nil. simpl. rewrite map_map. reflexivity.
  - simpl. rewrite IH. destruct (zip_sizes bs sizes) as [z rest]. reflexivity.
Qed.

Definition swap_m (e : path * list (branch * size)) := (fst e, map swap_size (snd e)).

Lemma measure_mirror ops order : forall sizes,
  measure_all ops order (map tp sizes) = map swap_m (measure_all ops order sizes).
Proof.
  induction order as [|X order IH]; intros sizes; simpl; auto.
  rewrite zip_mirror. destruct (zip_sizes (branches_at X ops) sizes) as [z rest]. simpl. now rewrite IH.
Qed.

Definition t_lays (l : list (path * slay)) := map (fun e => (fst e, t_slay (snd e))) l.

Lemma all_species_mirror P ops m :
  all_species (species_H P) ops (map swap_m m) = option_map t_lays (all_species (species_V P) ops m).
Proof.
  induction m as [|[X l] m IH]; simpl; auto.
  destruct (run_anchors X ops []) as [fin|]; auto.
  rewrite species_mirror, IH.
  destruct (species_V P l _) as [sl|]; simpl; auto.
  destruct (all_species (species_V P) ops m) as [rest|]; reflexivity.
Qed.

Lemma pfind_t X l : pfind X (t_lays l) = option_map t_slay (pfind X l).
Proof. induction l as [|[k v] l IH]; simpl; auto. destruct (path_eqb X k); auto. Qed.

(** ** mirror: the horizontal layout is the transpose of the vertical layout of the size-swapped input *)
Theorem mirror_swapped P S r sizes :
  layout Horizontal P S r (map tp sizes) = option_map t_ltree (layout Vertical P S r sizes).
Proof.
  unfold layout. destruct (all_ops S r) as [ops|]; auto.
  rewrite measure_mirror, all_species_mirror.
  destruct (all_species (species_V P) ops (measure_all ops (spost S) sizes)) as [lays|]; simpl; auto.
  f_equal.
  rewrite (sizes_mirror P (fun X => match pfind X lays with Some sl => sl | None => empty_slay end)).
  - rewrite iinfo_t. apply (absolute_mirror _ (make_from (0, 0) (i_size (iinfo (sizes_V P _ S []))))).
  - intros X. rewrite pfind_t. destruct (pfind X lays); reflexivity.
Qed.

Theorem mirror P S r sizes :
  layout Horizontal P S r sizes = option_map t_ltree (layout Vertical P S r (map tp sizes)).
Proof.
  rewrite <- mirror_swapped. f_equal. rewrite map_map. rewrite <- (map_id sizes) at 1.
  apply map_ext. intros a. now rewrite tp_invol.
Qed.

(** * Geometry *)
Ltac qlra := unfold Qdiv in *; change (/ 2) with (1 # 2) in *; lra.

Definition rinside (c p : rect) : Prop :=
  rx p <= rx c /\ ry p <= ry c /\ rx c + rw c <= rx p + rw p /\ ry c + rh c <= ry p + rh p.
(* no common interior point *)
Definition rdisjoint (a b : rect) : Prop :=
  rx a + rw a <= rx b \/ rx b + rw b <= rx a \/ ry a + rh a <= ry b \/ ry b + rh b <= ry a.

(* the boxes of the two child species lie inside the parent's box and do not overlap *)
Fixpoint nested (t : ltree) : Prop :=
  match t with
  | LLeaf _ => True
  | LNode s l r =>
      rinside (l_rect (linfo l)) (l_rect s) /\ rinside (l_rect (linfo r)) (l_rect s) /\
      rdisjoint (l_rect (linfo l)) (l_rect (linfo r)) /\ nested l /\ nested r
  end.

Record nonneg_params (P : params) : Prop :=
  { pp_pad : 0 <= pad P; pp_ovh : 0 <= ovh P; pp_mss : 0 <= mss P; pp_lsp : 0 <= lsp P }.
Definition size_ok (s : size) : Prop := 0 <= fst s /\ 0 <= snd s.

Lemma fold_min_le_init t : forall a, fold_left Qmin t a <= a.
Proof.
  induction t as [|x t IH]; intros a; simpl; [apply Qle_refl|].
  eapply Qle_trans; [apply IH|apply Q.le_min_l].
Qed.
Lemma fold_min_le_in t : forall a x, In x t -> fold_left Qmin t a <= x.
Proof.
  induction t as [|y t IH]; intros a x; simpl; [tauto|]. intros [->|H].
  - eapply Qle_trans; [apply fold_min_le_init|apply Q.le_min_r].
  - now apply IH.
Qed.
Lemma list_min_le d l x : In x l -> list_min d l <= x.
Proof.
  destruct l as [|y t]; simpl; [tauto|]. intros [->|H]; [apply fold_min_le_init|now apply fold_min_le_in].
Qed.
Lemma fold_max_ge_init t : forall a, a <= fold_left Qmax t a.
Proof.
  induction t as [|x t IH]; intros a; simpl; [apply Qle_refl|].
  eapply Qle_trans; [apply Q.le_max_l|apply IH].
Qed.
Lemma fold_max_ge_in t : forall a x, In x t -> x <= fold_left Qmax t a.
Proof.
  induction t as [|y t IH]; intros a x; simpl; [tauto|]. intros [->|H].
  - eapply Qle_trans; [apply Q.le_max_r|apply fold_max_ge_init].
  - now apply IH.
Qed.
Lemma list_max_ge d l x : In x l -> x <= list_max d l.
Proof.
  destruct l as [|y t]; simpl; [tauto|]. intros [->|H]; [apply fold_max_ge_init|now apply fold_max_ge_in].
Qed.

(** ** branch rectangles keep the measured (non-negative) sizes and end before the padding *)
Definition wok (e : anchor * (kind * rect)) : Prop := 0 <= rw (snd (snd e)) /\ 0 <= rh (snd (snd e)).

Lemma step_V_wok P st bs st' : step_V P st bs = Some st' -> size_ok (snd bs) ->
  Forall wok (done st) -> Forall wok (done st').
Proof.
  destruct bs as [b [w h]]. unfold step_V, size_ok. simpl. intros E [Hw Hh] F.
  assert (forall a c x y, Forall wok (done (push st a c b (make_from (x, y) (w, h))))) as K.
  { intros. unfold push. simpl. apply Forall_app. split; auto. repeat constructor; simpl; auto. }
  destruct (b_kind b); try (inversion E; subst; apply K).
  - destruct (look st (b_left b)); [|discriminate]. destruct (look st (b_right b)); [|discriminate].
    inversion E; subst; apply K.
  - destruct (look st (b_left b)); [|discriminate]. inversion E; subst; apply K.
Qed.

Lemma run_V_wok P l : forall st st', run_steps (step_V P) st l = Some st' ->
  Forall (fun bs => size_ok (snd bs)) l -> Forall wok (done st) -> Forall wok (done st').
Proof.
  induction l as [|x l IH]; intros st st' E F W; simpl in E.
  - inversion E; subst; auto.
  - destruct (step_V P st x) as [st1|] eqn:S1; [|discriminate]. inversion F; subst.
    eapply IH; eauto. eapply step_V_wok; eauto.
Qed.

Definition rects_ok (P : params) (sl : slay) : Prop :=
  forall r, In r (rects_of sl) -> rx r + rw r <= - pad P /\ 0 <= rw r /\ 0 <= rh r.

Lemma species_V_rects P l ancs sl : species_V P l ancs = Some sl ->
  Forall (fun bs => size_ok (snd bs)) l -> rects_ok P sl.
Proof.
  unfold species_V. destruct (run_steps (step_V P) (init P) l) as [st|] eqn:R; [|discriminate].
  intros E F. inversion E; subst. clear E.
  pose proof (run_V_wok P l _ _ R F (Forall_nil _)) as W.
  intros r Hr. unfold rects_of, shifted in Hr. simpl in Hr. rewrite map_map in Hr. simpl in Hr.
  apply in_map_iff in Hr as [e [<- He]]. rewrite Forall_forall in W. destruct (W e He) as [W1 W2].
  simpl. repeat split; auto.
  unfold shift_V. destruct (done st) as [|e0 brs] eqn:D; [destruct He|]. rewrite <- D in *. simpl.
  assert (list_min 0 (map (fun e1 => - fst (right (snd (snd e1)))) (done st)) <= - fst (right (snd (snd e)))) as M.
  { apply list_min_le. apply in_map_iff. eauto. }
  unfold right in M. simpl in M. lra.
Qed.

Lemma empty_rects_ok P : rects_ok P empty_slay.
Proof. intros r []. Qed.

(** ** sizes of the sub-trees (vertical) *)
Lemma trunk_dims_V_nonneg P sl : nonneg_params P -> rects_ok P sl ->
  0 <= fst (fst (trunk_dims_V P sl)) /\ 0 <= snd (fst (trunk_dims_V P sl)) /\ 0 <= snd (trunk_dims_V P sl).
Proof.
  intros [Hp Ho Hm Hl] RO. unfold trunk_dims_V. unfold rects_ok in RO.
  destruct (rects_of sl) as [|r0 rs] eqn:E; simpl; [repeat split; auto; apply Qle_refl|].
  destruct (RO r0 (or_introl eq_refl)) as [A [B C]].
  repeat split.
  - pose proof (fold_max_ge_init (map (fun r => - rx r) rs) (- rx r0)). lra.
  - pose proof (Q.le_max_l 0 (fold_left Qmax (map (fun r => - ry r) rs) (- ry r0))). lra.
  - pose proof (Q.le_max_l 0 (fold_left Qmax (map (fun r => ry r + rh r) rs) (ry r0 + rh r0))). lra.
Qed.

Definition good_node (i L R : sinfo) : Prop :=
  0 <= fst (i_lpos i) /\ 0 <= snd (i_lpos i) /\
  fst (i_lpos i) + fst (i_size L) <= fst (i_size i) /\ snd (i_lpos i) + snd (i_size L) <= snd (i_size i) /\
  0 <= fst (i_rpos i) /\ 0 <= snd (i_rpos i) /\
  fst (i_rpos i) + fst (i_size R) <= fst (i_size i) /\ snd (i_rpos i) + snd (i_size R) <= snd (i_size i) /\
  (fst (i_lpos i) + fst (i_size L) <= fst (i_rpos i) \/ snd (i_lpos i) + snd (i_size L) <= snd (i_rpos i)).

Fixpoint igood (t : itree) : Prop :=
  match t with ILeaf _ => True | INode i l r => good_node i (iinfo l) (iinfo r) /\ igood l /\ igood r end.

Lemma node_info_V_good P tw th fk sl L R : nonneg_params P -> 0 <= th -> 0 <= fk ->
  size_ok (i_size L) -> size_ok (i_size R) ->
  good_node (node_info_V P tw th fk sl L R) L R /\ size_ok (i_size (node_info_V P tw th fk sl L R)).
Proof.
  intros [Hp Ho Hm Hl] Hth Hfk [L1 L2] [R1 R2]. unfold good_node, size_ok, node_info_V. simpl.
  set (sp := Qmax (tw - (fst (i_size L) - (rx (i_trunk L) + rw (i_trunk L)) + rx (i_trunk R))) (mss P)).
  set (m := Qmax (snd (i_size L)) (snd (i_size R))).
  assert (mss P <= sp) by apply Q.le_max_r.
  assert (snd (i_size L) <= m) by apply Q.le_max_l.
  assert (snd (i_size R) <= m) by apply Q.le_max_r.
  repeat split; lra.
Qed.

Lemma sizes_V_good P lays S : nonneg_params P -> (forall X, rects_ok P (lays X)) ->
  forall X, size_ok (i_size (iinfo (sizes_V P lays S X))) /\ igood (sizes_V P lays S X).
Proof.
  intros NP RO. induction S as [|l IHl r IHr]; intros X; simpl;
    destruct (trunk_dims_V_nonneg P (lays X) NP (RO X)) as [A [B C]];
    destruct (trunk_dims_V P (lays X)) as [[tw th] fk]; simpl in *.
  - split; auto. split; auto.
  - destruct (IHl (X ++ [false])) as [SL GL]. destruct (IHr (X ++ [true])) as [SR GR].
    destruct (node_info_V_good P tw th fk (lays X) _ _ NP B C SL SR) as [G SZ]. auto.
Qed.

(** ** absolute positions *)
Lemma linfo_absolute place t R : (forall i R', l_rect (place i R') = R') -> l_rect (linfo (absolute place t R)) = R.
Proof. intros HP. destruct t; simpl; apply HP. Qed.

Lemma absolute_nested place t : (forall i R', l_rect (place i R') = R') -> igood t ->
  forall R, rw R = fst (i_size (iinfo t)) -> rh R = snd (i_size (iinfo t)) -> nested (absolute place t R).
Proof.
  intros HP. induction t as [i|i l IHl r IHr]; intros G R EW EH; simpl; auto.
  destruct G as [[G1 [G2 [G3 [G4 [G5 [G6 [G7 [G8 G9]]]]]]]] [GL GR]].
  rewrite !linfo_absolute, HP by auto. simpl in EW, EH.
  repeat split; try (apply IHl; auto); try (apply IHr; auto); unfold rinside, rdisjoint, padd; simpl; try rewrite EW; try rewrite EH; try lra.
Qed.

(** ** measured sizes are non-negative when the measurer's are *)
Lemma zip_sizes_ok bs : forall sizes, Forall size_ok sizes ->
  Forall (fun x => size_ok (snd x)) (fst (zip_sizes bs sizes)) /\ Forall size_ok (snd (zip_sizes bs sizes)).
Proof.
  induction bs as [|b bs IH]; intros sizes F; simpl; [split; auto|].
  destruct sizes as [|s sizes].
  - destruct (IH [] F) as [A B]. destruct (zip_sizes bs []) as [z rest]. simpl in *. split; auto.
    constructor; auto. simpl. split; apply Qle_refl.
  - inversion F; subst. destruct (IH sizes H2) as [A B]. destruct (zip_sizes bs sizes) as [z rest]. simpl in *. split; auto.
Qed.

Lemma measure_all_ok ops order : forall sizes, Forall size_ok sizes ->
  Forall (fun e => Forall (fun x => size_ok (snd x)) (snd e)) (measure_all ops order sizes).
Proof.
  induction order as [|X order IH]; intros sizes F; simpl; auto.
  destruct (zip_sizes_ok (branches_at X ops) sizes F) as [A B].
  destruct (zip_sizes (branches_at X ops) sizes) as [z rest]. simpl in *. constructor; auto.
Qed.

Lemma all_species_V_rects P ops m : forall lays, all_species (species_V P) ops m = Some lays ->
  Forall (fun e => Forall (fun x => size_ok (snd x)) (snd e)) m ->
  forall X sl, pfind X lays = Some sl -> rects_ok P sl.
Proof.
  induction m as [|[Y l] m IH]; intros lays E F X sl; simpl in E.
  - inversion E; subst. discriminate.
  - destruct (run_anchors Y ops []) as [fin|]; [|discriminate].
    destruct (species_V P l _) as [s0|] eqn:SV; [|discriminate].
    destruct (all_species (species_V P) ops m) as [rest|]; [|discriminate].
    inversion E; subst. inversion F; subst. simpl.
    destruct (path_eqb X Y).
    + intros K; inversion K; subst. eapply species_V_rects; eauto.
    + eapply IH; eauto.
Qed.

Lemma place_V_rect i R : l_rect (place_V i R) = R. Proof. reflexivity. Qed.
Lemma place_H_rect i R : l_rect (place_H i R) = R. Proof. reflexivity. Qed.

Theorem nested_vertical P S r sizes t : nonneg_params P -> Forall size_ok sizes ->
  layout Vertical P S r sizes = Some t -> nested t.
Proof.
  intros NP F. unfold layout. destruct (all_ops S r) as [ops|]; [|discriminate].
  destruct (all_species (species_V P) ops (measure_all ops (spost S) sizes)) as [lays|] eqn:AS; [|discriminate].
  intros E; inversion E; subst. clear E.
  set (look := fun X => match pfind X lays with Some sl => sl | None => empty_slay end).
  assert (forall X, rects_ok P (look X)) as RO.
  { intros X. unfold look. destruct (pfind X lays) as [sl|] eqn:PF; [|apply empty_rects_ok].
    eapply all_species_V_rects; eauto. apply measure_all_ok; auto. }
  destruct (sizes_V_good P look S NP RO []) as [_ G].
  apply absolute_nested; auto.
Qed.

(** ** the horizontal orientation, by the mirror law *)
Lemma rinside_tr a b : rinside (tr a) (tr b) <-> rinside a b.
Proof. unfold rinside, tr; simpl. tauto. Qed.
Lemma rdisjoint_tr a b : rdisjoint (tr a) (tr b) <-> rdisjoint a b.
Proof. unfold rdisjoint, tr; simpl. tauto. Qed.
Lemma linfo_t t : linfo (t_ltree t) = t_sub (linfo t).
Proof. destruct t; reflexivity. Qed.
Lemma nested_t t : nested (t_ltree t) <-> nested t.
Proof.
  induction t as [s|s l IHl r IHr]; simpl; [tauto|].
  rewrite !linfo_t. simpl. rewrite !rinside_tr, rdisjoint_tr, IHl, IHr. tauto.
Qed.

Lemma size_ok_tp sizes : Forall size_ok sizes -> Forall size_ok (map tp sizes).
Proof. intros F. rewrite Forall_forall in *. intros s H. apply in_map_iff in H as [s0 [<- H]]. destruct (F s0 H). split; auto. Qed.

Theorem nested_layout o P S r sizes t : nonneg_params P -> Forall size_ok sizes ->
  layout o P S r sizes = Some t -> nested t.
Proof.
  intros NP F. destruct o; [apply nested_vertical; auto|].
  rewrite mirror. destruct (layout Vertical P S r (map tp sizes)) as [t0|] eqn:E; [|discriminate].
  intros K; inversion K; subst. apply nested_t. apply (nested_vertical P S r (map tp sizes) t0 NP (size_ok_tp _ F) E).
Qed.

(** * Trunks *)
(* the trunk ends before the child boxes begin (in the direction of growth) *)
Definition good_trunk (i : sinfo) : Prop :=
  (ry (i_trunk i) + rh (i_trunk i) <= snd (i_lpos i) /\ ry (i_trunk i) + rh (i_trunk i) <= snd (i_rpos i)) \/
  (rx (i_trunk i) + rw (i_trunk i) <= fst (i_lpos i) /\ rx (i_trunk i) + rw (i_trunk i) <= fst (i_rpos i)).
Fixpoint igoodt (t : itree) : Prop :=
  match t with ILeaf _ => True | INode i l r => good_trunk i /\ igoodt l /\ igoodt r end.

Lemma node_info_V_trunk P tw th fk sl L R : nonneg_params P -> 0 <= th -> 0 <= fk ->
  good_trunk (node_info_V P tw th fk sl L R).
Proof.
  intros [Hp Ho Hm Hl] Hth Hfk. unfold good_trunk, node_info_V. simpl. left.
  set (m := Qmax (snd (i_size L)) (snd (i_size R))).
  assert (snd (i_size L) <= m) by apply Q.le_max_l.
  assert (snd (i_size R) <= m) by apply Q.le_max_r.
  split; lra.
Qed.

Lemma sizes_V_goodt P lays S : nonneg_params P -> (forall X, rects_ok P (lays X)) ->
  forall X, igoodt (sizes_V P lays S X).
Proof.
  intros NP RO. induction S as [|l IHl r IHr]; intros X; simpl;
    destruct (trunk_dims_V_nonneg P (lays X) NP (RO X)) as [A [B C]];
    destruct (trunk_dims_V P (lays X)) as [[tw th] fk]; simpl in *; auto.
  repeat split; auto. apply node_info_V_trunk; auto.
Qed.

Fixpoint tsep (t : ltree) : Prop :=
  match t with
  | LLeaf _ => True
  | LNode s l r => rdisjoint (l_trunk s) (l_rect (linfo l)) /\ rdisjoint (l_trunk s) (l_rect (linfo r)) /\ tsep l /\ tsep r
  end.

Lemma absolute_tsep place t : (forall i R', l_rect (place i R') = R') ->
  (forall i R', l_trunk (place i R') = rshift (i_trunk i) (top_left R')) -> igoodt t ->
  forall R, tsep (absolute place t R).
Proof.
  intros HP HT. induction t as [i|i l IHl r IHr]; intros G R; simpl; auto.
  destruct G as [G [GL GR]]. rewrite !linfo_absolute, HT by auto.
  repeat split; auto; unfold rdisjoint, padd; simpl; destruct G as [[G1 G2]|[G1 G2]]; lra.
Qed.

Lemma tsep_vertical P S r sizes t : nonneg_params P -> Forall size_ok sizes ->
  layout Vertical P S r sizes = Some t -> tsep t.
Proof.
  intros NP F. unfold layout. destruct (all_ops S r) as [ops|]; [|discriminate].
  destruct (all_species (species_V P) ops (measure_all ops (spost S) sizes)) as [lays|] eqn:AS; [|discriminate].
  intros E; inversion E; subst. clear E.
  set (look := fun X => match pfind X lays with Some sl => sl | None => empty_slay end).
  assert (forall X, rects_ok P (look X)) as RO.
  { intros X. unfold look. destruct (pfind X lays) as [sl|] eqn:PF; [|apply empty_rects_ok].
    eapply all_species_V_rects; eauto. apply measure_all_ok; auto. }
  apply absolute_tsep; auto. apply sizes_V_goodt; auto.
Qed.

Lemma tsep_t t : tsep (t_ltree t) <-> tsep t.
Proof.
  induction t as [s|s l IHl r IHr]; simpl; [tauto|].
  rewrite !linfo_t. simpl. rewrite !rdisjoint_tr, IHl, IHr. tauto.
Qed.

Theorem tsep_layout o P S r sizes t : nonneg_params P -> Forall size_ok sizes ->
  layout o P S r sizes = Some t -> tsep t.
Proof.
  intros NP F. destruct o; [apply tsep_vertical; auto|].
  rewrite mirror. destruct (layout Vertical P S r (map tp sizes)) as [t0|] eqn:E; [|discriminate].
  intros K; inversion K; subst. apply tsep_t. apply (tsep_vertical P S r (map tp sizes) t0 NP (size_ok_tp _ F) E).
Qed.

Lemma rdisjoint_mono a b a' b' : rdisjoint a b -> rinside a' a -> rinside b' b -> rdisjoint a' b'.
Proof. unfold rdisjoint, rinside. lra. Qed.
Lemma rinside_refl a : rinside a a.
Proof. unfold rinside. lra. Qed.
Lemma rinside_trans a b c : rinside a b -> rinside b c -> rinside a c.
Proof. unfold rinside. lra. Qed.

Lemma nested_all_inside t : nested t -> forall s, In s (flatten t) -> rinside (l_rect s) (l_rect (linfo t)).
Proof.
  induction t as [s0|s0 l IHl r IHr]; simpl.
  - intros _ s [<-|[]]. apply rinside_refl.
  - intros [I1 [I2 [_ [N1 N2]]]] s [<-|H]; [apply rinside_refl|].
    apply in_app_iff in H as [H|H]; eapply rinside_trans; eauto.
Qed.

Lemma FOP_app {A} (R : A -> A -> Prop) l1 l2 :
  ForallOrdPairs R l1 -> ForallOrdPairs R l2 -> (forall a b, In a l1 -> In b l2 -> R a b) ->
  ForallOrdPairs R (l1 ++ l2).
Proof.
  induction 1 as [|x l1 Hx F IH]; simpl; auto. intros F2 C. constructor.
  - apply Forall_app. split; auto. rewrite Forall_forall. intros b Hb. apply C; auto.
  - apply IH; auto.
Qed.

(** no two trunks overlap provided every trunk lies inside its own species box *)
Lemma trunks_disjoint_tree t : nested t -> tsep t ->
  (forall s, In s (flatten t) -> rinside (l_trunk s) (l_rect s)) ->
  ForallOrdPairs (fun a b => rdisjoint (l_trunk a) (l_trunk b)) (flatten t).
Proof.
  induction t as [s0|s0 l IHl r IHr]; simpl; intros N T I.
  - repeat constructor.
  - destruct N as [I1 [I2 [D [N1 N2]]]]. destruct T as [T1 [T2 [T3 T4]]].
    assert (forall s, In s (flatten l) -> rinside (l_trunk s) (l_rect (linfo l))) as AL.
    { intros s Hs. eapply rinside_trans; [apply I; right; apply in_app_iff; auto|]. now apply nested_all_inside. }
    assert (forall s, In s (flatten r) -> rinside (l_trunk s) (l_rect (linfo r))) as AR.
    { intros s Hs. eapply rinside_trans; [apply I; right; apply in_app_iff; auto|]. now apply nested_all_inside. }
    constructor.
    + apply Forall_app. split; rewrite Forall_forall; intros s Hs.
      * eapply rdisjoint_mono; [exact T1|apply rinside_refl|auto].
      * eapply rdisjoint_mono; [exact T2|apply rinside_refl|auto].
    + apply FOP_app.
      * apply IHl; auto. intros s Hs. apply I. right. apply in_app_iff; auto.
      * apply IHr; auto. intros s Hs. apply I. right. apply in_app_iff; auto.
      * intros a b Ha Hb. eapply rdisjoint_mono; [exact D|auto|auto].
Qed.

Theorem trunks_disjoint_partial o P S r sizes t : nonneg_params P -> Forall size_ok sizes ->
  layout o P S r sizes = Some t ->
  (forall s, In s (flatten t) -> rinside (l_trunk s) (l_rect s)) ->
  ForallOrdPairs (fun a b => rdisjoint (l_trunk a) (l_trunk b)) (flatten t).
Proof.
  intros NP F E I. apply trunks_disjoint_tree; auto; [eapply nested_layout|eapply tsep_layout]; eauto.
Qed.

(** every internal species: explicit form of [nested] *)
Fixpoint lsubtrees (t : ltree) : list ltree :=
  t :: match t with LLeaf _ => [] | LNode _ l r => lsubtrees l ++ lsubtrees r end.

Lemma nested_forall t : nested t -> forall s l r, In (LNode s l r) (lsubtrees t) ->
  rinside (l_rect (linfo l)) (l_rect s) /\ rinside (l_rect (linfo r)) (l_rect s) /\
  rdisjoint (l_rect (linfo l)) (l_rect (linfo r)).
Proof.
  induction t as [s0|s0 l0 IHl r0 IHr]; simpl.
  - intros _ s l r [H|[]]. discriminate.
  - intros [I1 [I2 [D [N1 N2]]]] s l r [H|H].
    + inversion H; subst. auto.
    + apply in_app_iff in H as [H|H]; eauto.
Qed.

Theorem child_in_parent o P S r sizes t : nonneg_params P -> Forall size_ok sizes ->
  layout o P S r sizes = Some t ->
  forall s l r', In (LNode s l r') (lsubtrees t) ->
  rinside (l_rect (linfo l)) (l_rect s) /\ rinside (l_rect (linfo r')) (l_rect s).
Proof.
  intros NP F E s l r' H. destruct (nested_forall t (nested_layout o P S r sizes t NP F E) s l r' H) as [A [B _]]. auto.
Qed.

Theorem siblings_disjoint o P S r sizes t : nonneg_params P -> Forall size_ok sizes ->
  layout o P S r sizes = Some t ->
  forall s l r', In (LNode s l r') (lsubtrees t) -> rdisjoint (l_rect (linfo l)) (l_rect (linfo r')).
Proof.
  intros NP F E s l r' H. destruct (nested_forall t (nested_layout o P S r sizes t NP F E) s l r' H) as [_ [_ C]]. auto.
Qed.

Theorem layout_function o P S r sizes o' P' S' r' sizes' :
  o = o' -> P = P' -> S = S' -> r = r' -> sizes = sizes' -> layout o P S r sizes = layout o' P' S' r' sizes'.
Proof. intros; subst; reflexivity. Qed.

(** * The known finding F-TRUNK-OVERLAP: the hypothesis "every trunk inside its own box" cannot be dropped *)
Definition roverlap (a b : rect) : Prop :=
  rx a < rx b + rw b /\ rx b < rx a + rw a /\ ry a < ry b + rh b /\ ry b < ry a + rh a.
Lemma roverlap_not_disjoint a b : roverlap a b -> ~ rdisjoint a b.
Proof. unfold roverlap, rdisjoint. lra. Qed.

Definition default_params : params := {| pad := 4; gsp := 5; ovh := 10; mss := 12; lsp := 4 |}.
(* species ((M1,M2)M,(E,(R1,R2)R)N)P; object (M1_0,(M2_3,(R1_1,M2_2)O0)O1)O2 with O2 -> N, O1 -> N, O0 -> R1 *)
Definition witness_S : stree := SNode (SNode SLeaf SLeaf) (SNode SLeaf (SNode SLeaf SLeaf)).
Definition witness_O : otree :=
  ONode (OLeaf [false; false] []) (ONode (OLeaf [false; true] []) (ONode (OLeaf [true; true; false] []) (OLeaf [false; true] []))).
Definition witness_r : rtree :=
  RNode [true] (RLeaf [false; false]) (RNode [true] (RLeaf [false; true])
        (RNode [true; true; false] (RLeaf [true; true; false]) (RLeaf [false; true]))).
(* measured boxes, in measuring order: extant genes 100x100, 100x100, 100x1, 100x1; transfer nodes 1x1; loss nodes 100x1 *)
Definition witness_sizes : list size :=
  [(100, 100); (100, 100); (100, 1); (100, 1); (1, 1); (100, 1); (100, 1); (1, 1); (1, 1)].
Definition dummy_sub : sublayout :=
  {| l_rect := mkR 0 0 0 0; l_trunk := mkR 0 0 0 0; l_fork := 0; l_anchors := []; l_branches := [] |}.
Definition witness_layout : ltree :=
  Eval vm_compute in match layout Vertical default_params witness_S witness_r witness_sizes with
                     | Some t => t | None => LLeaf dummy_sub end.

Example trunk_overlap_refuted :
  nonneg_params default_params /\ Forall size_ok witness_sizes /\
  layout Vertical default_params witness_S witness_r witness_sizes = Some witness_layout /\
  exists a b, nth_error (flatten witness_layout) 3 = Some a /\ nth_error (flatten witness_layout) 4 = Some b /\
    roverlap (l_trunk a) (l_trunk b) /\ ~ rdisjoint (l_trunk a) (l_trunk b) /\
    rinside (l_trunk a) (l_rect a) /\ ~ rinside (l_trunk b) (l_rect b).
Proof.
  split; [constructor; vm_compute; discriminate|].
  split; [repeat constructor; vm_compute; discriminate|].
  split; [vm_compute; reflexivity|].
  eexists; eexists. split; [reflexivity|]. split; [reflexivity|].
  assert (roverlap (l_trunk (nth 3 (flatten witness_layout) dummy_sub)) (l_trunk (nth 4 (flatten witness_layout) dummy_sub))) as OV
    by (repeat split; vm_compute; reflexivity).
  split; [exact OV|]. split; [apply roverlap_not_disjoint; exact OV|]. split.
  - repeat split; vm_compute; discriminate.
  - intros [H _]. vm_compute in H. apply H. reflexivity.
Qed.


(** * The keys of the layout are those of the branch model (C13) *)
Definition key_of_slay (sl : slay) : list anchor * list anchor := (map fst (s_anchors sl), map fst (s_branches sl)).
Definition key_of_sub (s : sublayout) : list anchor * list anchor := (map fst (l_anchors s), map d_id (l_branches s)).
(* (anchor set, branch keys) of species [X] according to Model/Branches.v *)
Definition keys_at (X : path) (ops : list op) : list anchor * list anchor :=
  (match run_anchors X ops [] with
   | Some fin => filter (fun a => amem a fin) (map b_id (branches_at X ops))
   | None => []
   end, map b_id (branches_at X ops)).

Lemma step_V_ids P st bs st' : step_V P st bs = Some st' ->
  map fst (done st') = map fst (done st) ++ [b_id (fst bs)].
Proof.
  destruct bs as [b [w h]]. unfold step_V. simpl. intros E.
  assert (forall a c r0, map fst (done (push st a c b r0)) = map fst (done st) ++ [b_id b]) as K
    by (intros; unfold push; simpl; now rewrite map_app).
  destruct (b_kind b); try (inversion E; subst; apply K).
  - destruct (look st (b_left b)); [|discriminate]. destruct (look st (b_right b)); [|discriminate].
    inversion E; subst; apply K.
  - destruct (look st (b_left b)); [|discriminate]. inversion E; subst; apply K.
Qed.

Lemma run_V_ids P l : forall st st', run_steps (step_V P) st l = Some st' ->
  map fst (done st') = map fst (done st) ++ map (fun bs => b_id (fst bs)) l.
Proof.
  induction l as [|x l IH]; intros st st' E; simpl in E.
  - inversion E; subst. simpl. now rewrite app_nil_r.
  - destruct (step_V P st x) as [st1|] eqn:S1; [|discriminate].
    rewrite (IH _ _ E), (step_V_ids _ _ _ _ S1), <- app_assoc. reflexivity.
Qed.

Lemma anchors_V_keys ancs brs : map fst (anchors_V ancs brs) = filter (fun a => amem a ancs) (map fst brs).
Proof.
  induction brs as [|e brs IH]; [reflexivity|].
  change (anchors_V ancs (e :: brs)) with
    ((if amem (fst e) ancs then [(fst e, (fst (center (snd (snd e))), 0))] else []) ++ anchors_V ancs brs).
  rewrite map_app. cbn [map filter]. destruct (amem (fst e) ancs); cbn [map app fst]; [f_equal|]; exact IH.
Qed.

Lemma species_V_keys P l ancs sl : species_V P l ancs = Some sl ->
  key_of_slay sl = (filter (fun a => amem a ancs) (map (fun bs => b_id (fst bs)) l), map (fun bs => b_id (fst bs)) l).
Proof.
  unfold species_V. destruct (run_steps (step_V P) (init P) l) as [st|] eqn:R; [|discriminate].
  intros E; inversion E; subst. unfold key_of_slay, shifted. simpl. rewrite !map_map. simpl.
  pose proof (run_V_ids P l _ _ R) as I. simpl in I.
  change (map (fun x : anchor * pos => fst x) (anchors_V ancs (done st))) with (map fst (anchors_V ancs (done st))).
  change (map (fun x : anchor * (kind * rect) => fst x) (done st)) with (map fst (done st)).
  now rewrite anchors_V_keys, I.
Qed.

Lemma zip_sizes_fst bs : forall sizes, map fst (fst (zip_sizes bs sizes)) = bs.
Proof.
  induction bs as [|b bs IH]; intros sizes; simpl; auto.
  destruct sizes as [|s sizes].
  - specialize (IH []). destruct (zip_sizes bs []) as [z rest]. simpl in *. now rewrite IH.
  - specialize (IH sizes). destruct (zip_sizes bs sizes) as [z rest]. simpl in *. now rewrite IH.
Qed.

Lemma measure_all_spec ops order : forall sizes,
  map fst (measure_all ops order sizes) = order /\
  forall X l, In (X, l) (measure_all ops order sizes) -> map fst l = branches_at X ops.
Proof.
  induction order as [|Y order IH]; intros sizes; simpl; [split; auto; intros ? ? []|].
  pose proof (zip_sizes_fst (branches_at Y ops) sizes) as Z.
  destruct (zip_sizes (branches_at Y ops) sizes) as [z rest]. simpl in *.
  destruct (IH rest) as [A B]. split; [now rewrite A|].
  intros X l [E|H]; [inversion E; subst; auto|eauto].
Qed.

Lemma all_species_V_find P ops m : forall lays, all_species (species_V P) ops m = Some lays ->
  NoDup (map fst m) -> forall X l, In (X, l) m ->
  exists fin sl, run_anchors X ops [] = Some fin /\ pfind X lays = Some sl /\
    species_V P l (filter (fun a => amem a fin) (map b_id (branches_at X ops))) = Some sl.
Proof.
  induction m as [|[Y l0] m IH]; intros lays E ND X l H; simpl in E; [destruct H|].
  destruct (run_anchors Y ops []) as [fin|] eqn:RA; [|discriminate].
  destruct (species_V P l0 _) as [s0|] eqn:SV; [|discriminate].
  destruct (all_species (species_V P) ops m) as [rest|] eqn:AS; [|discriminate].
  inversion E; subst. simpl in ND. inversion ND as [|? ? NI ND']; subst. simpl.
  destruct H as [H|H].
  - inversion H; subst. rewrite path_eqb_refl. eauto.
  - destruct (path_eqb_spec X Y) as [->|NE].
    + exfalso. apply NI. apply in_map_iff. exists (Y, l). auto.
    + eapply IH; eauto.
Qed.

Lemma filter_filter_amem (fin ids : list anchor) :
  filter (fun a => amem a (filter (fun a0 => amem a0 fin) ids)) ids = filter (fun a => amem a fin) ids.
Proof.
  apply filter_ext_in. intros a Ha.
  destruct (amem a fin) eqn:E.
  - apply amem_In. apply filter_In. auto.
  - destruct (amem a (filter (fun a0 => amem a0 fin) ids)) eqn:E'; auto.
    apply amem_In in E'. apply filter_In in E' as [_ E']. congruence.
Qed.

Lemma d_id_dbranch_V c e : d_id (dbranch_V c e) = fst e.
Proof. destruct e as [a [k r0]]. unfold dbranch_V. simpl. destruct k; reflexivity. Qed.

Lemma key_place_V i R : key_of_sub (place_V i R) = key_of_slay (i_lay i).
Proof.
  unfold key_of_sub, key_of_slay, place_V. simpl. rewrite !map_map. simpl. f_equal.
  apply map_ext. intros e. apply d_id_dbranch_V.
Qed.

Lemma i_lay_sizes_V P lays S X : i_lay (iinfo (sizes_V P lays S X)) = lays X.
Proof. destruct S; simpl; destruct (trunk_dims_V P (lays X)) as [[tw th] fk]; reflexivity. Qed.

Lemma flatten_keys_V P lays S : forall X R,
  map key_of_sub (flatten (absolute place_V (sizes_V P lays S X) R)) = map (fun p => key_of_slay (lays (X ++ p))) (snodes S).
Proof.
  induction S as [|l IHl r IHr]; intros X R.
  - simpl. destruct (trunk_dims_V P (lays X)) as [[tw th] fk]. simpl. now rewrite key_place_V, app_nil_r.
  - pose proof (i_lay_sizes_V P lays (SNode l r) X) as IL. simpl in *.
    destruct (trunk_dims_V P (lays X)) as [[tw th] fk]. simpl in *.
    rewrite key_place_V. simpl. rewrite app_nil_r. f_equal.
    rewrite !map_app, IHl, IHr, !map_map. f_equal; apply map_ext; intros p; now rewrite <- app_assoc.
Qed.

Lemma layout_keys_V P S r sizes t ops : all_ops S r = Some ops -> layout Vertical P S r sizes = Some t ->
  map key_of_sub (flatten t) = map (fun X => keys_at X ops) (snodes S).
Proof.
  intros AO. unfold layout. rewrite AO.
  destruct (all_species (species_V P) ops (measure_all ops (spost S) sizes)) as [lays|] eqn:AS; [|discriminate].
  intros E; inversion E; subst. clear E.
  rewrite (flatten_keys_V P _ S [] _). apply map_ext_in. intros X HX. simpl.
  destruct (measure_all_spec ops (spost S) sizes) as [MF MB].
  assert (In X (spost S)) as HP by (apply spost_valid; now apply snodes_valid).
  rewrite <- MF in HP. apply in_map_iff in HP as [[X' l] [EX HI]]. simpl in EX. subst X'.
  destruct (all_species_V_find P ops _ lays AS ltac:(rewrite MF; apply spost_nodup) X l HI) as [fin [sl [RA [PF SV]]]].
  rewrite PF. rewrite (species_V_keys _ _ _ _ SV). unfold keys_at. rewrite RA.
  assert (map (fun bs : branch * size => b_id (fst bs)) l = map b_id (branches_at X ops)) as ->.
  { rewrite <- (MB X l HI), map_map. reflexivity. }
  now rewrite filter_filter_amem.
Qed.

Lemma flatten_t t : flatten (t_ltree t) = map t_sub (flatten t).
Proof. induction t as [s|s l IHl r IHr]; simpl; auto. now rewrite map_app, IHl, IHr. Qed.
Lemma key_t_sub s : key_of_sub (t_sub s) = key_of_sub s.
Proof. unfold key_of_sub, t_sub. simpl. now rewrite !map_map. Qed.

(** the anchors and branches of every species in the computed layout are keyed exactly by the
    anchor set and the branch dict of the branch model *)
Theorem layout_keys o P S r sizes t ops : all_ops S r = Some ops -> layout o P S r sizes = Some t ->
  map key_of_sub (flatten t) = map (fun X => keys_at X ops) (snodes S).
Proof.
  intros AO. destruct o; [now apply layout_keys_V|].
  rewrite mirror. destruct (layout Vertical P S r (map tp sizes)) as [t0|] eqn:E; [|discriminate].
  intros K; inversion K; subst. rewrite flatten_t, map_map.
  rewrite <- (layout_keys_V P S r (map tp sizes) t0 ops AO E). apply map_ext. intros s. apply key_t_sub.
Qed.

Lemma is_anchor_keys X ops a : is_anchor X ops a -> In a (fst (keys_at X ops)).
Proof.
  intros [bs [ancs [E I]]]. unfold species_state in E. unfold keys_at.
  destruct (run_anchors X ops []) as [fin|]; [|discriminate]. inversion E; subst. exact I.
Qed.

(** every anchor referenced by a drawn branch exists: the layout has the keys of the branch
    model, in which every reference is to an existing anchor / branch (C13) *)
Theorem anchors_exist_layout o P S O r sizes t : valid_rec S O r -> layout o P S r sizes = Some t ->
  exists ops, all_ops S r = Some ops /\
    map key_of_sub (flatten t) = map (fun X => keys_at X ops) (snodes S) /\
    (forall X b, In b (branches_at X ops) -> branch_refs_ok r ops X b) /\
    (forall X a, is_anchor X ops a -> In a (fst (keys_at X ops))).
Proof.
  intros V E. destruct (all_ops_total S O r V) as [ops AO]. exists ops. split; auto.
  split; [eapply layout_keys; eauto|]. split; [apply (anchors_exist S O r ops V AO)|intros X a; apply is_anchor_keys].
Qed.

(** * The layout is defined on every valid reconciliation *)
(* what a branch looks up in [_layout_branches]: duplications both children, transfers the conserved one *)
Definition needs (b : branch) (seen : list anchor) : Prop :=
  match b_kind b with
  | KDup => (exists l, b_left b = Some l /\ In l seen) /\ (exists r, b_right b = Some r /\ In r seen)
  | KTr => exists l, b_left b = Some l /\ In l seen
  | _ => True
  end.

Lemma needs_mono b seen seen' : incl seen seen' -> needs b seen -> needs b seen'.
Proof.
  intros I. unfold needs. destruct (b_kind b); auto.
  - intros [[l [A B]] [r [C D]]]. split; eauto.
  - intros [l [A B]]. eauto.
Qed.

Fixpoint refs_before (seen : list anchor) (bs : list branch) : Prop :=
  match bs with [] => True | b :: t => needs b seen /\ refs_before (b_id b :: seen) t end.

Lemma refs_before_mono bs : forall seen seen', incl seen seen' -> refs_before seen bs -> refs_before seen' bs.
Proof.
  induction bs as [|b t IH]; intros seen seen' I; simpl; auto. intros [A B]. split.
  - eapply needs_mono; eauto.
  - eapply IH; [|exact B]. intros z [->|H]; [now left|right; auto].
Qed.

Fixpoint wflook (X : path) (seen : list anchor) (ops : list op) : Prop :=
  match ops with
  | [] => True
  | Add Y b :: t => (path_eqb Y X = true -> needs b seen) /\ wflook X (if path_eqb Y X then b_id b :: seen else seen) t
  | Rem _ _ :: t => wflook X seen t
  end.

Lemma wflook_mono X ops : forall seen seen', incl seen seen' -> wflook X seen ops -> wflook X seen' ops.
Proof.
  induction ops as [|[Y b|Y a] t IH]; intros seen seen' I; simpl; auto.
  - intros [A B]. split; [intros E; eapply needs_mono; eauto|].
    eapply IH; [|exact B]. destruct (path_eqb Y X); auto. intros z [->|H]; [now left|right; auto].
  - apply IH; auto.
Qed.

Lemma wflook_app X l1 : forall seen l2,
  wflook X seen l1 -> wflook X (add_ids X l1 ++ seen) l2 -> wflook X seen (l1 ++ l2).
Proof.
  induction l1 as [|[Y b|Y a] t IH]; intros seen l2; simpl; auto.
  - intros [H0 H1] H2. split; auto. apply IH; auto. unfold add_ids in *. simpl in H2.
    destruct (path_eqb Y X); auto. eapply wflook_mono; [|exact H2].
    intros z. simpl. rewrite !in_app_iff. simpl. tauto.
Qed.

Lemma wflook_losses X ops : forall seen,
  (forall b, In (Add X b) ops -> b_kind b = KLoss \/ b_kind b = KLeaf \/ b_kind b = KSpe) -> wflook X seen ops.
Proof.
  induction ops as [|[Y b|Y a] t IH]; intros seen H; simpl; auto.
  - split.
    + intros E. apply path_eqb_true_iff in E. subst. unfold needs.
      destruct (H b (or_introl eq_refl)) as [K|[K|K]]; rewrite K; exact I.
    + apply IH. intros b' I'. apply H. now right.
  - apply IH. intros b' I'. apply H. now right.
Qed.

Lemma wflook_refs X ops : forall seen, wflook X seen ops -> refs_before seen (branches_at X ops).
Proof.
  induction ops as [|[Y b|Y a] t IH]; intros seen; simpl; auto.
  intros [A B]. destruct (path_eqb Y X); simpl; auto.
Qed.

Lemma chain_kind g e base Y b : forall k, In (Add Y b) (chain_ops g k e base) -> b_kind b = KLoss.
Proof. intros k H. now destruct (chain_clause _ _ _ _ _ _ H). Qed.

(* during the turn of another species, only loss branches are inserted into [X] *)
Lemma turn_adds X Z r : forall p b, noinv r -> Z <> X -> In (Add X b) (turn_ops Z p r) -> b_kind b = KLoss.
Proof.
  induction r as [s|s a IHa c IHc]; intros p b N NE.
  - unfold turn_ops. simpl. destruct (path_eqb_spec s Z); simpl; [|tauto].
    intros [H|[]]. inversion H; subst. congruence.
  - destruct N as [E [Na Nc]]. rewrite turn_ops_node, !in_app_iff. intros [H|[H|H]]; eauto.
    destruct (path_eqb_spec s Z); [|destruct H]. subst.
    destruct (nops_shape p Z a c E) as [h [Hh Eh]]. rewrite Eh in H.
    unfold shape_ops, cops in H. rewrite !in_app_iff in H. destruct H as [H|[H|[H|H]]].
    + eapply chain_kind; eauto.
    + eapply chain_kind; eauto.
    + inversion H; subst. congruence.
    + destruct (shape_rems _ _ _ _ _ Hh _ H) as [a0 Ea]. discriminate.
Qed.

Lemma top_seen_L X p a c h (A B : list anchor) :
  shape_ok p X (root a) (root c) h -> bL h = X -> tL h = X ++ dL h ->
  (root a = X -> In (p ++ [false], 0%nat) A) -> (root c = X -> In (p ++ [true], 0%nat) B) ->
  In (cL h, length (dL h)) (add_ids X (cops (cL h) (dL h) (bL h))) \/ In (cL h, length (dL h)) A \/ In (cL h, length (dL h)) B.
Proof.
  intros Hh BL TL HA HB. destruct (shape_side _ _ _ _ _ Hh) as [x [CL [TLx _]]].
  destruct (dL h) as [|y d'] eqn:DL.
  - rewrite app_nil_r in TL. rewrite CL. right. destruct x; simpl in TLx; [right; apply HB|left; apply HA]; congruence.
  - left. apply add_ids_In. rewrite <- DL.
    destruct (cops_top (cL h) (dL h) (bL h)) as [b [Ib Eb]]; [rewrite DL; discriminate|].
    rewrite BL in Ib at 1. exists b. split; auto.
Qed.

Lemma top_seen_R X p a c h (A B : list anchor) :
  shape_ok p X (root a) (root c) h -> bR h = X -> tR h = X ++ dR h ->
  (root a = X -> In (p ++ [false], 0%nat) A) -> (root c = X -> In (p ++ [true], 0%nat) B) ->
  In (cR h, length (dR h)) (add_ids X (cops (cR h) (dR h) (bR h))) \/ In (cR h, length (dR h)) A \/ In (cR h, length (dR h)) B.
Proof.
  intros Hh BR TR HA HB. destruct (shape_side _ _ _ _ _ Hh) as [x [_ [_ [CR TRx]]]].
  destruct (dR h) as [|y d'] eqn:DR.
  - rewrite app_nil_r in TR. rewrite CR. right. destruct x; simpl in TRx; [left; apply HA|right; apply HB]; congruence.
  - left. apply add_ids_In. rewrite <- DR.
    destruct (cops_top (cR h) (dR h) (bR h)) as [b [Ib Eb]]; [rewrite DR; discriminate|].
    rewrite BR in Ib at 1. exists b. split; auto.
Qed.

Lemma wflook_rems X l seen : (forall o, In o l -> exists Y a, o = Rem Y a) -> wflook X seen l.
Proof.
  induction l as [|o t IH]; intros H; simpl; auto.
  destruct (H o) as [Y [a ->]]; [now left|]. apply IH. intros; apply H; now right.
Qed.

Lemma turn_look X r : forall p seen, noinv r -> wflook X seen (turn_ops X p r).
Proof.
  induction r as [s|s a IHa c IHc]; intros p seen N.
  - unfold turn_ops. simpl. destruct (path_eqb s X) eqn:E; simpl; auto; rewrite ?E; split; auto; intros _; exact I.
  - destruct N as [E [Na Nc]]. rewrite turn_ops_node.
    apply wflook_app; [apply IHa; auto|]. apply wflook_app; [apply IHc; auto|].
    destruct (path_eqb_spec s X); [|simpl; auto]. subst s.
    destruct (nops_shape p X a c E) as [h [Hh ->]]. unfold shape_ops.
    apply wflook_app; [apply wflook_losses; intros b Hb; left; eapply chain_kind; exact Hb|].
    apply wflook_app; [apply wflook_losses; intros b Hb; left; eapply chain_kind; exact Hb|].
    simpl. destruct (path_eqb_spec X X); [|congruence]. split.
    + intros _. unfold needs. simpl.
      pose proof (proj2 (turn_wf X a (p ++ [false]) [] Na)) as HA.
      pose proof (proj2 (turn_wf X c (p ++ [true]) [] Nc)) as HB.
      pose proof Hh as Hh2. destruct Hh2 as [_ Hh2].
      destruct (event X (root a) (root c)) eqn:EV; simpl; auto.
      * destruct Hh2 as [BL [BR [TL [TR _]]]].
        pose proof (top_seen_L X p a c h _ _ Hh BL TL HA HB) as SL.
        pose proof (top_seen_R X p a c h _ _ Hh BR TR HA HB) as SR.
        split; eexists; (split; [reflexivity|]); rewrite !in_app_iff; tauto.
      * destruct Hh2 as [BL [TL _]].
        pose proof (top_seen_L X p a c h _ _ Hh BL TL HA HB) as SL.
        eexists; (split; [reflexivity|]); rewrite !in_app_iff; tauto.
      * destruct Hh2 as [BL [TL _]].
        pose proof (top_seen_L X p a c h _ _ Hh BL TL HA HB) as SL.
        eexists; (split; [reflexivity|]); rewrite !in_app_iff; tauto.
    + apply wflook_rems. intros o Ho. destruct (shape_rems _ _ _ _ _ Hh _ Ho) as [a0 ->]. eauto.
Qed.

Lemma ops_look X r (L : list path) : noinv r -> forall seen, wflook X seen (flat_map (fun Z => turn_ops Z [] r) L).
Proof.
  intros N. induction L as [|Z L IH]; intros seen; simpl; auto.
  apply wflook_app; auto. destruct (path_eqb_spec Z X).
  - subst. apply turn_look; auto.
  - apply wflook_losses. intros b Hb. left. eapply turn_adds; eauto.
Qed.

(* with every reference pointing backwards, [_layout_branches] meets no missing key *)
Lemma look_some st k : In k (map fst (done st)) -> exists r0, look st (Some k) = Some r0.
Proof.
  unfold look. induction (done st) as [|[k' [kd r0]] l IH]; simpl; [tauto|].
  destruct (anchor_eqb_spec k k'); [eauto|]. intros [H|H]; [congruence|]. auto.
Qed.

Lemma run_V_defined P l : forall st, refs_before (map fst (done st)) (map fst l) ->
  exists st', run_steps (step_V P) st l = Some st'.
Proof.
  induction l as [|[b [w h]] l IH]; intros st RB; [simpl; eauto|].
  cbn [run_steps]. simpl in RB. destruct RB as [ND RB].
  match goal with |- context [step_V ?pp ?ss ?xx] => assert (exists st1, step_V pp ss xx = Some st1) as [st1 S1] end.
  { unfold step_V, needs in *. simpl. destruct (b_kind b); eauto.
    - destruct ND as [[l0 [EL IL]] [r0 [ER IR]]]. rewrite EL, ER.
      destruct (look_some st l0 IL) as [rl ->]. destruct (look_some st r0 IR) as [rr ->]. eauto.
    - destruct ND as [l0 [EL IL]]. rewrite EL. destruct (look_some st l0 IL) as [rl ->]. eauto. }
  rewrite S1. apply IH. eapply refs_before_mono; [|exact RB].
  rewrite (step_V_ids _ _ _ _ S1). simpl. intros z [->|H]; rewrite in_app_iff; simpl; auto.
Qed.

Lemma all_species_V_defined P ops m :
  (forall X l, In (X, l) m -> (exists fin, run_anchors X ops [] = Some fin) /\ map fst l = branches_at X ops) ->
  (forall X, refs_before [] (branches_at X ops)) ->
  exists lays, all_species (species_V P) ops m = Some lays.
Proof.
  intros HM RB. induction m as [|[X l] m IH]; simpl; eauto.
  destruct (HM X l (or_introl eq_refl)) as [[fin ->] EL].
  destruct (run_V_defined P l (init P)) as [st R]; [simpl; rewrite EL; apply RB|].
  destruct IH as [rest ->]; [intros; apply HM; now right|].
  unfold species_V. rewrite R. eauto.
Qed.

Theorem layout_defined o P S O r sizes : valid_rec S O r -> exists t, layout o P S r sizes = Some t.
Proof.
  intros V. pose proof (valid_rec_noinv _ _ _ V) as N. pose proof (valid_rec_species_in _ _ _ V) as SI.
  assert (forall sizes', exists t, layout Vertical P S r sizes' = Some t) as KV.
  { intros sizes'. unfold layout. rewrite (all_ops_defined S r N).
    set (ops := flat_map (fun X => turn_ops X [] r) (spost S)).
    destruct (all_species_V_defined P ops (measure_all ops (spost S) sizes')) as [lays ->]; eauto.
    - intros X l H. split.
      + destruct (anchors_run S r ops X N SI (all_ops_defined S r N)) as [fin [R _]]. eauto.
      + destruct (measure_all_spec ops (spost S) sizes') as [_ B]. eauto.
    - intros X. apply wflook_refs. unfold ops. apply ops_look; auto. }
  destruct o; [apply KV|]. rewrite mirror. destruct (KV (map tp sizes)) as [t ->]. simpl. eauto.
Qed.
