From Coq Require Import List Bool Arith QArith Qminmax.
From SR Require Import Base.PathB Model.Recon Model.Branches Model.Layout.
Import ListNotations.

Example layout_smoke :
  layout Vertical {| pad := 4; gsp := 5; ovh := 10; mss := 12; lsp := 4 |}
         (SNode SLeaf SLeaf) (RNode [] (RLeaf [false]) (RLeaf [true])) [(1, 1); (1, 1); (1, 1)] <> None.
Proof. vm_compute. discriminate. Qed.
