(** Closing corollaries asked for by review C (/tmp/reviewC.md items 13, 11, 4, 12, 9, 7).
    One Module per part; each part begins with the [Require]s it needs.
      PartA       (item 13) non-emptiness / exactness / ANY of the labelled solvers, full statements
      PartB_C03   (item 11) generated unordered solvers = exactly the minimum-cost valid solutions
      PartB_C02   (item 11) generated ordered solvers   = exactly the minimum-cost valid ordered solutions, STAGE 1 composed
      PartD       (item 12) [valid_lab] + non-empty leaf syntenies -> [well_ordered]; [chain_length]
      PartC*      (item 4)  the generated entry points under the ANY policy
      PartE       (item 9)  the speciation-cost bound of C07 is needed
      PartF       (item 7)  names pass through [escape] in the labels of Model/Tikz.v *)
From Coq Require Import List Bool Arith ZArith NArith Lia Permutation.
From SR Require Import Base.PathB Base.Ext Model.Subseq Model.Entry Model.Recon Model.LcaRec Model.Thl Model.Spfs Model.Uspfs
  Proofs.SubseqProofs Proofs.PathFacts Proofs.ReconProofs Proofs.LabelCostProofs Proofs.ThlProofs
  Proofs.SpfsProofs Proofs.SpfsFinal Proofs.UspfsProofs Proofs.UspfsFinal Proofs.AllAnyProofs.
From SR Require Gen.UspfsGen Gen.SpfsGen Proofs.UspfsGenStage1 Proofs.UspfsGenProofs Proofs.UspfsGenLink Proofs.SpfsGenProofs
  Proofs.EvalGenProofs Proofs.EntryGenProofs Proofs.UspfsGenCommon.
Import ListNotations.
Local Open Scope Z_scope.

(* ================================================================== *)
(** * A (review item 13): the non-emptiness / exactness / ANY lemmas of the labelled solvers, with full statements *)
Module PartA.

Theorem c03_all_nonempty : forall (S : stree) (c : costs) (extended : bool) (O : otree),
  nn (c_hgt c) -> ucoherent c -> leaves_ok S O ->
  exists E : entry ltree, uspfs S c RALL extended O = Some E /\ tags E <> [].
Proof. exact uspfs_all_nonempty. Qed.
Print Assumptions c03_all_nonempty.

Theorem c03_all_exact : forall (S : stree) (c : costs) (extended : bool) (O : otree),
  nn (c_hgt c) -> ucoherent c -> leaves_ok S O ->
  exists E : entry ltree, uspfs S c RALL extended O = Some E /\ NoDup (tags E) /\
    (forall t : ltree, In t (tags E) <-> uoptimal S c extended O t).
Proof. exact uspfs_all_exact. Qed.
Print Assumptions c03_all_exact.

(* the same against the minimum over ALL valid labellings (canonical or not) *)
Theorem c03_all_exact_global : forall (S : stree) (c : costs) (extended : bool) (O : otree),
  nn (c_hgt c) -> ucoherent c -> leaves_ok S O ->
  exists E : entry ltree, uspfs S c RALL extended O = Some E /\ NoDup (tags E) /\
    (forall t : ltree, In t (tags E) <->
       (usol S extended O t /\ forall t' : ltree, uall_sol S extended O t' -> ele (ucost c O t) (ucost c O t'))).
Proof. exact uspfs_all_exact_global. Qed.
Print Assumptions c03_all_exact_global.

Theorem c03_any : forall (S : stree) (c : costs) (extended : bool) (O : otree),
  nn (c_hgt c) -> ucoherent c -> leaves_ok S O ->
  exists (E : entry ltree) (t : ltree),
    uspfs S c RANY extended O = Some E /\ tags E = [t] /\ uoptimal S c extended O t.
Proof. exact uspfs_any. Qed.
Print Assumptions c03_any.

Theorem c02_any : forall (S : stree) (c : costs) (extended : bool) (orders : list (list fam)) (O : otree),
  nn (c_hgt c) -> orders_ok S O orders -> coherent_ord c ->
  exists e : entry ltree, spfs S c RANY extended orders O = Some e /\
    ((tags e = [] /\ (forall lt : ltree, ~ sol S extended orders O lt)) \/
     (exists lt : ltree, tags e = [lt] /\ optimal_sol S c extended orders O lt)).
Proof. exact spfs_any. Qed.
Print Assumptions c02_any.

Theorem c02_all_exact : forall (S : stree) (c : costs) (extended : bool) (orders : list (list fam)) (O : otree),
  nn (c_hgt c) -> orders_ok S O orders -> coherent_ord c ->
  forall e : entry ltree, spfs S c RALL extended orders O = Some e ->
  forall lt : ltree, In lt (tags e) <-> optimal_sol S c extended orders O lt.
Proof. exact spfs_all_exact. Qed.
Print Assumptions c02_all_exact.

End PartA.
(* ================================================================== *)
(** * B (review item 11), C03: the generated unordered solvers return exactly the minimum-cost valid solutions *)
Module PartB_C03.
Import SR.Proofs.EntryGenProofs SR.Proofs.EvalGenProofs.
Import SR.Proofs.UspfsGenCommon.Common SR.Proofs.UspfsGenCommon.Embed.
Import SR.Proofs.UspfsGenLink.UspfsLink.

Section C03.
  Context {lca node_id olca : Type} (nid_eqb : node_id -> node_id -> bool).
  Hypothesis nid_eqb_spec : forall a b, reflect (a = b) (nid_eqb a b).
  Notation tree := (EV.TreeNode node_id).
  Notation spout := (@UG.spout_state fam path lca node_id).
  Variables (lcaobj : lca) (S : stree) (c : costs) (leafsp : node_id -> path) (syn : node_id -> list fam) (O : tree).
  Variables (missing : node_id -> path) (missing_syn : node_id -> list fam) (ord_infos : list ca -> list ca).
  Variables (fam_order sort_synteny_fn : list fam -> list fam).
  Variable oeqb : spout -> spout -> bool.
  Variables (olca_of : tree -> olca) (olca_call : olca -> list node_id -> node_id)
            (syn_items : (node_id -> list fam) -> list (node_id * list fam)) (node_order : list node_id -> list node_id).
  Notation ST := (sembed3 S []).
  Notation ot := (otree_of leafsp syn).
  Notation sin := (EV.mk_sin O lcaobj leafsp (stsocc c) syn).
  Notation DIST := (fun (_ : lca) => dist).
  Notation ANC := (fun (_ : lca) => anc).
  Notation SANC := (fun (_ : lca) => sanc).
  Notation COMP := (fun (_ : lca) => comparable).
  Notation LCP := (fun (_ : lca) => lcp).
  Notation LT := (lt_out nid_eqb O missing missing_syn).
  Notation WW := (W nid_eqb S c leafsp syn O missing missing_syn ord_infos fam_order sort_synteny_fn oeqb
                    olca_of olca_call syn_items node_order).

  (** the specification: [t] is a canonical valid labelling (base variant: on the LCA mapping) whose cost is minimal
      among ALL valid labellings, canonical or not *)
  Definition umin_sol (extended : bool) (t : ltree) : Prop :=
    usol S extended (ot O) t /\ forall t', uall_sol S extended (ot O) t' -> ele (ucost c (ot O) t) (ucost c (ot O) t').

  (* the model half, in the form the two corollaries use *)
  Lemma model_exact extended : WW -> ucoherent c ->
    exists E, uspfs S c RALL extended (ot O) = Some E /\ tags E <> [] /\ NoDup (tags E) /\
      forall t, In t (tags E) <-> umin_sol extended t.
  Proof.
    intros [Hh [_ [_ [Lv _]]]] Hc.
    destruct (uspfs_all_exact_global S c extended (ot O) Hh Hc Lv) as [E [HE [ND Ex]]].
    destruct (uspfs_all_nonempty S c extended (ot O) Hh Hc Lv) as [E' [HE' NE]].
    rewrite HE in HE'. injection HE' as <-. exists E. auto.
  Qed.

  Lemma finish (R : UG.res (list spout)) E :
    (exists outs, R = UG.Ok outs /\ Permutation (map LT outs) (tags E) /\ (outs = [] <-> tags E = [])) ->
    tags E <> [] -> NoDup (tags E) -> forall P : ltree -> Prop, (forall t, In t (tags E) <-> P t) ->
    exists outs, R = UG.Ok outs /\ outs <> [] /\ NoDup (map LT outs) /\ forall t, In t (map LT outs) <-> P t.
  Proof.
    intros [outs [Eo [Pm Em]]] NE ND P Ex. exists outs. split; [exact Eo|]. split; [|split].
    - intros X. apply NE. now apply Em.
    - eapply Permutation_NoDup; [apply Permutation_sym; exact Pm|exact ND].
    - intros t. rewrite <- Ex. split; intros H; [eapply Permutation_in; [exact Pm|exact H]|
        eapply Permutation_in; [apply Permutation_sym; exact Pm|exact H]].
  Qed.

  (** [usreconcile_extended_uspfs], generated code, ALL policy: it succeeds, and its outputs read as labelled trees are,
      without repetition, exactly the minimum-cost valid unordered solutions (at least one) *)
  Theorem c03_gen_extended_optimum : WW -> ucoherent c ->
    exists outs,
      UG.gen_usreconcile_extended_uspfs (fam := fam) N.eqb path_eqb nid_eqb ANC LCP DIST (fun _ => ST) olca_of olca_call syn_items fam_order
        node_order SANC COMP oeqb missing missing_syn ord_infos sort_synteny_fn sin (prc RALL) = UG.Ok outs /\
      outs <> [] /\ NoDup (map LT outs) /\
      forall t, In t (map LT outs) <-> umin_sol true t.
  Proof.
    intros HW Hc. destruct (model_exact true HW Hc) as [E [HE [NE [ND Ex]]]].
    pose proof (gen_usreconcile_extended_uspfs_model nid_eqb nid_eqb_spec lcaobj S c leafsp syn O missing missing_syn ord_infos
                  fam_order sort_synteny_fn oeqb olca_of olca_call syn_items node_order HW) as M.
    rewrite HE in M. exact (finish _ E M NE ND _ Ex).
  Qed.

  (** [usreconcile_base_uspfs]: the same among the labellings of the LCA species mapping *)
  Theorem c03_gen_base_optimum : WW -> ucoherent c ->
    exists outs,
      UG.gen_usreconcile_base_uspfs (fam := fam) N.eqb path_eqb nid_eqb ANC LCP DIST (fun _ => ST) olca_of olca_call syn_items fam_order
        node_order SANC COMP oeqb missing missing_syn ord_infos sort_synteny_fn sin (prc RALL) = UG.Ok outs /\
      outs <> [] /\ NoDup (map LT outs) /\
      forall t, In t (map LT outs) <-> umin_sol false t.
  Proof.
    intros HW Hc. destruct (model_exact false HW Hc) as [E [HE [NE [ND Ex]]]].
    pose proof (gen_usreconcile_base_uspfs_model nid_eqb nid_eqb_spec lcaobj S c leafsp syn O missing missing_syn ord_infos
                  fam_order sort_synteny_fn oeqb olca_of olca_call syn_items node_order HW) as M.
    rewrite HE in M. exact (finish _ E M NE ND _ Ex).
  Qed.
End C03.

Print Assumptions c03_gen_extended_optimum.
Print Assumptions c03_gen_base_optimum.

(* the hypotheses are satisfiable: the instance of [UspfsLink.Ex] *)
Example c03_hyps_satisfiable :
  W Nat.eqb Ex.S0 Ex.c0 Ex.leafsp0 Ex.syn0 Ex.O0 Ex.miss0 Ex.msyn0 Ex.ord0 Ex.fam_order0 Ex.sort0 Ex.oeqb0 (fun _ => tt)
    Ex.E1.olca_call1 Ex.E1.items1 Ex.E1.order1 /\ ucoherent Ex.c0.
Proof. split; [exact Ex.W_satisfiable|vm_compute; repeat split; discriminate]. Qed.
Print Assumptions c03_hyps_satisfiable.
End PartB_C03.
(* ================================================================== *)
(** * B (review item 11), C02: the generated ordered solvers return exactly the minimum-cost valid ordered solutions *)
Module PartB_C02.
Import SR.Gen.SpfsGen SR.Proofs.SpfsGenProofs.
Import SR.Proofs.EntryGenProofs SR.Proofs.EvalGenProofs.

Section C02.
  Context {lca node_id : Type} (nid_eqb : node_id -> node_id -> bool).
  Hypothesis nid_eqb_spec : forall a b, reflect (a = b) (nid_eqb a b).
  Notation tree := (EV.TreeNode node_id).
  Notation spout := (@SG.spout_state fam path lca node_id).
  Variables (lcaobj : lca) (S : stree) (c : costs) (leafsp : node_id -> path) (syn : node_id -> list fam) (O : tree).
  Variables (missing : node_id -> path) (missing_syn : node_id -> list fam) (ord_infos : list ca -> list ca).
  Variable oeqb : spout -> spout -> bool.
  Variables (syn_mem : (node_id -> list fam) -> node_id -> bool) (syn_items : (node_id -> list fam) -> list (fam * list fam))
            (set_order : list fam -> list fam) (graph_of_prec : list (fam * list fam) -> list (fam * list fam))
            (find_cycle_fn : list (fam * list fam) -> list fam).
  Notation ST := (sembed3 S []).
  Notation OT := (otree_of leafsp syn).
  Notation sin := (EV.mk_sin O lcaobj leafsp (stsocc c) syn).
  Notation DIST := (fun (_ : lca) => dist).
  Notation ANC := (fun (_ : lca) => anc).
  Notation SANC := (fun (_ : lca) => sanc).
  Notation COMP := (fun (_ : lca) => comparable).
  Notation LCP := (fun (_ : lca) => lcp).
  Notation LT := (lt_out nid_eqb O missing missing_syn).
  Notation WW := (W nid_eqb S c leafsp syn O missing missing_syn ord_infos oeqb).
  Notation GEN_EXT := (SG.gen_sreconcile_extended_spfs fam_eqb path_eqb nid_eqb ANC LCP DIST (fun _ => ST) SANC COMP oeqb missing missing_syn
                         ord_infos syn_mem syn_items set_order graph_of_prec find_cycle_fn sin (prc RALL)).
  Notation GEN_BASE := (SG.gen_sreconcile_base_spfs fam_eqb path_eqb nid_eqb ANC LCP DIST (fun _ => ST) SANC COMP oeqb missing missing_syn
                         ord_infos syn_mem syn_items set_order graph_of_prec find_cycle_fn sin (prc RALL)).

  (** the specifications (those of [C02_ext_spfs_optimum] / [C02_base_spfs_optimum]), over a predicate [ok] on root orders *)
  Definition ext_min (ok : list fam -> Prop) (lt : ltree) : Prop :=
    (exists ord, ok ord /\ valid_ordered S ord (OT O) lt) /\
    forall lt' ord', ok ord' -> valid_ordered S ord' (OT O) lt' -> ele (cost_of c (OT O) lt) (cost_of c (OT O) lt').
  Definition base_min (ok : list fam -> Prop) (lt : ltree) : Prop :=
    (exists ord, ok ord /\ valid_ordered S ord (OT O) lt /\ forget lt = lca_rec (OT O)) /\
    forall lt' ord', ok ord' -> valid_ordered S ord' (OT O) lt' -> forget lt' = lca_rec (OT O) ->
      ele (cost_of c (OT O) lt) (cost_of c (OT O) lt').

  Lemma finish (R : SG.res (list spout)) e :
    (exists outs, R = SG.Ok outs /\ Permutation (map LT outs) (tags e) /\ (outs = [] <-> tags e = [])) ->
    NoDup (tags e) -> forall P : ltree -> Prop, (forall t, In t (tags e) <-> P t) ->
    exists outs, R = SG.Ok outs /\ (outs = [] <-> tags e = []) /\ NoDup (map LT outs) /\ forall t, In t (map LT outs) <-> P t.
  Proof.
    intros [outs [Eo [Pm Em]]] ND P Ex. exists outs. split; [exact Eo|]. split; [exact Em|]. split.
    - eapply Permutation_NoDup; [apply Permutation_sym; exact Pm|exact ND].
    - intros t. rewrite <- Ex. split; intros H; [eapply Permutation_in; [exact Pm|exact H]|
        eapply Permutation_in; [apply Permutation_sym; exact Pm|exact H]].
  Qed.

  Lemma all_nodup extended orders e : spfs S c RALL extended orders (OT O) = Some e -> NoDup (tags e).
  Proof. exact (spfs_all_nodup S c extended orders (OT O) e). Qed.

  (** ** version 1: any root orders the code considers (a prescribed root synteny included), [orders_ok] assumed.
      The premise [spfs_orders .. orders] says that STAGE 1 of the code ([_make_prec_graph] + [toposort_all], or the
      prescribed root synteny) produced [orders]; that these are well-formed ([orders_ok]: duplicate-free, every leaf
      synteny a non-empty subsequence, leaves at species of [S]) is an EXPLICIT EXTRA HYPOTHESIS here; version 2 below
      derives it through Stage 1 when no root synteny is prescribed *)
  Theorem c02_gen_extended_optimum_orders orders : WW -> coherent_ord c ->
    spfs_orders syn O syn_mem syn_items set_order graph_of_prec orders -> orders_ok S (OT O) orders ->
    exists outs, GEN_EXT = SG.Ok outs /\ NoDup (map LT outs) /\
      forall lt, In lt (map LT outs) <-> ext_min (fun ord => In ord orders) lt.
  Proof.
    intros HW Hc Ho HO. pose proof HW as [Hh _].
    destruct (spfs_returns S c RALL true orders (OT O) Hh HO) as [e He].
    pose proof (gen_sreconcile_extended_spfs_model nid_eqb nid_eqb_spec lcaobj S c leafsp syn O missing missing_syn ord_infos oeqb
                  syn_mem syn_items set_order graph_of_prec find_cycle_fn orders HW Ho) as M.
    rewrite He in M.
    destruct (finish _ e M (all_nodup true orders e He) _ (ext_spfs_optimum S c orders (OT O) e Hh Hc HO He)) as [outs [E1 [_ [E2 E3]]]].
    exists outs. auto.
  Qed.

  Theorem c02_gen_base_optimum_orders orders : WW -> coherent_ord c ->
    spfs_orders syn O syn_mem syn_items set_order graph_of_prec orders -> orders_ok S (OT O) orders ->
    exists outs, GEN_BASE = SG.Ok outs /\ NoDup (map LT outs) /\
      forall lt, In lt (map LT outs) <-> base_min (fun ord => In ord orders) lt.
  Proof.
    intros HW Hc Ho HO. pose proof HW as [Hh _].
    destruct (spfs_returns S c RALL false orders (OT O) Hh HO) as [e He].
    pose proof (gen_sreconcile_base_spfs_model nid_eqb nid_eqb_spec lcaobj S c leafsp syn O missing missing_syn ord_infos oeqb
                  syn_mem syn_items set_order graph_of_prec find_cycle_fn orders HW Ho) as M.
    rewrite He in M.
    destruct (finish _ e M (all_nodup false orders e He) _ (base_spfs_optimum S c orders (OT O) e Hh Hc HO He)) as [outs [E1 [_ [E2 E3]]]].
    exists outs. auto.
  Qed.

  (** ** version 2: no prescribed root synteny; STAGE 1 composed ([gen_root_orders_spec_perm], [prec_rename_N],
      [toposort_all_rename], [root_orders_ok], [root_orders_spec]): the root orders are the COMPATIBLE orders of the
      leaf syntenies, the code does not fail in stage 1, and the result is empty exactly when no order is compatible.
      Hypotheses on the untranslated parts: the root has no entry in [leaf_syntenies] ([syn_mem]); the values of the items
      of [leaf_syntenies] are the syntenies of the leaves in some order; sets are iterated in some order ([set_order],
      and [graph_of_prec] gives each successor set an order [sord]); every leaf synteny is non-empty ([leaves_wf]) *)
  Definition stage1_hyps : Prop :=
    syn_mem syn (EV.TreeNode_id O) = false /\
    Permutation (map snd (syn_items syn)) (leaf_syns (OT O)) /\
    (forall l, Permutation (set_order l) l) /\
    (exists sord : list fam -> list fam, (forall l, Permutation (sord l) l) /\
       forall g, graph_of_prec g = map (fun kv => (fst kv, sord (snd kv))) g) /\
    leaves_wf S (OT O).

  Lemma map_of_to (l : list N) : map N.of_nat (map N.to_nat l) = l.
  Proof. rewrite map_map. rewrite <- (map_id l) at 2. apply map_ext. intros x. apply N2Nat.id. Qed.
  Lemma map_to_of (l : list nat) : map N.to_nat (map N.of_nat l) = l.
  Proof. rewrite map_map. rewrite <- (map_id l) at 2. apply map_ext. intros x. apply Nat2N.id. Qed.

  Lemma stage1_orders : stage1_hyps ->
    exists orders ro, spfs_orders syn O syn_mem syn_items set_order graph_of_prec orders /\
      root_orders (OT O) = Some ro /\ Permutation orders ro.
  Proof.
    intros [Hmem [Hit [Hso [[sord [Hsord Hgp]] Hwf]]]].
    set (rnN := fun kv : nat * list nat => (N.of_nat (fst kv), map N.of_nat (snd kv))).
    set (items := map (fun kv : fam * list fam => (N.to_nat (fst kv), map N.to_nat (snd kv))) (syn_items syn)).
    set (ordA := fun l : list nat => map N.to_nat (set_order (map N.of_nat l))).
    set (sordA := fun l : list nat => map N.to_nat (sord (map N.of_nat l))).
    assert (Eit : map rnN items = syn_items syn).
    { unfold items. rewrite map_map. rewrite <- (map_id (syn_items syn)) at 2. apply map_ext. intros [k v]. unfold rnN. cbn [fst snd].
      now rewrite N2Nat.id, map_of_to. }
    assert (HordA : ToposortProofs.set_order ordA).
    { intros l. unfold ordA. rewrite <- (map_to_of l) at 2. apply Permutation_map. apply Hso. }
    assert (HsordA : ToposortProofs.set_order sordA).
    { intros l. unfold sordA. rewrite <- (map_to_of l) at 2. apply Permutation_map. apply Hsord. }
    assert (Hit' : Permutation (map snd items) (map (map N.to_nat) (leaf_syns (OT O)))).
    { unfold items. rewrite map_map. cbn [snd]. rewrite <- (map_map snd (map N.to_nat)). now apply Permutation_map. }
    assert (Hne : forall s : list fam, In s (leaf_syns (OT O)) -> s <> []).
    { clear - Hwf. induction (OT O) as [sp y|a IHa b IHb]; cbn [leaf_syns leaves_wf] in *.
      - intros s [<-|[]]. tauto.
      - intros s Hs. apply in_app_or in Hs as [Hs|Hs]; [apply IHa|apply IHb]; tauto. }
    destruct (Stage1.gen_root_orders_spec_perm (OT O) ordA sordA items HordA HsordA Hit' Hne) as [g [R [ro [Eg [ER [Ero Pr]]]]]].
    exists (map (map N.of_nat) R), ro. split; [|split; [exact Ero|exact Pr]].
    unfold spfs_orders. rewrite Hmem. exists (map rnN g). split.
    - unfold SG.gen_make_prec_graph_syn. rewrite <- Eit.
      pose proof (Rename.prec_rename_N items) as PR. fold rnN in PR.
      rewrite Eg in PR. cbn [Rename.pmap] in PR.
      change (SG.prec_res (Stage1.P.gen_make_prec_graph N.eqb (map rnN items)) = SG.Ok (map rnN g)).
      rewrite PR. reflexivity.
    - unfold SG.gen_toposort_all_prec. rewrite Hgp.
      assert (Egr : map (fun kv : fam * list fam => (fst kv, sord (snd kv))) (map rnN g)
                    = map (fun kv : nat * list nat => (N.of_nat (fst kv), map N.of_nat (snd kv))) (Stage1.reorder sordA g)).
      { unfold Stage1.reorder. rewrite !map_map. apply map_ext. intros [k ss]. unfold rnN, sordA. cbn [fst snd].
        now rewrite map_of_to. }
      rewrite Egr.
      assert (Hc : forall l : list nat, set_order (map N.of_nat l) = map N.of_nat (ordA l)).
      { intros l. unfold ordA. now rewrite map_of_to. }
      pose proof (Rename.toposort_all_rename Nat.eqb N.eqb N.of_nat Rename.N_of_nat_eqb ordA set_order Hc (Stage1.reorder sordA g)) as TR.
      rewrite ER in TR. cbn [Rename.gmap] in TR.
      change (SG.toposort_res (ToposortGenProofs.G.gen_toposort_all N.eqb set_order
                (map (fun kv : nat * list nat => (N.of_nat (fst kv), map N.of_nat (snd kv))) (Stage1.reorder sordA g)))
              = SG.Ok (map (map N.of_nat) R)).
      rewrite TR. reflexivity.
  Qed.

  Lemma stage1_facts : stage1_hyps ->
    exists orders, spfs_orders syn O syn_mem syn_items set_order graph_of_prec orders /\
      orders_ok S (OT O) orders /\ (forall ord, In ord orders -> root_fits (OT O) ord) /\
      forall ord, In ord orders <-> compatible_order (OT O) ord.
  Proof.
    intros H. destruct (stage1_orders H) as [orders [ro [Ho [Ero Pr]]]]. destruct H as [_ [_ [_ [_ Hwf]]]].
    destruct (root_orders_ok S (OT O) ro Hwf Ero) as [HO HF].
    exists orders. split; [exact Ho|]. split; [|split].
    - intros ord Hi. apply HO. eapply Permutation_in; eauto.
    - intros ord Hi. apply HF. eapply Permutation_in; eauto.
    - intros ord. rewrite <- (root_orders_spec (OT O) ro Ero ord). split; intros Hi.
      + eapply Permutation_in; eauto.
      + eapply Permutation_in; [apply Permutation_sym|]; eauto.
  Qed.

  Lemma ext_min_iff (ok ok' : list fam -> Prop) lt : (forall o, ok o <-> ok' o) -> ext_min ok lt <-> ext_min ok' lt.
  Proof.
    intros H. unfold ext_min. split; intros [[ord [H1 H2]] H3]; (split; [exists ord; split; [now apply H|exact H2]|]);
      intros lt' ord' Ho; apply H3; now apply H.
  Qed.
  Lemma base_min_iff (ok ok' : list fam -> Prop) lt : (forall o, ok o <-> ok' o) -> base_min ok lt <-> base_min ok' lt.
  Proof.
    intros H. unfold base_min. split; intros [[ord [H1 H2]] H3]; (split; [exists ord; split; [now apply H|exact H2]|]);
      intros lt' ord' Ho; apply H3; now apply H.
  Qed.

  (** [sreconcile_extended_spfs], generated code, ALL policy, root synteny not prescribed: the call succeeds; its outputs read
      as labelled trees are, without repetition, exactly the valid ordered solutions (root synteny = a compatible order of the
      leaf syntenies) of minimum cost over all compatible orders, species mappings and labellings; none exactly when no
      order is compatible *)
  Theorem c02_gen_extended_optimum : WW -> coherent_ord c -> stage1_hyps ->
    exists outs, GEN_EXT = SG.Ok outs /\ NoDup (map LT outs) /\
      (forall lt, In lt (map LT outs) <-> ext_min (compatible_order (OT O)) lt) /\
      (outs = [] <-> forall ord, ~ compatible_order (OT O) ord).
  Proof.
    intros HW Hc H1. pose proof HW as [Hh _]. destruct (stage1_facts H1) as [orders [Ho [HO [HF Hco]]]].
    destruct (spfs_returns S c RALL true orders (OT O) Hh HO) as [e He].
    pose proof (gen_sreconcile_extended_spfs_model nid_eqb nid_eqb_spec lcaobj S c leafsp syn O missing missing_syn ord_infos oeqb
                  syn_mem syn_items set_order graph_of_prec find_cycle_fn orders HW Ho) as M.
    rewrite He in M.
    destruct (finish _ e M (all_nodup true orders e He) _ (ext_spfs_optimum S c orders (OT O) e Hh Hc HO He)) as [outs [E1 [Em [E2 E3]]]].
    exists outs. split; [exact E1|]. split; [exact E2|]. split.
    - intros lt. rewrite (E3 lt). apply ext_min_iff. exact Hco.
    - rewrite Em, (spfs_empty_iff S c RALL true orders (OT O) e Hh HO ltac:(discriminate) HF He). split.
      + intros -> ord Hx. apply Hco in Hx. destruct Hx.
      + intros Hn. destruct orders as [|o l]; [reflexivity|]. exfalso. apply (Hn o). apply Hco. now left.
  Qed.

  Theorem c02_gen_base_optimum : WW -> coherent_ord c -> stage1_hyps ->
    exists outs, GEN_BASE = SG.Ok outs /\ NoDup (map LT outs) /\
      (forall lt, In lt (map LT outs) <-> base_min (compatible_order (OT O)) lt) /\
      (outs = [] <-> forall ord, ~ compatible_order (OT O) ord).
  Proof.
    intros HW Hc H1. pose proof HW as [Hh _]. destruct (stage1_facts H1) as [orders [Ho [HO [HF Hco]]]].
    destruct (spfs_returns S c RALL false orders (OT O) Hh HO) as [e He].
    pose proof (gen_sreconcile_base_spfs_model nid_eqb nid_eqb_spec lcaobj S c leafsp syn O missing missing_syn ord_infos oeqb
                  syn_mem syn_items set_order graph_of_prec find_cycle_fn orders HW Ho) as M.
    rewrite He in M.
    destruct (finish _ e M (all_nodup false orders e He) _ (base_spfs_optimum S c orders (OT O) e Hh Hc HO He)) as [outs [E1 [Em [E2 E3]]]].
    exists outs. split; [exact E1|]. split; [exact E2|]. split.
    - intros lt. rewrite (E3 lt). apply base_min_iff. exact Hco.
    - rewrite Em, (spfs_empty_iff S c RALL false orders (OT O) e Hh HO ltac:(discriminate) HF He). split.
      + intros -> ord Hx. apply Hco in Hx. destruct Hx.
      + intros Hn. destruct orders as [|o l]; [reflexivity|]. exfalso. apply (Hn o). apply Hco. now left.
  Qed.
End C02.
Print Assumptions c02_gen_extended_optimum_orders.
Print Assumptions c02_gen_base_optimum_orders.
Print Assumptions stage1_orders.
Print Assumptions c02_gen_extended_optimum.
Print Assumptions c02_gen_base_optimum.

(* the hypotheses are satisfiable: the instance of [SpfsLink.Ex] (two leaves with syntenies [1;2] and [2;3]) *)
Example c02_hyps_satisfiable :
  (W Nat.eqb Ex.S0 Ex.c0 Ex.leafsp0 Ex.syn0 Ex.O0 Ex.miss0 Ex.msyn0 Ex.ord0 Ex.oeqb0) /\ (coherent_ord Ex.c0) /\
  (stage1_hyps Ex.S0 Ex.leafsp0 Ex.syn0 Ex.O0 Ex.syn_mem0 Ex.syn_items0 Ex.set_order0 Ex.graph0).
Proof.
  split; [exact Ex.W_satisfiable|]. split; [vm_compute; repeat split; discriminate|].
  unfold stage1_hyps. split; [reflexivity|]. split; [vm_compute; apply Permutation_refl|].
  split; [intros l; apply Permutation_refl|]. split.
  - exists (fun l => l). split; [intros l; apply Permutation_refl|]. intros g. unfold Ex.graph0.
    rewrite <- (map_id g) at 1. apply map_ext. intros [k v]. reflexivity.
  - cbn. repeat split; discriminate.
Qed.
Print Assumptions c02_hyps_satisfiable.

End PartB_C02.
(** Review item 12 on C06: bridge from the validity predicate of the solvers ([valid_lab]) to the
    hypothesis [well_ordered] of the ordered recount theorem, and the length of a loss chain. *)
From Coq Require Import List Bool Arith ZArith NArith Lia.
From SR Require Import Base.PathB Base.Ext Model.Subseq Model.Recon
  Proofs.SubseqProofs Proofs.PathFacts Proofs.ReconProofs Proofs.LabelCostProofs Proofs.SpfsProofs.
Import ListNotations.
Local Open Scope Z_scope.

Module PartD.

(* every leaf of the input tree carries at least one family *)
Fixpoint leaves_nonempty (o : otree) : Prop :=
  match o with
  | OLeaf _ syn => syn <> []
  | ONode a b => leaves_nonempty a /\ leaves_nonempty b
  end.

(* non-emptiness travels up: a child synteny is a subsequence of its parent's *)
Theorem valid_lab_lsyn_nonempty : forall S O t,
  valid_lab S O t -> leaves_nonempty O -> lsyn t <> [].
Proof.
  intros S O t V. induction V as [sp syn V|a b s y la lb V E Sa Sb Va IHa Vb IHb]; intros L.
  - exact L.
  - destruct L as [La _]. cbn [lsyn]. intros Hy. subst y. apply (IHa La).
    now apply Subseq_nil_inv.
Qed.
Print Assumptions valid_lab_lsyn_nonempty.

(* the bridging theorem: validity + non-empty leaf syntenies give [well_ordered] *)
Theorem valid_lab_well_ordered : forall S O t,
  valid_lab S O t -> leaves_nonempty O -> well_ordered t.
Proof.
  intros S O t V. induction V as [sp syn V|a b s y la lb V E Sa Sb Va IHa Vb IHb]; intros L.
  - exact I.
  - destruct L as [La Lb]. cbn [well_ordered].
    split; [exact E|]. split; [eapply valid_lab_lsyn_nonempty; eauto|].
    split; [eapply valid_lab_lsyn_nonempty; eauto|].
    split; [exact Sa|]. split; [exact Sb|]. split; [now apply IHa|now apply IHb].
Qed.
Print Assumptions valid_lab_well_ordered.

(* the hypothesis is necessary below an internal node *)
Theorem well_ordered_leaves_nonempty : forall S a b t,
  valid_lab S (ONode a b) t -> well_ordered t -> leaves_nonempty (ONode a b).
Proof.
  assert (H : forall S O t, valid_lab S O t -> well_ordered t -> lsyn t <> [] -> leaves_nonempty O).
  { intros S O t V. induction V as [sp syn V|a b s y la lb V E Sa Sb Va IHa Vb IHb]; intros W N.
    - exact N.
    - cbn [well_ordered] in W. destruct W as [_ [Na [Nb [_ [_ [Wa Wb]]]]]].
      split; [now apply IHa|now apply IHb]. }
  intros S a b t V W. inversion V as [|a' b' s y la lb Vs E Sa Sb Va Vb]; subst.
  cbn [well_ordered] in W. destruct W as [_ [Na [Nb [_ [_ [Wa Wb]]]]]].
  split; [eapply H; eauto|eapply H; eauto].
Qed.
Print Assumptions well_ordered_leaves_nonempty.

(* the input hypothesis of the ordered solver implies ours *)
Theorem leaves_ord_nonempty : forall S ord O, leaves_ord S ord O -> leaves_nonempty O.
Proof.
  intros S ord O. induction O as [sp syn|a IHa b IHb]; cbn [leaves_ord leaves_nonempty].
  - intros [_ [N _]]. exact N.
  - intros [La Lb]. split; auto.
Qed.
Print Assumptions leaves_ord_nonempty.

(* recount for every valid labelled solution with non-empty leaf syntenies and a duplicate-free
   root order *)
Theorem c06_ordered_recount_valid : forall c S O t,
  valid_lab S O t -> leaves_nonempty O -> NoDup (lsyn t) ->
  ordered_labeling_cost c t = Some (c_sloss c * olab_spec t).
Proof.
  intros c S O t V L ND. apply ordered_labeling_recount; [exact ND|].
  eapply valid_lab_well_ordered; eauto.
Qed.
Print Assumptions c06_ordered_recount_valid.

Theorem c06_ordered_recount_valid_ordered : forall c S ord O t,
  NoDup ord -> valid_ordered S ord O t -> leaves_nonempty O ->
  ordered_labeling_cost c t = Some (c_sloss c * olab_spec t).
Proof.
  intros c S ord O t ND [V E] L. eapply c06_ordered_recount_valid; eauto. now rewrite E.
Qed.
Print Assumptions c06_ordered_recount_valid_ordered.

(* number of losses on a branch = length of the species path below *)
Theorem c06_chain_length : forall s d, length (chain s d) = length d.
Proof. exact chain_length. Qed.
Print Assumptions c06_chain_length.

(* non-vacuity: the labelled tree of [C06_example] *)
Example partD_example :
  let S := SNode (SNode SLeaf SLeaf) SLeaf in
  let O := ONode (ONode (OLeaf [false; false] [1;2]%N) (OLeaf [false; true] [2;3]%N)) (OLeaf [true] [1;3]%N) in
  let t := LNode [] [1;2;3]%N (LNode [false] [1;2;3]%N (LLeaf [false; false] [1;2]%N) (LLeaf [false; true] [2;3]%N))
                 (LLeaf [true] [1;3]%N) in
  valid_lab S O t /\ leaves_nonempty O /\ NoDup (lsyn t).
Proof.
  cbv zeta. split; [|split].
  - repeat (constructor; try reflexivity; try discriminate).
  - cbn. repeat split; discriminate.
  - repeat constructor; simpl; intuition discriminate.
Qed.
Print Assumptions partD_example.

End PartD.
(** The generated [reconcile_thl] under the ANY policy (review item 4): the single reconciliation the generated
    code returns is one of the reconciliations of the model under ALL, i.e. an optimal one. *)
From Coq Require Import List Bool ZArith NArith Lia Permutation.
From SR Require Import Base.PathB Base.Ext Model.Entry Model.Recon Model.Thl
  Proofs.PathFacts Proofs.EntryProofs Proofs.ReconProofs Proofs.ExhProofs Proofs.ThlProofs Proofs.EntryGenProofs Proofs.EvalGenProofs
  Proofs.TableGenProofs Proofs.DpProofs Proofs.ThlGenProofs Proofs.AllAnyProofs Proofs.ThlFinal.
From SR Require Gen.EntryGen Gen.TableGen Gen.EvalGen Gen.ThlGen.
Import ListNotations.
Local Open Scope Z_scope.

Module PartCthl.

(* ------------------------------------------------------------------ *)
(** * Entries under ANY against entries under ALL
    [esub e e']: the same value, tags empty together, every tag of [e] is a tag of [e'].
    [csub cs cs']: candidate lists, all tagged, with the same values, [cs] included in [cs']. *)
Section Sub.
  Context {X : Type} (eqb : X -> X -> bool).
  Hypothesis eqb_spec : forall x y, reflect (x = y) (eqb x y).

  Definition esub (e e' : entry X) : Prop :=
    val e = val e' /\ (tags e = [] <-> tags e' = []) /\ (forall t, In t (tags e) -> In t (tags e')).
  Definition csub (cs cs' : list (ext * option X)) : Prop :=
    tagged cs /\ tagged cs' /\ vsame cs cs' /\ (forall x, In x cs -> In x cs').

  Notation upd rp cs := (update eqb MIN rp (default_entry MIN) cs).

  Lemma upd_val_any_all cs cs' : vsame cs cs' -> val (upd RANY cs) = val (upd RALL cs').
  Proof.
    intros V. rewrite (upd_val_vsame eqb RANY cs cs' V).
    apply (upd_val_set eqb cs' cs' (fun x => iff_refl _) RANY RALL).
  Qed.

  Lemma upd_sub cs cs' : csub cs cs' -> esub (upd RANY cs) (upd RALL cs').
  Proof.
    intros [Tg [Tg' [V I]]]. pose proof (upd_val_any_all cs cs' V) as Ev. split; [exact Ev|]. split.
    - rewrite (upd_tags_empty eqb eqb_spec RANY cs ltac:(discriminate) Tg),
        (upd_tags_empty eqb eqb_spec RALL cs' ltac:(discriminate) Tg'), <- Ev.
      now rewrite (V (val (upd RANY cs))).
    - intros t Ht. destruct (entry_tags_any eqb MIN cs) as [[E _]|[u [E Hu]]]; cbv zeta in *.
      + rewrite E in Ht. destruct Ht.
      + rewrite E in Ht. destruct Ht as [<-|[]].
        apply (entry_tags_all eqb eqb_spec MIN cs' u). cbv zeta. rewrite <- Ev. now apply I.
  Qed.

  Lemma csub_app a a' b b' : csub a a' -> csub b b' -> csub (a ++ b) (a' ++ b').
  Proof.
    intros [T1 [T1' [V1 S1]]] [T2 [T2' [V2 S2]]]. repeat split.
    - intros v o I. apply in_app_or in I as [I|I]; eauto.
    - intros v o I. apply in_app_or in I as [I|I]; eauto.
    - intros [o I]. apply in_app_or in I as [I|I].
      + destruct (proj1 (V1 v) (ex_intro _ o I)) as [o' I']. exists o'. apply in_or_app. now left.
      + destruct (proj1 (V2 v) (ex_intro _ o I)) as [o' I']. exists o'. apply in_or_app. now right.
    - intros [o I]. apply in_app_or in I as [I|I].
      + destruct (proj2 (V1 v) (ex_intro _ o I)) as [o' I']. exists o'. apply in_or_app. now left.
      + destruct (proj2 (V2 v) (ex_intro _ o I)) as [o' I']. exists o'. apply in_or_app. now right.
    - intros x I. apply in_app_or in I as [I|I]; apply in_or_app; [left; now apply S1|right; now apply S2].
  Qed.

  Lemma csub_nil : csub [] [].
  Proof. split; [intros ? ? []|]. split; [intros ? ? []|]. split; [intros v; split; intros [? []]|intros ? []]. Qed.

  Lemma cands_sub (e e' : entry X) : esub e e' -> csub (cands e) (cands e').
  Proof.
    intros [Ev [Ee Es]]. unfold cands. repeat split.
    - intros v o I. apply in_map_iff in I as [t [E _]]. inversion E. eauto.
    - intros v o I. apply in_map_iff in I as [t [E _]]. inversion E. eauto.
    - intros [o I]. apply in_map_iff in I as [t [E I]]. inversion E; subst.
      destruct (tags e') as [|t' l'] eqn:E'; [rewrite (proj2 Ee eq_refl) in I; destruct I|].
      exists (Some t'). apply in_map_iff. exists t'. split; [now rewrite Ev|now left].
    - intros [o I]. apply in_map_iff in I as [t [E I]]. inversion E; subst.
      destruct (tags e) as [|t' l'] eqn:E'; [rewrite (proj1 Ee eq_refl) in I; destruct I|].
      exists (Some t'). apply in_map_iff. exists t'. split; [now rewrite Ev|now left].
    - intros x I. apply in_map_iff in I as [t [<- I]]. apply in_map_iff. exists t. split; [now rewrite Ev|now apply Es].
  Qed.
End Sub.

Lemma agg_sub xs f g : (forall x, In x xs -> f x = g x) -> esub (agg RANY xs f) (agg RALL xs g).
Proof.
  intros E. unfold agg. apply (upd_sub path_eqb path_eqb_spec'). repeat split.
  - intros v o I. apply in_map_iff in I as [x [H _]]. inversion H. eauto.
  - intros v o I. apply in_map_iff in I as [x [H _]]. inversion H. eauto.
  - intros [o I]. apply in_map_iff in I as [x [H I]]. inversion H; subst. exists (Some x). apply in_map_iff. exists x.
    split; [now rewrite E|exact I].
  - intros [o I]. apply in_map_iff in I as [x [H I]]. inversion H; subst. exists (Some x). apply in_map_iff. exists x.
    split; [now rewrite E|exact I].
  - intros y I. apply in_map_iff in I as [x [<- I]]. apply in_map_iff. exists x. split; [now rewrite E|exact I].
Qed.

Lemma comb_sub k (E1 E2 E1' E2' : entry path) : esub E1 E1' -> esub E2 E2' ->
  esub (combine tag_eqb MIN RANY E1 E2 (event_comb k (val E1) (val E2)))
       (combine tag_eqb MIN RALL E1' E2' (event_comb k (val E1') (val E2'))).
Proof.
  intros [V1 [N1 S1]] [V2 [N2 S2]]. unfold combine. apply (upd_sub tag_eqb tag_eqb_spec). rewrite <- V1, <- V2.
  fold (pairs E1 E2 (event_comb k (val E1) (val E2))) (pairs E1' E2' (event_comb k (val E1) (val E2))).
  repeat split.
  - intros v o I. apply In_pairs in I as [a [b [_ [_ E]]]]. inversion E. eauto.
  - intros v o I. apply In_pairs in I as [a [b [_ [_ E]]]]. inversion E. eauto.
  - intros [o I]. apply In_pairs in I as [a [b [Ia [Ib E]]]]. inversion E; subst.
    destruct (tags E1') as [|a' l1] eqn:T1; [rewrite (proj2 N1 eq_refl) in Ia; destruct Ia|].
    destruct (tags E2') as [|b' l2] eqn:T2; [rewrite (proj2 N2 eq_refl) in Ib; destruct Ib|].
    exists (Some (a', b')). apply In_pairs. exists a', b'. rewrite T1, T2. repeat split; now left.
  - intros [o I]. apply In_pairs in I as [a [b [Ia [Ib E]]]]. inversion E; subst.
    destruct (tags E1) as [|a' l1] eqn:T1; [rewrite (proj1 N1 eq_refl) in Ia; destruct Ia|].
    destruct (tags E2) as [|b' l2] eqn:T2; [rewrite (proj1 N2 eq_refl) in Ib; destruct Ib|].
    exists (Some (a', b')). apply In_pairs. exists a', b'. rewrite T1, T2. repeat split; now left.
  - intros x I. apply In_pairs in I as [a [b [Ia [Ib ->]]]]. apply In_pairs. exists a, b.
    repeat split; [now apply S1|now apply S2].
Qed.

Lemma spe_batch_sub c A B A' B' s xl xr : (forall x, A x = A' x /\ B x = B' x) ->
  csub (spe_batch_o c RANY A B s xl xr) (spe_batch_o c RALL A' B' s xl xr).
Proof.
  intros E. unfold spe_batch_o. apply csub_app; apply cands_sub; apply comb_sub; apply agg_sub;
    intros x Hx; destruct (E x) as [Ea Eb]; now rewrite ?Ea, ?Eb.
Qed.

Lemma dt_batch_sub c A B A' B' s xc xs : (forall x, A x = A' x /\ B x = B' x) ->
  csub (dt_batch_o c RANY A B s xc xs) (dt_batch_o c RALL A' B' s xc xs).
Proof.
  intros E. unfold dt_batch_o. repeat apply csub_app; apply cands_sub; apply comb_sub; apply agg_sub;
    intros x Hx; destruct (E x) as [Ea Eb]; now rewrite ?Ea, ?Eb.
Qed.

Lemma cell_sub1 b b' : csub b b' -> esub (cell_upd RANY (default_entry MIN) b) (cell_upd RALL (default_entry MIN) b').
Proof.
  intros C. rewrite !cell_upd_default. apply (upd_sub tag_eqb tag_eqb_spec).
  pose proof C as [_ [_ [V _]]]. rewrite (has_finite_vsame b b' V). destruct (Thl.has_finite b'); [exact C|apply csub_nil].
Qed.

Lemma cell_sub2 b1 b1' b2 b2' : csub b1 b1' -> csub b2 b2' ->
  esub (cell_upd RANY (cell_upd RANY (default_entry MIN) b1) b2) (cell_upd RALL (cell_upd RALL (default_entry MIN) b1') b2').
Proof.
  intros C1 C2. rewrite (e2_applied RANY b1 b2), (e2_applied RALL b1' b2'). apply (upd_sub tag_eqb tag_eqb_spec). unfold applied.
  pose proof C1 as [_ [_ [V1 _]]]. pose proof C2 as [_ [_ [V2 _]]].
  rewrite (has_finite_vsame b1 b1' V1), (has_finite_vsame b2 b2' V2).
  apply csub_app; [destruct (Thl.has_finite b1')|destruct (Thl.has_finite b2')]; auto using csub_nil.
Qed.

Lemma esub_refl_notags {X} (e : entry X) : tags e = [] -> esub e e.
Proof. intros E. repeat split; auto. Qed.

(** (a) every cell of the table the code computes under ANY against the cell it computes under ALL *)
Theorem tcell_any_all {node_id} c ST (leafsp : node_id -> path) (t : EV.TreeNode node_id) : forall s,
  esub (tcell c RANY ST leafsp t s) (tcell c RALL ST leafsp t s).
Proof.
  induction t as [i|i a IHa b IHb]; intros s.
  - cbn [tcell]. repeat split; auto.
  - cbn [tcell]. destruct (find_sp s (T.STree_postorder ST)) as [rs|]; [|repeat split; auto].
    assert (E : forall x, val (tcell c RANY ST leafsp a x) = val (tcell c RALL ST leafsp a x) /\
                          val (tcell c RANY ST leafsp b x) = val (tcell c RALL ST leafsp b x)).
    { intros x. split; [apply (IHa x)|apply (IHb x)]. }
    unfold cell_o. destruct rs as [x|x SL SR].
    + apply cell_sub1. now apply dt_batch_sub.
    + apply cell_sub2; [now apply spe_batch_sub|now apply dt_batch_sub].
Qed.
Print Assumptions tcell_any_all.

(* ------------------------------------------------------------------ *)
(** * Decoding the ANY table of the code; the result entry *)
Section AnyModel.
  Context {lca node_id : Type} (nid_eqb : node_id -> node_id -> bool).
  Hypothesis nid_eqb_spec : forall a b, reflect (a = b) (nid_eqb a b).
  Notation tree := (EV.TreeNode node_id).
  Notation mi := (T.MappingInfo path).
  Notation dict := (list (node_id * path)).
  Notation oids l := (map (@EV.TreeNode_id node_id) l).
  Variables (S : stree) (c : costs) (leafsp : node_id -> path) (syn : node_id -> list fam) (missing : node_id -> path).
  Variable ord : list mi -> list mi.
  Hypothesis Hh : nn (c_hgt c).
  Hypothesis ord_same : forall l, sameset (ord l) l.
  Notation ST := (sembed S []).
  Notation OT := (otree_of leafsp syn).
  Notation dfun := (T.dict_fun nid_eqb missing).
  Variable O : tree.
  Hypothesis ids_distinct : NoDup (oids (T.TreeNode_postorder O)).
  (** the table computed under ANY and the table computed under ALL *)
  Variables GA GL : node_id -> path -> entry mi.
  Hypothesis GA_table : forall u, In u (T.TreeNode_postorder O) -> forall x, GA (EV.TreeNode_id u) x = emap tag_mi (tcell c RANY ST leafsp u x).
  Hypothesis GL_table : forall u, In u (T.TreeNode_postorder O) -> forall x, GL (EV.TreeNode_id u) x = emap tag_mi (tcell c RALL ST leafsp u x).

  Lemma child_l (t a b : tree) i : In (EV.TreeNode_node i a b) (T.TreeNode_postorder t) -> In a (T.TreeNode_postorder t).
  Proof.
    intros Ht. eapply subtree_in; [exact Ht|]. cbn [T.TreeNode_postorder]. rewrite !in_app_iff. left. apply root_in_postorder.
  Qed.
  Lemma child_r (t a b : tree) i : In (EV.TreeNode_node i a b) (T.TreeNode_postorder t) -> In b (T.TreeNode_postorder t).
  Proof.
    intros Ht. eapply subtree_in; [exact Ht|]. cbn [T.TreeNode_postorder]. rewrite !in_app_iff. right; left. apply root_in_postorder.
  Qed.

  (** (b) every dictionary decoded from the ANY table is decoded from the ALL table *)
  Lemma decode_any_all (t : tree) : In t (T.TreeNode_postorder O) -> forall s d,
    In d (decode_g ord GA t s) -> In d (decode_g ord GL t s).
  Proof.
    induction t as [i|i a IHa b IHb]; intros Ht s d H.
    - pose proof (GA_table _ Ht s) as Ga. pose proof (GL_table _ Ht s) as Gl. cbn [EV.TreeNode_id] in Ga, Gl.
      cbn [decode_g] in *. rewrite Ga in H. rewrite Gl. cbn [emap val tcell] in *. exact H.
    - pose proof (child_l O a b i Ht) as Ha. pose proof (child_r O a b i Ht) as Hb.
      pose proof (GA_table _ Ht s) as Ga. pose proof (GL_table _ Ht s) as Gl. cbn [EV.TreeNode_id] in Ga, Gl.
      cbn [decode_g] in *. rewrite Ga in H. rewrite Gl. cbn [emap tags] in *.
      apply in_flat_map in H as [m [Hm H]]. apply in_flat_map. exists m. split.
      + apply (proj2 (ord_same _ m)). apply (proj1 (ord_same _ m)) in Hm. apply in_map_iff in Hm as [lr [<- Hlr]]. apply in_map.
        now apply (tcell_any_all c ST leafsp (EV.TreeNode_node i a b) s).
      + destruct (T.MappingInfo_left m) as [l|]; [|destruct H]. destruct (T.MappingInfo_right m) as [r|]; [|destruct H].
        apply in_flat_map in H as [dl [Hdl H]]. apply in_map_iff in H as [dr [<- Hdr]].
        apply in_flat_map. exists dl. split; [now apply IHa|].
        apply (in_map (fun dr0 => dr0 ++ dl ++ [(i, s)])). now apply IHb.
  Qed.

  (** a finite cell of the ANY table decodes to something *)
  Lemma decode_any_nonempty (t : tree) : In t (T.TreeNode_postorder O) -> forall s, In s (snodes S) ->
    val (tcell c RANY ST leafsp t s) <> PInf -> exists d, In d (decode_g ord GA t s).
  Proof.
    induction t as [i|i a IHa b IHb]; intros Ht s Hs NE.
    - pose proof (GA_table _ Ht s) as Ga. cbn [EV.TreeNode_id] in Ga.
      cbn [decode_g]. rewrite Ga. cbn [emap val tcell] in *.
      destruct (path_eqb s (leafsp i)); cbn in *; [eexists; now left|congruence].
    - pose proof (child_l O a b i Ht) as Ha. pose proof (child_r O a b i Ht) as Hb.
      pose proof (GA_table _ Ht s) as Ga. cbn [EV.TreeNode_id] in Ga.
      remember (EV.TreeNode_node i a b) as t eqn:Et.
      (* a tag of the cell *)
      destruct (tcell_model S c RANY leafsp syn Hh t s Hs) as [Ev [Ee _]].
      assert (NT : tags (tcell c RANY ST leafsp t s) <> []).
      { intros E0. apply Ee in E0. rewrite Ev in NE.
        apply (decode_nonempty S c RANY (OT t) Hh ltac:(discriminate) s Hs NE).
        subst t. cbn [otree_of thl_table decode] in *. now rewrite E0. }
      destruct (tags (tcell c RANY ST leafsp t s)) as [|[l r] tl] eqn:Etags; [congruence|]. clear NT.
      assert (Hlr : In (l, r) (tags (tcell c RANY ST leafsp t s))) by (rewrite Etags; now left).
      pose proof (tcell_any_all c ST leafsp t s) as [Ev2 [_ Hsub]].
      pose proof (Hsub _ Hlr) as Hlr2.
      destruct (tcell_model S c RALL leafsp syn Hh t s Hs) as [Ev3 [_ Ss]]. apply (Ss eq_refl) in Hlr2.
      subst t. cbn [otree_of thl_table] in Hlr2, Ev3.
      remember (thl_table S c RALL (OT a)) as ta eqn:Eta. remember (thl_table S c RALL (OT b)) as tb eqn:Etb.
      assert (NA : forall x, nn (val (tread ta x))) by (intros; subst ta; apply table_nn; auto).
      assert (NB : forall x, nn (val (tread tb x))) by (intros; subst tb; apply table_nn; auto).
      apply (tread_node_tags S c RALL ta tb Hh NA NB s) in Hlr2 as [_ Hc].
      destruct (cell_tag_value S c RALL ta tb s Hh NA NB RALL_not_none l r Hc) as [Il [Ir [F V]]].
      assert (val (tread ta l) <> PInf /\ val (tread tb r) <> PInf) as [Fa Fb].
      { rewrite V in F. split; intros X; rewrite X in F.
        - destruct (ocost c s l r); discriminate.
        - destruct (ocost c s l r), (val (tread ta l)); discriminate. }
      assert (Fa' : val (tcell c RANY ST leafsp a l) <> PInf).
      { rewrite (proj1 (tcell_any_all c ST leafsp a l)), (tcell_model_value S c RALL leafsp syn Hh a l Il). now subst ta. }
      assert (Fb' : val (tcell c RANY ST leafsp b r) <> PInf).
      { rewrite (proj1 (tcell_any_all c ST leafsp b r)), (tcell_model_value S c RALL leafsp syn Hh b r Ir). now subst tb. }
      destruct (IHa Ha l Il Fa') as [dl Hdl]. destruct (IHb Hb r Ir Fb') as [dr Hdr].
      exists (dr ++ dl ++ [(i, s)]). cbn [decode_g]. rewrite Ga. cbn [emap tags].
      apply in_flat_map. exists (tag_mi (l, r)). split; [apply (proj2 (ord_same _ _)), in_map; exact Hlr|].
      cbn [tag_mi T.MappingInfo_left T.MappingInfo_right fst snd].
      apply in_flat_map. exists dl. split; [exact Hdl|].
      apply (in_map (fun dr0 => dr0 ++ dl ++ [(i, s)])). exact Hdr.
  Qed.

  (** ** the result entry *)
  Hypothesis Hf : 0 <= c_floss c.
  Hypothesis Hc : coherent c.
  Hypothesis L : leaves_ok S (OT O).
  Variables (lcaobj : lca).
  Notation tout := (T.tout_state path lca node_id).
  Notation rto := (rt_out (lca := lca) nid_eqb missing O).
  Notation CA := (map (cmap rto) (thl_candidates_o nid_eqb lcaobj c ST leafsp O ord missing syn GA)).
  Notation CM := (thl_candidates S c RALL (OT O)).
  Notation VM := (val (reconcile_thl S c RALL (OT O))).

  (** every candidate the ANY run offers to the result entry is a candidate of the model under ALL *)
  Lemma any_cands_model v o : In (v, o) CA -> In (v, o) CM.
  Proof.
    intros I. apply In_cands_o in I as [s [d [Hs [Hd [-> ->]]]]]. apply In_cands_model.
    exists s, (rtree_of (dfun d) O). split; [exact Hs|]. split; [|auto].
    apply (decode_model nid_eqb nid_eqb_spec S c leafsp syn missing ord Hh ord_same O ids_distinct GL GL_table O (root_in_postorder O) s Hs).
    apply (in_map (fun d => rtree_of (dfun d) O)). now apply (decode_any_all O (root_in_postorder O)).
  Qed.

  (** the optimum of the model is the cost of a candidate of the ANY run *)
  Lemma any_cands_best : exists r, In (VM, Some r) CA.
  Proof.
    pose proof (entry_value_finite S c (OT O) Hh Hf Hc L RALL RALL_not_none) as NV.
    destruct (upd_attained rtree_eqb RALL _ NV) as [ot Io].
    destruct (thl_candidates_some _ _ _ _ _ _ Io) as [y ->].
    pose proof Io as Io'. apply in_thl_candidates in Io' as [s [Hs [Hy Ev]]].
    destruct (decode_cost S c RALL (OT O) Hh RALL_not_none Hf Hc L s y Hy) as [Cy _].
    fold (reconcile_thl S c RALL (OT O)) in Ev.
    assert (NE : val (tcell c RANY ST leafsp O s) <> PInf).
    { rewrite (proj1 (tcell_any_all c ST leafsp O s)), (tcell_model_value S c RALL leafsp syn Hh O s Hs), <- Cy, <- Ev. exact NV. }
    destruct (decode_any_nonempty O (root_in_postorder O) s Hs NE) as [d Hd].
    exists (rtree_of (dfun d) O). apply In_cands_o. exists s, d. split; [exact Hs|]. split; [exact Hd|]. split; [|reflexivity].
    rewrite Ev, Cy. symmetry.
    assert (Hm : In (rtree_of (dfun d) O) (decode (thl_table S c RALL (OT O)) s)).
    { apply (decode_model nid_eqb nid_eqb_spec S c leafsp syn missing ord Hh ord_same O ids_distinct GL GL_table O (root_in_postorder O) s Hs).
      apply (in_map (fun d => rtree_of (dfun d) O)). now apply (decode_any_all O (root_in_postorder O)). }
    apply (decode_cost S c RALL (OT O) Hh RALL_not_none Hf Hc L s _ Hm).
  Qed.

  Lemma any_value : val (update rtree_eqb MIN RANY (default_entry MIN) CA) = VM.
  Proof.
    apply ele_antisym.
    - destruct any_cands_best as [r Hr]. exact (upd_le rtree_eqb RANY _ _ _ Hr).
    - destruct (ext_eqb (val (update rtree_eqb MIN RANY (default_entry MIN) CA)) PInf) eqn:Ep.
      + apply ext_eqb_eq in Ep. rewrite Ep. apply ele_PInf.
      + assert (NV : val (update rtree_eqb MIN RANY (default_entry MIN) CA) <> PInf) by (intros X; rewrite X in Ep; discriminate).
        destruct (upd_attained rtree_eqb RANY _ NV) as [ot Io]. apply any_cands_model in Io.
        exact (upd_le rtree_eqb RALL _ _ _ Io).
  Qed.

  (** (c) the entry under ANY holds exactly one reconciliation, one of those the model holds under ALL *)
  Theorem any_result : exists r, tags (update rtree_eqb MIN RANY (default_entry MIN) CA) = [r] /\
    In r (tags (reconcile_thl S c RALL (OT O))).
  Proof.
    destruct (entry_tags_any rtree_eqb MIN CA) as [[_ No]|[t [Et It]]]; cbv zeta in *.
    - exfalso. destruct any_cands_best as [r Hr]. apply (No r). now rewrite any_value.
    - exists t. split; [exact Et|]. rewrite any_value in It. apply any_cands_model in It.
      unfold reconcile_thl. now apply (entry_tags_all rtree_eqb rtree_eqb_spec MIN CM t).
  Qed.
End AnyModel.

(** [reconcile_thl] under ANY: the generated code returns exactly one reconciliation; it is one of the reconciliations
    of the model under ALL, that is an optimal one *)
Theorem gen_reconcile_thl_any {lca node_id : Type} (nid_eqb : node_id -> node_id -> bool)
    (S : stree) (c : costs) (leafsp : node_id -> path) (syn : node_id -> list fam) (missing : node_id -> path)
    (ord : list (T.MappingInfo path) -> list (T.MappingInfo path)) (O : EV.TreeNode node_id) (lcaobj : lca)
    (oeqb : T.tout_state path lca node_id -> T.tout_state path lca node_id -> bool) :
  (forall a b, reflect (a = b) (nid_eqb a b)) -> nn (c_hgt c) -> (forall l, sameset (ord l) l) ->
  NoDup (map (@EV.TreeNode_id node_id) (T.TreeNode_postorder O)) ->
  (forall a b, rtree_eqb (rt_out nid_eqb missing O a) (rt_out nid_eqb missing O b) = oeqb a b) ->
  0 <= c_floss c -> c_spe c <= c_dup c + 2 * c_floss c -> leaves_ok S (otree_of leafsp syn O) ->
  exists o,
    T.gen_reconcile_thl path_eqb nid_eqb (fun _ => anc) (fun _ => sanc) (fun _ => comparable) (fun _ => lcp) (fun _ => dist)
      (fun _ => sembed S []) oeqb missing ord (EV.mk_rin O lcaobj leafsp (stsocc c)) (prc RANY) = T.Ok [o] /\
    In (rt_out nid_eqb missing O o) (tags (reconcile_thl S c RALL (otree_of leafsp syn O))) /\
    optimal S c (otree_of leafsp syn O) (rt_out nid_eqb missing O o).
Proof.
  intros nid_eqb_spec Hh ord_same ids_distinct oeqb_rt Hf Hc L.
  destruct (gen_reconcile_thl_eq nid_eqb nid_eqb_spec lcaobj c RANY (sembed S []) leafsp O (postorder_ids_nodup S []) ord
              (fun l m H => proj1 (ord_same l m) H) oeqb missing syn ids_distinct) as [tba [_ [Ska Ea]]].
  destruct (gen_reconcile_thl_eq nid_eqb nid_eqb_spec lcaobj c RALL (sembed S []) leafsp O (postorder_ids_nodup S []) ord
              (fun l m H => proj1 (ord_same l m) H) oeqb missing syn ids_distinct) as [tbl [_ [Skl _]]].
  destruct (any_result nid_eqb nid_eqb_spec S c leafsp syn missing ord Hh ord_same O ids_distinct
              (gsem nid_eqb tba) (gsem nid_eqb tbl) Ska Skl Hf Hc L lcaobj) as [r [Er Ir]].
  match type of Er with tags (update _ _ _ _ (map _ ?cs)) = _ =>
    pose proof (update_emap oeqb rtree_eqb (rt_out nid_eqb missing O) oeqb_rt MIN RANY cs (default_entry MIN)) as E2 end.
  change (emap (rt_out nid_eqb missing O) (default_entry MIN)) with (@default_entry rtree MIN) in E2.
  rewrite E2 in Er. cbn [emap tags] in Er. rewrite Ea.
  match type of Er with map _ ?l = _ => destruct l as [|o [|o' l']] end; cbn [map] in Er; try discriminate.
  inversion Er as [Eo]. exists o. split; [reflexivity|]. rewrite Eo. split; [exact Ir|].
  now apply (thl_all_exact S c (otree_of leafsp syn O) Hh Hf Hc L).
Qed.
Print Assumptions gen_reconcile_thl_any.
Print Assumptions decode_any_all.
Print Assumptions decode_any_nonempty.
Print Assumptions any_result.
Check tcell_any_all.
Check decode_any_all.
Check decode_any_nonempty.
Check any_result.
Check gen_reconcile_thl_any.

End PartCthl.
(** Review items 9 (C07, PartE) and 7 (C15, PartF). *)
From Coq Require Import String Ascii List Bool Arith ZArith Lia.
From SR Require Import Base.PathB Base.Ext Model.Recon Model.LcaRec
  Proofs.PathFacts Proofs.ReconProofs Proofs.LcaProofs.
From SR Require Import Model.Escape Model.Wrap Model.Tikz.
Import ListNotations.

Module PartE.
Local Open Scope Z_scope.

(** The hypothesis [c_spe c <= c_dup c + 2 * c_floss c] of [C07_lca_optimal*] cannot be dropped.
    The event of a node is derived from the mapping ([event]): the LCA reconciliation makes every
    node a speciation whenever it can, and a dear speciation is avoided by mapping the node higher,
    as a duplication followed by losses. *)

(** ** Witness 1: one cherry below the root.  Species tree ((A,B),C), object tree (a:A, b:B). *)
Definition S1 : stree := SNode (SNode SLeaf SLeaf) SLeaf.
Definition O1 : otree := ONode (OLeaf [false; false] []) (OLeaf [false; true] []).
(* LCA: the root at (A,B), a speciation *)
Definition rl1 : rtree := RNode [false] (RLeaf [false; false]) (RLeaf [false; true]).
(* the alternative: the root at the species root, a duplication with four losses *)
Definition r1 : rtree := RNode [] (RLeaf [false; false]) (RLeaf [false; true]).
Definition c1 : costs := {| c_spe := 10; c_dup := 1; c_hgt := PInf; c_floss := 1; c_sloss := 1 |}.

Lemma O1_leaves_ok : leaves_ok S1 O1.
Proof. simpl. split; reflexivity. Qed.
Lemma r1_valid : valid_rec S1 O1 r1.
Proof.
  apply v_node; [reflexivity | vm_compute; discriminate | apply v_leaf; reflexivity ..].
Qed.
Lemma r1_no_transfer : no_transfer r1.
Proof. simpl. split; [right; vm_compute; reflexivity | split; exact I]. Qed.

(* every hypothesis of C07_lca_optimal and of C07_lca_optimal_all (the transfer cost is infinite)
   but the bound on the speciation cost; the conclusion fails *)
Example c07_spe_needed :
  0 <= c_dup c1 /\ 0 <= c_floss c1 /\ 0 <= c_sloss c1 /\ c_hgt c1 = PInf /\
  c_spe c1 > c_dup c1 + 2 * c_floss c1 /\
  leaves_ok S1 O1 /\ valid_rec S1 O1 r1 /\ no_transfer r1 /\
  lca_rec O1 = rl1 /\
  cost c1 O1 r1 = Fin 5 /\ cost c1 O1 (lca_rec O1) = Fin 10 /\
  ext_ltb (cost c1 O1 r1) (cost c1 O1 (lca_rec O1)) = true /\
  ~ ele (cost c1 O1 (lca_rec O1)) (cost c1 O1 r1).
Proof.
  split; [vm_compute; discriminate |]. split; [vm_compute; discriminate |].
  split; [vm_compute; discriminate |]. split; [reflexivity |]. split; [vm_compute; reflexivity |].
  split; [exact O1_leaves_ok |]. split; [exact r1_valid |]. split; [exact r1_no_transfer |].
  split; [vm_compute; reflexivity |]. split; [vm_compute; reflexivity |].
  split; [vm_compute; reflexivity |]. split; [vm_compute; reflexivity |].
  unfold ele. vm_compute. discriminate.
Qed.
Print Assumptions c07_spe_needed.

(* the statement of C07_lca_optimal without the bound on c_spe is false *)
Theorem c07_optimal_without_spe_bound_false :
  ~ (forall c S O r, 0 <= c_dup c -> 0 <= c_floss c ->
       leaves_ok S O -> valid_rec S O r -> no_transfer r ->
       ele (cost c O (lca_rec O)) (cost c O r)).
Proof.
  intros H.
  assert (K : ele (cost c1 O1 (lca_rec O1)) (cost c1 O1 r1)).
  { apply (H c1 S1 O1 r1); [vm_compute; discriminate | vm_compute; discriminate
      | exact O1_leaves_ok | exact r1_valid | exact r1_no_transfer]. }
  unfold ele in K. vm_compute in K. discriminate.
Qed.
Print Assumptions c07_optimal_without_spe_bound_false.

(* the same for C07_lca_optimal_all (no transfer-freeness hypothesis, infinite transfer cost) *)
Theorem c07_optimal_all_without_spe_bound_false :
  ~ (forall c S O r, 0 <= c_dup c -> 0 <= c_floss c -> c_hgt c = PInf ->
       leaves_ok S O -> valid_rec S O r ->
       ele (cost c O (lca_rec O)) (cost c O r)).
Proof.
  intros H.
  assert (K : ele (cost c1 O1 (lca_rec O1)) (cost c1 O1 r1)).
  { apply (H c1 S1 O1 r1); [vm_compute; discriminate | vm_compute; discriminate | reflexivity
      | exact O1_leaves_ok | exact r1_valid]. }
  unfold ele in K. vm_compute in K. discriminate.
Qed.
Print Assumptions c07_optimal_all_without_spe_bound_false.

(* the LCA reconciliation is not the minimum of the model's own enumeration of all valid
   reconciliations ([all_recs], complete by ReconProofs.all_recs_spec) *)
Example c07_spe_needed_enum :
  In r1 (all_recs S1 O1) /\
  forallb (fun r => ext_leb (cost c1 O1 (lca_rec O1)) (cost c1 O1 r)) (all_recs S1 O1) = false /\
  forallb (fun r => ext_leb (cost c1 O1 r1) (cost c1 O1 r)) (all_recs S1 O1) = true.
Proof. split; [vm_compute; left; reflexivity | split; vm_compute; reflexivity]. Qed.
Print Assumptions c07_spe_needed_enum.

(* parametric: on this instance the LCA reconciliation loses for EVERY cost vector with
   c_dup + 4 c_floss < c_spe *)
Theorem c07_cherry_parametric : forall c, c_dup c + 4 * c_floss c < c_spe c ->
  cost c O1 r1 = Fin (c_dup c + 4 * c_floss c) /\ cost c O1 (lca_rec O1) = Fin (c_spe c) /\
  ext_ltb (cost c O1 r1) (cost c O1 (lca_rec O1)) = true.
Proof.
  intros c H.
  assert (A : cost c O1 r1 = Fin (c_dup c + 4 * c_floss c)).
  { rewrite (cost_costDL c S1 O1 r1 r1_valid r1_no_transfer). f_equal.
    change (costDL c r1) with (c_dup c + 0 + 0 + c_floss c * (2 + 2)). lia. }
  assert (B : cost c O1 (lca_rec O1) = Fin (c_spe c)).
  { destruct (lca_valid S1 O1 O1_leaves_ok) as [V N].
    rewrite (cost_costDL c S1 O1 _ V N). f_equal.
    change (costDL c (lca_rec O1)) with (c_spe c + 0 + 0 + c_floss c * (1 + 1 - 2)). lia. }
  rewrite A, B. repeat split. simpl. apply Z.ltb_lt. exact H.
Qed.
Print Assumptions c07_cherry_parametric.

(** ** Witness 2: the bound is tight over the integers.  c_spe = c_dup + 2 c_floss + 1.
    Species tree ((A,B),C), object tree (c:C, (a:A, b:B)).  LCA: two speciations, 2 c_spe = 8.
    Alternative: both nodes at the species root, two duplications and five losses, 7. *)
Definition O2 : otree := ONode (OLeaf [true] []) (ONode (OLeaf [false; false] []) (OLeaf [false; true] [])).
Definition r2 : rtree := RNode [] (RLeaf [true]) (RNode [] (RLeaf [false; false]) (RLeaf [false; true])).
Definition c2 : costs := {| c_spe := 4; c_dup := 1; c_hgt := PInf; c_floss := 1; c_sloss := 1 |}.

Lemma O2_leaves_ok : leaves_ok S1 O2.
Proof. simpl. repeat split; reflexivity. Qed.
Lemma r2_valid : valid_rec S1 O2 r2.
Proof.
  apply v_node; [reflexivity | vm_compute; discriminate | apply v_leaf; reflexivity | exact r1_valid].
Qed.
Lemma r2_no_transfer : no_transfer r2.
Proof. simpl. split; [right; vm_compute; reflexivity | split; [exact I | exact r1_no_transfer]]. Qed.

Example c07_spe_bound_tight :
  0 <= c_dup c2 /\ 0 <= c_floss c2 /\ c_hgt c2 = PInf /\
  c_spe c2 = c_dup c2 + 2 * c_floss c2 + 1 /\
  leaves_ok S1 O2 /\ valid_rec S1 O2 r2 /\ no_transfer r2 /\
  cost c2 O2 r2 = Fin 7 /\ cost c2 O2 (lca_rec O2) = Fin 8 /\
  ~ ele (cost c2 O2 (lca_rec O2)) (cost c2 O2 r2).
Proof.
  split; [vm_compute; discriminate |]. split; [vm_compute; discriminate |].
  split; [reflexivity |]. split; [vm_compute; reflexivity |].
  split; [exact O2_leaves_ok |]. split; [exact r2_valid |]. split; [exact r2_no_transfer |].
  split; [vm_compute; reflexivity |]. split; [vm_compute; reflexivity |].
  unfold ele. vm_compute. discriminate.
Qed.
Print Assumptions c07_spe_bound_tight.

End PartE.

Module PartF.
Local Open Scope list_scope.

(** ** species labels ([_tikz_draw_fork]): the name goes through [escape], whatever the name *)

(* without wrapping the label IS the escaped name *)
Lemma species_label_escapes : forall name : str,
  species_label None name = Some (escape name).
Proof. intros name. reflexivity. Qed.
Print Assumptions species_label_escapes.

(* with a wrapping width: the escaped name is wrapped, then the line feeds become "\\" *)
Lemma species_label_wrapped_escapes : forall (w : nat) (name : str),
  species_label (Some w) name = option_map (replace1 nl bsbs) (balanced_wrap (escape name) w).
Proof. intros w name. reflexivity. Qed.
Print Assumptions species_label_wrapped_escapes.

(* both cases at once: the only occurrence of the name in the label is [escape name] *)
Lemma species_label_factors : forall (width : option nat) (name : str),
  species_label width name =
  (fun e : str => match width with
                  | None => Some e
                  | Some w => option_map (replace1 nl bsbs) (balanced_wrap e w)
                  end) (escape name).
Proof. intros width name. reflexivity. Qed.
Print Assumptions species_label_factors.

(** ** leaf labels ([_compute_branches]) *)

(* [rsplit_us] splits at an underscore: the two parts are the name around it
   (the last one: the second part has none) *)
Lemma rsplit_us_split : forall (name a b : str),
  rsplit_us name = Some (a, b) -> name = a ++ us :: b.
Proof.
  induction name as [| c r IH]; intros a b H; simpl in H; [discriminate |].
  destruct (rsplit_us r) as [[a' b'] |] eqn:E.
  - injection H as <- <-. simpl. f_equal. apply IH. reflexivity.
  - destruct (Ascii.eqb c us) eqn:Ec; [| discriminate].
    injection H as <- <-. apply Ascii.eqb_eq in Ec. subst c. reflexivity.
Qed.
Print Assumptions rsplit_us_split.

Lemma rsplit_us_last : forall (name a b : str),
  rsplit_us name = Some (a, b) -> rsplit_us b = None.
Proof.
  induction name as [| c r IH]; intros a b H; simpl in H; [discriminate |].
  destruct (rsplit_us r) as [[a' b'] |] eqn:E.
  - injection H as <- <-. apply (IH a' b'). reflexivity.
  - destruct (Ascii.eqb c us); [| discriminate]. injection H as <- <-. exact E.
Qed.
Print Assumptions rsplit_us_last.

(* a leaf without a displayed synteny ([synteny_text] gives the empty text), name "a_b":
   both parts of the name go through [escape] *)
Lemma leaf_label_escapes : forall (width : option nat) (name : str) (syn psyn : option (list str)) (a b : str),
  synteny_text width syn = Some [] ->
  rsplit_us name = Some (a, b) ->
  node_label width true name syn psyn = Some (escape a ++ textsub ++ escape b ++ [rbrace]).
Proof.
  intros width name syn psyn a b Hs Hr. unfold node_label. rewrite Hs.
  destruct name as [| c r]; [discriminate |]. rewrite Hr. reflexivity.
Qed.
Print Assumptions leaf_label_escapes.

(* the plain-reconciliation instance: no synteny at all *)
Lemma leaf_label_escapes_nosyn : forall (width : option nat) (name : str) (psyn : option (list str)) (a b : str),
  rsplit_us name = Some (a, b) ->
  node_label width true name None psyn = Some (escape a ++ textsub ++ escape b ++ [rbrace]).
Proof. intros. apply leaf_label_escapes; [reflexivity | assumption]. Qed.
Print Assumptions leaf_label_escapes_nosyn.

(* the complete leaf case, every name: the name is used only through [rsplit_us] and [escape] *)
Lemma leaf_label_cases : forall (width : option nat) (name : str) (syn psyn : option (list str)),
  node_label width true name syn psyn =
  match synteny_text width syn with
  | None => None
  | Some (c :: st) => Some (c :: st)
  | Some [] =>
      match name with
      | [] => Some []
      | _ => match rsplit_us name with
             | Some (a, b) => Some (escape a ++ textsub ++ escape b ++ [rbrace])
             | None => None
             end
      end
  end.
Proof.
  intros width name syn psyn. unfold node_label.
  destruct (synteny_text width syn) as [[| c st] |]; [| reflexivity | reflexivity].
  destruct name; reflexivity.
Qed.
Print Assumptions leaf_label_cases.

(* a displayed synteny: every family name goes through [escape] *)
Lemma leaf_label_synteny_escapes : forall (width : option nat) (name : str) (fams : list str)
    (psyn : option (list str)) (c : ascii) (st : str),
  option_map (replace1 nl bsbs) (format_synteny (map escape fams) width) = Some (c :: st) ->
  node_label width true name (Some fams) psyn = Some (c :: st).
Proof. intros width name fams psyn c st H. unfold node_label, synteny_text. rewrite H. reflexivity. Qed.
Print Assumptions leaf_label_synteny_escapes.

End PartF.
