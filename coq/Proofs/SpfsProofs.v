(** Ordered super-reconciliation solvers ([Model/Spfs.v]: [_compute_spfs_entry],
    [_compute_spfs_table], [_decode_spfs_table], [_spfs]; base and extended variants).

    Part 1 (this file): the optimiser's one-node charge [ocost_ord]; generic facts about
    aggregators fed explicit candidate lists, one [combine], the proxy's first write; the five
    aggregators of a child; one cell ([scell_lower], [scell_tag_sound], [scell_tag_value],
    [scell_attained], [scell_tag_complete]); the whole table and the clean recurrence [Sval]
    ([stable_value]); decoding ([sdecode_valid]) and validity of everything [spfs] returns,
    with no hypothesis on the unit costs ([spfs_returns], [spfs_valid]: C04).
    Part 2 is [Proofs/SpfsFinal.v]. *)
From Coq Require Import List Bool Arith ZArith NArith Lia.
From SR Require Import Base.PathB Base.Ext Model.Subseq Model.Entry Model.Recon Model.LcaRec
  Model.Thl Model.Toposort Model.Spfs
  Proofs.PathFacts Proofs.ReconProofs Proofs.EntryProofs Proofs.DpProofs Proofs.SubseqProofs
  Proofs.LabelCostProofs Proofs.LcaProofs Proofs.ThlProofs.
Import ListNotations.
Local Open Scope Z_scope.

(** * equalities on keys and tags *)
Lemma sassign_eqb_spec a b : reflect (a = b) (sassign_eqb a b).
Proof.
  destruct a as [a1 a2], b as [b1 b2]. unfold sassign_eqb. cbn [fst snd].
  destruct (path_eqb_spec a1 b1); cbn [andb]; [|constructor; congruence].
  destruct (N.eqb_spec a2 b2); constructor; congruence.
Qed.
Lemma stag_eqb_spec a b : reflect (a = b) (stag_eqb a b).
Proof.
  destruct a as [a1 a2], b as [b1 b2]. unfold stag_eqb. cbn [fst snd].
  destruct (sassign_eqb_spec a1 b1); cbn [andb]; [|constructor; congruence].
  destruct (sassign_eqb_spec a2 b2); constructor; congruence.
Qed.
Lemma ltree_eqb_spec a b : reflect (a = b) (ltree_eqb a b).
Proof.
  revert b. induction a as [s x|s x a1 IH1 a2 IH2]; intros [t y|t y b1 b2]; cbn [ltree_eqb];
    try (constructor; congruence).
  - destruct (path_eqb_spec s t); cbn [andb]; [|constructor; congruence].
    destruct (list_eq_dec N.eq_dec x y); constructor; congruence.
  - destruct (path_eqb_spec s t); cbn [andb]; [|constructor; congruence].
    destruct (list_eq_dec N.eq_dec x y); cbn [andb]; [|constructor; congruence].
    destruct (IH1 b1); cbn [andb]; [|constructor; congruence].
    destruct (IH2 b2); constructor; congruence.
Qed.

(** * the optimiser's charge of one node *)
(* a child mask usable below a parent mask: non-empty and contained *)
Definition mask_ok (cm m : N) : bool := negb (N.eqb cm 0) && contained cm m.

Definition ocost_ord (c : costs) (s : path) (m : N) (kl kr : sassign) : ext :=
  let l := fst kl in let ml := snd kl in let r := fst kr in let mr := snd kr in
  let aT := seg_dist ml m true in let aF := seg_dist ml m false in
  let bT := seg_dist mr m true in let bF := seg_dist mr m false in
  let fl := c_floss c in let sl := c_sloss c in
  guard (mask_ok ml m && mask_ok mr m)
   (ext_min (guard (spe_cfg s l r) (Fin (c_spe c + fl * (dist s l + dist s r - 2) + sl * (aT + bT))))
   (ext_min (guard (anc s l && anc s r) (Fin (c_dup c + fl * (dist s l + dist s r) + sl * (aT + bF))))
   (ext_min (guard (anc s l && anc s r) (Fin (c_dup c + fl * (dist s l + dist s r) + sl * (aF + bT))))
   (ext_min (guard (anc s l && separate s r) (ext_add (c_hgt c) (Fin (fl * dist s l + sl * (aT + bF)))))
            (guard (separate s l && anc s r) (ext_add (c_hgt c) (Fin (fl * dist s r + sl * (aF + bT))))))))).

(** * aggregators fed an explicit candidate list *)
Section AggP.
  Context {K : Type} (K_eqb : K -> K -> bool).
  Hypothesis K_eqb_spec : forall x y, reflect (x = y) (K_eqb x y).
  Variables (rp : ret) (cs : list (ext * option K)) (P : K -> Prop) (f : K -> ext).
  Hypothesis cs_sound : forall v ot, In (v, ot) cs -> exists k, ot = Some k /\ P k /\ v = f k.
  Hypothesis cs_complete : forall k, P k -> In (f k, Some k) cs.
  Notation A := (Entry.update K_eqb MIN rp (default_entry MIN) cs).

  Lemma aggp_le k : P k -> ele (val A) (f k).
  Proof. intros H. eapply upd_le. apply cs_complete; eauto. Qed.

  Lemma aggp_tags_sound k : In k (tags A) -> P k /\ f k = val A.
  Proof.
    intros H. apply (upd_tags_sound K_eqb K_eqb_spec) in H.
    apply cs_sound in H as [k' [E [Pk V]]]. inversion E; subst. auto.
  Qed.

  Lemma aggp_attained k : P k -> exists k', P k' /\ f k' = val A.
  Proof.
    intros Pk. destruct (ext_eqb (val A) PInf) eqn:E.
    - apply ext_eqb_eq in E. exists k. split; auto.
      pose proof (aggp_le k Pk) as L. rewrite E in *. apply ele_antisym; [apply ele_PInf|exact L].
    - assert (val A <> PInf) as NE by (intros X; rewrite X in E; discriminate).
      destruct (upd_attained K_eqb rp _ NE) as [ot I].
      apply cs_sound in I as [k' [_ [Pk' V]]]. exists k'. auto.
  Qed.

  Lemma aggp_tags_nonempty k : rp <> RNONE -> P k -> tags A <> [].
  Proof.
    intros N Pk. destruct (aggp_attained k Pk) as [k' [Pk' E]].
    apply (upd_tags_nonempty K_eqb K_eqb_spec rp _ k' N). rewrite <- E. now apply cs_complete.
  Qed.

  Lemma aggp_nn : (forall k, P k -> nn (f k)) -> nn (val A).
  Proof.
    intros H. apply upd_nn. intros w ot I. apply cs_sound in I as [k [_ [Pk ->]]]. auto.
  Qed.
End AggP.

Section AggPAll.
  Context {K : Type} (K_eqb : K -> K -> bool).
  Hypothesis K_eqb_spec : forall x y, reflect (x = y) (K_eqb x y).
  Variables (cs : list (ext * option K)) (P : K -> Prop) (f : K -> ext).
  Hypothesis cs_complete : forall k, P k -> In (f k, Some k) cs.
  Notation A := (Entry.update K_eqb MIN RALL (default_entry MIN) cs).
  Lemma aggp_tags_complete k : P k -> f k = val A -> In k (tags A).
  Proof.
    intros Pk E. apply (upd_tags_complete K_eqb K_eqb_spec). rewrite <- E. now apply cs_complete.
  Qed.
End AggPAll.

(** * one [combine] of two aggregators, iterated as candidates *)
Section Comb.
  Variables (rp : ret) (k : ext) (A B : entry sassign).
  Notation C := (combine stag_eqb MIN rp A B (scomb k (val A) (val B))).
  Notation v := (ext_add (ext_add k (val A)) (val B)).

  Lemma scomb_sound w l r : In (w, Some (l, r)) (comb2 rp k A B) -> In l (tags A) /\ In r (tags B) /\ w = v.
  Proof.
    unfold comb2, cands. intros H. apply in_map_iff in H as [[l' r'] [E I]]. inversion E; subst. clear E.
    unfold combine in *. apply (upd_tags_sound stag_eqb stag_eqb_spec) in I.
    apply (In_pairs (U := stag)) in I as [a [b [Ha [Hb E]]]]. unfold scomb in E.
    inversion E; subst. repeat split; auto.
  Qed.

  Lemma scomb_some w ot : In (w, ot) (comb2 rp k A B) -> exists t, ot = Some t.
  Proof. unfold comb2, cands. intros H. apply in_map_iff in H as [t [E _]]. inversion E. eauto. Qed.

  Lemma scomb_nonempty : rp <> RNONE -> tags A <> [] -> tags B <> [] -> exists t, In (v, Some t) (comb2 rp k A B).
  Proof.
    intros N NA NB. destruct (tags A) as [|a ta] eqn:EA; [congruence|]. destruct (tags B) as [|b tb] eqn:EB; [congruence|].
    assert (tags C <> []) as NC.
    { unfold combine. rewrite EA, EB. cbn [flat_map map app].
      set (cs := scomb k (val A) (val B) a b :: _).
      apply (upd_tags_nonempty stag_eqb stag_eqb_spec rp cs (a, b) N).
      assert (forall w ot, In (w, ot) cs -> w = v) as Same.
      { intros w ot I. assert (In (w, ot) (pairs A B (scomb k (val A) (val B)))) as I'.
        { unfold pairs. rewrite EA, EB. exact I. }
        apply (In_pairs (U := stag)) in I' as [x [y [_ [_ E]]]]. unfold scomb in E. now inversion E. }
      assert (val (Entry.update stag_eqb MIN rp (default_entry MIN) cs) = v) as ->.
      { destruct (ext_eqb (val (Entry.update stag_eqb MIN rp (default_entry MIN) cs)) PInf) eqn:E.
        - apply ext_eqb_eq in E. rewrite E.
          pose proof (upd_le stag_eqb rp cs v (Some (a, b)) ltac:(now left)) as L. rewrite E in L.
          apply ele_antisym; [exact L|apply ele_PInf].
        - assert (val (Entry.update stag_eqb MIN rp (default_entry MIN) cs) <> PInf) as NE by (intros X; rewrite X in E; discriminate).
          destruct (upd_attained stag_eqb rp cs NE) as [ot I]. now apply Same in I. }
      now left. }
    destruct (tags C) as [|t tc] eqn:ET; [congruence|]. exists t.
    assert (In (val C, Some t) (comb2 rp k A B)) as X by (unfold comb2, cands; rewrite ET; now left).
    destruct t as [l r]. pose proof (scomb_sound _ _ _ X) as [_ [_ E]]. now rewrite <- E.
  Qed.
End Comb.

Section CombAll.
  Variables (k : ext) (A B : entry sassign).
  Notation C := (combine stag_eqb MIN RALL A B (scomb k (val A) (val B))).
  Notation v := (ext_add (ext_add k (val A)) (val B)).

  Lemma scomb_complete l r : In l (tags A) -> In r (tags B) -> In (v, Some (l, r)) (comb2 RALL k A B).
  Proof.
    intros Hl Hr.
    assert (In (l, r) (tags C)) as I.
    { apply (combine_tags_all stag_eqb stag_eqb_spec). cbv zeta. exists l, r. repeat split; auto.
      unfold scomb at 1. f_equal.
      pose proof (combine_opt stag_eqb MIN RALL A B (scomb k (val A) (val B))) as CO. cbv zeta in CO.
      destruct CO as [[E|I] Le].
      - specialize (Le l r Hl Hr). cbn [scomb fst init_val] in *.
        rewrite <- E in Le |- *. clear E. revert Le.
        generalize (ext_add (ext_add k (val A)) (val B)). intros [|z|]; simpl; congruence.
      - apply in_map_iff in I as [[w ot] [E I]]. simpl in E. subst w.
        apply (In_pairs (U := stag)) in I as [a [b [_ [_ E]]]]. unfold scomb in E. now inversion E. }
    unfold comb2, cands. apply in_map_iff. exists (l, r). split; auto. f_equal.
    assert (In (val C, Some (l, r)) (comb2 RALL k A B)) as X by (apply in_map_iff; exists (l, r); auto).
    apply (scomb_sound RALL k A B) in X. tauto.
  Qed.
End CombAll.

(** * a combination of two aggregators specified by predicates and value functions *)
Section OneComb.
  Variables (rp : ret) (k : ext) (ca cb : list (ext * option sassign)).
  Variables (PA PB : sassign -> Prop) (fa fb : sassign -> ext).
  Hypothesis ca_sound : forall v ot, In (v, ot) ca -> exists x, ot = Some x /\ PA x /\ v = fa x.
  Hypothesis ca_complete : forall x, PA x -> In (fa x, Some x) ca.
  Hypothesis cb_sound : forall v ot, In (v, ot) cb -> exists x, ot = Some x /\ PB x /\ v = fb x.
  Hypothesis cb_complete : forall x, PB x -> In (fb x, Some x) cb.
  Notation A' := (aggp rp ca).
  Notation B' := (aggp rp cb).

  Lemma oc_sound w l r : In (w, Some (l, r)) (comb2 rp k A' B') ->
    PA l /\ PB r /\ w = ext_add (ext_add k (fa l)) (fb r).
  Proof.
    intros H. apply scomb_sound in H as [Hl [Hr E]].
    apply (aggp_tags_sound sassign_eqb sassign_eqb_spec rp ca PA fa ca_sound) in Hl as [Il El].
    apply (aggp_tags_sound sassign_eqb sassign_eqb_spec rp cb PB fb cb_sound) in Hr as [Ir Er].
    repeat split; auto. rewrite E. unfold aggp. rewrite El, Er. reflexivity.
  Qed.

  Lemma oc_lower l r : rp <> RNONE -> PA l -> PB r ->
    exists t, In (ext_add (ext_add k (val A')) (val B'), Some t) (comb2 rp k A' B') /\
              ele (ext_add (ext_add k (val A')) (val B')) (ext_add (ext_add k (fa l)) (fb r)).
  Proof.
    intros N Il Ir.
    destruct (scomb_nonempty rp k A' B' N) as [t It].
    - eapply (aggp_tags_nonempty sassign_eqb sassign_eqb_spec rp ca PA fa); eauto.
    - eapply (aggp_tags_nonempty sassign_eqb sassign_eqb_spec rp cb PB fb); eauto.
    - exists t. split; auto.
      apply ext_add_mono; [apply ext_add_mono; [apply ele_refl|]|].
      + eapply (aggp_le sassign_eqb rp ca PA fa); eauto.
      + eapply (aggp_le sassign_eqb rp cb PB fb); eauto.
  Qed.
End OneComb.

Section OneCombAll.
  Variables (k : ext) (ca cb : list (ext * option sassign)).
  Variables (PA PB : sassign -> Prop) (fa fb : sassign -> ext).
  Hypothesis ca_sound : forall v ot, In (v, ot) ca -> exists x, ot = Some x /\ PA x /\ v = fa x.
  Hypothesis ca_complete : forall x, PA x -> In (fa x, Some x) ca.
  Hypothesis cb_sound : forall v ot, In (v, ot) cb -> exists x, ot = Some x /\ PB x /\ v = fb x.
  Hypothesis cb_complete : forall x, PB x -> In (fb x, Some x) cb.
  Hypothesis Nk : nn k.
  Hypothesis Nf : forall x, PA x -> nn (fa x).
  Hypothesis Ng : forall x, PB x -> nn (fb x).
  Notation A' := (aggp RALL ca).
  Notation B' := (aggp RALL cb).

  Lemma oc_tight l r v : PA l -> PB r ->
    ele v (ext_add (ext_add k (val A')) (val B')) ->
    v = ext_add (ext_add k (fa l)) (fb r) -> v <> PInf ->
    In (v, Some (l, r)) (comb2 RALL k A' B').
  Proof.
    intros Il Ir Le E NE.
    pose proof (aggp_le sassign_eqb RALL ca PA fa ca_complete l Il) as La.
    pose proof (aggp_le sassign_eqb RALL cb PB fb cb_complete r Ir) as Lb.
    assert (ext_add (ext_add k (val A')) (val B') = ext_add (ext_add k (fa l)) (fb r)) as Eq.
    { apply ele_antisym; [apply ext_add_mono; [apply ext_add_mono; [apply ele_refl|]|]; assumption|].
      rewrite <- E. exact Le. }
    destruct (ext_sum_tight k (val A') (val B') (fa l) (fb r) Nk) as [Ea Eb]; auto.
    { apply (aggp_nn sassign_eqb RALL ca PA fa ca_sound Nf). }
    { apply (aggp_nn sassign_eqb RALL cb PB fb cb_sound Ng). }
    { rewrite <- E. exact NE. }
    rewrite E, <- Eq. apply scomb_complete.
    - apply (aggp_tags_complete sassign_eqb sassign_eqb_spec ca PA fa ca_complete); auto.
    - apply (aggp_tags_complete sassign_eqb sassign_eqb_spec cb PB fb cb_complete); auto.
  Qed.
End OneCombAll.

(** * the proxy's write on a cell that does not exist yet *)
Section FirstWrite.
  Variables (rp : ret) (cs : list (ext * option stag)).
  Hypothesis NN : forall w ot, In (w, ot) cs -> nn w.
  Notation e := (first_write rp cs).

  Lemma fw_le w ot : In (w, ot) cs -> ele (val e) w.
  Proof.
    intros I. unfold first_write. destruct (Thl.has_finite cs) eqn:F.
    - eapply upd_le; eauto.
    - rewrite (has_finite_false_PInf cs w ot NN F I). apply ele_PInf.
  Qed.
  Lemma fw_attained : val e <> PInf -> exists ot, In (val e, ot) cs.
  Proof.
    unfold first_write. destruct (Thl.has_finite cs); [|simpl; congruence].
    apply upd_attained.
  Qed.
  Lemma fw_tags_sound t : In t (tags e) -> In (val e, Some t) cs.
  Proof.
    unfold first_write. destruct (Thl.has_finite cs); [|intros []].
    apply (upd_tags_sound stag_eqb stag_eqb_spec).
  Qed.
  Lemma fw_nn : nn (val e).
  Proof.
    unfold first_write. destruct (Thl.has_finite cs); [|apply nn_PInf]. now apply upd_nn.
  Qed.
  Lemma fw_tags_finite t : In t (tags e) -> ext_is_inf (val e) = false.
  Proof.
    intros H. unfold first_write in *. destruct (Thl.has_finite cs) eqn:F; [|destruct H].
    destruct (has_finite_true_ex _ F) as [w [ot [Iw Ew]]].
    pose proof (upd_le stag_eqb rp cs w ot Iw) as L.
    pose proof (upd_nn stag_eqb rp cs NN) as N.
    destruct (val (Entry.update stag_eqb MIN rp (default_entry MIN) cs)), w; simpl in *; try discriminate; auto.
    exfalso. now apply N.
  Qed.
  Lemma fw_tags_nonempty : rp <> RNONE -> (forall w ot, In (w, ot) cs -> exists t, ot = Some t) ->
    val e <> PInf -> tags e <> [].
  Proof.
    intros N Sm NE. destruct (fw_attained NE) as [ot I]. destruct (Sm _ _ I) as [t ->].
    unfold first_write in *. destruct (Thl.has_finite cs); [|simpl in NE; congruence].
    apply (upd_tags_nonempty stag_eqb stag_eqb_spec rp cs t N I).
  Qed.
End FirstWrite.

Lemma fw_tags_complete cs t : (forall w ot, In (w, ot) cs -> nn w) ->
  val (first_write RALL cs) <> PInf -> In (val (first_write RALL cs), Some t) cs -> In t (tags (first_write RALL cs)).
Proof.
  intros NN NE. unfold first_write in *. destruct (Thl.has_finite cs); [|simpl in NE; congruence].
  apply (upd_tags_complete stag_eqb stag_eqb_spec).
Qed.

(** * the five aggregators of one child *)
Lemma in_left_not_right s d : anc (s ++ [false]) d = true -> anc (s ++ [true]) d = false.
Proof.
  intros H. apply anc_snoc_inv in H as [y ->].
  change (s ++ false :: y) with (s ++ [false] ++ y). rewrite anc_app_cancel. reflexivity.
Qed.
Lemma in_side_anc s b d : anc (s ++ [b]) d = true -> anc s d = true.
Proof. intros H. eapply is_prefix_trans; [apply anc_self_app|exact H]. Qed.

Section Choices.
  Variables (S : stree) (c : costs) (rp : ret) (t : stt) (s : path) (m : N).
  Notation sub k := (val (sread t k)).

  Definition okm (k : sassign) : bool := negb (seg_dist (snd k) m true <? 0).
  Definition f_cons (k : sassign) : ext :=
    ext_add (ext_add (Fin (dist s (fst k) * c_floss c)) (sub k)) (Fin (seg_dist (snd k) m true * c_sloss c)).
  Definition f_seg (k : sassign) : ext :=
    ext_add (ext_add (Fin (dist s (fst k) * c_floss c)) (sub k)) (Fin (seg_dist (snd k) m false * c_sloss c)).
  Definition f_side (k : sassign) : ext :=
    ext_add (ext_add (Fin (dist s (fst k) * c_floss c - c_floss c)) (sub k)) (Fin (seg_dist (snd k) m true * c_sloss c)).
  Definition f_sep (k : sassign) : ext :=
    ext_add (sub k) (Fin (seg_dist (snd k) m false * c_sloss c)).

  (* class [i] of a child placement: 0 left, 1 right, 2 conserved, 3 segment, 4 separate *)
  Definition cls (i : nat) (k : sassign) : Prop :=
    match i with
    | 0%nat => sleaf S s = false /\ anc (s ++ [false]) (fst k) = true
    | 1%nat => sleaf S s = false /\ anc (s ++ [true]) (fst k) = true
    | 2%nat | 3%nat => anc s (fst k) = true
    | 4%nat => separate s (fst k) = true
    | _ => False
    end.
  Definition fval (i : nat) (k : sassign) : ext :=
    match i with
    | 0%nat | 1%nat => f_side k
    | 2%nat => f_cons k
    | 3%nat => f_seg k
    | _ => f_sep k
    end.
  Definition PP (i : nat) (k : sassign) : Prop := In k (skeys t) /\ okm k = true /\ cls i k.

  (* the candidates offered for one existing cell of the child (a copy of the local
     function of [child_choices]) *)
  Definition one (k : sassign) : list (nat * (ext * option sassign)) :=
      let '(d, cm) := k in
      let cs := seg_dist cm m true in
      if cs <? 0 then []
      else
        let conserv := Fin (cs * c_sloss c) in
        let segment := Fin (seg_dist cm m false * c_sloss c) in
        let sub := val (sread t k) in
        if anc s d then
          let above := Fin (dist s d * c_floss c) in
          let v_cons := ext_add (ext_add above sub) conserv in
          let v_seg := ext_add (ext_add above sub) segment in
          let below := Fin (dist s d * c_floss c - c_floss c) in
          let v_side := ext_add (ext_add below sub) conserv in
          [(2%nat, (v_cons, Some k)); (3%nat, (v_seg, Some k))]
          ++ (if sleaf S s then []
              else if anc (s ++ [false]) d then [(0%nat, (v_side, Some k))]
              else if anc (s ++ [true]) d then [(1%nat, (v_side, Some k))]
              else [])
        else if negb (anc d s) then [(4%nat, (ext_add sub segment, Some k))]
        else [].
  Definition pick (i : nat) : list (ext * option sassign) :=
    map snd (filter (fun x => Nat.eqb (fst x) i) (flat_map one (skeys t))).

  Lemma child_choices_pick :
    child_choices S c rp t s m =
    {| ch_left := aggp rp (pick 0%nat); ch_right := aggp rp (pick 1%nat); ch_conserved := aggp rp (pick 2%nat);
       ch_segment := aggp rp (pick 3%nat); ch_separate := aggp rp (pick 4%nat) |}.
  Proof. reflexivity. Qed.

  Lemma in_one i v ot k : In (i, (v, ot)) (one k) <-> ot = Some k /\ okm k = true /\ cls i k /\ v = fval i k.
  Proof.
    destruct k as [d cm]. unfold one, okm, cls, fval, f_cons, f_seg, f_side, f_sep, separate. cbn [fst snd].
    pose proof (in_side_anc s false d) as F1. pose proof (in_side_anc s true d) as F2.
    pose proof (in_left_not_right s d) as F3.
    destruct (seg_dist cm m true <? 0); cbn [negb].
    - split; [intros []|intros [_ [X _]]; discriminate].
    - destruct (anc s d) eqn:Asd.
      + destruct (sleaf S s) eqn:Ls; [|destruct (anc (s ++ [false]) d) eqn:Al; [|destruct (anc (s ++ [true]) d) eqn:Ar]];
          cbn [app In negb andb]; (split;
          [ intros H; repeat (destruct H as [H|H]; [inversion H; subst; clear H; repeat split; auto|]); destruct H
          | intros [-> [_ [C ->]]]; destruct i as [|[|[|[|[|i]]]]]; cbn [andb negb] in *;
            try discriminate; try (match type of C with False => destruct C end);
            try (match type of C with _ /\ _ => destruct C as [C1 C2] end); try discriminate; auto;
            try (specialize (F3 eq_refl); congruence); try congruence ]).
      + destruct (anc d s) eqn:Ads; cbn [negb In andb]; (split;
          [ intros H; repeat (destruct H as [H|H]; [inversion H; subst; clear H; repeat split; auto|]); destruct H
          | intros [-> [_ [C ->]]]; destruct i as [|[|[|[|[|i]]]]]; cbn [andb negb] in *;
            try discriminate; try (match type of C with False => destruct C end);
            try (match type of C with _ /\ _ => destruct C as [C1 C2] end); try discriminate; auto;
            try (specialize (F1 C2); congruence); try (specialize (F2 C2); congruence) ]).
  Qed.

  Lemma in_pick i v ot : In (v, ot) (pick i) <-> exists k, In k (skeys t) /\ In (i, (v, ot)) (one k).
  Proof.
    unfold pick. rewrite in_map_iff. split.
    - intros [[j x] [E H]]. cbn [snd] in E. subst x. apply filter_In in H as [H F]. cbn [fst] in F.
      apply Nat.eqb_eq in F. subst j. apply in_flat_map in H. exact H.
    - intros [k [Ik H]]. exists (i, (v, ot)). split; auto. apply filter_In. split.
      + apply in_flat_map. eauto.
      + cbn [fst]. apply Nat.eqb_refl.
  Qed.

  Lemma pick_sound i v ot : In (v, ot) (pick i) -> exists k, ot = Some k /\ PP i k /\ v = fval i k.
  Proof.
    intros H. apply in_pick in H as [k [Ik H]]. apply in_one in H as [-> [Ok [C ->]]].
    exists k. unfold PP. auto.
  Qed.
  Lemma pick_complete i k : PP i k -> In (fval i k, Some k) (pick i).
  Proof.
    intros [Ik [Ok C]]. apply in_pick. exists k. split; auto. apply in_one. auto.
  Qed.
End Choices.

(** * the optimiser's charge as a minimum over a list of guarded families *)
Definition ofams (c : costs) (s : path) (m : N) (kl kr : sassign) : list (bool * ext) :=
  let l := fst kl in let ml := snd kl in let r := fst kr in let mr := snd kr in
  let aT := seg_dist ml m true in let aF := seg_dist ml m false in
  let bT := seg_dist mr m true in let bF := seg_dist mr m false in
  let fl := c_floss c in let sl := c_sloss c in
  [ (spe_cfg s l r, Fin (c_spe c + fl * (dist s l + dist s r - 2) + sl * (aT + bT)));
    (anc s l && anc s r, Fin (c_dup c + fl * (dist s l + dist s r) + sl * (aT + bF)));
    (anc s l && anc s r, Fin (c_dup c + fl * (dist s l + dist s r) + sl * (aF + bT)));
    (anc s l && separate s r, ext_add (c_hgt c) (Fin (fl * dist s l + sl * (aT + bF))));
    (separate s l && anc s r, ext_add (c_hgt c) (Fin (fl * dist s r + sl * (aF + bT)))) ].
Definition gv (x : bool * ext) : ext := guard (fst x) (snd x).

Lemma ocost_ord_minl c s m kl kr :
  ocost_ord c s m kl kr =
  guard (mask_ok (snd kl) m && mask_ok (snd kr) m) (minl gv (ofams c s m kl kr)).
Proof. unfold ocost_ord, ofams, gv. cbn [minl fst snd]. now rewrite ext_min_PInf_r. Qed.

Lemma pair_eq_inv {X Y} (a a' : X) (b b' : Y) : (a, b) = (a', b') -> a = a' /\ b = b'.
Proof. intros H. inversion H. auto. Qed.

Lemma ofams_applicable c s m kl kr v : In (true, v) (ofams c s m kl kr) -> event s (fst kl) (fst kr) <> Inv.
Proof.
  unfold ofams. cbn [In]. intros H. apply applicable_valid.
  repeat (destruct H as [H|H]; [apply pair_eq_inv in H as [G V]|]); try destruct H;
    try (apply andb_true_iff in G as [G1 G2]); tauto.
Qed.

Lemma ocost_ord_le c s m kl kr v :
  mask_ok (snd kl) m = true -> mask_ok (snd kr) m = true -> In (true, v) (ofams c s m kl kr) ->
  ele (ocost_ord c s m kl kr) v.
Proof.
  intros G1 G2 I. rewrite ocost_ord_minl, G1, G2. cbn [andb guard].
  exact (minl_le gv _ _ I).
Qed.

Lemma ocost_ord_attained c s m kl kr : ocost_ord c s m kl kr <> PInf ->
  mask_ok (snd kl) m = true /\ mask_ok (snd kr) m = true /\ In (true, ocost_ord c s m kl kr) (ofams c s m kl kr).
Proof.
  rewrite ocost_ord_minl. destruct (mask_ok (snd kl) m); [|cbn; congruence].
  destruct (mask_ok (snd kr) m); [|cbn; congruence]. cbn [andb guard]. intros NE.
  destruct (minl_attained gv _ NE) as [[b v] [I E]]. rewrite <- E in *. unfold gv in *. cbn [fst snd] in *.
  destruct b; [auto|cbn in NE; congruence].
Qed.

Lemma ocost_ord_fin_valid c s m kl kr : ocost_ord c s m kl kr <> PInf -> event s (fst kl) (fst kr) <> Inv.
Proof. intros H. destruct (ocost_ord_attained _ _ _ _ _ H) as [_ [_ I]]. eapply ofams_applicable; eauto. Qed.

Lemma nn_ocost_ord c s m kl kr : nn (c_hgt c) -> nn (ocost_ord c s m kl kr).
Proof.
  intros Hh. destruct (ext_eqb (ocost_ord c s m kl kr) PInf) eqn:E.
  - apply ext_eqb_eq in E. rewrite E. apply nn_PInf.
  - assert (ocost_ord c s m kl kr <> PInf) as NE by (intros X; rewrite X in E; discriminate).
    destruct (ocost_ord_attained _ _ _ _ _ NE) as [_ [_ I]]. revert I. generalize (ocost_ord c s m kl kr).
    intros v. unfold ofams. cbn [In]. intros H.
    repeat (destruct H as [H|H]; [inversion H; try apply nn_Fin; apply nn_add; auto using nn_Fin|]). destruct H.
Qed.

(** * a non-empty child mask: [seg_dist] is non-negative exactly when contained *)
Lemma okm_mask_ok m k : snd k <> 0%N -> okm m k = mask_ok (snd k) m.
Proof.
  intros N0. unfold okm, mask_ok. rewrite (seg_dist_correct _ _ _ N0). unfold seg_dist_specf.
  destruct (N.eqb_spec (snd k) 0); [contradiction|]. cbn [negb andb].
  destruct (contained (snd k) m); [|reflexivity].
  destruct (Z.ltb_spec (Z.of_nat (runs_all (flags (snd k) m))) 0); [lia|reflexivity].
Qed.

(** * one cell *)
Definition fams6 (c : costs) : list (ext * nat * nat) :=
  [(Fin (c_spe c), 0, 1); (Fin (c_spe c), 1, 0); (Fin (c_dup c), 2, 3); (Fin (c_dup c), 3, 2);
   (c_hgt c, 2, 4); (c_hgt c, 4, 2)]%nat.

Definition keys_ok (S : stree) (t : stt) : Prop :=
  forall k, In k (skeys t) -> snd k <> 0%N /\ valid_sp S (fst k) = true.

Lemma sread_fin_in t k : val (sread t k) <> PInf -> In k (skeys t).
Proof.
  destruct t as [sp m|cells a b]; cbn [sread skeys].
  - destruct (sassign_eqb_spec k (sp, m)) as [->|N]; [now left|]. simpl. congruence.
  - induction cells as [|[k' e] r IH]; cbn [srow_lookup map fst In]; [simpl; congruence|].
    destruct (sassign_eqb_spec k k') as [->|N]; auto.
Qed.

Section Cell.
  Variables (S : stree) (c : costs) (rp : ret) (ta tb : stt) (s : path) (m : N).
  Notation A k := (val (sread ta k)).
  Notation B k := (val (sread tb k)).
  Hypothesis Hh : nn (c_hgt c).
  Hypothesis NA : forall k, nn (A k).
  Hypothesis NB : forall k, nn (B k).
  Hypothesis KA : keys_ok S ta.
  Hypothesis KB : keys_ok S tb.

  Definition batch : list (ext * option stag) :=
    flat_map (fun x : ext * nat * nat => let '(k, i, j) := x in
                comb2 rp k (aggp rp (pick S c ta s m i)) (aggp rp (pick S c tb s m j))) (fams6 c).

  Lemma scell_batch : scell S c rp ta tb s m = first_write rp batch.
  Proof.
    unfold scell, batch. rewrite !child_choices_pick. cbv zeta.
    cbn [ch_left ch_right ch_conserved ch_segment ch_separate fams6 flat_map]. now rewrite app_nil_r.
  Qed.

  Definition cand_spec (kl kr : sassign) (w : ext) : Prop :=
    exists k i j, In (k, i, j) (fams6 c) /\ PP S ta s m i kl /\ PP S tb s m j kr /\
                  w = ext_add (ext_add k (fval c ta s m i kl)) (fval c tb s m j kr).

  Lemma nn_fval (t : stt) i k : nn (val (sread t k)) -> nn (fval c t s m i k).
  Proof.
    intros H. destruct i as [|[|[|[|i]]]]; unfold fval, f_side, f_cons, f_seg, f_sep;
      repeat apply nn_add; auto using nn_Fin.
  Qed.
  Lemma nn_fams k i j : In (k, i, j) (fams6 c) -> nn k.
  Proof.
    unfold fams6. cbn [In]. intros H.
    repeat (destruct H as [H|H]; [inversion H; subst; auto using nn_Fin|]). destruct H.
  Qed.

  Lemma batch_sound w kl kr : In (w, Some (kl, kr)) batch -> cand_spec kl kr w.
  Proof.
    unfold batch. intros H. apply in_flat_map in H as [[[k i] j] [If H]].
    apply (oc_sound rp k _ _ (PP S ta s m i) (PP S tb s m j) (fval c ta s m i) (fval c tb s m j)
             (pick_sound S c ta s m i) (pick_sound S c tb s m j)) in H as [Pl [Pr E]].
    exists k, i, j. auto.
  Qed.
  Lemma batch_some w ot : In (w, ot) batch -> exists t, ot = Some t.
  Proof.
    unfold batch. intros H. apply in_flat_map in H as [[[k i] j] [If H]]. eapply scomb_some; eauto.
  Qed.
  Lemma cand_spec_nn kl kr w : cand_spec kl kr w -> nn w.
  Proof.
    intros [k [i [j [If [_ [_ ->]]]]]]. apply nn_add; [apply nn_add|]; auto using nn_fval. eapply nn_fams; eauto.
  Qed.
  Lemma batch_nn w ot : In (w, ot) batch -> nn w.
  Proof.
    intros H. destruct (batch_some _ _ H) as [[kl kr] ->]. apply batch_sound in H. eapply cand_spec_nn; eauto.
  Qed.

  Lemma batch_lower kl kr w : rp <> RNONE -> cand_spec kl kr w ->
    exists w' t, In (w', Some t) batch /\ ele w' w.
  Proof.
    intros N [k [i [j [If [Pl [Pr ->]]]]]].
    destruct (oc_lower rp k _ _ (PP S ta s m i) (PP S tb s m j) (fval c ta s m i) (fval c tb s m j)
                (pick_sound S c ta s m i) (pick_complete S c ta s m i)
                (pick_sound S c tb s m j) (pick_complete S c tb s m j) kl kr N Pl Pr) as [t [It Le]].
    eexists. exists t. split; [|exact Le]. unfold batch. apply in_flat_map. exists (k, i, j). auto.
  Qed.

  Notation cellv := (val (scell S c rp ta tb s m)).

  Lemma scell_nn : nn cellv.
  Proof. rewrite scell_batch. apply fw_nn. exact batch_nn. Qed.

  Lemma scell_le_batch w ot : In (w, ot) batch -> ele cellv w.
  Proof. rewrite scell_batch. apply fw_le. exact batch_nn. Qed.

  Lemma scell_le_spec kl kr w : rp <> RNONE -> cand_spec kl kr w -> ele cellv w.
  Proof.
    intros N H. destruct (batch_lower kl kr w N H) as [w' [t [I L]]].
    eapply ele_trans; [eapply scell_le_batch; eauto|exact L].
  Qed.

  (** the specification of a candidate against the optimiser's families *)
  Lemma PP_okm_l i k : PP S ta s m i k -> In k (skeys ta) /\ mask_ok (snd k) m = true.
  Proof. intros [I [O _]]. split; auto. rewrite <- okm_mask_ok; auto. apply KA; auto. Qed.
  Lemma PP_okm_r i k : PP S tb s m i k -> In k (skeys tb) /\ mask_ok (snd k) m = true.
  Proof. intros [I [O _]]. split; auto. rewrite <- okm_mask_ok; auto. apply KB; auto. Qed.

  Lemma cand_spec_fam kl kr w : cand_spec kl kr w ->
    In kl (skeys ta) /\ In kr (skeys tb) /\ mask_ok (snd kl) m = true /\ mask_ok (snd kr) m = true /\
    exists v, In (true, v) (ofams c s m kl kr) /\ w = ext_add v (ext_add (A kl) (B kr)).
  Proof.
    intros [k [i [j [If [Pl [Pr ->]]]]]].
    destruct (PP_okm_l _ _ Pl) as [Il Ml]. destruct (PP_okm_r _ _ Pr) as [Ir Mr].
    repeat (split; [assumption|]).
    destruct Pl as [_ [_ Cl]]. destruct Pr as [_ [_ Cr]].
    unfold fams6 in If. cbn [In] in If. unfold ofams. cbn [In].
    repeat (destruct If as [If|If]; [inversion If; subst k i j; clear If|]); try destruct If;
      cbn [cls fval] in *; unfold f_side, f_cons, f_seg, f_sep.
    - destruct Cl as [_ Cl], Cr as [_ Cr]. eexists. split.
      + left. f_equal. unfold spe_cfg, in_left, in_right. now rewrite Cl, Cr.
      + destruct (A kl), (B kr); cbn [ext_add]; auto; f_equal; lia.
    - destruct Cl as [_ Cl], Cr as [_ Cr]. eexists. split.
      + left. f_equal. unfold spe_cfg, in_left, in_right. rewrite Cl, Cr. now rewrite orb_true_r.
      + destruct (A kl), (B kr); cbn [ext_add]; auto; f_equal; lia.
    - eexists. split.
      + right. left. f_equal. now rewrite Cl, Cr.
      + destruct (A kl), (B kr); cbn [ext_add]; auto; f_equal; lia.
    - eexists. split.
      + right. right. left. f_equal. now rewrite Cl, Cr.
      + destruct (A kl), (B kr); cbn [ext_add]; auto; f_equal; lia.
    - eexists. split.
      + right. right. right. left. f_equal. now rewrite Cl, Cr.
      + destruct (c_hgt c), (A kl), (B kr); cbn [ext_add]; auto; f_equal; lia.
    - eexists. split.
      + right. right. right. right. left. f_equal. now rewrite Cl, Cr.
      + destruct (c_hgt c), (A kl), (B kr); cbn [ext_add]; auto; f_equal; lia.
  Qed.

  Lemma side_not_leaf b k : In k (skeys ta) \/ In k (skeys tb) -> anc (s ++ [b]) (fst k) = true -> sleaf S s = false.
  Proof.
    intros I H. apply anc_snoc_inv in H as [y E].
    assert (valid_sp S (fst k) = true) as V by (destruct I as [I|I]; [apply KA|apply KB]; auto).
    rewrite E in V. eapply valid_sp_not_leaf; eauto.
  Qed.

  Lemma fam_cand_spec kl kr v :
    In kl (skeys ta) -> In kr (skeys tb) -> mask_ok (snd kl) m = true -> mask_ok (snd kr) m = true ->
    In (true, v) (ofams c s m kl kr) -> cand_spec kl kr (ext_add v (ext_add (A kl) (B kr))).
  Proof.
    intros Il Ir Ml Mr H.
    assert (okm m kl = true) as Ol by (rewrite okm_mask_ok; auto; apply KA; auto).
    assert (okm m kr = true) as Or by (rewrite okm_mask_ok; auto; apply KB; auto).
    unfold ofams in H. cbn [In] in H. unfold cand_spec, fams6, PP.
    repeat (destruct H as [H|H]; [apply pair_eq_inv in H as [G V]; subst v|]); try destruct H.
    - unfold spe_cfg, in_left, in_right in G. apply orb_true_iff in G as [G|G]; apply andb_true_iff in G as [G1 G2].
      + exists (Fin (c_spe c)), 0%nat, 1%nat. split; [cbn; auto|]. cbn [cls fval].
        pose proof (side_not_leaf false kl (or_introl Il) G1). repeat (split; [auto|]).
        unfold f_side. destruct (A kl), (B kr); cbn [ext_add]; auto; f_equal; lia.
      + exists (Fin (c_spe c)), 1%nat, 0%nat. split; [cbn; auto|]. cbn [cls fval].
        pose proof (side_not_leaf true kl (or_introl Il) G1). repeat (split; [auto|]).
        unfold f_side. destruct (A kl), (B kr); cbn [ext_add]; auto; f_equal; lia.
    - apply andb_true_iff in G as [G1 G2].
      exists (Fin (c_dup c)), 2%nat, 3%nat. split; [cbn; auto|]. cbn [cls fval]. repeat (split; [auto|]).
      unfold f_cons, f_seg. destruct (A kl), (B kr); cbn [ext_add]; auto; f_equal; lia.
    - apply andb_true_iff in G as [G1 G2].
      exists (Fin (c_dup c)), 3%nat, 2%nat. split; [cbn; auto 6|]. cbn [cls fval]. repeat (split; [auto|]).
      unfold f_cons, f_seg. destruct (A kl), (B kr); cbn [ext_add]; auto; f_equal; lia.
    - apply andb_true_iff in G as [G1 G2].
      exists (c_hgt c), 2%nat, 4%nat. split; [cbn; auto 8|]. cbn [cls fval]. repeat (split; [auto|]).
      unfold f_cons, f_sep. destruct (c_hgt c), (A kl), (B kr); cbn [ext_add]; auto; f_equal; lia.
    - apply andb_true_iff in G as [G1 G2].
      exists (c_hgt c), 4%nat, 2%nat. split; [cbn; auto 8|]. cbn [cls fval]. repeat (split; [auto|]).
      unfold f_cons, f_sep. destruct (c_hgt c), (A kl), (B kr); cbn [ext_add]; auto; f_equal; lia.
  Qed.

  Notation tot kl kr := (ext_add (ocost_ord c s m kl kr) (ext_add (A kl) (B kr))).

  Lemma cand_spec_ocost_le kl kr w : cand_spec kl kr w -> ele (tot kl kr) w.
  Proof.
    intros H. destruct (cand_spec_fam _ _ _ H) as [_ [_ [Ml [Mr [v [I ->]]]]]].
    apply ext_add_mono; [|apply ele_refl]. now apply ocost_ord_le.
  Qed.

  Lemma tot_fin_spec kl kr : tot kl kr <> PInf -> cand_spec kl kr (tot kl kr).
  Proof.
    intros NE.
    assert (ocost_ord c s m kl kr <> PInf) as No by (intros X; rewrite X in NE; apply NE; reflexivity).
    assert (A kl <> PInf) as Na.
    { intros X. rewrite X in NE. apply NE. destruct (ocost_ord c s m kl kr); reflexivity. }
    assert (B kr <> PInf) as Nb.
    { intros X. rewrite X in NE. apply NE. destruct (ocost_ord c s m kl kr), (A kl); reflexivity. }
    destruct (ocost_ord_attained _ _ _ _ _ No) as [Ml [Mr I]].
    apply fam_cand_spec; auto using sread_fin_in.
  Qed.

  (** the cell is below the optimiser's charge of every placement of the children *)
  Theorem scell_lower kl kr : rp <> RNONE -> ele cellv (tot kl kr).
  Proof.
    intros N. destruct (ext_eqb (tot kl kr) PInf) eqn:E.
    - apply ext_eqb_eq in E. rewrite E. apply ele_PInf.
    - assert (tot kl kr <> PInf) as NE by (intros X; rewrite X in E; discriminate).
      eapply scell_le_spec; eauto using tot_fin_spec.
  Qed.

  (** a tag comes from an applicable family whose value is the cell's (no hypothesis on costs) *)
  Theorem scell_tag_sound kl kr : In (kl, kr) (tags (scell S c rp ta tb s m)) ->
    ext_is_inf cellv = false /\ cand_spec kl kr cellv.
  Proof.
    rewrite scell_batch. intros H. split.
    - eapply fw_tags_finite; eauto. exact batch_nn.
    - apply batch_sound. now apply fw_tags_sound.
  Qed.

  Theorem scell_tag_value kl kr : rp <> RNONE -> In (kl, kr) (tags (scell S c rp ta tb s m)) ->
    cellv = tot kl kr.
  Proof.
    intros N H. destruct (scell_tag_sound _ _ H) as [_ Sp].
    apply ele_antisym; [now apply scell_lower|now apply cand_spec_ocost_le].
  Qed.

  (** the value of the cell: the clean recurrence over the existing cells of the children *)
  Theorem scell_attained : cellv <> PInf ->
    exists kl kr, In kl (skeys ta) /\ In kr (skeys tb) /\ ele (tot kl kr) cellv.
  Proof.
    intros NE. rewrite scell_batch in NE. destruct (fw_attained rp batch NE) as [ot I].
    rewrite <- scell_batch in I. destruct (batch_some _ _ I) as [[kl kr] ->].
    apply batch_sound in I. exists kl, kr.
    destruct (cand_spec_fam _ _ _ I) as [Il [Ir _]]. repeat split; auto. now apply cand_spec_ocost_le.
  Qed.

  Theorem scell_tags_nonempty : rp <> RNONE -> cellv <> PInf -> tags (scell S c rp ta tb s m) <> [].
  Proof.
    intros N NE. rewrite scell_batch in *. apply fw_tags_nonempty; auto. exact batch_some.
  Qed.
End Cell.

Section CellAll.
  Variables (S : stree) (c : costs) (ta tb : stt) (s : path) (m : N).
  Notation A k := (val (sread ta k)).
  Notation B k := (val (sread tb k)).
  Hypothesis Hh : nn (c_hgt c).
  Hypothesis NA : forall k, nn (A k).
  Hypothesis NB : forall k, nn (B k).
  Hypothesis KA : keys_ok S ta.
  Hypothesis KB : keys_ok S tb.
  Notation cellv := (val (scell S c RALL ta tb s m)).

  Lemma batch_tight kl kr w : cand_spec S c ta tb s m kl kr w -> w <> PInf ->
    (forall w' ot, In (w', ot) (batch S c RALL ta tb s m) -> ele w w') ->
    In (w, Some (kl, kr)) (batch S c RALL ta tb s m).
  Proof.
    intros [k [i [j [If [Pl [Pr E]]]]]] NE Low.
    unfold batch. apply in_flat_map. exists (k, i, j). split; auto.
    apply (oc_tight k _ _ (PP S ta s m i) (PP S tb s m j) (fval c ta s m i) (fval c tb s m j)
             (pick_sound S c ta s m i) (pick_complete S c ta s m i)
             (pick_sound S c tb s m j) (pick_complete S c tb s m j)); auto.
    - eapply nn_fams; eauto.
    - intros x _. apply nn_fval. apply NA.
    - intros x _. apply nn_fval. apply NB.
    - destruct (oc_lower RALL k _ _ (PP S ta s m i) (PP S tb s m j) (fval c ta s m i) (fval c tb s m j)
                (pick_sound S c ta s m i) (pick_complete S c ta s m i)
                (pick_sound S c tb s m j) (pick_complete S c tb s m j) kl kr RALL_not_none Pl Pr) as [t [It _]].
      eapply Low. unfold batch. apply in_flat_map. exists (k, i, j). split; eauto.
  Qed.

  Theorem scell_tag_complete kl kr : cellv <> PInf ->
    cellv = ext_add (ocost_ord c s m kl kr) (ext_add (A kl) (B kr)) ->
    In (kl, kr) (tags (scell S c RALL ta tb s m)).
  Proof.
    intros NE E. rewrite scell_batch in *.
    apply fw_tags_complete; auto. { apply batch_nn; auto. }
    rewrite <- scell_batch in *. apply batch_tight.
    - rewrite E. apply tot_fin_spec; auto. now rewrite <- E.
    - exact NE.
    - intros w' ot I. eapply scell_le_batch; eauto.
  Qed.
End CellAll.

(** * the whole table *)
Notation Sub := (Subseq (A := fam)).

(* hypotheses on the input: leaves on species of S, with non-empty syntenies that are
   sub-sequences of the root ordering *)
Fixpoint leaves_ord (S : stree) (ord : list fam) (o : otree) : Prop :=
  match o with
  | OLeaf sp syn => valid_sp S sp = true /\ syn <> [] /\ Sub syn ord
  | ONode a b => leaves_ord S ord a /\ leaves_ord S ord b
  end.
Lemma leaves_ord_ok S ord o : leaves_ord S ord o -> leaves_ok S o.
Proof. induction o; simpl; tauto. Qed.

Definition masks_for (ord : list fam) (is_root : bool) : list N :=
  if is_root then [subseq_complete ord] else all_masks (length ord).

(* the cells that are computed for an object *)
Definition ckeys (S : stree) (extended : bool) (ord : list fam) (is_root : bool) (o : otree) : list sassign :=
  match o with
  | OLeaf sp syn => [(sp, mask_of ord syn)]
  | ONode _ _ => list_prod (allowed_species S extended o) (masks_for ord is_root)
  end.

Definition cellrow (S : stree) (c : costs) (rp : ret) (ta tb : stt) (k : sassign) : srow :=
  let e := scell S c rp ta tb (fst k) (snd k) in
  if ext_is_inf (val e) then [] else [(k, e)].

Lemma flat_map_prod {X Y Z} (g : X * Y -> list Z) (xs : list X) (ys : list Y) :
  flat_map (fun x => flat_map (fun y => g (x, y)) ys) xs = flat_map g (list_prod xs ys).
Proof.
  induction xs as [|x xs IH]; cbn [flat_map list_prod]; [reflexivity|].
  rewrite flat_map_app, IH. f_equal. clear IH. induction ys as [|y ys IH]; cbn [flat_map map]; congruence.
Qed.

Lemma spfs_table_node S c rp extended ord is_root a b :
  spfs_table S c rp extended ord is_root (ONode a b) =
  STNode (flat_map (cellrow S c rp (spfs_table S c rp extended ord false a) (spfs_table S c rp extended ord false b))
                   (ckeys S extended ord is_root (ONode a b)))
         (spfs_table S c rp extended ord false a) (spfs_table S c rp extended ord false b).
Proof.
  cbn [spfs_table ckeys]. f_equal. unfold masks_for.
  apply (flat_map_prod (cellrow S c rp (spfs_table S c rp extended ord false a) (spfs_table S c rp extended ord false b))).
Qed.

Section Row.
  Variables (e : sassign -> entry stag) (row : sassign -> srow).
  Hypothesis Hrow : forall x, row x = if ext_is_inf (val (e x)) then [] else [(x, e x)].

  Lemma srow_lookup_spec (l : list sassign) k v :
    srow_lookup (flat_map row l) k = Some v -> In k l /\ ext_is_inf (val (e k)) = false /\ v = e k.
  Proof.
    induction l as [|y l IH]; cbn [flat_map srow_lookup]; [discriminate|]. rewrite Hrow.
    destruct (ext_is_inf (val (e y))) eqn:Py; cbn [app srow_lookup].
    - intros H. destruct (IH H) as [I R]. split; [now right|exact R].
    - destruct (sassign_eqb_spec k y) as [->|N].
      + intros [= <-]. split; [now left|auto].
      + intros H. destruct (IH H) as [I R]. split; [now right|exact R].
  Qed.
  Lemma srow_lookup_found (l : list sassign) k :
    In k l -> ext_is_inf (val (e k)) = false -> srow_lookup (flat_map row l) k = Some (e k).
  Proof.
    induction l as [|y l IH]; cbn [flat_map srow_lookup In]; [tauto|]. intros I Pk. rewrite Hrow.
    destruct (ext_is_inf (val (e y))) eqn:Py; cbn [app srow_lookup].
    - destruct I as [->|I]; [congruence|auto].
    - destruct (sassign_eqb_spec k y) as [->|N]; [reflexivity|]. destruct I as [->|I]; [congruence|auto].
  Qed.
  Lemma srow_keys (l : list sassign) k :
    In k (map fst (flat_map row l)) <-> In k l /\ ext_is_inf (val (e k)) = false.
  Proof.
    rewrite in_map_iff. split.
    - intros [[k' v] [E H]]. cbn [fst] in E. subst k'. apply in_flat_map in H as [x [Ix H]]. rewrite Hrow in H.
      destruct (ext_is_inf (val (e x))) eqn:Px; [destruct H|]. destruct H as [H|[]]. inversion H; subst. auto.
    - intros [I P]. exists (k, e k). split; auto. apply in_flat_map. exists k. split; auto. rewrite Hrow, P. now left.
  Qed.
End Row.

Lemma mask_ok_parent_nonzero cm m : mask_ok cm m = true -> m <> 0%N.
Proof.
  unfold mask_ok, contained. intros H E. subst m. rewrite N.ldiff_0_r in H.
  destruct (N.eqb cm 0); discriminate.
Qed.

Section TableNode.
  Variables (S : stree) (c : costs) (rp : ret) (ta tb : stt) (keys : list sassign).
  Hypothesis Hh : nn (c_hgt c).
  Hypothesis NA : forall k, nn (val (sread ta k)).
  Hypothesis NB : forall k, nn (val (sread tb k)).
  Hypothesis KA : keys_ok S ta.
  Hypothesis KB : keys_ok S tb.
  Notation T := (STNode (flat_map (cellrow S c rp ta tb) keys) ta tb).
  Notation cell k := (scell S c rp ta tb (fst k) (snd k)).

  Lemma cellrow_eq x : cellrow S c rp ta tb x = if ext_is_inf (val (cell x)) then [] else [(x, cell x)].
  Proof. reflexivity. Qed.

  Lemma sread_node_some k e : srow_lookup (flat_map (cellrow S c rp ta tb) keys) k = Some e ->
    In k keys /\ ext_is_inf (val (cell k)) = false /\ e = cell k.
  Proof. apply (srow_lookup_spec (fun k => cell k) _ cellrow_eq). Qed.

  Lemma sread_node_val k : In k keys -> val (sread T k) = val (cell k).
  Proof.
    intros I. cbn [sread]. destruct (ext_is_inf (val (cell k))) eqn:F.
    - destruct (srow_lookup _ k) as [e|] eqn:L.
      + apply sread_node_some in L as [_ [F' ->]]. congruence.
      + simpl. symmetry. apply nn_inf_PInf; auto. apply scell_nn; auto.
    - rewrite (srow_lookup_found (fun k => cell k) _ cellrow_eq keys k I F). reflexivity.
  Qed.

  Lemma sread_node_out k : ~ In k keys -> val (sread T k) = PInf.
  Proof.
    intros N. cbn [sread]. destruct (srow_lookup _ k) as [e|] eqn:L; [|reflexivity].
    apply sread_node_some in L as [I _]. contradiction.
  Qed.

  Lemma sread_node_nn k : nn (val (sread T k)).
  Proof.
    cbn [sread]. destruct (srow_lookup _ k) as [e|] eqn:L.
    - apply sread_node_some in L as [_ [_ ->]]. apply scell_nn; auto.
    - apply nn_PInf.
  Qed.

  Lemma sread_node_tags k t : In t (tags (sread T k)) <-> In k keys /\ In t (tags (cell k)).
  Proof.
    cbn [sread]. split.
    - destruct (srow_lookup _ k) as [e|] eqn:L; [|intros []].
      apply sread_node_some in L as [I [_ ->]]. auto.
    - intros [I H].
      assert (ext_is_inf (val (cell k)) = false) as F.
      { destruct t as [kl kr]. eapply scell_tag_sound; eauto. }
      rewrite (srow_lookup_found (fun k => cell k) _ cellrow_eq keys k I F). exact H.
  Qed.

  Lemma skeys_node k : In k (skeys T) <-> In k keys /\ ext_is_inf (val (cell k)) = false.
  Proof. cbn [skeys]. apply (srow_keys (fun k => cell k) _ cellrow_eq). Qed.

  Lemma keys_ok_node : (forall k, In k keys -> valid_sp S (fst k) = true) -> keys_ok S T.
  Proof.
    intros V k I. apply skeys_node in I as [I F]. split; [|auto].
    assert (val (cell k) <> PInf) as NE by (intros X; rewrite X in F; discriminate).
    destruct (scell_attained S c rp ta tb (fst k) (snd k) Hh KA KB NE) as [kl [kr [_ [_ Le]]]].
    assert (ocost_ord c (fst k) (snd k) kl kr <> PInf) as No.
    { intros X. rewrite X in Le. apply NE. apply ele_antisym; [apply ele_PInf|exact Le]. }
    destruct (ocost_ord_attained _ _ _ _ _ No) as [Ml _]. eapply mask_ok_parent_nonzero; eauto.
  Qed.
End TableNode.

Lemma allowed_species_valid S extended o s : leaves_ok S o -> In s (allowed_species S extended o) -> valid_sp S s = true.
Proof.
  intros L. unfold allowed_species. destruct extended.
  - apply snodes_valid.
  - intros [<-|[]]. apply (valid_rec_root_valid S o). now apply lca_valid.
Qed.

Lemma ckeys_valid S extended ord is_root o k : leaves_ord S ord o ->
  In k (ckeys S extended ord is_root o) -> valid_sp S (fst k) = true.
Proof.
  intros L. destruct o as [sp syn|a b]; cbn [ckeys].
  - intros [<-|[]]. apply L.
  - destruct k as [s m]. intros H. apply in_prod_iff in H as [H _].
    eapply allowed_species_valid; eauto. now apply (leaves_ord_ok S ord).
Qed.

Section Table.
  Variables (S : stree) (c : costs) (rp : ret) (extended : bool) (ord : list fam).
  Hypothesis Hh : nn (c_hgt c).
  Notation tbl := (spfs_table S c rp extended ord).

  Lemma table_nn_keys o : leaves_ord S ord o -> forall is_root,
    (forall k, nn (val (sread (tbl is_root o) k))) /\ keys_ok S (tbl is_root o).
  Proof.
    induction o as [sp syn|a IHa b IHb]; intros L is_root.
    - split.
      + intros k. cbn [spfs_table sread]. destruct (sassign_eqb k (sp, mask_of ord syn)); simpl; discriminate.
      + intros k [<-|[]]. cbn [fst snd]. destruct L as [V [N Sb]]. split; auto. now apply mask_of_nonzero.
    - destruct L as [La Lb]. destruct (IHa La false) as [NA KA]. destruct (IHb Lb false) as [NB KB].
      rewrite spfs_table_node. split.
      + intros k. apply sread_node_nn; auto.
      + apply keys_ok_node; auto. intros k. apply (ckeys_valid S extended ord is_root (ONode a b)). split; auto.
  Qed.
  Lemma stable_nn o is_root k : leaves_ord S ord o -> nn (val (sread (tbl is_root o) k)).
  Proof. intros L. apply table_nn_keys; auto. Qed.
  Lemma stable_keys_ok o is_root : leaves_ord S ord o -> keys_ok S (tbl is_root o).
  Proof. intros L. apply table_nn_keys; auto. Qed.

  Lemma skeys_ckeys o is_root k : In k (skeys (tbl is_root o)) -> In k (ckeys S extended ord is_root o).
  Proof.
    destruct o as [sp syn|a b]; [exact (fun H => H)|].
    rewrite spfs_table_node. intros H. now apply skeys_node in H.
  Qed.
End Table.

(** * the clean recurrence *)
Definition node_sval (c : costs) (s : path) (m : N) (ka kb : list sassign) (Ta Tb : sassign -> ext) : ext :=
  minl (fun kl => minl (fun kr => ext_add (ocost_ord c s m kl kr) (ext_add (Ta kl) (Tb kr))) kb) ka.

Fixpoint Sval (c : costs) (S : stree) (extended : bool) (ord : list fam) (is_root : bool) (o : otree)
    (k : sassign) : ext :=
  match o with
  | OLeaf sp syn => if sassign_eqb k (sp, mask_of ord syn) then Fin 0 else PInf
  | ONode a b =>
      if existsb (sassign_eqb k) (ckeys S extended ord is_root o) then
        node_sval c (fst k) (snd k) (ckeys S extended ord false a) (ckeys S extended ord false b)
                  (Sval c S extended ord false a) (Sval c S extended ord false b)
      else PInf
  end.

Lemma existsb_sassign k l : existsb (sassign_eqb k) l = true <-> In k l.
Proof.
  rewrite existsb_exists. split.
  - intros [x [I E]]. destruct (sassign_eqb_spec k x); [subst; auto|discriminate].
  - intros I. exists k. split; auto. destruct (sassign_eqb_spec k k); congruence.
Qed.

Lemma minl_glb {X} (f : X -> ext) l v : (forall x, In x l -> ele v (f x)) -> ele v (minl f l).
Proof.
  intros H. induction l as [|y l IH]; simpl; [apply ele_PInf|].
  apply ele_min_glb; [apply H; now left|apply IH; intros x Hx; apply H; now right].
Qed.

Lemma node_sval_le c s m ka kb Ta Tb kl kr : In kl ka -> In kr kb ->
  ele (node_sval c s m ka kb Ta Tb) (ext_add (ocost_ord c s m kl kr) (ext_add (Ta kl) (Tb kr))).
Proof.
  intros Il Ir. unfold node_sval. eapply ele_trans; [apply (minl_le _ ka kl Il)|]. cbv beta.
  apply (minl_le (fun kr0 => ext_add (ocost_ord c s m kl kr0) (ext_add (Ta kl) (Tb kr0))) kb kr Ir).
Qed.

Lemma node_sval_attained c s m ka kb Ta Tb : node_sval c s m ka kb Ta Tb <> PInf ->
  exists kl kr, In kl ka /\ In kr kb /\
    node_sval c s m ka kb Ta Tb = ext_add (ocost_ord c s m kl kr) (ext_add (Ta kl) (Tb kr)).
Proof.
  unfold node_sval. intros HT.
  destruct (minl_attained _ _ HT) as [l [Il El]]. rewrite <- El in HT.
  destruct (minl_attained _ _ HT) as [r [Ir Er]]. exists l, r. repeat split; auto. now rewrite <- El, <- Er.
Qed.

(** the table holds the clean recurrence, for every key *)
Theorem stable_value S c rp extended ord : nn (c_hgt c) -> rp <> RNONE ->
  forall o, leaves_ord S ord o -> forall is_root k,
  val (sread (spfs_table S c rp extended ord is_root o) k) = Sval c S extended ord is_root o k.
Proof.
  intros Hh Hrp. induction o as [sp syn|a IHa b IHb]; intros L is_root k.
  - cbn [spfs_table sread Sval]. destruct (sassign_eqb k (sp, mask_of ord syn)); reflexivity.
  - destruct L as [La Lb]. rewrite spfs_table_node. cbn [Sval].
    pose proof (stable_nn S c rp extended ord Hh a false) as NA.
    pose proof (stable_nn S c rp extended ord Hh b false) as NB.
    pose proof (stable_keys_ok S c rp extended ord Hh a false La) as KA.
    pose proof (stable_keys_ok S c rp extended ord Hh b false Lb) as KB.
    destruct (existsb (sassign_eqb k) (ckeys S extended ord is_root (ONode a b))) eqn:Ex.
    + apply existsb_sassign in Ex. rewrite sread_node_val by auto.
      apply ele_antisym.
      * apply minl_glb. intros kl Il. apply minl_glb. intros kr Ir.
        rewrite <- (IHa La false kl), <- (IHb Lb false kr). apply scell_lower; auto.
      * destruct (ext_eqb (val (scell S c rp (spfs_table S c rp extended ord false a)
                    (spfs_table S c rp extended ord false b) (fst k) (snd k))) PInf) eqn:E;
          [apply ext_eqb_eq in E; rewrite E; apply ele_PInf|].
        match type of E with ext_eqb ?v _ = _ => assert (v <> PInf) as NE by (intros X; rewrite X in E; discriminate) end.
        destruct (scell_attained S c rp _ _ (fst k) (snd k) Hh KA KB NE)
          as [kl [kr [Il [Ir Le]]]].
        eapply ele_trans; [|exact Le].
        rewrite (IHa La false kl), (IHb Lb false kr).
        apply node_sval_le; eapply skeys_ckeys; eauto.
    + apply sread_node_out. intros I. apply existsb_sassign in I. congruence.
Qed.

(** * masks: decoding sub-masks gives sub-sequences *)
Lemma from_mask_contained (parent : list fam) : forall ml m ya y,
  contained ml m = true -> subseq_from_mask ml parent = Some ya -> subseq_from_mask m parent = Some y ->
  Sub ya y.
Proof.
  induction parent as [|pv ps IH]; intros ml m ya y C Ea Ey.
  - destruct ml as [|p]; [inversion Ea; constructor|destruct p; discriminate].
  - destruct ml as [|p]; [inversion Ea; constructor|].
    destruct m as [|r]; [unfold contained in C; simpl in C; discriminate|].
    destruct p as [q|q|], r as [r|r|].
    + change (N.pos q~1) with (N.succ_double (N.pos q)) in *. change (N.pos r~1) with (N.succ_double (N.pos r)) in *.
      rewrite contained_succ_succ in C. rewrite from_mask_succ_double in Ea, Ey.
      destruct (subseq_from_mask (N.pos q) ps) as [ya'|] eqn:E1; [|discriminate].
      destruct (subseq_from_mask (N.pos r) ps) as [y'|] eqn:E2; [|discriminate].
      inversion Ea; inversion Ey; subst. constructor. eapply IH; eauto.
    + exfalso. unfold contained in C. simpl in C. destruct (Pos.ldiff q r); simpl in C; discriminate.
    + exfalso. unfold contained in C. simpl in C. discriminate.
    + change (N.pos q~0) with (N.double (N.pos q)) in *. change (N.pos r~1) with (N.succ_double (N.pos r)) in *.
      rewrite contained_double_succ in C. rewrite from_mask_double in Ea. rewrite from_mask_succ_double in Ey.
      destruct (subseq_from_mask (N.pos r) ps) as [y'|] eqn:E2; [|discriminate].
      inversion Ey; subst. apply sub_skip. eapply IH; eauto.
    + change (N.pos q~0) with (N.double (N.pos q)) in *. change (N.pos r~0) with (N.double (N.pos r)) in *.
      rewrite contained_double_double in C. rewrite from_mask_double in Ea, Ey. eapply IH; eauto.
    + exfalso. unfold contained in C. simpl in C. discriminate.
    + simpl in Ea. inversion Ea; subst.
      change (N.pos r~1) with (N.succ_double (N.pos r)) in *. rewrite from_mask_succ_double in Ey.
      destruct (subseq_from_mask (N.pos r) ps) as [y'|] eqn:E2; [|discriminate].
      inversion Ey; subst. constructor. constructor.
    + exfalso. unfold contained in C. simpl in C. discriminate.
    + simpl in Ea, Ey. inversion Ea; inversion Ey; subst. constructor. constructor.
Qed.

Lemma from_mask_lt (parent : list fam) : forall m, (m < 2 ^ N.of_nat (length parent))%N ->
  exists child, subseq_from_mask m parent = Some child.
Proof.
  induction parent as [|pv ps IH]; intros [|p] H; cbn [length] in H; try (eexists; reflexivity).
  - simpl in H. lia.
  - rewrite Nat2N.inj_succ, N.pow_succ_r' in H.
    destruct p as [q|q|].
    + change (N.pos q~1) with (N.succ_double (N.pos q)). rewrite from_mask_succ_double.
      destruct (IH (N.pos q)) as [l E]; [lia|]. rewrite E. simpl. eauto.
    + change (N.pos q~0) with (N.double (N.pos q)). rewrite from_mask_double. apply IH. lia.
    + simpl. eauto.
Qed.

Lemma in_all_masks n m : In m (all_masks n) <-> (m < 2 ^ N.of_nat n)%N.
Proof.
  unfold all_masks. rewrite in_map_iff. split.
  - intros [i [<- I]]. apply in_seq in I. change 2%N with (N.of_nat 2). rewrite <- Nat2N.inj_pow. lia.
  - intros H. exists (N.to_nat m). split; [apply N2Nat.id|]. apply in_seq. split; [lia|].
    change 2%N with (N.of_nat 2) in H. rewrite <- Nat2N.inj_pow in H. lia.
Qed.

Lemma complete_lt (l : list fam) : (subseq_complete l < 2 ^ N.of_nat (length l))%N.
Proof.
  unfold subseq_complete. rewrite N.ones_equiv. pose proof (N.pow_nonzero 2 (N.of_nat (length l)) ltac:(lia)). lia.
Qed.

Lemma masks_for_lt ord is_root m : In m (masks_for ord is_root) -> (m < 2 ^ N.of_nat (length ord))%N.
Proof.
  unfold masks_for. destruct is_root.
  - intros [<-|[]]. apply complete_lt.
  - apply in_all_masks.
Qed.

Lemma mask_from_subseq_lt (parent : list fam) : forall child,
  (mask_of parent child < 2 ^ N.of_nat (length parent))%N.
Proof.
  unfold mask_of. induction parent as [|pv ps IH]; intros child; cbn [mask_from_subseq length].
  - simpl. lia.
  - rewrite Nat2N.inj_succ, N.pow_succ_r'. destruct child as [|cv cs].
    + pose proof (N.pow_nonzero 2 (N.of_nat (length ps)) ltac:(lia)). lia.
    + destruct (fam_eqb cv pv).
      * specialize (IH cs). rewrite N.succ_double_spec. lia.
      * specialize (IH (cv :: cs)). rewrite N.double_spec. lia.
Qed.

Lemma mask_of_roundtrip ord syn : Sub syn ord -> subseq_from_mask (mask_of ord syn) ord = Some syn.
Proof. apply (mask_roundtrip_1 fam_eqb fam_eqb_spec). Qed.
Lemma mask_of_from_mask ord m y : NoDup ord -> subseq_from_mask m ord = Some y -> mask_of ord y = m.
Proof. intros ND. apply (mask_roundtrip_2 fam_eqb fam_eqb_spec ord ND). Qed.

(** * valid ordered labellings *)
Inductive valid_lab (S : stree) : otree -> ltree -> Prop :=
| vl_leaf sp syn : valid_sp S sp = true -> valid_lab S (OLeaf sp syn) (LLeaf sp syn)
| vl_node a b s y la lb :
    valid_sp S s = true -> event s (lroot la) (lroot lb) <> Inv ->
    Sub (lsyn la) y -> Sub (lsyn lb) y ->
    valid_lab S a la -> valid_lab S b lb -> valid_lab S (ONode a b) (LNode s y la lb).

(* the root holds the root ordering *)
Definition valid_ordered (S : stree) (ord : list fam) (O : otree) (t : ltree) : Prop :=
  valid_lab S O t /\ lsyn t = ord.

(* the species mapping is the one the variant allows: any (extended) or the LCA mapping (base) *)
Definition mapping_ok (extended : bool) (O : otree) (t : ltree) : Prop :=
  extended = true \/ forget t = lca_rec O.

Lemma lroot_forget t : root (forget t) = lroot t.
Proof. destruct t; reflexivity. Qed.

Lemma valid_lab_rec S O t : valid_lab S O t -> valid_rec S O (forget t).
Proof.
  induction 1; cbn [forget]; constructor; auto. now rewrite !lroot_forget.
Qed.

(** * decoding *)
Section Decode.
  Variables (S : stree) (c : costs) (rp : ret) (extended : bool) (ord : list fam).
  Hypothesis Hh : nn (c_hgt c).
  Notation tbl := (spfs_table S c rp extended ord).

  (* what a tag of a cell tells, whatever the costs *)
  Lemma node_tag_sound a b is_root k kl kr : leaves_ord S ord (ONode a b) ->
    In (kl, kr) (tags (sread (tbl is_root (ONode a b)) k)) ->
    In k (ckeys S extended ord is_root (ONode a b)) /\
    In (kl, kr) (tags (scell S c rp (tbl false a) (tbl false b) (fst k) (snd k))) /\
    In kl (skeys (tbl false a)) /\ In kr (skeys (tbl false b)) /\
    mask_ok (snd kl) (snd k) = true /\ mask_ok (snd kr) (snd k) = true /\
    event (fst k) (fst kl) (fst kr) <> Inv.
  Proof.
    intros [La Lb] H. rewrite spfs_table_node in H.
    pose proof (stable_nn S c rp extended ord Hh a false) as NA.
    pose proof (stable_nn S c rp extended ord Hh b false) as NB.
    pose proof (stable_keys_ok S c rp extended ord Hh a false La) as KA.
    pose proof (stable_keys_ok S c rp extended ord Hh b false Lb) as KB.
    apply sread_node_tags in H as [Ik Ht]; auto.
    destruct (scell_tag_sound S c rp _ _ (fst k) (snd k) Hh (fun k => NA k La) (fun k => NB k Lb) kl kr Ht) as [_ Sp].
    destruct (cand_spec_fam S c _ _ (fst k) (snd k) Hh KA KB kl kr _ Sp) as [Il [Ir [Ml [Mr [v [Iv _]]]]]].
    repeat (split; [assumption|]). eapply ofams_applicable; eauto.
  Qed.

  (** every decoded item is a labelled tree (no IndexError), valid, rooted where asked, with
      the synteny of the requested mask, and on the allowed species mapping *)
  Theorem sdecode_valid o : leaves_ord S ord o -> forall is_root k x,
    In x (sdecode ord (tbl is_root o) k) ->
    exists t, x = Some t /\ valid_lab S o t /\ lroot t = fst k /\
              subseq_from_mask (snd k) ord = Some (lsyn t) /\ mapping_ok extended o t /\
              In k (ckeys S extended ord is_root o).
  Proof.
    induction o as [sp syn|a IHa b IHb]; intros L is_root k x H.
    - cbn [spfs_table sdecode sread] in H. destruct L as [V [N Sb]].
      destruct (sassign_eqb_spec k (sp, mask_of ord syn)) as [->|NE]; [|destruct H].
      cbn [snd fst val ext_is_inf] in H. destruct H as [<-|[]].
      rewrite (mask_of_roundtrip ord syn Sb). cbn [option_map].
      exists (LLeaf sp syn). repeat split; auto.
      + now constructor.
      + cbn [snd lsyn]. now apply mask_of_roundtrip.
      + unfold mapping_ok. right. reflexivity.
      + now left.
    - pose proof L as [La Lb]. pose proof H as H0. rewrite spfs_table_node in H. cbn [sdecode] in H.
      rewrite <- spfs_table_node in H.
      apply in_flat_map in H as [[kl kr] [Ht H]]. apply in_flat_map in H as [oa [Ha H]].
      apply in_map_iff in H as [ob [<- Hb]]. cbn [fst snd] in *.
      destruct (node_tag_sound a b is_root k kl kr L Ht) as [Ik [_ [Il [Ir [Ml [Mr Ev]]]]]].
      destruct (IHa La false kl oa Ha) as [ta [-> [Va [Ra [Sa [Ma _]]]]]].
      destruct (IHb Lb false kr ob Hb) as [tb [-> [Vb [Rb [Sb [Mb _]]]]]].
      assert (exists y, subseq_from_mask (snd k) ord = Some y) as [y Ey].
      { apply from_mask_lt. destruct k as [s m]. cbn [ckeys] in Ik. apply in_prod_iff in Ik as [_ Im].
        eapply masks_for_lt; eauto. }
      rewrite Ey. exists (LNode (fst k) y ta tb). repeat split; auto.
      + unfold mask_ok in Ml, Mr. apply andb_true_iff in Ml as [_ Cl]. apply andb_true_iff in Mr as [_ Cr].
        constructor; auto.
        * exact (ckeys_valid S extended ord is_root (ONode a b) k L Ik).
        * now rewrite Ra, Rb.
        * exact (from_mask_contained ord _ _ _ _ Cl Sa Ey).
        * exact (from_mask_contained ord _ _ _ _ Cr Sb Ey).
      + unfold mapping_ok in *. destruct extended; [now left|right].
        destruct Ma as [Ma|Ma]; [discriminate|]. destruct Mb as [Mb|Mb]; [discriminate|].
        cbn [forget lca_rec]. rewrite Ma, Mb. f_equal.
        destruct k as [s m]. cbn [ckeys allowed_species] in Ik. apply in_prod_iff in Ik as [[<-|[]] _].
        reflexivity.
  Qed.
End Decode.

(** * the evaluator is defined on valid labellings *)
Lemma olab_rec_some rs : forall t mask, events_valid t -> exists K, olab_rec rs mask t = Some K.
Proof.
  induction t as [s y|s y a IHa b IHb]; intros mask V; cbn [olab_rec]; [eauto|].
  destruct V as [E [Va Vb]].
  destruct (IHa (mask_of rs (lsyn a)) Va) as [Ka ->]. destruct (IHb (mask_of rs (lsyn b)) Vb) as [Kb ->].
  destruct (event s (lroot a) (lroot b)); try congruence; cbn [olab_node]; eauto.
Qed.
Lemma valid_lab_events S O t : valid_lab S O t -> events_valid t.
Proof. induction 1; cbn [events_valid]; auto. Qed.
Lemma total_cost_some c S O t : valid_lab S O t -> exists v, total_cost c O true t = Some v.
Proof.
  intros V. unfold total_cost, labeling_cost, ordered_labeling_cost.
  destruct (olab_rec_some (lsyn t) t (subseq_complete (lsyn t)) (valid_lab_events _ _ _ V)) as [K ->].
  cbn [option_map]. eauto.
Qed.

(** * the candidates of the final entry *)
Lemma all_some_spec {X} (l : list (option X)) :
  (forall x, In x l -> exists y, x = Some y) ->
  exists l', all_some l = Some l' /\ forall y, In y l' <-> In (Some y) l.
Proof.
  induction l as [|x l IH]; intros H.
  - exists []. split; [reflexivity|]. intros y. simpl. tauto.
  - destruct (H x (or_introl eq_refl)) as [y ->].
    destruct IH as [l' [E I]]; [intros z Hz; apply H; now right|].
    exists (y :: l'). split; [cbn [all_some]; now rewrite E|].
    intros z. cbn [In]. rewrite I. split; intros [Q|Q]; auto; [left; congruence|left; now inversion Q].
Qed.
Lemma all_some_none {X} (l : list (option X)) : In None l -> all_some l = None.
Proof.
  induction l as [|x l IH]; [intros []|]. intros [->|H]; [reflexivity|].
  cbn [all_some]. destruct x; [|reflexivity]. now rewrite IH.
Qed.

Lemma in_spfs_candidates S c rp extended orders O x :
  In x (spfs_candidates S c rp extended orders O) <->
  exists ord s ot, In ord orders /\ In s (snodes S) /\
    In ot (sdecode ord (spfs_table S c rp extended ord true O) (s, subseq_complete ord)) /\
    x = match ot with
        | Some lt => option_map (fun v => (v, Some lt)) (total_cost c O true lt)
        | None => None
        end.
Proof.
  unfold spfs_candidates. rewrite in_flat_map. split.
  - intros [ord [Io H]]. apply in_flat_map in H as [s [Is H]]. apply in_map_iff in H as [ot [E Id]].
    exists ord, s, ot. auto.
  - intros [ord [s [ot [Io [Is [Id ->]]]]]]. exists ord. split; auto. apply in_flat_map. exists s. split; auto.
    apply in_map_iff. exists ot. auto.
Qed.

Definition orders_ok (S : stree) (O : otree) (orders : list (list fam)) : Prop :=
  forall ord, In ord orders -> NoDup ord /\ leaves_ord S ord O.

Section Candidates.
  Variables (S : stree) (c : costs) (rp : ret) (extended : bool) (orders : list (list fam)) (O : otree).
  Hypothesis Hh : nn (c_hgt c).
  Hypothesis HO : orders_ok S O orders.

  Lemma candidate_sound x : In x (spfs_candidates S c rp extended orders O) ->
    exists ord s lt v, x = Some (v, Some lt) /\ In ord orders /\ In s (snodes S) /\
      In (Some lt) (sdecode ord (spfs_table S c rp extended ord true O) (s, subseq_complete ord)) /\
      total_cost c O true lt = Some v /\ valid_ordered S ord O lt /\ mapping_ok extended O lt /\ lroot lt = s.
  Proof.
    intros H. apply in_spfs_candidates in H as [ord [s [ot [Io [Is [Id ->]]]]]].
    destruct (HO ord Io) as [ND L].
    destruct (sdecode_valid S c rp extended ord Hh O L true _ _ Id) as [t [-> [V [R [Sy [M _]]]]]].
    cbn [fst snd] in *. destruct (total_cost_some c S O t V) as [v E]. rewrite E. cbn [option_map].
    exists ord, s, t, v. repeat split; auto.
    rewrite (complete_mask ord) in Sy. now inversion Sy.
  Qed.

  Lemma spfs_some : exists l, all_some (spfs_candidates S c rp extended orders O) = Some l /\
    forall y, In y l <-> In (Some y) (spfs_candidates S c rp extended orders O).
  Proof.
    apply all_some_spec. intros x H. destruct (candidate_sound x H) as [ord [s [lt [v [-> _]]]]]. eauto.
  Qed.
End Candidates.

(** C04 for the ordered solvers: whatever the policy and the unit costs, the solver does not
    raise and every returned labelled tree is a valid ordered solution for one of the root orders *)
Theorem spfs_returns S c rp extended orders O : nn (c_hgt c) -> orders_ok S O orders ->
  exists e, spfs S c rp extended orders O = Some e.
Proof.
  intros Hh HO. destruct (spfs_some S c rp extended orders O Hh HO) as [l [E _]].
  unfold spfs. rewrite E. cbn [option_map]. eauto.
Qed.

Theorem spfs_valid S c rp extended orders O e lt : nn (c_hgt c) -> orders_ok S O orders ->
  spfs S c rp extended orders O = Some e -> In lt (tags e) ->
  exists ord, In ord orders /\ valid_ordered S ord O lt /\ mapping_ok extended O lt /\
              total_cost c O true lt = Some (val e).
Proof.
  intros Hh HO E H. destruct (spfs_some S c rp extended orders O Hh HO) as [l [El Il]].
  unfold spfs in E. rewrite El in E. cbn [option_map] in E. inversion E; subst e. clear E.
  apply (upd_tags_sound ltree_eqb ltree_eqb_spec) in H. apply Il in H.
  destruct (candidate_sound S c rp extended orders O Hh HO _ H) as [ord [s [t [v [E [Io [_ [_ [Tc [V [M _]]]]]]]]]]].
  inversion E; subst. exists ord. repeat split; try apply V; auto.
Qed.

(* decoding never reaches the IndexError branch *)
Theorem sdecode_no_error S c rp extended ord O is_root k : nn (c_hgt c) -> leaves_ord S ord O ->
  ~ In None (sdecode ord (spfs_table S c rp extended ord is_root O) k).
Proof.
  intros Hh L H. destruct (sdecode_valid S c rp extended ord Hh O L is_root k None H) as [t [E _]]. discriminate.
Qed.
