(** Proofs about [Model/Toposort.v] (property C19). *)
From Coq Require Import List Bool Arith ZArith Lia Permutation FinFun.
From SR Require Import Model.Toposort.
Import ListNotations.
Local Open Scope Z_scope.

(* ------------------------------------------------------------------ *)
(** * Specification *)

(* [v] is in the successor set of [u] *)
Definition edge (g : graph) (u v : node) : Prop := exists ss, In (u, ss) g /\ In v ss.

(* [u] occurs somewhere before an occurrence of [v] *)
Definition before (l : list node) (u v : node) : Prop :=
  exists l1 l2 l3, l = l1 ++ u :: l2 ++ v :: l3.

(* topological ordering: an arrangement of the vertices in which every edge
   goes forward (a self-loop would need its vertex twice: unsatisfiable) *)
Definition topo (g : graph) (l : list node) : Prop :=
  Permutation l (keys g) /\ forall u v, edge g u v -> before l u v.

(* what a Python dict of sets gives, when no [KeyError] is raised *)
Definition wf (g : graph) : Prop :=
  NoDup (keys g) /\ forall u v, edge g u v -> In v (keys g).

(* an iteration order for sets *)
Definition set_order (ord : list node -> list node) : Prop :=
  forall s, Permutation (ord s) s.

(* ------------------------------------------------------------------ *)
(** * Small list facts *)

Lemma memb_In x l : memb x l = true <-> In x l.
Proof.
  unfold memb. rewrite existsb_exists. split.
  - intros [y [Hy E]]. apply Nat.eqb_eq in E. now subst.
  - intros H. exists x. split; auto. apply Nat.eqb_refl.
Qed.

Lemma memb_false x l : memb x l = false <-> ~ In x l.
Proof.
  rewrite <- memb_In. destruct (memb x l); split; intros; congruence.
Qed.

Lemma NoDup_app_intro {A} (a b : list A) :
  NoDup a -> NoDup b -> (forall x, In x a -> ~ In x b) -> NoDup (a ++ b).
Proof.
  induction a as [|x a IH]; simpl; intros Ha Hb Hd; auto.
  inversion Ha as [|? ? Hx Ha']; subst. constructor.
  - rewrite in_app_iff. intros [H | H]; [contradiction|]. apply (Hd x); auto.
  - apply IH; auto.
Qed.

Lemma split_unique (v : node) : forall l1 l2 m1 m2,
  NoDup (l1 ++ v :: l2) -> l1 ++ v :: l2 = m1 ++ v :: m2 -> l1 = m1 /\ l2 = m2.
Proof.
  induction l1 as [|a l1 IH]; intros l2 m1 m2 Hnd E.
  - destruct m1 as [|b m1]; simpl in *.
    + inversion E; auto.
    + inversion E; subst. inversion Hnd as [|? ? Hx _]; subst.
      exfalso. apply Hx. rewrite in_app_iff. right. left. reflexivity.
  - destruct m1 as [|b m1]; simpl in *.
    + inversion E; subst. inversion Hnd as [|? ? Hx _]; subst.
      exfalso. apply Hx. rewrite in_app_iff. right. left. reflexivity.
    + inversion E; subst. inversion Hnd as [|? ? _ Hnd']; subst.
      destruct (IH l2 m1 m2 Hnd' H1) as [-> ->]. auto.
Qed.

Lemma remove_first_spec x : forall l, NoDup l -> In x l ->
  exists l', remove_first x l = Some l' /\ NoDup l' /\ forall y, In y l' <-> In y l /\ y <> x.
Proof.
  induction l as [|a l IH]; intros Hnd Hin; [destruct Hin|].
  inversion Hnd as [|? ? Ha Hnd']; subst. simpl.
  destruct (Nat.eqb x a) eqn:E.
  - apply Nat.eqb_eq in E. subst a. exists l. split; [reflexivity|]. split; [exact Hnd'|].
    intros y. split.
    + intros Hy. split; [right; exact Hy|]. intros ->. contradiction.
    + intros [[-> | Hy] Hne]; [congruence | exact Hy].
  - apply Nat.eqb_neq in E. destruct Hin as [-> | Hin]; [congruence|].
    destruct (IH Hnd' Hin) as [l' [-> [Hnd'' Hl']]]. simpl.
    exists (a :: l'). split; [reflexivity|]. split.
    + constructor; auto. rewrite Hl'. intros [Hy _]. contradiction.
    + intros y. split.
      * intros [<- | H]; [split; [left; reflexivity | congruence]|].
        apply Hl' in H as [H1 H2]. split; [right; exact H1 | exact H2].
      * intros [[<- | Hy] Hne]; [left; reflexivity | right; apply Hl'; auto].
Qed.

(* ------------------------------------------------------------------ *)
(** * Association lists *)

Lemma lookup_In {A} (m : list (node * A)) k a : lookup m k = Some a -> In (k, a) m.
Proof.
  induction m as [|[k' a'] m IH]; simpl; [discriminate|].
  destruct (Nat.eqb k k') eqn:E.
  - apply Nat.eqb_eq in E. intros [= ->]. subst. left; reflexivity.
  - intros H. right. auto.
Qed.

Lemma In_lookup {A} (m : list (node * A)) k a :
  NoDup (map fst m) -> In (k, a) m -> lookup m k = Some a.
Proof.
  induction m as [|[k' a'] m IH]; simpl; intros Hnd Hin; [destruct Hin|].
  inversion Hnd as [|? ? Hk Hnd']; subst.
  destruct Hin as [[= -> ->] | Hin].
  - rewrite Nat.eqb_refl. reflexivity.
  - destruct (Nat.eqb k k') eqn:E.
    + apply Nat.eqb_eq in E. subst k'. exfalso. apply Hk.
      change k with (fst (k, a)). apply in_map. exact Hin.
    + auto.
Qed.

Lemma lookup_key {A} (m : list (node * A)) k :
  In k (map fst m) -> exists a, lookup m k = Some a.
Proof.
  induction m as [|[k' a'] m IH]; simpl; intros Hin; [destruct Hin|].
  destruct (Nat.eqb k k') eqn:E; [eauto|].
  apply Nat.eqb_neq in E. destruct Hin as [-> | Hin]; [congruence | auto].
Qed.

Lemma lookup_update_same (m : imap) k d a : lookup m k = Some a -> lookup (update m k d) k = Some d.
Proof.
  induction m as [|[k' a'] m IH]; simpl; [discriminate|].
  destruct (Nat.eqb k k') eqn:E; simpl; rewrite E; auto.
Qed.

Lemma lookup_update_other (m : imap) k d k' : k' <> k -> lookup (update m k d) k' = lookup m k'.
Proof.
  intros Hne. induction m as [|[k'' a''] m IH]; simpl; auto.
  destruct (Nat.eqb k k'') eqn:E; simpl.
  - apply Nat.eqb_eq in E. subst k''.
    destruct (Nat.eqb k' k) eqn:E'; auto. apply Nat.eqb_eq in E'. congruence.
  - rewrite IH. reflexivity.
Qed.

(* the in-degree dict [m] holds [f v] for every vertex [v] of [K] *)
Definition repr (K : list node) (m : imap) (f : node -> Z) : Prop :=
  forall v, In v K -> lookup m v = Some (f v).

Lemma repr_ext K m f f' : (forall v, In v K -> f v = f' v) -> repr K m f -> repr K m f'.
Proof. intros E H v Hv. rewrite <- E by exact Hv. auto. Qed.

Lemma repr_update K m f s d : repr K m f -> In s K ->
  repr K (update m s d) (fun v => if Nat.eqb v s then d else f v).
Proof.
  intros H Hs v Hv. destruct (Nat.eqb v s) eqn:E.
  - apply Nat.eqb_eq in E. subst v. eapply lookup_update_same. apply H; auto.
  - apply Nat.eqb_neq in E. rewrite lookup_update_other by exact E. auto.
Qed.

Lemma repr_zero K : repr K (map (fun k => (k, 0)) K) (fun _ => 0).
Proof.
  intros v Hv. induction K as [|k K IH]; [destruct Hv|]. simpl.
  destruct (Nat.eqb v k) eqn:E; auto.
  apply Nat.eqb_neq in E. destruct Hv as [-> | Hv]; [congruence | auto].
Qed.

(* ------------------------------------------------------------------ *)
(** * Counting *)

(* number of occurrences of [v] in [l] *)
Fixpoint cnt (v : node) (l : list node) : Z :=
  match l with
  | [] => 0
  | x :: l' => (if Nat.eqb v x then 1 else 0) + cnt v l'
  end.

Lemma cnt_nonneg v l : 0 <= cnt v l.
Proof. induction l as [|x l IH]; simpl; [lia|]. destruct (Nat.eqb v x); lia. Qed.

Lemma cnt_zero v l : cnt v l = 0 <-> ~ In v l.
Proof.
  induction l as [|x l IH]; simpl; [tauto|].
  pose proof (cnt_nonneg v l). destruct (Nat.eqb v x) eqn:E.
  - apply Nat.eqb_eq in E. subst. split; [lia | intros F; exfalso; apply F; auto].
  - apply Nat.eqb_neq in E. rewrite Z.add_0_l, IH. split.
    + intros F [-> | I]; [congruence | auto].
    + intros F I. apply F. auto.
Qed.

Lemma cnt_pos v l : 0 < cnt v l -> In v l.
Proof.
  intros H. destruct (in_dec Nat.eq_dec v l) as [I | N]; auto.
  apply cnt_zero in N. lia.
Qed.

Lemma cnt_app v a b : cnt v (a ++ b) = cnt v a + cnt v b.
Proof. induction a as [|x a IH]; simpl; [lia|]. rewrite IH. lia. Qed.

(* number of edge entries [(u, v)] with [u] outside [P] *)
Fixpoint npred (g : graph) (P : list node) (v : node) : Z :=
  match g with
  | [] => 0
  | (u, ss) :: g' => (if memb u P then 0 else cnt v ss) + npred g' P v
  end.

Lemma npred_nonneg g P v : 0 <= npred g P v.
Proof.
  induction g as [|[u ss] g IH]; simpl; [lia|].
  pose proof (cnt_nonneg v ss). destruct (memb u P); lia.
Qed.

Lemma edge_cons u ss g u' v :
  edge ((u, ss) :: g) u' v <-> (u' = u /\ In v ss) \/ edge g u' v.
Proof.
  unfold edge. split.
  - intros [ss' [[E | I] Hv]].
    + inversion E; subst. left; auto.
    + right. eauto.
  - intros [[-> Hv] | [ss' [I Hv]]].
    + exists ss. split; [left; reflexivity | exact Hv].
    + exists ss'. split; [right; exact I | exact Hv].
Qed.

Lemma npred_zero g P v : npred g P v = 0 <-> forall u, edge g u v -> In u P.
Proof.
  induction g as [|[u ss] g IH]; simpl.
  - split; auto. intros _ u [ss [[] _]].
  - pose proof (npred_nonneg g P v). pose proof (cnt_nonneg v ss).
    split.
    + intros E u' Hu'. apply edge_cons in Hu' as [[-> Hv] | He].
      * destruct (memb u P) eqn:M; [apply memb_In; exact M|].
        assert (cnt v ss = 0) as C by lia. apply cnt_zero in C. contradiction.
      * apply IH; [|exact He]. destruct (memb u P); lia.
    + intros Hall.
      assert (npred g P v = 0) as ->.
      { apply IH. intros u' He. apply Hall. apply edge_cons. right. exact He. }
      destruct (memb u P) eqn:M; [lia|].
      assert (cnt v ss = 0); [|lia]. apply cnt_zero. intros Hv.
      apply memb_false in M. apply M. apply Hall. apply edge_cons. left; auto.
Qed.

Lemma npred_skip g u P v : ~ In u (keys g) -> npred g (u :: P) v = npred g P v.
Proof.
  induction g as [|[u' ss] g IH]; simpl; intros Hu; auto.
  rewrite IH by tauto.
  assert (Nat.eqb u' u = false) as -> by (apply Nat.eqb_neq; intros ->; tauto).
  reflexivity.
Qed.

(* placing [u] removes exactly the entries of its own successor list *)
Lemma npred_place g u ss P v : NoDup (keys g) -> lookup g u = Some ss -> ~ In u P ->
  npred g (u :: P) v = npred g P v - cnt v ss.
Proof.
  induction g as [|[u' ss'] g IH]; simpl; intros Hnd Hl Hu; [discriminate|].
  inversion Hnd as [|? ? Hk Hnd']; subst.
  destruct (Nat.eqb u u') eqn:E.
  - apply Nat.eqb_eq in E. subst u'. inversion Hl; subst ss'.
    rewrite Nat.eqb_refl. simpl.
    apply memb_false in Hu. rewrite Hu. rewrite npred_skip by exact Hk. lia.
  - assert (Nat.eqb u' u = false) as -> by (rewrite Nat.eqb_sym; exact E).
    simpl. rewrite IH by auto. destruct (memb u' P); lia.
Qed.

Lemma npred_ge g u ss P v : lookup g u = Some ss -> ~ In u P -> cnt v ss <= npred g P v.
Proof.
  induction g as [|[u' ss'] g IH]; simpl; intros Hl Hu; [discriminate|].
  pose proof (npred_nonneg g P v). pose proof (cnt_nonneg v ss').
  destruct (Nat.eqb u u') eqn:E.
  - apply Nat.eqb_eq in E. subst u'. inversion Hl; subst ss'.
    apply memb_false in Hu. rewrite Hu. lia.
  - specialize (IH Hl Hu). destruct (memb u' P); lia.
Qed.

Lemma npred_nil g v : npred g [] v = cnt v (all_succs g).
Proof.
  unfold all_succs. induction g as [|[u ss] g IH]; simpl; auto.
  rewrite cnt_app, IH. reflexivity.
Qed.

Lemma all_succs_edge g v : In v (all_succs g) -> exists u, edge g u v.
Proof.
  unfold all_succs. rewrite in_concat. intros [ss [Hss Hv]].
  apply in_map_iff in Hss as [[u ss'] [E I]]. simpl in E. subst ss'.
  exists u, ss. auto.
Qed.

(* ------------------------------------------------------------------ *)
(** * Abstract level: sequences of successively available vertices *)

Section Abstract.
  Variable g : graph.
  Hypothesis Hnd : NoDup (keys g).
  Hypothesis Hcl : forall u v, edge g u v -> In v (keys g).

  (* [v] can be placed after [P]: an unplaced vertex whose predecessors are all placed *)
  Definition avail (P : list node) (v : node) : Prop :=
    In v (keys g) /\ ~ In v P /\ forall u, edge g u v -> In u P.

  Inductive greedy : list node -> list node -> Prop :=
  | g_nil P : greedy P []
  | g_cons P v w : avail P v -> greedy (v :: P) w -> greedy P (v :: w).

  (* nothing is available once [w] has been placed after [P] *)
  Definition maximal (P w : list node) : Prop :=
    greedy P w /\ forall v, ~ avail (rev w ++ P) v.

  Lemma rev_cons_app (v : node) w P : rev (v :: w) ++ P = rev w ++ v :: P.
  Proof. simpl. rewrite <- app_assoc. reflexivity. Qed.

  Lemma maximal_cons P v w : maximal P (v :: w) <-> avail P v /\ maximal (v :: P) w.
  Proof.
    unfold maximal. rewrite rev_cons_app. split.
    - intros [G M]. inversion G as [|? ? ? Ha G']; subst. auto.
    - intros [Ha [G M]]. split; [constructor; auto | exact M].
  Qed.

  Lemma greedy_nodup : forall P w, greedy P w -> NoDup P -> NoDup (rev w ++ P).
  Proof.
    intros P w G. induction G as [P | P v w Ha G IH]; intros HP; [exact HP|].
    rewrite rev_cons_app. apply IH. constructor; [apply Ha | exact HP].
  Qed.

  Lemma greedy_incl : forall P w, greedy P w -> forall x, In x w -> In x (keys g).
  Proof.
    intros P w G. induction G as [P | P v w Ha G IH]; intros x Hx; [destruct Hx|].
    destruct Hx as [<- | Hx]; [apply Ha | auto].
  Qed.

  (* when a vertex is placed, its predecessors have been placed *)
  Lemma greedy_edge : forall P w, greedy P w ->
    forall w1 v w2 u, w = w1 ++ v :: w2 -> edge g u v -> In u (rev w1 ++ P).
  Proof.
    intros P w G. induction G as [P | P v0 w Ha G IH]; intros w1 v w2 u E He.
    - destruct w1; discriminate.
    - destruct w1 as [|a w1]; simpl in E; inversion E; subst.
      + simpl. apply Ha. exact He.
      + rewrite rev_cons_app. eapply IH; eauto.
  Qed.

  Lemma greedy_topo l : greedy [] l -> length l = length (keys g) -> topo g l.
  Proof.
    intros G Hlen.
    assert (NoDup l) as Hl.
    { apply greedy_nodup in G; [|constructor]. rewrite app_nil_r in G.
      rewrite <- (rev_involutive l). apply NoDup_rev. exact G. }
    assert (Permutation l (keys g)) as Hp.
    { apply NoDup_Permutation_bis; auto; [lia|]. intros x. apply (greedy_incl _ _ G). }
    split; [exact Hp|]. intros u v He.
    assert (In v l) as Hv by (apply (Permutation_in _ (Permutation_sym Hp)); eapply Hcl; eauto).
    apply in_split in Hv as [w1 [w2 ->]].
    pose proof (greedy_edge _ _ G w1 v w2 u eq_refl He) as Hu.
    rewrite app_nil_r, <- in_rev in Hu. apply in_split in Hu as [a [b ->]].
    exists a, b, w2. rewrite <- app_assoc. reflexivity.
  Qed.

  Lemma topo_nodup l : topo g l -> NoDup l.
  Proof. intros [Hp _]. apply (Permutation_NoDup (Permutation_sym Hp)). exact Hnd. Qed.

  Lemma topo_greedy_from l : topo g l -> forall l2 l1, l = l1 ++ l2 -> greedy (rev l1) l2.
  Proof.
    intros Ht. pose proof (topo_nodup l Ht) as Hl. destruct Ht as [Hp He].
    induction l2 as [|v l2 IH]; intros l1 E; [constructor|].
    constructor.
    - split; [|split].
      + apply (Permutation_in _ Hp). subst l. rewrite in_app_iff. right; left; reflexivity.
      + rewrite <- in_rev. subst l. apply NoDup_remove_2 in Hl. rewrite in_app_iff in Hl. tauto.
      + intros u Hu. destruct (He u v Hu) as [a [b [c Eb]]].
        rewrite <- in_rev. subst l.
        replace (a ++ u :: b ++ v :: c) with ((a ++ u :: b) ++ v :: c) in Eb
          by (rewrite <- app_assoc; reflexivity).
        destruct (split_unique v _ _ _ _ Hl Eb) as [-> _].
        rewrite in_app_iff. right; left; reflexivity.
    - replace (v :: rev l1) with (rev (l1 ++ [v])) by (rewrite rev_unit; reflexivity).
      apply IH. rewrite <- app_assoc. exact E.
  Qed.

  Lemma topo_greedy l : topo g l -> greedy [] l.
  Proof. intros Ht. apply (topo_greedy_from l Ht l []). reflexivity. Qed.

  Lemma topo_maximal l : topo g l -> maximal [] l.
  Proof.
    intros Ht. split; [apply topo_greedy; exact Ht|].
    intros v [Hk [Hn _]]. apply Hn. rewrite app_nil_r, <- in_rev.
    destruct Ht as [Hp _]. apply (Permutation_in _ (Permutation_sym Hp)). exact Hk.
  Qed.

  (* if a sequence of available vertices from [P] reaches a vertex outside [W] ⊇ [P],
     some vertex outside [W] has all its predecessors in [W] *)
  Lemma first_missing : forall P l W, greedy P l ->
    (forall y, In y P -> In y W) ->
    (exists x, In x l /\ ~ In x W) ->
    exists x, In x (keys g) /\ ~ In x W /\ forall u, edge g u x -> In u W.
  Proof.
    intros P l W G. induction G as [P | P v w Ha G IH]; intros HP [x [Hx Nx]]; [destruct Hx|].
    destruct (in_dec Nat.eq_dec v W) as [Iv | Nv].
    - apply IH.
      + intros y [<- | Hy]; auto.
      + destruct Hx as [<- | Hx]; [contradiction|]. eauto.
    - exists v. split; [apply Ha|]. split; [exact Nv|].
      intros u Hu. apply HP. apply Ha. exact Hu.
  Qed.

  (* if a topological ordering exists, every maximal sequence visits all vertices:
     this is why the length test of [toposort_all] fires exactly on cyclic graphs *)
  Lemma maximal_full l w : topo g l -> maximal [] w -> forall k, In k (keys g) -> In k w.
  Proof.
    intros Ht [Gw M] k Hk.
    destruct (in_dec Nat.eq_dec k w) as [I | N]; auto. exfalso.
    destruct (first_missing [] l w (topo_greedy l Ht)) as [x [Kx [Nx Px]]].
    - intros y [].
    - exists k. split; auto. destruct Ht as [Hp _].
      apply (Permutation_in _ (Permutation_sym Hp)). exact Hk.
    - apply (M x). rewrite app_nil_r. split; [exact Kx|]. split.
      + rewrite <- in_rev. exact Nx.
      + intros u Hu. rewrite <- in_rev. auto.
  Qed.

  Lemma maximal_length l w : topo g l -> maximal [] w -> length w = length (keys g).
  Proof.
    intros Ht Hm. pose proof (maximal_full l w Ht Hm) as Hfull. destruct Hm as [G _].
    assert (NoDup w) as Hw.
    { pose proof (greedy_nodup _ _ G (NoDup_nil _)) as H. rewrite app_nil_r in H.
      rewrite <- (rev_involutive w). apply NoDup_rev. exact H. }
    apply Permutation_length. apply NoDup_Permutation; auto.
    intros x. split; [apply (greedy_incl _ _ G) | apply Hfull].
  Qed.
End Abstract.

(* ------------------------------------------------------------------ *)
(** * The loops over a successor list *)

Section Relax.
  Variable add : node -> list node -> list node.
  Hypothesis add_In : forall x s l, In x (add s l) <-> x = s \/ In x l.
  Hypothesis add_NoDup : forall s l, NoDup l -> ~ In s l -> NoDup (add s l).
  Variable K : list node.

  (* decrement loop: the dict ends with [f - multiplicity], and a vertex joins
     [starts] exactly when its final count is zero *)
  Lemma relax_spec : forall succs m f starts,
    repr K m f -> incl succs K ->
    (forall v, cnt v succs <= f v) ->
    (forall v, In v starts -> f v = 0) ->
    NoDup starts ->
    exists m' starts', relax add succs m starts = TOk (m', starts') /\
      repr K m' (fun v => f v - cnt v succs) /\
      (forall v, In v starts' <-> In v starts \/ (In v succs /\ f v - cnt v succs = 0)) /\
      NoDup starts'.
  Proof.
    induction succs as [|s rest IH]; intros m f starts Hr Hincl Hge Hst Hnd.
    - exists m, starts. split; [reflexivity|]. split; [|split].
      + eapply repr_ext; [|exact Hr]. intros v _. simpl. lia.
      + intros v. split; [auto | intros [H | [[] _]]; exact H].
      + exact Hnd.
    - assert (In s K) as HsK by (apply Hincl; left; reflexivity).
      pose proof (Hge s) as Hges. simpl in Hges. rewrite Nat.eqb_refl in Hges.
      pose proof (cnt_nonneg s rest) as Hcs.
      unfold relax. simpl. rewrite (Hr s HsK). simpl.
      set (f1 := fun v => if Nat.eqb v s then f s - 1 else f v).
      assert (forall v, f1 v - cnt v rest = f v - cnt v (s :: rest)) as Ef.
      { intros v. unfold f1. simpl. destruct (Nat.eqb v s) eqn:E; [|lia].
        apply Nat.eqb_eq in E. subst v. lia. }
      assert (~ In s starts) as Hns by (intros I; apply Hst in I; lia).
      destruct (IH (update m s (f s - 1)) f1
                   (if f s - 1 =? 0 then add s starts else starts))
        as [m' [starts' [Erun [Hr' [Hin' Hnd']]]]].
      + apply repr_update; auto.
      + intros x Hx. apply Hincl. right; exact Hx.
      + intros v. unfold f1. specialize (Hge v). simpl in Hge.
        destruct (Nat.eqb v s) eqn:E.
        * apply Nat.eqb_eq in E. subst v. lia.
        * lia.
      + intros v Hv. unfold f1. destruct (Nat.eqb v s) eqn:E.
        * apply Nat.eqb_eq in E. subst v.
          destruct (f s - 1 =? 0) eqn:Z0; [apply Z.eqb_eq in Z0; exact Z0 | contradiction].
        * apply Hst. destruct (f s - 1 =? 0); [|exact Hv].
          apply add_In in Hv as [-> | Hv]; [rewrite Nat.eqb_refl in E; discriminate | exact Hv].
      + destruct (f s - 1 =? 0); [apply add_NoDup; auto | exact Hnd].
      + exists m', starts'. split; [exact Erun|]. split; [|split; [|exact Hnd']].
        * eapply repr_ext; [|exact Hr']. intros v _. apply Ef.
        * intros v. rewrite Hin'. rewrite (Ef v).
          specialize (Hge v).
          destruct (f s - 1 =? 0) eqn:Z0.
          -- apply Z.eqb_eq in Z0. rewrite add_In. split.
             ++ intros [[-> | H] | [H1 H2]].
                ** right. split; [left; reflexivity|]. simpl. rewrite Nat.eqb_refl. lia.
                ** left; exact H.
                ** right. split; [right; exact H1 | exact H2].
             ++ intros [H | [[<- | H1] H2]].
                ** left; right; exact H.
                ** left; left; reflexivity.
                ** right; split; assumption.
          -- apply Z.eqb_neq in Z0. split.
             ++ intros [H | [H1 H2]]; [left; exact H|].
                right. split; [right; exact H1 | exact H2].
             ++ intros [H | [[<- | H1] H2]].
                ** left; exact H.
                ** right. split; [|exact H2]. apply cnt_pos.
                   simpl in H2. rewrite Nat.eqb_refl in H2. lia.
                ** right; split; assumption.
  Qed.
End Relax.

(* re-increment loop *)
Lemma restore_spec K : forall succs m f, repr K m f -> incl succs K ->
  exists m', restore succs m = TOk m' /\ repr K m' (fun v => f v + cnt v succs).
Proof.
  induction succs as [|s rest IH]; intros m f Hr Hincl.
  - exists m. split; [reflexivity|]. eapply repr_ext; [|exact Hr]. intros v _. simpl. lia.
  - assert (In s K) as HsK by (apply Hincl; left; reflexivity).
    unfold restore. simpl. unfold restore_step at 1. rewrite (Hr s HsK). simpl.
    destruct (IH (update m s (f s + 1)) (fun v => if Nat.eqb v s then f s + 1 else f v))
      as [m' [Erun Hr']].
    + apply repr_update; auto.
    + intros x Hx. apply Hincl. right; exact Hx.
    + exists m'. split; [exact Erun|]. eapply repr_ext; [|exact Hr'].
      intros v _. simpl. destruct (Nat.eqb v s) eqn:E; [|lia].
      apply Nat.eqb_eq in E. subst v. lia.
Qed.

Lemma dq_append_In x s l : In x (dq_append s l) <-> x = s \/ In x l.
Proof. unfold dq_append. rewrite in_app_iff. simpl. intuition. Qed.

Lemma dq_append_NoDup s l : NoDup l -> ~ In s l -> NoDup (dq_append s l).
Proof.
  intros Hl Hs. unfold dq_append. apply NoDup_app_intro; auto.
  - constructor; [intros [] | constructor].
  - intros x Hx [<- | []]. contradiction.
Qed.

Lemma set_add_In x s l : In x (set_add s l) <-> x = s \/ In x l.
Proof.
  unfold set_add. destruct (memb s l) eqn:M.
  - apply memb_In in M. split; [auto | intros [-> | H]; auto].
  - apply dq_append_In.
Qed.

Lemma set_add_NoDup s l : NoDup l -> ~ In s l -> NoDup (set_add s l).
Proof.
  intros Hl Hs. unfold set_add. destruct (memb s l); [exact Hl | apply dq_append_NoDup; auto].
Qed.

(* ------------------------------------------------------------------ *)
(** * The initial in-degree count *)

(* one [indeg[succ] += 1] with its update of [starts]: [starts] remains the
   set of vertices whose count is zero *)
Definition init_step_ok (K : list node)
    (step : list node * imap -> node -> tres (list node * imap)) : Prop :=
  forall starts m f s, repr K m f -> In s K -> (forall v, 0 <= f v) ->
    (forall v, In v starts <-> In v K /\ f v = 0) -> NoDup starts ->
    exists starts' m', step (starts, m) s = TOk (starts', m') /\
      repr K m' (fun v => if Nat.eqb v s then f s + 1 else f v) /\
      (forall v, In v starts' <-> In v starts /\ v <> s) /\ NoDup starts'.

Lemma kahn_init_step_ok K : init_step_ok K kahn_init_step.
Proof.
  intros starts m f s Hr Hs Hpos Hst Hnd. unfold kahn_init_step. rewrite (Hr s Hs).
  destruct (f s =? 0) eqn:Z0.
  - apply Z.eqb_eq in Z0.
    destruct (remove_first_spec s starts Hnd) as [l' [-> [Hnd' Hl']]].
    { apply Hst. auto. }
    exists l', (update m s (f s + 1)). split; [reflexivity|]. split; [|split].
    + apply repr_update; auto.
    + exact Hl'.
    + exact Hnd'.
  - apply Z.eqb_neq in Z0.
    exists starts, (update m s (f s + 1)). split; [reflexivity|]. split; [|split].
    + apply repr_update; auto.
    + intros v. split; [|tauto]. intros Hv. split; [exact Hv|].
      intros ->. apply Hst in Hv. tauto.
    + exact Hnd.
Qed.

Lemma all_init_step_ok K : init_step_ok K all_init_step.
Proof.
  intros starts m f s Hr Hs Hpos Hst Hnd. unfold all_init_step. rewrite (Hr s Hs).
  exists (discard s starts), (update m s (f s + 1)). split; [reflexivity|]. split; [|split].
  - apply repr_update; auto.
  - intros v. unfold discard. rewrite filter_In, negb_true_iff, Nat.eqb_neq.
    split; intros [H1 H2]; split; auto.
  - apply NoDup_filter. exact Hnd.
Qed.

Lemma init_spec K step : init_step_ok K step ->
  forall L starts m f, repr K m f -> incl L K -> (forall v, 0 <= f v) ->
    (forall v, In v starts <-> In v K /\ f v = 0) -> NoDup starts ->
    exists starts' m', fold_res step L (starts, m) = TOk (starts', m') /\
      repr K m' (fun v => f v + cnt v L) /\
      (forall v, In v starts' <-> In v K /\ f v + cnt v L = 0) /\ NoDup starts'.
Proof.
  intros Hstep. induction L as [|s rest IH]; intros starts m f Hr Hincl Hpos Hst Hnd.
  - exists starts, m. split; [reflexivity|]. split; [|split].
    + eapply repr_ext; [|exact Hr]. intros v _. simpl. lia.
    + intros v. rewrite Hst. simpl. rewrite Z.add_0_r. tauto.
    + exact Hnd.
  - assert (In s K) as HsK by (apply Hincl; left; reflexivity).
    destruct (Hstep starts m f s Hr HsK Hpos Hst Hnd) as [st1 [m1 [E1 [Hr1 [Hst1 Hnd1]]]]].
    simpl. rewrite E1. simpl.
    set (f1 := fun v => if Nat.eqb v s then f s + 1 else f v) in *.
    assert (forall v, f1 v + cnt v rest = f v + cnt v (s :: rest)) as Ef.
    { intros v. unfold f1. simpl. destruct (Nat.eqb v s) eqn:E; [|lia].
      apply Nat.eqb_eq in E. subst v. lia. }
    destruct (IH st1 m1 f1) as [st' [m' [E' [Hr' [Hst' Hnd']]]]]; auto.
    + intros x Hx. apply Hincl. right; exact Hx.
    + intros v. unfold f1. pose proof (Hpos v). pose proof (Hpos s).
      destruct (Nat.eqb v s); lia.
    + intros v. rewrite Hst1, Hst. unfold f1. pose proof (Hpos s).
      destruct (Nat.eqb v s) eqn:E.
      * apply Nat.eqb_eq in E. subst v. split; [tauto | intros [_ H0]; lia].
      * apply Nat.eqb_neq in E. tauto.
    + exists st', m'. split; [exact E'|]. split; [|split; [|exact Hnd']].
      * eapply repr_ext; [|exact Hr']. intros v _. apply Ef.
      * intros v. rewrite Hst', (Ef v). tauto.
Qed.

(* ------------------------------------------------------------------ *)
(** * The invariant shared by both routines *)

Section Concrete.
  Variable g : graph.
  Hypothesis Hwf : wf g.

  Let Hnd : NoDup (keys g) := proj1 Hwf.
  Let Hcl : forall u v, edge g u v -> In v (keys g) := proj2 Hwf.

  Lemma lookup_edge u ss v : lookup g u = Some ss -> In v ss -> edge g u v.
  Proof. intros Hl Hv. exists ss. split; [apply lookup_In; exact Hl | exact Hv]. Qed.

  Lemma key_lookup u : In u (keys g) -> exists ss, lookup g u = Some ss.
  Proof. apply lookup_key. Qed.

  Lemma succs_incl u ss : lookup g u = Some ss -> incl ss (keys g).
  Proof. intros Hl v Hv. apply (Hcl u v). eapply lookup_edge; eauto. Qed.

  Lemma all_succs_incl : incl (all_succs g) (keys g).
  Proof. intros v Hv. apply all_succs_edge in Hv as [u He]. eapply Hcl; eauto. Qed.

  (* [P] = vertices placed so far, [m] = in-degree dict, [starts] = pending vertices *)
  Definition Inv (P : list node) (m : imap) (starts : list node) : Prop :=
    NoDup P /\ incl P (keys g) /\
    (forall u v, edge g u v -> In v P -> In u P) /\
    repr (keys g) m (npred g P) /\
    (forall v, In v starts <-> avail g P v) /\
    NoDup starts.

  Lemma avail_npred P v : avail g P v <-> In v (keys g) /\ ~ In v P /\ npred g P v = 0.
  Proof. unfold avail. rewrite npred_zero. tauto. Qed.

  Lemma Inv_bound P m starts v : Inv P m starts -> In v starts ->
    (length P < length (keys g))%nat.
  Proof.
    intros [HP [Hincl [_ [_ [Hst _]]]]] Hv. apply Hst in Hv as [Hk [Hn _]].
    assert (length (v :: P) <= length (keys g))%nat; [|simpl in *; lia].
    apply NoDup_incl_length; [constructor; auto|].
    intros x [<- | Hx]; auto.
  Qed.

  (* placing an available vertex [v]: [ns0] is [starts] without [v] *)
  Lemma Inv_step add P m starts v ns0 ss :
    (forall x s l, In x (add s l) <-> x = s \/ In x l) ->
    (forall s l, NoDup l -> ~ In s l -> NoDup (add s l)) ->
    Inv P m starts -> In v starts ->
    (forall x, In x ns0 <-> In x starts /\ x <> v) -> NoDup ns0 ->
    lookup g v = Some ss ->
    exists m1 ns, relax add ss m ns0 = TOk (m1, ns) /\ Inv (v :: P) m1 ns.
  Proof.
    intros addI addN [HP [Hincl [Hpc [Hr [Hst Hnds]]]]] Hv Hns0 Hnd0 Hl.
    pose proof (proj1 (Hst v) Hv) as Hav. destruct Hav as [Hvk [HvP Hvp]].
    destruct (relax_spec add addI addN (keys g) ss m (npred g P) ns0) as [m1 [ns [E [Hr1 [Hin1 Hnd1]]]]].
    - exact Hr.
    - eapply succs_incl; eauto.
    - intros x. eapply npred_ge; eauto.
    - intros x Hx. apply Hns0 in Hx as [Hx _]. apply Hst in Hx. apply avail_npred in Hx. tauto.
    - exact Hnd0.
    - exists m1, ns. split; [exact E|].
      assert (forall x, npred g (v :: P) x = npred g P x - cnt x ss) as Enp
        by (intros x; apply npred_place; auto).
      split; [constructor; auto|]. split; [|split; [|split; [|split; [|exact Hnd1]]]].
      + intros x [<- | Hx]; auto.
      + intros u x He [<- | Hx]; [right; apply Hvp; exact He | right; eapply Hpc; eauto].
      + eapply repr_ext; [|exact Hr1]. intros x _. symmetry. apply Enp.
      + intros x. rewrite Hin1, Hns0, Hst, !avail_npred, Enp.
        pose proof (cnt_nonneg x ss) as Hc. pose proof (npred_nonneg g P x) as Hp.
        split.
        * intros [[[Hk [Hn H0]] Hne] | [Hx H0]].
          -- split; [exact Hk|]. split; [intros [E' | I]; [congruence | contradiction]|].
             assert (cnt x ss <= npred g P x) by (eapply npred_ge; eauto). lia.
          -- assert (edge g v x) as He by (eapply lookup_edge; eauto).
             split; [eapply Hcl; eauto|]. split; [|exact H0].
             intros [<- | I].
             ++ apply HvP. apply Hvp. exact He.
             ++ apply HvP. eapply Hpc; eauto.
        * intros [Hk [Hn H0]].
          assert (x <> v) as Hne by (intros ->; apply Hn; left; reflexivity).
          assert (~ In x P) as HnP by (intros I; apply Hn; right; exact I).
          destruct (Z.eq_dec (npred g P x) 0) as [Z0 | Z0].
          -- left. auto.
          -- right. split; [|exact H0]. apply cnt_pos. lia.
  Qed.

  (* the state after the initial count *)
  Lemma Inv_init step : init_step_ok (keys g) step ->
    exists starts m, fold_res step (all_succs g) (keys g, zero_map g) = TOk (starts, m) /\
      Inv [] m starts.
  Proof.
    intros Hstep.
    destruct (init_spec (keys g) step Hstep (all_succs g) (keys g) (zero_map g) (fun _ => 0))
      as [starts [m [E [Hr [Hst Hnds]]]]].
    - apply repr_zero.
    - apply all_succs_incl.
    - intros _. lia.
    - intros v. tauto.
    - exact Hnd.
    - exists starts, m. split; [exact E|].
      split; [constructor|]. split; [intros x []|]. split; [intros u v _ []|].
      split; [|split; [|exact Hnds]].
      + eapply repr_ext; [|exact Hr]. intros v _. rewrite npred_nil. lia.
      + intros v. rewrite Hst, avail_npred, npred_nil. simpl. tauto.
  Qed.

  Lemma Inv_nil_maximal P m : Inv P m [] -> maximal g P [].
  Proof.
    intros [_ [_ [_ [_ [Hst _]]]]]. split; [constructor|].
    intros v Ha. simpl in Ha. apply Hst in Ha. destruct Ha.
  Qed.

  Lemma Inv_avail P m starts v : Inv P m starts -> In v starts -> avail g P v.
  Proof. intros [_ [_ [_ [_ [Hst _]]]]] Hv. apply Hst. exact Hv. Qed.

  (** ** Kahn's loop outputs a maximal sequence of available vertices *)
  Lemma kahn_loop_spec : forall fuel P m starts res, Inv P m starts ->
    (length P + fuel = length (keys g))%nat ->
    exists w, kahn_loop g fuel starts m res = TOk (res ++ w) /\ maximal g P w.
  Proof.
    induction fuel as [|fuel IH]; intros P m starts res HI Hlen;
      (destruct starts as [|v rest];
       [ exists []; split; [cbn [kahn_loop]; rewrite app_nil_r; reflexivity
                          | eapply Inv_nil_maximal; eauto ] | ]).
    - exfalso. pose proof (Inv_bound P m (v :: rest) v HI (or_introl eq_refl)). lia.
    - pose proof (Inv_avail P m _ v HI (or_introl eq_refl)) as Hav.
      destruct (key_lookup v (proj1 Hav)) as [ss Hl].
      assert (NoDup (v :: rest)) as Hndr by apply HI.
      inversion Hndr as [|? ? Hvr Hndr']; subst.
      destruct (Inv_step dq_append P m (v :: rest) v rest ss dq_append_In dq_append_NoDup HI)
        as [m1 [ns [E HI1]]]; auto.
      + left; reflexivity.
      + intros x. split.
        * intros Hx. split; [right; exact Hx | intros ->; contradiction].
        * intros [[-> | Hx] Hne]; [congruence | exact Hx].
      + cbn [kahn_loop]. rewrite Hl, E. cbn [tbind].
        destruct (IH (v :: P) m1 ns (res ++ [v]) HI1) as [w [Ew Hm]]; [simpl; lia|].
        exists (v :: w). split.
        * rewrite Ew, <- app_assoc. reflexivity.
        * apply maximal_cons. auto.
  Qed.

  Lemma toposort_run : exists w, maximal g [] w /\
    toposort g = TOk (if (length w =? length g)%nat then Some w else None).
  Proof.
    destruct (Inv_init kahn_init_step (kahn_init_step_ok _)) as [starts [m [E HI]]].
    destruct (kahn_loop_spec (length g) [] m starts [] HI) as [w [Ew Hm]].
    { unfold keys. rewrite map_length. reflexivity. }
    exists w. split; [exact Hm|]. unfold toposort. rewrite E. cbn [tbind]. rewrite Ew. reflexivity.
  Qed.

  Lemma length_keys : length (keys g) = length g.
  Proof. unfold keys. apply map_length. Qed.

  Theorem toposort_sound l : toposort g = TOk (Some l) -> topo g l.
  Proof.
    destruct toposort_run as [w [Hm ->]]. destruct (length w =? length g)%nat eqn:E; [|discriminate].
    intros [= ->]. apply Nat.eqb_eq in E. apply greedy_topo; auto.
    - apply Hm.
    - rewrite length_keys. exact E.
  Qed.

  Theorem toposort_complete : toposort g = TOk None -> forall l, ~ topo g l.
  Proof.
    destruct toposort_run as [w [Hm ->]]. destruct (length w =? length g)%nat eqn:E; [discriminate|].
    intros _ l Ht. apply Nat.eqb_neq in E. apply E.
    rewrite <- length_keys. eapply maximal_length; eauto.
  Qed.

  (* neither an exception nor fuel exhaustion on a well-formed graph *)
  Theorem toposort_total : toposort g = TOk None \/ exists l, toposort g = TOk (Some l).
  Proof.
    destruct toposort_run as [w [_ ->]]. destruct (length w =? length g)%nat; eauto.
  Qed.

  (** ** The backtracking enumerates the maximal sequences, each once *)
  Section Bt.
    Variable ord : list node -> list node.
    Hypothesis Hord : set_order ord.

    Lemma bt_spec : forall fuel P m starts, Inv P m starts ->
      (length P + fuel = length (keys g))%nat ->
      exists R m', bt ord g fuel starts m = TOk (R, m') /\
        repr (keys g) m' (npred g P) /\
        (forall r, In r R <-> maximal g P (rev r)) /\
        NoDup R.
    Proof.
      assert (forall P m, Inv P m [] -> forall r, In r [[]] <-> maximal g P (rev r)) as Hbase.
      { intros P m HI r. split.
        - intros [<- | []]. eapply Inv_nil_maximal; eauto.
        - intros [G _].
          assert (rev r = []) as Er.
          { destruct (rev r) as [|v w]; [reflexivity|]. exfalso.
            inversion G as [|? ? ? Ha G']; subst.
            destruct HI as [_ [_ [_ [_ [Hst _]]]]]. apply Hst in Ha. destruct Ha. }
          left. rewrite <- (rev_involutive r), Er. reflexivity. }
      induction fuel as [|fuel IH]; intros P m starts HI Hlen;
        (destruct starts as [|s0 st];
         [ exists [[]], m; split; [reflexivity|]; split; [apply HI|]; split;
           [ eapply Hbase; eauto | constructor; [intros [] | constructor] ] | ]).
      - exfalso. pose proof (Inv_bound P m (s0 :: st) s0 HI (or_introl eq_refl)). lia.
      - remember (s0 :: st) as starts eqn:Est.
        destruct HI as [HP [Hincl [Hpc [Hr [Hst Hnds]]]]].
        (* the [for node_from in starts] loop *)
        assert (forall todo acc m0, repr (keys g) m0 (npred g P) ->
                  (forall v, In v todo -> In v starts) -> NoDup todo ->
                  exists R m', fold_res (bt_body g (bt ord g fuel) starts) todo (acc, m0) = TOk (acc ++ R, m') /\
                    repr (keys g) m' (npred g P) /\
                    (forall r, In r R <-> exists v r', In v todo /\ r = r' ++ [v] /\ maximal g (v :: P) (rev r')) /\
                    NoDup R) as Hloop.
        { induction todo as [|v todo IHt]; intros acc m0 Hr0 Hsub Hndt.
          - exists [], m0. split; [rewrite app_nil_r; reflexivity|]. split; [exact Hr0|].
            split; [|constructor]. intros r. split; [intros [] | intros [v [r' [[] _]]]].
          - apply NoDup_cons_iff in Hndt as [Hvt Hndt'].
            assert (In v starts) as Hv by (apply Hsub; left; reflexivity).
            assert (Inv P m0 starts) as HI0
              by exact (conj HP (conj Hincl (conj Hpc (conj Hr0 (conj Hst Hnds))))).
            pose proof (Inv_avail P m0 _ v HI0 Hv) as Hav.
            destruct (key_lookup v (proj1 Hav)) as [ss Hl].
            destruct (remove_first_spec v starts Hnds Hv) as [ns0 [Erem [Hnd0 Hns0]]].
            destruct (Inv_step set_add P m0 starts v ns0 ss set_add_In set_add_NoDup HI0 Hv Hns0 Hnd0 Hl)
              as [m1 [ns [Erel HI1]]].
            destruct (IH (v :: P) m1 ns HI1) as [subs [m2 [Ebt [Hr2 [Hsubs Hndsubs]]]]]; [simpl; lia|].
            destruct (restore_spec (keys g) ss m2 (npred g (v :: P)) Hr2 (succs_incl v ss Hl))
              as [m3 [Eres Hr3]].
            assert (repr (keys g) m3 (npred g P)) as Hr3'.
            { eapply repr_ext; [|exact Hr3]. intros x _. simpl.
              rewrite (npred_place g v ss P x Hnd Hl (proj1 (proj2 Hav))). lia. }
            destruct (IHt (acc ++ map (fun sub => sub ++ [v]) subs) m3 Hr3')
              as [R' [m' [Efold [Hr' [HR' HndR']]]]]; auto.
            { intros x Hx. apply Hsub. right; exact Hx. }
            exists (map (fun sub => sub ++ [v]) subs ++ R'), m'.
            split; [|split; [exact Hr'|split]].
            + cbn [fold_res]. unfold bt_body at 1. rewrite Erem, Hl, Erel. cbn [tbind].
              rewrite Ebt. cbn [tbind]. rewrite Eres. cbn [tbind].
              rewrite Efold, <- app_assoc. reflexivity.
            + intros r. rewrite in_app_iff, in_map_iff, HR'. split.
              * intros [[r' [<- Hr'in]] | [v' [r' [Hv' [-> Hm]]]]].
                -- exists v, r'. split; [left; reflexivity|]. split; [reflexivity|]. apply Hsubs. exact Hr'in.
                -- exists v', r'. split; [right; exact Hv'|]. auto.
              * intros [v' [r' [[<- | Hv'] [-> Hm]]]].
                -- left. exists r'. split; [reflexivity|]. apply Hsubs. exact Hm.
                -- right. exists v', r'. auto.
            + apply NoDup_app_intro; auto.
              * apply Injective_map_NoDup; auto. intros a b Eab. apply app_inv_tail in Eab. exact Eab.
              * intros r Hin1 Hin2. apply in_map_iff in Hin1 as [r1 [<- _]].
                apply HR' in Hin2 as [v' [r2 [Hv' [E2 _]]]].
                apply app_inj_tail in E2 as [_ <-]. contradiction. }
        destruct (Hloop (ord starts) [] m Hr) as [R [m' [Efold [Hr' [HR HndR]]]]].
        + intros v Hv. apply (Permutation_in _ (Hord starts)). exact Hv.
        + apply (Permutation_NoDup (Permutation_sym (Hord starts))). exact Hnds.
        + exists R, m'. split; [|split; [exact Hr'|split; [|exact HndR]]].
          * rewrite Est. cbn [bt]. rewrite <- Est. exact Efold.
          * intros r. rewrite HR. split.
            -- intros [v [r' [Hv [-> Hm]]]]. rewrite rev_unit. apply maximal_cons. split; [|exact Hm].
               apply Hst. apply (Permutation_in _ (Hord starts)). exact Hv.
            -- intros Hm. destruct (rev r) as [|v w] eqn:Er.
               ++ exfalso. destruct Hm as [_ Hm]. apply (Hm s0). simpl. apply Hst.
                  rewrite Est. left; reflexivity.
               ++ apply maximal_cons in Hm as [Ha Hm]. exists v, (rev w).
                  split; [apply (Permutation_in _ (Permutation_sym (Hord starts))); apply Hst; exact Ha|].
                  split; [|rewrite rev_involutive; exact Hm].
                  rewrite <- (rev_involutive r), Er. reflexivity.
    Qed.

    Lemma toposort_all_run : exists R,
      (forall r, In r R <-> maximal g [] (rev r)) /\ NoDup R /\
      toposort_all_with ord g =
        TOk (if forallb (fun sub => (length sub =? length g)%nat) R then map (@rev node) R else []).
    Proof.
      destruct (Inv_init all_init_step (all_init_step_ok _)) as [starts [m [E HI]]].
      destruct (bt_spec (length g) [] m starts HI) as [R [m' [Ebt [_ [HR HndR]]]]].
      { simpl. symmetry. apply length_keys. }
      exists R. split; [exact HR|]. split; [exact HndR|].
      unfold toposort_all_with. rewrite E. cbn [tbind]. rewrite Ebt. reflexivity.
    Qed.

    Theorem toposort_all_total : exists R, toposort_all_with ord g = TOk R.
    Proof. destruct toposort_all_run as [R [_ [_ ->]]]. eauto. Qed.

    Theorem toposort_all_complete_sound R : toposort_all_with ord g = TOk R ->
      forall l, In l R <-> topo g l.
    Proof.
      destruct toposort_all_run as [R0 [HR [_ ->]]]. intros [= <-] l. split.
      - destruct (forallb _ R0) eqn:F; [|intros []].
        rewrite in_map_iff. intros [r [<- Hr]].
        rewrite forallb_forall in F. specialize (F r Hr). apply Nat.eqb_eq in F.
        apply HR in Hr. apply greedy_topo; auto; [apply Hr|].
        rewrite rev_length, length_keys. exact F.
      - intros Ht.
        assert (forallb (fun sub => (length sub =? length g)%nat) R0 = true) as ->.
        { apply forallb_forall. intros r Hr. apply Nat.eqb_eq. apply HR in Hr.
          rewrite <- length_keys, <- (rev_length r). eapply maximal_length; eauto. }
        apply in_map_iff. exists (rev l). split; [apply rev_involutive|].
        apply HR. rewrite rev_involutive. apply topo_maximal; auto.
    Qed.

    Theorem toposort_all_nodup R : toposort_all_with ord g = TOk R -> NoDup R.
    Proof.
      destruct toposort_all_run as [R0 [_ [Hnd0 ->]]]. intros [= <-].
      destruct (forallb _ R0); [|constructor].
      apply Injective_map_NoDup; auto. intros a b E.
      rewrite <- (rev_involutive a), E. apply rev_involutive.
    Qed.

    Corollary toposort_all_cyclic_nil : (forall l, ~ topo g l) -> toposort_all_with ord g = TOk [].
    Proof.
      intros Hno. destruct toposort_all_total as [R E]. rewrite E.
      destruct R as [|l R]; [reflexivity|]. exfalso. apply (Hno l).
      apply (toposort_all_complete_sound _ E). left; reflexivity.
    Qed.
  End Bt.
End Concrete.

Lemma set_order_id : set_order (fun s => s).
Proof. intros s. apply Permutation_refl. Qed.

(* ------------------------------------------------------------------ *)
(** * A boolean test for well-formedness *)

Fixpoint nodupb (l : list node) : bool :=
  match l with
  | [] => true
  | x :: l' => negb (memb x l') && nodupb l'
  end.

Definition wfb (g : graph) : bool :=
  nodupb (keys g) && forallb (fun p => forallb (fun v => memb v (keys g)) (snd p)) g.

Lemma nodupb_NoDup l : nodupb l = true -> NoDup l.
Proof.
  induction l as [|x l IH]; simpl; intros H; [constructor|].
  apply andb_true_iff in H as [H1 H2]. apply negb_true_iff, memb_false in H1.
  constructor; auto.
Qed.

Lemma wfb_wf g : wfb g = true -> wf g.
Proof.
  unfold wfb. rewrite andb_true_iff, forallb_forall. intros [H1 H2]. split.
  - apply nodupb_NoDup. exact H1.
  - intros u v [ss [Hin Hv]]. specialize (H2 _ Hin). simpl in H2.
    rewrite forallb_forall in H2. apply memb_In. apply H2. exact Hv.
Qed.

(* ------------------------------------------------------------------ *)
(** * The precedence graph of leaf syntenies and its orderings *)

From SR Require Proofs.SubseqProofs.
Notation Subseq := SubseqProofs.Subseq.

(* [u] is immediately followed by [v] in [s] *)
Definition adjacent (s : list node) (u v : node) : Prop := exists a b, s = a ++ u :: v :: b.

(* [x] is a gene family of some leaf synteny *)
Definition family (leaves : list (list node)) (x : node) : Prop :=
  exists s, In s leaves /\ In x s.

Lemma adjacent_single x u v : ~ adjacent [x] u v.
Proof. intros [a [b E]]. destruct a as [|? [|? ?]]; discriminate. Qed.

Lemma adjacent_cons x y s u v :
  adjacent (x :: y :: s) u v <-> (u = x /\ v = y) \/ adjacent (y :: s) u v.
Proof.
  split.
  - intros [a [b E]]. destruct a as [|a0 a]; simpl in E.
    + inversion E; subst. left; auto.
    + inversion E; subst. right. exists a, b. assumption.
  - intros [[-> ->] | [a [b E]]].
    + exists [], s. reflexivity.
    + exists (x :: a), b. simpl. rewrite E. reflexivity.
Qed.

Lemma edge_app g1 g2 u v : edge (g1 ++ g2) u v <-> edge g1 u v \/ edge g2 u v.
Proof.
  unfold edge. split.
  - intros [ss [Hin Hv]]. apply in_app_iff in Hin as [H | H]; [left | right]; eauto.
  - intros [[ss [Hin Hv]] | [ss [Hin Hv]]]; exists ss; rewrite in_app_iff; auto.
Qed.

Lemma lookup_none_keys {A} (m : list (node * A)) k : lookup m k = None -> ~ In k (map fst m).
Proof.
  intros Hl Hin. apply lookup_key in Hin as [a Ha]. congruence.
Qed.

Lemma ensure_key_spec prec k : NoDup (keys prec) ->
  NoDup (keys (ensure_key prec k)) /\
  (forall x, In x (keys (ensure_key prec k)) <-> x = k \/ In x (keys prec)) /\
  (forall u v, edge (ensure_key prec k) u v <-> edge prec u v).
Proof.
  intros Hnd. unfold ensure_key. destruct (lookup prec k) as [ss|] eqn:Hl.
  - split; [exact Hnd|]. split; [|tauto].
    intros x. split; [auto|]. intros [-> | H]; [|exact H].
    apply lookup_In in Hl. change k with (fst (k, ss)). apply in_map. exact Hl.
  - apply lookup_none_keys in Hl. unfold keys in *. rewrite map_app. simpl. split; [|split].
    + apply NoDup_app_intro; auto.
      * constructor; [intros [] | constructor].
      * intros x Hx [<- | []]. contradiction.
    + intros x. rewrite in_app_iff. simpl. intuition.
    + intros u v. rewrite edge_app. split; [|auto].
      intros [H | [ss [[E | []] Hv]]]; [exact H|]. inversion E; subst. destruct Hv.
Qed.

Lemma add_succ_spec k v : forall prec, In k (keys prec) ->
  keys (add_succ prec k v) = keys prec /\
  (forall u w, edge (add_succ prec k v) u w <-> edge prec u w \/ (u = k /\ w = v)).
Proof.
  induction prec as [|[k' ss] prec IH]; intros Hk; [destruct Hk|]. simpl.
  destruct (Nat.eqb k k') eqn:E.
  - apply Nat.eqb_eq in E. subst k'. split; [reflexivity|].
    intros u w. rewrite !edge_cons, set_add_In. intuition.
  - apply Nat.eqb_neq in E. destruct Hk as [Hk | Hk]; [simpl in Hk; congruence|].
    destruct (IH Hk) as [IH1 IH2]. split; [simpl; f_equal; exact IH1|].
    intros u w. rewrite !edge_cons, IH2. tauto.
Qed.

Lemma prec_leaf_spec : forall s prec, s <> [] -> NoDup (keys prec) ->
  exists prec', prec_leaf prec s = TOk prec' /\ NoDup (keys prec') /\
    (forall x, In x (keys prec') <-> In x (keys prec) \/ In x s) /\
    (forall u v, edge prec' u v <-> edge prec u v \/ adjacent s u v).
Proof.
  induction s as [|x s IH]; intros prec Hne Hnd; [congruence|].
  destruct s as [|y s].
  - destruct (ensure_key_spec prec x Hnd) as [H1 [H2 H3]].
    exists (ensure_key prec x). split; [reflexivity|]. split; [exact H1|]. split.
    + intros z. rewrite H2. simpl. intuition.
    + intros u v. rewrite H3. split; [auto|]. intros [H | H]; [exact H|].
      exfalso. eapply adjacent_single; eauto.
  - destruct (ensure_key_spec prec x Hnd) as [H1 [H2 H3]].
    destruct (add_succ_spec x y (ensure_key prec x)) as [H4 H5].
    { apply H2. left; reflexivity. }
    destruct (IH (add_succ (ensure_key prec x) x y)) as [prec' [E [N1 [K1 E1]]]].
    + discriminate.
    + rewrite H4. exact H1.
    + exists prec'. split; [exact E|]. split; [exact N1|]. split.
      * intros z. rewrite K1, H4, H2. simpl. intuition.
      * intros u v. rewrite E1, H5, H3, adjacent_cons. tauto.
Qed.

Lemma prec_fold_spec : forall leaves prec g, NoDup (keys prec) ->
  fold_res prec_leaf leaves prec = TOk g ->
  NoDup (keys g) /\
  (forall x, In x (keys g) <-> In x (keys prec) \/ family leaves x) /\
  (forall u v, edge g u v <-> edge prec u v \/ exists s, In s leaves /\ adjacent s u v).
Proof.
  induction leaves as [|s leaves IH]; intros prec g Hnd E.
  - simpl in E. inversion E; subst. split; [exact Hnd|]. split.
    + intros x. split; [auto|]. intros [H | [s [[] _]]]; exact H.
    + intros u v. split; [auto|]. intros [H | [s [[] _]]]; exact H.
  - cbn [fold_res] in E. destruct s as [|x s]; [discriminate|].
    destruct (prec_leaf_spec (x :: s) prec) as [prec' [E' [N1 [K1 E1]]]]; [discriminate | exact Hnd|].
    rewrite E' in E. cbn [tbind] in E.
    destruct (IH prec' g N1 E) as [N2 [K2 E2]]. split; [exact N2|]. split.
    + intros z. rewrite K2, K1. unfold family. split.
      * intros [[H | H] | [s' [H1 H2]]]; [left; exact H | right | right].
        -- exists (x :: s). split; [left; reflexivity | exact H].
        -- exists s'. split; [right; exact H1 | exact H2].
      * intros [H | [s' [[<- | H1] H2]]]; [left; left; exact H | left; right; exact H2 | right].
        exists s'. auto.
    + intros u v. rewrite E2, E1. split.
      * intros [[H | H] | [s' [H1 H2]]]; [left; exact H | right | right].
        -- exists (x :: s). split; [left; reflexivity | exact H].
        -- exists s'. split; [right; exact H1 | exact H2].
      * intros [H | [s' [[<- | H1] H2]]]; [left; left; exact H | left; right; exact H2 | right].
        exists s'. auto.
Qed.

Lemma make_prec_graph_total leaves : (forall s, In s leaves -> s <> []) ->
  exists g, make_prec_graph leaves = TOk g.
Proof.
  unfold make_prec_graph. assert (NoDup (keys [])) as H0 by constructor. revert H0.
  generalize (@nil (node * list node)) as prec.
  induction leaves as [|s leaves IH]; intros prec Hnd Hne.
  - exists prec. reflexivity.
  - destruct (prec_leaf_spec s prec) as [prec' [E' [N1 _]]]; [apply Hne; left; reflexivity | exact Hnd|].
    cbn [fold_res]. rewrite E'. cbn [tbind]. apply IH; [exact N1|].
    intros s' Hs'. apply Hne. right; exact Hs'.
Qed.

(* sub-sequences and [before] *)
Lemma Subseq_app_skip (a c p : list node) : Subseq c p -> Subseq c (a ++ p).
Proof. intros H. induction a as [|x a IH]; simpl; [exact H | apply SubseqProofs.sub_skip; exact IH]. Qed.

Lemma Subseq_drop (a c p : list node) : Subseq (a ++ c) p -> Subseq c p.
Proof.
  induction a as [|x a IH]; simpl; intros H; [exact H|].
  apply IH. eapply SubseqProofs.Subseq_tail; eauto.
Qed.

Lemma Subseq_strip (y : node) c : forall a p, Subseq (y :: c) (a ++ p) -> ~ In y a -> Subseq (y :: c) p.
Proof.
  induction a as [|z a IH]; simpl; intros p H Hn; [exact H|].
  inversion H as [| ? ? ? H' | ? ? ? H']; subst.
  - exfalso. apply Hn. left; reflexivity.
  - apply IH; [exact H' | tauto].
Qed.

Lemma Subseq_before u v b : forall l, Subseq (u :: v :: b) l -> before l u v.
Proof.
  induction l as [|z l IH]; intros H; inversion H as [| ? ? ? H' | ? ? ? H']; subst.
  - assert (In v l) as Hv by (eapply SubseqProofs.Subseq_in; [exact H' | left; reflexivity]).
    apply in_split in Hv as [l2 [l3 ->]]. exists [], l2, l3. reflexivity.
  - destruct (IH H') as [l1 [l2 [l3 ->]]]. exists (z :: l1), l2, l3. reflexivity.
Qed.

Lemma chain_Subseq : forall s l, NoDup l -> (forall x, In x s -> In x l) ->
  (forall u v, adjacent s u v -> before l u v) -> Subseq s l.
Proof.
  induction s as [|x s IH]; intros l Hnd Hin Hadj; [constructor|].
  destruct s as [|y s].
  - assert (In x l) as Hx by (apply Hin; left; reflexivity).
    apply in_split in Hx as [l1 [l2 ->]]. apply Subseq_app_skip.
    apply SubseqProofs.sub_take. constructor.
  - assert (Subseq (y :: s) l) as Hys.
    { apply IH; auto.
      - intros z Hz. apply Hin. right; exact Hz.
      - intros u v Huv. apply Hadj. apply adjacent_cons. right; exact Huv. }
    destruct (Hadj x y) as [l1 [l2 [l3 ->]]]; [apply adjacent_cons; left; auto|].
    apply Subseq_app_skip. apply SubseqProofs.sub_take.
    replace (l1 ++ x :: l2 ++ y :: l3) with ((l1 ++ [x]) ++ l2 ++ y :: l3) in Hys, Hnd
      by (rewrite <- app_assoc; reflexivity).
    apply (Subseq_strip y s (l1 ++ [x])); [exact Hys|].
    intros Hy. rewrite app_assoc in Hnd. apply NoDup_remove_2 in Hnd.
    apply Hnd. rewrite !in_app_iff. left; left. rewrite in_app_iff in Hy. exact Hy.
Qed.

(* link lemma for C02: the orderings of the precedence graph are exactly the
   arrangements of the family set of which every leaf synteny is a sub-sequence *)
Theorem root_orders leaves g : make_prec_graph leaves = TOk g ->
  wf g /\
  forall l, topo g l <->
    NoDup l /\ (forall x, In x l <-> family leaves x) /\ (forall s, In s leaves -> Subseq s l).
Proof.
  intros E. destruct (prec_fold_spec leaves [] g (NoDup_nil _) E) as [N [K Ed]].
  assert (forall x, In x (keys g) <-> family leaves x) as K'.
  { intros x. rewrite K. simpl. tauto. }
  assert (forall u v, edge g u v <-> exists s, In s leaves /\ adjacent s u v) as Ed'.
  { intros u v. rewrite Ed. split; [|auto]. intros [[ss [[] _]] | H]; exact H. }
  split.
  - split; [exact N|]. intros u v He. apply Ed' in He as [s [Hs [a [b ->]]]].
    apply K'. exists (a ++ u :: v :: b). split; [exact Hs|].
    rewrite in_app_iff. right; right; left; reflexivity.
  - intros l. split.
    + intros [Hp He].
      assert (NoDup l) as Hl by (apply (Permutation_NoDup (Permutation_sym Hp)); exact N).
      split; [exact Hl|]. split.
      * intros x. rewrite <- K'. split; apply Permutation_in; [exact Hp | apply Permutation_sym; exact Hp].
      * intros s Hs. apply chain_Subseq; auto.
        -- intros x Hx. apply (Permutation_in _ (Permutation_sym Hp)). apply K'. exists s. auto.
        -- intros u v Huv. apply He. apply Ed'. exists s. auto.
    + intros [Hl [Hfam Hsub]]. split.
      * apply NoDup_Permutation; auto. intros x. rewrite Hfam, K'. tauto.
      * intros u v He. apply Ed' in He as [s [Hs [a [b ->]]]].
        apply (Subseq_before u v b). apply (Subseq_drop a). apply Hsub. exact Hs.
Qed.

(* ------------------------------------------------------------------ *)
(** * A successor that is not a key raises [KeyError] in both routines *)

Lemma fold_res_app {A S} (f : S -> A -> tres S) (a b : list A) (s : S) :
  fold_res f (a ++ b) s = tbind (fold_res f a s) (fold_res f b).
Proof.
  revert s. induction a as [|x a IH]; intros s; simpl; [reflexivity|].
  destruct (f s x); simpl; auto.
Qed.

Lemma update_keys m k d : map fst (update m k d) = map fst m.
Proof.
  induction m as [|[k' a] m IH]; simpl; [reflexivity|].
  destruct (Nat.eqb k k'); simpl; [reflexivity | rewrite IH; reflexivity].
Qed.

Lemma lookup_not_key {A} (m : list (node * A)) k : ~ In k (map fst m) -> lookup m k = None.
Proof.
  induction m as [|[k' a] m IH]; simpl; intros H; [reflexivity|].
  destruct (Nat.eqb k k') eqn:E.
  - apply Nat.eqb_eq in E. subst. exfalso. apply H. left; reflexivity.
  - apply IH. tauto.
Qed.

Lemma first_bad (K : list node) : forall L, (exists x, In x L /\ ~ In x K) ->
  exists pre s post, L = pre ++ s :: post /\ incl pre K /\ ~ In s K.
Proof.
  induction L as [|y L IH]; intros [x [Hx Hn]]; [destruct Hx|].
  destruct (in_dec Nat.eq_dec y K) as [Hy | Hy].
  - destruct IH as [pre [s [post [-> [Hp Hs]]]]].
    + destruct Hx as [<- | Hx]; [contradiction | eauto].
    + exists (y :: pre), s, post. split; [reflexivity|]. split; [|exact Hs].
      intros z [<- | Hz]; auto.
  - exists [], y, L. split; [reflexivity|]. split; [intros z []|exact Hy].
Qed.

Definition keeps_keys (step : list node * imap -> node -> tres (list node * imap)) : Prop :=
  (forall st m s st' m', step (st, m) s = TOk (st', m') -> map fst m' = map fst m) /\
  (forall st m s, lookup m s = None -> step (st, m) s = TKeyError).

Lemma kahn_init_keeps : keeps_keys kahn_init_step.
Proof.
  split.
  - intros st m s st' m'. unfold kahn_init_step. destruct (lookup m s) as [d|]; [|discriminate].
    destruct (if (d =? 0)%Z then remove_first s st else Some st); [|discriminate].
    intros [= <- <-]. apply update_keys.
  - intros st m s H. unfold kahn_init_step. rewrite H. reflexivity.
Qed.

Lemma all_init_keeps : keeps_keys all_init_step.
Proof.
  split.
  - intros st m s st' m'. unfold all_init_step. destruct (lookup m s) as [d|]; [|discriminate].
    intros [= <- <-]. apply update_keys.
  - intros st m s H. unfold all_init_step. rewrite H. reflexivity.
Qed.

Lemma fold_keeps step : keeps_keys step -> forall L st m st' m',
  fold_res step L (st, m) = TOk (st', m') -> map fst m' = map fst m.
Proof.
  intros [Hk _]. induction L as [|s L IH]; intros st m st' m' E; simpl in E.
  - inversion E; reflexivity.
  - destruct (step (st, m) s) as [[st1 m1]| | | |] eqn:E1; try discriminate.
    simpl in E. rewrite (IH _ _ _ _ E). eapply Hk; eauto.
Qed.

Lemma init_keyerror g step : NoDup (keys g) -> init_step_ok (keys g) step -> keeps_keys step ->
  (exists u v, edge g u v /\ ~ In v (keys g)) ->
  fold_res step (all_succs g) (keys g, zero_map g) = TKeyError.
Proof.
  intros Hnd Hok Hkeep [u [v [[ss [Hin Hv]] Hn]]].
  destruct (first_bad (keys g) (all_succs g)) as [pre [s [post [E [Hpre Hs]]]]].
  { exists v. split; [|exact Hn]. unfold all_succs. apply in_concat. exists ss. split; [|exact Hv].
    change ss with (snd (u, ss)). apply in_map. exact Hin. }
  rewrite E, fold_res_app.
  destruct (init_spec (keys g) step Hok pre (keys g) (zero_map g) (fun _ => 0%Z))
    as [st' [m' [E' _]]].
  - apply repr_zero.
  - exact Hpre.
  - intros _. lia.
  - intros x. tauto.
  - exact Hnd.
  - rewrite E'. cbn [tbind fold_res].
    pose proof (fold_keeps step Hkeep _ _ _ _ _ E') as Hk.
    destruct Hkeep as [_ Herr]. rewrite Herr; [reflexivity|].
    apply lookup_not_key. rewrite Hk. unfold zero_map. rewrite map_map. simpl.
    rewrite map_id. exact Hs.
Qed.

Theorem toposort_keyerror g : NoDup (keys g) ->
  (exists u v, edge g u v /\ ~ In v (keys g)) -> toposort g = TKeyError.
Proof.
  intros Hnd Hbad. unfold toposort.
  rewrite (init_keyerror g _ Hnd (kahn_init_step_ok _) kahn_init_keeps Hbad). reflexivity.
Qed.

Theorem toposort_all_keyerror ord g : NoDup (keys g) ->
  (exists u v, edge g u v /\ ~ In v (keys g)) -> toposort_all_with ord g = TKeyError.
Proof.
  intros Hnd Hbad. unfold toposort_all_with.
  rewrite (init_keyerror g _ Hnd (all_init_step_ok _) all_init_keeps Hbad). reflexivity.
Qed.
