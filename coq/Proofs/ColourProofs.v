(** Proofs about Model/Colour.v (C15): colour scope after propagation, the pre-fix
    loop refuted, and [get_color] interning. *)
From Coq Require Import List Bool Arith Lia.
From SR Require Import Model.Colour.
Import ListNotations.

(** * Specification of the scope of a colour *)
Definition prefix (q p : path) : Prop := exists s, p = q ++ s.

(** the colour written on node [p] of the input ([None]: none, or no such node) *)
Definition own {A} (t : rose (option A)) (p : path) : option A :=
  match get t p with Some c => c | None => None end.

(** [r] is the colour of the nearest coloured ancestor-or-self of [p], [None] if there is none *)
Definition scope_spec {A} (t : rose (option A)) (p : path) (r : option A) : Prop :=
  (exists q c, prefix q p /\ own t q = Some c /\ r = Some c /\
               forall q', prefix q q' -> prefix q' p -> q' <> q -> own t q' = None)
  \/ ((forall q, prefix q p -> own t q = None) /\ r = None).

Lemma prefix_nil_r : forall q, prefix q [] -> q = [].
Proof. intros q [s H]. destruct q; [reflexivity | discriminate]. Qed.

Lemma prefix_cons_r : forall q i p, prefix q (i :: p) ->
  q = [] \/ exists q', q = i :: q' /\ prefix q' p.
Proof.
  intros q i p [s H]. destruct q as [| j q]; [left; reflexivity | right].
  simpl in H. injection H as -> ->. exists q. split; [reflexivity | exists s; reflexivity].
Qed.

Lemma prefix_nil_l : forall p, prefix [] p.
Proof. intro p. exists p. reflexivity. Qed.

Lemma prefix_cons : forall i q p, prefix q p -> prefix (i :: q) (i :: p).
Proof. intros i q p [s ->]. exists s. reflexivity. Qed.

Lemma prefix_cons_inv : forall i q p, prefix (i :: q) (i :: p) -> prefix q p.
Proof. intros i q p [s H]. simpl in H. injection H as ->. exists s. reflexivity. Qed.

Section Scope.
  Variable A : Type.

  (** walking down to [p], remembering the last colour seen; [inh] comes from above *)
  Fixpoint walk (inh : option A) (t : rose (option A)) (p : path) {struct p} : option (option A) :=
    match t, p with
    | RNode c _, [] => Some (own_or c inh)
    | RNode c ks, i :: p' =>
        match nth_error ks i with
        | Some k => walk (own_or c inh) k p'
        | None => None
        end
    end.

  Lemma get_propagate : forall p t inh, get (propagate inh t) p = walk inh t p.
  Proof.
    induction p as [| i p IH]; intros [c ks] inh; simpl.
    - reflexivity.
    - rewrite nth_error_map. destruct (nth_error ks i) as [k |]; simpl; [apply IH | reflexivity].
  Qed.

  Lemma walk_defined : forall p t inh, get t p <> None -> walk inh t p <> None.
  Proof.
    induction p as [| i p IH]; intros [c ks] inh; simpl.
    - discriminate.
    - destruct (nth_error ks i) as [k |]; [apply IH | auto].
  Qed.

  Lemma own_child : forall (c : option A) (ks : list (rose (option A))) i k q,
    nth_error ks i = Some k -> own (RNode c ks) (i :: q) = own k q.
  Proof. intros c ks i k q H. unfold own. simpl. rewrite H. reflexivity. Qed.

  Lemma walk_spec : forall p t inh r, walk inh t p = Some r ->
    (exists q c, prefix q p /\ own t q = Some c /\ r = Some c /\
                 forall q', prefix q q' -> prefix q' p -> q' <> q -> own t q' = None)
    \/ ((forall q, prefix q p -> own t q = None) /\ r = inh).
  Proof.
    induction p as [| i p IH]; intros [c ks] inh r H; simpl in H.
    - injection H as <-. destruct c as [x |]; simpl.
      + left. exists [], x. repeat split; [apply prefix_nil_l |].
        intros q' _ H2 Hne. apply prefix_nil_r in H2. contradiction.
      + right. split; [| reflexivity]. intros q Hq. apply prefix_nil_r in Hq. subst. reflexivity.
    - destruct (nth_error ks i) as [k |] eqn:Ek; [| discriminate].
      destruct (IH k _ _ H) as [[q [x [Hq [Ho [Hr Hbetween]]]]] | [Hnone Hr]].
      + left. exists (i :: q), x. repeat split.
        * apply prefix_cons. exact Hq.
        * rewrite (own_child c ks i k q Ek). exact Ho.
        * exact Hr.
        * intros q' H1 H2 Hne. destruct (prefix_cons_r _ _ _ H2) as [-> | [q'' [-> Hq'']]].
          -- destruct H1 as [s Hs]. discriminate Hs.
          -- rewrite (own_child c ks i k q'' Ek). apply Hbetween.
             ++ apply (prefix_cons_inv i). exact H1.
             ++ exact Hq''.
             ++ intro E. apply Hne. rewrite E. reflexivity.
      + destruct c as [x |]; simpl in Hr.
        * left. exists [], x. repeat split; [apply prefix_nil_l | exact Hr |].
          intros q' _ H2 Hne. destruct (prefix_cons_r _ _ _ H2) as [-> | [q'' [-> Hq'']]]; [contradiction |].
          rewrite (own_child (Some x) ks i k q'' Ek). apply Hnone. exact Hq''.
        * right. split; [| exact Hr]. intros q Hq.
          destruct (prefix_cons_r _ _ _ Hq) as [-> | [q'' [-> Hq'']]]; [reflexivity |].
          rewrite (own_child None ks i k q'' Ek). apply Hnone. exact Hq''.
  Qed.

  (** after propagation a node's colour is that of its nearest coloured ancestor-or-self,
      none if there is none: a colour applies to the whole subtree of the node that carries
      it, up to nested nodes with their own colour, and nowhere else *)
  Theorem colour_scope : forall (t : rose (option A)) p, get t p <> None ->
    scope_spec t p (node_colour t p).
  Proof.
    intros t p Hv. unfold node_colour, colours. rewrite get_propagate.
    destruct (walk None t p) as [r |] eqn:E.
    - destruct (walk_spec p t None r E) as [H | [H ->]]; [left; exact H | right; auto].
    - exfalso. exact (walk_defined p t None Hv E).
  Qed.

  (** loss pseudo-genes carry the colour of the gene whose lineage they belong to *)
  Theorem pseudo_colour_scope : forall (t : rose (option A)) p, get t p <> None ->
    scope_spec t p (pseudo_colour t p).
  Proof. exact colour_scope. Qed.

  (** the scope specification determines the colour *)
  Lemma scope_spec_functional : forall (t : rose (option A)) p r1 r2,
    scope_spec t p r1 -> scope_spec t p r2 -> r1 = r2.
  Proof.
    intros t p r1 r2 H1 H2.
    destruct H1 as [[q1 [c1 [P1 [O1 [-> B1]]]]] | [N1 ->]];
    destruct H2 as [[q2 [c2 [P2 [O2 [-> B2]]]]] | [N2 ->]].
    - destruct (list_eq_dec Nat.eq_dec q1 q2) as [-> | Hne]; [congruence |].
      destruct P1 as [s1 E1], P2 as [s2 E2].
      assert (Hcmp : prefix q1 q2 \/ prefix q2 q1).
      { subst p. clear - E2. revert q2 s1 s2 E2. induction q1 as [| a q1 IH]; intros q2 s1 s2 E2.
        - left. apply prefix_nil_l.
        - destruct q2 as [| b q2]; [right; apply prefix_nil_l |].
          simpl in E2. injection E2 as -> E2. destruct (IH _ _ _ E2) as [H | H].
          + left. apply prefix_cons. exact H.
          + right. apply prefix_cons. exact H. }
      destruct Hcmp as [H | H].
      + rewrite (B1 q2 H (ex_intro _ s2 E2)) in O2 by (intro; apply Hne; congruence). discriminate.
      + rewrite (B2 q1 H (ex_intro _ s1 E1)) in O1 by (intro; apply Hne; congruence). discriminate.
    - rewrite (N2 q1 P1) in O1. discriminate.
    - rewrite (N1 q2 P2) in O2. discriminate.
    - reflexivity.
  Qed.
End Scope.

(** * The loop before fix D8 forgets the enclosing colour after a nested coloured subtree *)
(** (((a1,(b1,b2)B[blue])P,a2)A[red],c1)R with red = 1, blue = 2; a2 is node [0;1] *)
Definition nested_example : rose (option nat) :=
  RNode None
    [RNode (Some 1)
       [RNode None [RNode None []; RNode (Some 2) [RNode None []; RNode None []]];
        RNode None []];
     RNode None []].

Example nested_colour_refuted :
  get (old_colours nested_example) [0; 1] = Some None          (* a2 is left uncoloured *)
  /\ node_colour nested_example [0; 1] = Some 1                (* its nearest coloured ancestor is red *)
  /\ get (old_colours nested_example) [0; 0; 1; 0] = Some (Some 2)
  /\ node_colour nested_example [0; 0; 1; 0] = Some 2.
Proof. repeat split. Qed.

(** * [get_color] *)
Section Intern.
  Variable A : Type.
  Variable eqb : A -> A -> bool.
  Hypothesis eqb_spec : forall x y, reflect (x = y) (eqb x y).

  Lemma index_of_some : forall c l i, index_of eqb c l = Some i -> nth_error l i = Some c.
  Proof.
    induction l as [| x l IH]; intros i H; simpl in H; [discriminate |].
    destruct (eqb_spec c x) as [-> | _].
    - injection H as <-. reflexivity.
    - destruct (index_of eqb c l) as [j |]; [| discriminate].
      injection H as <-. simpl. apply IH. reflexivity.
  Qed.

  Lemma index_of_none : forall c l, index_of eqb c l = None -> ~ In c l.
  Proof.
    induction l as [| x l IH]; intros H; simpl in H; [intros [] |].
    destruct (eqb_spec c x) as [-> | Hne]; [discriminate |].
    destruct (index_of eqb c l); [discriminate |].
    intros [E | Hin]; [congruence | exact (IH eq_refl Hin)].
  Qed.

  Lemma nodup_snoc : forall (l : list A) c, NoDup l -> ~ In c l -> NoDup (l ++ [c]).
  Proof.
    induction l as [| x l IH]; intros c Hn Hc; simpl.
    - constructor; [intros [] | constructor].
    - inversion Hn as [| ? ? Hx Hl]; subst. constructor.
      + rewrite in_app_iff. intros [H | [H | []]]; [contradiction | subst; apply Hc; left; reflexivity].
      + apply IH; [exact Hl | intro; apply Hc; right; assumption].
  Qed.

  Theorem intern1_spec : forall tbl c tbl' i, intern1 eqb tbl c = (tbl', i) ->
    (exists ext, tbl' = tbl ++ ext) /\ nth_error tbl' i = Some c /\ (NoDup tbl -> NoDup tbl').
  Proof.
    intros tbl c tbl' i H. unfold intern1 in H.
    destruct (index_of eqb c tbl) as [j |] eqn:E; injection H as <- <-.
    - split; [exists []; rewrite app_nil_r; reflexivity |]. split; [apply index_of_some; exact E | auto].
    - split; [exists [c]; reflexivity |]. split.
      + rewrite nth_error_app2 by lia. rewrite Nat.sub_diag. reflexivity.
      + intro Hn. apply nodup_snoc; [exact Hn | apply index_of_none; exact E].
  Qed.

  (** every index handed out names its colour in the final table (so it is below the number
      of colours defined), colours are never redefined, and the table has no duplicate *)
  Theorem intern_all_spec : forall cs tbl tbl' js, intern_all eqb tbl cs = (tbl', js) ->
    (exists ext, tbl' = tbl ++ ext) /\
    Forall2 (fun c j => nth_error tbl' j = Some c) cs js /\
    (NoDup tbl -> NoDup tbl').
  Proof.
    induction cs as [| c cs IH]; intros tbl tbl' js H; simpl in H.
    - injection H as <- <-. split; [exists []; rewrite app_nil_r; reflexivity |]. split; [constructor | auto].
    - destruct (intern1 eqb tbl c) as [t1 i] eqn:E1.
      destruct (intern_all eqb t1 cs) as [t2 js'] eqn:E2. injection H as <- <-.
      destruct (intern1_spec _ _ _ _ E1) as [[e1 ->] [Hi Hn1]].
      destruct (IH _ _ _ E2) as [[e2 ->] [Hf Hn2]].
      split; [exists (e1 ++ e2); rewrite app_assoc; reflexivity |]. split.
      + constructor; [| exact Hf]. rewrite nth_error_app1; [exact Hi |].
        apply nth_error_Some. rewrite Hi. discriminate.
      + auto.
  Qed.

  Corollary intern_index_bound : forall cs tbl' js, intern_all eqb [] cs = (tbl', js) ->
    Forall (fun j => j < length tbl') js.
  Proof.
    intros cs tbl' js H. destruct (intern_all_spec _ _ _ _ H) as [_ [Hf _]].
    clear H. induction Hf as [| c j cs js Hj _ IH]; [constructor |].
    constructor; [| exact IH]. apply nth_error_Some. rewrite Hj. discriminate.
  Qed.
End Intern.

Example intern_example :
  intern_all Nat.eqb [] [5; 7; 5; 9; 7] = ([5; 7; 9], [0; 1; 0; 2; 1]).
Proof. reflexivity. Qed.
