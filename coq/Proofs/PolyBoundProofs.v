(** C08, reader-facing form of the end-to-end clause: a solution returned by the extended solvers on
    an input with polytomies costs no more than ANY solution of ANY pair of binary refinements of the
    two trees (whatever the order in which the children of the refinements are written).

    [Proofs/PolyProofs.v] / [Proofs/PolyInvProofs.v] state this through the totalised quantities
    [spfs_binopt] / [uspfs_binopt] ("value returned by the binary solver, +inf if it failed") and
    [orders_of] ("root orders, none if the enumeration failed"); here the bound is over solutions,
    no totalised quantity occurs in the statements. *)
From Coq Require Import List Bool Arith ZArith NArith Permutation.
From SR Require Import Base.PathB Base.Ext Model.Entry Model.Recon Model.Spfs Model.Uspfs Model.Binarize Model.Poly
  Proofs.PathFacts Proofs.ReconProofs Proofs.ExhProofs Proofs.ThlProofs Proofs.BinarizeProofs
  Proofs.LabelCostProofs Proofs.SpfsProofs Proofs.SpfsFinal Proofs.UspfsProofs Proofs.UspfsFinal Proofs.PolyProofs Proofs.PolyInvProofs
  Proofs.FiniteCostProofs.
Import ListNotations.

(* [t] is a solution of the [i]-th enumerated refinement pair and costs no more than any solution
   of any pair of binary refinements *)
Definition ropt_all (ld : leafdata) (o s : rose) (solp : stree * otree -> ltree -> Prop)
    (costp : stree * otree -> ltree -> ext) (i : nat) (t : ltree) : Prop :=
  exists p, refinement_input ld o s i p /\ solp p t /\
    forall ob' sb' p' t', refines o ob' -> refines s sb' -> pair_input ld (ob', sb') = Some p' ->
      solp p' t' -> ele (costp p t) (costp p' t').

Lemma ropt_all_ropt ld o s solp costp i t : ropt_all ld o s solp costp i t -> ropt ld o s solp costp i t.
Proof.
  intros [p [R [Sp Opt]]]. exists p. split; auto. split; auto.
  intros j q t' [ob [sb [_ [Ro [Rs Eq]]]]] Sq. eapply Opt; eauto.
Qed.

Section Bound.
  Variables (c : costs) (ld : leafdata) (o s : rose).
  Hypothesis Hh : nn (c_hgt c).
  Hypothesis Hnames : NoDup (names (rlabels s)).

  Lemma enumerated_is_refinement_input j ob sb q :
    nth_error (input_binarize o s) j = Some (ob, sb) -> pair_input ld (ob, sb) = Some q ->
    refinement_input ld o s j q.
  Proof.
    intros Hj Eq. exists ob, sb. pose proof (nth_error_In _ _ Hj) as I.
    apply in_input_binarize in I as [Io Is]. repeat split; auto; now apply binarize_refines.
  Qed.

  (** ordered *)
  Lemma spfs_solution_bound x ob' sb' p' t' : coherent_ord c -> poly_wf nonempty_syn ld o s ->
    refines o ob' -> refines s sb' -> pair_input ld (ob', sb') = Some p' -> spfs_solp true p' t' ->
    (forall j q t, refinement_input ld o s j q -> spfs_solp true q t -> ele x (spfs_costp c q t)) ->
    ele x (spfs_costp c p' t').
  Proof.
    intros Hc W Ro Rs E' S' Hx.
    destruct (enumerated_representative ld o s Hnames nonempty_syn ob' sb' p' W Ro Rs E')
      as [j [ob [sb [q [po [ps [Hj [Eq [U [-> ->]]]]]]]]]].
    destruct (spfs_binopt_bflip c ld Hh po ps ob sb q Hc U Eq) as [q' [Eq' Eb]].
    rewrite E' in Eq'. injection Eq' as <-.
    destruct (pair_input_ok nonempty_syn ld o s (ob, sb) W (nth_error_In _ _ Hj)) as [q0 [Eq0 Wq]].
    rewrite Eq in Eq0. injection Eq0 as <-. apply oforall_wf in Wq.
    destruct (spfs_is_inf c true q Hh Hc Wq) as [_ At].
    (* the bound of the arbitrary pair *)
    assert (ele (spfs_binopt c RALL true p') (spfs_costp c p' t')) as LB'.
    { pose proof (pair_input_leaves_ok ld _ p' E') as L'.
      destruct (leaves_wf_or_empty (fst p') (snd p') L') as [W'|Em].
      - exact (proj1 (spfs_is_inf c true p' Hh Hc W') t' S').
      - exfalso. destruct S' as [ord [Io _]]. rewrite (orders_of_empty_syn _ Em) in Io. destruct Io. }
    rewrite Eb in LB'. destruct At as [Einf|[t [St Ct]]].
    - rewrite Einf in LB'. apply ele_PInf_inv in LB'. rewrite LB'. apply ele_PInf.
    - eapply ele_trans; [|exact LB']. rewrite <- Ct.
      apply (Hx j q t); auto. now apply (enumerated_is_refinement_input j ob sb).
  Qed.

  Theorem ropt_ropt_all_ordered i t : coherent_ord c -> poly_wf nonempty_syn ld o s ->
    (ropt ld o s (spfs_solp true) (spfs_costp c) i t <-> ropt_all ld o s (spfs_solp true) (spfs_costp c) i t).
  Proof.
    intros Hc W. split; [|apply ropt_all_ropt].
    intros [p [R [Sp Opt]]]. exists p. split; auto. split; auto.
    intros ob' sb' p' t' Ro Rs E' S'. apply (spfs_solution_bound _ ob' sb' p' t' Hc W Ro Rs E' S'). exact Opt.
  Qed.

  (** unordered *)
  Lemma uspfs_solution_bound x ob' sb' p' t' : ucoherent c -> poly_wf any_syn ld o s ->
    refines o ob' -> refines s sb' -> pair_input ld (ob', sb') = Some p' -> uspfs_solp true p' t' ->
    (forall j q t, refinement_input ld o s j q -> uspfs_solp true q t -> ele x (uspfs_costp c q t)) ->
    ele x (uspfs_costp c p' t').
  Proof.
    intros Hc W Ro Rs E' S' Hx.
    destruct (enumerated_representative ld o s Hnames any_syn ob' sb' p' W Ro Rs E')
      as [j [ob [sb [q [po [ps [Hj [Eq [U [-> ->]]]]]]]]]].
    destruct (uspfs_binopt_bflip c ld Hh po ps ob sb q Hc U Eq) as [q' [Eq' Eb]].
    rewrite E' in Eq'. injection Eq' as <-.
    destruct (uspfs_is_inf c true q Hh Hc (pair_input_leaves_ok ld _ q Eq)) as [_ At].
    pose proof (proj1 (uspfs_is_inf c true p' Hh Hc (pair_input_leaves_ok ld _ p' E')) t' S') as LB'.
    rewrite Eb in LB'. destruct At as [Einf|[t [St Ct]]].
    - rewrite Einf in LB'. apply ele_PInf_inv in LB'. rewrite LB'. apply ele_PInf.
    - eapply ele_trans; [|exact LB']. rewrite <- Ct.
      apply (Hx j q t); auto. now apply (enumerated_is_refinement_input j ob sb).
  Qed.

  Theorem ropt_ropt_all_unordered i t : ucoherent c -> poly_wf any_syn ld o s ->
    (ropt ld o s (uspfs_solp true) (uspfs_costp c) i t <-> ropt_all ld o s (uspfs_solp true) (uspfs_costp c) i t).
  Proof.
    intros Hc W. split; [|apply ropt_all_ropt].
    intros [p [R [Sp Opt]]]. exists p. split; auto. split; auto.
    intros ob' sb' p' t' Ro Rs E' S'. apply (uspfs_solution_bound _ ob' sb' p' t' Hc W Ro Rs E' S'). exact Opt.
  Qed.

  (** the solver-level statements *)
  Theorem ext_all_refinements_solutions_ordered : coherent_ord c -> poly_wf nonempty_syn ld o s ->
    exists e, spfs_poly c RALL ld o s = Some e /\ NoDup (tags e) /\
      forall i lt, In (i, lt) (tags e) <-> ropt_all ld o s (spfs_solp true) (spfs_costp c) i lt.
  Proof.
    intros Hc W. destruct (ext_optimum_refinements c ld o s Hh Hc W) as [e [He [ND [Ex _]]]].
    exists e. split; auto. split; auto. intros i lt. rewrite (Ex i lt). now apply ropt_ropt_all_ordered.
  Qed.

  Theorem ext_all_refinements_solutions_ordered_any : coherent_ord c -> poly_wf nonempty_syn ld o s ->
    exists e, spfs_poly c RANY ld o s = Some e /\
      ((tags e = [] /\ forall ob' sb' p' lt, refines o ob' -> refines s sb' ->
                         pair_input ld (ob', sb') = Some p' -> ~ spfs_solp true p' lt) \/
       (exists i lt, tags e = [(i, lt)] /\ ropt_all ld o s (spfs_solp true) (spfs_costp c) i lt)).
  Proof.
    intros Hc W. destruct (ext_optimum_refinements_any c ld o s Hh Hc W) as [e [He [[Et No]|[i [lt [Et R]]]]]];
      exists e; (split; [exact He|]).
    - left. split; auto. intros ob' sb' p' lt Ro Rs E' S'.
      (* a solution of an arbitrary pair would give a finite-or-not bound; use the representative *)
      destruct (enumerated_representative ld o s Hnames nonempty_syn ob' sb' p' W Ro Rs E')
        as [j [ob [sb [q [po [ps [Hj [Eq [U [-> ->]]]]]]]]]].
      pose proof (enumerated_is_refinement_input j ob sb q Hj Eq) as Rq.
      destruct (pair_input_ok nonempty_syn ld o s (ob, sb) W (nth_error_In _ _ Hj)) as [q0 [Eq0 Wq]].
      rewrite Eq in Eq0. injection Eq0 as <-. apply oforall_wf in Wq.
      (* the enumerated pair has a compatible root order iff the flipped one has *)
      pose proof (pair_input_bflip ld po ps ob sb q U Eq) as Ef. rewrite E' in Ef. injection Ef as ->.
      destruct S' as [ord [Io [V M]]]. cbn [fst snd] in *.
      rewrite orders_of_omap in Io.
      apply (orders_of_oflip (fst q) po (snd q) Wq) in Io.
      destruct (root_orders_ok (fst q) (snd q) _ Wq (pair_orders q Wq)) as [HO Fit].
      destruct (root_candidate (fst q) c true (orders_of (snd q)) (snd q) Hh HO RANY ltac:(discriminate) ord Io (Fit ord Io))
        as [x [v [Ic _]]].
      destruct (candidate_sol (fst q) c true (orders_of (snd q)) (snd q) Hh HO RANY v x Ic) as [Sx _].
      exact (No j q x Rq Sx).
    - right. exists i, lt. split; auto. now apply ropt_ropt_all_ordered.
  Qed.

  Theorem ext_all_refinements_solutions_unordered : ucoherent c -> poly_wf any_syn ld o s ->
    exists e, uspfs_poly c RALL ld o s = Some e /\ NoDup (tags e) /\
      forall i t, In (i, t) (tags e) <-> ropt_all ld o s (uspfs_solp true) (uspfs_costp c) i t.
  Proof.
    intros Hc W. destruct (ext_optimum_refinements_unordered c ld o s Hh Hc W) as [e [He [ND [Ex _]]]].
    exists e. split; auto. split; auto. intros i t. rewrite (Ex i t). now apply ropt_ropt_all_unordered.
  Qed.

  Theorem ext_all_refinements_solutions_unordered_any : ucoherent c -> poly_wf any_syn ld o s ->
    exists e i t, uspfs_poly c RANY ld o s = Some e /\ tags e = [(i, t)] /\
      ropt_all ld o s (uspfs_solp true) (uspfs_costp c) i t.
  Proof.
    intros Hc W. destruct (ext_optimum_refinements_unordered_any c ld o s Hh Hc W) as [e [i [t [He [Et R]]]]].
    exists e, i, t. split; auto. split; auto. now apply ropt_ropt_all_unordered.
  Qed.
End Bound.

(** * C04 on inputs with polytomies: every returned solution is a valid solution of the pair of binary
    refinements it refers to, the evaluator does not fail on it, and its cost is finite and is the value
    of the result -- any policy, any unit costs (no coherence hypothesis) *)
Section PolyValid.
  Variables (c : costs) (ld : leafdata) (o s : rose).
  Hypothesis Hh : nn (c_hgt c).

  Theorem poly_solutions_valid_ordered rp e i lt : poly_wf nonempty_syn ld o s ->
    spfs_poly c rp ld o s = Some e -> In (i, lt) (tags e) ->
    exists ob sb p ord, tag_pair o s (i, lt) = Some (ob, sb) /\ refines o ob /\ refines s sb /\
      pair_input ld (ob, sb) = Some p /\ Spfs.root_orders (snd p) <> None /\ In ord (orders_of (snd p)) /\
      valid_ordered (fst p) ord (snd p) lt /\
      exists z, total_cost c (snd p) true lt = Some (Fin z) /\ val e = Fin z.
  Proof.
    intros W. destruct (poly_inputs_ok nonempty_syn ld o s W) as [inputs [Ei [F Hw]]].
    assert (family_wf inputs) as Wf by (intros p Ip; apply oforall_wf; exact (Hw p Ip)).
    pose proof (refinement_input_iff ld o s inputs F) as R.
    unfold spfs_poly. rewrite Ei, (spfs_family_run c true inputs Hh Wf rp). intros [= <-] Ht.
    apply (upd_tags_sound ptag_eqb ptag_eqb_spec) in Ht. apply in_family_cands in Ht as [p [Hp Hc']].
    pose proof (nth_error_In _ _ Hp) as Ip. pose proof (Wf p Ip) as Wp.
    apply (proj2 (spfs_cands_spec c true p Hh Wp rp)) in Hc'.
    pose proof (pair_orders_ok p Wp) as HO.
    destruct (candidate_sound (fst p) c rp true (orders_of (snd p)) (snd p) Hh HO _ Hc')
      as [ord [sp [t [v [E [Io [_ [Id [Tc [V _]]]]]]]]]].
    inversion E; subst. clear E.
    destruct (HO ord Io) as [_ L].
    destruct (sdecode_finite (fst p) c rp true ord Hh (snd p) L true _ _ Id) as [z Ez].
    apply R in Hp as [ob [sb [Hn [Ro [Rs Epi]]]]]. exists ob, sb, p, ord. unfold tag_pair. cbn [fst].
    repeat (split; [assumption|]). split; [rewrite (pair_orders p Wp); discriminate|].
    split; [assumption|]. split; [assumption|].
    unfold total_cost in Tc |- *. rewrite Ez in Tc |- *.
    destruct (labeling_cost c true _) as [k|]; [|discriminate]. cbn [option_map ext_add] in Tc |- *.
    exists (z + k)%Z. split; [reflexivity|]. inversion Tc as [Ev]. symmetry. exact Ev.
  Qed.

  Theorem poly_solutions_valid_unordered rp e i t : poly_wf any_syn ld o s ->
    uspfs_poly c rp ld o s = Some e -> In (i, t) (tags e) ->
    exists ob sb p, tag_pair o s (i, t) = Some (ob, sb) /\ refines o ob /\ refines s sb /\
      pair_input ld (ob, sb) = Some p /\ uvalid (fst p) (snd p) t /\
      exists z, total_cost c (snd p) false t = Some (Fin z) /\ val e = Fin z.
  Proof.
    intros W. destruct (poly_inputs_ok any_syn ld o s W) as [inputs [Ei [F Hw]]].
    pose proof (wf_family any_syn inputs Hw) as Wf.
    pose proof (refinement_input_iff ld o s inputs F) as R.
    unfold uspfs_poly. rewrite Ei, (uspfs_family_run c true inputs Hh Wf rp). intros [= <-] Ht.
    apply (upd_tags_sound ptag_eqb ptag_eqb_spec) in Ht. apply in_family_cands in Ht as [p [Hp Hc']].
    pose proof (nth_error_In _ _ Hp) as Ip. pose proof (Wf p Ip) as Lp.
    rewrite (uspfs_pcands_eq c true p Hh Lp rp) in Hc'.
    apply in_uspfs_cands in Hc' as [sp [_ [It Ev]]].
    pose proof (udecode_root_valid (fst p) c rp true (snd p) Hh Lp sp t It) as [V _].
    rewrite udecode_root_anc in It.
    destruct (udecode_finite (fst p) c rp true (ototal (snd p)) Hh (snd p) Lp (ototal_bounded (snd p)) []
                (sp, false) t (root_covers (snd p) []) It) as [z Ez].
    apply R in Hp as [ob [sb [Hn [Ro [Rs Epi]]]]]. exists ob, sb, p. unfold tag_pair. cbn [fst].
    repeat (split; [assumption|]).
    exists (z + c_sloss c * ulab_spec t)%Z.
    assert (ucost c (snd p) t = Fin (z + c_sloss c * ulab_spec t)) as Eu by (unfold ucost; rewrite Ez; reflexivity).
    split; [rewrite (total_cost_events c (snd p) t (uvalid_events (fst p) _ (snd p) [] t V)), Eu; reflexivity|].
    rewrite <- Eu. exact Ev.
  Qed.
End PolyValid.

(** * the totalisation defaults of [orders_of], [spfs_binopt], [uspfs_binopt], [pair_opt] are never
    taken on a pair of binary refinements of a well-formed input *)
Theorem refinement_pair_defined_ordered c rp ld o s ob' sb' : nn (c_hgt c) -> poly_wf nonempty_syn ld o s ->
  NoDup (names (rlabels s)) -> refines o ob' -> refines s sb' ->
  (* enumerated pairs always convert; an arbitrary pair is asked to (names are looked up) *)
  forall p', pair_input ld (ob', sb') = Some p' ->
  exists orders e, Spfs.root_orders (snd p') = Some orders /\ orders_of (snd p') = orders /\
    spfs (fst p') c rp true orders (snd p') = Some e /\ spfs_binopt c rp true p' = val e /\
    pair_opt ld (spfs_binopt c rp true) (ob', sb') = val e.
Proof.
  intros Hh W Hn Ro Rs p' E'.
  destruct (enumerated_representative ld o s Hn nonempty_syn ob' sb' p' W Ro Rs E')
    as [j [ob [sb [q [po [ps [Hj [Eq [U [-> ->]]]]]]]]]].
  destruct (pair_input_ok nonempty_syn ld o s (ob, sb) W (nth_error_In _ _ Hj)) as [q0 [Eq0 Wq]].
  rewrite Eq in Eq0. injection Eq0 as <-. apply oforall_wf in Wq.
  pose proof (pair_input_bflip ld po ps ob sb q U Eq) as Ef. rewrite E' in Ef. injection Ef as ->.
  assert (leaves_wf (fst (MetaProofs.sflip (f_of ps) [] (fst q), MetaProofs.omap (MetaProofs.phi (f_of ps)) (MetaProofs.oflip po (snd q))))
                    (snd (MetaProofs.sflip (f_of ps) [] (fst q), MetaProofs.omap (MetaProofs.phi (f_of ps)) (MetaProofs.oflip po (snd q))))) as W'.
  { cbn [fst snd]. apply leaves_wf_omap. now apply leaves_wf_oflip. }
  set (p' := (MetaProofs.sflip (f_of ps) [] (fst q), MetaProofs.omap (MetaProofs.phi (f_of ps)) (MetaProofs.oflip po (snd q)))) in *.
  exists (orders_of (snd p')). eexists. split; [exact (pair_orders p' W')|]. split; [reflexivity|].
  split; [exact (spfs_binary c true p' Hh W' rp)|].
  assert (spfs_binopt c rp true p' = val (update Spfs.ltree_eqb MIN rp (default_entry MIN) (spfs_cands c rp true p'))) as Eb.
  { unfold spfs_binopt. now rewrite (spfs_binary c true p' Hh W' rp). }
  split; [exact Eb|]. unfold pair_opt. now rewrite E'.
Qed.

Theorem enumerated_pair_defined o s ld Q pr : poly_wf Q ld o s -> In pr (input_binarize o s) ->
  exists p, pair_input ld pr = Some p.
Proof. intros W I. destruct (pair_input_ok Q ld o s pr W I) as [p [E _]]. eauto. Qed.

Theorem refinement_pair_defined_unordered c rp ld ob' sb' p' : nn (c_hgt c) ->
  pair_input ld (ob', sb') = Some p' ->
  exists E, uspfs (fst p') c rp true (snd p') = Some E /\ uspfs_binopt c rp true p' = val E /\
    pair_opt ld (uspfs_binopt c rp true) (ob', sb') = val E.
Proof.
  intros Hh E'. pose proof (pair_input_leaves_ok ld _ p' E') as L.
  eexists. split; [exact (uspfs_some (fst p') c rp true (snd p') Hh L)|].
  assert (uspfs_binopt c rp true p' = val (update Uspfs.ltree_eqb MIN rp (default_entry MIN) (uspfs_cands (fst p') c rp true (snd p')))) as Eb.
  { unfold uspfs_binopt. now rewrite (uspfs_some (fst p') c rp true (snd p') Hh L). }
  split; [exact Eb|]. unfold pair_opt. now rewrite E'.
Qed.

Print Assumptions ext_all_refinements_solutions_ordered.
Print Assumptions ext_all_refinements_solutions_ordered_any.
Print Assumptions ext_all_refinements_solutions_unordered.
Print Assumptions ext_all_refinements_solutions_unordered_any.
Print Assumptions poly_solutions_valid_ordered.
Print Assumptions poly_solutions_valid_unordered.
Print Assumptions refinement_pair_defined_ordered.
Print Assumptions enumerated_pair_defined.
Print Assumptions refinement_pair_defined_unordered.
