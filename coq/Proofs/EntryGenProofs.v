(** The functions of [Gen/EntryGen.v] -- generated from
    [src/superrec2/utils/dynamic_programming.py] by [translator/entry_gen.py] -- are equal to the
    hand-written model [Model/Entry.v], for all states (any history), all policies and all
    arguments.

    The generated object [G.entry_state A] holds the value, the tag set (a duplicate-free list in
    insertion order, as in the model) and the two policies; the model keeps an [entry A] (value
    and tags) and receives the policies as arguments.  [ent] forgets the policies, [mk] puts them
    back ([mk_ent], [ent_mk]: no information is lost); [cmp]/[crp] map the generated enums to
    the model's [merge]/[ret] (bijections: [cmp_pmc], [pmc_cmp], [crp_prc], [prc_crp]); [ccand]
    maps a generated [Candidate] to the model's pair (value, optional tag).  No generated
    function of this file can fail: every theorem has the form [G.f .. = G.Ok ..].

    Python fixes no iteration order for a set.  [update] never iterates one, so its theorem is a
    plain equality.  [combine] iterates [product(self._infos, other.infos())]: generated code and
    model both enumerate the two tag lists in list order, and [gen_entry_combine_eq] holds for
    all states, hence for every enumeration order of the two sets (instantiate the states with
    the lists in that order); [Proofs/EntryProofs.v] ([combine_opt], [combine_tags_all])
    characterises the result independently of the order. *)
From Coq Require Import List Bool ZArith Lia.
From SR Require Import Base.Ext Model.Entry Proofs.EntryProofs.
From SR Require Gen.EntryGen.
Import ListNotations.
Module G := SR.Gen.EntryGen.

(* ------------------------------------------------------------------ *)
(** * Conversions *)

Definition cmp (m : G.MergePolicy) : merge :=
  match m with G.MergePolicy_MIN => MIN | G.MergePolicy_MAX => MAX end.
Definition pmc (m : merge) : G.MergePolicy :=
  match m with MIN => G.MergePolicy_MIN | MAX => G.MergePolicy_MAX end.
Definition crp (r : G.RetentionPolicy) : ret :=
  match r with
  | G.RetentionPolicy_NONE => RNONE | G.RetentionPolicy_ANY => RANY | G.RetentionPolicy_ALL => RALL
  end.
Definition prc (r : ret) : G.RetentionPolicy :=
  match r with
  | RNONE => G.RetentionPolicy_NONE | RANY => G.RetentionPolicy_ANY | RALL => G.RetentionPolicy_ALL
  end.

Lemma cmp_pmc m : cmp (pmc m) = m.  Proof. destruct m; reflexivity. Qed.
Lemma pmc_cmp m : pmc (cmp m) = m.  Proof. destruct m; reflexivity. Qed.
Lemma crp_prc r : crp (prc r) = r.  Proof. destruct r; reflexivity. Qed.
Lemma prc_crp r : prc (crp r) = r.  Proof. destruct r; reflexivity. Qed.

Section Conv.
  Context {A : Type}.

  Definition ent (s : G.entry_state A) : entry A :=
    {| val := G.entry__value s; tags := G.entry__infos s |}.
  Definition mk (mp : G.MergePolicy) (rp : G.RetentionPolicy) (e : entry A) : G.entry_state A :=
    G.mk_entry (val e) (tags e) mp rp.
  Definition ccand (c : G.Candidate A) : ext * option A := (G.Candidate_value c, G.Candidate_info c).
  Definition dnacc (c : ext * option A) : G.Candidate A := G.mk_Candidate (fst c) (snd c).

  Lemma ent_mk mp rp e : ent (mk mp rp e) = e.
  Proof. destruct e; reflexivity. Qed.
  Lemma mk_ent s : mk (G.entry__merge_policy s) (G.entry__retention_policy s) (ent s) = s.
  Proof. destruct s; reflexivity. Qed.
  Lemma ccand_dnacc c : ccand (dnacc c) = c.
  Proof. destruct c; reflexivity. Qed.
  Lemma dnacc_ccand c : dnacc (ccand c) = c.
  Proof. destruct c; reflexivity. Qed.
  Lemma map_ccand_dnacc cs : map ccand (map dnacc cs) = cs.
  Proof. induction cs as [|c cs IH]; cbn [map]; [reflexivity|]. now rewrite IH, ccand_dnacc. Qed.
End Conv.

(* ------------------------------------------------------------------ *)
(** * The constructor, the getters, [update] *)

Section Tie.
  Context {A : Type} (eqb : A -> A -> bool).

  (** [Entry(merge_policy, retention_policy)]: the default entry of the model *)
  Theorem gen_entry_default_eq (mp : G.MergePolicy) (rp : G.RetentionPolicy) :
    G.gen_entry_init mp rp = G.Ok (mk mp rp (@default_entry A (cmp mp))).
  Proof. destruct mp; reflexivity. Qed.

  Theorem gen_entry_is_infinite_eq (s : G.entry_state A) :
    G.gen_entry_is_infinite s = G.Ok (s, ext_is_inf (val (ent s))).
  Proof. destruct s; reflexivity. Qed.

  Theorem gen_entry_value_eq (s : G.entry_state A) : G.gen_entry_value s = G.Ok (s, val (ent s)).
  Proof. destruct s; reflexivity. Qed.

  Theorem gen_entry_infos_eq (s : G.entry_state A) : G.gen_entry_infos s = G.Ok (s, tags (ent s)).
  Proof. destruct s; reflexivity. Qed.

  (** the set operations *)
  Lemma set_mem_eq x l : G.set_mem eqb x l = mem eqb x l.
  Proof. induction l as [|y l IH]; cbn; [reflexivity|]. now rewrite IH. Qed.

  Lemma set_add_eq x l : G.set_add eqb x l = add_tag eqb x l.
  Proof. unfold G.set_add, add_tag. now rewrite set_mem_eq. Qed.

  (** the four flags computed at the start of [update] *)
  Definition loop mp rp :=
    G.gen_entry_update_for1 eqb (G.MergePolicy_eqb mp G.MergePolicy_MIN) (G.MergePolicy_eqb mp G.MergePolicy_MAX)
      (G.RetentionPolicy_eqb rp G.RetentionPolicy_ANY) (G.RetentionPolicy_eqb rp G.RetentionPolicy_ALL).

  (** one iteration of the loop = [update1] of the model *)
  Lemma update_step mp rp c cs v l :
    loop mp rp (c :: cs) v l =
      loop mp rp cs (val (update1 eqb (cmp mp) (crp rp) {| val := v; tags := l |} (ccand c)))
                    (tags (update1 eqb (cmp mp) (crp rp) {| val := v; tags := l |} (ccand c))).
  Proof.
    destruct c as [cv ci]. unfold loop, ccand, Entry.update1.
    cbn [G.gen_entry_update_for1 G.Candidate_value G.Candidate_info val tags].
    (* whichever way round the source writes the equality test *)
    assert (Hs : ext_eqb cv v = ext_eqb v cv) by (destruct cv, v; cbn; try reflexivity; apply Z.eqb_sym).
    rewrite ?Hs. clear Hs.
    destruct (ext_eqb v cv) eqn:E.
    - apply ext_eqb_eq in E. subst cv.
      destruct mp, rp, ci as [t|]; cbn; rewrite ?ext_ltb_irrefl; cbn; rewrite ?set_add_eq; try reflexivity;
        destruct l; cbn; rewrite ?ext_ltb_irrefl; reflexivity.
    - destruct mp, rp, ci as [t|]; cbn; rewrite ?E;
        destruct (ext_ltb cv v) eqn:L1; destruct (ext_ltb v cv) eqn:L2; cbn; rewrite ?L1, ?L2; reflexivity.
  Qed.

  Lemma update_loop mp rp cs : forall v l,
    loop mp rp cs v l =
      G.Next (val (update eqb (cmp mp) (crp rp) {| val := v; tags := l |} (map ccand cs)),
              tags (update eqb (cmp mp) (crp rp) {| val := v; tags := l |} (map ccand cs))).
  Proof.
    induction cs as [|c cs IH]; intros v l; [reflexivity|].
    rewrite update_step, IH. unfold update. cbn [map fold_left].
    destruct (update1 eqb (cmp mp) (crp rp) {| val := v; tags := l |} (ccand c)); reflexivity.
  Qed.

  (** [update] of any list of candidates on any entry (any history), any policies, any candidates *)
  Theorem gen_entry_update_eq (s : G.entry_state A) (cs : list (G.Candidate A)) :
    G.gen_entry_update eqb s cs =
      G.Ok (mk (G.entry__merge_policy s) (G.entry__retention_policy s)
               (update eqb (cmp (G.entry__merge_policy s)) (crp (G.entry__retention_policy s)) (ent s) (map ccand cs)),
            tt).
  Proof.
    destruct s as [v l mp rp]. unfold G.gen_entry_update.
    change (G.gen_entry_update_for1 eqb _ _ _ _ cs v l) with (loop mp rp cs v l).
    rewrite update_loop. reflexivity.
  Qed.

  (* the same, from the model's side *)
  Corollary gen_entry_update_mk mp rp (e : entry A) cs :
    G.gen_entry_update eqb (mk mp rp e) cs = G.Ok (mk mp rp (update eqb (cmp mp) (crp rp) e (map ccand cs)), tt).
  Proof. rewrite gen_entry_update_eq. cbn [mk G.entry__merge_policy G.entry__retention_policy]. now rewrite ent_mk. Qed.

  (** a whole history: the constructor, then any batches of candidates, is the model's history *)
  Fixpoint run (s : G.entry_state A) (bs : list (list (G.Candidate A))) : G.res (G.entry_state A) :=
    match bs with
    | [] => G.Ok s
    | b :: bs' => match G.gen_entry_update eqb s b with G.Ok (s', _) => run s' bs' | G.Err e => G.Err e end
    end.

  Lemma run_mk mp rp bs : forall e,
    run (mk mp rp e) bs = G.Ok (mk mp rp (fold_left (fun e b => update eqb (cmp mp) (crp rp) e (map ccand b)) bs e)).
  Proof.
    induction bs as [|b bs IH]; intros e; cbn [run fold_left]; [reflexivity|].
    rewrite gen_entry_update_mk. apply IH.
  Qed.

  Theorem gen_entry_history_eq mp rp bs :
    match G.gen_entry_init mp rp with G.Ok s => run s bs | G.Err e => G.Err e end =
      G.Ok (mk mp rp (update eqb (cmp mp) (crp rp) (default_entry (cmp mp)) (map ccand (concat bs)))).
  Proof.
    rewrite gen_entry_default_eq, run_mk. do 2 f_equal.
    assert (H : map ccand (concat bs) = concat (map (map (@ccand A)) bs)).
    { clear. induction bs as [|b bs IH]; cbn [concat map]; [reflexivity|]. now rewrite map_app, IH. }
    rewrite H, <- (update_batches eqb).
    generalize (@default_entry A (cmp mp)). clear H.
    induction bs as [|b bs IH]; intros e; cbn [fold_left map]; [reflexivity|]. apply IH.
  Qed.
End Tie.

(* ------------------------------------------------------------------ *)
(** * [combine] *)

Section TieCombine.
  Context {A U : Type} (eqb2 : U -> U -> bool).
  Variable combinator : G.Candidate A -> G.Candidate A -> G.Candidate U.

  (** what the model's [combine] receives for a pair of tags: the combinator applied to the two
      candidates built from the (fixed) values of the two entries *)
  Definition comb_f (v1 v2 : ext) (a b : A) : ext * option U :=
    ccand (combinator (G.mk_Candidate v1 (Some a)) (G.mk_Candidate v2 (Some b))).

  Lemma combine_inner mp rp (o : G.entry_state A) v a ys : forall e,
    G.gen_entry_combine_for1_in eqb2 o combinator v a ys (mk mp rp e) =
      G.Next (mk mp rp (update eqb2 (cmp mp) (crp rp) e (map (comb_f v (val (ent o)) a) ys))).
  Proof.
    induction ys as [|b ys IH]; intros e; [reflexivity|].
    cbn [G.gen_entry_combine_for1_in]. rewrite gen_entry_value_eq, gen_entry_update_mk, IH. reflexivity.
  Qed.

  Lemma combine_outer mp rp (o : G.entry_state A) v ys xs : forall e,
    G.gen_entry_combine_for1 eqb2 o combinator v xs ys (mk mp rp e) =
      G.Next (mk mp rp (update eqb2 (cmp mp) (crp rp) e
                          (flat_map (fun a => map (comb_f v (val (ent o)) a) ys) xs))).
  Proof.
    induction xs as [|a xs IH]; intros e; [reflexivity|].
    cbn [G.gen_entry_combine_for1 flat_map]. rewrite combine_inner, IH.
    unfold update. now rewrite fold_left_app.
  Qed.

  (** [self.combine(other, combinator)] for any two entries: [self] is unchanged, the result carries
      the policies of [self] and is the model's [combine] of the two entries *)
  Theorem gen_entry_combine_eq (s o : G.entry_state A) :
    G.gen_entry_combine eqb2 s o combinator =
      G.Ok (s, mk (G.entry__merge_policy s) (G.entry__retention_policy s)
                  (combine eqb2 (cmp (G.entry__merge_policy s)) (crp (G.entry__retention_policy s))
                           (ent s) (ent o) (comb_f (val (ent s)) (val (ent o))))).
  Proof.
    destruct s as [v l mp rp]. unfold G.gen_entry_combine.
    rewrite gen_entry_default_eq, gen_entry_infos_eq, combine_outer. reflexivity.
  Qed.
End TieCombine.

(* non-vacuity: the example history of [Properties/C16.v], run through the generated code *)
Example gen_entry_example :
  exists s s',
    G.gen_entry_init G.MergePolicy_MIN G.RetentionPolicy_ALL = G.Ok s /\
    G.gen_entry_update Nat.eqb s
      (map dnacc [(Fin 2, Some 1%nat); (Fin 1, Some 2%nat); (Fin 1, None); (Fin 1, Some 3%nat); (Fin 5, Some 4%nat)])
      = G.Ok (s', tt) /\
    G.entry__value s' = Fin 1 /\ G.entry__infos s' = [2%nat; 3%nat].
Proof. eexists. eexists. repeat split. Qed.

Print Assumptions gen_entry_default_eq.
Print Assumptions gen_entry_is_infinite_eq.
Print Assumptions gen_entry_value_eq.
Print Assumptions gen_entry_infos_eq.
Print Assumptions gen_entry_update_eq.
Print Assumptions gen_entry_history_eq.
Print Assumptions gen_entry_combine_eq.
