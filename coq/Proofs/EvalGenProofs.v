(** The functions of [Gen/EvalGen.v] -- generated from
    [src/superrec2/model/reconciliation.py] by [translator/eval_gen.py] -- instantiated at root
    paths, are equal to the hand-written evaluator model [Model/Recon.v], for all object trees,
    all mappings, all syntenies and all cost vectors.

    Representation.  The generated code walks an inductive [G.TreeNode node_id]: a leaf or a node
    with two subtrees, each carrying an identifier (the identity of the Python node object; any
    type).  The dictionaries keyed by nodes ([object_species], [leaf_object_species],
    [syntenies]) are functions on identifiers; the theorems quantify over all such functions,
    so over all mappings (two nodes may even share an identifier).  [rtree_of], [otree_of],
    [ltree_of] read a tree of identifiers and the dictionaries as the model's structural trees
    (a species, resp. a species and a synteny, at every node).  The cost dictionary is the record
    [G.CostValues], in bijection with the model's [costs] ([ccosts], [stsocc]).  The species LCA
    object is a value of an arbitrary type [lca]; its five operations, arguments of the generated
    Section, are instantiated with the path operations of [Model/Recon.v]: [is_ancestor_of] :=
    [anc] (prefix), [is_strict_ancestor_of] := [sanc], [is_comparable] := [comparable],
    [species_lca(a, b)] := [lcp], [distance] := [dist] (that the implementation's LCA structure
    computes these is property C17).

    Errors.  With total dictionaries no KeyError can arise from them; the theorems show that the
    generated [ValueError] (unpacking the children of a leaf), [KeyError] (the local dictionary
    [masks]) and [AssertionError] of [_cost_rec] never come out, and that the labelling costs
    answer [AssertionError] exactly when the model answers [None] (a node with an invalid event).

    [gen_unordered_labeling_cost_eq] and what rests on it assume [0 <= sloss]: at a duplication
    with exactly one lossy child the code charges [min(0, sloss)], the model [sloss * min(0, 1)]
    ([negative_sloss_differs]: they differ for a negative unit cost, which no property allows). *)
From Coq Require Import List Bool ZArith NArith Lia.
From SR Require Import Base.PathB Base.Ext Model.Subseq Model.Recon Proofs.PathFacts.
From SR Require Gen.EvalGen Gen.SubseqGen Proofs.SubseqGenProofs.
Import ListNotations.
Local Open Scope Z_scope.
Module G := SR.Gen.EvalGen.

(* ------------------------------------------------------------------ *)
(** * Conversions *)

Definition ccosts (c : G.CostValues) : costs :=
  {| c_spe := G.CostValues_SPECIATION c; c_dup := G.CostValues_DUPLICATION c;
     c_hgt := G.CostValues_HORIZONTAL_TRANSFER c; c_floss := G.CostValues_FULL_LOSS c;
     c_sloss := G.CostValues_SEGMENTAL_LOSS c |}.
Definition stsocc (c : costs) : G.CostValues :=
  G.mk_CostValues (c_spe c) (c_dup c) (c_hgt c) (c_floss c) (c_sloss c).
Lemma ccosts_stsocc c : ccosts (stsocc c) = c.  Proof. destruct c; reflexivity. Qed.
Lemma stsocc_ccosts c : stsocc (ccosts c) = c.  Proof. destruct c; reflexivity. Qed.

(** the model's event kinds seen as [NodeEvent]s (the model splits transfers by conserved child) *)
Definition ne_of (e : ev) : G.NodeEvent :=
  match e with
  | Spe => G.NodeEvent_SPECIATION | Dup => G.NodeEvent_DUPLICATION
  | TrL | TrR => G.NodeEvent_HORIZONTAL_TRANSFER | Inv => G.NodeEvent_INVALID
  end.

(* sums of extended numbers: the code adds [unit cost + left + right + losses] in some order, the model
   [(unit cost + losses) + (left + right)]; whatever the order, the two agree (case analysis on the
   infinite summands, [ring] on the finite ones) *)
Lemma path_eqb_sym a b : path_eqb a b = path_eqb b a.
Proof.
  destruct (path_eqb_spec a b) as [E|N]; destruct (path_eqb_spec b a) as [E'|N']; try reflexivity; congruence.
Qed.

Ltac ext_sums :=
  match goal with
  | |- context [ext_add _ (ext_add (cost ?c ?oa ?ra) (cost ?c ?ob ?rb))] =>
      generalize (cost c oa ra) (cost c ob rb)
  end;
  let x := fresh "x" in let y := fresh "y" in intros x y;
  try match goal with
      | |- context [G.CostValues_HORIZONTAL_TRANSFER ?c] => destruct (G.CostValues_HORIZONTAL_TRANSFER c)
      end;
  destruct x, y; cbn [ext_add]; try reflexivity; do 3 f_equal; ring.

Section Tie.
  Context {lca node_id : Type}.
  Notation tree := (G.TreeNode node_id).
  Notation rin := (G.rin_state path lca node_id).
  Notation rout := (G.rout_state path lca node_id).

  (** the generated code at root paths: ancestor = prefix, LCA = longest common prefix *)
  Definition node_event_p : rout -> tree -> G.res (rout * G.NodeEvent) :=
    G.gen_node_event path_eqb (fun _ => anc) (fun _ => sanc) (fun _ => comparable) (fun _ => lcp).
  Definition cost_rec_p : rout -> tree -> G.res (rout * ext) :=
    G.gen_cost_rec path_eqb (fun _ => anc) (fun _ => sanc) (fun _ => comparable) (fun _ => lcp) (fun _ => dist).
  Definition cost_p : rout -> G.res (rout * ext) :=
    G.gen_cost path_eqb (fun _ => anc) (fun _ => sanc) (fun _ => comparable) (fun _ => lcp) (fun _ => dist).

  (** a tree of node identifiers with the dictionaries, as the model's structural trees *)
  Fixpoint rtree_of (rec : node_id -> path) (t : tree) : rtree :=
    match t with
    | G.TreeNode_leaf i => RLeaf (rec i)
    | G.TreeNode_node i a b => RNode (rec i) (rtree_of rec a) (rtree_of rec b)
    end.
  Fixpoint otree_of (leafsp : node_id -> path) (syn : node_id -> list fam) (t : tree) : otree :=
    match t with
    | G.TreeNode_leaf i => OLeaf (leafsp i) (syn i)
    | G.TreeNode_node _ a b => ONode (otree_of leafsp syn a) (otree_of leafsp syn b)
    end.

  Lemma root_rtree_of rec t : root (rtree_of rec t) = rec (G.TreeNode_id t).
  Proof. destruct t; reflexivity. Qed.

  (** what [node_event] answers, in the model's terms *)
  Definition node_event_spec (leafsp rec : node_id -> path) (t : tree) : G.NodeEvent :=
    match t with
    | G.TreeNode_leaf i => if path_eqb (rec i) (leafsp i) then G.NodeEvent_LEAF else G.NodeEvent_INVALID
    | G.TreeNode_node i a b => ne_of (event (rec i) (rec (G.TreeNode_id a)) (rec (G.TreeNode_id b)))
    end.

  Theorem gen_node_event_eq (self : rout) (t : tree) :
    node_event_p self t =
      G.Ok (self, node_event_spec (G.rin_leaf_object_species (G.rout_input self)) (G.rout_object_species self) t).
  Proof.
    destruct self as [[ot l leafsp c] rec]. destruct t as [i|i a b]; unfold node_event_p, G.gen_node_event.
    - cbn. rewrite ?(path_eqb_sym (leafsp i) (rec i)). reflexivity.
    - cbn -[event]. unfold event.
      destruct (sanc (rec (G.TreeNode_id a)) (rec i) || sanc (rec (G.TreeNode_id b)) (rec i)); [reflexivity|].
      destruct (anc (rec i) (rec (G.TreeNode_id a))) eqn:Al; destruct (anc (rec i) (rec (G.TreeNode_id b))) eqn:Ar; cbn;
        try reflexivity.
      destruct (path_eqb (rec i) (lcp (rec (G.TreeNode_id a)) (rec (G.TreeNode_id b)))
                && negb (comparable (rec (G.TreeNode_id a)) (rec (G.TreeNode_id b)))); reflexivity.
  Qed.

  (** [_cost_rec] on any node of any tree *)
  Theorem gen_cost_rec_eq (self : rout) (syn : node_id -> list fam) (t : tree) :
    cost_rec_p self t =
      G.Ok (self, cost (ccosts (G.rin_costs (G.rout_input self)))
                       (otree_of (G.rin_leaf_object_species (G.rout_input self)) syn t)
                       (rtree_of (G.rout_object_species self) t)).
  Proof.
    destruct self as [[ot l leafsp c] rec]. cbn [G.rout_input G.rout_object_species G.rin_costs G.rin_leaf_object_species].
    induction t as [i|i a IHa b IHb]; unfold cost_rec_p in *.
    - cbn. rewrite ?(path_eqb_sym (leafsp i) (rec i)). destruct (path_eqb (rec i) (leafsp i)); reflexivity.
    - cbn [G.gen_cost_rec].
      change (G.gen_node_event path_eqb _ _ _ _ ?s ?n) with (node_event_p s n).
      rewrite gen_node_event_eq. cbn [node_event_spec G.rout_input G.rout_object_species G.rin_leaf_object_species].
      cbn [cost otree_of rtree_of]. rewrite !root_rtree_of. unfold ecost.
      destruct (event (rec i) (rec (G.TreeNode_id a)) (rec (G.TreeNode_id b))) eqn:E; cbn [ne_of G.NodeEvent_eqb];
        try reflexivity; cbv zeta beta; rewrite IHa, IHb;
        cbn [G.rin_costs G.rin_species_lca G.TreeNode_id ccosts c_spe c_dup c_hgt c_floss].
      + ext_sums.
      + ext_sums.
      + apply event_TrL_inv in E. destruct E as [-> _]. ext_sums.
      + apply event_TrR_inv in E. destruct E as [_ [-> _]]. ext_sums.
  Qed.

  (** [cost()]: the whole object tree of the input *)
  Theorem gen_cost_eq (self : rout) (syn : node_id -> list fam) :
    cost_p self =
      G.Ok (self, cost (ccosts (G.rin_costs (G.rout_input self)))
                       (otree_of (G.rin_leaf_object_species (G.rout_input self)) syn (G.rin_object_tree (G.rout_input self)))
                       (rtree_of (G.rout_object_species self) (G.rin_object_tree (G.rout_input self)))).
  Proof.
    unfold cost_p, G.gen_cost. destruct self as [inp rec].
    change (G.gen_cost_rec path_eqb _ _ _ _ _ ?s ?n) with (cost_rec_p s n).
    rewrite (gen_cost_rec_eq _ syn). reflexivity.
  Qed.
End Tie.

(* ------------------------------------------------------------------ *)
(** * The labelled evaluator ([SuperReconciliationOutput]) *)

(** the set operations of the generated code, on families *)
Section Sets.
  Lemma fam_eqb_spec' x y : reflect (x = y) (fam_eqb x y).
  Proof. apply N.eqb_spec. Qed.

  Lemma set_mem_existsb x l : G.set_mem fam_eqb x l = existsb (fam_eqb x) l.
  Proof. induction l as [|y l IH]; cbn; [reflexivity|]. now rewrite IH. Qed.

  Lemma existsb_In x l : existsb (fam_eqb x) l = true <-> In x l.
  Proof.
    rewrite existsb_exists. split.
    - intros [y [H E]]. destruct (fam_eqb_spec' x y); [subst; auto|discriminate].
    - intros H. exists x. split; auto. destruct (fam_eqb_spec' x x); congruence.
  Qed.

  Lemma In_set_add x y s : In y (G.set_add fam_eqb x s) <-> In y s \/ y = x.
  Proof.
    unfold G.set_add. rewrite set_mem_existsb. destruct (existsb (fam_eqb x) s) eqn:E.
    - apply existsb_In in E. split; [auto|]. intros [H| ->]; auto.
    - rewrite in_app_iff. cbn. intuition.
  Qed.

  Lemma In_fold_set_add y l : forall s,
    In y (fold_left (fun s x => G.set_add fam_eqb x s) l s) <-> In y s \/ In y l.
  Proof.
    induction l as [|x l IH]; intros s; cbn [fold_left].
    - cbn. intuition.
    - rewrite IH, In_set_add. cbn. intuition.
  Qed.

  Lemma In_set_of_list y l : In y (G.set_of_list fam_eqb l) <-> In y l.
  Proof. unfold G.set_of_list. rewrite In_fold_set_add. cbn. intuition. Qed.

  (** [set(y) <= set(z)] is the model's subset test on the two lists *)
  Lemma set_subset_eq y z :
    G.set_subset fam_eqb (G.set_of_list fam_eqb y) (G.set_of_list fam_eqb z) = subset y z.
  Proof.
    unfold G.set_subset, subset. apply Bool.eq_iff_eq_true. rewrite !forallb_forall. split; intros H x Hx.
    - apply (proj2 (In_set_of_list x y)) in Hx. apply H in Hx. rewrite set_mem_existsb in Hx.
      apply existsb_In in Hx. apply (proj1 (In_set_of_list x z)) in Hx. now apply existsb_In.
    - apply (proj1 (In_set_of_list x y)) in Hx. apply H in Hx. apply existsb_In in Hx.
      rewrite set_mem_existsb. apply existsb_In. now apply (proj2 (In_set_of_list x z)).
  Qed.
End Sets.

Section TieLabelled.
  Context {lca node_id : Type} (id_eqb : node_id -> node_id -> bool).
  Notation tree := (G.TreeNode node_id).
  Notation sin := (G.sin_state fam path lca node_id).
  Notation sout := (G.sout_state fam path lca node_id).

  (** the generated code at root paths and families *)
  Definition snode_event_p : sout -> tree -> G.res (sout * G.NodeEvent) :=
    G.gen_super_node_event path_eqb (fun _ => anc) (fun _ => sanc) (fun _ => comparable) (fun _ => lcp).
  Definition scost_rec_p : sout -> tree -> G.res (sout * ext) :=
    G.gen_super_cost_rec path_eqb (fun _ => anc) (fun _ => sanc) (fun _ => comparable) (fun _ => lcp) (fun _ => dist).
  Definition sreconciliation_cost_p : sout -> G.res (sout * ext) :=
    G.gen_super_reconciliation_cost path_eqb (fun _ => anc) (fun _ => sanc) (fun _ => comparable) (fun _ => lcp) (fun _ => dist).
  Definition sordered_p : sout -> G.res (sout * Z) :=
    G.gen_super_ordered_labeling_cost fam_eqb id_eqb path_eqb (fun _ => anc) (fun _ => sanc) (fun _ => comparable) (fun _ => lcp).
  Definition sunordered_p : sout -> G.res (sout * Z) :=
    G.gen_super_unordered_labeling_cost fam_eqb path_eqb (fun _ => anc) (fun _ => sanc) (fun _ => comparable) (fun _ => lcp).
  Definition slabeling_cost_p : sout -> G.res (sout * Z) :=
    G.gen_super_labeling_cost fam_eqb id_eqb path_eqb (fun _ => anc) (fun _ => sanc) (fun _ => comparable) (fun _ => lcp).
  Definition scost_p : sout -> G.res (sout * ext) :=
    G.gen_super_cost fam_eqb id_eqb path_eqb (fun _ => anc) (fun _ => sanc) (fun _ => comparable) (fun _ => lcp) (fun _ => dist).

  (** the labelled reconciliation a tree of identifiers and the two dictionaries denote *)
  Fixpoint ltree_of (rec : node_id -> path) (syn : node_id -> list fam) (t : tree) : ltree :=
    match t with
    | G.TreeNode_leaf i => LLeaf (rec i) (syn i)
    | G.TreeNode_node i a b => LNode (rec i) (syn i) (ltree_of rec syn a) (ltree_of rec syn b)
    end.
  Lemma lroot_ltree_of rec syn t : lroot (ltree_of rec syn t) = rec (G.TreeNode_id t).
  Proof. destruct t; reflexivity. Qed.
  Lemma lsyn_ltree_of rec syn t : lsyn (ltree_of rec syn t) = syn (G.TreeNode_id t).
  Proof. destruct t; reflexivity. Qed.
  Lemma forget_ltree_of rec syn t : forget (ltree_of rec syn t) = rtree_of rec t.
  Proof. induction t as [i|i a IHa b IHb]; cbn; [reflexivity|]. now rewrite IHa, IHb. Qed.

  (** what the four components of a labelled output denote *)
  Definition lt_of (self : sout) : ltree :=
    ltree_of (G.sout_object_species self) (G.sout_syntenies self) (G.sin_object_tree (G.sout_input self)).
  Definition ot_of (self : sout) : otree :=
    otree_of (G.sin_leaf_object_species (G.sout_input self)) (G.sin_leaf_syntenies (G.sout_input self))
             (G.sin_object_tree (G.sout_input self)).
  Definition co_of (self : sout) : costs := ccosts (G.sin_costs (G.sout_input self)).

  (** ** the inherited methods: the same statements as for the plain class *)
  Theorem gen_super_node_event_eq (self : sout) (t : tree) :
    snode_event_p self t =
      G.Ok (self, node_event_spec (G.sin_leaf_object_species (G.sout_input self)) (G.sout_object_species self) t).
  Proof.
    destruct self as [[ot l leafsp c lsy] rec sy o]. destruct t as [i|i a b]; unfold snode_event_p, G.gen_super_node_event.
    - cbn. rewrite ?(path_eqb_sym (leafsp i) (rec i)). reflexivity.
    - cbn -[event]. unfold event.
      destruct (sanc (rec (G.TreeNode_id a)) (rec i) || sanc (rec (G.TreeNode_id b)) (rec i)); [reflexivity|].
      destruct (anc (rec i) (rec (G.TreeNode_id a))) eqn:Al; destruct (anc (rec i) (rec (G.TreeNode_id b))) eqn:Ar; cbn;
        try reflexivity.
      destruct (path_eqb (rec i) (lcp (rec (G.TreeNode_id a)) (rec (G.TreeNode_id b)))
                && negb (comparable (rec (G.TreeNode_id a)) (rec (G.TreeNode_id b)))); reflexivity.
  Qed.

  Theorem gen_super_cost_rec_eq (self : sout) (syn : node_id -> list fam) (t : tree) :
    scost_rec_p self t =
      G.Ok (self, cost (co_of self) (otree_of (G.sin_leaf_object_species (G.sout_input self)) syn t)
                       (rtree_of (G.sout_object_species self) t)).
  Proof.
    destruct self as [[ot l leafsp c lsy] rec sy o]. unfold co_of.
    cbn [G.sout_input G.sout_object_species G.sin_costs G.sin_leaf_object_species].
    induction t as [i|i a IHa b IHb]; [unfold scost_rec_p|unfold scost_rec_p in IHa, IHb |- *].
    - cbn. rewrite ?(path_eqb_sym (leafsp i) (rec i)). destruct (path_eqb (rec i) (leafsp i)); reflexivity.
    - cbn [G.gen_super_cost_rec].
      change (G.gen_super_node_event path_eqb _ _ _ _ ?s ?n) with (snode_event_p s n).
      rewrite gen_super_node_event_eq. cbn [node_event_spec G.sout_input G.sout_object_species G.sin_leaf_object_species].
      cbn [cost otree_of rtree_of]. rewrite !root_rtree_of. unfold ecost.
      destruct (event (rec i) (rec (G.TreeNode_id a)) (rec (G.TreeNode_id b))) eqn:E; cbn [ne_of G.NodeEvent_eqb];
        try reflexivity; cbv zeta beta; rewrite IHa, IHb;
        cbn [G.sin_costs G.sin_species_lca G.TreeNode_id ccosts c_spe c_dup c_hgt c_floss].
      + ext_sums.
      + ext_sums.
      + apply event_TrL_inv in E. destruct E as [-> _]. ext_sums.
      + apply event_TrR_inv in E. destruct E as [_ [-> _]]. ext_sums.
  Qed.

  (** [reconciliation_cost()] = [super().cost()]: the plain cost of the reconciliation part *)
  Theorem gen_super_reconciliation_cost_eq (self : sout) :
    sreconciliation_cost_p self = G.Ok (self, cost (co_of self) (ot_of self) (forget (lt_of self))).
  Proof.
    unfold sreconciliation_cost_p, G.gen_super_reconciliation_cost, G.gen_super_base_cost, lt_of, ot_of.
    rewrite forget_ltree_of. destruct self as [inp rec sy o].
    change (G.gen_super_cost_rec path_eqb _ _ _ _ _ ?s ?n) with (scost_rec_p s n).
    rewrite (gen_super_cost_rec_eq _ (G.sin_leaf_syntenies inp)). reflexivity.
  Qed.

  (** ** [_unordered_labeling_cost] *)
  Lemma keep_left_TrL s l r : event s l r = TrL -> comparable s l = true.
  Proof. intros E. apply event_TrL_inv in E. destruct E as [H _]. unfold comparable. now rewrite H. Qed.
  Lemma keep_left_TrR s l r : event s l r = TrR -> comparable s l = false.
  Proof. intros E. apply event_TrR_inv in E. destruct E as [_ [H1 H2]]. unfold comparable. now rewrite H1, H2. Qed.

  Definition uloop (inp : sin) (rec : node_id -> path) (sy : node_id -> list fam) (o : bool) (sl : Z) :=
    G.gen_super_unordered_labeling_cost_for1 fam_eqb path_eqb (fun _ => anc) (fun _ => sanc) (fun _ => comparable)
      (fun _ => lcp) inp rec sy o rec sl.

  Lemma uloop_eq inp rec sy o sl : 0 <= sl -> forall (t : tree) (total : Z),
    uloop inp rec sy o sl t total =
      match ulab_rec (ltree_of rec sy t) with
      | Some k => G.Next (total + sl * k)
      | None => G.Fail G.AssertionError
      end.
  Proof.
    clear id_eqb. intros Hs. induction t as [i|i a IHa b IHb]; intros total.
    - unfold uloop. cbn. f_equal. lia.
    - unfold uloop in IHa, IHb |- *. cbn [G.gen_super_unordered_labeling_cost_for1 G.TreeNode_is_leaf negb].
      change (G.gen_super_node_event path_eqb _ _ _ _ ?s ?n) with (snode_event_p s n).
      rewrite gen_super_node_event_eq.
      cbn [node_event_spec G.sout_input G.sout_object_species G.sin_leaf_object_species G.TreeNode_id ulab_rec ltree_of].
      rewrite !lroot_ltree_of, !lsyn_ltree_of, !set_subset_eq.
      destruct (event (rec i) (rec (G.TreeNode_id a)) (rec (G.TreeNode_id b))) eqn:E; cbn [ne_of G.NodeEvent_eqb];
        cbv zeta beta; try reflexivity.
      + rewrite IHa. destruct (ulab_rec (ltree_of rec sy a)) as [ka|]; [|reflexivity].
        rewrite IHb. destruct (ulab_rec (ltree_of rec sy b)) as [kb|]; [|reflexivity].
        f_equal. destruct (subset (sy i) (sy (G.TreeNode_id a))), (subset (sy i) (sy (G.TreeNode_id b))); lia.
      + rewrite IHa. destruct (ulab_rec (ltree_of rec sy a)) as [ka|]; [|reflexivity].
        rewrite IHb. destruct (ulab_rec (ltree_of rec sy b)) as [kb|]; [|reflexivity].
        f_equal. destruct (subset (sy i) (sy (G.TreeNode_id a))), (subset (sy i) (sy (G.TreeNode_id b))); lia.
      + rewrite (keep_left_TrL _ _ _ E).
        rewrite IHa. destruct (ulab_rec (ltree_of rec sy a)) as [ka|]; [|reflexivity].
        rewrite IHb. destruct (ulab_rec (ltree_of rec sy b)) as [kb|]; [|reflexivity].
        f_equal. destruct (subset (sy i) (sy (G.TreeNode_id a))); lia.
      + rewrite (keep_left_TrR _ _ _ E).
        rewrite IHa. destruct (ulab_rec (ltree_of rec sy a)) as [ka|]; [|reflexivity].
        rewrite IHb. destruct (ulab_rec (ltree_of rec sy b)) as [kb|]; [|reflexivity].
        f_equal. destruct (subset (sy i) (sy (G.TreeNode_id b))); lia.
  Qed.

  (** the evaluator's assertion fails ([AssertionError]) exactly when the model answers [None];
      [0 <= sloss] is needed: at a duplication with one lossy child the code charges [min(0, sloss)] *)
  Definition lab_res (self : sout) (r : option Z) : G.res (sout * Z) :=
    match r with Some k => G.Ok (self, k) | None => G.Err G.AssertionError end.

  Theorem gen_unordered_labeling_cost_eq (self : sout) : 0 <= c_sloss (co_of self) ->
    sunordered_p self = lab_res self (unordered_labeling_cost (co_of self) (lt_of self)).
  Proof.
    clear id_eqb. intros Hs. destruct self as [[ot l leafsp c lsy] rec sy o].
    unfold sunordered_p, G.gen_super_unordered_labeling_cost, unordered_labeling_cost, lt_of, co_of in Hs |- *.
    cbn [G.sout_input G.sout_object_species G.sout_syntenies G.sin_object_tree G.sin_costs ccosts c_sloss] in Hs |- *.
    cbv zeta.
    change (G.gen_super_unordered_labeling_cost_for1 fam_eqb path_eqb _ _ _ _ ?inp ?r ?s ?o ?r ?sl)
      with (uloop inp r s o sl).
    rewrite (uloop_eq _ _ _ _ _ Hs). destruct (ulab_rec (ltree_of rec sy ot)) as [k|]; reflexivity.
  Qed.
  (** ** [_ordered_labeling_cost] *)
  (* from here on: the equality test on node identifiers decides equality (Python: identity of node objects) *)
  Hypothesis id_eqb_spec : forall x y, reflect (x = y) (id_eqb x y).
  (* the local dictionary [masks]: the list of its stores, newest first *)
  Notation dget := (G.dict_get id_eqb).
  Lemma dget_cons_eq (k : node_id) (v : N) d : dget ((k, v) :: d) k = Some v.
  Proof. cbn. destruct (id_eqb_spec k k); congruence. Qed.

  Section OrderedLoop.
    Variables (inp : sin) (rec : node_id -> path) (sy : node_id -> list fam) (o : bool) (rs : list fam) (sl : Z).

    Definition oloop :=
      G.gen_super_ordered_labeling_cost_for1 fam_eqb id_eqb path_eqb (fun _ => anc) (fun _ => sanc) (fun _ => comparable)
        (fun _ => lcp) inp rec sy o rec rs sl.

    (* the mask the code stores for a node: that of its own synteny against the root synteny *)
    Definition canon (k : node_id) : N := mask_of rs (sy k).
    (* [d'] comes from [d] by stores of canonical masks only *)
    Definition extends (d d' : list (node_id * N)) : Prop :=
      forall k, dget d' k = dget d k \/ dget d' k = Some (canon k).

    Lemma extends_refl d : extends d d.
    Proof. intros k. now left. Qed.
    Lemma extends_trans d1 d2 d3 : extends d1 d2 -> extends d2 d3 -> extends d1 d3.
    Proof. intros H1 H2 k. destruct (H2 k) as [ -> | -> ]; [apply H1|now right]. Qed.
    Lemma extends_store d k0 : extends d ((k0, canon k0) :: d).
    Proof. intros k. cbn. destruct (id_eqb_spec k k0) as [->|]; [now right|now left]. Qed.
    Lemma extends_canon d d' k : extends d d' -> dget d k = Some (canon k) -> dget d' k = Some (canon k).
    Proof. intros H E. destruct (H k) as [ -> | -> ]; auto. Qed.

    Lemma oloop_eq : forall (t : tree) (total : Z) (d : list (node_id * N)) (mk : N),
      dget d (G.TreeNode_id t) = Some mk ->
      match olab_rec rs mk (ltree_of rec sy t) with
      | Some k => exists d', oloop t total d = G.Next (total + k * sl, d') /\ extends d d'
      | None => oloop t total d = G.Fail G.AssertionError
      end.
    Proof.
      induction t as [i|i a IHa b IHb]; intros total d mk Hd; unfold oloop in *.
      - cbn. exists d. split; [f_equal; f_equal; lia|apply extends_refl].
      - cbn [G.gen_super_ordered_labeling_cost_for1 G.TreeNode_is_leaf negb].
        change (G.gen_super_node_event path_eqb _ _ _ _ ?s ?n) with (snode_event_p s n).
        rewrite gen_super_node_event_eq.
        cbn [node_event_spec G.sout_input G.sout_object_species G.sin_leaf_object_species G.TreeNode_id olab_rec ltree_of] in *.
        rewrite Hd. rewrite !lroot_ltree_of, !lsyn_ltree_of. cbv zeta beta.
        fold (mask_of rs (sy (G.TreeNode_id a))) (mask_of rs (sy (G.TreeNode_id b))).
        fold (canon (G.TreeNode_id a)) (canon (G.TreeNode_id b)).
        set (d1 := (G.TreeNode_id b, canon (G.TreeNode_id b)) :: (G.TreeNode_id a, canon (G.TreeNode_id a)) :: d).
        assert (X1 : extends d d1).
        { eapply extends_trans; [apply (extends_store d (G.TreeNode_id a))|apply extends_store]. }
        assert (Ha : dget d1 (G.TreeNode_id a) = Some (canon (G.TreeNode_id a))).
        { apply (extends_canon _ _ _ (extends_store _ (G.TreeNode_id b))). apply dget_cons_eq. }
        assert (Hb : dget d1 (G.TreeNode_id b) = Some (canon (G.TreeNode_id b))) by apply dget_cons_eq.
        assert (STEP : forall k0 : Z,
          match olab_rec rs (canon (G.TreeNode_id a)) (ltree_of rec sy a), olab_rec rs (canon (G.TreeNode_id b)) (ltree_of rec sy b) with
          | Some ka, Some kb => exists d',
              match oloop a (total + k0 * sl) d1 with
              | G.Next (t1, m1) => oloop b t1 m1
              | G.Ret r => G.Ret r | G.Fail e => G.Fail e
              end = G.Next (total + (k0 + ka + kb) * sl, d') /\ extends d d'
          | _, _ =>
              match oloop a (total + k0 * sl) d1 with
              | G.Next (t1, m1) => oloop b t1 m1
              | G.Ret r => G.Ret r | G.Fail e => G.Fail e
              end = G.Fail G.AssertionError
          end).
        { intros k0. unfold oloop.
          specialize (IHa (total + k0 * sl) d1 _ Ha).
          destruct (olab_rec rs (canon (G.TreeNode_id a)) (ltree_of rec sy a)) as [ka|].
          - destruct IHa as [d2 [-> X2]].
            specialize (IHb (total + k0 * sl + ka * sl) d2 _ (extends_canon _ _ _ X2 Hb)).
            destruct (olab_rec rs (canon (G.TreeNode_id b)) (ltree_of rec sy b)) as [kb|].
            + destruct IHb as [d3 [-> X3]]. exists d3. split.
              * f_equal. f_equal. ring.
              * eapply extends_trans; [exact X1|]. eapply extends_trans; eassumption.
            + exact IHb.
          - rewrite IHa. reflexivity. }
        unfold oloop in STEP.
        destruct (event (rec i) (rec (G.TreeNode_id a)) (rec (G.TreeNode_id b))) eqn:E;
          cbn [ne_of G.NodeEvent_eqb olab_node]; cbv zeta beta.
        + destruct (olab_rec rs (canon (G.TreeNode_id a)) (ltree_of rec sy a)) as [ka|];
            [destruct (olab_rec rs (canon (G.TreeNode_id b)) (ltree_of rec sy b)) as [kb|]|]; apply STEP.
        + destruct (olab_rec rs (canon (G.TreeNode_id a)) (ltree_of rec sy a)) as [ka|];
            [destruct (olab_rec rs (canon (G.TreeNode_id b)) (ltree_of rec sy b)) as [kb|]|]; apply STEP.
        + rewrite (keep_left_TrL _ _ _ E). cbn [negb].
          destruct (olab_rec rs (canon (G.TreeNode_id a)) (ltree_of rec sy a)) as [ka|];
            [destruct (olab_rec rs (canon (G.TreeNode_id b)) (ltree_of rec sy b)) as [kb|]|]; apply STEP.
        + rewrite (keep_left_TrR _ _ _ E). cbn [negb].
          destruct (olab_rec rs (canon (G.TreeNode_id a)) (ltree_of rec sy a)) as [ka|];
            [destruct (olab_rec rs (canon (G.TreeNode_id b)) (ltree_of rec sy b)) as [kb|]|]; apply STEP.
        + destruct (olab_rec rs (canon (G.TreeNode_id a)) (ltree_of rec sy a)) as [ka|];
            [destruct (olab_rec rs (canon (G.TreeNode_id b)) (ltree_of rec sy b)) as [kb|]|]; reflexivity.
    Qed.
  End OrderedLoop.

  Theorem gen_ordered_labeling_cost_eq (self : sout) :
    sordered_p self = lab_res self (ordered_labeling_cost (co_of self) (lt_of self)).
  Proof.
    destruct self as [[ot l leafsp c lsy] rec sy o].
    unfold sordered_p, G.gen_super_ordered_labeling_cost, ordered_labeling_cost, lt_of, co_of.
    cbn [G.sout_input G.sout_object_species G.sout_syntenies G.sin_object_tree G.sin_costs ccosts c_sloss].
    cbv zeta. rewrite lsyn_ltree_of.
    change (G.gen_super_ordered_labeling_cost_for1 fam_eqb id_eqb path_eqb _ _ _ _ ?inp ?r ?s ?o ?r ?rs ?sl)
      with (oloop inp r s o rs sl).
    pose proof (oloop_eq (G.mk_sin ot l leafsp c lsy) rec sy o (sy (G.TreeNode_id ot)) (G.CostValues_SEGMENTAL_LOSS c)
                  ot 0 [(G.TreeNode_id ot, subseq_complete (sy (G.TreeNode_id ot)))] _ (dget_cons_eq _ _ _)) as H.
    destruct (olab_rec (sy (G.TreeNode_id ot)) (subseq_complete (sy (G.TreeNode_id ot))) (ltree_of rec sy ot)) as [k|].
    - destruct H as [d' [-> _]]. cbn [option_map lab_res]. do 2 f_equal. ring.
    - rewrite H. reflexivity.
  Qed.

  (** ** [labeling_cost], [cost] *)
  Theorem gen_labeling_cost_eq (self : sout) : 0 <= c_sloss (co_of self) ->
    slabeling_cost_p self = lab_res self (labeling_cost (co_of self) (G.sout_ordered self) (lt_of self)).
  Proof.
    intros Hs. pose proof (gen_ordered_labeling_cost_eq self) as HO.
    pose proof (gen_unordered_labeling_cost_eq self Hs) as HU.
    unfold slabeling_cost_p, G.gen_super_labeling_cost, labeling_cost, sordered_p, sunordered_p in HO, HU |- *.
    destruct self as [inp rec sy o]. cbn [G.sout_ordered]. destruct o.
    - rewrite HO. destruct (ordered_labeling_cost _ _); reflexivity.
    - cbv zeta beta. rewrite HU. destruct (unordered_labeling_cost _ _); reflexivity.
  Qed.

  (** [SuperReconciliationOutput.cost()] is the model's [total_cost] *)
  Theorem gen_super_cost_eq (self : sout) : 0 <= c_sloss (co_of self) ->
    scost_p self =
      match total_cost (co_of self) (ot_of self) (G.sout_ordered self) (lt_of self) with
      | Some v => G.Ok (self, v)
      | None => G.Err G.AssertionError
      end.
  Proof.
    intros Hs. pose proof (gen_super_reconciliation_cost_eq self) as HR.
    pose proof (gen_labeling_cost_eq self Hs) as HL.
    unfold scost_p, G.gen_super_cost, total_cost, sreconciliation_cost_p, slabeling_cost_p in HR, HL |- *.
    destruct self as [inp rec sy o]. rewrite HR, HL.
    destruct (labeling_cost _ _ _); reflexivity.
  Qed.
End TieLabelled.

(* ------------------------------------------------------------------ *)
(** * The three functions of [utils/subsequences.py] the labelled evaluator calls

    [Gen/EvalGen.v] uses the model functions [subseq_complete], [mask_from_subseq], [seg_dist] of
    [Model/Subseq.v] for these calls; they are what the code generated from
    [utils/subsequences.py] computes ([Proofs/SubseqGenProofs.v], restated here). *)
Theorem gen_eval_externals_tied :
  (forall l : list fam, SR.Gen.SubseqGen.gen_subseq_complete l = SR.Gen.SubseqGen.Ok (Z.of_N (subseq_complete l))) /\
  (forall child parent : list fam,
     SR.Gen.SubseqGen.gen_mask_from_subseq fam_eqb child parent =
       SR.Gen.SubseqGen.Ok (mask_from_subseq fam_eqb child parent)) /\
  (forall (child parent : N) (edges : bool),
     SR.Gen.SubseqGen.gen_subseq_segment_dist child parent edges =
       SR.Gen.SubseqGen.Ok (seg_dist child parent edges)).
Proof.
  repeat split; intros.
  - apply SR.Proofs.SubseqGenProofs.gen_subseq_complete_eq.
  - apply SR.Proofs.SubseqGenProofs.gen_mask_from_subseq_eq.
  - apply SR.Proofs.SubseqGenProofs.gen_subseq_segment_dist_eq.
Qed.

(* ------------------------------------------------------------------ *)
(** * Non-vacuity: the example of [Properties/C06.v] run through the generated code
    (node identifiers: the pre-order numbers 0..4; the species LCA object: [tt]) *)
Section Example.
  Let T : G.TreeNode nat :=
    G.TreeNode_node 0%nat (G.TreeNode_node 1%nat (G.TreeNode_leaf 2%nat) (G.TreeNode_leaf 3%nat)) (G.TreeNode_leaf 4%nat).
  Let rec_ (i : nat) : path :=
    match i with 0%nat => [] | 1%nat => [false] | 2%nat => [false; false] | 3%nat => [false; true] | _ => [true] end.
  Let syn_ (i : nat) : list fam :=
    match i with 0%nat | 1%nat => [1;2;3] | 2%nat => [1;2] | 3%nat => [2;3] | _ => [1;3] end%N.
  Let C (sl : Z) := G.mk_CostValues 0 1 (Fin 1) 1 sl.
  Let self (ord : bool) (sl : Z) : G.sout_state fam path unit nat :=
    G.mk_sout (G.mk_sin T tt rec_ (C sl) syn_) rec_ syn_ ord.

  Example gen_eval_example :
    cost_p (G.mk_rout (G.mk_rin T tt rec_ (C 1)) rec_) = G.Ok (G.mk_rout (G.mk_rin T tt rec_ (C 1)) rec_, Fin 0) /\
    scost_p Nat.eqb (self true 1) = G.Ok (self true 1, Fin 3) /\
    scost_p Nat.eqb (self false 1) = G.Ok (self false 1, Fin 3) /\
    lt_of (self true 1) =
      LNode [] [1;2;3]%N (LNode [false] [1;2;3]%N (LLeaf [false; false] [1;2]%N) (LLeaf [false; true] [2;3]%N))
            (LLeaf [true] [1;3]%N).
  Proof. repeat split; vm_compute; reflexivity. Qed.

  (** [0 <= sloss] cannot be dropped from [gen_unordered_labeling_cost_eq]: with a negative unit cost,
      a duplication with exactly one lossy child is charged [min(0, sloss) = sloss] by the code and
      [sloss * min(0, 1) = 0] by the model *)
  Let D : G.TreeNode nat := G.TreeNode_node 0%nat (G.TreeNode_leaf 1%nat) (G.TreeNode_leaf 2%nat).
  Let recd (i : nat) : path := [].
  Let synd (i : nat) : list fam := match i with 1%nat => [1] | _ => [1;2] end%N.
  Let selfd : G.sout_state fam path unit nat := G.mk_sout (G.mk_sin D tt recd (C (-1)) synd) recd synd false.
  Example negative_sloss_differs :
    sunordered_p selfd = G.Ok (selfd, -1) /\ unordered_labeling_cost (co_of selfd) (lt_of selfd) = Some 0.
  Proof. split; vm_compute; reflexivity. Qed.
  (** the hypothesis on [id_eqb] is satisfiable: identifiers in [nat] *)
  Example gen_super_cost_eq_nat (self' : G.sout_state fam path unit nat) :
    0 <= c_sloss (co_of self') ->
    scost_p Nat.eqb self' =
      match total_cost (co_of self') (ot_of self') (G.sout_ordered self') (lt_of self') with
      | Some v => G.Ok (self', v)
      | None => G.Err G.AssertionError
      end.
  Proof. exact (gen_super_cost_eq Nat.eqb Nat.eqb_spec self'). Qed.
End Example.

Print Assumptions gen_node_event_eq.
Print Assumptions gen_cost_rec_eq.
Print Assumptions gen_cost_eq.
Print Assumptions gen_super_node_event_eq.
Print Assumptions gen_super_cost_rec_eq.
Print Assumptions gen_super_reconciliation_cost_eq.
Print Assumptions gen_unordered_labeling_cost_eq.
Print Assumptions gen_ordered_labeling_cost_eq.
Print Assumptions gen_labeling_cost_eq.
Print Assumptions gen_super_cost_eq.
Print Assumptions gen_eval_externals_tied.
