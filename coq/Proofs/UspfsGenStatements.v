(** The statements the parts of Proofs/UspfsGenProofs.v are developed against (each is PROVED in its part; the other parts
    take it as a Section hypothesis until the file is assembled). *)
From Coq Require Import List Bool Arith ZArith NArith Lia Permutation.
From SR Require Gen.UspfsGen Model.Recon Model.Uspfs Base.PathB Base.Ext Model.Entry Model.LcaRec Model.Thl Proofs.PathFacts Proofs.EntryProofs Proofs.EntryGenProofs Proofs.TableGenProofs Gen.EntryGen Gen.TableGen Gen.EvalGen Proofs.ThlProofs Proofs.UspfsProofs Proofs.ThlGenProofs Proofs.EvalGenProofs Gen.ThlGen Proofs.UspfsGenCommon.

Module Statements.
Import SR.Base.PathB SR.Base.Ext SR.Model.Entry SR.Model.Recon SR.Model.LcaRec SR.Model.Thl SR.Model.Uspfs SR.Proofs.PathFacts SR.Proofs.EntryProofs SR.Proofs.EntryGenProofs SR.Proofs.EvalGenProofs SR.Proofs.TableGenProofs SR.Proofs.ThlGenProofs.
Import SR.Proofs.UspfsGenCommon.Common SR.Proofs.UspfsGenCommon.ModelO SR.Proofs.UspfsGenCommon.TableO SR.Proofs.UspfsGenCommon.Embed.
Import ListNotations.
Local Open Scope Z_scope.

(** [EntryProxy.update] on a cell that reads as [e] *)
Definition cell_upd3 (rp : ret) (e : entry utag) (cs : list (ext * option utag)) : entry utag :=
  if Thl.has_finite cs then update utag_eqb MIN rp e cs else e.
Lemma cell_upd3_default rp cs : cell_upd3 rp (default_entry MIN) cs = ufirst_write rp cs.
Proof. reflexivity. Qed.

(** STAGE 2, model layer: the enumeration order of the species does not matter *)
Definition ucell_o_sim_statement : Prop :=
  forall S c rp (subA subA' subB subB' : uassign -> ext) la lb s kind ds ds',
  sameset ds ds' -> (forall k, In (fst k) ds -> subA k = subA' k) -> (forall k, In (fst k) ds -> subB k = subB' k) ->
  esim rp (ucell_o S c rp subA subB la lb s kind ds) (ucell_o S c rp subA' subB' la lb s kind ds').

Section St.
  Context {lca node_id : Type} (nid_eqb : node_id -> node_id -> bool) (lcaobj : lca).
  Notation DIST := (fun (_ : lca) => dist).
  Notation ANC := (fun (_ : lca) => anc).
  Notation tree := (EV.TreeNode node_id).
  Notation gsem3 := (gsem3 nid_eqb).
  Notation inv3 := (@inv3 node_id).
  Notation tstate := (TG.table_state (@UG.key path node_id) ca).

  (** STAGE 2, exact layer: one call of the generated [_compute_uspfs_entry] never fails, writes the two cells
      [(object, species, LCA)] and [(object, species, INHERIT)] and leaves every other [(object, species)] alone *)
  Definition entry_eq_statement : Prop :=
    forall rp S c (rs ST : @UG.STree path) nid (L R : tree) (tb : tstate) (lsets : list (node_id * list fam)) lr ll lrr e0 e1,
    rs_ok S rs -> inv3 rp tb ->
    UG.dict_get nid_eqb lsets nid = Some lr ->
    UG.dict_get nid_eqb lsets (EV.TreeNode_id L) = Some ll ->
    UG.dict_get nid_eqb lsets (EV.TreeNode_id R) = Some lrr ->
    gsem3 tb nid (sid rs) false = emap tag_ca e0 ->
    gsem3 tb nid (sid rs) true = emap tag_ca e1 ->
    let la := UG.gset_subset N.eqb lr ll in
    let lb := UG.gset_subset N.eqb lr lrr in
    let batch kind := ubatch_o S c rp (sub_of nid_eqb tb (EV.TreeNode_id L)) (sub_of nid_eqb tb (EV.TreeNode_id R)) la lb (sid rs) kind
                               (sids3 (UG.STree_levelorder ST)) in
    exists tb',
      UG.gen_compute_uspfs_entry N.eqb path_eqb nid_eqb ANC DIST (fun _ => ST) lcaobj rs (EV.TreeNode_node nid L R) lsets tb (stsocc c)
        = UG.Ok (tb', tt) /\
      inv3 rp tb' /\
      gsem3 tb' nid (sid rs) false = emap tag_ca (cell_upd3 rp e0 (batch false)) /\
      gsem3 tb' nid (sid rs) true = emap tag_ca (cell_upd3 rp e1 (batch true)) /\
      (forall n x k, (n, x) <> (nid, sid rs) -> gsem3 tb' n x k = gsem3 tb n x k).

  (** STAGE 3, exact layer: the whole table, for any callback [AS] allowing duplicate-free species nodes that stand for species
      of [S], and any dictionary [lsets] that has every object node as a key ([LS]: what it answers) *)
  Definition allowed_ok (S : stree) (ST : @UG.STree path) (AS : @UG.STree path -> tree -> list (@UG.STree path)) (u : tree) : Prop :=
    (forall rs, In rs (AS ST u) -> rs_ok S rs) /\ NoDup (sids3 (AS ST u)).
  Definition table_eq_statement : Prop :=
    forall rp S c (ST : @UG.STree path) (leafsp : node_id -> path) (syn : node_id -> list fam) (O : tree)
           (AS : @UG.STree path -> tree -> list (@UG.STree path)) (lsets : list (node_id * list fam)) (LS : node_id -> list fam),
    NoDup (map (@EV.TreeNode_id node_id) (UG.TreeNode_postorder O)) ->
    (forall u, In u (UG.TreeNode_postorder O) -> EV.TreeNode_is_leaf u = false -> allowed_ok S ST AS u) ->
    (forall u, In u (UG.TreeNode_postorder O) -> UG.dict_get nid_eqb lsets (EV.TreeNode_id u) = Some (LS (EV.TreeNode_id u))) ->
    exists tb,
      UG.gen_compute_uspfs_table N.eqb path_eqb nid_eqb ANC DIST (fun _ => ST) (EV.mk_sin O lcaobj leafsp (stsocc c) syn) lsets AS (prc rp)
        = UG.Ok tb /\
      inv3 rp tb /\
      (forall u, In u (UG.TreeNode_postorder O) -> forall s k,
         gsem3 tb (EV.TreeNode_id u) s k =
           emap tag_ca (utab_o S c rp leafsp (sids3 (UG.STree_levelorder ST)) (fun v => sids3 (AS ST v)) LS u (s, k))) /\
      (forall n s k, ~ In n (map (@EV.TreeNode_id node_id) (UG.TreeNode_postorder O)) -> gsem3 tb n s k = default_entry MIN).
End St.
End Statements.
