(** C13: the branch records computed by [_compute_branches]/[_add_losses]
    (model [Model/Branches.v]) against the evaluator's event model
    ([event], [all_losses] of [Proofs/ReconProofs.v]). *)
From Coq Require Import List Bool Arith Lia Permutation.
From SR Require Import Base.PathB Base.Ext Model.Recon Model.Branches Proofs.PathFacts Proofs.ReconProofs.
Import ListNotations.

(** * small facts *)
Lemma path_eqb_false_length (a b : path) : length a <> length b -> path_eqb a b = false.
Proof. intros H. destruct (path_eqb_spec a b); auto. subst. congruence. Qed.

Lemma path_eqb_true_iff (a b : path) : path_eqb a b = true <-> a = b.
Proof. destruct (path_eqb_spec a b); split; auto; discriminate. Qed.

Lemma anchor_eqb_spec (a b : anchor) : reflect (a = b) (anchor_eqb a b).
Proof.
  destruct a as [p k], b as [q j]. unfold anchor_eqb; simpl.
  destruct (path_eqb_spec p q); simpl; [|constructor; congruence].
  destruct (Nat.eqb_spec k j); constructor; congruence.
Qed.

Lemma amem_In a l : amem a l = true <-> In a l.
Proof.
  unfold amem. rewrite existsb_exists. split.
  - intros [x [H E]]. destruct (anchor_eqb_spec a x); [subst; auto|discriminate].
  - intros H. exists a. split; auto. destruct (anchor_eqb_spec a a); congruence.
Qed.

Lemma aremove_In a x l : In x (aremove a l) <-> In x l /\ x <> a.
Proof.
  unfold aremove. rewrite filter_In. destruct (anchor_eqb_spec a x); simpl; split.
  - intros [_ H]; discriminate.
  - intros [_ H]; congruence.
  - intros [H _]; split; auto; congruence.
  - intros [H _]; auto.
Qed.

Lemma up_nil : up [] = None. Proof. reflexivity. Qed.
Lemma up_snoc s x : up (s ++ [x]) = Some s.
Proof. unfold up. rewrite rev_app_distr. simpl. now rewrite rev_involutive. Qed.
Lemma up_length s q : up s = Some q -> length s = S (length q).
Proof.
  unfold up. destruct (rev s) as [|y rs] eqn:E; [discriminate|]. intros H; inversion H; subst.
  rewrite <- (rev_involutive s), E. simpl. rewrite app_length, !rev_length. simpl. lia.
Qed.

Lemma below_app s d : below s (s ++ d) = d.
Proof. unfold below. rewrite skipn_app, skipn_all, Nat.sub_diag. reflexivity. Qed.

Lemma anc_decomp s t : anc s t = true -> exists d, t = s ++ d.
Proof. apply is_prefix_spec. Qed.

Lemma chain_app s d1 d2 : chain s (d1 ++ d2) = chain s d1 ++ chain (s ++ d1) d2.
Proof.
  revert s; induction d1 as [|x d1 IH]; intros s; simpl.
  - now rewrite app_nil_r.
  - rewrite IH, <- app_assoc. reflexivity.
Qed.

(** * The loop of [_add_losses] in closed form *)

(* the pseudo-genes created while walking up along the reversed steps [e] above the
   species [base ++ rev e]: the first one (index [S k]) sits just above the start *)
Fixpoint chain_ops (g : path) (k : nat) (e : list bool) (base : path) : list op :=
  match e with
  | [] => []
  | x :: e' =>
      Add (base ++ rev e') (mkB (g, S k) KLoss (if x then None else Some (g, k)) (if x then Some (g, k) else None))
      :: chain_ops g (S k) e' base
  end.

(* pseudo-genes of the object node [c] mapped to [base ++ d], up to and including [base] *)
Definition cops (c : path) (d : list bool) (base : path) : list op := chain_ops c 0 (rev d) base.

Lemma loop_spe e : forall g k x0 s,
  losses_loop g k (e ++ x0 :: rev s) (Some s) = Some (chain_ops g k e (s ++ [x0]), (g, k + length e)).
Proof.
  induction e as [|x e IH]; intros g k x0 s; simpl.
  - rewrite rev_involutive. destruct (path_eqb_spec s s); [|congruence]. now rewrite Nat.add_0_r.
  - rewrite rev_app_distr. simpl. rewrite rev_involutive.
    rewrite path_eqb_false_length by (rewrite !app_length; simpl; lia).
    rewrite IH. rewrite Nat.add_succ_r. reflexivity.
Qed.

Lemma loop_dup e : forall g k s,
  losses_loop g k (e ++ rev s) (up s) = Some (chain_ops g k e s, (g, k + length e)).
Proof.
  induction e as [|x e IH]; intros g k s; [simpl|cbn [app losses_loop length]].
  - rewrite Nat.add_0_r. unfold up. destruct (rev s) as [|y rs] eqn:E; simpl; auto.
    destruct (path_eqb_spec (rev rs) (rev rs)); congruence.
  - rewrite rev_app_distr, rev_involutive.
    assert (opath_eqb (Some (s ++ rev e)) (up s) = false) as ->.
    { destruct (up s) as [q|] eqn:U; simpl; auto. apply up_length in U.
      apply path_eqb_false_length. rewrite app_length. lia. }
    rewrite IH, Nat.add_succ_r. reflexivity.
Qed.

Lemma add_losses_spe c s x d :
  add_losses c (s ++ x :: d) (Some s) = Some (cops c d (s ++ [x]), (c, length d)).
Proof.
  unfold add_losses, cops. rewrite rev_app_distr. simpl. rewrite <- app_assoc. simpl.
  rewrite loop_spe. now rewrite rev_length.
Qed.

Lemma add_losses_dup c s d :
  add_losses c (s ++ d) (up s) = Some (cops c d s, (c, length d)).
Proof. unfold add_losses, cops. rewrite rev_app_distr, loop_dup. now rewrite rev_length. Qed.

(** * The operations of one internal node, in closed form *)
Definition kind_of_ev (e : ev) : kind :=
  match e with Spe => KSpe | Dup => KDup | TrL | TrR => KTr | Inv => KLeaf end.

(* [cL], [cR]: the object nodes stored as [left], [right]; [tL], [tR] their species;
   [dL], [dR]: the steps from [bL], [bR] down to these species *)
Record nshape := { cL : path; cR : path; tL : path; tR : path; dL : list bool; dR : list bool; bL : path; bR : path; rems : list op }.

Definition shape_ops (p s : path) (k : kind) (h : nshape) : list op :=
  cops (cL h) (dL h) (bL h) ++ cops (cR h) (dR h) (bR h)
  ++ Add s (mkB (p, 0) k (Some (cL h, length (dL h))) (Some (cR h, length (dR h)))) :: rems h.

Definition shape_ok (p s la lb : path) (h : nshape) : Prop :=
  ((cL h = p ++ [false] /\ cR h = p ++ [true] /\ tL h = la /\ tR h = lb) \/
   (cL h = p ++ [true] /\ cR h = p ++ [false] /\ tL h = lb /\ tR h = la)) /\
  match event s la lb with
  | Spe => bL h = s ++ [false] /\ bR h = s ++ [true] /\ tL h = bL h ++ dL h /\ tR h = bR h ++ dR h /\ rems h = []
  | Dup => bL h = s /\ bR h = s /\ tL h = s ++ dL h /\ tR h = s ++ dR h
           /\ rems h = [Rem s (cL h, length (dL h)); Rem s (cR h, length (dR h))]
  | TrL | TrR => bL h = s /\ tL h = s ++ dL h /\ dR h = [] /\ anc s (tR h) = false
                 /\ rems h = [Rem s (cL h, length (dL h))]
  | Inv => False
  end.

Lemma spe_children s la lb : event s la lb = Spe ->
  exists da db, (la = s ++ false :: da /\ lb = s ++ true :: db) \/ (la = s ++ true :: da /\ lb = s ++ false :: db).
Proof.
  intros E. destruct (event_SD s la lb) as [A B]; [now left|].
  destruct (event_Spe_inv _ _ _ E) as [L [N1 N2]].
  apply anc_decomp in A as [da ->]. apply anc_decomp in B as [db ->].
  rewrite lcp_app in L. rewrite anc_app_cancel in N1, N2.
  assert (lcp da db = []) as L0.
  { rewrite <- (app_nil_r s) in L at 1. now apply app_inv_head in L. }
  destruct da as [|xa da]; [simpl in N1; discriminate|].
  destruct db as [|xb db]; [simpl in N2; discriminate|].
  simpl in L0. destruct xa, xb; simpl in L0; try discriminate; exists da, db; auto.
Qed.

Lemma node_ops_shape p s la lb : event s la lb <> Inv ->
  exists h, shape_ok p s la lb h /\ node_ops p s la lb = Some (shape_ops p s (kind_of_ev (event s la lb)) h).
Proof.
  intros NI. unfold node_ops, shape_ok, shape_ops. destruct (event s la lb) eqn:E; [| | | |congruence].
  - destruct (spe_children _ _ _ E) as [da [db [[-> ->]|[-> ->]]]].
    + assert (anc (s ++ [false]) (s ++ true :: db) = false) as ->.
      { replace (s ++ true :: db) with (s ++ [true] ++ db) by reflexivity. rewrite anc_app_cancel. reflexivity. }
      rewrite !add_losses_spe.
      exists {| cL := p ++ [false]; cR := p ++ [true]; tL := s ++ false :: da; tR := s ++ true :: db;
                dL := da; dR := db; bL := s ++ [false]; bR := s ++ [true]; rems := [] |}.
      simpl. rewrite <- !app_assoc. simpl. repeat split; auto.
    + assert (anc (s ++ [false]) (s ++ false :: db) = true) as ->.
      { replace (s ++ false :: db) with (s ++ [false] ++ db) by reflexivity. rewrite anc_app_cancel. reflexivity. }
      rewrite !add_losses_spe.
      exists {| cL := p ++ [true]; cR := p ++ [false]; tL := s ++ false :: db; tR := s ++ true :: da;
                dL := db; dR := da; bL := s ++ [false]; bR := s ++ [true]; rems := [] |}.
      simpl. rewrite <- !app_assoc. simpl. repeat split; auto.
  - destruct (event_SD s la lb) as [A B]; [now right|].
    apply anc_decomp in A as [da ->]. apply anc_decomp in B as [db ->].
    rewrite !add_losses_dup.
    exists {| cL := p ++ [false]; cR := p ++ [true]; tL := s ++ da; tR := s ++ db;
              dL := da; dR := db; bL := s; bR := s; rems := [Rem s (p ++ [false], length da); Rem s (p ++ [true], length db)] |}.
    simpl. repeat split; auto.
  - destruct (event_TrL_inv _ _ _ E) as [A [B _]]. rewrite A.
    apply anc_decomp in A as [da ->]. rewrite add_losses_dup.
    exists {| cL := p ++ [false]; cR := p ++ [true]; tL := s ++ da; tR := lb;
              dL := da; dR := []; bL := s; bR := s; rems := [Rem s (p ++ [false], length da)] |}.
    simpl. repeat split; auto.
  - destruct (event_TrR_inv _ _ _ E) as [A [B _]]. rewrite B.
    apply anc_decomp in A as [db ->]. rewrite add_losses_dup.
    exists {| cL := p ++ [true]; cR := p ++ [false]; tL := s ++ db; tR := la;
              dL := db; dR := []; bL := s; bR := s; rems := [Rem s (p ++ [true], length db)] |}.
    simpl. repeat split; auto.
Qed.

(** * Reconciliations without invalid nodes; sub-trees by object path *)
Fixpoint noinv (r : rtree) : Prop :=
  match r with
  | RLeaf _ => True
  | RNode s a b => event s (root a) (root b) <> Inv /\ noinv a /\ noinv b
  end.
Fixpoint species_in (S : stree) (r : rtree) : Prop :=
  match r with
  | RLeaf s => valid_sp S s = true
  | RNode s a b => valid_sp S s = true /\ species_in S a /\ species_in S b
  end.

Lemma valid_rec_noinv S O r : valid_rec S O r -> noinv r.
Proof. induction 1; simpl; auto. Qed.
Lemma valid_rec_species_in S O r : valid_rec S O r -> species_in S r.
Proof. induction 1; simpl; auto. Qed.

Fixpoint rsub (r : rtree) (q : path) {struct q} : option rtree :=
  match q, r with
  | [], _ => Some r
  | false :: q', RNode _ a _ => rsub a q'
  | true :: q', RNode _ _ b => rsub b q'
  | _ :: _, RLeaf _ => None
  end.

Lemma rsub_noinv r : forall q t, noinv r -> rsub r q = Some t -> noinv t.
Proof.
  induction r as [s|s a IHa b IHb]; intros [|[|] q] t N H; simpl in *; try discriminate;
    try (inversion H; subst; simpl; auto; fail); destruct N as [_ [Na Nb]]; eauto.
Qed.

Lemma rsub_snoc r : forall q s a b x, rsub r q = Some (RNode s a b) -> rsub r (q ++ [x]) = Some (if x then b else a).
Proof.
  induction r as [s0|s0 a0 IHa b0 IHb]; intros [|[|] q] s a b x H; simpl in *; try discriminate; eauto.
  inversion H; subst. destruct x; reflexivity.
Qed.

(** * The operation list, regrouped by object node *)
Definition oget {A} (o : option (list A)) : list A := match o with Some x => x | None => [] end.
Definition raw_ops (p : path) (r : rtree) : list op := flat_map (fun e => oget (snd e)) (gene_ops p r).

Lemma raw_ops_leaf p s : raw_ops p (RLeaf s) = [Add s (mkB (p, 0) KLeaf None None)].
Proof. reflexivity. Qed.
Lemma raw_ops_node p s a b :
  raw_ops p (RNode s a b) = raw_ops (p ++ [false]) a ++ raw_ops (p ++ [true]) b ++ oget (node_ops p s (root a) (root b)).
Proof. unfold raw_ops. simpl. rewrite !flat_map_app. simpl. now rewrite app_nil_r. Qed.

Lemma seq_opt_some {A} (l : list (option (list A))) :
  Forall (fun o => o <> None) l -> seq_opt l = Some (flat_map oget l).
Proof.
  induction 1 as [|o l Ho Hl IH]; simpl; auto. destruct o as [x|]; [|congruence]. now rewrite IH.
Qed.
Lemma seq_opt_inv {A} (l : list (option (list A))) ops : seq_opt l = Some ops -> ops = flat_map oget l.
Proof.
  revert ops; induction l as [|o l IH]; intros ops; simpl.
  - intros H; now inversion H.
  - destruct o as [x|]; [|discriminate]. destruct (seq_opt l) as [y|]; [|discriminate].
    intros H; inversion H; subst. simpl. f_equal. now apply IH.
Qed.

Lemma gene_ops_some r : forall p, noinv r -> Forall (fun e => snd e <> None) (gene_ops p r).
Proof.
  induction r as [s|s a IHa b IHb]; intros p N; simpl.
  - repeat constructor. simpl. discriminate.
  - destruct N as [E [Na Nb]]. rewrite !Forall_app. repeat split; auto.
    repeat constructor. simpl. destruct (node_ops_shape p s (root a) (root b) E) as [h [_ ->]]. discriminate.
Qed.

Lemma flat_map_flat_map {A B C} (f : B -> list C) (g : A -> list B) l :
  flat_map f (flat_map g l) = flat_map (fun x => flat_map f (g x)) l.
Proof. induction l as [|x l IH]; simpl; auto. now rewrite flat_map_app, IH. Qed.

Lemma flat_map_map {A B C} (f : B -> list C) (g : A -> B) l :
  flat_map f (map g l) = flat_map (fun x => f (g x)) l.
Proof. induction l as [|x l IH]; simpl; auto. now rewrite IH. Qed.

(* the ops performed during the turn of species [X] *)
Definition turn_ops (X : path) (p : path) (r : rtree) : list op :=
  flat_map (fun e => oget (snd e)) (filter (fun e => path_eqb (fst e) X) (gene_ops p r)).

Lemma all_ops_defined S r : noinv r ->
  all_ops S r = Some (flat_map (fun X => turn_ops X [] r) (spost S)).
Proof.
  intros N. unfold all_ops. rewrite seq_opt_some.
  - f_equal. rewrite flat_map_flat_map. apply flat_map_ext. intros X. unfold turn, turn_ops.
    now rewrite flat_map_map.
  - rewrite Forall_forall. intros o H. apply in_flat_map in H as [X [_ H]]. unfold turn in H.
    apply in_map_iff in H as [e [<- H]]. apply filter_In in H as [H _].
    pose proof (gene_ops_some r [] N) as F. rewrite Forall_forall in F. now apply F.
Qed.

(** grouping a list by a key that takes each of its values in a duplicate-free key list *)
Lemma flat_map_single {A} (keys : list path) (k : path) (x : A) :
  NoDup keys -> In k keys -> flat_map (fun X => if path_eqb k X then [x] else []) keys = [x].
Proof.
  induction 1 as [|y keys Hy ND IH]; simpl; [tauto|]. intros [->|H].
  - destruct (path_eqb_spec k k); [|congruence]. simpl. f_equal.
    clear IH ND. induction keys as [|z keys IH]; simpl; auto.
    destruct (path_eqb_spec k z); [subst; simpl in Hy; tauto|]. simpl. apply IH. simpl in Hy. tauto.
  - destruct (path_eqb_spec k y); [subst; contradiction|]. simpl. auto.
Qed.

Lemma flat_map_app_perm {A B} (f g : A -> list B) l :
  Permutation (flat_map (fun x => f x ++ g x) l) (flat_map f l ++ flat_map g l).
Proof.
  induction l as [|x l IH]; simpl; auto.
  rewrite IH. rewrite <- !app_assoc. apply Permutation_app_head.
  rewrite !app_assoc. apply Permutation_app_tail. apply Permutation_app_comm.
Qed.

Lemma group_perm {A} (key : A -> path) (keys : list path) (l : list A) :
  NoDup keys -> (forall e, In e l -> In (key e) keys) ->
  Permutation (flat_map (fun X => filter (fun e => path_eqb (key e) X) l) keys) l.
Proof.
  intros ND. induction l as [|e l IH]; intros K; simpl.
  - clear. induction keys; simpl; auto.
  - transitivity (flat_map (fun X => (if path_eqb (key e) X then [e] else []) ++ filter (fun e0 => path_eqb (key e0) X) l) keys).
    + apply Permutation_refl'. apply flat_map_ext. intros X. destruct (path_eqb (key e) X); reflexivity.
    + rewrite flat_map_app_perm. rewrite flat_map_single by (auto; apply K; now left).
      simpl. constructor. apply IH. intros e0 H. apply K. now right.
Qed.

Lemma spost_perm S : Permutation (spost S) (snodes S).
Proof.
  induction S as [|l IHl r IHr]; simpl; auto.
  rewrite app_assoc. rewrite <- Permutation_cons_append. constructor.
  apply Permutation_app; now apply Permutation_map.
Qed.
Lemma spost_nodup S : NoDup (spost S).
Proof. eapply Permutation_NoDup; [symmetry; apply spost_perm|apply snodes_nodup]. Qed.
Lemma spost_valid S p : In p (spost S) <-> valid_sp S p = true.
Proof.
  rewrite <- snodes_valid. split; apply Permutation_in; [|symmetry]; apply spost_perm.
Qed.

Lemma gene_ops_species S r : forall p e, species_in S r -> In e (gene_ops p r) -> valid_sp S (fst e) = true.
Proof.
  induction r as [s|s a IHa b IHb]; intros p e V; simpl.
  - intros [<-|[]]. exact V.
  - destruct V as [Vs [Va Vb]]. rewrite !in_app_iff. intros [H|[H|[<-|[]]]]; eauto.
Qed.

(** the species-major order of the code is a permutation of the object post-order *)
Lemma all_ops_perm S r ops : noinv r -> species_in S r -> all_ops S r = Some ops -> Permutation ops (raw_ops [] r).
Proof.
  intros N V H. rewrite (all_ops_defined S r N) in H. inversion H; subst. clear H.
  unfold turn_ops, raw_ops. rewrite <- flat_map_flat_map.
  apply Permutation_flat_map. apply group_perm; [apply spost_nodup|].
  intros e He. apply spost_valid. eapply gene_ops_species; eauto.
Qed.

(** * One branch per object node; loss markers against the evaluator's loss list *)
Definition real_adds (ops : list op) : list (path * path * kind) :=
  flat_map (fun o => match o with
                     | Add Y b => match snd (b_id b) with 0 => [(Y, fst (b_id b), b_kind b)] | S _ => [] end
                     | Rem _ _ => []
                     end) ops.
Definition loss_species (ops : list op) : list path :=
  flat_map (fun o => match o with
                     | Add Y b => match b_kind b with KLoss => [Y] | _ => [] end
                     | Rem _ _ => []
                     end) ops.

(* (species the node is mapped to, object path, kind of the evaluator's event), post-order *)
Fixpoint nodes_info (p : path) (r : rtree) : list (path * path * kind) :=
  match r with
  | RLeaf s => [(s, p, KLeaf)]
  | RNode s a b => nodes_info (p ++ [false]) a ++ nodes_info (p ++ [true]) b
                   ++ [(s, p, kind_of_ev (event s (root a) (root b)))]
  end.

Lemma real_adds_app a b : real_adds (a ++ b) = real_adds a ++ real_adds b.
Proof. apply flat_map_app. Qed.
Lemma loss_species_app a b : loss_species (a ++ b) = loss_species a ++ loss_species b.
Proof. apply flat_map_app. Qed.

Lemma real_adds_chain g k e base : real_adds (chain_ops g k e base) = [].
Proof. revert k; induction e as [|x e IH]; intros k; simpl; auto. Qed.

Lemma loss_species_chain g k e base : loss_species (chain_ops g k e base) = rev (chain base (rev e)).
Proof.
  revert k; induction e as [|x e IH]; intros k; simpl; auto.
  rewrite chain_app, rev_app_distr. simpl. f_equal. apply IH.
Qed.
Lemma loss_species_cops c d base : loss_species (cops c d base) = rev (chain base d).
Proof. unfold cops. now rewrite loss_species_chain, rev_involutive. Qed.

Lemma shape_rems p s la lb h : shape_ok p s la lb h -> forall o, In o (rems h) -> exists a, o = Rem s a.
Proof.
  intros [_ H] o. destruct (event s la lb); try tauto.
  - destruct H as [_ [_ [_ [_ ->]]]]. simpl; tauto.
  - destruct H as [_ [_ [_ [_ ->]]]]. simpl. intros [<-|[<-|[]]]; eauto.
  - destruct H as [_ [_ [_ [_ ->]]]]. simpl. intros [<-|[]]; eauto.
  - destruct H as [_ [_ [_ [_ ->]]]]. simpl. intros [<-|[]]; eauto.
Qed.

Lemma real_adds_rems l s : (forall o, In o l -> exists a, o = Rem s a) -> real_adds l = [].
Proof.
  induction l as [|o l IH]; simpl; auto. intros H.
  destruct (H o) as [a ->]; [now left|]. simpl. apply IH. intros; apply H; now right.
Qed.
Lemma loss_species_rems l s : (forall o, In o l -> exists a, o = Rem s a) -> loss_species l = [].
Proof.
  induction l as [|o l IH]; simpl; auto. intros H.
  destruct (H o) as [a ->]; [now left|]. simpl. apply IH. intros; apply H; now right.
Qed.

Lemma real_adds_shape p s la lb k h : shape_ok p s la lb h -> real_adds (shape_ops p s k h) = [(s, p, k)].
Proof.
  intros H. unfold shape_ops, cops. rewrite !real_adds_app, !real_adds_chain. simpl.
  now rewrite (real_adds_rems _ s (shape_rems _ _ _ _ _ H)).
Qed.

Lemma kind_of_ev_not_loss e : kind_of_ev e <> KLoss.
Proof. destruct e; discriminate. Qed.

Lemma below_snoc s x d : below s (s ++ x :: d) = x :: d.
Proof. apply below_app. Qed.

Lemma loss_species_shape p s la lb h : shape_ok p s la lb h ->
  Permutation (loss_species (shape_ops p s (kind_of_ev (event s la lb)) h)) (node_losses s la lb).
Proof.
  intros H. pose proof (shape_rems _ _ _ _ _ H) as R. destruct H as [D H].
  unfold shape_ops. rewrite !loss_species_app, !loss_species_cops. simpl.
  rewrite (loss_species_rems _ s R).
  assert ((match kind_of_ev (event s la lb) with KLoss => [s] | _ => [] end) = []) as ->
    by (destruct (event s la lb); reflexivity).
  rewrite !app_nil_r. unfold node_losses, losses_speciation, losses_vertical.
  rewrite <- (Permutation_rev (chain (bL h) (dL h))), <- (Permutation_rev (chain (bR h) (dR h))).
  destruct (event s la lb) eqn:E; try tauto.
  - destruct H as [BL [BR [TL [TR _]]]]. rewrite BL, <- app_assoc in TL. rewrite BR, <- app_assoc in TR. simpl in TL, TR.
    rewrite BL, BR.
    destruct D as [[_ [_ [<- <-]]]|[_ [_ [<- <-]]]]; rewrite TL, TR, !below_snoc; simpl; auto.
    apply Permutation_app_comm.
  - destruct H as [BL [BR [TL [TR _]]]]. rewrite BL, BR.
    destruct D as [[_ [_ [<- <-]]]|[_ [_ [<- <-]]]]; rewrite TL, TR, !below_app; auto.
    apply Permutation_app_comm.
  - destruct H as [BL [TL [DR [NA _]]]]. rewrite BL, DR. simpl. rewrite app_nil_r.
    destruct (event_TrL_inv _ _ _ E) as [A [B _]].
    destruct D as [[_ [_ [<- <-]]]|[_ [_ [<- <-]]]]; [|congruence].
    rewrite TL, below_app. auto.
  - destruct H as [BL [TL [DR [NA _]]]]. rewrite BL, DR. simpl. rewrite app_nil_r.
    destruct (event_TrR_inv _ _ _ E) as [A [B _]].
    destruct D as [[_ [_ [<- <-]]]|[_ [_ [<- <-]]]]; [congruence|].
    rewrite TL, below_app. auto.
Qed.

Lemma real_adds_raw r : forall p, noinv r -> real_adds (raw_ops p r) = nodes_info p r.
Proof.
  induction r as [s|s a IHa b IHb]; intros p N; [reflexivity|].
  destruct N as [E [Na Nb]]. rewrite raw_ops_node, !real_adds_app, IHa, IHb by auto. simpl. do 2 f_equal.
  destruct (node_ops_shape p s (root a) (root b) E) as [h [H ->]]. simpl.
  eapply real_adds_shape; eauto.
Qed.

Lemma loss_species_raw r : forall p, noinv r -> Permutation (loss_species (raw_ops p r)) (all_losses r).
Proof.
  induction r as [s|s a IHa b IHb]; intros p N; [simpl; auto|].
  destruct N as [E [Na Nb]]. rewrite raw_ops_node, !loss_species_app. simpl.
  rewrite (IHa _ Na), (IHb _ Nb).
  destruct (node_ops_shape p s (root a) (root b) E) as [h [H ->]]. simpl.
  rewrite (loss_species_shape _ _ _ _ _ H).
  rewrite (Permutation_app_comm (node_losses s (root a) (root b))), <- app_assoc. reflexivity.
Qed.

Lemma real_adds_perm a b : Permutation a b -> Permutation (real_adds a) (real_adds b).
Proof. apply Permutation_flat_map. Qed.
Lemma loss_species_perm a b : Permutation a b -> Permutation (loss_species a) (loss_species b).
Proof. apply Permutation_flat_map. Qed.

(* object paths of a sub-tree extend the path of its root: they are pairwise distinct *)
Lemma nodes_info_prefix r : forall p x, In x (nodes_info p r) -> exists q, snd (fst x) = p ++ q.
Proof.
  induction r as [s|s a IHa b IHb]; intros p x; simpl.
  - intros [<-|[]]. exists []. now rewrite app_nil_r.
  - rewrite !in_app_iff. intros [H|[H|[<-|[]]]].
    + destruct (IHa _ _ H) as [q ->]. exists (false :: q). now rewrite <- app_assoc.
    + destruct (IHb _ _ H) as [q ->]. exists (true :: q). now rewrite <- app_assoc.
    + exists []. now rewrite app_nil_r.
Qed.

Lemma app_cons_neq_self {A} (p : list A) x q : p ++ x :: q <> p.
Proof. intros H. apply (f_equal (@length A)) in H. rewrite app_length in H. simpl in H. lia. Qed.

Lemma nodes_info_nodup r : forall p, NoDup (map (fun x => snd (fst x)) (nodes_info p r)).
Proof.
  induction r as [s|s a IHa b IHb]; intros p; simpl; [repeat constructor; simpl; tauto|].
  rewrite !map_app. apply NoDup_app_disj; [apply IHa| |].
  - apply NoDup_app_disj; [apply IHb|simpl; repeat constructor; simpl; tauto|].
    simpl. intros x H [<-|[]]. apply in_map_iff in H as [y [E H]].
    destruct (nodes_info_prefix _ _ _ H) as [q Q]. rewrite Q, <- app_assoc in E. now apply app_cons_neq_self in E.
  - intros x H1 H2. apply in_map_iff in H1 as [y [E1 H1]]. destruct (nodes_info_prefix _ _ _ H1) as [q Q].
    rewrite Q, <- app_assoc in E1. apply in_app_iff in H2 as [H2|[<-|[]]].
    + apply in_map_iff in H2 as [z [E2 H2]]. destruct (nodes_info_prefix _ _ _ H2) as [q' Q'].
      rewrite Q', <- app_assoc, <- E1 in E2. apply app_inv_head in E2. discriminate.
    + now apply app_cons_neq_self in E1.
Qed.

(** ** Theorems *)
Theorem branches_one_per_node S O r ops :
  valid_rec S O r -> all_ops S r = Some ops ->
  Permutation (real_adds ops) (nodes_info [] r) /\ NoDup (map (fun x => snd (fst x)) (nodes_info [] r)).
Proof.
  intros V H. split; [|apply nodes_info_nodup].
  rewrite <- (real_adds_raw r [] (valid_rec_noinv _ _ _ V)). apply real_adds_perm.
  eapply all_ops_perm; eauto using valid_rec_noinv, valid_rec_species_in.
Qed.

Theorem losses_match_recount S O r ops :
  valid_rec S O r -> all_ops S r = Some ops -> Permutation (loss_species ops) (all_losses r).
Proof.
  intros V H. rewrite <- (loss_species_raw r [] (valid_rec_noinv _ _ _ V)). apply loss_species_perm.
  eapply all_ops_perm; eauto using valid_rec_noinv, valid_rec_species_in.
Qed.

Theorem all_ops_total S O r : valid_rec S O r -> exists ops, all_ops S r = Some ops.
Proof. intros V. eexists. apply all_ops_defined. eapply valid_rec_noinv; eauto. Qed.

(** * Where an operation comes from *)
Definition nops (p s : path) (a b : rtree) : list op := oget (node_ops p s (root a) (root b)).

Lemma raw_in_inv r : forall p o, In o (raw_ops p r) ->
  exists q, (exists s, rsub r q = Some (RLeaf s) /\ o = Add s (mkB (p ++ q, 0) KLeaf None None)) \/
            (exists s a b, rsub r q = Some (RNode s a b) /\ In o (nops (p ++ q) s a b)).
Proof.
  induction r as [s|s a IHa b IHb]; intros p o.
  - rewrite raw_ops_leaf. intros [<-|[]]. exists []. left. exists s. now rewrite app_nil_r.
  - rewrite raw_ops_node, !in_app_iff. intros [H|[H|H]].
    + destruct (IHa _ _ H) as [q Hq]. exists (false :: q). rewrite <- app_assoc in Hq. exact Hq.
    + destruct (IHb _ _ H) as [q Hq]. exists (true :: q). rewrite <- app_assoc in Hq. exact Hq.
    + exists []. right. exists s, a, b. rewrite app_nil_r. auto.
Qed.

Lemma raw_in_node r : forall p q s a b, rsub r q = Some (RNode s a b) -> incl (nops (p ++ q) s a b) (raw_ops p r).
Proof.
  induction r as [s0|s0 a0 IHa b0 IHb]; intros p [|[|] q] s a b H; simpl in H; try discriminate.
  - inversion H; subst. rewrite app_nil_r, raw_ops_node. intros o Ho. rewrite !in_app_iff. auto.
  - rewrite raw_ops_node. intros o Ho. rewrite !in_app_iff. right; left.
    apply (IHb (p ++ [true]) q s a b H). now rewrite <- app_assoc.
  - rewrite raw_ops_node. intros o Ho. rewrite !in_app_iff. left.
    apply (IHa (p ++ [false]) q s a b H). now rewrite <- app_assoc.
Qed.

Lemma nops_shape p s a b : event s (root a) (root b) <> Inv ->
  exists h, shape_ok p s (root a) (root b) h /\ nops p s a b = shape_ops p s (kind_of_ev (event s (root a) (root b))) h.
Proof. intros E. unfold nops. destruct (node_ops_shape p s (root a) (root b) E) as [h [H ->]]. eauto. Qed.

Lemma rsub_event r q s a b : noinv r -> rsub r q = Some (RNode s a b) -> event s (root a) (root b) <> Inv.
Proof. intros N H. apply (rsub_noinv _ _ _ N) in H. simpl in H. tauto. Qed.

(* every node owns a branch in the species it is mapped to *)
Lemma own_add r : forall p q t, noinv r -> rsub r q = Some t ->
  exists b, In (Add (root t) b) (raw_ops p r) /\ b_id b = (p ++ q, 0).
Proof.
  induction r as [s0|s0 a0 IHa b0 IHb]; intros p [|[|] q] t N H; simpl in H; try discriminate.
  - inversion H; subst. eexists; split; [rewrite raw_ops_leaf; left; reflexivity|]. simpl. now rewrite app_nil_r.
  - inversion H; subst. destruct N as [E _]. destruct (nops_shape p s0 a0 b0 E) as [h [_ Hh]].
    eexists; split.
    + rewrite raw_ops_node, !in_app_iff. right; right. fold (nops p s0 a0 b0). rewrite Hh.
      unfold shape_ops. rewrite !in_app_iff. right; right. left. reflexivity.
    + simpl. now rewrite app_nil_r.
  - destruct N as [_ [_ Nb]]. destruct (IHb (p ++ [true]) q t Nb H) as [b [I E]].
    exists b. rewrite raw_ops_node, !in_app_iff. rewrite <- app_assoc in E. auto.
  - destruct N as [_ [Na _]]. destruct (IHa (p ++ [false]) q t Na H) as [b [I E]].
    exists b. rewrite raw_ops_node, !in_app_iff. rewrite <- app_assoc in E. auto.
Qed.

(** * Pseudo-gene chains *)
Lemma chain_no_rem g k e base Y a : ~ In (Rem Y a) (chain_ops g k e base).
Proof. revert k; induction e as [|x e IH]; intros k; simpl; [tauto|]. intros [H|H]; [discriminate|]. eapply IH; eauto. Qed.

Lemma chain_top g e base : forall k, e <> [] ->
  exists b, In (Add base b) (chain_ops g k e base) /\ b_id b = (g, k + length e).
Proof.
  induction e as [|x e IH]; intros k NE; [congruence|]. destruct e as [|y e].
  - simpl. rewrite app_nil_r. eexists; split; [left; reflexivity|]. simpl. f_equal. lia.
  - destruct (IH (S k)) as [b [I E]]; [discriminate|]. exists b. split; [right; exact I|].
    rewrite E. f_equal. simpl. lia.
Qed.

(* a loss branch keeps the previous gene of its chain, found one species below on side [x] *)
Lemma chain_clause g e base Y b : forall k, In (Add Y b) (chain_ops g k e base) ->
  b_kind b = KLoss /\
  exists (x : bool) j, k <= j < k + length e /\ b_id b = (g, S j) /\
    b_left b = (if x then None else Some (g, j)) /\ b_right b = (if x then Some (g, j) else None) /\
    ((j = k /\ Y ++ [x] = base ++ rev e) \/
     (exists b', In (Add (Y ++ [x]) b') (chain_ops g k e base) /\ b_id b' = (g, j))).
Proof.
  induction e as [|x0 e IH]; intros k; simpl; [tauto|]. intros [H|H].
  - inversion H; subst. simpl. split; auto. exists x0, k. repeat split; auto; try lia.
    left. split; auto. now rewrite <- app_assoc.
  - destruct (IH _ H) as [K [x [j [J [I [L [R D]]]]]]]. split; auto.
    exists x, j. repeat split; auto; try lia. right. destruct D as [[-> E]|[b' [I' E']]].
    + rewrite E. eexists; split; [left; reflexivity|]. reflexivity.
    + exists b'. split; auto.
Qed.

(** * Removals *)
Definition all_rems (ops : list op) : list anchor :=
  flat_map (fun o => match o with Rem _ a => [a] | Add _ _ => [] end) ops.
Lemma all_rems_app a b : all_rems (a ++ b) = all_rems a ++ all_rems b.
Proof. apply flat_map_app. Qed.
Lemma all_rems_In a ops : In a (all_rems ops) <-> exists Y, In (Rem Y a) ops.
Proof.
  unfold all_rems. rewrite in_flat_map. split.
  - intros [[Y b|Y a'] [H I]]; simpl in I; [tauto|]. destruct I as [->|[]]. eauto.
  - intros [Y H]. exists (Rem Y a). simpl; auto.
Qed.
Lemma all_rems_chain g k e base : all_rems (chain_ops g k e base) = [].
Proof. revert k; induction e as [|x e IH]; intros k; simpl; auto. Qed.

Lemma shape_rem_in p s k h Y a : In (Rem Y a) (shape_ops p s k h) -> In (Rem Y a) (rems h).
Proof.
  unfold shape_ops, cops. rewrite !in_app_iff. simpl. intros [H|[H|[H|H]]]; auto; try discriminate;
    exfalso; eapply chain_no_rem; eauto.
Qed.

Definition child (a b : rtree) (x : bool) : rtree := if x then b else a.

Lemma snoc_neq (p : path) : p ++ [false] <> p ++ [true].
Proof. intros H. apply app_inv_head in H. discriminate. Qed.

Lemma shape_side q s a b h : shape_ok q s (root a) (root b) h ->
  exists x, cL h = q ++ [x] /\ tL h = root (child a b x) /\ cR h = q ++ [negb x] /\ tR h = root (child a b (negb x)).
Proof.
  intros [[[A [B [C D]]]|[A [B [C D]]]] _]; [exists false|exists true]; simpl; auto.
Qed.

(* what a node removes: conserved children (at or below its species), at the top of their chains *)
Lemma shape_rems_spec q s a b h : shape_ok q s (root a) (root b) h -> forall Y c k, In (Rem Y (c, k)) (rems h) ->
  Y = s /\ event s (root a) (root b) <> Spe /\
  exists x, c = q ++ [x] /\ anc s (root (child a b x)) = true /\ k = length (below s (root (child a b x))).
Proof.
  intros H Y c k. destruct (shape_side _ _ _ _ _ H) as [x [A [B [C D]]]]. destruct H as [_ H].
  destruct (event s (root a) (root b)); try tauto.
  - destruct H as [_ [_ [_ [_ ->]]]]. simpl; tauto.
  - destruct H as [BL [BR [TL [TR ->]]]]. simpl. intros [E|[E|[]]]; inversion E; subst Y c k; repeat split; auto; try discriminate.
    + exists x. rewrite <- B, TL, anc_self_app, below_app. auto.
    + exists (negb x). rewrite <- D, TR, anc_self_app, below_app. auto.
  - destruct H as [BL [TL [DR [NA ->]]]]. simpl. intros [E|[]]; inversion E; subst Y c k; repeat split; auto; try discriminate.
    exists x. rewrite <- B, TL, anc_self_app, below_app. auto.
  - destruct H as [BL [TL [DR [NA ->]]]]. simpl. intros [E|[]]; inversion E; subst Y c k; repeat split; auto; try discriminate.
    exists x. rewrite <- B, TL, anc_self_app, below_app. auto.
Qed.

Lemma rem_inv r Y c k : noinv r -> In (Rem Y (c, k)) (raw_ops [] r) ->
  exists q x s a b, c = q ++ [x] /\ rsub r q = Some (RNode s a b) /\ Y = s /\
    event s (root a) (root b) <> Spe /\
    anc s (root (child a b x)) = true /\ k = length (below s (root (child a b x))).
Proof.
  intros N H. destruct (raw_in_inv _ _ _ H) as [q [[s [_ E]]|[s [a [b [R I]]]]]]; [discriminate|].
  simpl in I. destruct (nops_shape q s a b (rsub_event _ _ _ _ _ N R)) as [h [Hh E]].
  rewrite E in I. apply shape_rem_in in I.
  destruct (shape_rems_spec _ _ _ _ _ Hh _ _ _ I) as [-> [NS [x [-> [A K]]]]].
  exists q, x, s, a, b. repeat split; auto.
Qed.

(* removed anchors have pairwise distinct object paths *)
Lemma rems_prefix r : forall p a, noinv r -> In a (all_rems (raw_ops p r)) -> exists x rest, fst a = p ++ x :: rest.
Proof.
  induction r as [s|s a IHa b IHb]; intros p c N; [simpl; tauto|].
  destruct N as [E [Na Nb]]. rewrite raw_ops_node, !all_rems_app, !in_app_iff. intros [H|[H|H]].
  - destruct (IHa _ _ Na H) as [x [rest ->]]. exists false, (x :: rest). now rewrite <- app_assoc.
  - destruct (IHb _ _ Nb H) as [x [rest ->]]. exists true, (x :: rest). now rewrite <- app_assoc.
  - fold (nops p s a b) in H. destruct (nops_shape p s a b E) as [h [Hh Eh]]. rewrite Eh in H.
    apply all_rems_In in H as [Y H]. apply shape_rem_in in H. destruct c as [c k].
    destruct (shape_rems_spec _ _ _ _ _ Hh _ _ _ H) as [_ [_ [x [-> _]]]]. exists x, []. reflexivity.
Qed.

Lemma shape_all_rems_nodup q s a b h : shape_ok q s (root a) (root b) h ->
  NoDup (map fst (all_rems (shape_ops q s (kind_of_ev (event s (root a) (root b))) h))) /\
  forall c, In c (map fst (all_rems (shape_ops q s (kind_of_ev (event s (root a) (root b))) h))) -> exists x, c = q ++ [x].
Proof.
  intros H. destruct (shape_side _ _ _ _ _ H) as [x [A [_ [C _]]]].
  unfold shape_ops, cops. rewrite !all_rems_app, !all_rems_chain. simpl. destruct H as [_ H].
  destruct (event s (root a) (root b)); try tauto.
  - destruct H as [_ [_ [_ [_ ->]]]]. simpl. split; [constructor|tauto].
  - destruct H as [_ [_ [_ [_ ->]]]]. simpl. rewrite A, C. split.
    + repeat constructor; simpl; [|tauto]. intros [E|[]]. apply app_inv_head in E. destruct x; discriminate.
    + intros c [<-|[<-|[]]]; eauto.
  - destruct H as [_ [_ [_ [_ ->]]]]. simpl. rewrite A. split; [repeat constructor; simpl; tauto|]. intros c [<-|[]]; eauto.
  - destruct H as [_ [_ [_ [_ ->]]]]. simpl. rewrite A. split; [repeat constructor; simpl; tauto|]. intros c [<-|[]]; eauto.
Qed.

Lemma rems_nodup r : forall p, noinv r -> NoDup (map fst (all_rems (raw_ops p r))).
Proof.
  induction r as [s|s a IHa b IHb]; intros p N; [simpl; constructor|].
  destruct N as [E [Na Nb]]. rewrite raw_ops_node, !all_rems_app, !map_app.
  fold (nops p s a b). destruct (nops_shape p s a b E) as [h [Hh ->]].
  destruct (shape_all_rems_nodup _ _ _ _ _ Hh) as [ND SH].
  apply NoDup_app_disj; [apply IHa; auto| |].
  - apply NoDup_app_disj; [apply IHb; auto|exact ND|].
    intros c H1 H2. apply in_map_iff in H1 as [c1 [<- H1]].
    destruct (rems_prefix _ _ _ Nb H1) as [x [rest P]]. destruct (SH _ H2) as [y Y].
    rewrite P, <- app_assoc in Y. apply app_inv_head in Y. discriminate.
  - intros c H1 H2. apply in_map_iff in H1 as [c1 [<- H1]].
    destruct (rems_prefix _ _ _ Na H1) as [x [rest P]]. rewrite P, <- app_assoc in H2.
    apply in_app_iff in H2 as [H2|H2].
    + apply in_map_iff in H2 as [c2 [E2 H2]]. destruct (rems_prefix _ _ _ Nb H2) as [x' [rest' P']].
      rewrite P', <- app_assoc in E2. apply app_inv_head in E2. discriminate.
    + destruct (SH _ H2) as [y Y]. apply app_inv_head in Y. discriminate.
Qed.

(** * Reading a species' state off the operation list *)
Definition add_ids (X : path) (ops : list op) : list anchor := map b_id (branches_at X ops).
Fixpoint rems_at (X : path) (ops : list op) : list anchor :=
  match ops with
  | [] => []
  | Add _ _ :: t => rems_at X t
  | Rem Y a :: t => if path_eqb Y X then a :: rems_at X t else rems_at X t
  end.

Lemma branches_at_In X ops b : In b (branches_at X ops) <-> In (Add X b) ops.
Proof.
  induction ops as [|[Y b'|Y a] t IH]; simpl; [tauto| |].
  - destruct (path_eqb_spec Y X); simpl; rewrite IH; split.
    + intros [->|H]; subst; auto.
    + intros [H|H]; auto. inversion H; auto.
    + auto.
    + intros [H|H]; auto. inversion H; subst; congruence.
  - rewrite IH. split; auto. intros [H|H]; auto; discriminate.
Qed.
Lemma branches_at_app X a b : branches_at X (a ++ b) = branches_at X a ++ branches_at X b.
Proof.
  induction a as [|[Y b'|Y c] t IH]; simpl; auto. destruct (path_eqb Y X); simpl; now rewrite IH.
Qed.
Lemma add_ids_app X a b : add_ids X (a ++ b) = add_ids X a ++ add_ids X b.
Proof. unfold add_ids. now rewrite branches_at_app, map_app. Qed.
Lemma add_ids_In X ops a : In a (add_ids X ops) <-> exists b, In (Add X b) ops /\ b_id b = a.
Proof.
  unfold add_ids. rewrite in_map_iff. split; intros [b [H1 H2]]; exists b.
  - apply branches_at_In in H2. auto.
  - apply branches_at_In in H1. auto.
Qed.
Lemma rems_at_In X ops a : In a (rems_at X ops) <-> In (Rem X a) ops.
Proof.
  induction ops as [|[Y b'|Y c] t IH]; simpl; [tauto| |].
  - rewrite IH. split; auto. intros [H|H]; auto; discriminate.
  - destruct (path_eqb_spec Y X); simpl; rewrite IH; split.
    + intros [->|H]; subst; auto.
    + intros [H|H]; auto. inversion H; auto.
    + auto.
    + intros [H|H]; auto. inversion H; subst; congruence.
Qed.
Lemma rems_at_nodup X ops : NoDup (all_rems ops) -> NoDup (rems_at X ops).
Proof.
  induction ops as [|[Y b'|Y c] t IH]; simpl; auto.
  intros H. inversion H as [|? ? H1 H2]; subst. destruct (path_eqb Y X); auto.
  constructor; auto. intros I. apply H1. apply rems_at_In in I. apply all_rems_In. eauto.
Qed.

(* every removal concerning [X] is preceded by the insertion of the removed anchor in [X] *)
Fixpoint wfpos (X : path) (seen : list anchor) (ops : list op) : Prop :=
  match ops with
  | [] => True
  | Add Y b :: t => wfpos X (if path_eqb Y X then b_id b :: seen else seen) t
  | Rem Y a :: t => (path_eqb Y X = true -> In a seen) /\ wfpos X seen t
  end.

Lemma wfpos_mono X ops : forall seen seen', incl seen seen' -> wfpos X seen ops -> wfpos X seen' ops.
Proof.
  induction ops as [|[Y b|Y a] t IH]; intros seen seen' I; simpl; auto.
  - apply IH. destruct (path_eqb Y X); auto. intros z [->|H]; [now left|right; auto].
  - intros [H1 H2]. split; [intros E; apply I; auto|eapply IH; eauto].
Qed.

Lemma wfpos_app X l1 : forall seen l2,
  wfpos X seen l1 -> wfpos X (add_ids X l1 ++ seen) l2 -> wfpos X seen (l1 ++ l2).
Proof.
  induction l1 as [|[Y b|Y a] t IH]; intros seen l2; simpl; auto.
  - intros H1 H2. apply IH; auto. unfold add_ids in *. simpl in H2.
    destruct (path_eqb Y X); auto. eapply wfpos_mono; [|exact H2].
    intros z. simpl. rewrite !in_app_iff. simpl. tauto.
  - intros [H1 H2] H3. split; auto.
Qed.

Lemma wfpos_norem X ops : forall seen, (forall a, ~ In (Rem X a) ops) -> wfpos X seen ops.
Proof.
  induction ops as [|[Y b|Y a] t IH]; intros seen H; simpl; auto.
  - apply IH. intros a I. apply (H a). now right.
  - split.
    + intros E. apply path_eqb_true_iff in E. subst. exfalso. apply (H a). now left.
    + apply IH. intros a' I. apply (H a'). now right.
Qed.

Lemma wfpos_rems X l seen : (forall o, In o l -> exists Y a, o = Rem Y a /\ In a seen) -> wfpos X seen l.
Proof.
  induction l as [|o t IH]; intros H; simpl; auto.
  destruct (H o) as [Y [a [-> I]]]; [now left|]. split; auto. apply IH. intros; apply H; now right.
Qed.

(** [set.remove] never fails and an anchor that is inserted and never removed stays *)
Lemma run_ok X ops : forall acc seen R,
  (forall a, In a seen -> ~ In a R -> In a acc) ->
  NoDup (R ++ rems_at X ops) -> wfpos X seen ops ->
  exists fin, run_anchors X ops acc = Some fin /\
    forall a, In a acc \/ In a (add_ids X ops) -> ~ In a (rems_at X ops) -> In a fin.
Proof.
  induction ops as [|[Y b|Y a0] t IH]; intros acc seen R INV ND WF; simpl in *.
  - exists acc. split; auto. intros a [H|[]] _; auto.
  - unfold add_ids in *. simpl. destruct (path_eqb Y X).
    + destruct (IH (acc ++ [b_id b]) (b_id b :: seen) R) as [fin [E F]]; auto.
      { intros a [<-|H] NR; rewrite in_app_iff; [right; now left|left; auto]. }
      exists fin. split; auto. intros a H NR. apply F; auto. rewrite in_app_iff. simpl in *. tauto.
    + destruct (IH acc seen R) as [fin [E F]]; auto. exists fin. auto.
  - destruct WF as [W1 W2]. destruct (path_eqb Y X) eqn:EY.
    + assert (In a0 acc) as IA.
      { apply INV; auto. intros I. apply NoDup_remove_2 in ND. apply ND. rewrite in_app_iff. auto. }
      apply amem_In in IA. rewrite IA.
      destruct (IH (aremove a0 acc) seen (a0 :: R)) as [fin [E F]]; auto.
      { intros a H NR. apply aremove_In. split; [apply INV; auto; intros I; apply NR; now right|].
        intros ->. apply NR. now left. }
      { simpl. pose proof (NoDup_remove_1 _ _ _ ND). pose proof (NoDup_remove_2 _ _ _ ND). constructor; auto. }
      exists fin. split; auto. intros a H NR. apply F.
      * destruct H as [H|H]; auto. left. apply aremove_In. split; auto. intros ->. apply NR. now left.
      * intros I. apply NR. now right.
    + destruct (IH acc seen R) as [fin [E F]]; auto. exists fin. auto.
Qed.

(** * The turn of one species *)
Lemma turn_ops_node X p s a b :
  turn_ops X p (RNode s a b) =
  turn_ops X (p ++ [false]) a ++ turn_ops X (p ++ [true]) b ++ (if path_eqb s X then nops p s a b else []).
Proof.
  unfold turn_ops. simpl. rewrite !filter_app, !flat_map_app. simpl.
  destruct (path_eqb s X); simpl; now rewrite ?app_nil_r.
Qed.

Lemma turn_rem X r : forall p Y a, noinv r -> In (Rem Y a) (turn_ops X p r) -> Y = X.
Proof.
  induction r as [s|s a IHa b IHb]; intros p Y c N.
  - unfold turn_ops. simpl. destruct (path_eqb s X); simpl; [intros [H|[]]; discriminate|tauto].
  - destruct N as [E [Na Nb]]. rewrite turn_ops_node, !in_app_iff. intros [H|[H|H]]; eauto.
    destruct (path_eqb_spec s X); [|simpl in H; tauto]. subst.
    destruct (nops_shape p X a b E) as [h [Hh Eh]]. rewrite Eh in H. apply shape_rem_in in H.
    destruct c as [c k]. now destruct (shape_rems_spec _ _ _ _ _ Hh _ _ _ H) as [-> _].
Qed.

Lemma shape_nonspe q s la lb h : shape_ok q s la lb h -> event s la lb <> Spe ->
  bL h = s /\ tL h = s ++ dL h /\ (dR h = [] \/ (bR h = s /\ tR h = s ++ dR h)) /\
  forall o, In o (rems h) -> o = Rem s (cL h, length (dL h)) \/ (o = Rem s (cR h, length (dR h)) /\ bR h = s /\ tR h = s ++ dR h).
Proof.
  intros [_ H] NS. destruct (event s la lb); try tauto.
  - destruct H as [BL [BR [TL [TR ->]]]]. repeat split; auto. simpl. intros o [<-|[<-|[]]]; auto.
  - destruct H as [BL [TL [DR [NA ->]]]]. repeat split; auto. simpl. intros o [<-|[]]; auto.
  - destruct H as [BL [TL [DR [NA ->]]]]. repeat split; auto. simpl. intros o [<-|[]]; auto.
Qed.

Lemma shape_spe q s la lb h : shape_ok q s la lb h -> event s la lb = Spe ->
  bL h = s ++ [false] /\ bR h = s ++ [true] /\ tL h = bL h ++ dL h /\ tR h = bR h ++ dR h /\ rems h = [].
Proof. intros [_ H] E. rewrite E in H. exact H. Qed.

Lemma shape_chains q s la lb h : shape_ok q s la lb h ->
  tL h = bL h ++ dL h /\ (dR h = [] \/ tR h = bR h ++ dR h).
Proof.
  intros H. destruct (event s la lb) eqn:E.
  - destruct (shape_spe _ _ _ _ _ H E) as [_ [_ [A [B _]]]]. auto.
  - destruct (shape_nonspe _ _ _ _ _ H) as [A [B [[C|[C D]] _]]]; try congruence; rewrite A; auto. rewrite C; auto.
  - destruct (shape_nonspe _ _ _ _ _ H) as [A [B [[C|[C D]] _]]]; try congruence; rewrite A; auto. rewrite C; auto.
  - destruct (shape_nonspe _ _ _ _ _ H) as [A [B [[C|[C D]] _]]]; try congruence; rewrite A; auto. rewrite C; auto.
  - destruct H as [_ H]. rewrite E in H. tauto.
Qed.

(* the top of a chain: the last pseudo-gene, in [base], or the node itself when the chain is empty *)
Lemma cops_top c d base : d <> [] -> exists b, In (Add base b) (cops c d base) /\ b_id b = (c, length d).
Proof.
  intros ND. unfold cops. destruct (chain_top c (rev d) base 0) as [b [I E]].
  - intros H. apply (f_equal (@rev bool)) in H. rewrite rev_involutive in H. auto.
  - exists b. rewrite rev_length in E. auto.
Qed.

Lemma turn_wf X r : forall p seen, noinv r ->
  wfpos X seen (turn_ops X p r) /\ (root r = X -> In (p, 0) (add_ids X (turn_ops X p r))).
Proof.
  induction r as [s|s a IHa b IHb]; intros p seen N.
  - unfold turn_ops. simpl. destruct (path_eqb_spec s X); simpl.
    + split; auto. intros _. unfold add_ids. simpl. destruct (path_eqb_spec s X); [|congruence]. now left.
    + split; auto; simpl; intros; congruence.
  - destruct N as [E [Na Nb]]. rewrite turn_ops_node. split.
    + apply wfpos_app; [apply IHa; auto|]. apply wfpos_app; [apply IHb; auto|].
      destruct (path_eqb_spec s X); [|simpl; auto]. subst s.
      destruct (nops_shape p X a b E) as [h [Hh ->]]. unfold shape_ops.
      apply wfpos_app; [apply wfpos_norem; intros c I; eapply chain_no_rem; exact I|].
      apply wfpos_app; [apply wfpos_norem; intros c I; eapply chain_no_rem; exact I|].
      simpl. destruct (path_eqb_spec X X); [|congruence].
      apply wfpos_rems. intros o Ho.
      destruct (event X (root a) (root b)) eqn:EV.
      { destruct (shape_spe _ _ _ _ _ Hh EV) as [_ [_ [_ [_ R]]]]. rewrite R in Ho. destruct Ho. }
      all: destruct (shape_nonspe _ _ _ _ _ Hh) as [BL [TL [_ RS]]]; try congruence.
      all: destruct (shape_side _ _ _ _ _ Hh) as [x [CL [TLx [CR TRx]]]].
      all: destruct (RS o Ho) as [->|[-> [BR TR]]]; do 2 eexists; (split; [reflexivity|]).
      all: simpl; right; rewrite !in_app_iff.
      all: match goal with
           | |- In (cL ?hh, _) _ \/ _ =>
               destruct (dL h) as [|y d'] eqn:DL;
               [ rewrite app_nil_r in TL; rewrite CL; destruct x; simpl in TLx;
                 [ right; right; left; apply IHb; auto; congruence
                 | right; right; right; left; apply IHa; auto; congruence ]
               | right; left; apply add_ids_In; rewrite <- DL, <- BL; apply cops_top; rewrite DL; discriminate ]
           | |- In (cR ?hh, _) _ \/ _ =>
               destruct (dR h) as [|y d'] eqn:DR;
               [ rewrite app_nil_r in TR; rewrite CR; destruct x; simpl in TRx;
                 [ right; right; right; left; apply IHa; auto; congruence
                 | right; right; left; apply IHb; auto; congruence ]
               | left; apply add_ids_In; rewrite <- DR, <- BR; apply cops_top; rewrite DR; discriminate ]
           end.
    + simpl. intros ->. rewrite !add_ids_app, !in_app_iff. right; right.
      destruct (path_eqb_spec X X); [|congruence].
      destruct (nops_shape p X a b E) as [h [Hh ->]]. unfold shape_ops. rewrite !add_ids_app, !in_app_iff.
      right; right. unfold add_ids. simpl. destruct (path_eqb_spec X X); [|congruence]. now left.
Qed.

(** * Anchor sets of the whole operation list *)
Lemma ops_wf X r (L : list path) : noinv r -> forall seen, wfpos X seen (flat_map (fun Z => turn_ops Z [] r) L).
Proof.
  intros N. induction L as [|Z L IH]; intros seen; simpl; auto.
  apply wfpos_app; auto. destruct (path_eqb_spec Z X).
  - subst. apply turn_wf; auto.
  - apply wfpos_norem. intros a I. apply turn_rem in I; auto.
Qed.

Lemma all_rems_perm a b : Permutation a b -> Permutation (all_rems a) (all_rems b).
Proof. apply Permutation_flat_map. Qed.

Lemma anchors_run S r ops X : noinv r -> species_in S r -> all_ops S r = Some ops ->
  exists fin, run_anchors X ops [] = Some fin /\
    forall a, In a (add_ids X ops) -> ~ In a (all_rems ops) -> In a fin.
Proof.
  intros N V H. pose proof (all_ops_perm S r ops N V H) as P.
  rewrite (all_ops_defined S r N) in H. inversion H as [E]. clear H.
  destruct (run_ok X ops [] [] []) as [fin [R F]].
  - simpl; tauto.
  - simpl. apply rems_at_nodup. eapply Permutation_NoDup; [symmetry; apply all_rems_perm; exact P|].
    eapply NoDup_map_inv. apply rems_nodup; auto.
  - rewrite <- E. apply ops_wf; auto.
  - rewrite E. exists fin. split; auto. intros a I NR. apply F; [right; exact I|]. intros I'. apply NR.
    apply rems_at_In in I'. apply all_rems_In. eauto.
Qed.

Definition is_anchor (X : path) (ops : list op) (a : anchor) : Prop :=
  exists bs ancs, species_state X ops = Some (bs, ancs) /\ In a ancs.

Lemma is_anchor_intro S r ops X a : noinv r -> species_in S r -> all_ops S r = Some ops ->
  In a (add_ids X ops) -> ~ In a (all_rems ops) -> is_anchor X ops a.
Proof.
  intros N V H I NR. destruct (anchors_run S r ops X N V H) as [fin [R F]].
  unfold is_anchor, species_state. rewrite R. do 2 eexists. split; [reflexivity|].
  apply filter_In. split; [exact I|]. apply amem_In. auto.
Qed.

Lemma species_state_total S r ops X : noinv r -> species_in S r -> all_ops S r = Some ops ->
  exists st, species_state X ops = Some st.
Proof.
  intros N V H. destruct (anchors_run S r ops X N V H) as [fin [R _]].
  unfold species_state. rewrite R. eauto.
Qed.

Lemma seq_opt1_some {A} (l : list (option A)) : Forall (fun o => o <> None) l -> exists x, seq_opt1 l = Some x.
Proof.
  induction 1 as [|o l Ho Hl [y IH]]; simpl; eauto. destruct o as [x|]; [|congruence]. rewrite IH. eauto.
Qed.

Theorem branches_total S O r : valid_rec S O r -> exists out, branches S r = Some out.
Proof.
  intros V. pose proof (valid_rec_noinv _ _ _ V) as N. pose proof (valid_rec_species_in _ _ _ V) as SI.
  unfold branches. rewrite (all_ops_defined S r N). apply seq_opt1_some.
  rewrite Forall_forall. intros o H. apply in_map_iff in H as [X [<- _]].
  destruct (species_state_total S r _ X N SI (all_ops_defined S r N)) as [st ->]. discriminate.
Qed.

(** * What every branch refers to exists *)
Section Clauses.
  Variables (S : stree) (r : rtree) (ops : list op).
  Hypothesis N : noinv r.
  Hypothesis V : species_in S r.
  Hypothesis H : all_ops S r = Some ops.

  Let P : Permutation ops (raw_ops [] r) := all_ops_perm S r ops N V H.

  Lemma in_ops_raw o : In o ops <-> In o (raw_ops [] r).
  Proof. split; apply Permutation_in; [exact P|symmetry; exact P]. Qed.

  Lemma added_raw X b : In (Add X b) (raw_ops [] r) -> In (b_id b) (add_ids X ops).
  Proof. intros I. apply add_ids_In. exists b. split; auto. now apply in_ops_raw. Qed.

  Lemma not_removed a : (forall Y, ~ In (Rem Y a) (raw_ops [] r)) -> ~ In a (all_rems ops).
  Proof. intros F I. apply all_rems_In in I as [Y I]. apply in_ops_raw in I. eapply F; eauto. Qed.

  (* the child [q ++ [x]] of the node at [q], mapped to [t], has its own branch in [t] *)
  Lemma child_added q s a b x : rsub r q = Some (RNode s a b) ->
    In (q ++ [x], 0) (add_ids (root (child a b x)) ops).
  Proof.
    intros R. pose proof (rsub_snoc _ _ _ _ _ x R) as R'. fold (child a b x) in R'.
    destruct (own_add r [] _ _ N R') as [b' [I E]]. simpl in E. rewrite <- E. now apply added_raw.
  Qed.

  (* the top of the chain of child [c] (mapped to [base ++ d]) sits in [base] *)
  Lemma top_added q s a b k h c d base x :
    rsub r q = Some (RNode s a b) -> nops q s a b = shape_ops q s k h ->
    c = q ++ [x] -> root (child a b x) = base ++ d ->
    incl (cops c d base) (shape_ops q s k h) ->
    In (c, length d) (add_ids base ops).
  Proof.
    intros R E -> T I. destruct d as [|y d].
    - rewrite app_nil_r in T. rewrite <- T. simpl. now apply child_added with (s := s).
    - destruct (cops_top (q ++ [x]) (y :: d) base) as [b' [I' E']]; [discriminate|].
      apply add_ids_In. exists b'. split; [|exact E']. apply in_ops_raw.
      apply (raw_in_node r [] q s a b R). simpl. rewrite E. now apply I.
  Qed.

  Lemma removal_node q x k Y s a b : rsub r q = Some (RNode s a b) -> In (Rem Y (q ++ [x], k)) (raw_ops [] r) ->
    event s (root a) (root b) <> Spe /\ anc s (root (child a b x)) = true /\ k = length (below s (root (child a b x))).
  Proof.
    intros R I. destruct (rem_inv _ _ _ _ N I) as [q' [x' [s' [a' [b' [E [R' [_ [NS [A K]]]]]]]]]].
    apply app_inj_tail in E as [<- <-]. rewrite R in R'. inversion R'; subst. auto.
  Qed.

  Theorem clauses X b : In b (branches_at X ops) ->
    match b_kind b with
    | KLeaf => True
    | KSpe => exists aL aR, b_left b = Some aL /\ b_right b = Some aR /\
                is_anchor (X ++ [false]) ops aL /\ is_anchor (X ++ [true]) ops aR
    | KLoss => exists (x : bool) a, b_left b = (if x then None else Some a) /\ b_right b = (if x then Some a else None) /\
                is_anchor (X ++ [x]) ops a
    | KDup => exists aL aR, b_left b = Some aL /\ b_right b = Some aR /\ In aL (add_ids X ops) /\ In aR (add_ids X ops)
    | KTr => exists aL q s a c x, b_left b = Some aL /\ In aL (add_ids X ops) /\
               rsub r q = Some (RNode s a c) /\ X = s /\ b_id b = (q, 0) /\ fst aL = q ++ [negb x] /\
               anc s (root (child a c (negb x))) = true /\ anc s (root (child a c x)) = false /\
               b_right b = Some (q ++ [x], 0) /\ is_anchor (root (child a c x)) ops (q ++ [x], 0)
    end.
  Proof.
    intros I. apply branches_at_In, in_ops_raw in I.
    destruct (raw_in_inv _ _ _ I) as [q [[s [_ E]]|[s [a [c [R I']]]]]]; [inversion E; subst; exact Logic.I|].
    simpl in I'. pose proof (rsub_event _ _ _ _ _ N R) as EV.
    destruct (nops_shape q s a c EV) as [h [Hh E]]. rewrite E in I'.
    destruct (shape_side _ _ _ _ _ Hh) as [x [CL [TLx [CR TRx]]]].
    destruct (shape_chains _ _ _ _ _ Hh) as [TL TR].
    assert (forall a0, In a0 (add_ids X ops) -> (forall Y, ~ In (Rem Y a0) (raw_ops [] r)) -> is_anchor X ops a0) as IA
      by (intros; eapply is_anchor_intro; eauto using not_removed).
    assert (forall Z a0, In a0 (add_ids Z ops) -> (forall Y, ~ In (Rem Y a0) (raw_ops [] r)) -> is_anchor Z ops a0) as IAZ
      by (intros; eapply is_anchor_intro; eauto using not_removed).
    unfold shape_ops in I'. rewrite !in_app_iff in I'. destruct I' as [I'|[I'|[I'|I']]].
    - (* a pseudo-gene of the left chain *)
      unfold cops in I'. destruct (chain_clause _ _ _ _ _ _ I') as [-> [y [j [J [ID [L [Rr D]]]]]]].
      rewrite rev_length, rev_involutive in *. exists y, (cL h, j). repeat split; auto. apply IAZ.
      + destruct D as [[-> D]|[b' [Ib' Eb']]].
        * rewrite D, <- TL, TLx, CL. now apply child_added with (s := s).
        * rewrite <- Eb'. apply added_raw. apply (raw_in_node r [] q s a c R). simpl. rewrite E.
          unfold shape_ops, cops. rewrite !in_app_iff. auto.
      + intros Y IR. rewrite CL in IR. destruct (removal_node _ _ _ _ _ _ _ R IR) as [NS [_ K]].
        destruct (shape_nonspe _ _ _ _ _ Hh NS) as [_ [TL' _]]. rewrite <- TLx, TL', below_app in K. lia.
    - (* a pseudo-gene of the right chain *)
      unfold cops in I'. destruct (chain_clause _ _ _ _ _ _ I') as [-> [y [j [J [ID [L [Rr D]]]]]]].
      rewrite rev_length, rev_involutive in *.
      destruct TR as [TR|TR]; [rewrite TR in J; simpl in J; lia|].
      exists y, (cR h, j). repeat split; auto. apply IAZ.
      + destruct D as [[-> D]|[b' [Ib' Eb']]].
        * rewrite D, <- TR, TRx, CR. now apply child_added with (s := s).
        * rewrite <- Eb'. apply added_raw. apply (raw_in_node r [] q s a c R). simpl. rewrite E.
          unfold shape_ops, cops. rewrite !in_app_iff. auto.
      + intros Y IR. rewrite CR in IR. destruct (removal_node _ _ _ _ _ _ _ R IR) as [NS [_ K]].
        destruct (shape_nonspe _ _ _ _ _ Hh NS) as [_ [_ [[DR|[_ TR']] _]]].
        * rewrite DR in J; simpl in J; lia.
        * rewrite <- TRx, TR', below_app in K. lia.
    - (* the node's own branch *)
      inversion I'; subst X b. simpl. clear I'.
      remember (kind_of_ev (event s (root a) (root c))) as kd eqn:KD.
      assert (incl (cops (cL h) (dL h) (bL h)) (shape_ops q s kd h)) as IL
        by (intros o Ho; unfold shape_ops; rewrite !in_app_iff; auto).
      assert (incl (cops (cR h) (dR h) (bR h)) (shape_ops q s kd h)) as IR
        by (intros o Ho; unfold shape_ops; rewrite !in_app_iff; auto).
      rewrite TLx in TL.
      pose proof (top_added q s a c kd h (cL h) (dL h) (bL h) x R E CL TL IL) as AL.
      assert (tR h = bR h ++ dR h -> In (cR h, length (dR h)) (add_ids (bR h) ops)) as AR.
      { intros TR'. rewrite TRx in TR'. exact (top_added q s a c kd h (cR h) (dR h) (bR h) (negb x) R E CR TR' IR). }
      assert (forall Y k, In (Rem Y (cL h, k)) (raw_ops [] r) ->
                event s (root a) (root c) <> Spe /\ anc s (root (child a c x)) = true) as RL.
      { intros Y k IRm. rewrite CL in IRm. destruct (removal_node _ _ _ _ _ _ _ R IRm) as [NS [A _]]. auto. }
      assert (forall Y k, In (Rem Y (cR h, k)) (raw_ops [] r) ->
                event s (root a) (root c) <> Spe /\ anc s (root (child a c (negb x))) = true) as RR.
      { intros Y k IRm. rewrite CR in IRm. destruct (removal_node _ _ _ _ _ _ _ R IRm) as [NS [A _]]. auto. }
      destruct Hh as [_ Hh].
      destruct (event s (root a) (root c)) eqn:EVk; subst kd; simpl; [| | | |congruence].
      + destruct Hh as [BL [BR [_ [TR' _]]]]. specialize (AR TR'). rewrite BL in AL. rewrite BR in AR.
        exists (cL h, length (dL h)), (cR h, length (dR h)). repeat split; auto; apply IAZ; auto.
        * intros Y IRm. destruct (RL _ _ IRm) as [NS _]. congruence.
        * intros Y IRm. destruct (RR _ _ IRm) as [NS _]. congruence.
      + destruct Hh as [BL [BR [_ [TR' _]]]]. rewrite <- BR in TR' at 1. specialize (AR TR'). rewrite BL in AL. rewrite BR in AR.
        exists (cL h, length (dL h)), (cR h, length (dR h)). repeat split; auto.
      + destruct Hh as [BL [TL' [DR [NA _]]]]. rewrite BL in AL.
        exists (cL h, length (dL h)), q, s, a, c, (negb x). rewrite negb_involutive.
        rewrite <- TLx, <- TRx, TL', anc_self_app, DR, CR. simpl. repeat split; auto.
        rewrite TRx. apply IAZ; [now apply child_added with (s := s)|].
        intros Y IRm. rewrite <- CR in IRm. destruct (RR _ _ IRm) as [_ A]. rewrite TRx in NA. congruence.
      + destruct Hh as [BL [TL' [DR [NA _]]]]. rewrite BL in AL.
        exists (cL h, length (dL h)), q, s, a, c, (negb x). rewrite negb_involutive.
        rewrite <- TLx, <- TRx, TL', anc_self_app, DR, CR. simpl. repeat split; auto.
        rewrite TRx. apply IAZ; [now apply child_added with (s := s)|].
        intros Y IRm. rewrite <- CR in IRm. destruct (RR _ _ IRm) as [_ A]. rewrite TRx in NA. congruence.
    - destruct (shape_rems _ _ _ _ _ Hh _ I') as [a0 Ea]. discriminate.
  Qed.
End Clauses.

(** ** Theorems *)
Definition branch_refs_ok (r : rtree) (ops : list op) (X : path) (b : branch) : Prop :=
  match b_kind b with
  | KLeaf => True
  | KSpe => exists aL aR, b_left b = Some aL /\ b_right b = Some aR /\
              is_anchor (X ++ [false]) ops aL /\ is_anchor (X ++ [true]) ops aR
  | KLoss => exists (x : bool) a, b_left b = (if x then None else Some a) /\ b_right b = (if x then Some a else None) /\
              is_anchor (X ++ [x]) ops a
  | KDup => exists aL aR, b_left b = Some aL /\ b_right b = Some aR /\ In aL (add_ids X ops) /\ In aR (add_ids X ops)
  | KTr => exists aL q s a c x, b_left b = Some aL /\ In aL (add_ids X ops) /\
             rsub r q = Some (RNode s a c) /\ X = s /\ b_id b = (q, 0) /\ fst aL = q ++ [negb x] /\
             anc s (root (child a c (negb x))) = true /\ anc s (root (child a c x)) = false /\
             b_right b = Some (q ++ [x], 0) /\ is_anchor (root (child a c x)) ops (q ++ [x], 0)
  end.

Theorem anchors_exist S O r ops : valid_rec S O r -> all_ops S r = Some ops ->
  (forall X, exists st, species_state X ops = Some st) /\
  (forall X b, In b (branches_at X ops) -> branch_refs_ok r ops X b).
Proof.
  intros V H. pose proof (valid_rec_noinv _ _ _ V) as N. pose proof (valid_rec_species_in _ _ _ V) as SI. split.
  - intros X. eapply species_state_total; eauto.
  - intros X b I. exact (clauses S r ops N SI H X b I).
Qed.

Theorem transfer_targets S O r ops : valid_rec S O r -> all_ops S r = Some ops ->
  forall X b, In b (branches_at X ops) -> b_kind b = KTr ->
  exists q s a c x, rsub r q = Some (RNode s a c) /\ X = s /\ b_id b = (q, 0) /\
    anc s (root (child a c x)) = false /\ anc s (root (child a c (negb x))) = true /\
    b_right b = Some (q ++ [x], 0) /\ is_anchor (root (child a c x)) ops (q ++ [x], 0).
Proof.
  intros V H X b I K. destruct (anchors_exist S O r ops V H) as [_ C]. specialize (C X b I).
  unfold branch_refs_ok in C. rewrite K in C.
  destruct C as [aL [q [s [a [c [x [_ [_ [R [EX [ID [_ [A1 [A2 [BR IA]]]]]]]]]]]]]]].
  exists q, s, a, c, x. repeat split; auto.
Qed.

(* what the harness compares: [branches S r] lists [species_state X ops] for the species of [S] *)
Lemma seq_opt1_inv {A} (l : list (option A)) out : seq_opt1 l = Some out -> l = map Some out.
Proof.
  revert out; induction l as [|o l IH]; intros out; simpl.
  - intros E; inversion E; reflexivity.
  - destruct o as [x|]; [|discriminate]. destruct (seq_opt1 l) as [y|]; [|discriminate].
    intros E; inversion E; subst. simpl. f_equal. now apply IH.
Qed.

Theorem branches_spec S r out : branches S r = Some out ->
  exists ops, all_ops S r = Some ops /\ map fst out = snodes S /\
    forall X st, In (X, st) out -> species_state X ops = Some st.
Proof.
  unfold branches. destruct (all_ops S r) as [ops|]; [|discriminate]. intros E. exists ops. split; auto.
  apply seq_opt1_inv in E. split.
  - revert out E. induction (snodes S) as [|Y l IH]; intros [|[Z st] out] E; simpl in *; try discriminate; auto.
    destruct (species_state Y ops); inversion E; subst. f_equal. now apply IH.
  - intros X st I. apply (in_map Some) in I. rewrite <- E in I. apply in_map_iff in I as [Y [EY _]].
    destruct (species_state Y ops) as [st'|] eqn:SS; [|discriminate]. inversion EY; subst. exact SS.
Qed.

Example branches_example :
  let S := SNode (SNode SLeaf SLeaf) (SNode SLeaf (SNode SLeaf SLeaf)) in
  let O := ONode (OLeaf [false; false] []) (ONode (OLeaf [false; true] [])
                 (ONode (OLeaf [true; true; false] []) (OLeaf [false; true] []))) in
  let r := RNode [true] (RLeaf [false; false]) (RNode [true] (RLeaf [false; true])
                 (RNode [true; true; false] (RLeaf [true; true; false]) (RLeaf [false; true]))) in
  valid_rec S O r /\ exists ops, all_ops S r = Some ops /\ length (loss_species ops) = 2 /\ length (real_adds ops) = 7.
Proof.
  simpl. split.
  - repeat (constructor; try reflexivity; try (vm_compute; discriminate)).
  - eexists. split; [vm_compute; reflexivity|]. split; reflexivity.
Qed.
