(** placeholder: replaced below in this session *)
From Coq Require Import List Bool Arith ZArith Lia.
From SR Require Import Model.DisjointSet.
Import ListNotations.
Lemma make_len n : len (make n) = Z.of_nat n.
Proof. reflexivity. Qed.
