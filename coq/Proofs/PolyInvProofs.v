(** The binary optimum of a refinement pair does not depend on the order in which the
    children of its two trees are written ([child_order_invariance_statement] of
    [Proofs/PolyProofs.v]), hence the extended solvers return the optimum over ALL pairs of
    binary refinements, not only over the enumerated representatives. *)
From Coq Require Import List Bool Arith ZArith NArith Lia Permutation.
From SR Require Import Base.PathB Base.Ext Model.Entry Model.Recon Model.LcaRec Model.Spfs Model.Uspfs
  Model.Binarize Model.Poly
  Proofs.PathFacts Proofs.ReconProofs Proofs.EntryProofs Proofs.ThlProofs Proofs.SpfsProofs Proofs.SpfsFinal
  Proofs.UspfsProofs Proofs.UspfsFinal Proofs.BinarizeProofs Proofs.MetaProofs Proofs.Meta2Proofs
  Proofs.PolyProofs.
Import ListNotations.

(** * part A: equality up to the order of children is a flip plan *)
Fixpoint bflip (pl : plan) (b : bt) : bt :=
  match pl, b with
  | PNode f pl pr, BNode lb l r =>
      let l' := bflip pl l in let r' := bflip pr r in if f then BNode lb r' l' else BNode lb l' r'
  | _, _ => b
  end.

Lemma bflip_leaf pl n : bflip pl (BLeaf n) = BLeaf n.
Proof. destruct pl; reflexivity. Qed.

Lemma beqv_bflip b b' : beqv b b' -> exists pl, b' = bflip pl b.
Proof.
  induction 1 as [n|lb l r l' r' _ [p1 ->] _ [p2 ->]|lb l r l' r' _ [p1 ->] _ [p2 ->]].
  - exists PLeaf. reflexivity.
  - exists (PNode false p1 p2). reflexivity.
  - exists (PNode true p1 p2). reflexivity.
Qed.

(** * part B: the object tree *)
Lemma option_map_id {A} (f : A -> A) (x : option A) : (forall a, f a = a) -> option_map f x = x.
Proof. intros H. destruct x; cbn [option_map]; [now rewrite H|reflexivity]. Qed.

Lemma oflip_PLeaf o : oflip PLeaf o = o.
Proof. destruct o; reflexivity. Qed.

Lemma bt_otree_bflip ld sb : forall pl ob,
  bt_otree ld sb (bflip pl ob) = option_map (oflip pl) (bt_otree ld sb ob).
Proof.
  induction pl as [|f pl IHl pr IHr]; intros ob.
  - cbn [bflip]. symmetry. apply option_map_id. apply oflip_PLeaf.
  - destruct ob as [lb|lb l r].
    + cbn [bflip bt_otree]. destruct lb as [i|]; [|reflexivity].
      destruct (ld_lookup ld i) as [[spn syn]|]; [|reflexivity].
      destruct (find_name spn sb); reflexivity.
    + cbn [bflip]. destruct f; cbn [bt_otree]; rewrite IHl, IHr;
        destruct (bt_otree ld sb l) as [a|], (bt_otree ld sb r) as [b|]; reflexivity.
Qed.

(** * part C: the species tree *)

(* the set of species nodes (paths in the original tree) whose children a plan exchanges *)
Fixpoint f_of (pl : plan) (q : path) : bool :=
  match pl with
  | PLeaf => false
  | PNode f l r =>
      match q with
      | [] => f
      | false :: q' => f_of l q'
      | true :: q' => f_of r q'
      end
  end.

Lemma pflip_shift f x : forall p acc, pflip f (x :: acc) p = pflip (fun q => f (x :: q)) acc p.
Proof.
  induction p as [|b p IH]; intros acc; cbn [pflip]; [reflexivity|]. f_equal.
  change ((x :: acc) ++ [b]) with (x :: (acc ++ [b])). apply (IH (acc ++ [b])).
Qed.

Lemma sflip_shift f x : forall S acc, sflip f (x :: acc) S = sflip (fun q => f (x :: q)) acc S.
Proof.
  induction S as [|l IHl r IHr]; intros acc; cbn [sflip]; [reflexivity|].
  change ((x :: acc) ++ [false]) with (x :: (acc ++ [false])).
  change ((x :: acc) ++ [true]) with (x :: (acc ++ [true])).
  rewrite (IHl (acc ++ [false])), (IHr (acc ++ [true])). reflexivity.
Qed.

Lemma pflip_none f : (forall q, f q = false) -> forall p acc, pflip f acc p = p.
Proof.
  intros H. induction p as [|b p IH]; intros acc; cbn [pflip]; [reflexivity|].
  rewrite H, IH. now destruct b.
Qed.

Lemma sflip_none f : (forall q, f q = false) -> forall S acc, sflip f acc S = S.
Proof.
  intros H. induction S as [|l IHl r IHr]; intros acc; cbn [sflip]; [reflexivity|].
  now rewrite H, IHl, IHr.
Qed.

Lemma phi_nil f : phi f [] = [].
Proof. reflexivity. Qed.

Lemma phi_cons pf l r b p :
  phi (f_of (PNode pf l r)) (b :: p) = xorb b pf :: phi (f_of (if b then r else l)) p.
Proof.
  unfold phi. cbn [pflip app]. f_equal. rewrite pflip_shift. destruct b; reflexivity.
Qed.

Lemma bt_stree_bflip : forall pl b, bt_stree (bflip pl b) = sflip (f_of pl) [] (bt_stree b).
Proof.
  induction pl as [|f pl IHl pr IHr]; intros b.
  - cbn [bflip]. symmetry. now apply sflip_none.
  - destruct b as [lb|lb l r]; [reflexivity|].
    cbn [bflip bt_stree sflip app]. rewrite !sflip_shift.
    change (fun q => f_of (PNode f pl pr) (false :: q)) with (f_of pl).
    change (fun q => f_of (PNode f pl pr) (true :: q)) with (f_of pr).
    change (f_of (PNode f pl pr) []) with f.
    destruct f; cbn [bt_stree]; now rewrite IHl, IHr.
Qed.

(* no name labels a node in both subtrees of a node *)
Fixpoint unames (b : bt) : Prop :=
  match b with
  | BLeaf _ => True
  | BNode _ l r =>
      (forall n, find_name n l <> None -> find_name n r <> None -> False) /\ unames l /\ unames r
  end.

Lemma find_name_bflip n : forall pl b, unames b ->
  find_name n (bflip pl b) = option_map (phi (f_of pl)) (find_name n b).
Proof.
  induction pl as [|f pl IHl pr IHr]; intros b U.
  - cbn [bflip]. symmetry. apply option_map_id. intros p. unfold phi. now apply pflip_none.
  - destruct b as [lb|lb l r].
    + cbn [bflip find_name]. destruct (lab_eqb lb (Some n)); reflexivity.
    + destruct U as [Ux [Ul Ur]]. specialize (IHl l Ul). specialize (IHr r Ur). specialize (Ux n).
      cbn [bflip]. destruct f; cbn [find_name]; destruct (lab_eqb lb (Some n)); try reflexivity;
        rewrite IHl, IHr; destruct (find_name n l) as [p|], (find_name n r) as [q|];
        cbn [option_map]; rewrite ?phi_cons; try reflexivity.
      exfalso. apply Ux; discriminate.
Qed.

Lemma bt_otree_sflip ld pl sb : unames sb -> forall ob,
  bt_otree ld (bflip pl sb) ob = option_map (omap (phi (f_of pl))) (bt_otree ld sb ob).
Proof.
  intros U. induction ob as [lb|lb l IHl r IHr]; cbn [bt_otree].
  - destruct lb as [i|]; [|reflexivity]. destruct (ld_lookup ld i) as [[spn syn]|]; [|reflexivity].
    rewrite (find_name_bflip spn pl sb U). destruct (find_name spn sb); reflexivity.
  - rewrite IHl, IHr. destruct (bt_otree ld sb l), (bt_otree ld sb r); reflexivity.
Qed.

(** the binary input of a pair whose trees are rewritten with other child orders *)
Theorem pair_input_bflip ld po ps ob sb p : unames sb -> pair_input ld (ob, sb) = Some p ->
  pair_input ld (bflip po ob, bflip ps sb) =
  Some (sflip (f_of ps) [] (fst p), omap (phi (f_of ps)) (oflip po (snd p))).
Proof.
  intros U. unfold pair_input. cbn [fst snd].
  rewrite (bt_otree_sflip ld ps sb U), bt_otree_bflip, bt_stree_bflip.
  destruct (bt_otree ld sb ob) as [O|]; cbn [option_map]; [|discriminate]. intros [= <-]. reflexivity.
Qed.

(** * part D: the binary optimum is the infimum of the cost over the solutions *)
Definition is_inf (sol : ltree -> Prop) (cost : ltree -> ext) (V : ext) : Prop :=
  (forall t, sol t -> ele V (cost t)) /\ (V = PInf \/ exists t, sol t /\ cost t = V).

Lemma is_inf_le sol cost V sol' cost' V' (G : ltree -> ltree) :
  is_inf sol cost V -> is_inf sol' cost' V' ->
  (forall t', sol' t' -> sol (G t') /\ cost (G t') = cost' t') -> ele V V'.
Proof.
  intros [LB _] [_ [->|[t' [S' <-]]]] HG; [apply ele_PInf|].
  destruct (HG t' S') as [Sg <-]. now apply LB.
Qed.

Lemma is_inf_eq sol cost V sol' cost' V' (F G : ltree -> ltree) :
  is_inf sol cost V -> is_inf sol' cost' V' ->
  (forall t, sol t -> sol' (F t) /\ cost' (F t) = cost t) ->
  (forall t', sol' t' -> sol (G t') /\ cost (G t') = cost' t') -> V = V'.
Proof. intros I I' HF HG. apply ele_antisym; eapply is_inf_le; eauto. Qed.

Lemma spfs_is_inf c extended p : nn (c_hgt c) -> coherent_ord c -> leaves_wf (fst p) (snd p) ->
  is_inf (spfs_solp extended p) (spfs_costp c p) (spfs_binopt c RALL extended p).
Proof.
  intros Hh Hc W. rewrite (spfs_binopt_eq c extended p Hh W RALL). split.
  - intros t. apply spfs_HLB; auto. discriminate.
  - unfold binopt. destruct (upd_in Spfs.ltree_eqb RALL (spfs_cands c RALL extended p)) as [E|I]; [left; now symmetry|].
    right. apply in_map_iff in I as [[v ot] [Ev I]]. cbn [fst] in Ev.
    destruct (spfs_HA c extended p Hh W RALL v ot I) as [t ->].
    destruct (spfs_HB c extended p Hh W RALL v t I) as [St Ct]. exists t. split; auto. now rewrite Ct.
Qed.

Lemma uspfs_is_inf c extended p : nn (c_hgt c) -> ucoherent c -> leaves_ok (fst p) (snd p) ->
  is_inf (uspfs_solp extended p) (uspfs_costp c p) (uspfs_binopt c RALL extended p).
Proof.
  intros Hh Hc L. assert (RALL <> RNONE) as N by discriminate.
  rewrite (uspfs_binopt_eq c extended p Hh L RALL). split.
  - intros t. now apply uspfs_HLB.
  - unfold binopt. destruct (upd_in Uspfs.ltree_eqb RALL (uspfs_pcands c RALL extended p)) as [E|I]; [left; now symmetry|].
    right. apply in_map_iff in I as [[v ot] [Ev I]]. cbn [fst] in Ev.
    destruct (uspfs_HA c extended p Hh L RALL v ot I) as [t ->].
    destruct (uspfs_HB c extended p Hh L Hc RALL v t N I) as [St Ct]. exists t. split; auto. now rewrite Ct.
Qed.

(** ** reordering the children of the object tree *)
Lemma leaf_syns_oflip : forall pl O syn, In syn (leaf_syns (oflip pl O)) <-> In syn (leaf_syns O).
Proof.
  induction pl as [|f pl IHl pr IHr]; intros O syn; [now rewrite oflip_PLeaf|].
  destruct O as [sp y|a b]; [reflexivity|].
  cbn [oflip]. destruct f; cbn [leaf_syns]; rewrite !in_app_iff, IHl, IHr; tauto.
Qed.

Lemma leaves_wf_oflip S : forall pl O, leaves_wf S O -> leaves_wf S (oflip pl O).
Proof.
  induction pl as [|f pl IHl pr IHr]; intros O W; [now rewrite oflip_PLeaf|].
  destruct O as [sp y|a b]; [exact W|]. destruct W as [Wa Wb].
  cbn [oflip]. destruct f; cbn [leaves_wf]; auto.
Qed.

Lemma leaves_ok_oflip S : forall pl O, leaves_ok S O -> leaves_ok S (oflip pl O).
Proof.
  induction pl as [|f pl IHl pr IHr]; intros O W; [now rewrite oflip_PLeaf|].
  destruct O as [sp y|a b]; [exact W|]. destruct W as [Wa Wb].
  cbn [oflip]. destruct f; cbn [leaves_ok]; auto.
Qed.

Lemma compatible_order_oflip pl O ord : compatible_order (oflip pl O) ord <-> compatible_order O ord.
Proof.
  unfold compatible_order, families.
  split; intros [ND [F Sb]]; (split; [exact ND|]); split.
  - intros x. rewrite F. split; intros [syn [I J]]; exists syn; split; auto; now apply (leaf_syns_oflip pl O).
  - intros syn I. apply Sb. now apply leaf_syns_oflip.
  - intros x. rewrite F. split; intros [syn [I J]]; exists syn; split; auto; now apply (leaf_syns_oflip pl O).
  - intros syn I. apply Sb. now apply leaf_syns_oflip in I.
Qed.

Lemma orders_of_spec S O : leaves_wf S O -> forall ord, In ord (orders_of O) <-> compatible_order O ord.
Proof. intros W. apply root_orders_spec. exact (pair_orders (S, O) W). Qed.

Lemma orders_of_oflip S pl O : leaves_wf S O -> forall ord, In ord (orders_of (oflip pl O)) <-> In ord (orders_of O).
Proof.
  intros W ord. rewrite (orders_of_spec S O W), (orders_of_spec S _ (leaves_wf_oflip S pl O W)).
  apply compatible_order_oflip.
Qed.

Lemma sol_orders_incl S extended orders orders' O lt : (forall ord, In ord orders -> In ord orders') ->
  sol S extended orders O lt -> sol S extended orders' O lt.
Proof. intros H [ord [Io R]]. exists ord. split; auto. Qed.

Lemma spfs_solp_oflip extended S pl O t : leaves_wf S O ->
  spfs_solp extended (S, O) t -> spfs_solp extended (S, oflip pl O) (lflip pl t).
Proof.
  unfold spfs_solp. cbn [fst snd]. intros W H.
  apply (sol_orders_incl S extended (orders_of O)); [intros ord; apply (orders_of_oflip S pl O W)|].
  now apply sol_lflip.
Qed.

Lemma spfs_binopt_oflip_le c extended S pl O : nn (c_hgt c) -> coherent_ord c -> leaves_wf S O ->
  ele (spfs_binopt c RALL extended (S, O)) (spfs_binopt c RALL extended (S, oflip pl O)).
Proof.
  intros Hh Hc W. pose proof (leaves_wf_oflip S pl O W) as W'.
  apply (is_inf_le _ _ _ _ _ _ (lflip (pinv pl))
           (spfs_is_inf c extended (S, O) Hh Hc W) (spfs_is_inf c extended (S, oflip pl O) Hh Hc W')).
  intros t' H. split.
  - pose proof (spfs_solp_oflip extended S (pinv pl) (oflip pl O) t' W' H) as H'. now rewrite oflip_pinv in H'.
  - unfold spfs_costp. cbn [snd]. rewrite <- (cost_of_lflip c (pinv pl) (oflip pl O) t'). now rewrite oflip_pinv.
Qed.

Theorem spfs_binopt_oflip c extended S pl O : nn (c_hgt c) -> coherent_ord c -> leaves_wf S O ->
  spfs_binopt c RALL extended (S, oflip pl O) = spfs_binopt c RALL extended (S, O).
Proof.
  intros Hh Hc W. apply ele_antisym; [|now apply spfs_binopt_oflip_le].
  pose proof (spfs_binopt_oflip_le c extended S (pinv pl) (oflip pl O) Hh Hc (leaves_wf_oflip S pl O W)) as H.
  now rewrite oflip_pinv in H.
Qed.

Lemma uspfs_binopt_oflip_le c extended S pl O : nn (c_hgt c) -> ucoherent c -> leaves_ok S O ->
  ele (uspfs_binopt c RALL extended (S, O)) (uspfs_binopt c RALL extended (S, oflip pl O)).
Proof.
  intros Hh Hc L. pose proof (leaves_ok_oflip S pl O L) as L'.
  apply (is_inf_le _ _ _ _ _ _ (lflip (pinv pl))
           (uspfs_is_inf c extended (S, O) Hh Hc L) (uspfs_is_inf c extended (S, oflip pl O) Hh Hc L')).
  unfold uspfs_solp, uspfs_costp. cbn [fst snd]. intros t' H. split.
  - pose proof (usol_lflip S extended (pinv pl) (oflip pl O) t' H) as H'. now rewrite oflip_pinv in H'.
  - rewrite <- (ucost_lflip c (pinv pl) (oflip pl O) t'). now rewrite oflip_pinv.
Qed.

Theorem uspfs_binopt_oflip c extended S pl O : nn (c_hgt c) -> ucoherent c -> leaves_ok S O ->
  uspfs_binopt c RALL extended (S, oflip pl O) = uspfs_binopt c RALL extended (S, O).
Proof.
  intros Hh Hc L. apply ele_antisym; [|now apply uspfs_binopt_oflip_le].
  pose proof (uspfs_binopt_oflip_le c extended S (pinv pl) (oflip pl O) Hh Hc (leaves_ok_oflip S pl O L)) as H.
  now rewrite oflip_pinv in H.
Qed.

(** ** exchanging children in the species tree *)
Lemma leaf_syns_omap g : forall O, leaf_syns (omap g O) = leaf_syns O.
Proof. induction O as [sp y|a IHa b IHb]; cbn [omap leaf_syns]; [reflexivity|]. now rewrite IHa, IHb. Qed.

Lemma orders_of_omap g O : orders_of (omap g O) = orders_of O.
Proof. unfold orders_of, Spfs.root_orders. now rewrite leaf_syns_omap. Qed.

Section SpeciesFlip.
  Variable f : path -> bool.
  Notation g := (phi f).
  Notation g' := (psi f).

  Lemma g_anc a b : anc (g a) (g b) = anc a b. Proof. apply pflip_anc. Qed.
  Lemma g_lcp a b : lcp (g a) (g b) = g (lcp a b). Proof. apply pflip_lcp. Qed.
  Lemma g_eq a b : path_eqb (g a) (g b) = path_eqb a b. Proof. apply pflip_eq. Qed.
  Lemma g_dist a b : dist (g a) (g b) = dist a b. Proof. apply pflip_dist. Qed.
  Lemma g_valid S p : valid_sp (sflip f [] S) (g p) = valid_sp S p. Proof. apply sflip_valid. Qed.
  Lemma g_PP p : g (g' p) = p. Proof. apply pflip_punflip. Qed.
  Lemma g_QQ p : g' (g p) = p. Proof. apply punflip_pflip. Qed.

  Lemma leaves_wf_omap S : forall O, leaves_wf S O -> leaves_wf (sflip f [] S) (omap g O).
  Proof.
    induction O as [sp y|a IHa b IHb]; cbn [omap leaves_wf].
    - intros [V N]. split; auto. now rewrite g_valid.
    - intros [Wa Wb]. auto.
  Qed.

  Lemma leaves_ok_omap S : forall O, leaves_ok S O -> leaves_ok (sflip f [] S) (omap g O).
  Proof.
    induction O as [sp y|a IHa b IHb]; cbn [omap leaves_ok].
    - intros V. now rewrite g_valid.
    - intros [Wa Wb]. auto.
  Qed.

  Theorem spfs_binopt_sflip c extended S O : nn (c_hgt c) -> coherent_ord c -> leaves_wf S O ->
    spfs_binopt c RALL extended (sflip f [] S, omap g O) = spfs_binopt c RALL extended (S, O).
  Proof.
    intros Hh Hc W. symmetry.
    apply (is_inf_eq _ _ _ _ _ _ (lmap g) (lmap g')
             (spfs_is_inf c extended (S, O) Hh Hc W)
             (spfs_is_inf c extended (sflip f [] S, omap g O) Hh Hc (leaves_wf_omap S O W)));
      unfold spfs_solp, spfs_costp; cbn [fst snd]; rewrite orders_of_omap.
    - intros t H. split.
      + exact (sol_lmap S (sflip f [] S) g g_anc g_lcp g_eq (g_valid S) extended _ O t H).
      + exact (cost_of_lmap g g_anc g_lcp g_eq g_dist c O t).
    - intros t' H.
      destruct (sol_unmap S (sflip f [] S) g g' g_anc g_lcp g_eq (g_valid S) g_PP g_QQ extended _ O t' H) as [H' R].
      split; [exact H'|]. rewrite <- R at 2. symmetry. exact (cost_of_lmap g g_anc g_lcp g_eq g_dist c O _).
  Qed.

  Theorem uspfs_binopt_sflip c extended S O : nn (c_hgt c) -> ucoherent c -> leaves_ok S O ->
    uspfs_binopt c RALL extended (sflip f [] S, omap g O) = uspfs_binopt c RALL extended (S, O).
  Proof.
    intros Hh Hc L. symmetry.
    apply (is_inf_eq _ _ _ _ _ _ (lmap g) (lmap g')
             (uspfs_is_inf c extended (S, O) Hh Hc L)
             (uspfs_is_inf c extended (sflip f [] S, omap g O) Hh Hc (leaves_ok_omap S O L)));
      unfold uspfs_solp, uspfs_costp; cbn [fst snd].
    - intros t H. split.
      + exact (usol_lmap S (sflip f [] S) g g_anc g_lcp g_eq (g_valid S) extended O t H).
      + exact (ucost_lmap g g_anc g_lcp g_eq g_dist c O t).
    - intros t' H.
      destruct (usol_unmap S (sflip f [] S) g g' g_anc g_lcp g_eq (g_valid S) g_PP g_QQ extended O t' H) as [H' R].
      split; [exact H'|]. rewrite <- R at 2. symmetry. exact (ucost_lmap g g_anc g_lcp g_eq g_dist c O _).
  Qed.
End SpeciesFlip.

(** * part E: invariance of the binary optimum of a refinement pair *)
Lemma bt_otree_leaves_ok ld sb : forall ob O, bt_otree ld sb ob = Some O -> leaves_ok (bt_stree sb) O.
Proof.
  induction ob as [lb|lb l IHl r IHr]; intros O; cbn [bt_otree].
  - destruct lb as [i|]; [|discriminate]. destruct (ld_lookup ld i) as [[spn syn]|]; [|discriminate].
    destruct (find_name spn sb) as [p|] eqn:Ef; [|discriminate]. intros [= <-]. cbn [leaves_ok].
    eapply find_name_valid; eauto.
  - destruct (bt_otree ld sb l) as [A|]; [|discriminate]. destruct (bt_otree ld sb r) as [B|]; [|discriminate].
    intros [= <-]. cbn [leaves_ok]. auto.
Qed.

Lemma pair_input_leaves_ok ld pr p : pair_input ld pr = Some p -> leaves_ok (fst p) (snd p).
Proof.
  unfold pair_input. destruct (bt_otree ld (snd pr) (fst pr)) as [O|] eqn:E; cbn [option_map]; [|discriminate].
  intros [= <-]. cbn [fst snd]. eapply bt_otree_leaves_ok; eauto.
Qed.

(* an empty leaf synteny: the root orders raise, the solver has nothing to offer *)
Lemma fold_prec_leaf_empty : forall (l : list (list Toposort.node)) s, In [] l ->
  forall g, Toposort.fold_res Toposort.prec_leaf l s <> Toposort.TOk g.
Proof.
  induction l as [|a l IH]; intros s H g; [destruct H|]. cbn [Toposort.fold_res].
  destruct H as [->|H]; [cbn; discriminate|].
  destruct (Toposort.prec_leaf s a) as [s'| | | |]; cbn [Toposort.tbind]; try discriminate. now apply IH.
Qed.

Lemma orders_of_empty_syn O : In [] (leaf_syns O) -> orders_of O = [].
Proof.
  intros H. unfold orders_of, Spfs.root_orders.
  destruct (Toposort.make_prec_graph (map (map N.to_nat) (leaf_syns O))) as [g| | | |] eqn:E; try reflexivity.
  exfalso. apply (fold_prec_leaf_empty _ [] (in_map (map N.to_nat) _ _ H) g E).
Qed.

Lemma spfs_binopt_no_orders c rp extended p : orders_of (snd p) = [] -> spfs_binopt c rp extended p = PInf.
Proof. intros E. unfold spfs_binopt. rewrite E. reflexivity. Qed.

Lemma leaves_wf_or_empty S : forall O, leaves_ok S O -> leaves_wf S O \/ In [] (leaf_syns O).
Proof.
  induction O as [sp syn|a IHa b IHb]; cbn [leaves_ok leaves_wf leaf_syns].
  - intros V. destruct syn as [|x syn]; [right; now left|left; split; [exact V|discriminate]].
  - intros [La Lb]. destruct (IHa La) as [Wa|Ea]; [|right; apply in_or_app; now left].
    destruct (IHb Lb) as [Wb|Eb]; [left; now split|right; apply in_or_app; now right].
Qed.

Section Invariance.
  Variables (c : costs) (ld : leafdata).
  Hypothesis Hh : nn (c_hgt c).

  (** rewriting both trees of a refinement pair with other child orders gives a binary input
      with the same optimum *)
  Theorem spfs_binopt_bflip po ps ob sb p : coherent_ord c -> unames sb ->
    pair_input ld (ob, sb) = Some p ->
    exists p', pair_input ld (bflip po ob, bflip ps sb) = Some p' /\
      spfs_binopt c RALL true p' = spfs_binopt c RALL true p.
  Proof.
    intros Hc U E. eexists. split; [exact (pair_input_bflip ld po ps ob sb p U E)|].
    pose proof (pair_input_leaves_ok ld _ p E) as L. destruct p as [S O]. cbn [fst snd] in *.
    destruct (leaves_wf_or_empty S O L) as [W|Em].
    - rewrite (spfs_binopt_sflip (f_of ps) c true S (oflip po O) Hh Hc (leaves_wf_oflip S po O W)).
      now apply spfs_binopt_oflip.
    - rewrite !spfs_binopt_no_orders; auto; cbn [snd]; [|rewrite orders_of_omap]; apply orders_of_empty_syn; auto.
      now apply leaf_syns_oflip.
  Qed.

  Theorem uspfs_binopt_bflip po ps ob sb p : ucoherent c -> unames sb ->
    pair_input ld (ob, sb) = Some p ->
    exists p', pair_input ld (bflip po ob, bflip ps sb) = Some p' /\
      uspfs_binopt c RALL true p' = uspfs_binopt c RALL true p.
  Proof.
    intros Hc U E. eexists. split; [exact (pair_input_bflip ld po ps ob sb p U E)|].
    pose proof (pair_input_leaves_ok ld _ p E) as L. destruct p as [S O]. cbn [fst snd] in *.
    rewrite (uspfs_binopt_sflip (f_of ps) c true S (oflip po O) Hh Hc (leaves_ok_oflip S po O L)).
    now apply uspfs_binopt_oflip.
  Qed.
End Invariance.

(** ** distinct names *)
Lemma names_app l1 l2 : names (l1 ++ l2) = names l1 ++ names l2.
Proof. unfold names. apply flat_map_app. Qed.

Lemma in_names n l : In n (names l) <-> In (Some n) l.
Proof.
  unfold names. rewrite in_flat_map. split.
  - intros [[m|] [I H]]; [destruct H as [->|[]]; exact I|destruct H].
  - intros I. exists (Some n). split; [exact I|now left].
Qed.

Lemma find_name_in n : forall b p, find_name n b = Some p -> In (Some n) (blabels b).
Proof.
  induction b as [lb|lb l IHl r IHr]; intros p; cbn [find_name blabels].
  - destruct (lab_eqb lb (Some n)) eqn:E; [|discriminate]. apply lab_eqb_eq in E. intros _. now left.
  - destruct (lab_eqb lb (Some n)) eqn:E; [apply lab_eqb_eq in E; intros _; now left|].
    destruct (find_name n l) as [q|] eqn:El.
    + intros _. right. apply in_or_app. left. eapply IHl; eauto.
    + destruct (find_name n r) as [q|] eqn:Er; cbn [option_map]; [|discriminate].
      intros _. right. apply in_or_app. right. eapply IHr; eauto.
Qed.

Lemma nodup_names_unames : forall b, NoDup (names (blabels b)) -> unames b.
Proof.
  induction b as [lb|lb l IHl r IHr]; intros ND; cbn [unames]; [exact I|].
  cbn [blabels] in ND. change (lb :: blabels l ++ blabels r) with ([lb] ++ blabels l ++ blabels r) in ND.
  rewrite !names_app in ND. apply nodup_app_inv in ND as [_ [ND _]].
  destruct (nodup_app_inv _ _ ND) as [Nl [Nr D]]. split; [|split; auto].
  intros n Hl Hr. destruct (find_name n l) as [p|] eqn:El; [|congruence].
  destruct (find_name n r) as [q|] eqn:Er; [|congruence].
  apply (D n); apply in_names; eapply find_name_in; eauto.
Qed.

(** [child_order_invariance_statement] of [Proofs/PolyProofs.v], in full *)
Theorem child_order_invariance c : nn (c_hgt c) -> coherent_ord c -> ucoherent c ->
  child_order_invariance_statement c.
Proof.
  intros Hh Hc Hu ld ob sb ob' sb' p p' ND Bo Bs E E'.
  pose proof (nodup_names_unames sb ND) as U.
  destruct (beqv_bflip ob ob' Bo) as [po ->]. destruct (beqv_bflip sb sb' Bs) as [ps ->]. split.
  - destruct (spfs_binopt_bflip c ld Hh po ps ob sb p Hc U E) as [q [Eq <-]]. rewrite E' in Eq. now injection Eq as <-.
  - destruct (uspfs_binopt_bflip c ld Hh po ps ob sb p Hu U E) as [q [Eq <-]]. rewrite E' in Eq. now injection Eq as <-.
Qed.

(** * part F: a refinement has the names of the original tree *)
Fixpoint rlabels (t : rose) : list lab :=
  match t with
  | Binarize.RLeaf n => [n]
  | Binarize.RNode lb cs => lb :: flat_map rlabels cs
  end.

Lemma names_flat_map {A} (h : A -> list lab) l : names (flat_map h l) = flat_map (fun x => names (h x)) l.
Proof. induction l as [|x l IH]; [reflexivity|]. cbn [flat_map]. now rewrite names_app, IH. Qed.

Lemma names_flat : forall T : atree bt,
  names (blabels (flat T)) = flat_map (fun a => names (blabels a)) (aleaves T).
Proof.
  induction T as [a|l IHl r IHr]; cbn [flat aleaves flat_map]; [now rewrite app_nil_r|].
  cbn [blabels]. change (None :: blabels (flat l) ++ blabels (flat r)) with ([None] ++ blabels (flat l) ++ blabels (flat r)).
  rewrite !names_app, IHl, IHr, flat_map_app. reflexivity.
Qed.

Lemma names_relabel_join lb (l r : atree bt) :
  names (blabels (relabel lb (flat (Join l r)))) = names [lb] ++ names (blabels (flat (Join l r))).
Proof.
  cbn [flat relabel blabels].
  change (lb :: blabels (flat l) ++ blabels (flat r)) with ([lb] ++ blabels (flat l) ++ blabels (flat r)).
  change (None :: blabels (flat l) ++ blabels (flat r)) with ([None] ++ blabels (flat l) ++ blabels (flat r)).
  rewrite !names_app. reflexivity.
Qed.

Lemma refines_names : forall t b, arity_ok t = true -> refines t b ->
  Permutation (names (blabels b)) (names (rlabels t)).
Proof.
  induction t as [n|lb cs IH] using rose_ind'; intros b A R.
  - cbn in R. subst b. apply Permutation_refl.
  - apply refines_node in R as [ds [T [F2 [PT ->]]]]. apply arity_ok_node in A as [A1 A2].
    rewrite Forall_forall in IH.
    assert (length (aleaves T) = length cs) as Len.
    { rewrite (Permutation_length PT). symmetry. clear -F2. induction F2; cbn [length]; congruence. }
    destruct T as [a|l r]; [cbn in Len; lia|].
    rewrite names_relabel_join, names_flat. cbn [rlabels].
    change (lb :: flat_map rlabels cs) with ([lb] ++ flat_map rlabels cs). rewrite names_app, names_flat_map.
    apply Permutation_app_head.
    eapply Permutation_trans; [apply Permutation_flat_map; exact PT|].
    apply Permutation_sym. apply flat_map_perm_pointwise.
    clear -F2 IH A2. induction F2 as [|x d cs ds Hxd _ IH2]; constructor.
    + apply Permutation_sym. apply IH; [now left|apply A2; now left|exact Hxd].
    + apply IH2; intros; [apply IH|apply A2]; auto; now right.
Qed.

Lemma refines_unames t b : arity_ok t = true -> NoDup (names (rlabels t)) -> refines t b -> unames b.
Proof.
  intros A ND R. apply nodup_names_unames.
  apply (Permutation_NoDup (Permutation_sym (refines_names t b A R)) ND).
Qed.

(** * part G: the optimum over ALL pairs of binary refinements *)
Section AllRefinements.
  Variables (c : costs) (ld : leafdata) (o s : rose).
  Hypothesis Hh : nn (c_hgt c).
  (* the names of the species tree are pairwise distinct (leaves and internal nodes) *)
  Hypothesis Hnames : NoDup (names (rlabels s)).

  (* an arbitrary pair of binary refinements has the optimum of an enumerated pair *)
  Lemma enumerated_representative Q ob' sb' p' : poly_wf Q ld o s ->
    refines o ob' -> refines s sb' -> pair_input ld (ob', sb') = Some p' ->
    exists j ob sb p po ps, nth_error (input_binarize o s) j = Some (ob, sb) /\ pair_input ld (ob, sb) = Some p /\
      unames sb /\ ob' = bflip po ob /\ sb' = bflip ps sb.
  Proof.
    intros W Ro Rs E'. destruct (refinement_pairs_complete o s ob' sb' Ro Rs) as [j [ob [sb [Hj [Bo Bs]]]]].
    destruct (pair_input_ok Q ld o s (ob, sb) W (nth_error_In _ _ Hj)) as [p [Ep _]].
    destruct (beqv_bflip ob ob' (beqv_sym _ _ Bo)) as [po Eo]. destruct (beqv_bflip sb sb' (beqv_sym _ _ Bs)) as [ps Es].
    exists j, ob, sb, p, po, ps. repeat split; auto.
    destruct W as [_ [As _]]. apply (refines_unames s sb As Hnames).
    apply binarize_refines. apply nth_error_In in Hj. now apply in_input_binarize in Hj.
  Qed.

  Lemma minl_attained (l : list ext) : l <> [] -> In (ext_minl l) l.
  Proof.
    intros NE. destruct (ext_minl_in l) as [E|I]; [|exact I].
    destruct l as [|x l']; [congruence|]. rewrite <- E.
    pose proof (ext_minl_le (x :: l') x (or_introl eq_refl)) as L. rewrite <- E in L.
    apply ele_PInf_eq in L. subst x. now left.
  Qed.

  (** ordered: the value of the run on the polytomous input is a lower bound on the binary optimum
      of EVERY pair of binary refinements of the two trees, whatever the order in which their
      children are written, and it is the binary optimum of an enumerated pair *)
  Theorem ext_optimum_all_refinements : coherent_ord c -> poly_wf nonempty_syn ld o s ->
    exists e, spfs_poly c RALL ld o s = Some e /\
      (forall ob' sb' p', refines o ob' -> refines s sb' -> pair_input ld (ob', sb') = Some p' ->
         ele (val e) (spfs_binopt c RALL true p')) /\
      (exists i p, refinement_input ld o s i p /\ val e = spfs_binopt c RALL true p).
  Proof.
    intros Hc W. destruct (ext_optimum_refinements c ld o s Hh Hc W) as [e [He [_ [_ [_ Ev]]]]].
    exists e. split; [exact He|]. split.
    - intros ob' sb' p' Ro Rs E'.
      destruct (enumerated_representative nonempty_syn ob' sb' p' W Ro Rs E')
        as [j [ob [sb [p [po [ps [Hj [Ep [U [-> ->]]]]]]]]]].
      destruct (spfs_binopt_bflip c ld Hh po ps ob sb p Hc U Ep) as [q [Eq Eb]]. rewrite E' in Eq. injection Eq as <-.
      rewrite Eb, Ev. replace (spfs_binopt c RALL true p) with (pair_opt ld (spfs_binopt c RALL true) (ob, sb))
        by (unfold pair_opt; now rewrite Ep).
      apply ext_minl_le. apply in_map. eapply nth_error_In; eauto.
    - destruct W as [Ao [As Wl]].
      assert (map (pair_opt ld (spfs_binopt c RALL true)) (input_binarize o s) <> []) as NE.
      { intros X. apply map_eq_nil in X. now apply (input_binarize_nonempty o s Ao As). }
      pose proof (minl_attained _ NE) as I. rewrite <- Ev in I. apply in_map_iff in I as [[ob sb] [Eo I]].
      destruct (pair_input_ok nonempty_syn ld o s (ob, sb) (conj Ao (conj As Wl)) I) as [p [Ep _]].
      destruct (In_nth_error _ _ I) as [i Hi]. exists i, p. split.
      + exists ob, sb. apply in_input_binarize in I as [Io Is].
        repeat split; auto; now apply binarize_refines.
      + rewrite <- Eo. unfold pair_opt. now rewrite Ep.
  Qed.

  (** unordered *)
  Theorem ext_optimum_all_refinements_unordered : ucoherent c -> poly_wf any_syn ld o s ->
    exists e, uspfs_poly c RALL ld o s = Some e /\
      (forall ob' sb' p', refines o ob' -> refines s sb' -> pair_input ld (ob', sb') = Some p' ->
         ele (val e) (uspfs_binopt c RALL true p')) /\
      (exists i p, refinement_input ld o s i p /\ val e = uspfs_binopt c RALL true p).
  Proof.
    intros Hc W. destruct (ext_optimum_refinements_unordered c ld o s Hh Hc W) as [e [He [_ [_ [_ Ev]]]]].
    exists e. split; [exact He|]. split.
    - intros ob' sb' p' Ro Rs E'.
      destruct (enumerated_representative any_syn ob' sb' p' W Ro Rs E')
        as [j [ob [sb [p [po [ps [Hj [Ep [U [-> ->]]]]]]]]]].
      destruct (uspfs_binopt_bflip c ld Hh po ps ob sb p Hc U Ep) as [q [Eq Eb]]. rewrite E' in Eq. injection Eq as <-.
      rewrite Eb, Ev. replace (uspfs_binopt c RALL true p) with (pair_opt ld (uspfs_binopt c RALL true) (ob, sb))
        by (unfold pair_opt; now rewrite Ep).
      apply ext_minl_le. apply in_map. eapply nth_error_In; eauto.
    - destruct W as [Ao [As Wl]].
      assert (map (pair_opt ld (uspfs_binopt c RALL true)) (input_binarize o s) <> []) as NE.
      { intros X. apply map_eq_nil in X. now apply (input_binarize_nonempty o s Ao As). }
      pose proof (minl_attained _ NE) as I. rewrite <- Ev in I. apply in_map_iff in I as [[ob sb] [Eo I]].
      destruct (pair_input_ok any_syn ld o s (ob, sb) (conj Ao (conj As Wl)) I) as [p [Ep _]].
      destruct (In_nth_error _ _ I) as [i Hi]. exists i, p. split.
      + exists ob, sb. apply in_input_binarize in I as [Io Is].
        repeat split; auto; now apply binarize_refines.
      + rewrite <- Eo. unfold pair_opt. now rewrite Ep.
  Qed.
End AllRefinements.

(* the hypotheses are satisfiable: the instance of [poly_example] has distinct species names *)
Example all_refinements_example : NoDup (names (rlabels ex_s)).
Proof. cbn. repeat (constructor; [cbn; intuition congruence|]). constructor. Qed.

Print Assumptions pair_input_bflip.
Print Assumptions spfs_binopt_bflip.
Print Assumptions uspfs_binopt_bflip.
Print Assumptions child_order_invariance.
Print Assumptions refines_names.
Print Assumptions ext_optimum_all_refinements.
Print Assumptions ext_optimum_all_refinements_unordered.
