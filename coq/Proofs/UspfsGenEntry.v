(** Stage 2 of the tie of [Gen/UspfsGen.v]: [_compute_uspfs_entry] as generated = the two cells of the model for the
    enumeration order of the code (part [Entry] of Proofs/UspfsGenProofs.v). *)
From Coq Require Import List Bool Arith ZArith NArith Lia Permutation.
From SR Require Gen.UspfsGen Model.Recon Model.Uspfs Base.PathB Base.Ext Model.Entry Model.LcaRec Model.Thl Proofs.PathFacts Proofs.EntryProofs Proofs.EntryGenProofs Proofs.TableGenProofs Gen.EntryGen Gen.TableGen Gen.EvalGen Proofs.ThlProofs Proofs.UspfsProofs Proofs.ThlGenProofs Proofs.EvalGenProofs Gen.ThlGen Proofs.UspfsGenCommon Proofs.UspfsGenStatements.

Module Entry.
Import SR.Base.PathB SR.Base.Ext SR.Model.Entry SR.Model.Recon SR.Model.LcaRec SR.Model.Thl SR.Model.Uspfs SR.Proofs.PathFacts SR.Proofs.EntryProofs SR.Proofs.EntryGenProofs SR.Proofs.EvalGenProofs SR.Proofs.TableGenProofs SR.Proofs.ThlGenProofs.
Import SR.Proofs.UspfsGenCommon.Common SR.Proofs.UspfsGenCommon.ModelO SR.Proofs.UspfsGenCommon.TableO SR.Proofs.UspfsGenCommon.Embed.
Import SR.Proofs.UspfsGenStatements.Statements.
Import ListNotations.
Local Open Scope Z_scope.

Section Entry3.
  Context {lca node_id : Type} (nid_eqb : node_id -> node_id -> bool).
  Hypothesis nid_eqb_spec : forall a b, reflect (a = b) (nid_eqb a b).
  Notation key := (@UG.key path node_id).
  Notation keqb := (UG.key_eqb path_eqb nid_eqb).
  Notation caeqb := (UG.ChildrenAssignment_eqb path_eqb).
  Notation oaeqb := (UG.ObjectAssignment_eqb path_eqb).
  Notation tstate := (TG.table_state key ca).
  Notation tree := (EV.TreeNode node_id).
  Notation kspec := (keqb_spec3 nid_eqb nid_eqb_spec).
  Notation inv3 := (@inv3 node_id).
  Notation gsem3 := (gsem3 nid_eqb).
  Notation sub_of := (sub_of nid_eqb).
  Notation LCA := UG.SyntenyAssignment_LCA.
  Notation INH := UG.SyntenyAssignment_INHERIT.
  Notation saeqb := UG.SyntenyAssignment_eqb.

  Lemma inv3_same rp a b : inv3 rp a -> tsame keqb a b -> inv3 rp b.
  Proof. intros [W [D [M R]]] [A1 [A2 [A3 [A4 A5]]]]. repeat split; auto; congruence. Qed.
  Lemma gsem3_same a b n s m : tsame keqb a b -> gsem3 b n s m = gsem3 a n s m.
  Proof. intros S. unfold SR.Proofs.UspfsGenCommon.Common.gsem3. now apply tsame_sem. Qed.

  (** ** the chain [table[k1][k2][k3]] *)
  Lemma rd3_getitem rp tb k1 : inv3 rp tb ->
    UG.table_res (TG.gen_table_getitem keqb tb k1) = UG.Ok (tb, TG.Proxy_TableProxy (TG.mk_tproxy tb [k1])).
  Proof.
    intros [W [D _]]. rewrite (gen_table_getitem_eq keqb kspec tb k1 W) by (intros E; rewrite E in D; discriminate).
    now rewrite D.
  Qed.
  Lemma rd3_sub1 rp tb k1 k2 : inv3 rp tb ->
    UG.table_res (TG.gen_Proxy_getitem keqb (TG.Proxy_TableProxy (TG.mk_tproxy tb [k1])) k2) =
      UG.Ok (TG.Proxy_TableProxy (TG.mk_tproxy tb [k1]), TG.Proxy_TableProxy (TG.mk_tproxy tb [k1; k2])).
  Proof.
    intros [W [D _]]. rewrite Proxy_getitem_table, (gen_tproxy_getitem_eq keqb kspec tb [k1] k2 W) by (cbn; lia).
    cbn [length]. now rewrite D.
  Qed.
  Lemma rd3_sub2 rp tb k1 k2 k3 : inv3 rp tb ->
    UG.table_res (TG.gen_Proxy_getitem keqb (TG.Proxy_TableProxy (TG.mk_tproxy tb [k1; k2])) k3) =
      UG.Ok (TG.Proxy_TableProxy (TG.mk_tproxy (walked keqb tb [k1; k2]) [k1; k2]),
             TG.Proxy_EntryProxy (TG.mk_eproxy (walked keqb tb [k1; k2]) [k1; k2; k3])).
  Proof.
    intros [W [D _]]. rewrite Proxy_getitem_table, (gen_tproxy_getitem_eq keqb kspec tb [k1; k2] k3 W) by (cbn; lia).
    cbn [length]. now rewrite D.
  Qed.
  Definition rd3 (tb : tstate) (k1 k2 k3 : key) : tstate := walked keqb (walked keqb tb [k1; k2]) [k1; k2; k3].
  Lemma rd3_same rp tb k1 k2 k3 : inv3 rp tb -> tsame keqb tb (rd3 tb k1 k2 k3).
  Proof.
    intros [W [D _]]. unfold rd3.
    assert (S1 : tsame keqb tb (walked keqb tb [k1; k2])) by (apply walked_same; [apply kspec|exact W|cbn; lia]).
    eapply tsame_trans; [exact S1|]. destruct S1 as [_ [_ [D1 [W1 _]]]].
    apply walked_same; [apply kspec|exact W1|cbn; lia].
  Qed.
  Lemma rd3_value rp tb k1 k2 k3 : inv3 rp tb ->
    UG.table_res (TG.gen_Proxy_value keqb (TG.Proxy_EntryProxy (TG.mk_eproxy (walked keqb tb [k1; k2]) [k1; k2; k3]))) =
      UG.Ok (TG.Proxy_EntryProxy (TG.mk_eproxy (rd3 tb k1 k2 k3) [k1; k2; k3]), val (sem keqb tb [k1; k2; k3])).
  Proof.
    intros I. pose proof I as [W [D _]].
    assert (S1 : tsame keqb tb (walked keqb tb [k1; k2])) by (apply walked_same; [apply kspec|exact W|cbn; lia]).
    pose proof S1 as [_ [_ [D1 [W1 _]]]].
    rewrite Proxy_value_entry, (gen_eproxy_value_eq keqb kspec _ [k1; k2; k3] W1) by (cbn; lia).
    now rewrite (tsame_sem keqb _ _ [k1; k2; k3] S1).
  Qed.
  Lemma parent_entry3 (t : tstate) l : TG.Proxy_parent (TG.Proxy_EntryProxy (TG.mk_eproxy t l)) = t.
  Proof. reflexivity. Qed.
  Lemma parent_table3 (t : tstate) l : TG.Proxy_parent (TG.Proxy_TableProxy (TG.mk_tproxy t l)) = t.
  Proof. reflexivity. Qed.

  (** the whole chain [table[k1][k2][k3].value()], the table read back from the last proxy *)
  Lemma rd3_chain {X} rp tb k1 k2 k3 (K : tstate -> ext -> X) (F : UG.err -> X) : inv3 rp tb ->
    match UG.table_res (TG.gen_table_getitem keqb tb k1) with
    | UG.Err e' => F e'
    | UG.Ok (table, t1) =>
      match UG.table_res (TG.gen_Proxy_getitem keqb t1 k2) with
      | UG.Err e' => F e'
      | UG.Ok (_, t2) =>
        match UG.table_res (TG.gen_Proxy_getitem keqb t2 k3) with
        | UG.Err e' => F e'
        | UG.Ok (_, t3) =>
          match UG.table_res (TG.gen_Proxy_value keqb t3) with
          | UG.Err e' => F e'
          | UG.Ok (t4, v) => K (TG.Proxy_parent t4) v
          end
        end
      end
    end = K (rd3 tb k1 k2 k3) (val (sem keqb tb [k1; k2; k3])).
  Proof.
    intros I. rewrite (rd3_getitem rp tb _ I), (rd3_sub1 rp tb _ _ I), (rd3_sub2 rp tb _ _ _ I), (rd3_value rp tb _ _ _ I), parent_entry3.
    reflexivity.
  Qed.

  (** ** the aggregators: five entries per child and kind, tags [ObjectAssignment] *)
  Definition agg_state (rp : ret) (e : entry uassign) : EG.entry_state oa := mk EG.MergePolicy_MIN (prc rp) (emap oa_of e).
  Definition mc_of (rp : ret) (p : uchoices) : UG.MappingChoices :=
    UG.mk_MappingChoices (agg_state rp (uc_left p)) (agg_state rp (uc_right p)) (agg_state rp (uc_conserved p))
                         (agg_state rp (uc_segment p)) (agg_state rp (uc_separate p)).

  Lemma agg_update2 rp e v1 (x1 : uassign) v2 (x2 : uassign) :
    UG.entry_res (EG.gen_entry_update oaeqb (agg_state rp e) [EG.mk_Candidate v1 (Some (oa_of x1)); EG.mk_Candidate v2 (Some (oa_of x2))]) =
      UG.Ok (agg_state rp (update uassign_eqb MIN rp e [(v1, Some x1); (v2, Some x2)]), tt).
  Proof.
    unfold agg_state. rewrite gen_entry_update_mk. cbn [cmp map ccand EG.Candidate_value EG.Candidate_info UG.entry_res].
    rewrite crp_prc. do 3 f_equal.
    exact (update_emap uassign_eqb oaeqb oa_of oa_eqb_of MIN rp [(v1, Some x1); (v2, Some x2)] e).
  Qed.

  (** one candidate offered to the aggregator number [i] *)
  Definition feed1 (rp : ret) (p : uchoices) (x : nat * (ext * option uassign)) : uchoices :=
    let u e := update uassign_eqb MIN rp e [snd x] in
    match fst x with
    | 0%nat => {| uc_left := u (uc_left p); uc_right := uc_right p; uc_conserved := uc_conserved p; uc_segment := uc_segment p; uc_separate := uc_separate p |}
    | 1%nat => {| uc_left := uc_left p; uc_right := u (uc_right p); uc_conserved := uc_conserved p; uc_segment := uc_segment p; uc_separate := uc_separate p |}
    | 2%nat => {| uc_left := uc_left p; uc_right := uc_right p; uc_conserved := u (uc_conserved p); uc_segment := uc_segment p; uc_separate := uc_separate p |}
    | 3%nat => {| uc_left := uc_left p; uc_right := uc_right p; uc_conserved := uc_conserved p; uc_segment := u (uc_segment p); uc_separate := uc_separate p |}
    | 4%nat => {| uc_left := uc_left p; uc_right := uc_right p; uc_conserved := uc_conserved p; uc_segment := uc_segment p; uc_separate := u (uc_separate p) |}
    | _ => p
    end.
  Definition feed (rp : ret) (p : uchoices) (l : list (nat * (ext * option uassign))) : uchoices := fold_left (feed1 rp) l p.

  Lemma feed_app rp p l1 l2 : feed rp p (l1 ++ l2) = feed rp (feed rp p l1) l2.
  Proof. unfold feed. apply fold_left_app. Qed.

  Definition upd_s (rp : ret) (e : entry uassign) l := update uassign_eqb MIN rp e l.
  Lemma upd_s_app rp e l1 l2 : upd_s rp e (l1 ++ l2) = upd_s rp (upd_s rp e l1) l2.
  Proof. unfold upd_s, update. apply fold_left_app. Qed.

  Lemma feed_fields rp l : forall p,
    feed rp p l = {| uc_left := upd_s rp (uc_left p) (upick_o 0 l); uc_right := upd_s rp (uc_right p) (upick_o 1 l);
                     uc_conserved := upd_s rp (uc_conserved p) (upick_o 2 l); uc_segment := upd_s rp (uc_segment p) (upick_o 3 l);
                     uc_separate := upd_s rp (uc_separate p) (upick_o 4 l) |}.
  Proof.
    induction l as [|[i x] l IH]; intros p; [destruct p; reflexivity|].
    change (feed rp p ((i, x) :: l)) with (feed rp (feed1 rp p (i, x)) l). rewrite IH. unfold upick_o. cbn [filter fst].
    destruct i as [|[|[|[|[|i]]]]]; cbn [Nat.eqb map snd feed1 fst uc_left uc_right uc_conserved uc_segment uc_separate]; reflexivity.
  Qed.

  (** a batch of candidates offered to the aggregator number [i] (one [update] of the code) *)
  Definition feedk (rp : ret) (p : uchoices) (i : nat) (l : list (ext * option uassign)) : uchoices :=
    let u e := update uassign_eqb MIN rp e l in
    match i with
    | 0%nat => {| uc_left := u (uc_left p); uc_right := uc_right p; uc_conserved := uc_conserved p; uc_segment := uc_segment p; uc_separate := uc_separate p |}
    | 1%nat => {| uc_left := uc_left p; uc_right := u (uc_right p); uc_conserved := uc_conserved p; uc_segment := uc_segment p; uc_separate := uc_separate p |}
    | 2%nat => {| uc_left := uc_left p; uc_right := uc_right p; uc_conserved := u (uc_conserved p); uc_segment := uc_segment p; uc_separate := uc_separate p |}
    | 3%nat => {| uc_left := uc_left p; uc_right := uc_right p; uc_conserved := uc_conserved p; uc_segment := u (uc_segment p); uc_separate := uc_separate p |}
    | 4%nat => {| uc_left := uc_left p; uc_right := uc_right p; uc_conserved := uc_conserved p; uc_segment := uc_segment p; uc_separate := u (uc_separate p) |}
    | _ => p
    end.

  Lemma upick_pair j i (l : list (ext * option uassign)) : upick_o j (map (pair i) l) = if Nat.eqb i j then l else [].
  Proof.
    unfold upick_o. induction l as [|x l IH]; cbn [map filter fst]; [now destruct (Nat.eqb i j)|].
    destruct (Nat.eqb i j) eqn:E; cbn [map snd]; [now rewrite IH|exact IH].
  Qed.

  Lemma feedk_eq rp p i l : feedk rp p i l = feed rp p (map (pair i) l).
  Proof.
    rewrite feed_fields, !upick_pair. unfold upd_s.
    destruct i as [|[|[|[|[|i]]]]]; cbn [Nat.eqb feedk update fold_left]; try reflexivity. destruct p; reflexivity.
  Qed.

  Definition uchoices0 : uchoices :=
    {| uc_left := default_entry MIN; uc_right := default_entry MIN; uc_conserved := default_entry MIN;
       uc_segment := default_entry MIN; uc_separate := default_entry MIN |}.
  Lemma feed_uchoices_o S c rp sub lossless s kind ds :
    feed rp uchoices0 (flat_map (uone_o S c sub lossless s kind) ds) = uchoices_o S c rp sub lossless s kind ds.
  Proof. rewrite feed_fields. reflexivity. Qed.

  (** ** [subprobs]: per child an association list kind -> aggregators *)
  Definition al (rp : ret) (pF pT : uchoices) : list (UG.SyntenyAssignment * UG.MappingChoices) :=
    [(LCA, mc_of rp pF); (INH, mc_of rp pT)].
  Lemma al_get_F rp pF pT : UG.adict_get saeqb (al rp pF pT) LCA = Some (mc_of rp pF).
  Proof. reflexivity. Qed.
  Lemma al_get_T rp pF pT : UG.adict_get saeqb (al rp pF pT) INH = Some (mc_of rp pT).
  Proof. reflexivity. Qed.
  Lemma al_set_F rp pF pT p : UG.adict_set saeqb (al rp pF pT) LCA (mc_of rp p) = al rp p pT.
  Proof. reflexivity. Qed.
  Lemma al_set_T rp pF pT p : UG.adict_set saeqb (al rp pF pT) INH (mc_of rp p) = al rp pF p.
  Proof. reflexivity. Qed.

  Notation acc_t := (list (nat * (ext * option uassign))).
  Definition two (rp : ret) (ci : N) (q0 q1 : uchoices * uchoices) (aF aT : acc_t)
      : list (list (UG.SyntenyAssignment * UG.MappingChoices)) :=
    if N.eqb ci 0 then [al rp (feed rp (fst q0) aF) (feed rp (snd q0) aT); al rp (fst q1) (snd q1)]
    else [al rp (fst q0) (snd q0); al rp (feed rp (fst q1) aF) (feed rp (snd q1) aT)].
  Definition pc (ci : N) (q0 q1 : uchoices * uchoices) : uchoices * uchoices := if N.eqb ci 0 then q0 else q1.

  Lemma two_nth rp ci q0 q1 aF aT : (ci = 0 \/ ci = 1)%N ->
    nth_error (two rp ci q0 q1 aF aT) (N.to_nat ci) =
      Some (al rp (feed rp (fst (pc ci q0 q1)) aF) (feed rp (snd (pc ci q0 q1)) aT)).
  Proof. intros [-> | ->]; reflexivity. Qed.
  Lemma two_set_T rp ci q0 q1 aF aT i l : (ci = 0 \/ ci = 1)%N ->
    UG.nset (two rp ci q0 q1 aF aT) ci
       (UG.adict_set saeqb (al rp (feed rp (fst (pc ci q0 q1)) aF) (feed rp (snd (pc ci q0 q1)) aT)) INH
          (mc_of rp (feedk rp (feed rp (snd (pc ci q0 q1)) aT) i l))) = Some (two rp ci q0 q1 aF (aT ++ map (pair i) l)).
  Proof. intros [-> | ->]; rewrite al_set_T, feedk_eq; unfold two, pc; cbn [N.eqb]; rewrite feed_app; reflexivity. Qed.
  Lemma two_set_F rp ci q0 q1 aF aT i l : (ci = 0 \/ ci = 1)%N ->
    UG.nset (two rp ci q0 q1 aF aT) ci
       (UG.adict_set saeqb (al rp (feed rp (fst (pc ci q0 q1)) aF) (feed rp (snd (pc ci q0 q1)) aT)) LCA
          (mc_of rp (feedk rp (feed rp (fst (pc ci q0 q1)) aF) i l))) = Some (two rp ci q0 q1 (aF ++ map (pair i) l) aT).
  Proof. intros [-> | ->]; rewrite al_set_F, feedk_eq; unfold two, pc; cbn [N.eqb]; rewrite feed_app; reflexivity. Qed.

  Variable lcaobj : lca.
  Notation DIST := (fun (_ : lca) => dist).
  Notation ANC := (fun (_ : lca) => anc).

  Lemma sub_of_same a b n k : tsame keqb a b -> sub_of b n k = sub_of a n k.
  Proof. intros S. unfold SR.Proofs.UspfsGenCommon.Common.sub_of. now rewrite (gsem3_same a b _ _ _ S). Qed.
  Lemma uone_o_ext S c sub sub' ll s kind d : (forall b, sub (d, b) = sub' (d, b)) ->
    uone_o S c sub ll s kind d = uone_o S c sub' ll s kind d.
  Proof. intros E. unfold uone_o. now rewrite !E. Qed.

  (** [uone_o] with the two "distances" of the code *)
  Definition uone_x (S : stree) (c : costs) (lc ic : ext) (lld : Z) (lid : ext) (s : path) (kind : bool) (d : path)
      : list (nat * (ext * option uassign)) :=
    let sl := Fin (c_sloss c) in
    let la := Some (d, false) in let ia := Some (d, true) in
    if anc s d then
      let above := Fin (dist s d * c_floss c) in
      let below := Fin (dist s d * c_floss c - c_floss c) in
      let cons base := if kind then [(ext_add (ext_add base lc) sl, la); (ext_add base ic, ia)]
                       else [(ext_add (ext_add base lc) (Fin lld), la); (ext_add (ext_add base ic) lid, ia)] in
      let seg := if kind then [(ext_add above lc, la); (ext_add above ic, ia)]
                 else [(ext_add above lc, la); (ext_add (ext_add above ic) lid, ia)] in
      map (pair 2%nat) (cons above) ++ map (pair 3%nat) seg
      ++ (if sleaf S s then []
          else if anc (s ++ [false]) d then map (pair 0%nat) (cons below)
          else if anc (s ++ [true]) d then map (pair 1%nat) (cons below)
          else [])
    else if negb (anc d s) then
      map (pair 4%nat) (if kind then [(lc, la); (ic, ia)] else [(lc, la); (ext_add ic lid, ia)])
    else [].
  Lemma uone_o_x S c sub (lossless : bool) lld lid s kind d :
    Fin lld = (if lossless then Fin 0 else Fin (c_sloss c)) -> lid = (if lossless then PInf else Fin 0) ->
    uone_o S c sub lossless s kind d = uone_x S c (sub (d, false)) (sub (d, true)) lld lid s kind d.
  Proof. intros H1 H2. unfold uone_o, uone_x. cbv zeta. rewrite <- H1, <- H2. reflexivity. Qed.

  Ltac agg_T rp ci q0 q1 Hci i :=
    match goal with |- context [nth_error (two rp ci q0 q1 ?aF ?aT) (N.to_nat ci)] =>
      rewrite (two_nth rp ci q0 q1 aF aT Hci), al_get_T;
      cbn [mc_of UG.MappingChoices_left UG.MappingChoices_right UG.MappingChoices_conserved UG.MappingChoices_segment
           UG.MappingChoices_separate];
      rewrite agg_update2;
      match goal with |- context [UG.nset (two rp ci q0 q1 aF aT) ci (UG.adict_set _ _ _ ?r)] =>
        match r with context [update uassign_eqb MIN rp _ ?l] =>
          change r with (mc_of rp (feedk rp (feed rp (snd (pc ci q0 q1)) aT) i l));
          rewrite (two_set_T rp ci q0 q1 aF aT i l Hci)
        end
      end
    end.
  Ltac agg_F rp ci q0 q1 Hci i :=
    match goal with |- context [nth_error (two rp ci q0 q1 ?aF ?aT) (N.to_nat ci)] =>
      rewrite (two_nth rp ci q0 q1 aF aT Hci), al_get_F;
      cbn [mc_of UG.MappingChoices_left UG.MappingChoices_right UG.MappingChoices_conserved UG.MappingChoices_segment
           UG.MappingChoices_separate];
      rewrite agg_update2;
      match goal with |- context [UG.nset (two rp ci q0 q1 aF aT) ci (UG.adict_set _ _ _ ?r)] =>
        match r with context [update uassign_eqb MIN rp _ ?l] =>
          change r with (mc_of rp (feedk rp (feed rp (fst (pc ci q0 q1)) aF) i l));
          rewrite (two_set_F rp ci q0 q1 aF aT i l Hci)
        end
      end
    end.

  Lemma entry_loop2 rp S c (rs : @UG.STree path) ci (child : tree) q0 q1 (lossless : bool) (lld : Z) (lid : ext) :
    rs_ok S rs -> (ci = 0 \/ ci = 1)%N ->
    Fin lld = (if lossless then Fin 0 else Fin (c_sloss c)) -> lid = (if lossless then PInf else Fin 0) ->
    forall xs tb aF aT, inv3 rp tb ->
      exists tb',
        UG.gen_compute_uspfs_entry_for2 path_eqb nid_eqb ANC DIST lcaobj rs (c_sloss c) (c_floss c) LCA INH ci child lid lld xs tb
            (two rp ci q0 q1 aF aT) =
          UG.Next (tb', two rp ci q0 q1
                          (aF ++ flat_map (uone_o S c (sub_of tb (EV.TreeNode_id child)) lossless (sid rs) false) (sids3 xs))
                          (aT ++ flat_map (uone_o S c (sub_of tb (EV.TreeNode_id child)) lossless (sid rs) true) (sids3 xs)))
        /\ tsame keqb tb tb'.
  Proof.
    intros Hrs Hci Hlld Hlid. induction xs as [|ds xs IH]; intros tb aF aT I.
    - exists tb. split; [cbn; now rewrite !app_nil_r|]. apply tsame_refl; apply I.
    - cbn [UG.gen_compute_uspfs_entry_for2].
      assert (Tail : forall tb2 lF lT, inv3 rp tb2 -> tsame keqb tb tb2 ->
                lF = uone_o S c (sub_of tb (EV.TreeNode_id child)) lossless (sid rs) false (sid ds) ->
                lT = uone_o S c (sub_of tb (EV.TreeNode_id child)) lossless (sid rs) true (sid ds) ->
                exists tb',
                  UG.gen_compute_uspfs_entry_for2 path_eqb nid_eqb ANC DIST lcaobj rs (c_sloss c) (c_floss c) LCA INH ci child lid lld xs tb2
                      (two rp ci q0 q1 (aF ++ lF) (aT ++ lT)) =
                  UG.Next (tb', two rp ci q0 q1
                          (aF ++ flat_map (uone_o S c (sub_of tb (EV.TreeNode_id child)) lossless (sid rs) false) (sids3 (ds :: xs)))
                          (aT ++ flat_map (uone_o S c (sub_of tb (EV.TreeNode_id child)) lossless (sid rs) true) (sids3 (ds :: xs))))
                  /\ tsame keqb tb tb').
      { intros tb2 lF lT I2 S2 ElF ElT.
        destruct (IH tb2 (aF ++ lF) (aT ++ lT) I2) as [tb' [E S']].
        exists tb'. split; [|eapply tsame_trans; eauto].
        replace (flat_map (uone_o S c (sub_of tb2 (EV.TreeNode_id child)) lossless (sid rs) false) (sids3 xs))
          with (flat_map (uone_o S c (sub_of tb (EV.TreeNode_id child)) lossless (sid rs) false) (sids3 xs)) in E
          by (apply flat_map_ext; intros d; apply uone_o_ext; intros b; symmetry; apply sub_of_same; exact S2).
        replace (flat_map (uone_o S c (sub_of tb2 (EV.TreeNode_id child)) lossless (sid rs) true) (sids3 xs))
          with (flat_map (uone_o S c (sub_of tb (EV.TreeNode_id child)) lossless (sid rs) true) (sids3 xs)) in E
          by (apply flat_map_ext; intros d; apply uone_o_ext; intros b; symmetry; apply sub_of_same; exact S2).
        rewrite E. unfold sids3. cbn [map flat_map]. rewrite ElF, ElT, <- !app_assoc. reflexivity. }
      rewrite (uone_o_x S c _ lossless lld lid (sid rs) false (sid ds) Hlld Hlid),
              (uone_o_x S c _ lossless lld lid (sid rs) true (sid ds) Hlld Hlid) in Tail.
      unfold uone_x in Tail. cbv beta iota zeta in Tail.
      rewrite (rd3_getitem rp tb _ I), (rd3_sub1 rp tb _ _ I), parent_table3.
      rewrite (rd3_getitem rp tb _ I), (rd3_sub1 rp tb _ _ I), (rd3_sub2 rp tb _ _ _ I), (rd3_value rp tb _ _ _ I), parent_entry3.
      pose proof (rd3_same rp tb (inl (inl (EV.TreeNode_id child))) (inl (inr (sid ds))) (inr LCA) I) as S1.
      pose proof (inv3_same _ _ _ I S1) as I1.
      remember (rd3 tb (inl (inl (EV.TreeNode_id child))) (inl (inr (sid ds))) (inr LCA)) as tb1 eqn:Etb1.
      rewrite (rd3_getitem rp tb1 _ I1), (rd3_sub1 rp tb1 _ _ I1), (rd3_sub2 rp tb1 _ _ _ I1), (rd3_value rp tb1 _ _ _ I1), parent_entry3.
      pose proof (rd3_same rp tb1 (inl (inl (EV.TreeNode_id child))) (inl (inr (sid ds))) (inr INH) I1) as S2.
      pose proof (tsame_trans keqb _ _ _ S1 S2) as S12.
      pose proof (inv3_same _ _ _ I S12) as I2.
      remember (rd3 tb1 (inl (inl (EV.TreeNode_id child))) (inl (inr (sid ds))) (inr INH)) as tb2 eqn:Etb2.
      rewrite (tsame_sem keqb tb tb1 _ S1).
      change (val (sem keqb tb [inl (inl (EV.TreeNode_id child)); inl (inr (sid ds)); inr LCA]))
        with (sub_of tb (EV.TreeNode_id child) (sid ds, false)).
      change (val (sem keqb tb [inl (inl (EV.TreeNode_id child)); inl (inr (sid ds)); inr INH]))
        with (sub_of tb (EV.TreeNode_id child) (sid ds, true)).
      remember (sub_of tb (EV.TreeNode_id child) (sid ds, false)) as lc eqn:Elc.
      remember (sub_of tb (EV.TreeNode_id child) (sid ds, true)) as ic eqn:Eic.
      change (UG.mk_ObjectAssignment (sid ds) LCA) with (oa_of (sid ds, false)).
      change (UG.mk_ObjectAssignment (sid ds) INH) with (oa_of (sid ds, true)).
      destruct (Tail tb2 _ _ I2 S12 eq_refl eq_refl) as [tb' [E R]]. clear Tail IH.
      exists tb'. split; [|exact R]. refine (eq_trans _ E). clear E R.
      destruct (anc (sid rs) (sid ds)) eqn:A1.
      * agg_T rp ci q0 q1 Hci 2%nat. agg_F rp ci q0 q1 Hci 2%nat. agg_T rp ci q0 q1 Hci 3%nat. agg_F rp ci q0 q1 Hci 3%nat.
        destruct rs as [s|s L R]; cbn [UG.STree_is_leaf negb UG.STree_id] in *.
        -- rewrite Hrs. rewrite <- !app_assoc. reflexivity.
        -- destruct Hrs as [Hl [HL HR]]. rewrite Hl, HL, HR.
           destruct (anc (s ++ [false]) (sid ds)) eqn:A2.
           ++ agg_T rp ci q0 q1 Hci 0%nat. agg_F rp ci q0 q1 Hci 0%nat. rewrite <- !app_assoc. reflexivity.
           ++ destruct (anc (s ++ [true]) (sid ds)) eqn:A3.
              ** agg_T rp ci q0 q1 Hci 1%nat. agg_F rp ci q0 q1 Hci 1%nat. rewrite <- !app_assoc. reflexivity.
              ** rewrite <- !app_assoc. reflexivity.
      * destruct (anc (sid ds) (sid rs)) eqn:A2; cbn [negb].
        -- now rewrite !app_nil_r.
        -- agg_T rp ci q0 q1 Hci 4%nat. agg_F rp ci q0 q1 Hci 4%nat. reflexivity.
  Qed.

  (** ** one child: [lca_sets[root] <= lca_sets[child]] decides the two "distances", then the loop over the species *)
  Lemma entry_for1_step (ST rs : @UG.STree path) nid (L R child : tree) (lsets : list (node_id * list N)) sl fl cnt ci tb sp (lr lc : list N) :
    (if N.eqb ci 0 then Some L else if N.eqb ci 1 then Some R else None) = Some child ->
    UG.dict_get nid_eqb lsets nid = Some lr -> UG.dict_get nid_eqb lsets (EV.TreeNode_id child) = Some lc ->
    UG.gen_compute_uspfs_entry_for1 N.eqb path_eqb nid_eqb ANC DIST (fun _ => ST) lcaobj rs (EV.TreeNode_node nid L R) lsets sl fl LCA INH
        (Datatypes.S cnt) ci tb sp =
      match UG.gen_compute_uspfs_entry_for2 path_eqb nid_eqb ANC DIST lcaobj rs sl fl LCA INH ci child
              (if UG.gset_subset N.eqb lr lc then PInf else Fin 0) (if UG.gset_subset N.eqb lr lc then 0 else sl)
              (UG.STree_levelorder ST) tb sp with
      | UG.Next (tb', sp') =>
          UG.gen_compute_uspfs_entry_for1 N.eqb path_eqb nid_eqb ANC DIST (fun _ => ST) lcaobj rs (EV.TreeNode_node nid L R) lsets sl fl LCA INH
            cnt (N.succ ci) tb' sp'
      | UG.Ret r => UG.Ret r
      | UG.Fail e => UG.Fail e
      end.
  Proof.
    intros Hc Hr Hl. cbn [UG.gen_compute_uspfs_entry_for1]. rewrite Hc. cbn [EV.TreeNode_id]. rewrite Hr, Hl.
    destruct (UG.gset_subset N.eqb lr lc); reflexivity.
  Qed.

  (** ** [combine] with an event combinator, the iteration of the combined entry, the write into the cell *)
  Definition combinator3 (k : ext) : EG.Candidate oa -> EG.Candidate oa -> EG.Candidate ca :=
    fun l r => EG.mk_Candidate (ext_add (ext_add k (EG.Candidate_value l)) (EG.Candidate_value r))
                 (Some (UG.mk_ChildrenAssignment (EG.Candidate_info l) (EG.Candidate_info r))).
  Lemma make_comb k : UG.gen_make_event_combinator (sp := path) k = UG.Ok (combinator3 k).
  Proof. reflexivity. Qed.

  Lemma flat_map_cmap3 (k v1 v2 : ext) (l1 l2 : list uassign) :
    flat_map (fun a => map (fun b => comb_f (combinator3 k) v1 v2 a b) (map oa_of l2)) (map oa_of l1) =
    map (cmap tag_ca) (flat_map (fun a => map (fun b => ucomb k v1 v2 a b) l2) l1).
  Proof.
    induction l1 as [|a l1 IH]; cbn [flat_map map]; [reflexivity|]. rewrite map_app, IH. f_equal.
    rewrite !map_map. apply map_ext. intros b. reflexivity.
  Qed.

  Lemma comb3_eq rp k (E1 E2 : entry uassign) :
    UG.entry_res (EG.gen_entry_combine caeqb (agg_state rp E1) (agg_state rp E2) (combinator3 k)) =
      UG.Ok (agg_state rp E1, mk EG.MergePolicy_MIN (prc rp) (emap tag_ca (combine utag_eqb MIN rp E1 E2 (ucomb k (val E1) (val E2))))).
  Proof.
    rewrite gen_entry_combine_eq. unfold agg_state. cbn [EG.entry__merge_policy EG.entry__retention_policy mk cmp UG.entry_res].
    rewrite crp_prc, !ent_mk. unfold combine. cbn [emap tags val]. rewrite flat_map_cmap3.
    change (@default_entry ca MIN) with (emap tag_ca (@default_entry utag MIN)).
    now rewrite (update_emap utag_eqb caeqb tag_ca ca_eqb_tag).
  Qed.

  Lemma iter3_eq rp (C : entry utag) :
    UG.table_res (TG.gen_entry_iter (mk EG.MergePolicy_MIN (prc rp) (emap tag_ca C))) =
      UG.Ok (mk EG.MergePolicy_MIN (prc rp) (emap tag_ca C), map (fun t => EG.mk_Candidate (val C) (Some (tag_ca t))) (tags C)).
  Proof. rewrite gen_entry_iter_eq. cbn. now rewrite map_map. Qed.

  Lemma ccand_cands3 (C : entry utag) :
    map ccand (map (fun t => EG.mk_Candidate (val C) (Some (tag_ca t))) (tags C)) = map (cmap tag_ca) (cands C).
  Proof. unfold cands. rewrite !map_map. reflexivity. Qed.

  Lemma has_fin_cmap3 (b : list (ext * option utag)) (cs : list (EG.Candidate ca)) :
    map ccand cs = map (cmap tag_ca) b -> has_fin cs = Thl.has_finite b.
  Proof.
    intros E. rewrite has_fin_model, E. unfold Thl.has_finite. clear E. induction b as [|x b IH]; cbn [map existsb]; [reflexivity|].
    now rewrite IH.
  Qed.

  Lemma entry2_agg3 rp tb : inv3 rp tb ->
    UG.table_res (TG.gen_table_entry2 (U := oa) tb) = UG.Ok (tb, agg_state rp (default_entry MIN)).
  Proof. intros [_ [_ [M R]]]. rewrite gen_table_entry2_eq. unfold agg_state. now rewrite M, R. Qed.

  (** the six combinations of the aggregators of the two children *)
  Definition batch6 (rp : ret) (spe dup hgt : ext) (p0 p1 : uchoices) : list (ext * option utag) :=
    ucomb2 rp spe (uc_left p0) (uc_right p1) ++ ucomb2 rp spe (uc_right p0) (uc_left p1)
    ++ ucomb2 rp dup (uc_conserved p0) (uc_segment p1) ++ ucomb2 rp dup (uc_segment p0) (uc_conserved p1)
    ++ ucomb2 rp hgt (uc_conserved p0) (uc_separate p1) ++ ucomb2 rp hgt (uc_separate p0) (uc_conserved p1).

  (** ** one kind: the six combinations written into the cell [(object, species, kind)] *)
  Lemma entry_for3_step rp (kind : bool) (rs : @UG.STree path) (ro : tree) spe dup hgt its tb pF0 pT0 pF1 pT1 e0 :
    inv3 rp tb -> gsem3 tb (EV.TreeNode_id ro) (sid rs) kind = emap tag_ca e0 ->
    exists tb',
      UG.gen_compute_uspfs_entry_for3 path_eqb nid_eqb rs ro (combinator3 spe) (combinator3 dup) (combinator3 hgt) (kind_of kind :: its) tb
          [al rp pF0 pT0; al rp pF1 pT1] =
        UG.gen_compute_uspfs_entry_for3 path_eqb nid_eqb rs ro (combinator3 spe) (combinator3 dup) (combinator3 hgt) its tb'
          [al rp pF0 pT0; al rp pF1 pT1] /\
      inv3 rp tb' /\
      gsem3 tb' (EV.TreeNode_id ro) (sid rs) kind =
        emap tag_ca (cell_upd3 rp e0 (batch6 rp spe dup hgt (if kind then pT0 else pF0) (if kind then pT1 else pF1))) /\
      (forall n x k', (n, x, k') <> (EV.TreeNode_id ro, sid rs, kind) -> gsem3 tb' n x k' = gsem3 tb n x k').
  Proof.
    intros I E0. cbn [UG.gen_compute_uspfs_entry_for3 nth_error].
    remember (if kind then pT0 else pF0) as p0 eqn:Ep0. remember (if kind then pT1 else pF1) as p1 eqn:Ep1.
    assert (G0 : UG.adict_get saeqb (al rp pF0 pT0) (kind_of kind) = Some (mc_of rp p0)) by (subst p0; destruct kind; reflexivity).
    assert (G1 : UG.adict_get saeqb (al rp pF1 pT1) (kind_of kind) = Some (mc_of rp p1)) by (subst p1; destruct kind; reflexivity).
    rewrite !G0, !G1.
    cbn [mc_of UG.MappingChoices_left UG.MappingChoices_right UG.MappingChoices_conserved UG.MappingChoices_segment
         UG.MappingChoices_separate].
    rewrite (rd3_getitem rp tb _ I), (rd3_sub1 rp tb _ _ I), (rd3_sub2 rp tb _ _ _ I).
    rewrite !comb3_eq, !iter3_eq.
    match goal with |- context [TG.gen_Proxy_update _ _ _ ?l] => remember l as cs eqn:Ecs end.
    pose proof I as [W [Dm [M Rp]]].
    assert (S3 : tsame keqb tb (walked keqb tb [inl (inl (EV.TreeNode_id ro)); inl (inr (sid rs))])).
    { apply walked_same; [apply kspec|exact W|cbn; lia]. }
    pose proof (inv3_same _ _ _ I S3) as I3.
    match goal with |- context [TG.gen_Proxy_update _ _ (TG.Proxy_EntryProxy (TG.mk_eproxy ?t _)) _] => remember t as tb3 eqn:Etb3 end.
    assert (Etb3' : tb3 = walked keqb tb [inl (inl (EV.TreeNode_id ro)); inl (inr (sid rs))]) by exact Etb3.
    clear Etb3. rewrite <- Etb3' in S3, I3.
    pose proof I3 as [W3 [Dm3 [M3 R3]]].
    destruct (gen_eproxy_update_spec keqb caeqb kspec tb3 [inl (inl (EV.TreeNode_id ro)); inl (inr (sid rs))] (inr (kind_of kind)) cs W3
                ltac:(rewrite Dm3; reflexivity)) as [tb' [E [P1 [P2 [P3 [W' [Sk So]]]]]]].
    cbn [app] in *. cbn [TG.gen_Proxy_update].
    match goal with |- context [TG.gen_eproxy_update ?a ?b ?p ?q] =>
      replace (TG.gen_eproxy_update a b p q)
        with (TG.Ok (TG.mk_eproxy tb' [inl (inl (EV.TreeNode_id ro)); inl (inr (sid rs)); inr (kind_of kind)], tt))
        by (symmetry; exact E) end.
    cbn [UG.table_res]. rewrite parent_entry3.
    assert (Ecs' : map ccand cs = map (cmap tag_ca) (batch6 rp spe dup hgt p0 p1)).
    { rewrite Ecs. unfold batch6, ucomb2. rewrite !map_app, !ccand_cands3. reflexivity. }
    exists tb'. split; [reflexivity|]. split; [repeat split; auto; congruence|]. split.
    - unfold SR.Proofs.UspfsGenCommon.Common.gsem3, ck3, kn, ks, kk. rewrite Sk, (has_fin_cmap3 _ cs Ecs'), M3, R3. cbn [cmp]. rewrite crp_prc.
      rewrite (tsame_sem keqb tb tb3 _ S3).
      change (sem keqb tb [inl (inl (EV.TreeNode_id ro)); inl (inr (sid rs)); inr (kind_of kind)]) with (gsem3 tb (EV.TreeNode_id ro) (sid rs) kind).
      rewrite E0, Ecs'. unfold cell_upd3. destruct (Thl.has_finite (batch6 rp spe dup hgt p0 p1)); [|reflexivity].
      now rewrite (update_emap utag_eqb caeqb tag_ca ca_eqb_tag).
    - intros n x k' Hne. unfold SR.Proofs.UspfsGenCommon.Common.gsem3.
      transitivity (sem keqb tb3 (ck3 n x k')); [|apply tsame_sem; exact S3].
      unfold sem. rewrite So, P1; [reflexivity|rewrite Dm3; reflexivity|].
      unfold ck3, kn, ks, kk. intros Eq. inversion Eq as [[Hn Hx Hk]]. apply Hne.
      destruct k', kind; cbn in Hk; try discriminate; rewrite Hn, Hx; reflexivity.
  Qed.

  Lemma fin_if (b : bool) x y : Fin (if b then x else y) = (if b then Fin x else Fin y).
  Proof. now destruct b. Qed.

  (** ** [_compute_uspfs_entry] = the two batches of the model, for the enumeration of the code, written into the two cells *)
  Theorem entry_eq_main : entry_eq_statement nid_eqb lcaobj.
  Proof.
    unfold entry_eq_statement.
    intros rp S c rs ST nid L R tb lsets lr ll lrr e0 e1 Hrs I Hr Hl HR E0 E1.
    remember (UG.gset_subset N.eqb lr ll) as la eqn:Hla. remember (UG.gset_subset N.eqb lr lrr) as lb eqn:Hlb.
    pose (batch := fun kind => ubatch_o S c rp (sub_of tb (EV.TreeNode_id L)) (sub_of tb (EV.TreeNode_id R)) la lb (sid rs) kind
                                 (sids3 (UG.STree_levelorder ST))).
    change (ubatch_o S c rp (sub_of tb (EV.TreeNode_id L)) (sub_of tb (EV.TreeNode_id R)) la lb (sid rs) false
                                 (sids3 (UG.STree_levelorder ST))) with (batch false).
    change (ubatch_o S c rp (sub_of tb (EV.TreeNode_id L)) (sub_of tb (EV.TreeNode_id R)) la lb (sid rs) true
                                 (sids3 (UG.STree_levelorder ST))) with (batch true).
    unfold UG.gen_compute_uspfs_entry. cbv beta iota zeta.
    rewrite (entry2_agg3 rp tb I).
    change (repeat _ 2) with (two rp 0 (uchoices0, uchoices0) (uchoices0, uchoices0) [] []).
    change (N.to_nat 2) with 2%nat.
    cbn [EV.CostValues_SEGMENTAL_LOSS EV.CostValues_FULL_LOSS EV.CostValues_SPECIATION EV.CostValues_DUPLICATION
         EV.CostValues_HORIZONTAL_TRANSFER stsocc].
    rewrite (entry_for1_step ST rs nid L R L lsets (c_sloss c) (c_floss c) 1 0 tb _ lr ll eq_refl Hr Hl).
    rewrite <- Hla.
    destruct (entry_loop2 rp S c rs 0 L (uchoices0, uchoices0) (uchoices0, uchoices0) la (if la then 0 else c_sloss c)
                (if la then PInf else Fin 0) Hrs (or_introl eq_refl) (fin_if _ _ _) eq_refl (UG.STree_levelorder ST) tb [] [] I)
      as [tb1 [El1 S1]].
    rewrite El1. cbn [app]. pose proof (inv3_same _ _ _ I S1) as I1. clear El1.
    change (N.succ 0) with 1%N.
    remember (flat_map (uone_o S c (sub_of tb (EV.TreeNode_id L)) la (sid rs) false) (sids3 (UG.STree_levelorder ST))) as LF0 eqn:ELF0.
    remember (flat_map (uone_o S c (sub_of tb (EV.TreeNode_id L)) la (sid rs) true) (sids3 (UG.STree_levelorder ST))) as LT0 eqn:ELT0.
    change (two rp 0 (uchoices0, uchoices0) (uchoices0, uchoices0) LF0 LT0)
      with (two rp 1 (feed rp uchoices0 LF0, feed rp uchoices0 LT0) (uchoices0, uchoices0) [] []).
    rewrite (entry_for1_step ST rs nid L R R lsets (c_sloss c) (c_floss c) 0 1 tb1 _ lr lrr eq_refl Hr HR).
    rewrite <- Hlb.
    destruct (entry_loop2 rp S c rs 1 R (feed rp uchoices0 LF0, feed rp uchoices0 LT0) (uchoices0, uchoices0) lb (if lb then 0 else c_sloss c)
                (if lb then PInf else Fin 0) Hrs (or_intror eq_refl) (fin_if _ _ _) eq_refl (UG.STree_levelorder ST) tb1 [] [] I1)
      as [tb2 [El2 S2]].
    rewrite El2. cbn [app]. clear El2.
    pose proof (tsame_trans keqb _ _ _ S1 S2) as S12. pose proof (inv3_same _ _ _ I S12) as I2.
    replace (flat_map (uone_o S c (sub_of tb1 (EV.TreeNode_id R)) lb (sid rs) false) (sids3 (UG.STree_levelorder ST)))
      with (flat_map (uone_o S c (sub_of tb (EV.TreeNode_id R)) lb (sid rs) false) (sids3 (UG.STree_levelorder ST)))
      by (apply flat_map_ext; intros d; apply uone_o_ext; intros b; symmetry; apply sub_of_same; exact S1).
    replace (flat_map (uone_o S c (sub_of tb1 (EV.TreeNode_id R)) lb (sid rs) true) (sids3 (UG.STree_levelorder ST)))
      with (flat_map (uone_o S c (sub_of tb (EV.TreeNode_id R)) lb (sid rs) true) (sids3 (UG.STree_levelorder ST)))
      by (apply flat_map_ext; intros d; apply uone_o_ext; intros b; symmetry; apply sub_of_same; exact S1).
    remember (flat_map (uone_o S c (sub_of tb (EV.TreeNode_id R)) lb (sid rs) false) (sids3 (UG.STree_levelorder ST))) as LF1 eqn:ELF1.
    remember (flat_map (uone_o S c (sub_of tb (EV.TreeNode_id R)) lb (sid rs) true) (sids3 (UG.STree_levelorder ST))) as LT1 eqn:ELT1.
    cbn [UG.gen_compute_uspfs_entry_for1]. rewrite !make_comb.
    change (two rp 1 (feed rp uchoices0 LF0, feed rp uchoices0 LT0) (uchoices0, uchoices0) LF1 LT1)
      with [al rp (feed rp uchoices0 LF0) (feed rp uchoices0 LT0); al rp (feed rp uchoices0 LF1) (feed rp uchoices0 LT1)].
    change (LCA :: INH :: nil) with (kind_of false :: kind_of true :: nil).
    assert (E0' : gsem3 tb2 (EV.TreeNode_id (EV.TreeNode_node nid L R)) (sid rs) false = emap tag_ca e0).
    { cbn [EV.TreeNode_id]. now rewrite (gsem3_same _ _ _ _ _ S12). }
    destruct (entry_for3_step rp false rs (EV.TreeNode_node nid L R) (Fin (c_spe c)) (Fin (c_dup c)) (c_hgt c) [kind_of true] tb2
                (feed rp uchoices0 LF0) (feed rp uchoices0 LT0) (feed rp uchoices0 LF1) (feed rp uchoices0 LT1) e0 I2 E0')
      as [tb3 [Es3 [I3 [K3 F3]]]].
    rewrite Es3. clear Es3.
    assert (E1' : gsem3 tb3 (EV.TreeNode_id (EV.TreeNode_node nid L R)) (sid rs) true = emap tag_ca e1).
    { rewrite F3 by (cbn [EV.TreeNode_id]; intros Eq; inversion Eq). cbn [EV.TreeNode_id]. now rewrite (gsem3_same _ _ _ _ _ S12). }
    destruct (entry_for3_step rp true rs (EV.TreeNode_node nid L R) (Fin (c_spe c)) (Fin (c_dup c)) (c_hgt c) [] tb3
                (feed rp uchoices0 LF0) (feed rp uchoices0 LT0) (feed rp uchoices0 LF1) (feed rp uchoices0 LT1) e1 I3 E1')
      as [tb4 [Es4 [I4 [K4 F4]]]].
    rewrite Es4. clear Es4. cbn [UG.gen_compute_uspfs_entry_for3].
    cbn [EV.TreeNode_id] in K3, F3, K4, F4.
    assert (B0 : batch6 rp (Fin (c_spe c)) (Fin (c_dup c)) (c_hgt c) (feed rp uchoices0 LF0) (feed rp uchoices0 LF1) = batch false).
    { unfold batch, ubatch_o. rewrite <- !(feed_uchoices_o S c rp), <- ELF0, <- ELF1. reflexivity. }
    assert (B1 : batch6 rp (Fin (c_spe c)) (Fin (c_dup c)) (c_hgt c) (feed rp uchoices0 LT0) (feed rp uchoices0 LT1) = batch true).
    { unfold batch, ubatch_o. rewrite <- !(feed_uchoices_o S c rp), <- ELT0, <- ELT1. reflexivity. }
    cbv iota in K3, K4. rewrite B0 in K3. rewrite B1 in K4.
    exists tb4. split; [reflexivity|]. split; [exact I4|]. split; [|split].
    - rewrite F4 by (intros Eq; inversion Eq). exact K3.
    - exact K4.
    - intros n x k Hne. rewrite F4, F3; [apply gsem3_same; exact S12| |]; intros Eq; apply Hne; inversion Eq; reflexivity.
  Qed.

End Entry3.

Theorem gen_compute_uspfs_entry_eq {lca node_id : Type} (nid_eqb : node_id -> node_id -> bool)
    (nid_eqb_spec : forall a b, reflect (a = b) (nid_eqb a b)) (lcaobj : lca) : SR.Proofs.UspfsGenStatements.Statements.entry_eq_statement nid_eqb lcaobj.
Proof. exact (entry_eq_main nid_eqb nid_eqb_spec lcaobj). Qed.
Print Assumptions gen_compute_uspfs_entry_eq.
End Entry.
