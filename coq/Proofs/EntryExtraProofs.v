(** Complements to [Proofs/EntryProofs.v] for C16: what a candidate without (truthy) info does,
    and the [combine] corollaries under the retention policies ANY and NONE.

    In [Model/Entry.v] the info of a candidate is an [option T]: [None] stands for Python's
    [info=None] AND for every falsy info ([0], [""], [()], ...), because [Entry.update] tests
    [if info and ...]; a tag [Some t] is a truthy info. *)
From Coq Require Import List Bool ZArith.
From SR Require Import Base.Ext Model.Entry Proofs.EntryProofs.
Import ListNotations.

Section EntryExtra.
  Context {T : Type} (T_eqb : T -> T -> bool).

  (* one candidate without tag: it can improve the value, then the tags are dropped; otherwise
     nothing changes *)
  Theorem untagged_candidate mp rp (e : entry T) v :
    update T_eqb mp rp e [(v, None)] =
      if better mp v (val e) then {| val := v; tags := [] |} else e.
  Proof.
    unfold update. cbn [fold_left]. unfold update1.
    destruct (ext_eqb (val e) v); destruct rp; reflexivity.
  Qed.

  Lemma untagged_tags mp rp cs : Forall (fun c : ext * option T => snd c = None) cs ->
    forall e, tags e = [] -> tags (update T_eqb mp rp e cs) = [].
  Proof.
    induction 1 as [|[v ot] cs H _ IH]; intros e He; [exact He|].
    simpl in H. subst ot. unfold update in *. cbn [fold_left]. apply IH.
    pose proof (untagged_candidate mp rp e v) as U. unfold update in U. cbn [fold_left] in U.
    rewrite U. destruct (better mp v (val e)); auto.
  Qed.

  (* a history of candidates without tag leaves no tag, under every policy *)
  Theorem untagged_history mp rp cs : Forall (fun c : ext * option T => snd c = None) cs ->
    tags (update T_eqb mp rp (default_entry mp) cs) = [].
  Proof. intros H. now apply untagged_tags. Qed.
End EntryExtra.

Section CombineExtra.
  Context {T U : Type} (T_eqb : T -> T -> bool) (U_eqb : U -> U -> bool).

  (* 'any': exactly one tag, of an optimal pair, iff some optimal pair is tagged *)
  Theorem combine_tags_any mp (e1 e2 : entry T) (f : T -> T -> ext * option U) :
    let r := combine U_eqb mp RANY e1 e2 f in
    (tags r = [] /\ forall a b u, In a (tags e1) -> In b (tags e2) -> f a b <> (val r, Some u)) \/
    (exists a b u, tags r = [u] /\ In a (tags e1) /\ In b (tags e2) /\ f a b = (val r, Some u)).
  Proof.
    cbn zeta. unfold combine. fold (pairs e1 e2 f).
    destruct (entry_tags_any U_eqb mp (pairs e1 e2 f)) as [[H1 H2] | [u [H1 H2]]].
    - left. split; [exact H1|]. intros a b u Ha Hb E. apply (H2 u). rewrite <- E.
      apply In_pairs. eauto.
    - right. apply In_pairs in H2 as [a [b [Ha [Hb E]]]]. exists a, b, u. auto.
  Qed.

  (* 'none': the combination has no tags *)
  Theorem combine_tags_none mp (e1 e2 : entry T) (f : T -> T -> ext * option U) :
    tags (combine U_eqb mp RNONE e1 e2 f) = [].
  Proof. unfold combine. apply entry_tags_none. Qed.

  (* an entry filled under policy 'none' retains no candidate: whatever values the two entries
     hold, their combination is the infinitely bad default (under any policy of the result) *)
  Theorem combine_of_none_entries mp rp mp1 cs1 (e2 : entry T) (f : T -> T -> ext * option U) :
    combine U_eqb mp rp (update T_eqb mp1 RNONE (default_entry mp1) cs1) e2 f = default_entry mp /\
    combine U_eqb mp rp e2 (update T_eqb mp1 RNONE (default_entry mp1) cs1) f = default_entry mp.
  Proof.
    split; apply combine_no_tags; [left|right]; apply entry_tags_none.
  Qed.
End CombineExtra.
