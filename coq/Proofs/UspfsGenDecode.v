(** Stage 4, EXACT layer, of the tie of [Gen/UspfsGen.v] (part of Proofs/UspfsGenProofs.v): [_decode_uspfs_table],
    [output.cost()], [_uspfs], [usreconcile_base_uspfs], [usreconcile_extended_uspfs] as generated = a Gallina description
    that uses the enumeration orders of the code, errors included.  The link of that description to [Model/Uspfs.v] is not
    made here.

    [udecode_g G t s k asyn]: the outputs the generator [_decode_uspfs_table] yields as a list, over a reader
    [G : node_id -> path -> bool -> entry ca] of the table ([false] = LCA), the order [ord_infos] a set of tags is enumerated
    in, what the two dictionaries read as ([LS], [GS]) and [sort_synteny] ([sort_synteny_fn] after [fam_order]); or the error
    the code stops with (ValueError: a tag in an infinite leaf cell; AttributeError: a tag with a missing assignment).
    [gen_decode_uspfs_eq]: the generated decoder is [udecode_g] on every well-formed table ([inv3]) when the dictionaries
    [lca_sets] / [gain_sets] have the nodes of the subtree as keys ([sets_ok]: no KeyError); [udecode_g_ok]: no error when the
    tags are complete and infinite leaf cells have none.  An output is the pair [dout] of its two dictionaries (lists of
    stores, newest first); [mk_out] the record ([ordered = false]); [lt_out] the labelled tree it denotes.
    [soutput_cost_eq]: [output.cost()] = [total_cost c O false (lt_out d)], AssertionError when that is [None].
    [gen_uspfs_exact] / [gen_uspfs_eq] / [gen_uspfs_of_table]: [_uspfs] given that STAGE 1 succeeds (Section-style
    premises [GAIN = Ok gsets], [LCAS gsets = Ok lsets], [sets_ok O]) and that a table the table function returns is well
    formed: the failure of the table function, else the candidates of every root species in level order
    ([uspfs_cands]: decode (O, species, LCA, lca_sets[O]), then the cost of every output), the first error propagated, else
    the tags of the MIN entry updated with them; [gen_uspfs_gain_err] / [_lca_err] / [_table_err]: the failures of stages
    1 and 3 are those of [_uspfs].  [gen_usreconcile_extended_uspfs_eq], [gen_usreconcile_base_uspfs_eq]
    ([gen_reconcile_lca_super_eq]: [reconcile_lca] does not fail on distinct node identifiers; [base_species_eq]): the two
    entry points are [_uspfs] with their callbacks.  [ExampleD.run_all]: the generated code run on an instance. *)
From Coq Require Import List Bool Arith ZArith NArith Lia Permutation.
From SR Require Gen.UspfsGen Model.Recon Model.Uspfs Base.PathB Base.Ext Model.Entry Model.LcaRec Model.Thl Proofs.PathFacts Proofs.EntryProofs Proofs.EntryGenProofs Proofs.TableGenProofs Gen.EntryGen Gen.TableGen Gen.EvalGen Proofs.ThlProofs Proofs.UspfsProofs Proofs.ThlGenProofs Proofs.EvalGenProofs Gen.ThlGen Proofs.ReconProofs Proofs.LcaProofs.
From SR Require Import Gen.UspfsGen Proofs.UspfsGenCommon Proofs.UspfsGenStatements.

Module Decode.
Import SR.Base.PathB SR.Base.Ext SR.Model.Entry SR.Model.Recon SR.Model.LcaRec SR.Model.Thl SR.Model.Uspfs SR.Proofs.PathFacts SR.Proofs.EntryProofs SR.Proofs.EntryGenProofs SR.Proofs.EvalGenProofs SR.Proofs.TableGenProofs SR.Proofs.ThlGenProofs.
Import SR.Proofs.UspfsGenCommon.Common SR.Proofs.UspfsGenCommon.ModelO SR.Proofs.UspfsGenCommon.TableO SR.Proofs.UspfsGenCommon.Embed.
Import SR.Proofs.UspfsGenStatements.Statements.
Import ListNotations.
Module T := SR.Gen.ThlGen.
Local Open Scope Z_scope.

(** * Sequential concatenation with the errors of the generated code: the first error *)
Section RCat.
  Context {X Y : Type} (f : X -> UG.res (list Y)).
  Fixpoint rcat (l : list X) : UG.res (list Y) :=
    match l with
    | [] => UG.Ok []
    | x :: l' => match f x with
                 | UG.Err e => UG.Err e
                 | UG.Ok a => match rcat l' with UG.Err e => UG.Err e | UG.Ok r => UG.Ok (a ++ r) end
                 end
    end.
End RCat.

Lemma rcat_ext {X Y} (f g : X -> UG.res (list Y)) l : (forall x, In x l -> f x = g x) -> rcat f l = rcat g l.
Proof.
  induction l as [|x l IH]; intros H; cbn [rcat]; [reflexivity|].
  rewrite (H x (or_introl eq_refl)), IH; [reflexivity|]. intros y Hy. apply H. now right.
Qed.

Lemma rcat_ok {X Y} (f : X -> UG.res (list Y)) l : (forall x, In x l -> exists a, f x = UG.Ok a) -> exists r, rcat f l = UG.Ok r.
Proof.
  induction l as [|x l IH]; intros H; cbn [rcat]; [eauto|].
  destruct (H x (or_introl eq_refl)) as [a ->]. destruct IH as [r ->]; [|eauto]. intros y Hy. apply H. now right.
Qed.

Section Decode3.
  Context {lca node_id olca : Type} (nid_eqb : node_id -> node_id -> bool).
  Hypothesis nid_eqb_spec : forall a b, reflect (a = b) (nid_eqb a b).
  Notation key := (@UG.key path node_id).
  Notation keqb := (UG.key_eqb path_eqb nid_eqb).
  Notation caeqb := (UG.ChildrenAssignment_eqb path_eqb).
  Notation tstate := (TG.table_state key ca).
  Notation tree := (EV.TreeNode node_id).
  Notation kspec := (keqb_spec3 nid_eqb nid_eqb_spec).
  Notation inv3 := (@inv3 node_id).
  Notation gsem3 := (gsem3 nid_eqb).
  Notation oids l := (map (@EV.TreeNode_id node_id) l).
  Notation kn := (@kn node_id).
  Notation ks := (@ks node_id).
  Notation kk := (@kk node_id).

  (* ------------------------------------------------------------------ *)
  (** * the chain [table[k1][k2][k3]] (as [Entry] of Proofs/SpfsGenProofs.v, at the key type of this solver) *)
  Lemma inv3_same rp a b : inv3 rp a -> tsame keqb a b -> inv3 rp b.
  Proof. intros [W [D [M R]]] [A1 [A2 [A3 [A4 A5]]]]. repeat split; auto; congruence. Qed.
  Lemma gsem3_same a b n s m : tsame keqb a b -> gsem3 b n s m = gsem3 a n s m.
  Proof. intros S. unfold Common.gsem3. now apply tsame_sem. Qed.

  Lemma rd3_getitem rp tb k1 : inv3 rp tb ->
    UG.table_res (TG.gen_table_getitem keqb tb k1) = UG.Ok (tb, TG.Proxy_TableProxy (TG.mk_tproxy tb [k1])).
  Proof.
    intros [W [D _]]. rewrite (gen_table_getitem_eq keqb kspec tb k1 W) by (intros E; rewrite E in D; discriminate).
    now rewrite D.
  Qed.
  Lemma rd3_sub1 rp tb k1 k2 : inv3 rp tb ->
    UG.table_res (TG.gen_Proxy_getitem keqb (TG.Proxy_TableProxy (TG.mk_tproxy tb [k1])) k2) =
      UG.Ok (TG.Proxy_TableProxy (TG.mk_tproxy tb [k1]), TG.Proxy_TableProxy (TG.mk_tproxy tb [k1; k2])).
  Proof.
    intros [W [D _]]. rewrite Proxy_getitem_table, (gen_tproxy_getitem_eq keqb kspec tb [k1] k2 W) by (cbn; lia).
    cbn [length]. now rewrite D.
  Qed.
  Lemma rd3_sub2 rp tb k1 k2 k3 : inv3 rp tb ->
    UG.table_res (TG.gen_Proxy_getitem keqb (TG.Proxy_TableProxy (TG.mk_tproxy tb [k1; k2])) k3) =
      UG.Ok (TG.Proxy_TableProxy (TG.mk_tproxy (walked keqb tb [k1; k2]) [k1; k2]),
             TG.Proxy_EntryProxy (TG.mk_eproxy (walked keqb tb [k1; k2]) [k1; k2; k3])).
  Proof.
    intros [W [D _]]. rewrite Proxy_getitem_table, (gen_tproxy_getitem_eq keqb kspec tb [k1; k2] k3 W) by (cbn; lia).
    cbn [length]. now rewrite D.
  Qed.
  Definition rd3 (tb : tstate) (k1 k2 k3 : key) : tstate := walked keqb (walked keqb tb [k1; k2]) [k1; k2; k3].
  Lemma rd3_same rp tb k1 k2 k3 : inv3 rp tb -> tsame keqb tb (rd3 tb k1 k2 k3).
  Proof.
    intros [W [D _]]. unfold rd3.
    assert (S1 : tsame keqb tb (walked keqb tb [k1; k2])) by (apply walked_same; [apply kspec|exact W|cbn; lia]).
    eapply tsame_trans; [exact S1|]. destruct S1 as [_ [_ [D1 [W1 _]]]].
    apply walked_same; [apply kspec|exact W1|cbn; lia].
  Qed.
  Lemma rd3_value rp tb k1 k2 k3 : inv3 rp tb ->
    UG.table_res (TG.gen_Proxy_value keqb (TG.Proxy_EntryProxy (TG.mk_eproxy (walked keqb tb [k1; k2]) [k1; k2; k3]))) =
      UG.Ok (TG.Proxy_EntryProxy (TG.mk_eproxy (rd3 tb k1 k2 k3) [k1; k2; k3]), val (sem keqb tb [k1; k2; k3])).
  Proof.
    intros I. pose proof I as [W [D _]].
    assert (S1 : tsame keqb tb (walked keqb tb [k1; k2])) by (apply walked_same; [apply kspec|exact W|cbn; lia]).
    pose proof S1 as [_ [_ [D1 [W1 _]]]].
    rewrite Proxy_value_entry, (gen_eproxy_value_eq keqb kspec _ [k1; k2; k3] W1) by (cbn; lia).
    now rewrite (tsame_sem keqb _ _ [k1; k2; k3] S1).
  Qed.
  Lemma parent_entry3 (t : tstate) l : TG.Proxy_parent (TG.Proxy_EntryProxy (TG.mk_eproxy t l)) = t.
  Proof. reflexivity. Qed.
  Lemma parent_table3 (t : tstate) l : TG.Proxy_parent (TG.Proxy_TableProxy (TG.mk_tproxy t l)) = t.
  Proof. reflexivity. Qed.

  Lemma rd3_is_infinite rp tb k1 k2 k3 : inv3 rp tb ->
    UG.table_res (TG.gen_Proxy_is_infinite keqb (TG.Proxy_EntryProxy (TG.mk_eproxy (walked keqb tb [k1; k2]) [k1; k2; k3]))) =
      UG.Ok (TG.Proxy_EntryProxy (TG.mk_eproxy (rd3 tb k1 k2 k3) [k1; k2; k3]), ext_is_inf (val (sem keqb tb [k1; k2; k3]))).
  Proof.
    intros I. pose proof I as [W [D _]].
    assert (S1 : tsame keqb tb (walked keqb tb [k1; k2])) by (apply walked_same; [apply kspec|exact W|cbn; lia]).
    pose proof S1 as [_ [_ [D1 [W1 _]]]].
    cbn [TG.gen_Proxy_is_infinite]. rewrite (gen_eproxy_is_infinite_eq keqb kspec _ [k1; k2; k3] W1) by (cbn; lia).
    now rewrite (tsame_sem keqb _ _ [k1; k2; k3] S1).
  Qed.

  Lemma rd3_infos rp tb k1 k2 k3 : inv3 rp tb ->
    UG.table_res (TG.gen_Proxy_infos keqb (TG.Proxy_EntryProxy (TG.mk_eproxy (walked keqb tb [k1; k2]) [k1; k2; k3]))) =
      UG.Ok (TG.Proxy_EntryProxy (TG.mk_eproxy (rd3 tb k1 k2 k3) [k1; k2; k3]), tags (sem keqb tb [k1; k2; k3])).
  Proof.
    intros I. pose proof I as [W [D _]].
    assert (S1 : tsame keqb tb (walked keqb tb [k1; k2])) by (apply walked_same; [apply kspec|exact W|cbn; lia]).
    pose proof S1 as [_ [_ [D1 [W1 _]]]].
    cbn [TG.gen_Proxy_infos]. rewrite (gen_eproxy_infos_eq keqb kspec _ [k1; k2; k3] W1) by (cbn; lia).
    now rewrite (tsame_sem keqb _ _ [k1; k2; k3] S1).
  Qed.

  (* ------------------------------------------------------------------ *)
  Variables (lcaobj : lca) (c : costs) (rp : ret) (ST : @UG.STree path) (leafsp : node_id -> path)
            (syn : node_id -> list fam) (O : tree).
  Notation sin := (EV.mk_sin O lcaobj leafsp (stsocc c) syn).
  Notation spout := (@UG.spout_state fam path lca node_id).
  Notation DIST := (fun (_ : lca) => dist).
  Notation ANC := (fun (_ : lca) => anc).
  Notation SANC := (fun (_ : lca) => sanc).
  Notation COMP := (fun (_ : lca) => comparable).
  Notation LCP := (fun (_ : lca) => lcp).

  (** * D1: [_decode_uspfs_table] *)
  Notation dsp := (list (node_id * path)).
  Notation dsyn := (list (node_id * list fam)).
  (** an output: the two dictionaries [object_species] / [syntenies] as the lists of their stores, newest first *)
  Definition dout : Type := (dsp * dsyn)%type.
  Definition mk_out (d : dout) : spout := UG.mk_spout sin (fst d) (snd d) false.

  (** the order [for info in table[..][..][..].infos()] enumerates a set of tags in; the order Python iterates a set of
      families in; [sort_synteny] on a list *)
  Variable ord_infos : list ca -> list ca.
  Hypothesis ord_incl : forall l m, In m (ord_infos l) -> In m l.
  Variables (fam_order sort_synteny_fn : list fam -> list fam).
  (** what [lca_sets[node]] / [gain_sets[node]] read as *)
  Variables (LS GS : node_id -> list fam).
  Variables (lsets gsets : list (node_id * list fam)).

  (** the dictionaries [lca_sets] / [gain_sets] have every node of the subtree as a key: no KeyError *)
  Definition sets_ok (t : tree) : Prop :=
    forall u, In u (UG.TreeNode_postorder t) ->
      UG.dict_get nid_eqb lsets (EV.TreeNode_id u) = Some (LS (EV.TreeNode_id u)) /\
      UG.dict_get nid_eqb gsets (EV.TreeNode_id u) = Some (GS (EV.TreeNode_id u)).

  (** every pair (left output, right output), left first, merged after the assignment of the node *)
  Definition prod3 (i : node_id) (s : path) (y : list fam) (dl dr : list dout) : list dout :=
    flat_map (fun l => map (fun r => (fst r ++ fst l ++ [(i, s)], snd r ++ snd l ++ [(i, y)])) dr) dl.

  (** the set of families of node [i] placed with kind [k] below an ancestor with the set [asyn]: [lca_sets[i]] for LCA,
      [asyn | gain_sets[i]] for INHERIT; it is the ancestor set of the children, and the synteny of the node is
      [sort_synteny] of it *)
  Definition uset (k : bool) (asyn : list fam) (i : node_id) : list fam :=
    if k then @UG.gset_union fam N.eqb asyn (GS i) else LS i.
  Definition usynteny (s : list fam) : list fam := sort_synteny_fn (fam_order s).

  (** the outputs the generator yields for (t, s, kind, ancestor synteny), the table reading as [G] ([false] = LCA); the error
      it stops with otherwise: ValueError -- a leaf whose cell is infinite but has a tag ([left, right = node.children] on a
      leaf) --, AttributeError -- a tag with a missing assignment ([info.left.species] on None) -- or the first error of a
      recursive call, in the order of the code (tags in the order [ord_infos]; left child, then right child) *)
  Fixpoint udecode_g (G : node_id -> path -> bool -> entry ca) (t : tree) (s : path) (k : bool) (asyn : list fam) {struct t}
      : UG.res (list dout) :=
    match t with
    | EV.TreeNode_leaf i =>
        if ext_is_inf (val (G i s k)) then
          match ord_infos (tags (G i s k)) with [] => UG.Ok [] | _ :: _ => UG.Err UG.ValueError end
        else UG.Ok [([(i, s)], [(i, usynteny (uset k asyn i))])]
    | EV.TreeNode_node i a b =>
        rcat (fun info =>
                match UG.ChildrenAssignment_left info with
                | None => UG.Err UG.AttributeError
                | Some l =>
                    match udecode_g G a (UG.ObjectAssignment_species l) (kind_b (UG.ObjectAssignment_synteny l)) (uset k asyn i) with
                    | UG.Err e => UG.Err e
                    | UG.Ok dl =>
                        match UG.ChildrenAssignment_right info with
                        | None => UG.Err UG.AttributeError
                        | Some r =>
                            match udecode_g G b (UG.ObjectAssignment_species r) (kind_b (UG.ObjectAssignment_synteny r)) (uset k asyn i) with
                            | UG.Err e => UG.Err e
                            | UG.Ok dr => UG.Ok (prod3 i s (usynteny (uset k asyn i)) dl dr)
                            end
                        end
                    end
                end) (ord_infos (tags (G i s k)))
    end.

  Lemma udecode_g_ext G G' t : (forall n x k, G n x k = G' n x k) -> forall s k asyn, udecode_g G t s k asyn = udecode_g G' t s k asyn.
  Proof.
    intros E. induction t as [i|i a IHa b IHb]; intros s k asyn; cbn [udecode_g]; rewrite E; [reflexivity|].
    apply rcat_ext. intros info _. destruct (UG.ChildrenAssignment_left info); [|reflexivity]. rewrite IHa.
    match goal with |- match ?x with UG.Ok _ => _ | UG.Err _ => _ end = _ => destruct x; [|reflexivity] end.
    destruct (UG.ChildrenAssignment_right info); [|reflexivity]. now rewrite IHb.
  Qed.

  Lemma decode3_for2 root s y (l : list (spout * spout)) : forall acc,
    UG.gen_decode_uspfs_table_for2 root s sin y l acc =
      UG.Next (acc ++ map (fun p => UG.mk_spout sin (UG.spout_object_species (snd p) ++ UG.spout_object_species (fst p)
                                                       ++ [(EV.TreeNode_id root, s)])
                                                     (UG.spout_syntenies (snd p) ++ UG.spout_syntenies (fst p)
                                                       ++ [(EV.TreeNode_id root, y)]) false) l).
  Proof.
    induction l as [|[ml mr] l IH]; intros acc; cbn [UG.gen_decode_uspfs_table_for2 map]; [now rewrite app_nil_r|].
    rewrite IH, <- app_assoc. reflexivity.
  Qed.

  Lemma ord_nil : ord_infos [] = [].
  Proof. destruct (ord_infos []) as [|x l] eqn:E; [reflexivity|]. exfalso. apply (ord_incl [] x). rewrite E. now left. Qed.

  Lemma root_in_postorder3 (t : tree) : In t (UG.TreeNode_postorder t).
  Proof. destruct t; cbn; [now left|]. rewrite !in_app_iff. right; right. now left. Qed.

  Lemma kind_is_lca k : UG.SyntenyAssignment_eqb (kind_of k) UG.SyntenyAssignment_LCA = negb k.
  Proof. now destruct k. Qed.

  Notation DEC := (UG.gen_decode_uspfs_table (fam := fam) (lca := lca) N.eqb path_eqb nid_eqb fam_order ord_infos sort_synteny_fn).

  Theorem gen_decode_uspfs_eq (t : tree) : forall s k asyn tb, inv3 rp tb -> sets_ok t ->
    match udecode_g (gsem3 tb) t s k asyn with
    | UG.Err e => DEC t s (kind_of k) asyn sin gsets lsets tb = UG.Err e
    | UG.Ok outs => exists tb', DEC t s (kind_of k) asyn sin gsets lsets tb = UG.Ok (tb', map mk_out outs) /\ tsame keqb tb tb'
    end.
  Proof.
    induction t as [i|i a IHa b IHb]; intros s k asyn tb I Hs.
    - destruct (Hs _ (root_in_postorder3 _)) as [HL HG]. cbn [EV.TreeNode_id] in HL, HG.
      cbn [udecode_g]. remember (uset k asyn i) as A eqn:EA.
      eassert (EH : DEC (EV.TreeNode_leaf i) s (kind_of k) asyn sin gsets lsets tb = _).
      { cbn [UG.gen_decode_uspfs_table EV.TreeNode_is_leaf EV.TreeNode_id]. rewrite kind_is_lca. destruct (negb k) eqn:Enk.
        - assert (EA' : A = LS i) by (rewrite EA; destruct k; [discriminate|reflexivity]).
          rewrite HL. rewrite <- EA'. reflexivity.
        - assert (EA' : A = @UG.gset_union fam N.eqb asyn (GS i)) by (rewrite EA; destruct k; [reflexivity|discriminate]).
          rewrite HG. rewrite <- EA'. reflexivity. }
      rewrite EH. clear EH EA.
      rewrite (rd3_getitem rp tb _ I), (rd3_sub1 rp tb _ _ I), (rd3_sub2 rp tb _ _ _ I), (rd3_is_infinite rp tb _ _ _ I), parent_entry3.
      pose proof (rd3_same rp tb (inl (inl i)) (inl (inr s)) (inr (kind_of k)) I) as S0.
      change (sem keqb tb [inl (inl i); inl (inr s); inr (kind_of k)]) with (gsem3 tb i s k).
      destruct (ext_is_inf (val (gsem3 tb i s k))) eqn:Einf; cbn [negb].
      + remember (rd3 tb (inl (inl i)) (inl (inr s)) (inr (kind_of k))) as tb0 eqn:Etb0.
        pose proof (inv3_same _ _ _ I S0) as I0.
        rewrite (rd3_getitem rp tb0 _ I0), (rd3_sub1 rp tb0 _ _ I0), (rd3_sub2 rp tb0 _ _ _ I0), (rd3_infos rp tb0 _ _ _ I0), parent_entry3.
        change (sem keqb tb0 [inl (inl i); inl (inr s); inr (kind_of k)]) with (gsem3 tb0 i s k).
        rewrite (gsem3_same tb tb0 _ _ _ S0).
        destruct (ord_infos (tags (gsem3 tb i s k))) as [|x l]; [|reflexivity].
        eexists. split; [reflexivity|].
        eapply tsame_trans; [exact S0|]. apply (rd3_same rp); exact I0.
      + eexists. split; [reflexivity|exact S0].
    - destruct (Hs _ (root_in_postorder3 _)) as [HL HG]. cbn [EV.TreeNode_id] in HL, HG.
      cbn [udecode_g]. remember (uset k asyn i) as A eqn:EA.
      eassert (EH : DEC (EV.TreeNode_node i a b) s (kind_of k) asyn sin gsets lsets tb = _).
      { cbn [UG.gen_decode_uspfs_table EV.TreeNode_is_leaf EV.TreeNode_id]. rewrite kind_is_lca. destruct (negb k) eqn:Enk.
        - assert (EA' : A = LS i) by (rewrite EA; destruct k; [discriminate|reflexivity]).
          rewrite HL. rewrite <- EA'. reflexivity.
        - assert (EA' : A = @UG.gset_union fam N.eqb asyn (GS i)) by (rewrite EA; destruct k; [reflexivity|discriminate]).
          rewrite HG. rewrite <- EA'. reflexivity. }
      rewrite EH. clear EH EA.
      rewrite (rd3_getitem rp tb _ I), (rd3_sub1 rp tb _ _ I), (rd3_sub2 rp tb _ _ _ I), (rd3_infos rp tb _ _ _ I), parent_entry3.
      pose proof (rd3_same rp tb (inl (inl i)) (inl (inr s)) (inr (kind_of k)) I) as S0.
      change (sem keqb tb [inl (inl i); inl (inr s); inr (kind_of k)]) with (gsem3 tb i s k).
      remember (rd3 tb (inl (inl i)) (inl (inr s)) (inr (kind_of k))) as tb0 eqn:Etb0. clear Etb0.
      match goal with |- context [match ?f ?l ?t ?a with UG.Next _ => _ | UG.Ret _ => _ | UG.Fail _ => _ end] => set (F := f) end.
      assert (Hsa : sets_ok a).
      { intros u Hu. apply Hs. cbn [UG.TreeNode_postorder]. rewrite !in_app_iff. now left. }
      assert (Hsb : sets_ok b).
      { intros u Hu. apply Hs. cbn [UG.TreeNode_postorder]. rewrite !in_app_iff. right. now left. }
      remember (fun info : ca =>
                match UG.ChildrenAssignment_left info with
                | None => UG.Err UG.AttributeError
                | Some l =>
                    match udecode_g (gsem3 tb) a (UG.ObjectAssignment_species l) (kind_b (UG.ObjectAssignment_synteny l)) A with
                    | UG.Err e => UG.Err e
                    | UG.Ok dl =>
                        match UG.ChildrenAssignment_right info with
                        | None => UG.Err UG.AttributeError
                        | Some r =>
                            match udecode_g (gsem3 tb) b (UG.ObjectAssignment_species r) (kind_b (UG.ObjectAssignment_synteny r)) A with
                            | UG.Err e => UG.Err e
                            | UG.Ok dr => UG.Ok (prod3 i s (usynteny A) dl dr)
                            end
                        end
                    end
                end) as per eqn:Eper.
      assert (Hper : forall info, per info =
                match UG.ChildrenAssignment_left info with
                | None => UG.Err UG.AttributeError
                | Some l =>
                    match udecode_g (gsem3 tb) a (UG.ObjectAssignment_species l) (kind_b (UG.ObjectAssignment_synteny l)) A with
                    | UG.Err e => UG.Err e
                    | UG.Ok dl =>
                        match UG.ChildrenAssignment_right info with
                        | None => UG.Err UG.AttributeError
                        | Some r =>
                            match udecode_g (gsem3 tb) b (UG.ObjectAssignment_species r) (kind_b (UG.ObjectAssignment_synteny r)) A with
                            | UG.Err e => UG.Err e
                            | UG.Ok dr => UG.Ok (prod3 i s (usynteny A) dl dr)
                            end
                        end
                    end
                end) by (intros; rewrite Eper; reflexivity).
      clear Eper.
      assert (HF : forall l tbx acc, tsame keqb tb tbx ->
                match rcat per l with
                | UG.Err e => F l tbx acc = UG.Fail e
                | UG.Ok outs => exists tb', F l tbx acc = UG.Next (tb', acc ++ map mk_out outs) /\ tsame keqb tb tb'
                end).
      { induction l as [|info l IHl]; intros tbx acc Sx.
        - cbn [rcat]. exists tbx. split; [cbn; now rewrite app_nil_r|exact Sx].
        - cbn [rcat]. rewrite Hper.
          unfold F. cbn [app]. fold F.
          destruct (UG.ChildrenAssignment_left info) as [l0|]; [|reflexivity].
          pose proof (inv3_same _ _ _ I Sx) as Ix.
          pose proof (IHa (UG.ObjectAssignment_species l0) (kind_b (UG.ObjectAssignment_synteny l0)) A tbx Ix Hsa) as Ea.
          rewrite kind_of_b in Ea.
          rewrite (udecode_g_ext (gsem3 tbx) (gsem3 tb) a (fun n x k' => gsem3_same tb tbx n x k' Sx)) in Ea.
          destruct (udecode_g (gsem3 tb) a (UG.ObjectAssignment_species l0) (kind_b (UG.ObjectAssignment_synteny l0)) A) as [dl|e];
            [|rewrite Ea; reflexivity].
          destruct Ea as [tb1 [E1 S1]]. rewrite E1.
          destruct (UG.ChildrenAssignment_right info) as [r0|]; [|reflexivity].
          pose proof (tsame_trans keqb _ _ _ Sx S1) as Sx1. pose proof (inv3_same _ _ _ I Sx1) as I1.
          pose proof (IHb (UG.ObjectAssignment_species r0) (kind_b (UG.ObjectAssignment_synteny r0)) A tb1 I1 Hsb) as Eb.
          rewrite kind_of_b in Eb.
          rewrite (udecode_g_ext (gsem3 tb1) (gsem3 tb) b (fun n x k' => gsem3_same tb tb1 n x k' Sx1)) in Eb.
          destruct (udecode_g (gsem3 tb) b (UG.ObjectAssignment_species r0) (kind_b (UG.ObjectAssignment_synteny r0)) A) as [dr|e];
            [|rewrite Eb; reflexivity].
          destruct Eb as [tb2 [E2 S2]]. rewrite E2.
          pose proof (tsame_trans keqb _ _ _ Sx1 S2) as Sx2.
          rewrite decode3_for2.
          match goal with |- context [F l tb2 ?acc'] => pose proof (IHl tb2 acc' Sx2) as El end.
          destruct (rcat per l) as [rest|e]; [|rewrite El; reflexivity].
          destruct El as [tb' [E' S']]. exists tb'. split; [|exact S']. rewrite E'. f_equal. f_equal.
          rewrite <- app_assoc. f_equal. rewrite map_app. f_equal.
          rewrite (map_list_prod mk_out). cbn [UG.spout_object_species UG.spout_syntenies mk_out fst snd EV.TreeNode_id].
          unfold prod3. rewrite map_flat_map'. apply flat_map_ext. intros x. now rewrite map_map. }
      pose proof (HF (ord_infos (tags (gsem3 tb i s k))) tb0 [] S0) as E.
      destruct (rcat per (ord_infos (tags (gsem3 tb i s k)))) as [outs|e].
      + destruct E as [tb' [E' S']]. rewrite E'. exists tb'. split; [reflexivity|exact S'].
      + rewrite E. reflexivity.
  Qed.

  (** no error when every tag of the subtree has both assignments and an infinite leaf cell has no tag *)
  Definition tags_ok3 (G : node_id -> path -> bool -> entry ca) (t : tree) : Prop :=
    forall u, In u (UG.TreeNode_postorder t) -> forall x k tg, In tg (tags (G (EV.TreeNode_id u) x k)) ->
      (exists l, UG.ChildrenAssignment_left tg = Some l) /\ (exists r, UG.ChildrenAssignment_right tg = Some r).
  Definition leaf_tags_ok (G : node_id -> path -> bool -> entry ca) (t : tree) : Prop :=
    forall i, In (EV.TreeNode_leaf i) (UG.TreeNode_postorder t) -> forall x k,
      ext_is_inf (val (G i x k)) = true -> tags (G i x k) = [].

  Lemma udecode_g_ok G (t : tree) : tags_ok3 G t -> leaf_tags_ok G t -> forall s k asyn, exists outs, udecode_g G t s k asyn = UG.Ok outs.
  Proof.
    induction t as [i|i a IHa b IHb]; intros Ht Hl s k asyn; cbn [udecode_g].
    - destruct (ext_is_inf (val (G i s k))) eqn:Einf; [|eauto].
      rewrite (Hl i (or_introl eq_refl) s k Einf), ord_nil. eauto.
    - apply rcat_ok. intros info Hi. apply ord_incl in Hi.
      destruct (Ht _ (root_in_postorder3 (EV.TreeNode_node i a b)) s k info Hi) as [[l ->] [r ->]].
      destruct (IHa (fun u Hu => Ht u ltac:(cbn [UG.TreeNode_postorder]; rewrite !in_app_iff; now left))
                    (fun u Hu => Hl u ltac:(cbn [UG.TreeNode_postorder]; rewrite !in_app_iff; now left))
                    (UG.ObjectAssignment_species l) (kind_b (UG.ObjectAssignment_synteny l)) (uset k asyn i)) as [dl ->].
      destruct (IHb (fun u Hu => Ht u ltac:(cbn [UG.TreeNode_postorder]; rewrite !in_app_iff; right; now left))
                    (fun u Hu => Hl u ltac:(cbn [UG.TreeNode_postorder]; rewrite !in_app_iff; right; now left))
                    (UG.ObjectAssignment_species r) (kind_b (UG.ObjectAssignment_synteny r)) (uset k asyn i)) as [dr ->].
      eauto.
  Qed.

  (* ------------------------------------------------------------------ *)
  (** * D2: [output.cost()] *)
  Variables (oeqb : spout -> spout -> bool) (missing : node_id -> path) (missing_syn : node_id -> list fam).
  Notation OCOST := (UG.gen_soutput_cost (fam := fam) N.eqb path_eqb nid_eqb ANC LCP DIST SANC COMP missing missing_syn).
  Hypothesis sloss_nn : 0 <= c_sloss c.

  (** the labelled reconciliation the two dictionaries denote (a key that is absent reads as [missing] / [missing_syn]) and
      its cost in the evaluator model, UNORDERED syntenies; [None]: the AssertionError of the evaluator *)
  Definition lt_out (d : dout) : ltree :=
    ltree_of (UG.dict_fun nid_eqb missing (fst d)) (UG.dict_fun_syn nid_eqb missing_syn (snd d)) O.
  Definition cost_of3 (d : dout) : option ext := total_cost c (otree_of leafsp syn O) false (lt_out d).

  Lemma soutput_cost_eq d :
    OCOST (mk_out d) = match cost_of3 d with Some v => UG.Ok (mk_out d, v) | None => UG.Err UG.AssertionError end.
  Proof.
    unfold UG.gen_soutput_cost, mk_out. cbn [UG.spout_input UG.spout_object_species UG.spout_syntenies UG.spout_ordered].
    match goal with |- context [EV.gen_super_cost _ _ _ _ _ _ _ _ ?o] =>
      change (EV.gen_super_cost N.eqb nid_eqb path_eqb ANC SANC COMP LCP DIST o) with (scost_p (lca := lca) nid_eqb o);
      rewrite (gen_super_cost_eq nid_eqb nid_eqb_spec o)
    end.
    2:{ unfold co_of. cbn [EV.sout_input EV.sin_costs]. now rewrite ccosts_stsocc. }
    unfold co_of, ot_of, lt_of, cost_of3, lt_out.
    cbn [EV.sout_input EV.sout_object_species EV.sout_syntenies EV.sout_ordered EV.sin_costs EV.sin_leaf_object_species
         EV.sin_leaf_syntenies EV.sin_object_tree].
    rewrite ccosts_stsocc. destruct (total_cost _ _ _ _); reflexivity.
  Qed.

  (** the candidates of a list of outputs: each with its cost; the first AssertionError *)
  Definition ocosts (ds : list dout) : UG.res (list (ext * option spout)) :=
    rcat (fun d => match cost_of3 d with Some v => UG.Ok [(v, Some (mk_out d))] | None => UG.Err UG.AssertionError end) ds.
  Definition mkC (p : ext * option spout) : EG.Candidate spout := EG.mk_Candidate (fst p) (snd p).
  Lemma ccand_mkC l : map ccand (map mkC l) = l.
  Proof. rewrite map_map. rewrite <- (map_id l) at 2. apply map_ext. intros [v o]. reflexivity. Qed.

  Lemma map_costs3 (ds : list dout) :
    (fix map'3 (it' : list spout) {struct it'} : UG.res (list (EG.Candidate spout)) :=
       match it' with
       | [] => UG.Ok []
       | output :: it'' =>
           match OCOST output with
           | UG.Err e' => UG.Err e'
           | UG.Ok (_, t'7) => match map'3 it'' with UG.Err e' => UG.Err e' | UG.Ok r' => UG.Ok (EG.mk_Candidate t'7 (Some output) :: r') end
           end
       end) (map mk_out ds) = match ocosts ds with UG.Err e => UG.Err e | UG.Ok cs => UG.Ok (map mkC cs) end.
  Proof.
    induction ds as [|d ds IH]; cbn [map]; [reflexivity|]. rewrite soutput_cost_eq. unfold ocosts. cbn [rcat].
    destruct (cost_of3 d) as [v|]; [|reflexivity]. rewrite IH. unfold ocosts.
    match goal with |- context [rcat ?f ds] => destruct (rcat f ds) end; reflexivity.
  Qed.

  (* ------------------------------------------------------------------ *)
  (** * D3: [_uspfs] *)
  Variables (olca_of : tree -> olca) (olca_call : olca -> list node_id -> node_id)
            (syn_items : (node_id -> list fam) -> list (node_id * list fam)) (node_order : list node_id -> list node_id).
  Notation sid := (@UG.STree_id path).

  Definition res_state3 (e : entry spout) : EG.entry_state spout := mk EG.MergePolicy_MIN (prc rp) e.

  (** the candidates one root species contributes, the table reading as [G]: the outputs decoded from
      (O, species, LCA, lca_sets[O]), each with its cost; or the first error *)
  Definition species_cands (G : node_id -> path -> bool -> entry ca) (x : @UG.STree path) : UG.res (list (ext * option spout)) :=
    match udecode_g G O (sid x) false (LS (EV.TreeNode_id O)) with
    | UG.Err e => UG.Err e
    | UG.Ok outs => ocosts outs
    end.
  (** ... all root species: every species of the species tree in level order *)
  Definition uspfs_cands (G : node_id -> path -> bool -> entry ca) : UG.res (list (ext * option spout)) :=
    rcat (species_cands G) (UG.STree_levelorder ST).

  Lemma upd_res3 e cs :
    UG.entry_res (EG.gen_entry_update oeqb (res_state3 e) (map mkC cs)) = UG.Ok (res_state3 (update oeqb MIN rp e cs), tt).
  Proof. unfold res_state3. rewrite gen_entry_update_mk. cbn [UG.entry_res cmp]. now rewrite crp_prc, ccand_mkC. Qed.

  Notation FOR2 := (UG.gen_uspfs_for2 (fam := fam) N.eqb path_eqb nid_eqb ANC LCP DIST fam_order SANC COMP oeqb missing missing_syn ord_infos
                      sort_synteny_fn sin gsets lsets O).

  Lemma uspfs_loop2 xs : sets_ok O -> forall tb e, inv3 rp tb ->
    match rcat (species_cands (gsem3 tb)) xs with
    | UG.Err e' => FOR2 xs (res_state3 e) tb = UG.Fail e'
    | UG.Ok cs => exists tb', FOR2 xs (res_state3 e) tb = UG.Next (res_state3 (update oeqb MIN rp e cs), tb') /\ tsame keqb tb tb'
    end.
  Proof.
    intros Hs. pose proof (proj1 (Hs _ (root_in_postorder3 O))) as HL.
    induction xs as [|x xs IH]; intros tb e I.
    - cbn [rcat UG.gen_uspfs_for2]. exists tb. split; [reflexivity|apply tsame_refl; apply I].
    - cbn [UG.gen_uspfs_for2 rcat]. rewrite HL. unfold species_cands at 1.
      pose proof (gen_decode_uspfs_eq O (sid x) false (LS (EV.TreeNode_id O)) tb I Hs) as Ed.
      change (kind_of false) with UG.SyntenyAssignment_LCA in Ed.
      destruct (udecode_g (gsem3 tb) O (sid x) false (LS (EV.TreeNode_id O))) as [outs|e']; [|rewrite Ed; reflexivity].
      destruct Ed as [tb1 [E1 S1]]. rewrite E1. rewrite map_costs3.
      destruct (ocosts outs) as [cs|e']; [|reflexivity].
      rewrite upd_res3.
      pose proof (inv3_same _ _ _ I S1) as I1.
      pose proof (IH tb1 (update oeqb MIN rp e cs) I1) as E'.
      rewrite (rcat_ext (species_cands (gsem3 tb1)) (species_cands (gsem3 tb)) xs) in E'.
      2:{ intros y _. unfold species_cands.
          now rewrite (udecode_g_ext (gsem3 tb1) (gsem3 tb) O (fun n z k => gsem3_same tb tb1 n z k S1)). }
      destruct (rcat (species_cands (gsem3 tb)) xs) as [cs'|e']; [|exact E'].
      destruct E' as [tb' [E' S']]. exists tb'. split; [|eapply tsame_trans; eauto].
      rewrite E'. now rewrite (update_app oeqb).
  Qed.

  Variable AS : @UG.STree path -> tree -> list (@UG.STree path).
  Notation GAIN := (UG.gen_compute_gain_sets (fam := fam) (sp := path) (lca := lca) N.eqb nid_eqb olca_of olca_call syn_items node_order sin).
  Notation LCAS := (UG.gen_compute_lca_sets (fam := fam) (sp := path) (lca := lca) N.eqb nid_eqb sin).
  Notation COMPUTE ls := (UG.gen_compute_uspfs_table (fam := fam) N.eqb path_eqb nid_eqb ANC DIST (fun _ => ST) sin ls AS (prc rp)).
  Notation USPFS := (UG.gen_uspfs (fam := fam) N.eqb path_eqb nid_eqb ANC LCP DIST (fun _ => ST) olca_of olca_call syn_items fam_order node_order
                       SANC COMP oeqb missing missing_syn ord_infos sort_synteny_fn sin (prc rp) AS).

  (** [_uspfs]: STAGE 1 (the two dictionaries, taken as given: [gsets], [lsets] read as [GS], [LS] on the nodes of [O]), the
      table -- its failure is the failure of [_uspfs] --, then every root species in level order, every failure propagated *)
  Theorem gen_uspfs_exact : GAIN = UG.Ok gsets -> LCAS gsets = UG.Ok lsets -> sets_ok O ->
    (forall tb, COMPUTE lsets = UG.Ok tb -> inv3 rp tb) ->
    USPFS = match COMPUTE lsets with
            | UG.Err e' => UG.Err e'
            | UG.Ok tb => match uspfs_cands (gsem3 tb) with
                          | UG.Err e' => UG.Err e'
                          | UG.Ok cs => UG.Ok (tags (update oeqb MIN rp (default_entry MIN) cs))
                          end
            end.
  Proof.
    intros Eg El Hs Hi.
    unfold UG.gen_uspfs. rewrite gen_entry_default_eq. cbn [UG.entry_res].
    cbn [UG.gen_uspfs_for1 EV.sin_object_tree EV.sin_species_lca]. rewrite Eg, El.
    destruct (COMPUTE lsets) as [tb|e'] eqn:Ec; [|reflexivity].
    pose proof (uspfs_loop2 (UG.STree_levelorder ST) Hs tb (default_entry MIN) (Hi tb eq_refl)) as E2.
    unfold res_state3 in E2. cbn [cmp]. unfold uspfs_cands.
    destruct (rcat (species_cands (gsem3 tb)) (UG.STree_levelorder ST)) as [cs|e']; [|rewrite E2; reflexivity].
    destruct E2 as [tb' [E2 _]]. rewrite E2.
    rewrite gen_entry_infos_eq. cbn [UG.entry_res]. now rewrite ent_mk.
  Qed.

  (** the same naming the table *)
  Theorem gen_uspfs_eq : GAIN = UG.Ok gsets -> LCAS gsets = UG.Ok lsets -> sets_ok O ->
    (exists tb, COMPUTE lsets = UG.Ok tb /\ inv3 rp tb) ->
    exists tb, COMPUTE lsets = UG.Ok tb /\ inv3 rp tb /\
      USPFS = match uspfs_cands (gsem3 tb) with
              | UG.Err e' => UG.Err e'
              | UG.Ok cs => UG.Ok (tags (update oeqb MIN rp (default_entry MIN) cs))
              end.
  Proof.
    intros Eg El Hs [tb [Ec I]]. exists tb. split; [exact Ec|]. split; [exact I|].
    rewrite (gen_uspfs_exact Eg El Hs); [now rewrite Ec|]. intros tb2 E2. rewrite Ec in E2. now injection E2 as <-.
  Qed.

  (** the failures of STAGE 1 are those of [_uspfs] *)
  Lemma gen_uspfs_gain_err e : GAIN = UG.Err e -> USPFS = UG.Err e.
  Proof.
    intros Eg. unfold UG.gen_uspfs. rewrite gen_entry_default_eq. cbn [UG.entry_res].
    cbn [UG.gen_uspfs_for1 EV.sin_object_tree EV.sin_species_lca]. now rewrite Eg.
  Qed.
  Lemma gen_uspfs_lca_err gs e : GAIN = UG.Ok gs -> LCAS gs = UG.Err e -> USPFS = UG.Err e.
  Proof.
    intros Eg El. unfold UG.gen_uspfs. rewrite gen_entry_default_eq. cbn [UG.entry_res].
    cbn [UG.gen_uspfs_for1 EV.sin_object_tree EV.sin_species_lca]. now rewrite Eg, El.
  Qed.
  Lemma gen_uspfs_table_err e : GAIN = UG.Ok gsets -> LCAS gsets = UG.Ok lsets -> COMPUTE lsets = UG.Err e -> USPFS = UG.Err e.
  Proof.
    intros Eg El Ec. unfold UG.gen_uspfs. rewrite gen_entry_default_eq. cbn [UG.entry_res].
    cbn [UG.gen_uspfs_for1 EV.sin_object_tree EV.sin_species_lca]. now rewrite Eg, El, Ec.
  Qed.

  (** with STAGE 3 ([Statements.table_eq_statement], proved in its part from STAGE 2): the table exists, is well formed and
      its cells are those of [TableO.utab_o] *)
  Theorem gen_uspfs_of_table (S : stree) : table_eq_statement nid_eqb lcaobj ->
    NoDup (oids (UG.TreeNode_postorder O)) ->
    (forall u, In u (UG.TreeNode_postorder O) -> EV.TreeNode_is_leaf u = false -> allowed_ok S ST AS u) ->
    GAIN = UG.Ok gsets -> LCAS gsets = UG.Ok lsets -> sets_ok O ->
    exists tb, COMPUTE lsets = UG.Ok tb /\ inv3 rp tb /\
      (forall u, In u (UG.TreeNode_postorder O) -> forall s k,
         gsem3 tb (EV.TreeNode_id u) s k =
           emap tag_ca (utab_o S c rp leafsp (sids3 (UG.STree_levelorder ST)) (fun v => sids3 (AS ST v)) LS u (s, k))) /\
      (forall n s k, ~ In n (oids (UG.TreeNode_postorder O)) -> gsem3 tb n s k = default_entry MIN) /\
      USPFS = match uspfs_cands (gsem3 tb) with
              | UG.Err e' => UG.Err e'
              | UG.Ok cs => UG.Ok (tags (update oeqb MIN rp (default_entry MIN) cs))
              end.
  Proof.
    intros TE ND HA Eg El Hs.
    destruct (TE rp S c ST leafsp syn O AS lsets LS ND HA (fun u Hu => proj1 (Hs u Hu))) as [tb [Ec [I [Hc Hn]]]].
    exists tb. split; [exact Ec|]. split; [exact I|]. split; [exact Hc|]. split; [exact Hn|].
    destruct (gen_uspfs_eq Eg El Hs (ex_intro _ tb (conj Ec I))) as [tb2 [Ec2 [_ E]]].
    assert (tb2 = tb) as -> by (pose proof (eq_trans (eq_sym Ec2) Ec) as X; now injection X).
    exact E.
  Qed.

  (* ------------------------------------------------------------------ *)
  (** * D4: the two entry points *)
  Notation USPFS0 := (UG.gen_uspfs (fam := fam) N.eqb path_eqb nid_eqb ANC LCP DIST (fun _ => ST) olca_of olca_call syn_items fam_order
                        node_order SANC COMP oeqb missing missing_syn ord_infos sort_synteny_fn sin (prc rp)).

  Theorem gen_usreconcile_extended_uspfs_eq :
    UG.gen_usreconcile_extended_uspfs (fam := fam) N.eqb path_eqb nid_eqb ANC LCP DIST (fun _ => ST) olca_of olca_call syn_items fam_order
      node_order SANC COMP oeqb missing missing_syn ord_infos sort_synteny_fn sin (prc rp) =
    USPFS0 (fun (species : @UG.STree path) (_ : tree) => UG.STree_postorder species).
  Proof.
    unfold UG.gen_usreconcile_extended_uspfs. cbv zeta.
    match goal with |- match ?r with UG.Err _ => _ | UG.Ok _ => _ end = _ => destruct r end; reflexivity.
  Qed.

  Lemma ug_dict_get (d : dsp) n : UG.dict_get nid_eqb d n = T.dict_get nid_eqb d n.
  Proof. induction d as [|[k v] d IH]; cbn; [reflexivity|]. now rewrite IH. Qed.
  Lemma ug_postorder (t : tree) : UG.TreeNode_postorder t = T.TreeNode_postorder t.
  Proof. induction t as [i|i a IHa b IHb]; cbn; [reflexivity|]. now rewrite IHa, IHb. Qed.

  (** [reconcile_lca]: it does not fail, and its dictionary maps every node of the object tree to the species of the LCA
      reconciliation *)
  Theorem gen_reconcile_lca_super_eq : NoDup (oids (UG.TreeNode_postorder O)) ->
    exists d : dsp, UG.gen_reconcile_lca_super (fam := fam) nid_eqb LCP sin = UG.Ok d /\
      forall u, In u (UG.TreeNode_postorder O) ->
        UG.dict_get nid_eqb d (EV.TreeNode_id u) = Some (root (LcaRec.lca_rec (otree_of leafsp syn u))).
  Proof.
    intros ND. rewrite ug_postorder in ND.
    destruct (lca_loop nid_eqb nid_eqb_spec lcaobj (stsocc c) leafsp syn O O [] [] ND (fun _ _ => eq_refl)) as [d [E [Sk _]]].
    rewrite app_nil_r in E. exists d. split.
    - unfold UG.gen_reconcile_lca_super. cbn [EV.sin_object_tree EV.sin_species_lca EV.sin_leaf_object_species EV.sin_costs].
      unfold T.gen_reconcile_lca. cbv zeta. cbn [EV.rin_object_tree]. rewrite E. reflexivity.
    - intros u Hu. rewrite ug_postorder in Hu. rewrite ug_dict_get. now apply Sk.
  Qed.

  (** what [allowed_species] of the base variant answers: the species node that carries the identifier the dictionary holds *)
  Theorem base_species_eq (d : dsp) (u : tree) s rs : UG.dict_get nid_eqb d (EV.TreeNode_id u) = Some s ->
    find (fun n => path_eqb (sid n) s) (UG.STree_postorder ST) = Some rs ->
    UG.base_species path_eqb nid_eqb ST d u = [rs].
  Proof. intros E1 E2. unfold UG.base_species. now rewrite E1, E2. Qed.

  Theorem gen_usreconcile_base_uspfs_eq : NoDup (oids (UG.TreeNode_postorder O)) ->
    exists d : dsp,
      (forall u, In u (UG.TreeNode_postorder O) ->
         UG.dict_get nid_eqb d (EV.TreeNode_id u) = Some (root (LcaRec.lca_rec (otree_of leafsp syn u)))) /\
      UG.gen_usreconcile_base_uspfs (fam := fam) N.eqb path_eqb nid_eqb ANC LCP DIST (fun _ => ST) olca_of olca_call syn_items fam_order
        node_order SANC COMP oeqb missing missing_syn ord_infos sort_synteny_fn sin (prc rp) =
      USPFS0 (fun (_ : @UG.STree path) (obj : tree) => UG.base_species path_eqb nid_eqb ST d obj).
  Proof.
    intros ND. destruct (gen_reconcile_lca_super_eq ND) as [d [E Hd]]. exists d. split; [exact Hd|].
    unfold UG.gen_usreconcile_base_uspfs. rewrite E. cbv zeta. cbn [EV.sin_object_tree EV.sin_species_lca]. unfold UG.lca_object_species.
    match goal with |- match ?r with UG.Err _ => _ | UG.Ok _ => _ end = _ => destruct r end; reflexivity.
  Qed.

End Decode3.

(** * The hypotheses are satisfiable and the description is what the generated code computes: a run *)
Module ExampleD.
  Definition S1 : stree := SNode SLeaf (SNode SLeaf SLeaf).
  Definition ST1 : @UG.STree path := sembed3 S1 [].
  Definition O1 : EV.TreeNode nat := EV.TreeNode_node 0%nat (EV.TreeNode_leaf 1%nat) (EV.TreeNode_node 2%nat (EV.TreeNode_leaf 3%nat) (EV.TreeNode_leaf 4%nat)).
  Definition leafsp1 (i : nat) : path := match i with 1%nat => [false] | 3%nat => [true; false] | _ => [true; true] end.
  Definition syn1 (i : nat) : list fam := match i with 1%nat => [1; 2]%N | 3%nat => [2; 3]%N | _ => [1; 3]%N end.
  Definition c1 : costs := {| c_spe := 0; c_dup := 1; c_hgt := Fin 1; c_floss := 1; c_sloss := 1 |}.
  Definition sin1 := EV.mk_sin O1 tt leafsp1 (stsocc c1) syn1.
  (** the LCA structure of [O1] on sets of leaves; the items of [leaf_syntenies]; identity orders *)
  Definition olca_call1 (_ : unit) (l : list nat) : nat :=
    match l with [x] => x | _ => if existsb (Nat.eqb 1%nat) l then 0%nat else 2%nat end.
  Definition syn_items1 (f : nat -> list fam) : list (nat * list fam) := [(1%nat, f 1%nat); (3%nat, f 3%nat); (4%nat, f 4%nat)].
  Definition idf {X} (l : list X) : list X := l.
  Definition list_eqb {X} (e : X -> X -> bool) : list X -> list X -> bool :=
    fix go a b := match a, b with [] , [] => true | x :: a', y :: b' => e x y && go a' b' | _, _ => false end.
  Definition miss1 (_ : nat) : path := [].
  Definition missyn1 (_ : nat) : list fam := [].
  (** two outputs are equal when their dictionaries agree on the nodes of [O1] *)
  Definition oeqb1 (a b : @UG.spout_state fam path unit nat) : bool :=
    forallb (fun i => path_eqb (UG.dict_fun Nat.eqb miss1 (UG.spout_object_species a) i) (UG.dict_fun Nat.eqb miss1 (UG.spout_object_species b) i)
                      && list_eqb N.eqb (UG.dict_fun_syn Nat.eqb missyn1 (UG.spout_syntenies a) i)
                                        (UG.dict_fun_syn Nat.eqb missyn1 (UG.spout_syntenies b) i))
            [0; 1; 2; 3; 4]%nat.
  Definition species_ext1 (species : @UG.STree path) (_ : EV.TreeNode nat) : list (@UG.STree path) := UG.STree_postorder species.

  Definition gain1 := UG.gen_compute_gain_sets (fam := fam) (sp := path) (lca := unit) N.eqb Nat.eqb (fun _ => tt) olca_call1 syn_items1 idf sin1.
  Definition lcas1 gs := UG.gen_compute_lca_sets (fam := fam) (sp := path) (lca := unit) N.eqb Nat.eqb sin1 gs.
  Definition table1 (rp : ret) ls :=
    UG.gen_compute_uspfs_table (fam := fam) N.eqb path_eqb Nat.eqb (fun (_ : unit) => anc) (fun _ => dist) (fun _ => ST1) sin1 ls species_ext1 (prc rp).
  Definition ext1 (rp : ret) :=
    UG.gen_usreconcile_extended_uspfs (fam := fam) N.eqb path_eqb Nat.eqb (fun (_ : unit) => anc) (fun _ => lcp) (fun _ => dist) (fun _ => ST1)
      (fun _ => tt) olca_call1 syn_items1 idf idf (fun _ => sanc) (fun _ => comparable) oeqb1 miss1 missyn1 idf idf sin1 (prc rp).
  Definition has_keys (d : list (nat * list fam)) : bool :=
    forallb (fun u => match UG.dict_get Nat.eqb d (EV.TreeNode_id u) with Some _ => true | None => false end) (UG.TreeNode_postorder O1).

  (** STAGE 1 succeeds and gives both dictionaries all the nodes of [O1] as keys (so [sets_ok] holds for what they read as);
      the table is computed; the entry point returns the result of the description, which has at least one output *)
  Example run_all :
    match gain1 with
    | UG.Ok gs =>
        match lcas1 gs with
        | UG.Ok ls =>
            match table1 RALL ls with
            | UG.Ok tb =>
                has_keys gs = true /\ has_keys ls = true /\
                ext1 RALL =
                  match uspfs_cands Nat.eqb tt c1 ST1 leafsp1 syn1 O1 idf idf idf (UG.dict_fun_syn Nat.eqb missyn1 ls)
                                    (UG.dict_fun_syn Nat.eqb missyn1 gs) miss1 missyn1 (gsem3 Nat.eqb tb) with
                  | UG.Ok cs => UG.Ok (tags (update oeqb1 MIN RALL (default_entry MIN) cs))
                  | UG.Err e => UG.Err e
                  end /\
                match ext1 RALL with UG.Ok (_ :: _) => True | _ => False end
            | UG.Err _ => False
            end
        | UG.Err _ => False
        end
    | UG.Err _ => False
    end.
  Proof. vm_compute. repeat split. Qed.
End ExampleD.

Print Assumptions gen_decode_uspfs_eq.
Print Assumptions udecode_g_ok.
Print Assumptions soutput_cost_eq.
Print Assumptions gen_uspfs_exact.
Print Assumptions gen_uspfs_eq.
Print Assumptions gen_uspfs_of_table.
Print Assumptions gen_uspfs_gain_err.
Print Assumptions gen_uspfs_lca_err.
Print Assumptions gen_uspfs_table_err.
Print Assumptions gen_usreconcile_extended_uspfs_eq.
Print Assumptions gen_reconcile_lca_super_eq.
Print Assumptions base_species_eq.
Print Assumptions gen_usreconcile_base_uspfs_eq.
End Decode.
