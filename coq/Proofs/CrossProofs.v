(** C10, labelled clauses: relations between the optima of the ordered (SPFS), unordered
    (USPFS / SuperDTL), plain DTL and LCA reconciliation problems.

    Part 1 ([single_family_*]): when every leaf carries the same single family [f], labelling
    every node [[f]] is a valid ordered and a valid unordered labelling of any valid species
    mapping, with labelling cost 0; a labelled solution never costs less than its species
    mapping; hence the ordered, unordered and plain DTL optima coincide and the base variants
    equal the LCA reconciliation cost.

    Part 2 ([unordered_le_ordered]): from every valid ordered solution one obtains, on the
    same species mapping, a valid unordered solution that costs no more (forget the order and
    keep at each node the families that are in the new content of its parent or gained at
    the node); hence the unordered optimum never exceeds the ordered one. *)
From Coq Require Import List Bool Arith ZArith NArith Lia.
From SR Require Import Base.PathB Base.Ext Model.Subseq Model.Entry Model.Recon Model.LcaRec
  Model.Thl Model.Spfs Model.Uspfs
  Proofs.PathFacts Proofs.ReconProofs Proofs.DpProofs Proofs.SubseqProofs Proofs.LabelCostProofs
  Proofs.LcaProofs Proofs.ExhProofs Proofs.ThlProofs Proofs.ThlFinal Proofs.MetaProofs
  Proofs.SpfsProofs Proofs.SpfsFinal Proofs.UspfsProofs Proofs.UspfsFinal.
Import ListNotations.
Local Open Scope Z_scope.

(** * generalities: the evaluators in closed form, lower bounds *)

Lemma valid_lab_well_ordered S ord O t : valid_lab S O t -> leaves_ord S ord O -> well_ordered t.
Proof.
  induction 1 as [sp syn V|a b s y la lb V E Sa Sb Va IHa Vb IHb]; intros L; cbn [well_ordered]; auto.
  destruct L as [L1 L2]. repeat split; auto.
  - eapply valid_lab_syn_nonempty; eauto.
  - eapply valid_lab_syn_nonempty; eauto.
Qed.

(* the ordered evaluator: cost of the species mapping plus the lost runs *)
Theorem tcost_closed c S ord O t : NoDup ord -> leaves_ord S ord O -> valid_lab S O t -> Sub (lsyn t) ord ->
  tcost c ord O t = ext_add (cost c O (forget t)) (Fin (c_sloss c * olab_spec t)).
Proof.
  intros ND L V Sy. destruct (cost_olab_tcost c S ord O t V) as [K [Ok Ck]].
  rewrite (olab_rec_spec ord ND t Sy (valid_lab_well_ordered S ord O t V L)) in Ok.
  injection Ok as <-. now rewrite Ck.
Qed.

Lemma lost_runs_nonneg e C P : 0 <= lost_runs e C P.
Proof. unfold lost_runs. lia. Qed.
Lemma olab_node_nonneg e P L R : 0 <= olab_node_spec e P L R.
Proof.
  unfold olab_node_spec.
  pose proof (lost_runs_nonneg true L P). pose proof (lost_runs_nonneg false L P).
  pose proof (lost_runs_nonneg true R P). pose proof (lost_runs_nonneg false R P).
  destruct e; lia.
Qed.
Lemma olab_spec_nonneg t : 0 <= olab_spec t.
Proof.
  induction t as [s y|s y a IHa b IHb]; cbn [olab_spec]; [lia|].
  pose proof (olab_node_nonneg (event s (lroot a) (lroot b)) y (lsyn a) (lsyn b)). lia.
Qed.

Lemma lossy_01 P C : lossy P C = 0 \/ lossy P C = 1.
Proof. unfold lossy. destruct (subset P C); auto. Qed.
Lemma ulab_node_nonneg e P L R : 0 <= ulab_node_spec e P L R.
Proof.
  unfold ulab_node_spec. destruct (lossy_01 P L), (lossy_01 P R), e; lia.
Qed.
Lemma ulab_spec_nonneg t : 0 <= ulab_spec t.
Proof.
  induction t as [s y|s y a IHa b IHb]; cbn [ulab_spec]; [lia|].
  pose proof (ulab_node_nonneg (event s (lroot a) (lroot b)) y (lsyn a) (lsyn b)). lia.
Qed.

Lemma ele_add_nonneg a z : 0 <= z -> ele a (ext_add a (Fin z)).
Proof. intros H. destruct a; cbn [ext_add]; try reflexivity. apply ele_Fin. lia. Qed.

(** a labelled solution never costs less than its species mapping *)
Theorem ordered_ge_plain c S ord O t : 0 <= c_sloss c ->
  NoDup ord -> leaves_ord S ord O -> valid_lab S O t -> Sub (lsyn t) ord ->
  ele (cost c O (forget t)) (tcost c ord O t).
Proof.
  intros Hs ND L V Sy. rewrite (tcost_closed c S ord O t ND L V Sy).
  apply ele_add_nonneg. pose proof (olab_spec_nonneg t). nia.
Qed.
Theorem unordered_ge_plain c O t : 0 <= c_sloss c -> ele (cost c O (forget t)) (ucost c O t).
Proof. intros Hs. unfold ucost. apply ele_add_nonneg. pose proof (ulab_spec_nonneg t). nia. Qed.

(** * part 1: a single gene family *)

(* every leaf synteny is [[f]] *)
Fixpoint single_fam (f : fam) (o : otree) : Prop :=
  match o with OLeaf _ syn => syn = [f] | ONode a b => single_fam f a /\ single_fam f b end.

(* the labelling that puts [[f]] on every node of a species mapping *)
Fixpoint flab (f : fam) (r : rtree) : ltree :=
  match r with RLeaf s => LLeaf s [f] | RNode s a b => LNode s [f] (flab f a) (flab f b) end.

Lemma forget_flab f r : forget (flab f r) = r.
Proof. induction r as [s|s a IHa b IHb]; cbn [flab forget]; congruence. Qed.
Lemma lsyn_flab f r : lsyn (flab f r) = [f].
Proof. destruct r; reflexivity. Qed.
Lemma lroot_flab f r : lroot (flab f r) = root r.
Proof. destruct r; reflexivity. Qed.

Lemma single_fam_leaves_ord S f O : single_fam f O -> leaves_ok S O -> leaves_ord S [f] O.
Proof.
  induction O as [sp syn|a IHa b IHb]; cbn [single_fam leaves_ok leaves_ord].
  - intros -> V. repeat split; auto; [discriminate|apply Subseq_refl].
  - intros [Fa Fb] [La Lb]. auto.
Qed.

Lemma flab_valid_lab S f O r : single_fam f O -> valid_rec S O r -> valid_lab S O (flab f r).
Proof.
  intros F V. revert F. induction V as [sp syn V|a b s ra rb Vs E Va IHa Vb IHb]; cbn [single_fam flab].
  - intros ->. now constructor.
  - intros [Fa Fb]. constructor; auto.
    + now rewrite !lroot_flab.
    + rewrite lsyn_flab. apply Subseq_refl.
    + rewrite lsyn_flab. apply Subseq_refl.
Qed.

Lemma flab_valid_ordered S f O r : single_fam f O -> valid_rec S O r -> valid_ordered S [f] O (flab f r).
Proof. intros F V. split; [now apply flab_valid_lab|apply lsyn_flab]. Qed.

Lemma memf_self f : memf f [f] = true.
Proof. apply memf_In. now left. Qed.
Lemma lost_runs_self e f : lost_runs e [f] [f] = 0.
Proof. unfold lost_runs, lflags. cbn [map]. rewrite memf_self. destruct e; reflexivity. Qed.
Lemma lossy_self f : lossy [f] [f] = 0.
Proof. unfold lossy, subset. cbn [forallb]. fold (memf f [f]). now rewrite memf_self. Qed.

Lemma flab_olab f r : olab_spec (flab f r) = 0.
Proof.
  induction r as [s|s a IHa b IHb]; cbn [flab olab_spec]; [reflexivity|].
  rewrite IHa, IHb, !lsyn_flab. unfold olab_node_spec. rewrite !lost_runs_self.
  destruct (event s (lroot (flab f a)) (lroot (flab f b))); reflexivity.
Qed.
Lemma flab_ulab f r : ulab_spec (flab f r) = 0.
Proof.
  induction r as [s|s a IHa b IHb]; cbn [flab ulab_spec]; [reflexivity|].
  rewrite IHa, IHb, !lsyn_flab. unfold ulab_node_spec. rewrite !lossy_self.
  destruct (event s (lroot (flab f a)) (lroot (flab f b))); reflexivity.
Qed.

Lemma NoDup_single (f : fam) : NoDup [f].
Proof. constructor; [intros []|constructor]. Qed.

(* the all-[f] labelling costs exactly its species mapping, in both models *)
Theorem flab_tcost c S f O r : single_fam f O -> leaves_ok S O -> valid_rec S O r ->
  tcost c [f] O (flab f r) = cost c O r.
Proof.
  intros F L V.
  rewrite (tcost_closed c S [f] O (flab f r) (NoDup_single f) (single_fam_leaves_ord S f O F L)
             (flab_valid_lab S f O r F V)) by (rewrite lsyn_flab; apply Subseq_refl).
  rewrite forget_flab, flab_olab, Z.mul_0_r. apply ext_add_0_r.
Qed.
Theorem flab_ucost c f O r : ucost c O (flab f r) = cost c O r.
Proof. unfold ucost. rewrite forget_flab, flab_ulab, Z.mul_0_r. apply ext_add_0_r. Qed.

(* number of carriers of [f] below a node of a single-family tree: positive *)
Lemma single_fam_carriers f o : single_fam f o -> (0 < carriers f o)%nat.
Proof.
  induction o as [sp syn|a IHa b IHb]; cbn [single_fam].
  - intros ->. rewrite carriers_leaf, memf_self. lia.
  - intros [Fa Fb]. cbn [carriers]. specialize (IHa Fa). lia.
Qed.

Lemma set_of_single (f : fam) : set_of [f] = [f].
Proof. reflexivity. Qed.

Lemma ssorted_single (f : fam) : ssorted [f].
Proof. split; [intros y []|exact I]. Qed.

Lemma flab_uvalid_under S total f : forall o r P, single_fam f o -> valid_rec S o r ->
  (In f P \/ gained_here total o f = true) -> uvalid_under S total P o (flab f r).
Proof.
  intros o r P F V. revert P F. induction V as [sp syn V|a b s ra rb Vs E Va IHa Vb IHb]; intros P F HP.
  - cbn [single_fam] in F. subst syn. cbn [flab uvalid_under]. repeat split; auto.
    intros g [<-|[]]. exact HP.
  - destruct F as [Fa Fb]. cbn [flab uvalid_under].
    split; [exact Vs|]. split; [now rewrite !lroot_flab|]. split; [apply ssorted_single|].
    split; [intros g [<-|[]]; exact HP|]. split.
    + apply IHa; auto. left. now left.
    + apply IHb; auto. left. now left.
Qed.

Theorem flab_uvalid S f O r : single_fam f O -> valid_rec S O r -> uvalid S O (flab f r).
Proof.
  intros F V. apply flab_uvalid_under; auto. right.
  unfold gained_here, ototal. rewrite Nat.eqb_refl. pose proof (single_fam_carriers f O F) as P.
  apply andb_true_iff. split; [apply andb_true_iff; split; auto; now apply Nat.ltb_lt|].
  destruct O as [sp syn|a b]; auto. destruct F as [Fa Fb].
  pose proof (single_fam_carriers f a Fa). pose proof (single_fam_carriers f b Fb).
  cbn [carriers]. apply andb_true_iff. split; apply Nat.ltb_lt; lia.
Qed.

(** ** (a) specification level: ordered, unordered and plain optima coincide *)

(* optimum among all valid unordered labellings (the notion of [superdtl_solutions_optimal]) *)
Definition uall_optimal (S : stree) (c : costs) (extended : bool) (O : otree) (t : ltree) : Prop :=
  uall_sol S extended O t /\ forall t', uall_sol S extended O t' -> ele (ucost c O t) (ucost c O t').

Section SingleFamily.
  Variables (S : stree) (c : costs) (f : fam) (O : otree).
  Hypothesis Hs : 0 <= c_sloss c.
  Hypothesis F : single_fam f O.
  Hypothesis L : leaves_ok S O.

  Lemma sf_orders_ok : orders_ok S O [[f]].
  Proof. intros ord [<-|[]]. split; [apply NoDup_single|now apply single_fam_leaves_ord]. Qed.

  Lemma sf_cost_of lt : valid_ordered S [f] O lt -> cost_of c O lt = tcost c [f] O lt.
  Proof.
    intros V. unfold cost_of. now rewrite (total_cost_tcost c S [f] O lt (NoDup_single f) V).
  Qed.

  Lemma sf_sol_inv extended lt : sol S extended [[f]] O lt -> valid_ordered S [f] O lt /\ mapping_ok extended O lt.
  Proof. intros [ord [[<-|[]] [V M]]]. auto. Qed.

  Lemma sf_flab_sol r : valid_rec S O r -> sol S true [[f]] O (flab f r).
  Proof.
    intros V. exists [f]. split; [now left|]. split; [now apply flab_valid_ordered|now left].
  Qed.
  Lemma sf_flab_cost_of r : valid_rec S O r -> cost_of c O (flab f r) = cost c O r.
  Proof.
    intros V. rewrite (sf_cost_of _ (flab_valid_ordered S f O r F V)). now apply (flab_tcost c S).
  Qed.

  Lemma sf_ordered_ge lt : valid_ordered S [f] O lt -> ele (cost c O (forget lt)) (cost_of c O lt).
  Proof.
    intros V. rewrite (sf_cost_of lt V). destruct V as [V E].
    apply (ordered_ge_plain c S [f] O lt Hs (NoDup_single f) (single_fam_leaves_ord S f O F L) V).
    rewrite E. apply Subseq_refl.
  Qed.

  (* ordered optimum = plain optimum *)
  Theorem single_family_ordered_plain lt : optimal_sol S c true [[f]] O lt ->
    optimal S c O (forget lt) /\ cost_of c O lt = cost c O (forget lt).
  Proof.
    intros [St Opt]. destruct (sf_sol_inv _ _ St) as [V _].
    pose proof (valid_lab_rec S O lt (proj1 V)) as Vr.
    assert (cost_of c O lt = cost c O (forget lt)) as E.
    { apply ele_antisym; [|now apply sf_ordered_ge].
      rewrite <- (sf_flab_cost_of (forget lt) Vr). apply Opt. now apply sf_flab_sol. }
    split; [|exact E]. split; [exact Vr|]. intros r' V'. rewrite <- E, <- (sf_flab_cost_of r' V').
    apply Opt. now apply sf_flab_sol.
  Qed.
  Theorem single_family_plain_ordered r : optimal S c O r ->
    optimal_sol S c true [[f]] O (flab f r) /\ cost_of c O (flab f r) = cost c O r.
  Proof.
    intros [V Opt]. split; [|now apply sf_flab_cost_of]. split; [now apply sf_flab_sol|].
    intros lt' St. destruct (sf_sol_inv _ _ St) as [V' _]. rewrite (sf_flab_cost_of r V).
    eapply ele_trans; [apply Opt; exact (valid_lab_rec S O lt' (proj1 V'))|now apply sf_ordered_ge].
  Qed.

  (* unordered optimum = plain optimum *)
  Lemma sf_flab_usol r : valid_rec S O r -> uall_sol S true O (flab f r).
  Proof. intros V. split; [now apply flab_uvalid|discriminate]. Qed.

  Theorem single_family_unordered_plain u : uall_optimal S c true O u ->
    optimal S c O (forget u) /\ ucost c O u = cost c O (forget u).
  Proof.
    intros [[V B] Opt]. pose proof (uvalid_valid_rec S _ O [] u V) as Vr.
    assert (ucost c O u = cost c O (forget u)) as E.
    { apply ele_antisym; [|now apply unordered_ge_plain].
      rewrite <- (flab_ucost c f O (forget u)). apply Opt. now apply sf_flab_usol. }
    split; [|exact E]. split; [exact Vr|]. intros r' V'. rewrite <- E, <- (flab_ucost c f O r').
    apply Opt. now apply sf_flab_usol.
  Qed.
  Theorem single_family_plain_unordered r : optimal S c O r ->
    uall_optimal S c true O (flab f r) /\ ucost c O (flab f r) = cost c O r.
  Proof.
    intros [V Opt]. split; [|apply flab_ucost]. split; [now apply sf_flab_usol|].
    intros u' [V' _]. rewrite flab_ucost.
    eapply ele_trans; [apply Opt; exact (uvalid_valid_rec S _ O [] u' V')|now apply unordered_ge_plain].
  Qed.

  (* the three optima coincide *)
  Theorem single_family_collapse lt u r :
    optimal_sol S c true [[f]] O lt -> uall_optimal S c true O u -> optimal S c O r ->
    cost_of c O lt = cost c O r /\ ucost c O u = cost c O r.
  Proof.
    intros Ho Hu [Vr Or].
    destruct (single_family_ordered_plain lt Ho) as [[V1 O1] E1].
    destruct (single_family_unordered_plain u Hu) as [[V2 O2] E2].
    rewrite E1, E2. split; apply ele_antisym; auto.
  Qed.

  (** ** (b) the base variants equal the LCA reconciliation cost *)
  Theorem single_family_base_ordered lt : optimal_sol S c false [[f]] O lt ->
    cost_of c O lt = cost c O (lca_rec O).
  Proof.
    intros [St Opt]. destruct (sf_sol_inv _ _ St) as [V [X|M]]; [discriminate|].
    destruct (lca_valid S O L) as [Vl _].
    apply ele_antisym.
    - rewrite <- (sf_flab_cost_of (lca_rec O) Vl). apply Opt.
      exists [f]. split; [now left|]. split; [now apply flab_valid_ordered|]. right. apply forget_flab.
    - rewrite <- M. now apply sf_ordered_ge.
  Qed.
  Theorem single_family_base_unordered u : uall_optimal S c false O u ->
    ucost c O u = cost c O (lca_rec O).
  Proof.
    intros [[V B] Opt]. destruct (lca_valid S O L) as [Vl _].
    apply ele_antisym.
    - rewrite <- (flab_ucost c f O (lca_rec O)). apply Opt.
      split; [now apply flab_uvalid|]. intros _. apply forget_flab.
    - rewrite <- (B eq_refl). now apply unordered_ge_plain.
  Qed.
End SingleFamily.

(** * part 2: the unordered optimum never exceeds the ordered one *)

(* content given to a node: the families of its ordered content that are in the (new) content
   [P] of its parent or gained at the node, as a sorted set *)
Definition keepf (total : fam -> nat) (P : list fam) (o : otree) (y : list fam) : list fam :=
  set_of (filter (fun f => memf f P || gained_here total o f) y).

(* the unordered labelling obtained from an ordered one *)
Fixpoint unord (total : fam -> nat) (P : list fam) (o : otree) (t : ltree) {struct t} : ltree :=
  match t with
  | LLeaf s y => LLeaf s (set_of y)
  | LNode s y ta tb =>
      match o with
      | ONode a b => LNode s (keepf total P o y) (unord total (keepf total P o y) a ta)
                           (unord total (keepf total P o y) b tb)
      | OLeaf _ _ => t
      end
  end.

Lemma In_keepf total P o y f :
  In f (keepf total P o y) <-> In f y /\ (In f P \/ gained_here total o f = true).
Proof.
  unfold keepf. rewrite In_set_of, filter_In, orb_true_iff, memf_In. reflexivity.
Qed.

Lemma forget_unord total : forall t P o, forget (unord total P o t) = forget t.
Proof.
  induction t as [s y|s y ta IHa tb IHb]; intros P o; cbn [unord forget]; [reflexivity|].
  destruct o as [sp syn|a b]; cbn [forget]; [reflexivity|]. now rewrite IHa, IHb.
Qed.
Lemma lroot_unord total P o t : lroot (unord total P o t) = lroot t.
Proof. destruct t as [s y|s y ta tb]; [reflexivity|]. destruct o; reflexivity. Qed.

(* a family of the parent's new content that the ordered child has is kept in the child *)
Lemma lsyn_unord_keeps total P o t f : In f P -> In f (lsyn t) -> In f (lsyn (unord total P o t)).
Proof.
  intros HP Ht. destruct t as [s y|s y ta tb]; cbn [unord lsyn] in *.
  - now apply In_set_of.
  - destruct o as [sp syn|a b]; cbn [lsyn]; [exact Ht|]. apply In_keepf. auto.
Qed.

(* a family carried below a node of a valid ordered labelling is in the node's content *)
Lemma carried_in_lsyn S f : forall o t, valid_lab S o t -> (0 < carriers f o)%nat -> In f (lsyn t).
Proof.
  induction 1 as [sp syn V|a b s y la lb V E Sa Sb Va IHa Vb IHb]; intros C.
  - rewrite carriers_leaf in C. cbn [lsyn]. destruct (memf f syn) eqn:M; [now apply memf_In|lia].
  - cbn [carriers] in C. cbn [lsyn].
    assert ((0 < carriers f a)%nat \/ (0 < carriers f b)%nat) as [C1|C1] by lia.
    + eapply Subseq_in; [exact Sa|auto].
    + eapply Subseq_in; [exact Sb|auto].
Qed.

(* the parent's content holds the families carried below the node but not only below it *)
Definition cov (total : fam -> nat) (P : list fam) (o : otree) : Prop :=
  forall f, (0 < carriers f o)%nat -> (carriers f o < total f)%nat -> In f P.

Lemma cov_child total S P a b s y la lb (sel : bool) :
  bounded total (ONode a b) -> cov total P (ONode a b) ->
  valid_lab S (ONode a b) (LNode s y la lb) ->
  cov total (keepf total P (ONode a b) y) (if sel then b else a).
Proof.
  intros B Cv V f C0 C1. inversion V as [|? ? ? ? ? ? Vs E Sa Sb Va Vb]; subst.
  pose proof (B f) as Bf. cbn [carriers] in Bf.
  apply In_keepf. split.
  - destruct sel.
    + eapply Subseq_in; [exact Sb|]. eapply carried_in_lsyn; eauto.
    + eapply Subseq_in; [exact Sa|]. eapply carried_in_lsyn; eauto.
  - destruct (Nat.eq_dec (carriers f a + carriers f b) (total f)) as [Eq|Ne].
    + right. unfold gained_here. cbn [carriers].
      apply andb_true_iff. split; [apply andb_true_iff; split|apply andb_true_iff; split].
      * now apply Nat.eqb_eq.
      * apply Nat.ltb_lt. destruct sel; lia.
      * apply Nat.ltb_lt. destruct sel; lia.
      * apply Nat.ltb_lt. destruct sel; lia.
    + left. apply Cv; cbn [carriers]; destruct sel; lia.
Qed.

Theorem unord_valid S total : forall o t, valid_lab S o t -> forall P, bounded total o -> cov total P o ->
  uvalid_under S total P o (unord total P o t).
Proof.
  induction 1 as [sp syn V|a b s y la lb V E Sa Sb Va IHa Vb IHb]; intros P B Cv.
  - cbn [unord uvalid_under]. split; [reflexivity|]. split; [exact V|]. split; [reflexivity|].
    intros f Hf. apply (proj1 (In_set_of syn f)) in Hf.
    assert (carriers f (OLeaf sp syn) = 1%nat) as C1.
    { rewrite carriers_leaf. apply (proj2 (memf_In f syn)) in Hf. now rewrite Hf. }
    pose proof (B f) as Bf. rewrite C1 in Bf.
    destruct (Nat.eq_dec (total f) 1) as [Eq|Ne].
    + right. unfold gained_here. rewrite C1, Eq. reflexivity.
    + left. apply Cv; rewrite C1; lia.
  - assert (valid_lab S (ONode a b) (LNode s y la lb)) as VN by (constructor; auto).
    cbn [unord uvalid_under]. split; [exact V|]. split; [now rewrite !lroot_unord|].
    split; [apply ssorted_set_of|]. split; [intros f Hf; now apply In_keepf in Hf|]. split.
    + apply IHa; [eapply bounded_l; eauto|]. exact (cov_child total S P a b s y la lb false B Cv VN).
    + apply IHb; [eapply bounded_r; eauto|]. exact (cov_child total S P a b s y la lb true B Cv VN).
Qed.

(* a lost family means at least one lost run *)
Lemma runs_all_pos l : In false l -> (1 <= runs_all l)%nat.
Proof.
  unfold runs_all. induction l as [|x l IH]; [intros []|]. cbn [runs_from]. destruct x.
  - intros [X|H]; [discriminate|]. cbn [negb andb]. specialize (IH H). lia.
  - intros _. cbn [negb andb]. lia.
Qed.

(* an edge that is lossy in the unordered labelling has a lost run in the ordered one *)
Lemma lossy_le_runs total P o t y y' :
  (forall f, In f y' -> In f y /\ In f P) ->
  lossy y' (lsyn (unord total P o t)) <= lost_runs true (lsyn t) y.
Proof.
  intros Hy. destruct (lossy_01 y' (lsyn (unord total P o t))) as [E|E]; rewrite E.
  - apply lost_runs_nonneg.
  - apply lossy_iff in E as [f [I1 I2]]. destruct (Hy f I1) as [Iy IP].
    assert (~ In f (lsyn t)) as N by (intros X; apply I2; now apply lsyn_unord_keeps).
    unfold lost_runs. assert (In false (lflags (lsyn t) y)) as Hf.
    { unfold lflags. apply in_map_iff. exists f. split; auto.
      destruct (memf f (lsyn t)) eqn:M; auto. apply memf_In in M. contradiction. }
    pose proof (runs_all_pos _ Hf). lia.
Qed.

Theorem unord_ulab_le S total : forall o t, valid_lab S o t -> forall P,
  ulab_spec (unord total P o t) <= olab_spec t.
Proof.
  induction 1 as [sp syn V|a b s y la lb V E Sa Sb Va IHa Vb IHb]; intros P.
  - cbn [unord ulab_spec olab_spec]. lia.
  - cbn [unord ulab_spec olab_spec]. rewrite !lroot_unord.
    remember (keepf total P (ONode a b) y) as y' eqn:Ey.
    specialize (IHa y'). specialize (IHb y').
    assert (forall f, In f y' -> In f y /\ In f y') as Hy.
    { intros f Hf. split; auto. rewrite Ey in Hf. now apply In_keepf in Hf. }
    pose proof (lossy_le_runs total y' a la y y' Hy) as La.
    pose proof (lossy_le_runs total y' b lb y y' Hy) as Lb.
    pose proof (lost_runs_nonneg false (lsyn la) y). pose proof (lost_runs_nonneg false (lsyn lb) y).
    pose proof (lost_runs_nonneg true (lsyn la) y). pose proof (lost_runs_nonneg true (lsyn lb) y).
    destruct (lossy_01 y' (lsyn (unord total y' a la))), (lossy_01 y' (lsyn (unord total y' b lb))).
    all: unfold ulab_node_spec, olab_node_spec; destruct (event s (lroot la) (lroot lb)); lia.
Qed.

Lemma root_cov O : cov (ototal O) [] O.
Proof. intros f _ H. unfold ototal in H. lia. Qed.

(** every valid ordered solution yields, on the same species mapping, a valid unordered
    solution that costs no more *)
Theorem unordered_le_ordered S c ord O t :
  0 <= c_sloss c -> NoDup ord -> leaves_ord S ord O -> valid_ordered S ord O t ->
  exists u, uvalid S O u /\ forget u = forget t /\ ele (ucost c O u) (tcost c ord O t).
Proof.
  intros Hs ND L [V E]. exists (unord (ototal O) [] O t).
  split; [apply (unord_valid S (ototal O) O t V []); [apply ototal_bounded|apply root_cov]|].
  split; [apply forget_unord|].
  rewrite (tcost_closed c S ord O t ND L V) by (rewrite E; apply Subseq_refl).
  unfold ucost. rewrite forget_unord. apply ext_add_mono; [apply ele_refl|]. apply ele_Fin.
  pose proof (unord_ulab_le S (ototal O) O t V []). nia.
Qed.

(** ** specification level: optima *)
Lemma coherent_ord_ucoherent c : coherent_ord c -> ucoherent c.
Proof. intros [H1 [H2 H3]]. unfold ucoherent. repeat split; lia. Qed.
Lemma coherent_ord_coherent c : coherent_ord c -> coherent c.
Proof. intros [H1 [H2 H3]]. unfold coherent. lia. Qed.

(* any optimum among the unordered labellings costs at most any ordered solution of the same variant *)
Theorem unordered_opt_le_ordered S c extended orders O u lt :
  0 <= c_sloss c -> orders_ok S O orders ->
  uall_optimal S c extended O u -> sol S extended orders O lt ->
  ele (ucost c O u) (cost_of c O lt).
Proof.
  intros Hs HO [_ Opt] [ord [Io [V M]]]. destruct (HO ord Io) as [ND L].
  destruct (unordered_le_ordered S c ord O lt Hs ND L V) as [u' [Vu [Fu Le]]].
  unfold cost_of. rewrite (total_cost_tcost c S ord O lt ND V).
  eapply ele_trans; [apply Opt|exact Le]. split; [exact Vu|].
  intros ->. destruct M as [X|M]; [discriminate|]. now rewrite Fu.
Qed.

(** ** solver level *)
Theorem uspfs_le_spfs S c extended orders O E e u lt :
  nn (c_hgt c) -> coherent_ord c -> orders_ok S O orders -> leaves_ok S O ->
  uspfs S c RALL extended O = Some E -> spfs S c RALL extended orders O = Some e ->
  In u (tags E) -> In lt (tags e) -> ele (ucost c O u) (cost_of c O lt).
Proof.
  intros Hh Hc HO L HE He Iu Il. pose proof Hc as [_ [_ Hs]].
  apply (unordered_opt_le_ordered S c extended orders O u lt Hs HO).
  - exact (superdtl_solutions_optimal S c RALL extended O E u Hh (coherent_ord_ucoherent c Hc) L
             RALL_not_none HE Iu).
  - exact (proj1 (proj1 (spfs_all_exact S c extended orders O Hh HO Hc e He lt) Il)).
Qed.

(* in particular, extended against extended and base against base *)
Corollary ext_uspfs_le_ext_spfs S c orders O E e u lt :
  nn (c_hgt c) -> coherent_ord c -> orders_ok S O orders -> leaves_ok S O ->
  uspfs S c RALL true O = Some E -> spfs S c RALL true orders O = Some e ->
  In u (tags E) -> In lt (tags e) -> ele (ucost c O u) (cost_of c O lt).
Proof. apply uspfs_le_spfs. Qed.
Corollary base_uspfs_le_base_spfs S c orders O E e u lt :
  nn (c_hgt c) -> coherent_ord c -> orders_ok S O orders -> leaves_ok S O ->
  uspfs S c RALL false O = Some E -> spfs S c RALL false orders O = Some e ->
  In u (tags E) -> In lt (tags e) -> ele (ucost c O u) (cost_of c O lt).
Proof. apply uspfs_le_spfs. Qed.

(** the plain DTL optimum is a lower bound of both labelled extended optima *)
Theorem thl_le_ext_uspfs S c O E r u :
  nn (c_hgt c) -> ucoherent c -> coherent c -> leaves_ok S O ->
  uspfs S c RALL true O = Some E -> In r (tags (reconcile_thl S c RALL O)) -> In u (tags E) ->
  ele (cost c O r) (ucost c O u).
Proof.
  intros Hh Hu Hc L HE Ir Iu. pose proof Hu as [Hf [Hs _]].
  apply (thl_all_exact S c O Hh Hf Hc L) in Ir as [_ Opt].
  destruct (superdtl_solutions_optimal S c RALL true O E u Hh Hu L RALL_not_none HE Iu) as [[V _] _].
  eapply ele_trans; [apply Opt; exact (uvalid_valid_rec S _ O [] u V)|now apply unordered_ge_plain].
Qed.
Theorem thl_le_ext_spfs S c orders O e r lt :
  nn (c_hgt c) -> coherent_ord c -> orders_ok S O orders -> leaves_ok S O ->
  spfs S c RALL true orders O = Some e -> In r (tags (reconcile_thl S c RALL O)) -> In lt (tags e) ->
  ele (cost c O r) (cost_of c O lt).
Proof.
  intros Hh Hc HO L He Ir Il. pose proof Hc as [_ [Hf Hs]].
  apply (thl_all_exact S c O Hh Hf (coherent_ord_coherent c Hc) L) in Ir as [_ Opt].
  destruct (proj1 (spfs_all_exact S c true orders O Hh HO Hc e He lt) Il) as [[ord [Io [V _]]] _].
  destruct (HO ord Io) as [ND Lo]. unfold cost_of. rewrite (total_cost_tcost c S ord O lt ND V).
  destruct V as [V Ey].
  eapply ele_trans; [apply Opt; exact (valid_lab_rec S O lt V)|].
  apply (ordered_ge_plain c S ord O lt Hs ND Lo V). rewrite Ey. apply Subseq_refl.
Qed.

(** * part 1, solver level *)

(* the set of solutions only depends on the members of [orders] *)
Lemma sol_orders_ext S extended o1 o2 O lt : (forall ord, In ord o1 <-> In ord o2) ->
  sol S extended o1 O lt -> sol S extended o2 O lt.
Proof. intros H [ord [Io R]]. exists ord. split; [now apply H|exact R]. Qed.
Lemma optimal_sol_orders_ext S c extended o1 o2 O lt : (forall ord, In ord o1 <-> In ord o2) ->
  optimal_sol S c extended o1 O lt -> optimal_sol S c extended o2 O lt.
Proof.
  intros H [St Opt]. split; [eapply sol_orders_ext; eauto|]. intros lt' S'. apply Opt.
  eapply sol_orders_ext; [|exact S']. intros ord. symmetry. apply H.
Qed.

(* the only root order of a single-family input is [[f]] *)
Lemma leaf_syns_single f O : single_fam f O -> forall syn, In syn (leaf_syns O) -> syn = [f].
Proof.
  induction O as [sp y|a IHa b IHb]; cbn [single_fam leaf_syns].
  - intros -> syn [<-|[]]. reflexivity.
  - intros [Fa Fb] syn I. apply in_app_or in I as [I|I]; auto.
Qed.
Lemma leaf_syns_nonempty O : leaf_syns O <> [].
Proof.
  induction O as [sp y|a IHa b IHb]; cbn [leaf_syns]; [discriminate|].
  intros X. apply app_eq_nil in X as [X _]. auto.
Qed.
Lemma single_fam_families f O : single_fam f O -> forall x, SpfsFinal.families O x <-> x = f.
Proof.
  intros F x. unfold SpfsFinal.families. split.
  - intros [syn [Is Ix]]. rewrite (leaf_syns_single f O F syn Is) in Ix. destruct Ix as [<-|[]]. reflexivity.
  - intros ->. pose proof (leaf_syns_nonempty O) as NE.
    assert (exists syn, In syn (leaf_syns O)) as [syn Is].
    { destruct (leaf_syns O) as [|syn l]; [congruence|]. exists syn. now left. }
    exists syn. split; [exact Is|]. rewrite (leaf_syns_single f O F syn Is). now left.
Qed.
Lemma single_fam_compatible f O ord : single_fam f O -> (compatible_order O ord <-> ord = [f]).
Proof.
  intros F. unfold compatible_order. split.
  - intros [ND [Fm _]].
    assert (forall x, In x ord <-> x = f) as M by (intros x; rewrite Fm; now apply single_fam_families).
    destruct ord as [|a l]; [exfalso; now apply (proj2 (M f) eq_refl)|].
    assert (a = f) as -> by (apply M; now left).
    destruct l as [|b l]; [reflexivity|]. exfalso.
    assert (b = f) as -> by (apply M; right; now left).
    inversion ND as [|? ? N _]. apply N. now left.
  - intros ->. split; [apply NoDup_single|]. split.
    + intros x. rewrite (single_fam_families f O F x). cbn [In]. intuition.
    + intros syn Is. rewrite (leaf_syns_single f O F syn Is). apply Subseq_refl.
Qed.
Theorem single_fam_root_orders f O orders : single_fam f O -> Spfs.root_orders O = Some orders ->
  forall ord, In ord orders <-> ord = [f].
Proof.
  intros F E ord. rewrite (root_orders_spec O orders E ord). now apply single_fam_compatible.
Qed.
Lemma single_fam_leaves_wf S f O : single_fam f O -> leaves_ok S O -> leaves_wf S O.
Proof.
  induction O as [sp y|a IHa b IHb]; cbn [single_fam leaves_ok leaves_wf].
  - intros -> V. split; [exact V|discriminate].
  - intros [Fa Fb] [La Lb]. auto.
Qed.

Section SingleFamilySolvers.
  Variables (S : stree) (c : costs) (f : fam) (orders : list (list fam)) (O : otree).
  Hypothesis Hh : nn (c_hgt c).
  Hypothesis Hc : coherent_ord c.
  Hypothesis F : single_fam f O.
  Hypothesis L : leaves_ok S O.
  Hypothesis Ho : forall ord, In ord orders <-> ord = [f].

  Lemma sfs_members : forall ord, In ord orders <-> In ord [[f]].
  Proof. intros ord. rewrite Ho. cbn [In]. intuition. Qed.
  Lemma sfs_orders_ok : orders_ok S O orders.
  Proof.
    intros ord Io. apply Ho in Io. subst ord. split; [apply NoDup_single|now apply single_fam_leaves_ord].
  Qed.
  Lemma sfs_sloss : 0 <= c_sloss c.
  Proof. exact (proj2 (proj2 Hc)). Qed.

  Lemma sfs_spfs_optimal extended e lt : spfs S c RALL extended orders O = Some e -> In lt (tags e) ->
    optimal_sol S c extended [[f]] O lt.
  Proof.
    intros He Il. apply (optimal_sol_orders_ext S c extended orders [[f]] O lt sfs_members).
    exact (proj1 (spfs_all_exact S c extended orders O Hh sfs_orders_ok Hc e He lt) Il).
  Qed.
  Lemma sfs_uspfs_optimal extended E u : uspfs S c RALL extended O = Some E -> In u (tags E) ->
    uall_optimal S c extended O u.
  Proof.
    intros HE Iu.
    exact (superdtl_solutions_optimal S c RALL extended O E u Hh (coherent_ord_ucoherent c Hc) L
             RALL_not_none HE Iu).
  Qed.

  (** (a) extended ordered = extended unordered = plain DTL *)
  Theorem single_family_solvers_collapse e E lt u r :
    spfs S c RALL true orders O = Some e -> uspfs S c RALL true O = Some E ->
    In lt (tags e) -> In u (tags E) -> In r (tags (reconcile_thl S c RALL O)) ->
    cost_of c O lt = cost c O r /\ ucost c O u = cost c O r /\ cost_of c O lt = ucost c O u.
  Proof.
    intros He HE Il Iu Ir.
    apply (thl_all_exact S c O Hh (proj1 (proj2 Hc)) (coherent_ord_coherent c Hc) L) in Ir.
    destruct (single_family_collapse S c f O sfs_sloss F L lt u r
                (sfs_spfs_optimal true e lt He Il) (sfs_uspfs_optimal true E u HE Iu) Ir) as [E1 E2].
    repeat split; congruence.
  Qed.

  (** (b) base ordered = base unordered = LCA reconciliation cost *)
  Theorem single_family_solvers_base e E lt u :
    spfs S c RALL false orders O = Some e -> uspfs S c RALL false O = Some E ->
    In lt (tags e) -> In u (tags E) ->
    cost_of c O lt = cost c O (lca_rec O) /\ ucost c O u = cost c O (lca_rec O).
  Proof.
    intros He HE Il Iu. split.
    - exact (single_family_base_ordered S c f O sfs_sloss F L lt (sfs_spfs_optimal false e lt He Il)).
    - exact (single_family_base_unordered S c f O sfs_sloss F L u (sfs_uspfs_optimal false E u HE Iu)).
  Qed.
End SingleFamilySolvers.

(** * non-vacuity *)
Example single_family_example :
  let S := SNode SLeaf (SNode SLeaf SLeaf) in
  let O := ONode (OLeaf [false] [7]%N) (ONode (OLeaf [true; false] [7]%N) (OLeaf [false] [7]%N)) in
  let c := {| c_spe := 0; c_dup := 1; c_hgt := Fin 1; c_floss := 1; c_sloss := 1 |} in
  nn (c_hgt c) /\ coherent_ord c /\ single_fam 7%N O /\ leaves_ok S O /\
  Spfs.root_orders O = Some [[7%N]] /\
  option_map (fun e => (val e, length (tags e))) (spfs S c RALL true [[7%N]] O) = Some (Fin 2, 5%nat) /\
  option_map (fun e => (val e, length (tags e))) (uspfs S c RALL true O) = Some (Fin 2, 5%nat) /\
  (val (reconcile_thl S c RALL O), length (tags (reconcile_thl S c RALL O))) = (Fin 2, 5%nat) /\
  option_map val (spfs S c RALL false [[7%N]] O) = Some (cost c O (lca_rec O)) /\
  option_map val (uspfs S c RALL false O) = Some (cost c O (lca_rec O)).
Proof.
  cbv zeta. split; [discriminate|]. split; [unfold coherent_ord; cbn; lia|].
  split; [cbn; auto|]. split; [cbn; auto|]. repeat split; vm_compute; reflexivity.
Qed.

Example unordered_le_ordered_example :
  let S := SNode SLeaf (SNode SLeaf SLeaf) in
  let O := ONode (OLeaf [false] [1; 2]%N) (ONode (OLeaf [true; false] [2; 3]%N) (OLeaf [true; true] [1; 3]%N)) in
  let c := {| c_spe := 0; c_dup := 1; c_hgt := Fin 1; c_floss := 1; c_sloss := 1 |} in
  nn (c_hgt c) /\ coherent_ord c /\ orders_ok S O [[1; 2; 3]%N] /\ leaves_ok S O /\
  option_map val (spfs S c RALL true [[1; 2; 3]%N] O) = Some (Fin 3) /\
  option_map val (uspfs S c RALL true O) = Some (Fin 2).
Proof.
  cbv zeta. split; [discriminate|]. split; [unfold coherent_ord; cbn; lia|].
  split.
  { intros ord [<-|[]]. split.
    - repeat constructor; cbn; intuition discriminate.
    - cbn. repeat split; try discriminate; repeat constructor. }
  split; [cbn; auto|]. split; vm_compute; reflexivity.
Qed.

Print Assumptions single_family_collapse.
Print Assumptions single_family_base_ordered.
Print Assumptions single_family_base_unordered.
Print Assumptions single_family_solvers_collapse.
Print Assumptions single_family_solvers_base.
Print Assumptions single_fam_root_orders.
Print Assumptions unordered_le_ordered.
Print Assumptions unordered_opt_le_ordered.
Print Assumptions uspfs_le_spfs.
Print Assumptions thl_le_ext_uspfs.
Print Assumptions thl_le_ext_spfs.
