(** Round trip of the concrete Newick printer / parser of [Model/Newick.v]:
    [parse_tree (print_tree t) = Some t] for every tree (any size, any arity)
    whose names are non-empty words over [A-Za-z0-9_] and whose colours are words
    over the same alphabet. *)
From Coq Require Import List Bool Arith String Ascii Lia.
From SR Require Import Model.Newick.
Import ListNotations.
Local Open Scope char_scope.

(** * Specification of the domain *)
Definition ok_word (s : string) : bool := forallb name_char (list_ascii_of_string s).
Fixpoint ok_tree (t : tree) : bool :=
  match t with
  | Node n c ks =>
      negb (String.eqb n "") && ok_word n &&
      match c with Some v => ok_word v | None => true end &&
      forallb ok_tree ks
  end.

(** * Nested induction on trees *)
Section TreeInd.
  Variable P : tree -> Prop.
  Hypothesis H : forall n c ks, Forall P ks -> P (Node n c ks).
  Fixpoint tree_ind' (t : tree) : P t :=
    match t with
    | Node n c ks =>
        H n c ks ((fix go (l : list tree) : Forall P l :=
                     match l with
                     | [] => Forall_nil P
                     | k :: l' => Forall_cons k (tree_ind' k) (go l')
                     end) ks)
    end.
End TreeInd.

(** * Characters *)
Lemma name_char_not_illegal c : name_char c = true -> illegal c = false.
Proof.
  destruct c as [[|] [|] [|] [|] [|] [|] [|] [|]]; vm_compute; intro H; try reflexivity; discriminate H.
Qed.

Lemma name_char_stop c :
  name_char c = true ->
  Ascii.eqb c "(" = false /\ Ascii.eqb c "[" = false /\ Ascii.eqb c "," = false /\
  Ascii.eqb c ")" = false /\ Ascii.eqb c ";" = false /\ Ascii.eqb c "]" = false.
Proof.
  destruct c as [[|] [|] [|] [|] [|] [|] [|] [|]]; vm_compute; intro H;
    try discriminate H; repeat split.
Qed.

Lemma sanitize_ok l : forallb name_char l = true -> sanitize l = l.
Proof.
  induction l as [|c l IH]; simpl; intro H; [reflexivity|].
  apply andb_true_iff in H as [Hc Hl].
  rewrite (name_char_not_illegal c Hc), (IH Hl). reflexivity.
Qed.

(** * Lexing *)
Arguments nhx_open : simpl never.
Lemma nhx_open_bracket x : starts_with "[" (nhx_open ++ x) = true.
Proof. reflexivity. Qed.

(* [r] does not continue a word *)
Definition word_end (r : list ascii) : Prop :=
  match r with [] => True | c :: _ => name_char c = false end.

Lemma span_word l r :
  forallb name_char l = true -> word_end r -> span name_char (l ++ r) = (l, r).
Proof.
  induction l as [|c l IH]; simpl; intros Hl Hr.
  - destruct r as [|c r]; simpl; [reflexivity|]. simpl in Hr. rewrite Hr. reflexivity.
  - apply andb_true_iff in Hl as [Hc Hl]. rewrite Hc, (IH Hl Hr). reflexivity.
Qed.

Lemma nhx_open_word_end x : word_end (nhx_open ++ x).
Proof. reflexivity. Qed.

Lemma strip_prefix_app pre s : strip_prefix pre (pre ++ s) = Some s.
Proof.
  induction pre as [|a pre IH]; simpl; [destruct s; reflexivity|].
  rewrite Ascii.eqb_refl. exact IH.
Qed.

(* what may follow a node in the printer's output: "," ")" or ";" *)
Definition stop (r : list ascii) : Prop :=
  exists r', r = "," :: r' \/ r = ")" :: r' \/ r = ";" :: r'.

Lemma stop_word_end r : stop r -> word_end r.
Proof. intros [r' [-> | [-> | ->]]]; reflexivity. Qed.
Lemma stop_not_bracket r : stop r -> starts_with "[" r = false.
Proof. intros [r' [-> | [-> | ->]]]; reflexivity. Qed.

Lemma pr_name_ok n :
  negb (String.eqb n "") = true -> ok_word n = true ->
  pr_name n = list_ascii_of_string n /\
  exists c l, list_ascii_of_string n = c :: l /\ name_char c = true.
Proof.
  intros Hne Hok. unfold pr_name, ok_word in *.
  rewrite (sanitize_ok _ Hok).
  destruct n as [|c n]; [discriminate Hne|].
  simpl in *. split; [reflexivity|].
  apply andb_true_iff in Hok as [Hc _]. eauto.
Qed.

Lemma plabel_label n c r :
  negb (String.eqb n "") = true -> ok_word n = true ->
  match c with Some v => ok_word v | None => true end = true ->
  stop r ->
  plabel (pr_label n c ++ r) = Some (n, c, r).
Proof.
  intros Hne Hn Hc Hr.
  destruct (pr_name_ok n Hne Hn) as [En _].
  unfold plabel, pr_label. rewrite En, <- app_assoc.
  destruct c as [v|]; unfold pr_feat.
  - unfold ok_word in Hc. rewrite (sanitize_ok _ Hc), <- !app_assoc.
    rewrite (span_word (list_ascii_of_string n) (nhx_open ++ list_ascii_of_string v ++ ["]"] ++ r) Hn (nhx_open_word_end _)).
    rewrite nhx_open_bracket, strip_prefix_app.
    rewrite (span_word (list_ascii_of_string v) (["]"] ++ r) Hc) by reflexivity.
    simpl. rewrite !string_of_list_ascii_of_string. reflexivity.
  - simpl. rewrite (span_word _ r Hn (stop_word_end r Hr)).
    rewrite (stop_not_bracket r Hr), string_of_list_ascii_of_string. reflexivity.
Qed.

Lemma label_head n c r :
  negb (String.eqb n "") = true -> ok_word n = true ->
  exists c0 l, pr_label n c ++ r = c0 :: l /\ name_char c0 = true.
Proof.
  intros Hne Hn. destruct (pr_name_ok n Hne Hn) as [En (c0 & l & El & Hc0)].
  unfold pr_label. rewrite En, El. simpl. eauto.
Qed.

(** * The printer, unfolded *)
Fixpoint pr_rest (l : list tree) : list ascii :=
  match l with
  | [] => [")"]
  | x :: l' => "," :: pr x ++ pr_rest l'
  end.

Lemma pr_node n c k ks :
  pr (Node n c (k :: ks)) = "(" :: pr k ++ pr_rest ks ++ pr_label n c.
Proof.
  reflexivity.   (* the local [fix] of [pr] and [pr_rest] are the same term *)
Qed.

Lemma pr_rest_stop ks r : stop (pr_rest ks ++ r).
Proof. destruct ks; simpl; eexists; eauto. Qed.

(** * Fuel needed by [pnode] on [pr t] *)
Fixpoint need (t : tree) : nat :=
  match t with
  | Node _ _ ks =>
      S ((fix nk (l : list tree) : nat :=
            match l with [] => 0 | k :: l' => S (Nat.max (need k) (nk l')) end) ks)
  end.
Fixpoint need_kids (l : list tree) : nat :=
  match l with [] => 0 | k :: l' => S (Nat.max (need k) (need_kids l')) end.
Lemma need_node n c ks : need (Node n c ks) = S (need_kids ks).
Proof.
  reflexivity.
Qed.

(** * Main lemma *)
Definition node_ok (t : tree) : Prop :=
  ok_tree t = true ->
  forall f r, need t <= f -> stop r -> pnode f (pr t ++ r) = Some (t, r).

Lemma pkids_ok k ks :
  node_ok k -> Forall node_ok ks ->
  ok_tree k = true -> forallb ok_tree ks = true ->
  forall f r, need_kids (k :: ks) <= f ->
  pkids f (pr k ++ pr_rest ks ++ r) = Some (k :: ks, r).
Proof.
  intros Hk Hks. revert k Hk.
  induction Hks as [|x ks Hx Hks IH]; intros k Hk Ok Oks f r Hf.
  - destruct f as [|f]; [simpl in Hf; lia|]. simpl in Hf.
    simpl pkids. simpl pr_rest.
    rewrite (Hk Ok f (")" :: r)) by (try lia; eexists; eauto).
    reflexivity.
  - destruct f as [|f]; [simpl in Hf; lia|].
    change (need_kids (k :: x :: ks)) with (S (Nat.max (need k) (need_kids (x :: ks)))) in Hf.
    simpl in Oks. apply andb_true_iff in Oks as [Ox Oks].
    simpl pkids. simpl pr_rest.
    rewrite (Hk Ok f ("," :: (pr x ++ pr_rest ks) ++ r)) by (try lia; eexists; eauto).
    simpl starts_with. simpl tl. rewrite <- app_assoc.
    rewrite (IH x Hx Ox Oks f r) by lia.
    reflexivity.
Qed.

Lemma pnode_ok t : node_ok t.
Proof.
  induction t as [n c ks IH] using tree_ind'.
  intros Ok f r Hf Hr.
  simpl in Ok. apply andb_true_iff in Ok as [Ok Oks].
  apply andb_true_iff in Ok as [Ok Oc]. apply andb_true_iff in Ok as [One On].
  rewrite need_node in Hf. destruct f as [|f]; [lia|].
  destruct ks as [|k ks].
  - (* leaf *)
    simpl pr. destruct (label_head n c r One On) as (c0 & l & E & Hc0).
    simpl pnode. rewrite E.
    destruct (name_char_stop c0 Hc0) as [Hp _].
    simpl starts_with. rewrite Hp. rewrite <- E.
    rewrite (plabel_label n c r One On Oc Hr).
    apply negb_true_iff in One. rewrite One. reflexivity.
  - (* internal node *)
    rewrite pr_node. simpl in Oks. apply andb_true_iff in Oks as [Ok1 Oks].
    inversion IH as [|? ? Hk Hks]; subst.
    simpl pnode. rewrite <- !app_assoc.
    rewrite (pkids_ok k ks Hk Hks Ok1 Oks f (pr_label n c ++ r)) by lia.
    rewrite (plabel_label n c r One On Oc Hr). reflexivity.
Qed.

(** * Fuel bound *)
Lemma need_bound t : need t <= 2 * List.length (pr t) + 1.
Proof.
  induction t as [n c ks IH] using tree_ind'.
  rewrite need_node. destruct ks as [|k ks]; [simpl; lia|].
  rewrite pr_node. inversion IH as [|? ? Hk Hks]; subst.
  assert (B : need_kids ks + 2 <= 2 * List.length (pr_rest ks)).
  { clear Hk IH. induction Hks as [|x ks Hx Hks IHks]; simpl; [lia|].
    rewrite app_length. lia. }
  simpl. rewrite !app_length. lia.
Qed.

(** * Theorems *)
Theorem newick_roundtrip_chars t :
  ok_tree t = true -> parse_chars (print_chars t) = Some t.
Proof.
  intro Ok. unfold parse_chars, print_chars.
  rewrite (pnode_ok t Ok _ [";"]).
  - reflexivity.
  - pose proof (need_bound t). rewrite app_length. simpl. lia.
  - eexists; eauto.
Qed.

Theorem newick_roundtrip t :
  ok_tree t = true -> parse_tree (print_tree t) = Some t.
Proof.
  intro Ok. unfold parse_tree, print_tree.
  rewrite list_ascii_of_string_of_list_ascii. exact (newick_roundtrip_chars t Ok).
Qed.

(* distinct well-named trees have distinct Newick strings *)
Corollary print_tree_injective t1 t2 :
  ok_tree t1 = true -> ok_tree t2 = true -> print_tree t1 = print_tree t2 -> t1 = t2.
Proof.
  intros O1 O2 E. pose proof (newick_roundtrip t1 O1) as R1.
  rewrite E, (newick_roundtrip t2 O2) in R1. congruence.
Qed.

(* on well-named trees the writer's substitutions ("_" for illegal characters,
   "NoName" for an empty name) never fire: the output is the plain Newick text *)
Lemma pr_label_plain n c :
  negb (String.eqb n "") = true -> ok_word n = true ->
  match c with Some v => ok_word v | None => true end = true ->
  pr_label n c = list_ascii_of_string n ++
                 match c with
                 | Some v => nhx_open ++ list_ascii_of_string v ++ ["]"]
                 | None => []
                 end.
Proof.
  intros Hne Hn Hc. destruct (pr_name_ok n Hne Hn) as [En _].
  unfold pr_label. rewrite En. destruct c as [v|]; simpl; [|reflexivity].
  unfold ok_word in Hc. rewrite (sanitize_ok _ Hc). reflexivity.
Qed.
