(** The functions of [Gen/ThlGen.v] -- generated from [src/superrec2/compute/reconciliation.py] by
    [translator/thl_gen.py] -- instantiated at root paths, against the model [Model/Thl.v] of the
    general DTL solver (property C01).

    Instantiation.  Species are root paths ([sp := path], [sp_eqb := path_eqb]); the LCA object is a
    value of an arbitrary type whose operations are the path operations ([is_ancestor_of := anc],
    [distance := dist], [species_lca(a, b) := lcp], ..., as in [Proofs/EvalGenProofs.v]) and whose
    [tree] is [sembed S []]: the species tree [S] of the model with the path of every node as its
    identifier.  Object nodes carry identifiers of an arbitrary type with a decidable equality
    ([nid_eqb], [nid_eqb_spec]); the theorems about whole trees assume them pairwise distinct
    ([NoDup (map TreeNode_id (TreeNode_postorder O))]: distinct Python objects).  The table has the keys
    [inl node] / [inr species]; [gsem tb n s] is what [table[n][s]] reads as ([Proofs/TableGenProofs.v]);
    [inv2 rp tb]: a well-formed table with two dictionary dimensions and the policies MIN / [rp].  A tag
    [(l, r)] of the model is the tag [MappingInfo(Some l, Some r)] of the code ([tag_mi], [emap]).

    Two layers.  (1) EXACT: the generated code equals the model run with the ENUMERATION ORDERS OF THE CODE
    -- [spe_batch_o] / [dt_batch_o] (the aggregators fed in level order), [tcell] (the species of a row
    in post-order), [decode_g] (tags in the order [infos_order], a parameter), [thl_candidates_o] (root
    species in level order) -- for every retention policy: [gen_speciation_eq],
    [gen_duplication_transfer_eq] (one step: the cell afterwards is [cell_upd] of the batch, every other
    cell reads the same), [gen_compute_thl_table_eq] (every cell of the table), [gen_decode_eq],
    [gen_reconcile_thl_eq], [gen_reconcile_lca_eq].  (2) ORDERS: [Model/Thl.v] enumerates the species in
    pre-order everywhere.  [esim] / [csim]: entries / candidate lists up to the order of the candidates.
    [spe_step_model], [dt_step_model]: the batches of one step have the same candidate values and, under
    ALL, the same candidates as sets; [tcell_model]: every cell of the table has the same VALUE as the cell
    of [thl_table] (any policy) and under ALL the same tags up to a permutation ([tcell_model_tags]: the
    model keeps the tag set as a list in pre-order encounter order, the code in level-order / post-order
    encounter order); [decode_model], [gen_reconcile_thl_model]: under ALL the reconciliations returned
    are a permutation of [tags (reconcile_thl S c RALL O)].  Under ANY the kept tag depends on the order:
    layer (1) is the statement (the harness compares ANY results by membership; [Properties/C01.v]
    [C01_thl_any_order] covers the order of the root species).  Layer (2) assumes [nn (c_hgt c)] (the
    transfer cost is not -inf), as the model's own theorems do.

    No generated function can fail on these inputs: every theorem has the form [gen_f .. = Ok ..]; in
    particular [NoneValue] (a tag with a missing species), [ValueError] (unpacking the children of a
    leaf), [KeyError] / [TypeError] / [AttributeError] (the nested dictionaries) do not arise. *)
From Coq Require Import List Bool ZArith NArith Lia Permutation.
From SR Require Import Base.PathB Base.Ext Model.Entry Model.Recon Model.Thl
  Proofs.PathFacts Proofs.EntryProofs Proofs.ReconProofs Proofs.ExhProofs Proofs.ThlProofs Proofs.EntryGenProofs Proofs.EvalGenProofs
  Proofs.TableGenProofs.
From SR Require Gen.EntryGen Gen.TableGen Gen.EvalGen Gen.ThlGen.
Import ListNotations.
Local Open Scope Z_scope.
Module T := SR.Gen.ThlGen.
Module TG := SR.Gen.TableGen.
Module EV := SR.Gen.EvalGen.
Module EG := SR.Gen.EntryGen.

(* ------------------------------------------------------------------ *)
(** * Entries under an injective renaming of the tags *)
Section Emap.
  Context {X Y : Type} (eqX : X -> X -> bool) (eqY : Y -> Y -> bool) (f : X -> Y).
  Hypothesis eq_f : forall a b, eqY (f a) (f b) = eqX a b.

  Definition emap (e : entry X) : entry Y := {| val := val e; tags := map f (tags e) |}.
  Definition cmap (c : ext * option X) : ext * option Y := (fst c, option_map f (snd c)).

  Lemma mem_map t l : mem eqY (f t) (map f l) = mem eqX t l.
  Proof. induction l as [|x l IH]; cbn; [reflexivity|]. now rewrite eq_f, IH. Qed.
  Lemma add_tag_map t l : add_tag eqY (f t) (map f l) = map f (add_tag eqX t l).
  Proof. unfold add_tag. rewrite mem_map. destruct (mem eqX t l); [reflexivity|]. now rewrite map_app. Qed.

  Lemma update1_emap mp rp e c : update1 eqY mp rp (emap e) (cmap c) = emap (update1 eqX mp rp e c).
  Proof.
    destruct c as [v [t|]]; destruct e as [ev et]; unfold update1, emap, cmap; cbn [fst snd option_map val tags].
    - destruct (ext_eqb ev v); destruct rp; cbn [val tags]; rewrite ?add_tag_map;
        try (destruct et; cbn [map val tags]); destruct (better mp v _); reflexivity.
    - destruct (ext_eqb ev v); cbn [val tags]; destruct (better mp v ev); reflexivity.
  Qed.

  Lemma update_emap mp rp cs : forall e, update eqY mp rp (emap e) (map cmap cs) = emap (update eqX mp rp e cs).
  Proof.
    unfold update. induction cs as [|c cs IH]; intros e; cbn [map fold_left]; [reflexivity|].
    now rewrite update1_emap, IH.
  Qed.

  Lemma emap_default mp : emap (default_entry mp) = default_entry mp.
  Proof. reflexivity. Qed.
End Emap.

Lemma map_flat_map' {X Y Z} (f : Y -> Z) (g : X -> list Y) (l : list X) :
  map f (flat_map g l) = flat_map (fun x => map f (g x)) l.
Proof. induction l as [|x l IH]; cbn; [reflexivity|]. now rewrite map_app, IH. Qed.

(* ------------------------------------------------------------------ *)
(** * Conversions: tags, keys, trees *)
Definition tag_mi (t : tag) : T.MappingInfo path := T.mk_MappingInfo (Some (fst t)) (Some (snd t)).

Lemma mi_eqb_tag a b : T.MappingInfo_eqb path_eqb (tag_mi a) (tag_mi b) = tag_eqb a b.
Proof. unfold T.MappingInfo_eqb, tag_eqb, tag_mi. cbn. now rewrite andb_true_r. Qed.

(** the species tree of the model as the tree of nodes the generated code walks: the identifier of a node is its path *)
Fixpoint sembed (S : stree) (p : path) : T.STree path :=
  match S with
  | SLeaf => T.STree_leaf p
  | SNode l r => T.STree_node p (sembed l (p ++ [false])) (sembed r (p ++ [true]))
  end.
Definition ids (l : list (T.STree path)) : list path := map (@T.STree_id path) l.

(* ------------------------------------------------------------------ *)
(** * The step of the model for any enumeration of the species
    [spe_batch_o] / [dt_batch_o] are [spe_batch] / [dt_batch] of [Model/Thl.v] with the lists of species the aggregators
    are fed taken as arguments ([xl], [xr]: below the left / right child of the species; [xc], [xs]: below the species /
    separated from it) and the children's cell values as functions [A], [B].  The model enumerates the species in
    pre-order ([spe_batch_model], [dt_batch_model]); the code in level order (ete3's default). *)
Definition spe_batch_o (c : costs) (rp : ret) (A B : path -> ext) (s : path) (xl xr : list path) : list (ext * option tag) :=
  let fl x := Fin (c_floss c * (dist s x - 1)) in
  let ltl := agg rp xl (fun x => ext_add (A x) (fl x)) in
  let rtl := agg rp xl (fun x => ext_add (B x) (fl x)) in
  let ltr := agg rp xr (fun x => ext_add (A x) (fl x)) in
  let rtr := agg rp xr (fun x => ext_add (B x) (fl x)) in
  let k := Fin (c_spe c) in
  cands (combine tag_eqb MIN rp ltl rtr (event_comb k (val ltl) (val rtr)))
  ++ cands (combine tag_eqb MIN rp ltr rtl (event_comb k (val ltr) (val rtl))).

Definition dt_batch_o (c : costs) (rp : ret) (A B : path -> ext) (s : path) (xc xs : list path) : list (ext * option tag) :=
  let fl x := Fin (c_floss c * dist s x) in
  let ltc := agg rp xc (fun x => ext_add (A x) (fl x)) in
  let rtc := agg rp xc (fun x => ext_add (B x) (fl x)) in
  let lts := agg rp xs (fun x => A x) in
  let rts := agg rp xs (fun x => B x) in
  cands (combine tag_eqb MIN rp ltc rtc (event_comb (Fin (c_dup c)) (val ltc) (val rtc)))
  ++ cands (combine tag_eqb MIN rp lts rtc (event_comb (c_hgt c) (val lts) (val rtc)))
  ++ cands (combine tag_eqb MIN rp ltc rts (event_comb (c_hgt c) (val ltc) (val rts))).

Lemma agg_ext rp xs f g : (forall x, f x = g x) -> agg rp xs f = agg rp xs g.
Proof. intros H. unfold agg. f_equal. apply map_ext. intros x. now rewrite H. Qed.

Lemma spe_batch_o_ext c rp A B A' B' s xl xr : (forall x, A x = A' x) -> (forall x, B x = B' x) ->
  spe_batch_o c rp A B s xl xr = spe_batch_o c rp A' B' s xl xr.
Proof.
  intros HA HB. unfold spe_batch_o.
  rewrite (agg_ext rp xl (fun x => ext_add (A x) _) (fun x => ext_add (A' x) (Fin (c_floss c * (dist s x - 1))))) by (intros; now rewrite HA).
  rewrite (agg_ext rp xl (fun x => ext_add (B x) _) (fun x => ext_add (B' x) (Fin (c_floss c * (dist s x - 1))))) by (intros; now rewrite HB).
  rewrite (agg_ext rp xr (fun x => ext_add (A x) _) (fun x => ext_add (A' x) (Fin (c_floss c * (dist s x - 1))))) by (intros; now rewrite HA).
  rewrite (agg_ext rp xr (fun x => ext_add (B x) _) (fun x => ext_add (B' x) (Fin (c_floss c * (dist s x - 1))))) by (intros; now rewrite HB).
  reflexivity.
Qed.

Lemma dt_batch_o_ext c rp A B A' B' s xc xs : (forall x, A x = A' x) -> (forall x, B x = B' x) ->
  dt_batch_o c rp A B s xc xs = dt_batch_o c rp A' B' s xc xs.
Proof.
  intros HA HB. unfold dt_batch_o.
  rewrite (agg_ext rp xc (fun x => ext_add (A x) _) (fun x => ext_add (A' x) (Fin (c_floss c * dist s x)))) by (intros; now rewrite HA).
  rewrite (agg_ext rp xc (fun x => ext_add (B x) _) (fun x => ext_add (B' x) (Fin (c_floss c * dist s x)))) by (intros; now rewrite HB).
  rewrite (agg_ext rp xs (fun x => A x) (fun x => A' x)) by (intros; now rewrite HA).
  rewrite (agg_ext rp xs (fun x => B x) (fun x => B' x)) by (intros; now rewrite HB).
  reflexivity.
Qed.

Lemma spe_batch_model S c rp ta tb s :
  spe_batch S c rp ta tb s =
    spe_batch_o c rp (fun x => val (tread ta x)) (fun x => val (tread tb x)) s (under S (s ++ [false])) (under S (s ++ [true])).
Proof. reflexivity. Qed.
Lemma dt_batch_model S c rp ta tb s :
  dt_batch S c rp ta tb s =
    dt_batch_o c rp (fun x => val (tread ta x)) (fun x => val (tread tb x)) s (under S s) (separate_from S s).
Proof. reflexivity. Qed.

(* ------------------------------------------------------------------ *)
(** * The table of the solver: two dictionary dimensions, object nodes then species *)
Section Table2.
  Context {lca node_id : Type} (nid_eqb : node_id -> node_id -> bool).
  Hypothesis nid_eqb_spec : forall a b, reflect (a = b) (nid_eqb a b).
  Notation key := (@T.key path node_id).
  Notation keqb := (T.key_eqb path_eqb nid_eqb).
  Notation mi := (T.MappingInfo path).
  Notation mieqb := (T.MappingInfo_eqb path_eqb).
  Notation tstate := (TG.table_state key mi).
  Notation tree := (EV.TreeNode node_id).

  Lemma keqb_spec : forall a b : key, reflect (a = b) (keqb a b).
  Proof.
    intros [x|x] [y|y]; cbn; try (constructor; congruence).
    - destruct (nid_eqb_spec x y); constructor; congruence.
    - destruct (path_eqb_spec x y); constructor; congruence.
  Qed.

  Definition ck (n : node_id) (s : path) : list key := @cons key (inl n) (@cons key (inr s) (@nil key)).
  (** the entry [table[node][species]] reads as *)
  Definition gsem (tb : tstate) (n : node_id) (s : path) : entry mi := sem keqb tb (ck n s).

  Definition inv2 (rp : ret) (tb : tstate) : Prop :=
    twf tb /\ length (TG.table_dimensions tb) = 2%nat /\ TG.table_merge_policy tb = EG.MergePolicy_MIN /\
    TG.table_retention_policy tb = prc rp.

  Lemma inv2_same rp a b : inv2 rp a -> tsame keqb a b -> inv2 rp b.
  Proof. intros [W [D [M R]]] [A1 [A2 [A3 [A4 A5]]]]. repeat split; auto; congruence. Qed.
  Lemma gsem_same a b n s : tsame keqb a b -> gsem b n s = gsem a n s.
  Proof. intros S. unfold gsem. now apply tsame_sem. Qed.

  (** ** one read [table[k1][k2].value()] *)
  Definition rd (tb : tstate) (k1 k2 : key) : tstate := walked keqb (walked keqb tb [k1]) [k1; k2].

  Lemma rd_same rp tb k1 k2 : inv2 rp tb -> tsame keqb tb (rd tb k1 k2).
  Proof.
    intros [W [D _]]. unfold rd.
    assert (S1 : tsame keqb tb (walked keqb tb [k1])) by (apply walked_same; [apply keqb_spec|exact W|cbn; lia]).
    eapply tsame_trans; [exact S1|]. destruct S1 as [_ [_ [D1 [W1 _]]]].
    apply walked_same; [apply keqb_spec|exact W1|cbn; lia].
  Qed.

  Lemma rd_getitem rp tb k1 : inv2 rp tb ->
    T.table_res (TG.gen_table_getitem keqb tb k1) = T.Ok (tb, TG.Proxy_TableProxy (TG.mk_tproxy tb [k1])).
  Proof.
    intros [W [D _]]. rewrite (gen_table_getitem_eq keqb keqb_spec tb k1 W) by (intros E; rewrite E in D; discriminate).
    now rewrite D.
  Qed.

  Lemma rd_sub rp tb k1 k2 : inv2 rp tb ->
    T.table_res (TG.gen_Proxy_getitem keqb (TG.Proxy_TableProxy (TG.mk_tproxy tb [k1])) k2) =
      T.Ok (TG.Proxy_TableProxy (TG.mk_tproxy (walked keqb tb [k1]) [k1]),
            TG.Proxy_EntryProxy (TG.mk_eproxy (walked keqb tb [k1]) [k1; k2])).
  Proof.
    intros [W [D _]]. rewrite Proxy_getitem_table, (gen_tproxy_getitem_eq keqb keqb_spec tb [k1] k2 W) by (cbn; lia).
    cbn [length]. now rewrite D.
  Qed.

  Lemma rd_value rp tb k1 k2 : inv2 rp tb ->
    T.table_res (TG.gen_Proxy_value keqb (TG.Proxy_EntryProxy (TG.mk_eproxy (walked keqb tb [k1]) [k1; k2]))) =
      T.Ok (TG.Proxy_EntryProxy (TG.mk_eproxy (rd tb k1 k2) [k1; k2]), val (sem keqb tb [k1; k2])).
  Proof.
    intros I. pose proof I as [W [D _]].
    assert (S1 : tsame keqb tb (walked keqb tb [k1])) by (apply walked_same; [apply keqb_spec|exact W|cbn; lia]).
    pose proof S1 as [_ [_ [D1 [W1 _]]]].
    rewrite Proxy_value_entry, (gen_eproxy_value_eq keqb keqb_spec _ [k1; k2] W1) by (cbn; lia).
    now rewrite (tsame_sem keqb _ _ [k1; k2] S1).
  Qed.

  Lemma rd_infos rp tb k1 k2 : inv2 rp tb ->
    T.table_res (TG.gen_Proxy_infos keqb (TG.Proxy_EntryProxy (TG.mk_eproxy (walked keqb tb [k1]) [k1; k2]))) =
      T.Ok (TG.Proxy_EntryProxy (TG.mk_eproxy (rd tb k1 k2) [k1; k2]), tags (sem keqb tb [k1; k2])).
  Proof.
    intros I. pose proof I as [W [D _]].
    assert (S1 : tsame keqb tb (walked keqb tb [k1])) by (apply walked_same; [apply keqb_spec|exact W|cbn; lia]).
    pose proof S1 as [_ [_ [D1 [W1 _]]]].
    cbn [TG.gen_Proxy_infos]. rewrite (gen_eproxy_infos_eq keqb keqb_spec _ [k1; k2] W1) by (cbn; lia).
    now rewrite (tsame_sem keqb _ _ [k1; k2] S1).
  Qed.

  Lemma rd_is_infinite rp tb k1 k2 : inv2 rp tb ->
    T.table_res (TG.gen_Proxy_is_infinite keqb (TG.Proxy_EntryProxy (TG.mk_eproxy (walked keqb tb [k1]) [k1; k2]))) =
      T.Ok (TG.Proxy_EntryProxy (TG.mk_eproxy (rd tb k1 k2) [k1; k2]), ext_is_inf (val (sem keqb tb [k1; k2]))).
  Proof.
    intros I. pose proof I as [W [D _]].
    assert (S1 : tsame keqb tb (walked keqb tb [k1])) by (apply walked_same; [apply keqb_spec|exact W|cbn; lia]).
    pose proof S1 as [_ [_ [D1 [W1 _]]]].
    cbn [TG.gen_Proxy_is_infinite]. rewrite (gen_eproxy_is_infinite_eq keqb keqb_spec _ [k1; k2] W1) by (cbn; lia).
    now rewrite (tsame_sem keqb _ _ [k1; k2] S1).
  Qed.

  (** ** one write [table[k1][k2].update(..)] / [table[k1][k2] = candidate] *)
  Lemma wr_update rp tb k1 k2 cs : inv2 rp tb ->
    exists tb', T.table_res (TG.gen_Proxy_update keqb mieqb (TG.Proxy_EntryProxy (TG.mk_eproxy (walked keqb tb [k1]) [k1; k2])) cs) =
                  T.Ok (TG.Proxy_EntryProxy (TG.mk_eproxy tb' [k1; k2]), tt) /\
      inv2 rp tb' /\
      sem keqb tb' [k1; k2] = (if has_fin cs then update mieqb MIN rp (sem keqb tb [k1; k2]) (map ccand cs) else sem keqb tb [k1; k2]) /\
      (forall ks, length ks = 2%nat -> ks <> [k1; k2] -> sem keqb tb' ks = sem keqb tb ks).
  Proof.
    intros I. pose proof I as [W [D [M R]]].
    assert (S1 : tsame keqb tb (walked keqb tb [k1])) by (apply walked_same; [apply keqb_spec|exact W|cbn; lia]).
    pose proof S1 as [M1 [R1 [D1 [W1 _]]]].
    destruct (gen_eproxy_update_spec keqb mieqb keqb_spec (walked keqb tb [k1]) [k1] k2 cs W1 ltac:(cbn; lia))
      as [tb' [E [P1 [P2 [P3 [W' [Sk So]]]]]]].
    exists tb'. cbn [app] in *. split; [cbn [TG.gen_Proxy_update]; now rewrite E|].
    split; [repeat split; auto; congruence|]. split.
    - rewrite Sk, (tsame_sem keqb _ _ [k1; k2] S1), M1, R1, M, R. cbn [cmp]. now rewrite crp_prc.
    - intros ks L N. unfold sem. rewrite So by (auto; congruence). rewrite P1. destruct S1 as [_ [_ [_ [_ S1]]]].
      now rewrite S1.
  Qed.

  (** ** the aggregator entries of the two step functions *)
  Variable lcaobj : lca.
  Notation DIST := (fun (_ : lca) => dist).
  Notation ANC := (fun (_ : lca) => anc).
  Definition agg_state (rp : ret) (e : entry path) : EG.entry_state path := mk EG.MergePolicy_MIN (prc rp) e.

  Lemma agg_update rp e v x :
    T.entry_res (EG.gen_entry_update path_eqb (agg_state rp e) [EG.mk_Candidate v (Some x)]) =
      T.Ok (agg_state rp (update path_eqb MIN rp e [(v, Some x)]), tt).
  Proof. unfold agg_state. rewrite gen_entry_update_mk. cbn [cmp map ccand EG.Candidate_value EG.Candidate_info T.entry_res]. now rewrite crp_prc. Qed.

  Lemma parent_entry (t : tstate) ks : TG.Proxy_parent (TG.Proxy_EntryProxy (TG.mk_eproxy t ks)) = t.
  Proof. reflexivity. Qed.

  (** the candidate an aggregator receives for the species [x]: the value of the cell of the child [n], plus [k x] *)
  Definition cand_of (tb : tstate) (n : node_id) (k : path -> ext -> ext) (x : path) : ext * option path :=
    (k x (val (gsem tb n x)), Some x).
  Lemma cand_of_same a b n k l : tsame keqb a b -> map (cand_of b n k) l = map (cand_of a n k) l.
  Proof. intros S. apply map_ext. intros x. unfold cand_of. now rewrite (gsem_same a b n x S). Qed.
  Definition plus_loss (loss : Z) (s : path) (off : Z) (x : path) (v : ext) : ext := ext_add v (Fin (loss * (dist s x - off))).

  (** [_compute_thl_try_speciation]: the two loops over the species below a child of the species *)
  Lemma spe_loop1 rp (rs : T.STree path) loss (L R : tree) xs : forall tb e1 e2, inv2 rp tb ->
    exists tb',
      T.gen_compute_thl_try_speciation_for1 path_eqb nid_eqb DIST lcaobj rs loss L R xs tb (agg_state rp e1) (agg_state rp e2) =
        T.Next (tb',
                agg_state rp (update path_eqb MIN rp e1 (map (cand_of tb (EV.TreeNode_id L) (plus_loss loss (T.STree_id rs) 1)) (ids xs))),
                agg_state rp (update path_eqb MIN rp e2 (map (cand_of tb (EV.TreeNode_id R) (plus_loss loss (T.STree_id rs) 1)) (ids xs))))
      /\ tsame keqb tb tb'.
  Proof.
    induction xs as [|x xs IH]; intros tb e1 e2 I.
    - exists tb. split; [reflexivity|]. apply tsame_refl. apply I.
    - cbn [T.gen_compute_thl_try_speciation_for1].
      rewrite (rd_getitem rp tb _ I), (rd_sub rp tb _ _ I), (rd_value rp tb _ _ I), parent_entry, agg_update.
      pose proof (rd_same rp tb (inl (EV.TreeNode_id L)) (inr (T.STree_id x)) I) as S1.
      pose proof (inv2_same _ _ _ I S1) as I1. set (tb1 := rd tb (inl (EV.TreeNode_id L)) (inr (T.STree_id x))) in *. clearbody tb1.
      rewrite (rd_getitem rp tb1 _ I1), (rd_sub rp tb1 _ _ I1), (rd_value rp tb1 _ _ I1), parent_entry, agg_update.
      pose proof (rd_same rp tb1 (inl (EV.TreeNode_id R)) (inr (T.STree_id x)) I1) as S2.
      pose proof (inv2_same _ _ _ I1 S2) as I2. set (tb2 := rd tb1 (inl (EV.TreeNode_id R)) (inr (T.STree_id x))) in *. clearbody tb2.
      match goal with |- context [T.gen_compute_thl_try_speciation_for1 _ _ _ _ _ _ _ _ _ _ (agg_state rp ?a) (agg_state rp ?b)] =>
        destruct (IH tb2 a b I2) as [tb' [E S']] end.
      pose proof (tsame_trans keqb _ _ _ S1 S2) as S12.
      exists tb'. split; [|eapply tsame_trans; eauto].
      rewrite E, !(cand_of_same tb tb2 _ _ _ S12). cbn [ids map]. unfold update. cbn [fold_left].
      unfold cand_of at 2 4, plus_loss, gsem. fold (ck (EV.TreeNode_id L) (T.STree_id x)) (ck (EV.TreeNode_id R) (T.STree_id x)).
      now rewrite (tsame_sem keqb tb tb1 _ S1).
  Qed.
  Lemma spe_loop2 rp (rs : T.STree path) loss (L R : tree) xs : forall tb e1 e2, inv2 rp tb ->
    exists tb',
      T.gen_compute_thl_try_speciation_for2 path_eqb nid_eqb DIST lcaobj rs loss L R xs tb (agg_state rp e1) (agg_state rp e2) =
        T.Next (tb',
                agg_state rp (update path_eqb MIN rp e1 (map (cand_of tb (EV.TreeNode_id L) (plus_loss loss (T.STree_id rs) 1)) (ids xs))),
                agg_state rp (update path_eqb MIN rp e2 (map (cand_of tb (EV.TreeNode_id R) (plus_loss loss (T.STree_id rs) 1)) (ids xs))))
      /\ tsame keqb tb tb'.
  Proof.
    induction xs as [|x xs IH]; intros tb e1 e2 I.
    - exists tb. split; [reflexivity|]. apply tsame_refl. apply I.
    - cbn [T.gen_compute_thl_try_speciation_for2].
      rewrite (rd_getitem rp tb _ I), (rd_sub rp tb _ _ I), (rd_value rp tb _ _ I), parent_entry, agg_update.
      pose proof (rd_same rp tb (inl (EV.TreeNode_id L)) (inr (T.STree_id x)) I) as S1.
      pose proof (inv2_same _ _ _ I S1) as I1. set (tb1 := rd tb (inl (EV.TreeNode_id L)) (inr (T.STree_id x))) in *. clearbody tb1.
      rewrite (rd_getitem rp tb1 _ I1), (rd_sub rp tb1 _ _ I1), (rd_value rp tb1 _ _ I1), parent_entry, agg_update.
      pose proof (rd_same rp tb1 (inl (EV.TreeNode_id R)) (inr (T.STree_id x)) I1) as S2.
      pose proof (inv2_same _ _ _ I1 S2) as I2. set (tb2 := rd tb1 (inl (EV.TreeNode_id R)) (inr (T.STree_id x))) in *. clearbody tb2.
      match goal with |- context [T.gen_compute_thl_try_speciation_for2 _ _ _ _ _ _ _ _ _ _ (agg_state rp ?a) (agg_state rp ?b)] =>
        destruct (IH tb2 a b I2) as [tb' [E S']] end.
      pose proof (tsame_trans keqb _ _ _ S1 S2) as S12.
      exists tb'. split; [|eapply tsame_trans; eauto].
      rewrite E, !(cand_of_same tb tb2 _ _ _ S12). cbn [ids map]. unfold update. cbn [fold_left].
      unfold cand_of at 2 4, plus_loss, gsem. fold (ck (EV.TreeNode_id L) (T.STree_id x)) (ck (EV.TreeNode_id R) (T.STree_id x)).
      now rewrite (tsame_sem keqb tb tb1 _ S1).
  Qed.

  Lemma entry2_agg rp tb : inv2 rp tb ->
    T.table_res (TG.gen_table_entry2 (U := path) tb) = T.Ok (tb, agg_state rp (default_entry MIN)).
  Proof. intros [_ [_ [M R]]]. rewrite gen_table_entry2_eq. unfold agg_state. now rewrite M, R. Qed.

  (** ** [combine] with one of the three combinators, then the iteration of the combined entry *)
  Definition combinator (k : ext) : EG.Candidate path -> EG.Candidate path -> EG.Candidate mi :=
    fun l r => EG.mk_Candidate (ext_add (ext_add k (EG.Candidate_value l)) (EG.Candidate_value r))
                 (Some (T.mk_MappingInfo (EG.Candidate_info l) (EG.Candidate_info r))).

  Lemma flat_map_cmap (k v1 v2 : ext) (l1 l2 : list path) :
    flat_map (fun a => map (fun b => comb_f (combinator k) v1 v2 a b) l2) l1 =
    map (cmap tag_mi) (flat_map (fun a => map (fun b => event_comb k v1 v2 a b) l2) l1).
  Proof.
    induction l1 as [|a l1 IH]; cbn [flat_map map]; [reflexivity|]. rewrite map_app, IH. f_equal.
    rewrite map_map. apply map_ext. intros b. reflexivity.
  Qed.

  Lemma comb_eq rp k (E1 E2 : entry path) :
    T.entry_res (EG.gen_entry_combine mieqb (agg_state rp E1) (agg_state rp E2) (combinator k)) =
      T.Ok (agg_state rp E1, mk EG.MergePolicy_MIN (prc rp) (emap tag_mi (combine tag_eqb MIN rp E1 E2 (event_comb k (val E1) (val E2))))).
  Proof.
    rewrite gen_entry_combine_eq. unfold agg_state at 1 2 3 4 5 6. cbn [EG.entry__merge_policy EG.entry__retention_policy mk cmp T.entry_res].
    rewrite crp_prc, !ent_mk. unfold combine. rewrite flat_map_cmap.
    change (@default_entry mi MIN) with (emap tag_mi (@default_entry tag MIN)).
    now rewrite (update_emap tag_eqb mieqb tag_mi mi_eqb_tag).
  Qed.

  Lemma iter_eq rp (C : entry tag) :
    T.table_res (TG.gen_entry_iter (mk EG.MergePolicy_MIN (prc rp) (emap tag_mi C))) =
      T.Ok (mk EG.MergePolicy_MIN (prc rp) (emap tag_mi C), map (fun t => EG.mk_Candidate (val C) (Some (tag_mi t))) (tags C)).
  Proof. rewrite gen_entry_iter_eq. cbn. now rewrite map_map. Qed.

  Lemma ccand_cands (C : entry tag) :
    map ccand (map (fun t => EG.mk_Candidate (val C) (Some (tag_mi t))) (tags C)) = map (cmap tag_mi) (cands C).
  Proof. unfold cands. rewrite !map_map. reflexivity. Qed.

  Lemma has_fin_cmap (b : list (ext * option tag)) (cs : list (EG.Candidate mi)) :
    map ccand cs = map (cmap tag_mi) b -> has_fin cs = Thl.has_finite b.
  Proof.
    intros E. rewrite has_fin_model, E. unfold Thl.has_finite. clear E. induction b as [|x b IH]; cbn [map existsb]; [reflexivity|].
    now rewrite IH.
  Qed.

  (** the batch of candidates a cell receives, written into the cell: the model's [cell_upd] *)
  Lemma cell_write rp tb k1 k2 e0 (b : list (ext * option tag)) cs : inv2 rp tb ->
    sem keqb tb [k1; k2] = emap tag_mi e0 -> map ccand cs = map (cmap tag_mi) b ->
    exists tb', T.table_res (TG.gen_Proxy_update keqb mieqb (TG.Proxy_EntryProxy (TG.mk_eproxy (walked keqb tb [k1]) [k1; k2])) cs) =
                  T.Ok (TG.Proxy_EntryProxy (TG.mk_eproxy tb' [k1; k2]), tt) /\
      inv2 rp tb' /\ sem keqb tb' [k1; k2] = emap tag_mi (cell_upd rp e0 b) /\
      (forall ks, length ks = 2%nat -> ks <> [k1; k2] -> sem keqb tb' ks = sem keqb tb ks).
  Proof.
    intros I E0 Ec. destruct (wr_update rp tb k1 k2 cs I) as [tb' [E [I' [Sk So]]]].
    exists tb'. split; [exact E|]. split; [exact I'|]. split; [|exact So].
    rewrite Sk, (has_fin_cmap b cs Ec), E0, Ec. unfold cell_upd.
    destruct (Thl.has_finite b); [|reflexivity]. now rewrite (update_emap tag_eqb mieqb tag_mi mi_eqb_tag).
  Qed.

  Lemma agg_cand_of rp tb n loss s off xs :
    update path_eqb MIN rp (default_entry MIN) (map (cand_of tb n (plus_loss loss s off)) xs) =
      agg rp xs (fun x => ext_add (val (gsem tb n x)) (Fin (loss * (dist s x - off)))).
  Proof. reflexivity. Qed.

  Lemma ck_neq n x n' x' : (n, x) <> (n', x') -> ck n x <> ck n' x'.
  Proof. intros N E. inversion E. congruence. Qed.

  (** ** [_compute_thl_try_speciation] = the speciation batch of the model written into the cell *)
  Theorem gen_speciation_eq rp c s SL SR nid L R tb e0 : inv2 rp tb -> gsem tb nid s = emap tag_mi e0 ->
    exists tb',
      T.gen_compute_thl_try_speciation path_eqb nid_eqb DIST lcaobj (T.STree_node s SL SR) (EV.TreeNode_node nid L R) tb (stsocc c)
        = T.Ok (tb', tt) /\
      inv2 rp tb' /\
      gsem tb' nid s = emap tag_mi (cell_upd rp e0
        (spe_batch_o c rp (fun x => val (gsem tb (EV.TreeNode_id L) x)) (fun x => val (gsem tb (EV.TreeNode_id R) x)) s
                     (ids (T.STree_levelorder SL)) (ids (T.STree_levelorder SR)))) /\
      (forall n x, (n, x) <> (nid, s) -> gsem tb' n x = gsem tb n x).
  Proof.
    intros I E0. unfold T.gen_compute_thl_try_speciation. cbv beta iota zeta.
    rewrite !(entry2_agg rp tb I).
    destruct (spe_loop1 rp (T.STree_node s SL SR) (EV.CostValues_FULL_LOSS (stsocc c)) L R (T.STree_levelorder SL) tb (default_entry MIN) (default_entry MIN) I)
      as [tb1 [E1 S1]].
    rewrite E1. pose proof (inv2_same _ _ _ I S1) as I1.
    destruct (spe_loop2 rp (T.STree_node s SL SR) (EV.CostValues_FULL_LOSS (stsocc c)) L R (T.STree_levelorder SR) tb1 (default_entry MIN) (default_entry MIN) I1)
      as [tb2 [E2 S2]].
    rewrite E2. pose proof (inv2_same _ _ _ I1 S2) as I2. pose proof (tsame_trans keqb _ _ _ S1 S2) as S12.
    rewrite (rd_getitem rp tb2 _ I2), (rd_sub rp tb2 _ _ I2).
    rewrite !(cand_of_same tb tb1 _ _ _ S1), !agg_cand_of.
    repeat match goal with |- context [EG.gen_entry_combine _ _ _ ?f] =>
      progress change f with (combinator (Fin (c_spe c))) end.
    rewrite !comb_eq, !iter_eq.
    cbn [T.STree_id EV.TreeNode_id EV.CostValues_FULL_LOSS EV.CostValues_SPECIATION stsocc].
    match goal with |- context [TG.gen_Proxy_update _ _ _ (?l1 ++ ?l2)] => set (cs := l1 ++ l2) end.
    assert (E0' : sem keqb tb2 [inl nid; inr s] = emap tag_mi e0).
    { change (gsem tb2 nid s = emap tag_mi e0). now rewrite (gsem_same _ _ _ _ S12). }
    match type of cs with list _ => idtac end.
    destruct (cell_write rp tb2 (inl nid) (inr s) e0
                (spe_batch_o c rp (fun x => val (gsem tb (EV.TreeNode_id L) x)) (fun x => val (gsem tb (EV.TreeNode_id R) x)) s
                             (ids (T.STree_levelorder SL)) (ids (T.STree_levelorder SR))) cs I2 E0')
      as [tb' [E' [I' [Sk So]]]].
    { unfold cs, spe_batch_o. now rewrite !map_app, !ccand_cands. }
    rewrite E', parent_entry. exists tb'. split; [reflexivity|]. split; [exact I'|]. split; [exact Sk|].
    intros n x N. unfold gsem. rewrite So by (auto; now apply ck_neq). now apply tsame_sem.
  Qed.

  (** ** [_compute_thl_try_duplication_transfer] *)
  Definition plus_loss0 (loss : Z) (s : path) (x : path) (v : ext) : ext := ext_add v (Fin (loss * dist s x)).
  Definition same_val (x : path) (v : ext) : ext := v.
  Definition sep (s x : path) : bool := negb (anc s x) && negb (anc x s).

  Lemma dt_loop rp (rs : T.STree path) loss (L R : tree) xs : forall tb e1 e2 e3 e4, inv2 rp tb ->
    exists tb',
      T.gen_compute_thl_try_duplication_transfer_for1 path_eqb nid_eqb ANC DIST lcaobj rs loss L R xs tb
          (agg_state rp e1) (agg_state rp e2) (agg_state rp e3) (agg_state rp e4) =
        T.Next (tb',
                agg_state rp (update path_eqb MIN rp e1 (map (cand_of tb (EV.TreeNode_id L) (plus_loss0 loss (T.STree_id rs)))
                                                             (filter (anc (T.STree_id rs)) (ids xs)))),
                agg_state rp (update path_eqb MIN rp e2 (map (cand_of tb (EV.TreeNode_id L) same_val)
                                                             (filter (sep (T.STree_id rs)) (ids xs)))),
                agg_state rp (update path_eqb MIN rp e3 (map (cand_of tb (EV.TreeNode_id R) (plus_loss0 loss (T.STree_id rs)))
                                                             (filter (anc (T.STree_id rs)) (ids xs)))),
                agg_state rp (update path_eqb MIN rp e4 (map (cand_of tb (EV.TreeNode_id R) same_val)
                                                             (filter (sep (T.STree_id rs)) (ids xs)))))
      /\ tsame keqb tb tb'.
  Proof.
    induction xs as [|x xs IH]; intros tb e1 e2 e3 e4 I.
    - exists tb. split; [reflexivity|]. apply tsame_refl. apply I.
    - cbn [T.gen_compute_thl_try_duplication_transfer_for1 ids map filter].
      destruct (anc (T.STree_id rs) (T.STree_id x)) eqn:A1.
      + assert (Hs : sep (T.STree_id rs) (T.STree_id x) = false) by (unfold sep; now rewrite A1). rewrite !Hs.
        rewrite (rd_getitem rp tb _ I), (rd_sub rp tb _ _ I), (rd_value rp tb _ _ I), parent_entry, agg_update.
        pose proof (rd_same rp tb (inl (EV.TreeNode_id L)) (inr (T.STree_id x)) I) as S1.
        pose proof (inv2_same _ _ _ I S1) as I1. set (tb1 := rd tb (inl (EV.TreeNode_id L)) (inr (T.STree_id x))) in *. clearbody tb1.
        rewrite (rd_getitem rp tb1 _ I1), (rd_sub rp tb1 _ _ I1), (rd_value rp tb1 _ _ I1), parent_entry, agg_update.
        pose proof (rd_same rp tb1 (inl (EV.TreeNode_id R)) (inr (T.STree_id x)) I1) as S2.
        pose proof (inv2_same _ _ _ I1 S2) as I2. set (tb2 := rd tb1 (inl (EV.TreeNode_id R)) (inr (T.STree_id x))) in *. clearbody tb2.
        match goal with |- context [T.gen_compute_thl_try_duplication_transfer_for1 _ _ _ _ _ _ _ _ _ _ _
                                      (agg_state rp ?a) (agg_state rp ?b) (agg_state rp ?c) (agg_state rp ?d)] =>
          destruct (IH tb2 a b c d I2) as [tb' [E S']] end.
        pose proof (tsame_trans keqb _ _ _ S1 S2) as S12.
        exists tb'. split; [|eapply tsame_trans; eauto].
        rewrite E, !(cand_of_same tb tb2 _ _ _ S12). cbn [map]. unfold update. cbn [fold_left].
        unfold cand_of, plus_loss0, same_val, gsem, ck. now rewrite (tsame_sem keqb tb tb1 _ S1).
      + destruct (anc (T.STree_id x) (T.STree_id rs)) eqn:A2; cbn [negb].
        * assert (Hs : sep (T.STree_id rs) (T.STree_id x) = false) by (unfold sep; now rewrite A1, A2). rewrite !Hs.
          destruct (IH tb e1 e2 e3 e4 I) as [tb' [E S']]. exists tb'. split; [exact E|exact S'].
        * assert (Hs : sep (T.STree_id rs) (T.STree_id x) = true) by (unfold sep; now rewrite A1, A2). rewrite !Hs.
          rewrite (rd_getitem rp tb _ I), (rd_sub rp tb _ _ I), (rd_value rp tb _ _ I), parent_entry, agg_update.
          pose proof (rd_same rp tb (inl (EV.TreeNode_id L)) (inr (T.STree_id x)) I) as S1.
          pose proof (inv2_same _ _ _ I S1) as I1. set (tb1 := rd tb (inl (EV.TreeNode_id L)) (inr (T.STree_id x))) in *. clearbody tb1.
          rewrite (rd_getitem rp tb1 _ I1), (rd_sub rp tb1 _ _ I1), (rd_value rp tb1 _ _ I1), parent_entry, agg_update.
          pose proof (rd_same rp tb1 (inl (EV.TreeNode_id R)) (inr (T.STree_id x)) I1) as S2.
          pose proof (inv2_same _ _ _ I1 S2) as I2. set (tb2 := rd tb1 (inl (EV.TreeNode_id R)) (inr (T.STree_id x))) in *. clearbody tb2.
          match goal with |- context [T.gen_compute_thl_try_duplication_transfer_for1 _ _ _ _ _ _ _ _ _ _ _
                                        (agg_state rp ?a) (agg_state rp ?b) (agg_state rp ?c) (agg_state rp ?d)] =>
            destruct (IH tb2 a b c d I2) as [tb' [E S']] end.
          pose proof (tsame_trans keqb _ _ _ S1 S2) as S12.
          exists tb'. split; [|eapply tsame_trans; eauto].
          rewrite E, !(cand_of_same tb tb2 _ _ _ S12). cbn [map]. unfold update. cbn [fold_left].
          unfold cand_of, plus_loss0, same_val, gsem, ck. now rewrite (tsame_sem keqb tb tb1 _ S1).
  Qed.

  Lemma agg_cand_of0 rp tb n loss s xs :
    update path_eqb MIN rp (default_entry MIN) (map (cand_of tb n (plus_loss0 loss s)) xs) =
      agg rp xs (fun x => ext_add (val (gsem tb n x)) (Fin (loss * dist s x))).
  Proof. reflexivity. Qed.
  Lemma agg_cand_same rp tb n xs :
    update path_eqb MIN rp (default_entry MIN) (map (cand_of tb n same_val) xs) = agg rp xs (fun x => val (gsem tb n x)).
  Proof. reflexivity. Qed.

  Theorem gen_duplication_transfer_eq rp c (rs ST : T.STree path) nid L R tb e0 : inv2 rp tb ->
    gsem tb nid (T.STree_id rs) = emap tag_mi e0 ->
    exists tb',
      T.gen_compute_thl_try_duplication_transfer path_eqb nid_eqb ANC DIST (fun _ => ST) lcaobj rs (EV.TreeNode_node nid L R) tb (stsocc c)
        = T.Ok (tb', tt) /\
      inv2 rp tb' /\
      gsem tb' nid (T.STree_id rs) = emap tag_mi (cell_upd rp e0
        (dt_batch_o c rp (fun x => val (gsem tb (EV.TreeNode_id L) x)) (fun x => val (gsem tb (EV.TreeNode_id R) x)) (T.STree_id rs)
                    (filter (anc (T.STree_id rs)) (ids (T.STree_levelorder ST)))
                    (filter (sep (T.STree_id rs)) (ids (T.STree_levelorder ST))))) /\
      (forall n x, (n, x) <> (nid, T.STree_id rs) -> gsem tb' n x = gsem tb n x).
  Proof.
    intros I E0. unfold T.gen_compute_thl_try_duplication_transfer. cbv beta iota zeta.
    rewrite !(entry2_agg rp tb I).
    destruct (dt_loop rp rs (EV.CostValues_FULL_LOSS (stsocc c)) L R (T.STree_levelorder ST) tb
                (default_entry MIN) (default_entry MIN) (default_entry MIN) (default_entry MIN) I) as [tb1 [E1 S1]].
    rewrite E1. pose proof (inv2_same _ _ _ I S1) as I1.
    rewrite (rd_getitem rp tb1 _ I1), (rd_sub rp tb1 _ _ I1).
    rewrite !agg_cand_of0, !agg_cand_same.
    repeat match goal with |- context [EG.gen_entry_combine _ _ _ (fun l r => EG.mk_Candidate (ext_add (ext_add ?k _) _) _)] =>
      progress change (fun l r : EG.Candidate path => EG.mk_Candidate (ext_add (ext_add k (EG.Candidate_value l)) (EG.Candidate_value r))
                           (Some (T.mk_MappingInfo (EG.Candidate_info l) (EG.Candidate_info r)))) with (combinator k) end.
    rewrite !comb_eq, !iter_eq.
    cbn [EV.TreeNode_id EV.CostValues_FULL_LOSS EV.CostValues_DUPLICATION EV.CostValues_HORIZONTAL_TRANSFER stsocc].
    match goal with |- context [TG.gen_Proxy_update _ _ _ (?l1 ++ ?l2 ++ ?l3)] => set (cs := l1 ++ l2 ++ l3) end.
    assert (E0' : sem keqb tb1 [inl nid; inr (T.STree_id rs)] = emap tag_mi e0).
    { change (gsem tb1 nid (T.STree_id rs) = emap tag_mi e0). now rewrite (gsem_same _ _ _ _ S1). }
    destruct (cell_write rp tb1 (inl nid) (inr (T.STree_id rs)) e0
                (dt_batch_o c rp (fun x => val (gsem tb (EV.TreeNode_id L) x)) (fun x => val (gsem tb (EV.TreeNode_id R) x)) (T.STree_id rs)
                    (filter (anc (T.STree_id rs)) (ids (T.STree_levelorder ST)))
                    (filter (sep (T.STree_id rs)) (ids (T.STree_levelorder ST)))) cs I1 E0')
      as [tb' [E' [I' [Sk So]]]].
    { unfold cs, dt_batch_o. now rewrite !map_app, !ccand_cands. }
    rewrite E', parent_entry. exists tb'. split; [reflexivity|]. split; [exact I'|]. split; [exact Sk|].
    intros n x N. unfold gsem. rewrite So by (auto; now apply ck_neq). now apply tsame_sem.
  Qed.

  (* ------------------------------------------------------------------ *)
  (** * [_compute_thl_table] *)
  (** ** the table of the model for the orders of the code: what row each object node ends up with *)
  Definition sids (ST : T.STree path) : list path := ids (T.STree_levelorder ST).

  (** the cell of species node [rs] of an internal object node whose children have the cell values [A], [B] *)
  Definition cell_o (c : costs) (rp : ret) (ST : T.STree path) (A B : path -> ext) (rs : T.STree path) : entry tag :=
    let e0 := default_entry MIN in
    let e1 := match rs with
              | T.STree_leaf _ => e0
              | T.STree_node s SL SR => cell_upd rp e0 (spe_batch_o c rp A B s (sids SL) (sids SR))
              end in
    cell_upd rp e1 (dt_batch_o c rp A B (T.STree_id rs) (filter (anc (T.STree_id rs)) (sids ST)) (filter (sep (T.STree_id rs)) (sids ST))).

  (** the species node with identifier [s], if any (the first one in post-order) *)
  Fixpoint find_sp (s : path) (l : list (T.STree path)) : option (T.STree path) :=
    match l with
    | [] => None
    | x :: l' => if path_eqb (T.STree_id x) s then Some x else find_sp s l'
    end.

  Fixpoint tcell (c : costs) (rp : ret) (ST : T.STree path) (leafsp : node_id -> path) (t : tree) (s : path) : entry tag :=
    match t with
    | EV.TreeNode_leaf i => if path_eqb s (leafsp i) then {| val := Fin 0; tags := [] |} else default_entry MIN
    | EV.TreeNode_node i a b =>
        match find_sp s (T.STree_postorder ST) with
        | Some rs => cell_o c rp ST (fun x => val (tcell c rp ST leafsp a x)) (fun x => val (tcell c rp ST leafsp b x)) rs
        | None => default_entry MIN
        end
    end.

  (** ** a leaf: [table[node][species] = Candidate(0)] *)
  Lemma wr_setitem rp tb k1 k2 c : inv2 rp tb ->
    exists tb', T.table_res (TG.gen_Proxy_setitem keqb mieqb (TG.Proxy_TableProxy (TG.mk_tproxy tb [k1])) k2 c) =
                  T.Ok (TG.Proxy_TableProxy (TG.mk_tproxy tb' [k1]), tt) /\
      inv2 rp tb' /\
      sem keqb tb' [k1; k2] = (if has_fin [c] then update mieqb MIN rp (sem keqb tb [k1; k2]) [ccand c] else sem keqb tb [k1; k2]) /\
      (forall ks, length ks = 2%nat -> ks <> [k1; k2] -> sem keqb tb' ks = sem keqb tb ks).
  Proof.
    intros I. pose proof I as [W [D [M R]]].
    destruct (gen_tproxy_setitem_spec keqb mieqb keqb_spec tb [k1] k2 c W ltac:(cbn; lia)) as [tb' [E [P1 [P2 [P3 [W' [Sk So]]]]]]].
    exists tb'. cbn [app] in *. split; [cbn [TG.gen_Proxy_setitem]; now rewrite E|].
    split; [repeat split; auto; congruence|]. split.
    - rewrite Sk, M, R. cbn [cmp]. now rewrite crp_prc.
    - intros ks L N. unfold sem. rewrite So by (auto; congruence). now rewrite P1.
  Qed.

  (** ** the loop over the species, for one internal object node *)
  Variables (c : costs) (rp : ret) (ST : T.STree path) (leafsp : node_id -> path) (O : tree).
  Let rin : EV.rin_state path lca node_id := EV.mk_rin O lcaobj leafsp (stsocc c).
  Notation FOR2 := (T.gen_compute_thl_table_for2 path_eqb nid_eqb ANC DIST (fun _ => ST) rin).
  Notation FOR1 := (T.gen_compute_thl_table_for1 path_eqb nid_eqb ANC DIST (fun _ => ST) rin).

  Lemma species_loop nid L R (A B : path -> ext) xs : forall tb,
    inv2 rp tb -> NoDup (ids xs) -> nid <> EV.TreeNode_id L -> nid <> EV.TreeNode_id R ->
    (forall x, val (gsem tb (EV.TreeNode_id L) x) = A x) -> (forall x, val (gsem tb (EV.TreeNode_id R) x) = B x) ->
    (forall x, In x (ids xs) -> gsem tb nid x = default_entry MIN) ->
    exists tb', FOR2 (EV.TreeNode_node nid L R) xs tb = T.Next tb' /\ inv2 rp tb' /\
      (forall x, In x xs -> gsem tb' nid (T.STree_id x) = emap tag_mi (cell_o c rp ST A B x)) /\
      (forall n s, (n <> nid \/ ~ In s (ids xs)) -> gsem tb' n s = gsem tb n s).
  Proof.
    induction xs as [|x xs IH]; intros tb I ND N1 N2 HA HB H0.
    - exists tb. split; [reflexivity|]. split; [exact I|]. split; [intros x []|reflexivity].
    - cbn [ids map] in ND. inversion ND as [|? ? Nx ND']; subst.
      cbn [T.gen_compute_thl_table_for2]. cbv zeta.
      assert (Hx : gsem tb nid (T.STree_id x) = emap tag_mi (default_entry MIN)) by (apply H0; now left).
      (* what follows the speciation step: duplications and transfers, then the other species *)
      assert (Tail : forall tb1 e1, inv2 rp tb1 -> gsem tb1 nid (T.STree_id x) = emap tag_mi e1 ->
                (forall n s, (n, s) <> (nid, T.STree_id x) -> gsem tb1 n s = gsem tb n s) ->
                exists tb', match T.gen_compute_thl_try_duplication_transfer path_eqb nid_eqb ANC DIST (fun _ => ST)
                                    (EV.rin_species_lca rin) x (EV.TreeNode_node nid L R) tb1 (EV.rin_costs rin) with
                            | T.Err e' => T.Fail e'
                            | T.Ok (table, _) => FOR2 (EV.TreeNode_node nid L R) xs table
                            end = T.Next tb' /\ inv2 rp tb' /\
                  (forall y, In y xs -> gsem tb' nid (T.STree_id y) = emap tag_mi (cell_o c rp ST A B y)) /\
                  gsem tb' nid (T.STree_id x) = emap tag_mi (cell_upd rp e1
                     (dt_batch_o c rp A B (T.STree_id x) (filter (anc (T.STree_id x)) (sids ST)) (filter (sep (T.STree_id x)) (sids ST)))) /\
                  (forall n s, (n <> nid \/ ~ In s (ids (x :: xs))) -> gsem tb' n s = gsem tb n s)).
      { intros tb1 e1 I1 Sk1 So1.
        assert (HA1 : forall y, val (gsem tb1 (EV.TreeNode_id L) y) = A y).
        { intros y. rewrite So1; [apply HA|]. intros E; inversion E; congruence. }
        assert (HB1 : forall y, val (gsem tb1 (EV.TreeNode_id R) y) = B y).
        { intros y. rewrite So1; [apply HB|]. intros E; inversion E; congruence. }
        destruct (gen_duplication_transfer_eq rp c x ST nid L R tb1 _ I1 Sk1) as [tb2 [E2 [I2 [Sk2 So2]]]].
        unfold rin at 1 2. cbn [EV.rin_species_lca EV.rin_costs]. rewrite E2.
        assert (HA2 : forall y, val (gsem tb2 (EV.TreeNode_id L) y) = A y).
        { intros y. rewrite So2; [apply HA1|]. intros E; inversion E; congruence. }
        assert (HB2 : forall y, val (gsem tb2 (EV.TreeNode_id R) y) = B y).
        { intros y. rewrite So2; [apply HB1|]. intros E; inversion E; congruence. }
        destruct (IH tb2 I2 ND' N1 N2 HA2 HB2) as [tb' [E' [I' [Sk' So']]]].
        { intros y Hy. rewrite So2, So1; [apply H0; now right| |]; intros E; inversion E; subst; contradiction. }
        exists tb'. split; [exact E'|]. split; [exact I'|]. split; [exact Sk'|]. split.
        - rewrite So' by (right; exact Nx). rewrite Sk2. now rewrite (dt_batch_o_ext c rp _ _ A B _ _ _ HA1 HB1).
        - intros n s H. rewrite So'.
          + rewrite So2, So1; [reflexivity| |]; intros E; inversion E; subst; destruct H as [H|H]; try contradiction; apply H; now left.
          + destruct H as [H|H]; [now left|right]. intros Hs. apply H. now right. }
      destruct x as [s|s SL SR]; cbn [T.STree_is_leaf negb].
      + destruct (Tail tb (default_entry MIN) I Hx ltac:(reflexivity)) as [tb' [E' [I' [Sk' [Sx So']]]]].
        exists tb'. split; [exact E'|]. split; [exact I'|]. split; [|exact So'].
        intros y [<-|Hy]; [exact Sx|now apply Sk'].
      + destruct (gen_speciation_eq rp c s SL SR nid L R tb (default_entry MIN) I Hx) as [tb1 [E [I1 [Sk So]]]].
        unfold rin at 1 2. cbn [EV.rin_species_lca EV.rin_costs]. rewrite E.
        rewrite (spe_batch_o_ext c rp _ _ A B s _ _ HA HB) in Sk.
        destruct (Tail tb1 _ I1 Sk So) as [tb' [E' [I' [Sk' [Sx So']]]]].
        exists tb'. split; [exact E'|]. split; [exact I'|]. split; [|exact So'].
        intros y [<-|Hy]; [exact Sx|now apply Sk'].
  Qed.

  (** ** the loop over the object nodes, children first *)
  Notation oids l := (map (@EV.TreeNode_id node_id) l).

  Lemma root_in_postorder (t : tree) : In t (T.TreeNode_postorder t).
  Proof. destruct t; cbn; [now left|]. rewrite !in_app_iff. right; right. now left. Qed.
  Lemma sroot_in_postorder (t : T.STree path) : In t (T.STree_postorder t).
  Proof. destruct t; cbn; [now left|]. rewrite !in_app_iff. right; right. now left. Qed.

  Lemma NoDup_app_l {X} (l1 l2 : list X) : NoDup (l1 ++ l2) -> NoDup l1.
  Proof.
    induction l1 as [|x l1 IH]; cbn; intros H; [constructor|]. inversion H as [|? ? Hx Hl]; subst.
    constructor; [intros Hi; apply Hx; rewrite in_app_iff; now left|auto].
  Qed.
  Lemma NoDup_app_r {X} (l1 l2 : list X) : NoDup (l1 ++ l2) -> NoDup l2.
  Proof. induction l1 as [|x l1 IH]; cbn; intros H; [exact H|]. inversion H; subst. auto. Qed.
  Lemma NoDup_app_disj {X} (l1 l2 : list X) x : NoDup (l1 ++ l2) -> In x l1 -> In x l2 -> False.
  Proof.
    induction l1 as [|y l1 IH]; cbn; intros H H1 H2; [destruct H1|]. inversion H as [|? ? Hy Hl]; subst.
    destruct H1 as [->|H1]; [apply Hy; rewrite in_app_iff; now right|eauto].
  Qed.

  Lemma find_sp_in l : NoDup (ids l) -> forall x, In x l -> find_sp (T.STree_id x) l = Some x.
  Proof.
    induction l as [|y l IH]; cbn [ids map find_sp]; intros ND x H; [destruct H|]. inversion ND as [|? ? Ny ND']; subst.
    destruct H as [->|H].
    - destruct (path_eqb_spec (T.STree_id x) (T.STree_id x)); congruence.
    - destruct (path_eqb_spec (T.STree_id y) (T.STree_id x)) as [E|_]; [|now apply IH].
      exfalso. apply Ny. rewrite E. unfold ids. now apply in_map.
  Qed.
  Lemma find_sp_none l s : ~ In s (ids l) -> find_sp s l = None.
  Proof.
    induction l as [|y l IH]; cbn [ids map find_sp]; intros H; [reflexivity|].
    destruct (path_eqb_spec (T.STree_id y) s) as [E|_]; [exfalso; apply H; now left|]. apply IH. intros Hs. apply H. now right.
  Qed.

  Hypothesis species_distinct : NoDup (ids (T.STree_postorder ST)).

  Lemma object_loop (t : tree) : forall rest tb, inv2 rp tb -> NoDup (oids (T.TreeNode_postorder t)) ->
    (forall n, In n (oids (T.TreeNode_postorder t)) -> forall s, gsem tb n s = default_entry MIN) ->
    exists tb', FOR1 (T.TreeNode_postorder t ++ rest) tb = FOR1 rest tb' /\ inv2 rp tb' /\
      (forall u, In u (T.TreeNode_postorder t) -> forall s, gsem tb' (EV.TreeNode_id u) s = emap tag_mi (tcell c rp ST leafsp u s)) /\
      (forall n s, ~ In n (oids (T.TreeNode_postorder t)) -> gsem tb' n s = gsem tb n s).
  Proof.
    induction t as [i|i a IHa b IHb]; intros rest tb I ND H0.
    - (* a leaf: the cell of its species receives the candidate 0 *)
      cbn [T.TreeNode_postorder app T.gen_compute_thl_table_for1 EV.TreeNode_is_leaf]. cbv zeta.
      unfold rin at 1 2. cbn [EV.rin_leaf_object_species EV.TreeNode_id].
      rewrite (rd_getitem rp tb _ I).
      destruct (wr_setitem rp tb (inl i) (inr (leafsp i)) (EG.mk_Candidate (Fin 0) None) I) as [tb' [E [I' [Sk So]]]].
      rewrite E. exists tb'. split; [reflexivity|]. split; [exact I'|]. split.
      + intros u [<-|[]] s. cbn [EV.TreeNode_id tcell].
        destruct (path_eqb_spec s (leafsp i)) as [->|N].
        * unfold gsem, ck. rewrite Sk. cbn [has_fin existsb EG.Candidate_value ext_is_inf negb orb].
          change (sem keqb tb [inl i; inr (leafsp i)]) with (gsem tb i (leafsp i)). rewrite H0 by (now left).
          destruct rp; reflexivity.
        * unfold gsem, ck. rewrite So; [apply H0; now left|reflexivity|congruence].
      + intros n s Hn. unfold gsem, ck. apply So; [reflexivity|]. intros E'. inversion E'. apply Hn. now left.
    - (* an internal node: its subtrees, then every species in post-order *)
      cbn [T.TreeNode_postorder] in *. rewrite !map_app in ND, H0. cbn [map] in ND, H0.
      rewrite <- !app_assoc. cbn [app].
      pose proof (NoDup_app_l _ _ ND) as NDa. pose proof (NoDup_app_r _ _ ND) as NDb'.
      pose proof (NoDup_app_l _ _ NDb') as NDb.
      destruct (IHa (T.TreeNode_postorder b ++ EV.TreeNode_node i a b :: rest) tb I NDa) as [tb1 [E1 [I1 [Sa Fa]]]].
      { intros n Hn. apply H0. rewrite in_app_iff. now left. }
      rewrite E1.
      assert (Hdisj : forall n, In n (oids (T.TreeNode_postorder a)) -> In n (oids (T.TreeNode_postorder b)) -> False).
      { intros n H1 H2. eapply (NoDup_app_disj _ _ n ND H1). rewrite in_app_iff. now left. }
      destruct (IHb (EV.TreeNode_node i a b :: rest) tb1 I1 NDb) as [tb2 [E2 [I2 [Sb Fb]]]].
      { intros n Hn s. rewrite Fa; [apply H0; rewrite !in_app_iff; right; now left|]. intros Ha. exact (Hdisj n Ha Hn). }
      rewrite E2. cbn [T.gen_compute_thl_table_for1 EV.TreeNode_is_leaf].
      assert (Ni_a : ~ In i (oids (T.TreeNode_postorder a))).
      { intros H. eapply (NoDup_app_disj _ _ i ND H). rewrite in_app_iff. right. now left. }
      assert (Ni_b : ~ In i (oids (T.TreeNode_postorder b))).
      { intros H. eapply (NoDup_app_disj _ _ i NDb' H). now left. }
      assert (Ia : In (EV.TreeNode_id a) (oids (T.TreeNode_postorder a))) by (apply in_map, root_in_postorder).
      assert (Ib : In (EV.TreeNode_id b) (oids (T.TreeNode_postorder b))) by (apply in_map, root_in_postorder).
      destruct (species_loop i a b (fun x => val (tcell c rp ST leafsp a x)) (fun x => val (tcell c rp ST leafsp b x))
                  (T.STree_postorder ST) tb2 I2 species_distinct) as [tb3 [E3 [I3 [Sk3 So3]]]].
      { intros E. apply Ni_a. now rewrite E. }
      { intros E. apply Ni_b. now rewrite E. }
      { intros x. rewrite Fb by (intros H; exact (Hdisj _ Ia H)). now rewrite (Sa a (root_in_postorder a)). }
      { intros x. now rewrite (Sb b (root_in_postorder b)). }
      { intros x _. rewrite Fb, Fa by assumption. apply H0. rewrite !in_app_iff. right; right. now left. }
      unfold rin at 1. cbn [EV.rin_species_lca]. fold rin. rewrite E3.
      exists tb3. split; [reflexivity|]. split; [exact I3|]. split.
      + intros u Hu s. rewrite !in_app_iff in Hu. destruct Hu as [Hu|[Hu|[<-|[]]]].
        * rewrite So3 by (left; intros E; apply Ni_a; rewrite <- E; now apply in_map).
          rewrite Fb by (intros H; eapply Hdisj; [apply in_map; exact Hu|exact H]). now apply Sa.
        * rewrite So3 by (left; intros E; apply Ni_b; rewrite <- E; now apply in_map). now apply Sb.
        * cbn [EV.TreeNode_id tcell].
          destruct (in_dec (list_eq_dec Bool.bool_dec) s (ids (T.STree_postorder ST))) as [Hs|Hs].
          -- unfold ids in Hs. apply in_map_iff in Hs as [x [<- Hx]].
             rewrite (find_sp_in _ species_distinct x Hx). now apply Sk3.
          -- rewrite (find_sp_none _ _ Hs). rewrite So3 by (now right). rewrite Fb, Fa by assumption.
             apply H0. rewrite !in_app_iff. right; right. now left.
      + intros n s Hn. rewrite !map_app, !in_app_iff in Hn. cbn [In map EV.TreeNode_id] in Hn.
        rewrite So3 by (left; intros ->; apply Hn; right; right; now left).
        rewrite Fb, Fa; [reflexivity| |]; intros H; apply Hn; tauto.
  Qed.

  (** ** the whole table *)
  Theorem gen_compute_thl_table_eq : NoDup (oids (T.TreeNode_postorder O)) ->
    exists tb, T.gen_compute_thl_table path_eqb nid_eqb ANC DIST (fun _ => ST) rin (prc rp) = T.Ok tb /\ inv2 rp tb /\
      (forall u, In u (T.TreeNode_postorder O) -> forall s, gsem tb (EV.TreeNode_id u) s = emap tag_mi (tcell c rp ST leafsp u s)) /\
      (forall n s, ~ In n (oids (T.TreeNode_postorder O)) -> gsem tb n s = default_entry MIN).
  Proof.
    intros ND. unfold T.gen_compute_thl_table.
    destruct (gen_table_init_eq (K := key) (A := mi) keqb [TG.mk_DictDimension; TG.mk_DictDimension] EG.MergePolicy_MIN (prc rp))
      as [t0 [E0 [M0 [R0 [D0 [W0 L0]]]]]].
    rewrite E0. cbn [T.table_res]. cbv zeta.
    assert (I0 : inv2 rp t0) by (repeat split; auto; now rewrite D0).
    assert (G0 : forall n s, gsem t0 n s = default_entry MIN).
    { intros n s. unfold gsem, sem. now rewrite L0, M0. }
    destruct (object_loop O [] t0 I0 ND (fun n _ s => G0 n s)) as [tb [E [I [S F]]]].
    unfold rin at 2. cbn [EV.rin_object_tree]. rewrite app_nil_r in E. rewrite E. cbn [T.gen_compute_thl_table_for1].
    exists tb. split; [reflexivity|]. split; [exact I|]. split; [exact S|]. intros n s Hn. now rewrite F.
  Qed.

  (* ------------------------------------------------------------------ *)
  (** * [_decode_thl_table] *)
  Notation dict := (list (node_id * path)).
  Notation tout := (T.tout_state path lca node_id).
  Variable ord : list mi -> list mi.
  Hypothesis ord_incl : forall l m, In m (ord l) -> In m l.

  (** the dictionaries the generator yields, for the table read as [G]: a leaf yields its own assignment when its cell is
      finite; an internal node, for every tag of its cell (in the order [ord] of the set) every pair of dictionaries of the
      two subtrees, merged after its own assignment (the list of the stores, newest first) *)
  Fixpoint decode_g (G : node_id -> path -> entry mi) (t : tree) (s : path) : list dict :=
    match t with
    | EV.TreeNode_leaf i => if ext_is_inf (val (G i s)) then [] else [[(i, s)]]
    | EV.TreeNode_node i a b =>
        flat_map (fun m => match T.MappingInfo_left m, T.MappingInfo_right m with
                           | Some l, Some r =>
                               flat_map (fun dl => map (fun dr => dr ++ dl ++ [(i, s)]) (decode_g G b r)) (decode_g G a l)
                           | _, _ => []
                           end) (ord (tags (G i s)))
    end.

  Lemma decode_g_ext G G' t : (forall n x, G n x = G' n x) -> forall s, decode_g G t s = decode_g G' t s.
  Proof.
    intros E. induction t as [i|i a IHa b IHb]; intros s; cbn [decode_g]; rewrite E; [reflexivity|].
    apply flat_map_ext. intros m. destruct (T.MappingInfo_left m), (T.MappingInfo_right m); try reflexivity.
    rewrite IHa. apply flat_map_ext. intros dl. now rewrite IHb.
  Qed.

  Lemma decode_for2 root s (l : list (tout * tout)) : forall acc,
    T.gen_decode_thl_table_for2 (lca := lca) root s rin l acc =
      T.Next (acc ++ map (fun p => T.mk_tout rin (T.tout_object_species (snd p) ++ T.tout_object_species (fst p)
                                                   ++ [(EV.TreeNode_id root, s)])) l).
  Proof.
    induction l as [|[ml mr] l IH]; intros acc; cbn [T.gen_decode_thl_table_for2 map]; [now rewrite app_nil_r|].
    rewrite IH, <- app_assoc. reflexivity.
  Qed.

  Lemma map_list_prod {X Y Z} (g : X -> Y) (f : Y * Y -> Z) (A B : list X) :
    map f (list_prod (map g A) (map g B)) = flat_map (fun a => map (fun b => f (g a, g b)) B) A.
  Proof.
    induction A as [|a A IH]; cbn [map list_prod flat_map]; [reflexivity|].
    rewrite map_app, IH, !map_map. reflexivity.
  Qed.


  Definition tags_ok (tb : tstate) (t : tree) : Prop :=
    forall u, In u (T.TreeNode_postorder t) -> forall x m, In m (tags (gsem tb (EV.TreeNode_id u) x)) -> exists lr, m = tag_mi lr.

  Lemma tags_ok_same tb tb' t : tsame keqb tb tb' -> tags_ok tb t -> tags_ok tb' t.
  Proof. intros S H u Hu x m Hm. rewrite (gsem_same tb tb' _ _ S) in Hm. eauto. Qed.

  Theorem gen_decode_eq (t : tree) : forall s tb, inv2 rp tb -> tags_ok tb t ->
    exists tb', T.gen_decode_thl_table path_eqb nid_eqb ord t s rin tb = T.Ok (tb', map (T.mk_tout rin) (decode_g (gsem tb) t s))
                /\ tsame keqb tb tb'.
  Proof.
    induction t as [i|i a IHa b IHb]; intros s tb I Ht.
    - cbn [T.gen_decode_thl_table EV.TreeNode_is_leaf EV.TreeNode_id]. cbv zeta.
      rewrite (rd_getitem rp tb _ I), (rd_sub rp tb _ _ I), (rd_is_infinite rp tb _ _ I), parent_entry.
      exists (rd tb (inl i) (inr s)). split; [|now apply (rd_same rp)].
      cbn [decode_g]. fold (ck i s). fold (gsem tb i s). destruct (ext_is_inf (val (gsem tb i s))); reflexivity.
    - cbn [T.gen_decode_thl_table EV.TreeNode_is_leaf EV.TreeNode_id]. cbv zeta.
      rewrite (rd_getitem rp tb _ I), (rd_sub rp tb _ _ I), (rd_infos rp tb _ _ I), parent_entry.
      pose proof (rd_same rp tb (inl i) (inr s) I) as S0. set (tb0 := rd tb (inl i) (inr s)) in *. clearbody tb0.
      fold (ck i s). fold (gsem tb i s).
      match goal with |- context [match ?f ?l ?t ?a with T.Next _ => _ | T.Ret _ => _ | T.Fail _ => _ end] => set (F := f) end.
      assert (Hta : tags_ok tb a).
      { intros u Hu. apply Ht. cbn [T.TreeNode_postorder]. rewrite !in_app_iff. now left. }
      assert (Htb : tags_ok tb b).
      { intros u Hu. apply Ht. cbn [T.TreeNode_postorder]. rewrite !in_app_iff. right. now left. }
      assert (HF : forall l, (forall m, In m l -> exists lr, m = tag_mi lr) -> forall tbx acc, tsame keqb tb tbx ->
                exists tb', F l tbx acc = T.Next (tb', acc ++ map (T.mk_tout rin)
                     (flat_map (fun m => match T.MappingInfo_left m, T.MappingInfo_right m with
                                         | Some l, Some r =>
                                             flat_map (fun dl => map (fun dr => dr ++ dl ++ [(i, s)]) (decode_g (gsem tb) b r))
                                                      (decode_g (gsem tb) a l)
                                         | _, _ => []
                                         end) l)) /\ tsame keqb tb tb').
      { induction l as [|m l IHl]; intros Hl tbx acc Sx.
        - exists tbx. split; [cbn; now rewrite app_nil_r|exact Sx].
        - destruct (Hl m (or_introl eq_refl)) as [[l0 r0] ->].
          unfold F. cbn [tag_mi T.MappingInfo_left T.MappingInfo_right fst snd flat_map]. fold F.
          pose proof (inv2_same _ _ _ I Sx) as Ix.
          destruct (IHa l0 tbx Ix (tags_ok_same _ _ _ Sx Hta)) as [tb1 [E1 S1]]. rewrite E1.
          pose proof (tsame_trans keqb _ _ _ Sx S1) as Sx1. pose proof (inv2_same _ _ _ I Sx1) as I1.
          destruct (IHb r0 tb1 I1 (tags_ok_same _ _ _ Sx1 Htb)) as [tb2 [E2 S2]]. rewrite E2.
          pose proof (tsame_trans keqb _ _ _ Sx1 S2) as Sx2.
          rewrite decode_for2.
          destruct (IHl (fun m' Hm' => Hl m' (or_intror Hm')) tb2
                      (acc ++ map (fun p => T.mk_tout rin (T.tout_object_species (snd p) ++ T.tout_object_species (fst p)
                                                           ++ [(EV.TreeNode_id (EV.TreeNode_node i a b), s)]))
                                  (list_prod (map (T.mk_tout rin) (decode_g (gsem tbx) a l0))
                                             (map (T.mk_tout rin) (decode_g (gsem tb1) b r0)))) Sx2) as [tb' [E' S']].
          exists tb'. split; [|exact S']. rewrite E'. f_equal. f_equal. rewrite <- app_assoc. f_equal.
          rewrite map_app. f_equal.
          rewrite (map_list_prod (T.mk_tout rin)). cbn [T.tout_object_species fst snd EV.TreeNode_id].
          rewrite (decode_g_ext (gsem tbx) (gsem tb) a (fun n x => gsem_same tb tbx n x Sx)).
          rewrite (decode_g_ext (gsem tb1) (gsem tb) b (fun n x => gsem_same tb tb1 n x Sx1)).
          rewrite map_flat_map'. apply flat_map_ext. intros dl. now rewrite map_map. }
      destruct (HF (ord (tags (gsem tb i s)))
                  (fun m Hm => Ht _ (root_in_postorder (EV.TreeNode_node i a b)) s m (ord_incl _ _ Hm)) tb0 [] S0) as [tb' [E' S']].
      rewrite E'. exists tb'. split; [reflexivity|exact S'].
  Qed.

  (* ------------------------------------------------------------------ *)
  (** * [reconcile_thl] *)
  Variables (oeqb : tout -> tout -> bool) (missing : node_id -> path) (syn : node_id -> list fam).
  Notation SANC := (fun (_ : lca) => sanc).
  Notation COMP := (fun (_ : lca) => comparable).
  Notation LCP := (fun (_ : lca) => lcp).
  Notation OCOST := (T.gen_output_cost path_eqb nid_eqb ANC SANC COMP LCP DIST missing).

  (** the reconciliation a dictionary denotes (a key that is absent reads as [missing]) and its cost: the evaluator model *)
  Definition rt_of (d : dict) : rtree := rtree_of (T.dict_fun nid_eqb missing d) O.
  Definition cost_of (d : dict) : ext := cost c (otree_of leafsp syn O) (rt_of d).

  Lemma output_cost_eq d : OCOST (T.mk_tout rin d) = T.Ok (T.mk_tout rin d, cost_of d).
  Proof.
    unfold T.gen_output_cost. cbn [T.tout_input T.tout_object_species].
    change (EV.gen_cost path_eqb ANC SANC COMP LCP DIST ?o) with (cost_p (lca := lca) o).
    rewrite (gen_cost_eq _ syn). unfold rin, cost_of, rt_of.
    cbn [T.eval_res EV.rout_input EV.rout_object_species EV.rin_costs EV.rin_leaf_object_species EV.rin_object_tree].
    now rewrite ccosts_stsocc.
  Qed.

  Definition cand_out (d : dict) : EG.Candidate tout := EG.mk_Candidate (cost_of d) (Some (T.mk_tout rin d)).

  Lemma map_costs (ds : list dict) :
    (fix map'2 (it' : list tout) {struct it'} : T.res (list (EG.Candidate tout)) :=
       match it' with
       | [] => T.Ok []
       | output :: it'' =>
           match OCOST output with
           | T.Err e' => T.Err e'
           | T.Ok (_, t'4) => match map'2 it'' with T.Err e' => T.Err e' | T.Ok r' => T.Ok (EG.mk_Candidate t'4 (Some output) :: r') end
           end
       end) (map (T.mk_tout rin) ds) = T.Ok (map cand_out ds).
  Proof. induction ds as [|d ds IH]; cbn [map]; [reflexivity|]. now rewrite output_cost_eq, IH. Qed.

  Definition res_state (e : entry tout) : EG.entry_state tout := mk EG.MergePolicy_MIN (prc rp) e.

  Lemma reconcile_loop xs : forall tb e, inv2 rp tb -> tags_ok tb O ->
    exists tb', T.gen_reconcile_thl_for1 path_eqb nid_eqb ANC SANC COMP LCP DIST oeqb missing ord rin O xs tb (res_state e) =
                  T.Next (tb', res_state (update oeqb MIN rp e
                                 (flat_map (fun x => map (fun d => ccand (cand_out d)) (decode_g (gsem tb) O (T.STree_id x))) xs)))
                /\ tsame keqb tb tb'.
  Proof.
    induction xs as [|x xs IH]; intros tb e I Ht.
    - exists tb. split; [reflexivity|apply tsame_refl; apply I].
    - cbn [T.gen_reconcile_thl_for1].
      destruct (gen_decode_eq O (T.STree_id x) tb I Ht) as [tb1 [E1 S1]]. rewrite E1.
      rewrite map_costs. unfold res_state at 1. rewrite gen_entry_update_mk. cbn [T.entry_res cmp]. rewrite crp_prc.
      pose proof (inv2_same _ _ _ I S1) as I1.
      destruct (IH tb1 (update oeqb MIN rp e (map ccand (map cand_out (decode_g (gsem tb) O (T.STree_id x))))) I1
                  (tags_ok_same _ _ _ S1 Ht)) as [tb' [E' S']].
      fold (res_state (update oeqb MIN rp e (map ccand (map cand_out (decode_g (gsem tb) O (T.STree_id x)))))).
      rewrite E'. exists tb'. split; [|eapply tsame_trans; eauto].
      f_equal. f_equal. f_equal. cbn [flat_map]. rewrite <- (update_app oeqb), map_map. f_equal.
      apply flat_map_ext. intros y. now rewrite (decode_g_ext (gsem tb1) (gsem tb) O (fun n z => gsem_same tb tb1 n z S1)).
  Qed.

  (** the candidates the result entry receives: for every species (level order), every dictionary decoded from the root *)
  Definition thl_candidates_o (G : node_id -> path -> entry mi) : list (ext * option tout) :=
    flat_map (fun x => map (fun d => ccand (cand_out d)) (decode_g G O (T.STree_id x))) (T.STree_levelorder ST).

  Theorem gen_reconcile_thl_eq : NoDup (oids (T.TreeNode_postorder O)) ->
    exists tb, T.gen_compute_thl_table path_eqb nid_eqb ANC DIST (fun _ => ST) rin (prc rp) = T.Ok tb /\
      (forall u, In u (T.TreeNode_postorder O) -> forall s, gsem tb (EV.TreeNode_id u) s = emap tag_mi (tcell c rp ST leafsp u s)) /\
      T.gen_reconcile_thl path_eqb nid_eqb ANC SANC COMP LCP DIST (fun _ => ST) oeqb missing ord rin (prc rp) =
        T.Ok (tags (update oeqb MIN rp (default_entry MIN) (thl_candidates_o (gsem tb)))).
  Proof.
    intros ND. destruct (gen_compute_thl_table_eq ND) as [tb [E [I [Sk So]]]]. exists tb. split; [exact E|]. split; [exact Sk|].
    unfold T.gen_reconcile_thl. rewrite E. cbv zeta. rewrite gen_entry_default_eq. cbn [T.entry_res].
    assert (Ht : tags_ok tb O).
    { intros u Hu x m Hm. rewrite (Sk u Hu x) in Hm. cbn [emap tags] in Hm. apply in_map_iff in Hm as [lr [<- _]]. eauto. }
    change (EV.rin_object_tree rin) with O. change (EV.rin_species_lca rin) with lcaobj. cbv beta.
    destruct (reconcile_loop (T.STree_levelorder ST) tb (default_entry MIN) I Ht) as [tb' [E' _]].
    unfold res_state in E' at 1. cbn [cmp]. rewrite E'. unfold res_state. rewrite gen_entry_infos_eq. cbn [T.entry_res].
    now rewrite ent_mk.
  Qed.

End Table2.


(* ------------------------------------------------------------------ *)
(** * Enumeration orders: entries up to the order of the candidates
    The code enumerates the species in level order (aggregators) and post-order (cells), the model in pre-order.  The
    value of an entry only depends on the set of the values it was offered; under ALL its tag set only depends on the set
    of the candidates.  [esim rp e e']: same value, tags empty together, and under ALL the same tags as sets. *)
Section Sim.
  Context {X : Type} (eqb : X -> X -> bool).
  Hypothesis eqb_spec : forall x y, reflect (x = y) (eqb x y).

  Definition sameset {Y} (l l' : list Y) : Prop := forall x, In x l <-> In x l'.
  Definition tagged (cs : list (ext * option X)) : Prop := forall v o, In (v, o) cs -> exists t, o = Some t.
  Definition vsame (cs cs' : list (ext * option X)) : Prop := forall v, (exists o, In (v, o) cs) <-> (exists o, In (v, o) cs').
  Definition csim (rp : ret) (cs cs' : list (ext * option X)) : Prop :=
    tagged cs /\ tagged cs' /\ vsame cs cs' /\ (rp = RALL -> sameset cs cs').
  Definition esim (rp : ret) (e e' : entry X) : Prop :=
    val e = val e' /\ (tags e = [] <-> tags e' = []) /\ (rp = RALL -> sameset (tags e) (tags e')).

  Notation upd rp cs := (update eqb MIN rp (default_entry MIN) cs).

  Lemma upd_val_vsame rp cs cs' : vsame cs cs' -> val (upd rp cs) = val (upd rp cs').
  Proof.
    intros V. apply (nw_antisym MIN).
    - destruct (entry_value eqb MIN rp cs' (default_entry MIN)) as [[E|I] _].
      + rewrite <- E. apply (proj2 (entry_value eqb MIN rp cs (default_entry MIN))). now left.
      + apply in_map_iff in I as [[w o] [E I]]. cbn in E. rewrite <- E.
        destruct (proj2 (V w) (ex_intro _ o I)) as [o' I']. eapply val_nw_seen; eauto.
    - destruct (entry_value eqb MIN rp cs (default_entry MIN)) as [[E|I] _].
      + rewrite <- E. apply (proj2 (entry_value eqb MIN rp cs' (default_entry MIN))). now left.
      + apply in_map_iff in I as [[w o] [E I]]. cbn in E. rewrite <- E.
        destruct (proj1 (V w) (ex_intro _ o I)) as [o' I']. eapply val_nw_seen; eauto.
  Qed.

  (* without NONE: no tag iff no candidate attains the value (every candidate being tagged) *)
  Lemma upd_tags_empty rp cs : rp <> RNONE -> tagged cs ->
    (tags (upd rp cs) = [] <-> ~ exists o, In (val (upd rp cs), o) cs).
  Proof.
    intros N Tg. destruct rp; [congruence| |].
    - destruct (entry_tags_any eqb MIN cs) as [[E No]|[u [E Hu]]]; cbn in *.
      + split; [|auto]. intros _ [o I]. destruct (Tg _ _ I) as [t ->]. eapply No; eauto.
      + rewrite E. split; [discriminate|]. intros H. exfalso. apply H. eauto.
    - split.
      + intros E [o I]. destruct (Tg _ _ I) as [t ->].
        apply (entry_tags_all eqb eqb_spec MIN cs t) in I. cbn in I. rewrite E in I. destruct I.
      + intros H. destruct (tags (upd RALL cs)) as [|t l] eqn:E; [reflexivity|]. exfalso. apply H. exists (Some t).
        apply (entry_tags_all eqb eqb_spec MIN cs t). cbn. rewrite E. now left.
  Qed.

  Lemma upd_sim rp cs cs' : csim rp cs cs' -> esim rp (upd rp cs) (upd rp cs').
  Proof.
    intros [Tg [Tg' [V S]]]. pose proof (upd_val_vsame rp cs cs' V) as Ev. split; [exact Ev|]. split.
    - destruct rp.
      + rewrite !(entry_tags_none eqb MIN). tauto.
      + rewrite (upd_tags_empty RANY cs ltac:(discriminate) Tg), (upd_tags_empty RANY cs' ltac:(discriminate) Tg'), <- Ev.
        now rewrite (V (val (upd RANY cs))).
      + rewrite (upd_tags_empty RALL cs ltac:(discriminate) Tg), (upd_tags_empty RALL cs' ltac:(discriminate) Tg'), <- Ev.
        now rewrite (V (val (upd RALL cs))).
    - intros ->. intros t. rewrite (entry_tags_all eqb eqb_spec MIN cs t), (entry_tags_all eqb eqb_spec MIN cs' t).
      cbn. rewrite <- Ev. apply (S eq_refl).
  Qed.

  Lemma csim_app rp a a' b b' : csim rp a a' -> csim rp b b' -> csim rp (a ++ b) (a' ++ b').
  Proof.
    intros [T1 [T1' [V1 S1]]] [T2 [T2' [V2 S2]]]. repeat split.
    - intros v o I. apply in_app_or in I as [I|I]; eauto.
    - intros v o I. apply in_app_or in I as [I|I]; eauto.
    - intros [o I]. apply in_app_or in I as [I|I].
      + destruct (proj1 (V1 v) (ex_intro _ o I)) as [o' I']. exists o'. apply in_or_app. now left.
      + destruct (proj1 (V2 v) (ex_intro _ o I)) as [o' I']. exists o'. apply in_or_app. now right.
    - intros [o I]. apply in_app_or in I as [I|I].
      + destruct (proj2 (V1 v) (ex_intro _ o I)) as [o' I']. exists o'. apply in_or_app. now left.
      + destruct (proj2 (V2 v) (ex_intro _ o I)) as [o' I']. exists o'. apply in_or_app. now right.
    - intros I. apply in_app_or in I as [I|I]; apply in_or_app; [left; now apply (S1 H)|right; now apply (S2 H)].
    - intros I. apply in_app_or in I as [I|I]; apply in_or_app; [left; now apply (S1 H)|right; now apply (S2 H)].
  Qed.

  Lemma csim_nil rp : csim rp [] [].
  Proof. repeat split; try (intros ? ? []); try (intros [? []]); try (intros []). Qed.

  Lemma has_finite_vsame cs cs' : vsame cs cs' -> Thl.has_finite cs = Thl.has_finite cs'.
  Proof.
    intros V. unfold Thl.has_finite. apply Bool.eq_iff_eq_true. rewrite !existsb_exists. split.
    - intros [[v o] [I F]]. destruct (proj1 (V v) (ex_intro _ o I)) as [o' I']. exists (v, o'). auto.
    - intros [[v o] [I F]]. destruct (proj2 (V v) (ex_intro _ o I)) as [o' I']. exists (v, o'). auto.
  Qed.

  (** one candidate per tag of an entry *)
  Lemma cands_sim rp (e e' : entry X) : esim rp e e' -> csim rp (cands e) (cands e').
  Proof.
    intros [Ev [Ee Es]]. unfold cands. repeat split.
    - intros v o I. apply in_map_iff in I as [t [E _]]. inversion E. eauto.
    - intros v o I. apply in_map_iff in I as [t [E _]]. inversion E. eauto.
    - intros [o I]. apply in_map_iff in I as [t [E I]]. inversion E; subst.
      destruct (tags e') as [|t' l'] eqn:E'; [rewrite (proj2 Ee eq_refl) in I; destruct I|].
      exists (Some t'). apply in_map_iff. exists t'. split; [now rewrite Ev|now left].
    - intros [o I]. apply in_map_iff in I as [t [E I]]. inversion E; subst.
      destruct (tags e) as [|t' l'] eqn:E'; [rewrite (proj1 Ee eq_refl) in I; destruct I|].
      exists (Some t'). apply in_map_iff. exists t'. split; [now rewrite Ev|now left].
    - intros I. apply in_map_iff in I as [t [<- I]]. apply in_map_iff. exists t. split; [now rewrite Ev|now apply (Es H)].
    - intros I. apply in_map_iff in I as [t [<- I]]. apply in_map_iff. exists t. split; [now rewrite Ev|now apply (Es H)].
  Qed.
End Sim.

(** ** the aggregators, the combinations and the cells of the solver up to the order of the species *)
Lemma path_eqb_spec' : forall x y : path, reflect (x = y) (path_eqb x y).
Proof. exact path_eqb_spec. Qed.

Lemma agg_sim rp xs xs' f g : sameset xs xs' -> (forall x, In x xs -> f x = g x) -> esim rp (agg rp xs f) (agg rp xs' g).
Proof.
  intros S E. unfold agg. apply (upd_sim path_eqb path_eqb_spec'). repeat split.
  - intros v o I. apply in_map_iff in I as [x [H _]]. inversion H. eauto.
  - intros v o I. apply in_map_iff in I as [x [H _]]. inversion H. eauto.
  - intros [o I]. apply in_map_iff in I as [x [H I]]. inversion H; subst. exists (Some x). apply in_map_iff. exists x.
    split; [now rewrite E|now apply S].
  - intros [o I]. apply in_map_iff in I as [x [H I]]. inversion H; subst. exists (Some x). apply in_map_iff. exists x.
    apply S in I. split; [now rewrite E|exact I].
  - intros I. apply in_map_iff in I as [y [<- I]]. apply in_map_iff. exists y. split; [now rewrite E|now apply S].
  - intros I. apply in_map_iff in I as [y [<- I]]. apply in_map_iff. exists y. apply S in I. split; [now rewrite E|exact I].
Qed.

Lemma comb_sim rp k (E1 E2 E1' E2' : entry path) : esim rp E1 E1' -> esim rp E2 E2' ->
  esim rp (combine tag_eqb MIN rp E1 E2 (event_comb k (val E1) (val E2)))
          (combine tag_eqb MIN rp E1' E2' (event_comb k (val E1') (val E2'))).
Proof.
  intros [V1 [N1 S1]] [V2 [N2 S2]]. unfold combine. apply (upd_sim tag_eqb tag_eqb_spec). rewrite <- V1, <- V2.
  fold (pairs E1 E2 (event_comb k (val E1) (val E2))) (pairs E1' E2' (event_comb k (val E1) (val E2))).
  repeat split.
  - intros v o I. apply In_pairs in I as [a [b [_ [_ E]]]]. inversion E. eauto.
  - intros v o I. apply In_pairs in I as [a [b [_ [_ E]]]]. inversion E. eauto.
  - intros [o I]. apply In_pairs in I as [a [b [Ia [Ib E]]]]. inversion E; subst.
    destruct (tags E1') as [|a' l1] eqn:T1; [rewrite (proj2 N1 eq_refl) in Ia; destruct Ia|].
    destruct (tags E2') as [|b' l2] eqn:T2; [rewrite (proj2 N2 eq_refl) in Ib; destruct Ib|].
    exists (Some (a', b')). apply In_pairs. exists a', b'. rewrite T1, T2. repeat split; now left.
  - intros [o I]. apply In_pairs in I as [a [b [Ia [Ib E]]]]. inversion E; subst.
    destruct (tags E1) as [|a' l1] eqn:T1; [rewrite (proj1 N1 eq_refl) in Ia; destruct Ia|].
    destruct (tags E2) as [|b' l2] eqn:T2; [rewrite (proj1 N2 eq_refl) in Ib; destruct Ib|].
    exists (Some (a', b')). apply In_pairs. exists a', b'. rewrite T1, T2. repeat split; now left.
  - intros I. apply In_pairs in I as [a [b [Ia [Ib ->]]]]. apply In_pairs. exists a, b.
    repeat split; [now apply (S1 H)|now apply (S2 H)].
  - intros I. apply In_pairs in I as [a [b [Ia [Ib ->]]]]. apply In_pairs. exists a, b.
    repeat split; [now apply (S1 H)|now apply (S2 H)].
Qed.

Lemma spe_batch_sim c rp A B A' B' s xl xr xl' xr' :
  sameset xl xl' -> sameset xr xr' -> (forall x, In x xl \/ In x xr -> A x = A' x /\ B x = B' x) ->
  csim rp (spe_batch_o c rp A B s xl xr) (spe_batch_o c rp A' B' s xl' xr').
Proof.
  intros Sl Sr E. unfold spe_batch_o. apply csim_app; apply (cands_sim); apply comb_sim; apply agg_sim; auto;
    intros x Hx; destruct (E x) as [Ea Eb]; auto; now rewrite ?Ea, ?Eb.
Qed.

Lemma dt_batch_sim c rp A B A' B' s xc xs xc' xs' :
  sameset xc xc' -> sameset xs xs' -> (forall x, In x xc \/ In x xs -> A x = A' x /\ B x = B' x) ->
  csim rp (dt_batch_o c rp A B s xc xs) (dt_batch_o c rp A' B' s xc' xs').
Proof.
  intros Sc Ss E. unfold dt_batch_o. repeat apply csim_app; apply (cands_sim); apply comb_sim; apply agg_sim; auto;
    intros x Hx; destruct (E x) as [Ea Eb]; auto; now rewrite ?Ea, ?Eb.
Qed.

(** writing batches into a fresh cell *)
Lemma cell_upd_default rp b : cell_upd rp (default_entry MIN) b = update tag_eqb MIN rp (default_entry MIN) (if Thl.has_finite b then b else []).
Proof. unfold cell_upd. now destruct (Thl.has_finite b). Qed.

Lemma cell_sim1 rp b b' : csim rp b b' -> esim rp (cell_upd rp (default_entry MIN) b) (cell_upd rp (default_entry MIN) b').
Proof.
  intros C. rewrite !cell_upd_default. apply (upd_sim tag_eqb tag_eqb_spec).
  pose proof C as [_ [_ [V _]]]. rewrite (has_finite_vsame b b' V). destruct (Thl.has_finite b'); [exact C|apply csim_nil].
Qed.

Lemma cell_sim2 rp b1 b1' b2 b2' : csim rp b1 b1' -> csim rp b2 b2' ->
  esim rp (cell_upd rp (cell_upd rp (default_entry MIN) b1) b2) (cell_upd rp (cell_upd rp (default_entry MIN) b1') b2').
Proof.
  intros C1 C2. rewrite (e2_applied rp b1 b2), (e2_applied rp b1' b2'). apply (upd_sim tag_eqb tag_eqb_spec). unfold applied.
  pose proof C1 as [_ [_ [V1 _]]]. pose proof C2 as [_ [_ [V2 _]]].
  rewrite (has_finite_vsame b1 b1' V1), (has_finite_vsame b2 b2' V2).
  apply csim_app; [destruct (Thl.has_finite b1')|destruct (Thl.has_finite b2')]; auto using csim_nil.
Qed.

(* ------------------------------------------------------------------ *)
(** * The species tree as the code walks it, and the species lists of the model *)
Fixpoint sub (S : stree) (p : path) : option stree :=
  match p, S with
  | [], _ => Some S
  | false :: p', SNode l _ => sub l p'
  | true :: p', SNode _ r => sub r p'
  | _ :: _, SLeaf => None
  end.

Lemma sub_nil S : sub S [] = Some S.
Proof. destruct S; reflexivity. Qed.

Lemma valid_sub S : forall p, valid_sp S p = true <-> exists S', sub S p = Some S'.
Proof.
  induction S as [|l IHl r IHr]; intros [|[] p]; cbn; try (split; [eauto|reflexivity]); try apply IHl; try apply IHr;
    split; try discriminate; intros [S' H]; discriminate.
Qed.
Lemma sub_app S : forall p q S', sub S p = Some S' -> sub S (p ++ q) = sub S' q.
Proof.
  induction S as [|l IHl r IHr]; intros [|[] p] q S' H; cbn in *; try discriminate; try (inversion H; reflexivity); eauto.
Qed.
Lemma valid_app S p q S' : sub S p = Some S' -> valid_sp S (p ++ q) = valid_sp S' q.
Proof.
  intros H. apply Bool.eq_iff_eq_true. rewrite !valid_sub, (sub_app S p q S' H). tauto.
Qed.
Lemma sleaf_sub S : forall p, sleaf S p = true <-> sub S p = Some SLeaf.
Proof.
  induction S as [|l IHl r IHr]; intros [|[] p]; cbn; try (split; [reflexivity|reflexivity]); try apply IHl; try apply IHr;
    split; try discriminate; intros H; inversion H.
Qed.

Lemma In_concat_zip {X} (a : list (list X)) : forall b x, In x (concat (T.zip_levels a b)) <-> In x (concat a) \/ In x (concat b).
Proof.
  induction a as [|u a IH]; intros [|v b] x; cbn [T.zip_levels concat]; try rewrite app_nil_r; cbn [In]; try tauto.
  rewrite !in_app_iff, IH. tauto.
Qed.

Lemma In_levelorder S : forall p x, In x (T.STree_levelorder (sembed S p)) <-> exists q S', sub S q = Some S' /\ x = sembed S' (p ++ q).
Proof.
  unfold T.STree_levelorder. induction S as [|l IHl r IHr]; intros p x; cbn [sembed T.STree_levels concat app In].
  - split.
    + intros [<-|[]]. exists [], SLeaf. rewrite app_nil_r. auto.
    + intros [[|[] q] [S' [H ->]]]; cbn in H; [inversion H; subst; rewrite app_nil_r; now left|discriminate..].
  - rewrite In_concat_zip, IHl, IHr. split.
    + intros [<-|[[q [S' [H ->]]]|[q [S' [H ->]]]]].
      * exists [], (SNode l r). rewrite app_nil_r. auto.
      * exists (false :: q), S'. rewrite <- app_assoc. auto.
      * exists (true :: q), S'. rewrite <- app_assoc. auto.
    + intros [[|[] q] [S' [H ->]]]; cbn in H.
      * inversion H; subst. rewrite app_nil_r. now left.
      * right; right. exists q, S'. rewrite <- app_assoc. auto.
      * right; left. exists q, S'. rewrite <- app_assoc. auto.
Qed.

Lemma In_postorder S : forall p x, In x (T.STree_postorder (sembed S p)) <-> exists q S', sub S q = Some S' /\ x = sembed S' (p ++ q).
Proof.
  induction S as [|l IHl r IHr]; intros p x; cbn [sembed T.STree_postorder In].
  - split.
    + intros [<-|[]]. exists [], SLeaf. rewrite app_nil_r. auto.
    + intros [[|[] q] [S' [H ->]]]; cbn in H; [inversion H; subst; rewrite app_nil_r; now left|discriminate..].
  - rewrite !in_app_iff, IHl, IHr. cbn [In]. split.
    + intros [[q [S' [H ->]]]|[[q [S' [H ->]]]|[<-|[]]]].
      * exists (false :: q), S'. rewrite <- app_assoc. auto.
      * exists (true :: q), S'. rewrite <- app_assoc. auto.
      * exists [], (SNode l r). rewrite app_nil_r. auto.
    + intros [[|[] q] [S' [H ->]]]; cbn in H.
      * inversion H; subst. rewrite app_nil_r. right; right. now left.
      * right; left. exists q, S'. rewrite <- app_assoc. auto.
      * left. exists q, S'. rewrite <- app_assoc. auto.
Qed.

Lemma sembed_id S p : T.STree_id (sembed S p) = p.
Proof. destruct S; reflexivity. Qed.

Lemma sids_sembed S p y : In y (sids (sembed S p)) <-> exists q, valid_sp S q = true /\ y = p ++ q.
Proof.
  unfold sids, ids. rewrite in_map_iff. split.
  - intros [x [<- H]]. apply In_levelorder in H as [q [S' [H ->]]]. exists q. rewrite sembed_id. split; [apply valid_sub; eauto|reflexivity].
  - intros [q [H ->]]. apply valid_sub in H as [S' H]. exists (sembed S' (p ++ q)). rewrite sembed_id. split; [reflexivity|].
    apply In_levelorder. eauto.
Qed.

Lemma postorder_ids S p y : In y (ids (T.STree_postorder (sembed S p))) -> exists q, y = p ++ q.
Proof.
  unfold ids. rewrite in_map_iff. intros [x [<- H]]. apply In_postorder in H as [q [S' [_ ->]]]. rewrite sembed_id. eauto.
Qed.

Lemma NoDup_app_intro {X} (a b : list X) : NoDup a -> NoDup b -> (forall x, In x a -> In x b -> False) -> NoDup (a ++ b).
Proof.
  induction a as [|x a IH]; cbn; intros Na Nb D; [exact Nb|]. inversion Na as [|? ? Hx Na']; subst. constructor.
  - rewrite in_app_iff. intros [H|H]; [contradiction|]. eapply D; eauto.
  - apply IH; auto. intros y Ha Hb. eapply D; eauto.
Qed.

Lemma postorder_ids_nodup S : forall p, NoDup (ids (T.STree_postorder (sembed S p))).
Proof.
  induction S as [|l IHl r IHr]; intros p; cbn [sembed T.STree_postorder ids map]; [repeat constructor; intros []|].
  unfold ids in *. rewrite !map_app. cbn [map T.STree_id].
  apply NoDup_app_intro; [apply IHl| |].
  - apply NoDup_app_intro; [apply IHr|repeat constructor; intros []|].
    intros x H [<-|[]]. apply postorder_ids in H as [q E].
    apply (f_equal (@length _)) in E. rewrite !app_length in E. cbn in E. lia.
  - intros x H1 H2. apply postorder_ids in H1 as [q1 E1]. apply in_app_or in H2 as [H2|[<-|[]]].
    + apply postorder_ids in H2 as [q2 E2]. rewrite E1, <- !app_assoc in E2. apply app_inv_head in E2. discriminate.
    + apply (f_equal (@length _)) in E1. rewrite !app_length in E1. cbn in E1. lia.
Qed.

Lemma sameset_under S s b Sb : sub S (s ++ [b]) = Some Sb -> sameset (sids (sembed Sb (s ++ [b]))) (under S (s ++ [b])).
Proof.
  intros H x. rewrite sids_sembed, under_In, snodes_valid, is_prefix_spec. split.
  - intros [q [V ->]]. split; [now rewrite (valid_app S _ q Sb H)|eauto].
  - intros [V [q ->]]. exists q. split; [now rewrite <- (valid_app S _ q Sb H)|reflexivity].
Qed.

Lemma sameset_snodes S : sameset (sids (sembed S [])) (snodes S).
Proof. intros x. rewrite sids_sembed, snodes_valid. cbn [app]. split; [intros [q [V ->]]; exact V|eauto]. Qed.

Lemma sameset_filter {X} (f : X -> bool) l l' : sameset l l' -> sameset (filter f l) (filter f l').
Proof. intros S x. rewrite !filter_In, (S x). tauto. Qed.

Lemma sameset_nil {X} (l l' : list X) : sameset l l' -> (l = [] <-> l' = []).
Proof.
  intros S. split; intros ->.
  - destruct l' as [|x l']; [reflexivity|]. destruct (proj2 (S x) (or_introl eq_refl)).
  - destruct l as [|x l]; [reflexivity|]. destruct (proj1 (S x) (or_introl eq_refl)).
Qed.

Lemma esim_trans {X} rp (a b c : entry X) : esim rp a b -> esim rp b c -> esim rp a c.
Proof.
  intros [V1 [N1 S1]] [V2 [N2 S2]]. split; [congruence|]. split; [tauto|]. intros H x. rewrite (S1 H x). apply (S2 H).
Qed.
Lemma esim_refl {X} rp (a : entry X) : esim rp a a.
Proof. repeat split; auto. Qed.

(* ------------------------------------------------------------------ *)
(** * The table of the code and the table of the model *)
Section TableModel.
  Context {node_id : Type}.
  Notation tree := (EV.TreeNode node_id).
  Variables (S : stree) (c : costs) (rp : ret) (leafsp : node_id -> path) (syn : node_id -> list fam).
  Hypothesis Hh : nn (c_hgt c).
  Notation ST := (sembed S []).
  Notation OT := (otree_of leafsp syn).

  Lemma find_species s : In s (snodes S) ->
    exists S', sub S s = Some S' /\ find_sp s (T.STree_postorder ST) = Some (sembed S' s).
  Proof.
    intros H. apply snodes_valid, valid_sub in H as [S' H]. exists S'. split; [exact H|].
    rewrite <- (sembed_id S' s) at 1. apply find_sp_in; [apply postorder_ids_nodup|].
    apply In_postorder. exists s, S'. auto.
  Qed.

  (** every cell of the code's table and the cell of the model's table: the same value, the same tags as sets under ALL *)
  Theorem tcell_model (t : tree) : forall s, In s (snodes S) ->
    esim rp (tcell c rp ST leafsp t s) (tread (thl_table S c rp (OT t)) s).
  Proof.
    induction t as [i|i a IHa b IHb]; intros s Hs.
    - cbn [tcell otree_of thl_table tread]. apply esim_refl.
    - cbn [tcell otree_of thl_table].
      destruct (find_species s Hs) as [S' [Hsub ->]].
      set (ta := thl_table S c rp (OT a)). set (tb := thl_table S c rp (OT b)).
      assert (NA : forall x, nn (val (tread ta x))) by (intros; apply table_nn; auto).
      assert (NB : forall x, nn (val (tread tb x))) by (intros; apply table_nn; auto).
      (* the cell of the model's row is the model's [cell] *)
      assert (Hrow : esim rp (cell S c rp ta tb s) (tread (TNode (node_row S c rp ta tb) ta tb) s)).
      { split; [symmetry; now apply tread_node_val|]. 
        assert (Ss : sameset (tags (cell S c rp ta tb s)) (tags (tread (TNode (node_row S c rp ta tb) ta tb) s))).
        { intros x. rewrite (tread_node_tags S c rp ta tb Hh NA NB s x). tauto. }
        split; [now apply sameset_nil|intros _; exact Ss]. }
      eapply esim_trans; [|exact Hrow]. clear Hrow.
      assert (EA : forall x, In x (snodes S) -> val (tcell c rp ST leafsp a x) = val (tread ta x)) by (intros x Hx; apply (IHa x Hx)).
      assert (EB : forall x, In x (snodes S) -> val (tcell c rp ST leafsp b x) = val (tread tb x)) by (intros x Hx; apply (IHb x Hx)).
      assert (Sdt1 : sameset (filter (anc s) (sids ST)) (under S s)) by (apply sameset_filter, sameset_snodes).
      assert (Sdt2 : sameset (filter (sep s) (sids ST)) (separate_from S s)) by (apply sameset_filter, sameset_snodes).
      assert (Cdt : csim rp (dt_batch_o c rp (fun x => val (tcell c rp ST leafsp a x)) (fun x => val (tcell c rp ST leafsp b x)) s
                               (filter (anc s) (sids ST)) (filter (sep s) (sids ST)))
                            (dt_batch S c rp ta tb s)).
      { rewrite dt_batch_model. apply dt_batch_sim; auto. intros x [Hx|Hx]; apply filter_In in Hx as [Hx _];
          apply sameset_snodes in Hx; auto. }
      unfold cell, cell_o. rewrite sembed_id. destruct S' as [|Sl Sr]; cbn [sembed].
      + rewrite (proj2 (sleaf_sub S s) Hsub). apply cell_sim1. exact Cdt.
      + assert (Hl : sleaf S s = false).
        { destruct (sleaf S s) eqn:E; [|reflexivity]. apply sleaf_sub in E. congruence. }
        rewrite Hl.
        assert (Hsl : sub S (s ++ [false]) = Some Sl) by (rewrite (sub_app S s [false] _ Hsub); cbn; apply sub_nil).
        assert (Hsr : sub S (s ++ [true]) = Some Sr) by (rewrite (sub_app S s [true] _ Hsub); cbn; apply sub_nil).
        apply cell_sim2; [|exact Cdt]. rewrite spe_batch_model.
        apply spe_batch_sim; [now apply sameset_under|now apply sameset_under|].
        intros x [Hx|Hx]; [apply (sameset_under S s false Sl Hsl) in Hx|apply (sameset_under S s true Sr Hsr) in Hx];
          apply under_In in Hx as [Hx _]; auto.
  Qed.

  (** in particular: every value of the table, for any retention policy; the tag sets under ALL, up to their order *)
  Corollary tcell_model_value t s : In s (snodes S) ->
    val (tcell c rp ST leafsp t s) = val (tread (thl_table S c rp (OT t)) s).
  Proof. intros H. apply (tcell_model t s H). Qed.
End TableModel.

Theorem tcell_model_tags {node_id} S c leafsp syn (t : EV.TreeNode node_id) s : nn (c_hgt c) -> In s (snodes S) ->
  Permutation (tags (tcell c RALL (sembed S []) leafsp t s)) (tags (tread (thl_table S c RALL (otree_of leafsp syn t)) s)).
Proof.
  intros Hh H. destruct (tcell_model S c RALL leafsp syn Hh t s H) as [_ [_ Ss]].
  apply NoDup_Permutation; [| |exact (Ss eq_refl)].
  - destruct t as [i|i a b]; cbn [tcell].
    + destruct (path_eqb s (leafsp i)); constructor.
    + destruct (find_sp s _) as [rs|]; [|constructor]. unfold cell_o.
      destruct rs as [x|x SL SR].
      * rewrite cell_upd_default. apply (entry_tags_all_nodup tag_eqb tag_eqb_spec).
      * rewrite e2_applied. apply (entry_tags_all_nodup tag_eqb tag_eqb_spec).
  - destruct t as [i|i a b]; cbn [otree_of thl_table tread].
    + destruct (path_eqb s (leafsp i)); constructor.
    + destruct (row_lookup _ s) as [e|] eqn:L; [|constructor].
      apply tread_node_some in L as [_ [-> _]]. rewrite cell_two_batches, e2_applied.
      apply (entry_tags_all_nodup tag_eqb tag_eqb_spec).
Qed.

(* ------------------------------------------------------------------ *)
(** * Decoding and the result: the code and the model, under ALL *)
Section ReconcileModel.
  Context {lca node_id : Type} (nid_eqb : node_id -> node_id -> bool).
  Hypothesis nid_eqb_spec : forall a b, reflect (a = b) (nid_eqb a b).
  Notation tree := (EV.TreeNode node_id).
  Notation mi := (T.MappingInfo path).
  Notation dict := (list (node_id * path)).
  Notation oids l := (map (@EV.TreeNode_id node_id) l).
  Variables (S : stree) (c : costs) (leafsp : node_id -> path) (syn : node_id -> list fam) (missing : node_id -> path).
  Variable ord : list mi -> list mi.
  Hypothesis Hh : nn (c_hgt c).
  Hypothesis ord_same : forall l, sameset (ord l) l.
  Notation ST := (sembed S []).
  Notation OT := (otree_of leafsp syn).
  Notation dfun := (T.dict_fun nid_eqb missing).

  (** ** dictionaries kept as the list of their stores *)
  Lemma dict_get_app (d1 d2 : dict) k :
    T.dict_get nid_eqb (d1 ++ d2) k = match T.dict_get nid_eqb d1 k with Some v => Some v | None => T.dict_get nid_eqb d2 k end.
  Proof. induction d1 as [|[k' v] d1 IH]; cbn; [reflexivity|]. destruct (nid_eqb k k'); auto. Qed.
  Lemma dict_get_none (d : dict) k : ~ In k (map fst d) -> T.dict_get nid_eqb d k = None.
  Proof.
    induction d as [|[k' v] d IH]; cbn; [reflexivity|]. intros H. destruct (nid_eqb_spec k k') as [->|N]; [exfalso; apply H; now left|].
    apply IH. intros Hk. apply H. now right.
  Qed.
  Lemma rtree_of_ext f g (t : tree) : (forall n, In n (oids (T.TreeNode_postorder t)) -> f n = g n) -> rtree_of f t = rtree_of g t.
  Proof.
    induction t as [i|i a IHa b IHb]; intros E; cbn [rtree_of T.TreeNode_postorder] in *.
    - f_equal. apply E. now left.
    - rewrite !map_app in E. cbn [map EV.TreeNode_id] in E. f_equal.
      + apply E. rewrite !in_app_iff. right; right. now left.
      + apply IHa. intros n Hn. apply E. rewrite !in_app_iff. now left.
      + apply IHb. intros n Hn. apply E. rewrite !in_app_iff. right. now left.
  Qed.

  (** the keys of a decoded dictionary: the nodes of the subtree *)
  Lemma decode_keys G (t : tree) : forall s d, In d (decode_g ord G t s) -> sameset (map fst d) (oids (T.TreeNode_postorder t)).
  Proof.
    induction t as [i|i a IHa b IHb]; intros s d H; cbn [decode_g T.TreeNode_postorder] in *.
    - destruct (ext_is_inf (val (G i s))); [destruct H|]. destruct H as [<-|[]]. intros x. cbn. tauto.
    - apply in_flat_map in H as [m [_ H]]. destruct (T.MappingInfo_left m) as [l|]; [|destruct H].
      destruct (T.MappingInfo_right m) as [r|]; [|destruct H].
      apply in_flat_map in H as [dl [Hl H]]. apply in_map_iff in H as [dr [<- Hr]].
      intros x. rewrite !map_app, !in_app_iff, (IHa l dl Hl x), (IHb r dr Hr x). cbn. tauto.
  Qed.

  (** ** the reconciliations decoded *)
  Variable O : tree.
  Hypothesis ids_distinct : NoDup (oids (T.TreeNode_postorder O)).
  Variable G : node_id -> path -> entry mi.
  Hypothesis G_table : forall u, In u (T.TreeNode_postorder O) -> forall x, G (EV.TreeNode_id u) x = emap tag_mi (tcell c RALL ST leafsp u x).

  Lemma flat_map_sameset {X Y} (f g : X -> list Y) l l' : sameset l l' -> (forall x, In x l -> sameset (f x) (g x)) ->
    sameset (flat_map f l) (flat_map g l').
  Proof.
    intros Sl Sf y. rewrite !in_flat_map. split; intros [x [Hx Hy]].
    - exists x. split; [now apply Sl|now apply (Sf x Hx)].
    - apply Sl in Hx. exists x. split; [exact Hx|now apply (Sf x Hx)].
  Qed.

  Lemma subtree_distinct (t a b : tree) i : In (EV.TreeNode_node i a b) (T.TreeNode_postorder t) -> NoDup (oids (T.TreeNode_postorder t)) ->
    NoDup (oids (T.TreeNode_postorder (EV.TreeNode_node i a b))).
  Proof.
    induction t as [j|j ta IHa tb IHb]; cbn [T.TreeNode_postorder]; intros H ND.
    - destruct H as [H|[]]. discriminate.
    - rewrite !in_app_iff in H. rewrite !map_app in ND. destruct H as [H|[H|[H|[]]]].
      + apply IHa; [exact H|]. eapply NoDup_app_l; eauto.
      + apply IHb; [exact H|]. eapply NoDup_app_l. eapply NoDup_app_r; eauto.
      + inversion H; subst. cbn [T.TreeNode_postorder]. now rewrite !map_app.
  Qed.
  Lemma subtree_in (t u v : tree) : In u (T.TreeNode_postorder t) -> In v (T.TreeNode_postorder u) -> In v (T.TreeNode_postorder t).
  Proof.
    induction t as [j|j ta IHa tb IHb]; cbn [T.TreeNode_postorder]; intros H1 H2.
    - destruct H1 as [<-|[]]. exact H2.
    - rewrite !in_app_iff in *. destruct H1 as [H1|[H1|[<-|[]]]]; [left; eauto|right; left; eauto|].
      cbn [T.TreeNode_postorder] in H2. rewrite !in_app_iff in H2. exact H2.
  Qed.

  Lemma rtree_merge i (a b : tree) s (dl dr : dict) :
    NoDup (oids (T.TreeNode_postorder a) ++ oids (T.TreeNode_postorder b) ++ [i]) ->
    sameset (map fst dl) (oids (T.TreeNode_postorder a)) -> sameset (map fst dr) (oids (T.TreeNode_postorder b)) ->
    rtree_of (dfun (dr ++ dl ++ [(i, s)])) (EV.TreeNode_node i a b) = RNode s (rtree_of (dfun dl) a) (rtree_of (dfun dr) b).
  Proof.
    intros ND Kl Kr. cbn [rtree_of]. f_equal.
    - unfold T.dict_fun. rewrite !dict_get_app.
      rewrite (dict_get_none dr i), (dict_get_none dl i).
      + cbn. destruct (nid_eqb_spec i i); congruence.
      + intros H. apply Kl in H. eapply (NoDup_app_disj _ _ i ND H). rewrite in_app_iff. right. now left.
      + intros H. apply Kr in H. eapply (NoDup_app_disj _ _ i (NoDup_app_r _ _ ND) H). now left.
    - apply rtree_of_ext. intros n Hn. unfold T.dict_fun. rewrite !dict_get_app.
      rewrite (dict_get_none dr n).
      + destruct (T.dict_get nid_eqb dl n) eqn:E; [reflexivity|]. exfalso.
        apply Kl in Hn. clear - Hn E nid_eqb_spec. induction dl as [|[k v] dl IH]; cbn in *; [destruct Hn|].
        destruct (nid_eqb_spec n k) as [->|N]; [discriminate|]. destruct Hn as [->|Hn]; [congruence|auto].
      + intros H. apply Kr in H. eapply (NoDup_app_disj _ _ n ND Hn). rewrite in_app_iff. now left.
    - apply rtree_of_ext. intros n Hn. unfold T.dict_fun. rewrite !dict_get_app.
      destruct (T.dict_get nid_eqb dr n) eqn:E; [reflexivity|]. exfalso.
      apply Kr in Hn. clear - Hn E nid_eqb_spec. induction dr as [|[k v] dr IH]; cbn in *; [destruct Hn|].
      destruct (nid_eqb_spec n k) as [->|N]; [discriminate|]. destruct Hn as [->|Hn]; [congruence|auto].
  Qed.

  Lemma decode_model (t : tree) : In t (T.TreeNode_postorder O) -> forall s, In s (snodes S) ->
    sameset (map (fun d => rtree_of (dfun d) t) (decode_g ord G t s)) (decode (thl_table S c RALL (OT t)) s).
  Proof.
    induction t as [i|i a IHa b IHb]; intros Ht s Hs.
    - pose proof (G_table _ Ht s) as Gt. cbn [EV.TreeNode_id] in Gt.
      cbn [decode_g otree_of thl_table decode]. rewrite Gt. cbn [emap val tcell tread].
      destruct (ext_is_inf _); cbn [map rtree_of]; [intros x; tauto|].
      unfold T.dict_fun. cbn [T.dict_get]. destruct (nid_eqb_spec i i); [|congruence]. intros x; tauto.
    - pose proof (subtree_distinct O a b i Ht ids_distinct) as ND. cbn [T.TreeNode_postorder] in ND.
      rewrite !map_app in ND. cbn [map EV.TreeNode_id] in ND.
      assert (Ha : In a (T.TreeNode_postorder O)).
      { eapply subtree_in; [exact Ht|]. cbn [T.TreeNode_postorder]. rewrite !in_app_iff. left. apply root_in_postorder. }
      assert (Hb : In b (T.TreeNode_postorder O)).
      { eapply subtree_in; [exact Ht|]. cbn [T.TreeNode_postorder]. rewrite !in_app_iff. right; left. apply root_in_postorder. }
      pose proof (G_table _ Ht s) as Gt. cbn [EV.TreeNode_id] in Gt.
      cbn [decode_g otree_of thl_table decode]. rewrite Gt. cbn [emap tags].
      set (ta := thl_table S c RALL (OT a)). set (tb := thl_table S c RALL (OT b)).
      assert (NA : forall x, nn (val (tread ta x))) by (intros; apply table_nn; auto).
      assert (NB : forall x, nn (val (tread tb x))) by (intros; apply table_nn; auto).
      rewrite map_flat_map'.
      (* the tags of the cell, in the code and in the model *)
      destruct (tcell_model S c RALL leafsp syn Hh (EV.TreeNode_node i a b) s Hs) as [_ [_ Ss]]. specialize (Ss eq_refl).
      cbn [otree_of thl_table] in Ss. fold ta tb in Ss.
      assert (Sound : forall l0 r0, In (l0, r0) (tags (tread (TNode (node_row S c RALL ta tb) ta tb) s)) ->
                 In l0 (snodes S) /\ In r0 (snodes S)).
      { intros l0 r0 H. apply (tread_node_tags S c RALL ta tb Hh NA NB s) in H as [_ Hc].
        apply (cell_tag_sound S c RALL ta tb s Hh NA NB) in Hc as [Il [Ir _]]. auto. }
      intros r. rewrite !in_flat_map. split.
      + intros [m [Hm Hr]]. apply ord_same, in_map_iff in Hm as [[l0 r0] [<- Hlr]].
        cbn [tag_mi T.MappingInfo_left T.MappingInfo_right fst snd] in Hr.
        apply Ss in Hlr. exists (l0, r0). split; [exact Hlr|]. destruct (Sound _ _ Hlr) as [Il Ir].
        rewrite map_flat_map' in Hr. apply in_flat_map in Hr as [dl [Hdl Hr]]. rewrite map_map in Hr.
        apply in_map_iff in Hr as [dr [<- Hdr]]. cbn [fst snd].
        apply in_flat_map. exists (rtree_of (dfun dl) a).
        split; [apply (IHa Ha l0 Il); apply (in_map (fun d => rtree_of (dfun d) a)); exact Hdl|].
        apply in_map_iff. exists (rtree_of (dfun dr) b).
        split; [|apply (IHb Hb r0 Ir); apply (in_map (fun d => rtree_of (dfun d) b)); exact Hdr].
        symmetry. apply rtree_merge; [exact ND|eapply decode_keys; eauto|eapply decode_keys; eauto].
      + intros [[l0 r0] [Hlr Hr]]. destruct (Sound _ _ Hlr) as [Il Ir]. cbn [fst snd] in Hr.
        apply in_flat_map in Hr as [ra [Hra Hr]]. apply in_map_iff in Hr as [rb [<- Hrb]].
        apply (IHa Ha l0 Il), in_map_iff in Hra as [dl [<- Hdl]]. apply (IHb Hb r0 Ir), in_map_iff in Hrb as [dr [<- Hdr]].
        exists (tag_mi (l0, r0)). split; [apply ord_same, in_map; now apply Ss|].
        cbn [tag_mi T.MappingInfo_left T.MappingInfo_right fst snd].
        rewrite map_flat_map'. apply in_flat_map. exists dl. split; [exact Hdl|]. rewrite map_map. apply in_map_iff. exists dr.
        split; [|exact Hdr]. apply rtree_merge; [exact ND|eapply decode_keys; eauto|eapply decode_keys; eauto].
  Qed.

  (** ** the result entry *)
  Variables (lcaobj : lca) (oeqb : T.tout_state path lca node_id -> T.tout_state path lca node_id -> bool).
  Notation tout := (T.tout_state path lca node_id).
  Definition rt_out (o : tout) : rtree := rtree_of (dfun (T.tout_object_species o)) O.
  (** [==] on two outputs (the dataclass compares the input and the dictionaries) decides whether they denote the same
      reconciliation *)
  Hypothesis oeqb_rt : forall a b, rtree_eqb (rt_out a) (rt_out b) = oeqb a b.

  Notation rin := (EV.mk_rin O lcaobj leafsp (stsocc c)).
  Notation cands_o := (thl_candidates_o nid_eqb lcaobj c ST leafsp O ord missing syn G).

  Lemma In_cands_o v o : In (v, o) (map (cmap rt_out) cands_o) <->
    exists s d, In s (snodes S) /\ In d (decode_g ord G O s) /\ v = cost c (OT O) (rtree_of (dfun d) O) /\ o = Some (rtree_of (dfun d) O).
  Proof.
    unfold thl_candidates_o. rewrite in_map_iff. split.
    - intros [[w ot] [E I]]. apply in_flat_map in I as [x [Hx I]]. apply in_map_iff in I as [d [Ed Hd]].
      unfold cand_out, ccand, cost_of, rt_of in Ed. cbn [EG.Candidate_value EG.Candidate_info] in Ed. inversion Ed; subst. clear Ed.
      unfold cmap in E. cbn [fst snd option_map] in E. inversion E; subst. clear E.
      exists (T.STree_id x), d. split; [|auto].
      apply sameset_snodes. unfold sids, ids. now apply in_map.
    - intros [s [d [Hs [Hd [-> ->]]]]]. apply sameset_snodes in Hs. unfold sids, ids in Hs. apply in_map_iff in Hs as [x [<- Hx]].
      exists (ccand (cand_out nid_eqb lcaobj c leafsp O missing syn d)). split; [reflexivity|].
      apply in_flat_map. exists x. split; [exact Hx|].
      apply (in_map (fun d => ccand (cand_out nid_eqb lcaobj c leafsp O missing syn d))). exact Hd.
  Qed.

  Lemma In_cands_model v o : In (v, o) (thl_candidates S c RALL (OT O)) <->
    exists s r, In s (snodes S) /\ In r (decode (thl_table S c RALL (OT O)) s) /\ v = cost c (OT O) r /\ o = Some r.
  Proof.
    unfold thl_candidates. rewrite in_flat_map. split.
    - intros [s [Hs I]]. apply in_map_iff in I as [r [E Hr]]. inversion E; subst. eauto 8.
    - intros [s [r [Hs [Hr [-> ->]]]]]. exists s. split; [exact Hs|]. apply in_map_iff. eauto.
  Qed.

  Lemma candidates_model : csim RALL (map (cmap rt_out) cands_o) (thl_candidates S c RALL (OT O)).
  Proof.
    assert (Same : sameset (map (cmap rt_out) cands_o) (thl_candidates S c RALL (OT O))).
    { intros [v o]. rewrite In_cands_o, In_cands_model. split.
      - intros [s [d [Hs [Hd [-> ->]]]]]. exists s, (rtree_of (dfun d) O). split; [exact Hs|]. split; [|auto].
        apply (decode_model O (root_in_postorder O) s Hs). apply (in_map (fun d => rtree_of (dfun d) O)). exact Hd.
      - intros [s [r [Hs [Hr [-> ->]]]]]. apply (decode_model O (root_in_postorder O) s Hs), in_map_iff in Hr as [d [<- Hd]].
        exists s, d. auto. }
    split; [|split; [|split; [|intros _; exact Same]]].
    - intros v o I. apply In_cands_o in I as [s [d [_ [_ [_ ->]]]]]. eauto.
    - intros v o I. apply In_cands_model in I as [s [r [_ [_ [_ ->]]]]]. eauto.
    - intros v. split; intros [o I]; exists o; now apply Same.
  Qed.

End ReconcileModel.

(** [reconcile_thl] under ALL: the reconciliations the generated code returns are, up to their order, those of the model *)
Theorem gen_reconcile_thl_model {lca node_id : Type} (nid_eqb : node_id -> node_id -> bool)
    (S : stree) (c : costs) (leafsp : node_id -> path) (syn : node_id -> list fam) (missing : node_id -> path)
    (ord : list (T.MappingInfo path) -> list (T.MappingInfo path)) (O : EV.TreeNode node_id) (lcaobj : lca)
    (oeqb : T.tout_state path lca node_id -> T.tout_state path lca node_id -> bool) :
  (forall a b, reflect (a = b) (nid_eqb a b)) -> nn (c_hgt c) -> (forall l, sameset (ord l) l) ->
  NoDup (map (@EV.TreeNode_id node_id) (T.TreeNode_postorder O)) ->
  (forall a b, rtree_eqb (rt_out nid_eqb missing O a) (rt_out nid_eqb missing O b) = oeqb a b) ->
  exists outs,
    T.gen_reconcile_thl path_eqb nid_eqb (fun _ => anc) (fun _ => sanc) (fun _ => comparable) (fun _ => lcp) (fun _ => dist)
      (fun _ => sembed S []) oeqb missing ord (EV.mk_rin O lcaobj leafsp (stsocc c)) (prc RALL) = T.Ok outs /\
    Permutation (map (rt_out nid_eqb missing O) outs) (tags (reconcile_thl S c RALL (otree_of leafsp syn O))).
Proof.
  intros nid_eqb_spec Hh ord_same ids_distinct oeqb_rt.
  destruct (gen_reconcile_thl_eq nid_eqb nid_eqb_spec lcaobj c RALL (sembed S []) leafsp O (postorder_ids_nodup S []) ord
              (fun l m H => proj1 (ord_same l m) H) oeqb missing syn ids_distinct) as [tb [_ [Sk E]]].
  eexists. split; [exact E|].
  pose proof (candidates_model nid_eqb nid_eqb_spec S c leafsp syn missing ord Hh ord_same O ids_distinct
                (gsem nid_eqb tb) Sk lcaobj) as C.
  apply (upd_sim rtree_eqb rtree_eqb_spec) in C as [_ [_ Ss]]. specialize (Ss eq_refl).
  match type of Ss with sameset (tags (update _ _ _ _ (map _ ?cs))) _ =>
    pose proof (update_emap oeqb rtree_eqb (rt_out nid_eqb missing O) oeqb_rt MIN RALL cs (default_entry MIN)) as E2 end.
  change (emap (rt_out nid_eqb missing O) (default_entry MIN)) with (@default_entry rtree MIN) in E2.
  rewrite E2 in Ss. cbn [emap tags] in Ss.
  apply NoDup_Permutation; [| |exact Ss].
  - match goal with |- NoDup (map ?f (tags ?e)) => change (NoDup (tags (emap f e))) end.
    rewrite <- E2. apply (entry_tags_all_nodup rtree_eqb rtree_eqb_spec).
  - unfold reconcile_thl. apply (entry_tags_all_nodup rtree_eqb rtree_eqb_spec).
Qed.

(* ------------------------------------------------------------------ *)
(** * [reconcile_lca] *)
Section LcaRec.
  Context {lca node_id : Type} (nid_eqb : node_id -> node_id -> bool).
  Hypothesis nid_eqb_spec : forall a b, reflect (a = b) (nid_eqb a b).
  Notation tree := (EV.TreeNode node_id).
  Notation dict := (list (node_id * path)).
  Notation oids l := (map (@EV.TreeNode_id node_id) l).
  Variables (lcaobj : lca) (c : EV.CostValues) (leafsp : node_id -> path) (syn : node_id -> list fam) (O : tree).
  Notation rin := (EV.mk_rin O lcaobj leafsp c).
  Notation LOOP := (T.gen_reconcile_lca_for1 nid_eqb (fun (_ : lca) => lcp) rin).
  Notation OT := (otree_of leafsp syn).
  Notation get := (T.dict_get nid_eqb).

  Lemma lca_loop (t : tree) : forall rest (rec : dict), NoDup (oids (T.TreeNode_postorder t)) ->
    (forall n, In n (oids (T.TreeNode_postorder t)) -> get rec n = None) ->
    exists rec', LOOP (T.TreeNode_postorder t ++ rest) rec = LOOP rest rec' /\
      (forall u, In u (T.TreeNode_postorder t) -> get rec' (EV.TreeNode_id u) = Some (root (LcaRec.lca_rec (OT u)))) /\
      (forall n, ~ In n (oids (T.TreeNode_postorder t)) -> get rec' n = get rec n).
  Proof.
    induction t as [i|i a IHa b IHb]; intros rest rec ND H0.
    - cbn [T.TreeNode_postorder app T.gen_reconcile_lca_for1 EV.TreeNode_is_leaf EV.rin_leaf_object_species EV.TreeNode_id].
      cbv zeta. eexists. split; [reflexivity|]. split.
      + intros u [<-|[]]. cbn [T.dict_get EV.TreeNode_id otree_of LcaRec.lca_rec root]. destruct (nid_eqb_spec i i); congruence.
      + intros n Hn. cbn [T.dict_get]. destruct (nid_eqb_spec n i) as [->|N]; [exfalso; apply Hn; now left|reflexivity].
    - cbn [T.TreeNode_postorder] in *. rewrite !map_app in ND, H0. cbn [map EV.TreeNode_id] in ND, H0.
      rewrite <- !app_assoc. cbn [app].
      pose proof (NoDup_app_l _ _ ND) as NDa. pose proof (NoDup_app_r _ _ ND) as NDb'. pose proof (NoDup_app_l _ _ NDb') as NDb.
      destruct (IHa (T.TreeNode_postorder b ++ EV.TreeNode_node i a b :: rest) rec NDa) as [r1 [E1 [Sa Fa]]].
      { intros n Hn. apply H0. rewrite in_app_iff. now left. }
      rewrite E1.
      assert (Hdisj : forall n, In n (oids (T.TreeNode_postorder a)) -> In n (oids (T.TreeNode_postorder b)) -> False).
      { intros n H1 H2. eapply (NoDup_app_disj _ _ n ND H1). rewrite in_app_iff. now left. }
      destruct (IHb (EV.TreeNode_node i a b :: rest) r1 NDb) as [r2 [E2 [Sb Fb]]].
      { intros n Hn. rewrite Fa; [apply H0; rewrite !in_app_iff; right; now left|]. intros Ha. exact (Hdisj n Ha Hn). }
      rewrite E2. cbn [T.gen_reconcile_lca_for1 EV.TreeNode_is_leaf EV.TreeNode_id EV.rin_species_lca].
      assert (Ia : In (EV.TreeNode_id a) (oids (T.TreeNode_postorder a))) by (apply in_map, root_in_postorder).
      rewrite (Sb b (root_in_postorder b)), Fb by (intros H; exact (Hdisj _ Ia H)). rewrite (Sa a (root_in_postorder a)).
      eexists. split; [reflexivity|].
      assert (Ni_a : ~ In i (oids (T.TreeNode_postorder a))).
      { intros H. eapply (NoDup_app_disj _ _ i ND H). rewrite in_app_iff. right. now left. }
      assert (Ni_b : ~ In i (oids (T.TreeNode_postorder b))).
      { intros H. eapply (NoDup_app_disj _ _ i NDb' H). now left. }
      split.
      + intros u Hu. rewrite !in_app_iff in Hu. cbn [T.dict_get]. destruct Hu as [Hu|[Hu|[<-|[]]]].
        * destruct (nid_eqb_spec (EV.TreeNode_id u) i) as [E|_]; [exfalso; apply Ni_a; rewrite <- E; now apply in_map|].
          rewrite Fb by (intros H; eapply Hdisj; [apply in_map; exact Hu|exact H]). now apply Sa.
        * destruct (nid_eqb_spec (EV.TreeNode_id u) i) as [E|_]; [exfalso; apply Ni_b; rewrite <- E; now apply in_map|]. now apply Sb.
        * cbn [EV.TreeNode_id otree_of LcaRec.lca_rec root]. destruct (nid_eqb_spec i i); congruence.
      + intros n Hn. rewrite !map_app, !in_app_iff in Hn. cbn [In map EV.TreeNode_id] in Hn. cbn [T.dict_get].
        destruct (nid_eqb_spec n i) as [->|_]; [exfalso; apply Hn; right; right; now left|].
        rewrite Fb, Fa; [reflexivity| |]; intros H; apply Hn; tauto.
  Qed.

  Lemma rtree_of_lca f (t : tree) : (forall u, In u (T.TreeNode_postorder t) -> f (EV.TreeNode_id u) = root (LcaRec.lca_rec (OT u))) ->
    rtree_of f t = LcaRec.lca_rec (OT t).
  Proof.
    induction t as [i|i a IHa b IHb]; intros H.
    - cbn [rtree_of otree_of LcaRec.lca_rec]. pose proof (H _ (or_introl eq_refl)) as E. cbn [EV.TreeNode_id] in E. now rewrite E.
    - cbn [rtree_of otree_of LcaRec.lca_rec]. cbn [T.TreeNode_postorder] in H.
      assert (E : f i = root (LcaRec.lca_rec (OT (EV.TreeNode_node i a b)))).
      { apply (H (EV.TreeNode_node i a b)). rewrite !in_app_iff. right; right. now left. }
      rewrite E. cbn [otree_of LcaRec.lca_rec root].
      rewrite IHa, IHb; [reflexivity| |]; intros u Hu; apply H; rewrite !in_app_iff; [right|]; now left.
  Qed.

  (** the dictionary [reconcile_lca] returns denotes the reconciliation of the model ([Model/LcaRec.v]) *)
  Theorem gen_reconcile_lca_eq missing : NoDup (oids (T.TreeNode_postorder O)) ->
    exists d, T.gen_reconcile_lca nid_eqb (fun (_ : lca) => lcp) rin = T.Ok (T.mk_tout rin d) /\
              rtree_of (T.dict_fun nid_eqb missing d) O = LcaRec.lca_rec (OT O).
  Proof.
    intros ND. unfold T.gen_reconcile_lca. cbv zeta. cbn [EV.rin_object_tree].
    destruct (lca_loop O [] [] ND (fun _ _ => eq_refl)) as [d [E [Sk _]]].
    rewrite app_nil_r in E. rewrite E. cbn [T.gen_reconcile_lca_for1]. exists d. split; [reflexivity|].
    apply rtree_of_lca. intros u Hu. unfold T.dict_fun. now rewrite (Sk u Hu).
  Qed.
End LcaRec.

(* ------------------------------------------------------------------ *)
(** * One step against the step of the model *)
(** the batches of candidates the two step functions compute -- [gen_speciation_eq], [gen_duplication_transfer_eq]: with
    the species enumerated in level order -- and the batches [spe_batch] / [dt_batch] of [Model/Thl.v] (pre-order): the same
    candidate values, and under ALL the same candidates, as sets *)
Corollary spe_step_model S c rp ta tb A B s Sl Sr : sub S s = Some (SNode Sl Sr) ->
  (forall x, In x (snodes S) -> A x = val (tread ta x) /\ B x = val (tread tb x)) ->
  csim rp (spe_batch_o c rp A B s (sids (sembed Sl (s ++ [false]))) (sids (sembed Sr (s ++ [true])))) (spe_batch S c rp ta tb s).
Proof.
  intros Hsub E. rewrite spe_batch_model.
  assert (Hsl : sub S (s ++ [false]) = Some Sl) by (rewrite (sub_app S s [false] _ Hsub); cbn; apply sub_nil).
  assert (Hsr : sub S (s ++ [true]) = Some Sr) by (rewrite (sub_app S s [true] _ Hsub); cbn; apply sub_nil).
  apply spe_batch_sim; [now apply sameset_under|now apply sameset_under|].
  intros x [Hx|Hx]; [apply (sameset_under S s false Sl Hsl) in Hx|apply (sameset_under S s true Sr Hsr) in Hx];
    apply under_In in Hx as [Hx _]; auto.
Qed.

Corollary dt_step_model S c rp ta tb A B s :
  (forall x, In x (snodes S) -> A x = val (tread ta x) /\ B x = val (tread tb x)) ->
  csim rp (dt_batch_o c rp A B s (filter (anc s) (sids (sembed S []))) (filter (sep s) (sids (sembed S [])))) (dt_batch S c rp ta tb s).
Proof.
  intros E. rewrite dt_batch_model. apply dt_batch_sim; [apply sameset_filter, sameset_snodes|apply sameset_filter, sameset_snodes|].
  intros x [Hx|Hx]; apply filter_In in Hx as [Hx _]; apply sameset_snodes in Hx; auto.
Qed.

(* ------------------------------------------------------------------ *)
(** * Non-vacuity: the D2 witness of DESIGN section 9 (the instance of [Properties/C01.v]), node identifiers = root paths *)
Module Example.
  Fixpoint oembed (O : otree) (p : path) : EV.TreeNode path :=
    match O with
    | OLeaf _ _ => EV.TreeNode_leaf p
    | ONode a b => EV.TreeNode_node p (oembed a (p ++ [false])) (oembed b (p ++ [true]))
    end.
  Fixpoint leafsp (O : otree) (p : path) : path :=
    match O, p with
    | OLeaf s _, _ => s
    | ONode a b, false :: p' => leafsp a p'
    | ONode a b, true :: p' => leafsp b p'
    | ONode a b, [] => []
    end.
  Definition S1 := SNode SLeaf (SNode SLeaf (SNode SLeaf SLeaf)).
  Definition O1 := ONode (OLeaf [false] []) (ONode (OLeaf [true; true; true] [])
                   (ONode (OLeaf [true; false] []) (OLeaf [true; true; false] []))).
  Definition c1 := {| c_spe := 0; c_dup := 1; c_hgt := Fin 1; c_floss := 1; c_sloss := 1 |}.
  Definition missing1 : path -> path := fun _ => [].
  Definition oeqb1 (a b : T.tout_state path unit path) : bool :=
    rtree_eqb (rt_out path_eqb missing1 (oembed O1 []) a) (rt_out path_eqb missing1 (oembed O1 []) b).

  Example hypotheses_satisfiable :
    nn (c_hgt c1) /\ (forall l : list (T.MappingInfo path), sameset ((fun l => l) l) l) /\
    NoDup (map (@EV.TreeNode_id path) (T.TreeNode_postorder (oembed O1 []))) /\
    (forall a b, rtree_eqb (rt_out path_eqb missing1 (oembed O1 []) a) (rt_out path_eqb missing1 (oembed O1 []) b) = oeqb1 a b) /\
    otree_of (leafsp O1) (fun _ => []) (oembed O1 []) = O1 /\
    match T.gen_reconcile_thl path_eqb path_eqb (fun _ => anc) (fun _ => sanc) (fun _ => comparable) (fun _ => lcp) (fun _ => dist)
            (fun _ => sembed S1 []) oeqb1 missing1 (fun l => l) (EV.mk_rin (oembed O1 []) tt (leafsp O1) (stsocc c1)) (prc RALL) with
    | T.Ok outs => length outs = 4%nat
    | T.Err _ => False
    end.
  Proof.
    split; [discriminate|]. split; [intros l x; tauto|]. split; [cbn; repeat constructor; cbn; intuition discriminate|].
    split; [reflexivity|]. split; [reflexivity|]. vm_compute. reflexivity.
  Qed.
End Example.

Print Assumptions gen_speciation_eq.
Print Assumptions gen_duplication_transfer_eq.
Print Assumptions spe_step_model.
Print Assumptions dt_step_model.
Print Assumptions gen_compute_thl_table_eq.
Print Assumptions tcell_model.
Print Assumptions tcell_model_tags.
Print Assumptions gen_decode_eq.
Print Assumptions gen_reconcile_thl_eq.
Print Assumptions decode_model.
Print Assumptions gen_reconcile_thl_model.
Print Assumptions gen_reconcile_lca_eq.
Print Assumptions Example.hypotheses_satisfiable.
