(** Ordered super-reconciliation solvers, part 2: the evaluator's one-node charge
    [ecost_ord] and its agreement with the optimiser's inside the coherent region
    [spe + 2*sloss <= dup + 2*floss], [0 <= floss], [0 <= sloss] ([ocost_ecost_ord]); the
    evaluator in recursive form ([tcost], [total_cost_tcost]); lower bound ([Sval_lower]),
    cost and completeness of the decoding ([sdecode_cost], [sdecode_nonempty],
    [sdecode_complete]); the final theorems [spfs_all_exact], [spfs_any],
    [spfs_empty_iff] and their specialisations [ext_spfs_optimum], [base_spfs_optimum]
    (C02 / C05); the link with the solver's own root orders ([root_orders_spec],
    [root_orders_ok], [spfs_root_orders_optimum]). *)
From Coq Require Import List Bool Arith ZArith NArith Lia FinFun.
From SR Require Import Base.PathB Base.Ext Model.Subseq Model.Entry Model.Recon Model.LcaRec
  Model.Thl Model.Toposort Model.Spfs
  Proofs.PathFacts Proofs.ReconProofs Proofs.EntryProofs Proofs.DpProofs Proofs.SubseqProofs
  Proofs.LabelCostProofs Proofs.LcaProofs Proofs.ExhProofs Proofs.ThlProofs Proofs.ThlFinal
  Proofs.SpfsProofs.
From SR Require Proofs.ToposortProofs.
Import ListNotations.
Local Open Scope Z_scope.

(** * the evaluator's charge of one node, and its agreement with the optimiser's inside
      the coherent region *)
Definition coherent_ord (c : costs) : Prop :=
  c_spe c + 2 * c_sloss c <= c_dup c + 2 * c_floss c /\ 0 <= c_floss c /\ 0 <= c_sloss c.

Definition ecost_ord (c : costs) (s : path) (m : N) (kl kr : sassign) : ext :=
  match olab_node (event s (fst kl) (fst kr)) m (snd kl) (snd kr) with
  | Some k => ext_add (ecost c s (fst kl) (fst kr)) (Fin (c_sloss c * k))
  | None => PInf
  end.

Lemma ext_min_Fin_min a b : ext_min (Fin a) (Fin b) = Fin (Z.min a b).
Proof. unfold ext_min. cbn [ext_ltb]. destruct (Z.ltb_spec b a); f_equal; lia. Qed.

(* inner runs and all runs of a usable child mask *)
Lemma seg_bounds cm m : mask_ok cm m = true ->
  0 <= seg_dist cm m false /\ seg_dist cm m false <= seg_dist cm m true <= seg_dist cm m false + 2.
Proof.
  unfold mask_ok. intros H. apply andb_true_iff in H as [N0 C]. apply negb_true_iff in N0.
  apply N.eqb_neq in N0. rewrite !(seg_dist_correct _ _ _ N0). unfold seg_dist_specf. rewrite C.
  pose proof (runs_inner_bounds (flags cm m)). lia.
Qed.

Theorem ocost_ecost_ord c s m kl kr :
  coherent_ord c -> mask_ok (snd kl) m = true -> mask_ok (snd kr) m = true ->
  ocost_ord c s m kl kr = ecost_ord c s m kl kr.
Proof.
  intros [Hc [Hf Hs]] Ml Mr. unfold ocost_ord, ecost_ord, ecost, event, separate, olab_node. cbv zeta. rewrite Ml, Mr.
  destruct kl as [l ml], kr as [r mr]. cbn [fst snd andb guard] in *.
  pose proof (seg_bounds _ _ Ml) as [A0 [A1 A2]]. pose proof (seg_bounds _ _ Mr) as [B0 [B1 B2]].
  revert A0 A1 A2 B0 B1 B2.
  generalize (seg_dist ml m true) (seg_dist ml m false) (seg_dist mr m true) (seg_dist mr m false).
  intros aT aF bT bF A0 A1 A2 B0 B1 B2.
  destruct (anc s l) eqn:Al, (anc s r) eqn:Ar; cbn [andb negb guard].
  - rewrite (sanc_false_of_anc _ _ Al), (sanc_false_of_anc _ _ Ar). cbn [orb].
    rewrite !ext_min_PInf_r.
    pose proof (spe_config s l r Al Ar) as SC.
    destruct (path_eqb s (lcp l r) && negb (comparable l r)) eqn:E1;
    destruct (spe_cfg s l r) eqn:E2;
      try (exfalso; destruct SC as [S1 S2]; (discriminate (S1 eq_refl) || discriminate (S2 eq_refl))).
    + cbn [guard olab_node]. rewrite !ext_min_Fin_min. cbn [ext_add]. f_equal.
      assert (c_sloss c * bT <= c_sloss c * bF + 2 * c_sloss c) by nia.
      assert (c_sloss c * aT <= c_sloss c * aF + 2 * c_sloss c) by nia.
      rewrite !Z.min_l by lia. reflexivity.
    + cbn [guard olab_node]. rewrite ext_min_PInf_l, ext_min_Fin_min. cbn [ext_add]. f_equal.
      destruct (Z.min_spec (aT + bF) (aF + bT)) as [[? ->]|[? ->]]; nia.
  - rewrite (sanc_false_of_anc _ _ Al). rewrite (spe_cfg_false_r s l r Ar). cbn [guard orb].
    rewrite !ext_min_PInf_l. unfold sanc. destruct (anc r s) eqn:Rs; cbn [negb andb guard].
    + destruct (path_eqb_spec r s) as [->|NE]; [rewrite is_prefix_refl in Ar; discriminate|].
      cbn [negb olab_node]. rewrite ext_min_PInf_r. reflexivity.
    + cbn [andb olab_node]. rewrite ext_min_PInf_r.
      destruct (c_hgt c); cbn [ext_add]; auto. f_equal. lia.
  - rewrite (sanc_false_of_anc _ _ Ar). rewrite orb_false_r. rewrite (spe_cfg_false_l s l r Al).
    cbn [guard]. rewrite !ext_min_PInf_l. unfold sanc. destruct (anc l s) eqn:Ls; cbn [negb andb guard].
    + destruct (path_eqb_spec l s) as [->|NE]; [rewrite is_prefix_refl in Al; discriminate|]. reflexivity.
    + cbn [olab_node]. destruct (c_hgt c); cbn [ext_add]; auto. f_equal. lia.
  - rewrite (spe_cfg_false_l s l r Al). cbn [guard]. rewrite ?andb_false_r. cbn [guard].
    rewrite !ext_min_PInf_l. destruct (sanc l s || sanc r s); reflexivity.
Qed.

(** outside the region the two views differ (F-COHERENCE for the ordered solver) *)
Example incoherent_ord_step :
  let c := {| c_spe := 1; c_dup := 1; c_hgt := PInf; c_floss := 1; c_sloss := 2 |} in
  ocost_ord c [] 7 ([false], 2%N) ([true], 7%N) = Fin 3 /\ ecost_ord c [] 7 ([false], 2%N) ([true], 7%N) = Fin 5.
Proof. vm_compute. split; reflexivity. Qed.

(** * the evaluator in recursive form *)
Fixpoint tcost (c : costs) (ord : list fam) (O : otree) (t : ltree) : ext :=
  match O, t with
  | OLeaf sp _, LLeaf s _ => if path_eqb s sp then Fin 0 else PInf
  | ONode oa ob, LNode s y a b =>
      ext_add (ecost_ord c s (mask_of ord y) (lroot a, mask_of ord (lsyn a)) (lroot b, mask_of ord (lsyn b)))
              (ext_add (tcost c ord oa a) (tcost c ord ob b))
  | _, _ => PInf
  end.

Lemma cost_olab_tcost c S ord O t : valid_lab S O t ->
  exists K, olab_rec ord (mask_of ord (lsyn t)) t = Some K /\
            ext_add (cost c O (forget t)) (Fin (c_sloss c * K)) = tcost c ord O t.
Proof.
  induction 1 as [sp syn V|a b s y la lb V E Sa Sb Va [Ka [Oa Ca]] Vb [Kb [Ob Cb]]].
  - exists 0. split; [reflexivity|]. cbn [forget cost tcost]. rewrite path_eqb_refl. cbn [ext_add]. f_equal. lia.
  - cbn [olab_rec lsyn forget cost tcost]. rewrite Oa, Ob, !lroot_forget. unfold ecost_ord. cbn [fst snd].
    rewrite <- Ca, <- Cb.
    destruct (olab_node (event s (lroot la) (lroot lb)) (mask_of ord y) (mask_of ord (lsyn la)) (mask_of ord (lsyn lb)))
      as [k|] eqn:Ek.
    + exists (k + Ka + Kb). split; [reflexivity|].
      destruct (event s (lroot la) (lroot lb)) eqn:Ev; try congruence;
        destruct (ecost c s (lroot la) (lroot lb)), (cost c a (forget la)), (cost c b (forget lb));
        cbn [ext_add]; auto; f_equal; lia.
    + exfalso. destruct (event s (lroot la) (lroot lb)); try congruence; discriminate.
Qed.

Theorem total_cost_tcost c S ord O t : NoDup ord -> valid_ordered S ord O t ->
  total_cost c O true t = Some (tcost c ord O t).
Proof.
  intros ND [V E]. unfold total_cost, labeling_cost, ordered_labeling_cost. rewrite E.
  destruct (cost_olab_tcost c S ord O t V) as [K [Ok Ck]]. rewrite E, (mask_of_complete ord ND) in Ok.
  rewrite Ok. cbn [option_map]. now rewrite Ck.
Qed.

Lemma nn_ecost_ord c s m kl kr : nn (c_hgt c) -> nn (ecost_ord c s m kl kr).
Proof.
  intros Hh. unfold ecost_ord. destruct (olab_node _ _ _ _); [|apply nn_PInf].
  apply nn_add; [now apply nn_ecost|apply nn_Fin].
Qed.
Lemma nn_tcost c ord O : nn (c_hgt c) -> forall t, nn (tcost c ord O t).
Proof.
  intros Hh. induction O as [sp syn|a IHa b IHb]; intros [s y|s y la lb]; cbn [tcost]; try apply nn_PInf.
  - destruct (path_eqb s sp); [apply nn_Fin|apply nn_PInf].
  - apply nn_add; [now apply nn_ecost_ord|apply nn_add; auto].
Qed.

(** * lower bound *)
Lemma valid_lab_syn_nonempty S ord O t : valid_lab S O t -> leaves_ord S ord O -> lsyn t <> [].
Proof.
  induction 1 as [sp syn V|a b s y la lb V E Sa Sb Va IHa Vb IHb]; intros L.
  - apply L.
  - destruct L as [La _]. cbn [lsyn]. intros ->. apply (IHa La). now apply Subseq_nil_inv.
Qed.

Lemma mapping_ok_children extended a b s y la lb :
  mapping_ok extended (ONode a b) (LNode s y la lb) ->
  mapping_ok extended a la /\ mapping_ok extended b lb /\
  (extended = false -> s = root (lca_rec (ONode a b))).
Proof.
  unfold mapping_ok. intros [->|H]; [repeat split; auto; discriminate|].
  cbn [forget lca_rec] in H. injection H as H1 H2 H3. repeat split; auto.
Qed.

Section Lower.
  Variables (S : stree) (c : costs) (extended : bool) (ord : list fam).
  Hypothesis ND : NoDup ord.

  Definition key_of (t : ltree) : sassign := (lroot t, mask_of ord (lsyn t)).

  Lemma key_in_ckeys O t is_root : valid_lab S O t -> mapping_ok extended O t ->
    (is_root = true -> lsyn t = ord) -> In (key_of t) (ckeys S extended ord is_root O).
  Proof.
    intros V M R. destruct V as [sp syn V|a b s y la lb V E Sa Sb Va Vb].
    - now left.
    - unfold key_of. cbn [ckeys lroot lsyn] in *. apply in_prod_iff. split.
      + unfold allowed_species. destruct extended eqn:Ex.
        * now apply snodes_valid.
        * left. symmetry. now apply (mapping_ok_children false a b s y la lb M).
      + unfold masks_for. destruct is_root.
        * left. rewrite (R eq_refl). symmetry. now apply mask_of_complete.
        * apply in_all_masks. apply mask_from_subseq_lt.
  Qed.

  Lemma child_mask_ok (y x : list fam) : Sub y ord -> Sub x y -> x <> [] ->
    mask_ok (mask_of ord x) (mask_of ord y) = true.
  Proof.
    intros Sy Sx N. unfold mask_ok. apply andb_true_iff. split.
    - apply negb_true_iff. apply N.eqb_neq. apply mask_of_nonzero; auto. eapply Subseq_trans; eauto.
    - now apply (masks_flags ord ND y x Sy Sx).
  Qed.

  Hypothesis Hc : coherent_ord c.

  (* inside the region the recursive evaluator charges the optimiser's amount at valid nodes *)
  Lemma tcost_node a b s y la lb : valid_lab S (ONode a b) (LNode s y la lb) -> leaves_ord S ord (ONode a b) ->
    Sub y ord ->
    tcost c ord (ONode a b) (LNode s y la lb) =
    ext_add (ocost_ord c s (mask_of ord y) (key_of la) (key_of lb))
            (ext_add (tcost c ord a la) (tcost c ord b lb)).
  Proof.
    intros V [La Lb] Sy. inversion V as [|? ? ? ? ? ? Vs E Sa Sb Va Vb]; subst.
    cbn [tcost]. fold (key_of la) (key_of lb). rewrite ocost_ecost_ord; auto.
    - apply child_mask_ok; auto. eapply valid_lab_syn_nonempty; eauto.
    - apply child_mask_ok; auto. eapply valid_lab_syn_nonempty; eauto.
  Qed.

  Theorem Sval_lower O t : valid_lab S O t -> leaves_ord S ord O -> Sub (lsyn t) ord ->
    mapping_ok extended O t -> forall is_root, (is_root = true -> lsyn t = ord) ->
    ele (Sval c S extended ord is_root O (key_of t)) (tcost c ord O t).
  Proof.
    induction 1 as [sp syn V|a b s y la lb V E Sa Sb Va IHa Vb IHb]; intros L Sy M is_root R.
    - unfold key_of. cbn [Sval tcost lroot lsyn]. destruct (sassign_eqb_spec (sp, mask_of ord syn) (sp, mask_of ord syn)); [|congruence].
      rewrite path_eqb_refl. apply ele_refl.
    - pose proof L as [La Lb]. cbn [lsyn] in Sy.
      assert (valid_lab S (ONode a b) (LNode s y la lb)) as Vn by (constructor; auto).
      rewrite (tcost_node a b s y la lb Vn L Sy).
      destruct (mapping_ok_children _ _ _ _ _ _ _ M) as [Ma [Mb _]].
      pose proof (key_in_ckeys _ _ is_root Vn M R) as Ik.
      cbn [Sval]. apply existsb_sassign in Ik. rewrite Ik. unfold key_of at 1 2. cbn [fst snd lroot lsyn].
      eapply ele_trans.
      + apply (node_sval_le c s (mask_of ord y) _ _ _ _ (key_of la) (key_of lb)).
        * apply key_in_ckeys; auto. discriminate.
        * apply key_in_ckeys; auto. discriminate.
      + apply ext_add_mono; [apply ele_refl|]. apply ext_add_mono.
        * apply IHa; auto; [eapply Subseq_trans; eauto|discriminate].
        * apply IHb; auto; [eapply Subseq_trans; eauto|discriminate].
  Qed.
End Lower.

Lemma pair_eta {X Y} (p : X * Y) : (fst p, snd p) = p.
Proof. destruct p; reflexivity. Qed.

Section DecodeCost.
  Variables (S : stree) (c : costs) (rp : ret) (extended : bool) (ord : list fam).
  Hypothesis Hh : nn (c_hgt c).
  Hypothesis Hrp : rp <> RNONE.
  Hypothesis ND : NoDup ord.
  Notation tbl := (spfs_table S c rp extended ord).

  (* a decoded tree sits on the key it was decoded from *)
  Lemma decoded_key o is_root k t : leaves_ord S ord o ->
    In (Some t) (sdecode ord (tbl is_root o) k) -> key_of ord t = k /\ Sub (lsyn t) ord.
  Proof.
    intros L H. destruct (sdecode_valid S c rp extended ord Hh o L is_root k _ H) as [t' [E [_ [R [Sy _]]]]].
    inversion E; subst t'. unfold key_of. rewrite R, (mask_of_from_mask ord _ _ ND Sy). split; [apply pair_eta|].
    eapply from_mask_subseq; eauto.
  Qed.

  (** a finite cell decodes to something *)
  Theorem sdecode_nonempty o : leaves_ord S ord o -> forall is_root k,
    val (sread (tbl is_root o) k) <> PInf -> sdecode ord (tbl is_root o) k <> [].
  Proof.
    induction o as [sp syn|a IHa b IHb]; intros L is_root k NE.
    - cbn [spfs_table sdecode] in *. destruct (ext_is_inf (val (sread (STLeaf sp (mask_of ord syn)) k))) eqn:F; [|discriminate].
      exfalso. apply NE. apply nn_inf_PInf; auto.
      apply (stable_nn S c rp extended ord Hh (OLeaf sp syn) is_root k L).
    - pose proof L as [La Lb].
      pose proof (stable_nn S c rp extended ord Hh a false) as NA.
      pose proof (stable_nn S c rp extended ord Hh b false) as NB.
      pose proof (stable_keys_ok S c rp extended ord Hh a false La) as KA.
      pose proof (stable_keys_ok S c rp extended ord Hh b false Lb) as KB.
      assert (In k (ckeys S extended ord is_root (ONode a b))) as Ik.
      { destruct (in_dec (fun x y => match sassign_eqb_spec x y with ReflectT _ e => left e | ReflectF _ n => right n end)
                    k (ckeys S extended ord is_root (ONode a b))) as [I|N]; auto.
        exfalso. apply NE. rewrite spfs_table_node. now apply sread_node_out. }
      assert (val (scell S c rp (tbl false a) (tbl false b) (fst k) (snd k)) <> PInf) as NC.
      { rewrite spfs_table_node, sread_node_val in NE; auto. }
      pose proof (scell_tags_nonempty S c rp _ _ (fst k) (snd k) Hrp NC) as NT.
      destruct (tags (scell S c rp (tbl false a) (tbl false b) (fst k) (snd k))) as [|[kl kr] tl] eqn:Et; [congruence|].
      assert (In (kl, kr) (tags (scell S c rp (tbl false a) (tbl false b) (fst k) (snd k)))) as Ht by (rewrite Et; now left).
      pose proof (scell_tag_value S c rp _ _ (fst k) (snd k) Hh (fun k => NA k La) (fun k => NB k Lb) KA KB kl kr Hrp Ht) as V.
      assert (val (sread (tbl false a) kl) <> PInf /\ val (sread (tbl false b) kr) <> PInf) as [Fa Fb].
      { rewrite V in NC. split; intros X; rewrite X in NC; apply NC.
        - destruct (ocost_ord c (fst k) (snd k) kl kr); reflexivity.
        - destruct (ocost_ord c (fst k) (snd k) kl kr), (val (sread (tbl false a) kl)); reflexivity. }
      specialize (IHa La false kl Fa). specialize (IHb Lb false kr Fb).
      rewrite spfs_table_node. cbn [sdecode]. rewrite <- spfs_table_node. intros E.
      destruct (sdecode ord (tbl false a) kl) as [|ra da] eqn:Da; [congruence|].
      destruct (sdecode ord (tbl false b) kr) as [|rb db] eqn:Db; [congruence|].
      match type of E with ?l = [] => assert (exists x, In x l) as [x X] end.
      { eexists. apply in_flat_map. exists (kl, kr). split.
        - rewrite spfs_table_node. apply sread_node_tags; auto.
        - cbn [fst snd]. rewrite Da, Db. cbn [flat_map map app In]. left. reflexivity. }
      rewrite E in X. destruct X.
  Qed.

  Hypothesis Hc : coherent_ord c.

  (** inside the coherent region a decoded tree costs exactly the cell it was decoded from *)
  Theorem sdecode_cost o : leaves_ord S ord o -> forall is_root k t,
    In (Some t) (sdecode ord (tbl is_root o) k) -> tcost c ord o t = val (sread (tbl is_root o) k).
  Proof.
    induction o as [sp syn|a IHa b IHb]; intros L is_root k t H.
    - cbn [spfs_table sdecode sread] in *.
      destruct (sassign_eqb_spec k (sp, mask_of ord syn)) as [->|NE]; [|destruct H].
      cbn [snd fst val ext_is_inf] in H. destruct H as [H|[]].
      destruct (subseq_from_mask (mask_of ord syn) ord); cbn [option_map] in H; [|discriminate].
      inversion H; subst. cbn [tcost]. now rewrite path_eqb_refl.
    - pose proof L as [La Lb]. pose proof H as H0.
      destruct (sdecode_valid S c rp extended ord Hh _ L is_root k _ H) as [t' [Et [Vt [Rt [Syt _]]]]].
      inversion Et; subst t'. clear Et.
      rewrite spfs_table_node in H. cbn [sdecode] in H. rewrite <- spfs_table_node in H.
      apply in_flat_map in H as [[kl kr] [Ht H]]. apply in_flat_map in H as [oa [Ha H]].
      apply in_map_iff in H as [ob [E Hb]]. cbn [fst snd] in *.
      destruct (subseq_from_mask (snd k) ord) as [y|] eqn:Ey; [|discriminate].
      destruct oa as [ta|]; [|discriminate]. destruct ob as [tb|]; [|discriminate].
      inversion E; subst t. clear E.
      destruct (node_tag_sound S c rp extended ord Hh a b is_root k kl kr L Ht) as [Ik [Htc _]].
      pose proof (stable_nn S c rp extended ord Hh a false) as NA.
      pose proof (stable_nn S c rp extended ord Hh b false) as NB.
      pose proof (stable_keys_ok S c rp extended ord Hh a false La) as KA.
      pose proof (stable_keys_ok S c rp extended ord Hh b false Lb) as KB.
      pose proof (scell_tag_value S c rp _ _ (fst k) (snd k) Hh (fun k => NA k La) (fun k => NB k Lb) KA KB kl kr Hrp Htc) as V.
      rewrite spfs_table_node, sread_node_val, V by auto.
      destruct (decoded_key a false kl ta La Ha) as [Ka _]. destruct (decoded_key b false kr tb Lb Hb) as [Kb _].
      rewrite (tcost_node S c ord ND Hc a b (fst k) y ta tb Vt L).
      + rewrite Ka, Kb, (mask_of_from_mask ord _ _ ND Ey), (IHa La false kl ta Ha), (IHb Lb false kr tb Hb). reflexivity.
      + eapply from_mask_subseq; eauto.
  Qed.
End DecodeCost.

Section Complete.
  Variables (S : stree) (c : costs) (extended : bool) (ord : list fam).
  Hypothesis Hh : nn (c_hgt c).
  Hypothesis ND : NoDup ord.
  Hypothesis Hc : coherent_ord c.
  Notation tbl := (spfs_table S c RALL extended ord).

  Lemma Sval_nn O is_root k : leaves_ord S ord O -> nn (Sval c S extended ord is_root O k).
  Proof.
    intros L. rewrite <- (stable_value S c RALL extended ord Hh RALL_not_none O L is_root k).
    now apply stable_nn.
  Qed.

  (** under ALL every valid labelling that is optimal for its own root cell is decoded *)
  Theorem sdecode_complete O t : valid_lab S O t -> leaves_ord S ord O -> Sub (lsyn t) ord ->
    mapping_ok extended O t -> forall is_root, (is_root = true -> lsyn t = ord) ->
    tcost c ord O t <> PInf -> tcost c ord O t = Sval c S extended ord is_root O (key_of ord t) ->
    In (Some t) (sdecode ord (tbl is_root O) (key_of ord t)).
  Proof.
    induction 1 as [sp syn V|a b s y la lb V E Sa Sb Va IHa Vb IHb]; intros L Sy M is_root R NE Eq.
    - unfold key_of. cbn [spfs_table sdecode sread lroot lsyn fst snd].
      destruct (sassign_eqb_spec (sp, mask_of ord syn) (sp, mask_of ord syn)); [|congruence].
      cbn [val ext_is_inf]. rewrite (mask_of_roundtrip ord syn Sy). now left.
    - pose proof L as [La Lb]. cbn [lsyn] in Sy.
      assert (valid_lab S (ONode a b) (LNode s y la lb)) as Vn by (constructor; auto).
      destruct (mapping_ok_children _ _ _ _ _ _ _ M) as [Ma [Mb _]].
      pose proof (key_in_ckeys S extended ord ND _ _ is_root Vn M R) as Ik.
      assert (In (key_of ord la) (ckeys S extended ord false a)) as Il by (apply key_in_ckeys; auto; discriminate).
      assert (In (key_of ord lb) (ckeys S extended ord false b)) as Ir by (apply key_in_ckeys; auto; discriminate).
      assert (Sub (lsyn la) ord) as Sla by (eapply Subseq_trans; eauto).
      assert (Sub (lsyn lb) ord) as Slb by (eapply Subseq_trans; eauto).
      pose proof (tcost_node S c ord ND Hc a b s y la lb Vn L Sy) as Ecost.
      set (kl := key_of ord la) in *. set (kr := key_of ord lb) in *.
      set (k := key_of ord (LNode s y la lb)) in *.
      assert (fst k = s /\ snd k = mask_of ord y) as [Fk Sk] by (split; reflexivity).
      pose proof (Sval_lower S c extended ord ND Hc a la Va La Sla Ma false ltac:(discriminate)) as La'.
      pose proof (Sval_lower S c extended ord ND Hc b lb Vb Lb Slb Mb false ltac:(discriminate)) as Lb'.
      fold kl in La'. fold kr in Lb'.
      set (Ta := Sval c S extended ord false a) in *. set (Tb := Sval c S extended ord false b) in *.
      assert (ele (Sval c S extended ord is_root (ONode a b) k)
                  (ext_add (ocost_ord c s (mask_of ord y) kl kr) (ext_add (Ta kl) (Tb kr)))) as LB.
      { cbn [Sval]. pose proof Ik as Ik'. apply existsb_sassign in Ik'. rewrite Ik', Fk, Sk.
        now apply node_sval_le. }
      assert (ext_add (ocost_ord c s (mask_of ord y) kl kr) (ext_add (Ta kl) (Tb kr)) =
              ext_add (ocost_ord c s (mask_of ord y) kl kr) (ext_add (tcost c ord a la) (tcost c ord b lb))) as Eq2.
      { apply ele_antisym.
        - apply ext_add_mono; [apply ele_refl|apply ext_add_mono; auto].
        - rewrite <- Ecost, Eq. exact LB. }
      destruct (ext_sum_tight2 _ _ _ _ _ (nn_ocost_ord c s (mask_of ord y) kl kr Hh)
                  (Sval_nn a false kl La) (Sval_nn b false kr Lb) La' Lb' Eq2) as [Ea Eb].
      { rewrite <- Ecost. exact NE. }
      assert (tcost c ord a la <> PInf /\ tcost c ord b lb <> PInf) as [Fa Fb].
      { rewrite Ecost in NE. split; intros X; rewrite X in NE; apply NE.
        - destruct (ocost_ord c s (mask_of ord y) kl kr); reflexivity.
        - destruct (ocost_ord c s (mask_of ord y) kl kr), (tcost c ord a la); reflexivity. }
      specialize (IHa La Sla Ma false ltac:(discriminate) Fa (eq_sym Ea)).
      specialize (IHb Lb Slb Mb false ltac:(discriminate) Fb (eq_sym Eb)).
      fold kl in IHa. fold kr in IHb.
      pose proof (stable_nn S c RALL extended ord Hh a false) as NA.
      pose proof (stable_nn S c RALL extended ord Hh b false) as NB.
      pose proof (stable_keys_ok S c RALL extended ord Hh a false La) as KA.
      pose proof (stable_keys_ok S c RALL extended ord Hh b false Lb) as KB.
      rewrite spfs_table_node. cbn [sdecode]. rewrite <- spfs_table_node.
      apply in_flat_map. exists (kl, kr). split.
      + rewrite spfs_table_node. apply sread_node_tags; auto. split; auto.
        assert (val (scell S c RALL (tbl false a) (tbl false b) (fst k) (snd k)) = tcost c ord (ONode a b) (LNode s y la lb)) as Ev.
        { rewrite <- (sread_node_val S c RALL (tbl false a) (tbl false b) _ Hh (fun k => NA k La) (fun k => NB k Lb) k Ik).
          rewrite <- spfs_table_node. rewrite (stable_value S c RALL extended ord Hh RALL_not_none _ L is_root k).
          symmetry. exact Eq. }
        apply scell_tag_complete; auto.
        * rewrite Ev. exact NE.
        * rewrite Ev, Ecost, Fk, Sk.
          rewrite !(stable_value S c RALL extended ord Hh RALL_not_none) by auto.
          subst Ta Tb. cbv beta in Ea, Eb. now rewrite Ea, Eb.
      + cbn [fst snd]. apply in_flat_map. exists (Some la). split; auto.
        apply in_map_iff. exists (Some lb). split; auto.
        rewrite Sk, (mask_of_roundtrip ord y Sy), Fk. reflexivity.
  Qed.
End Complete.

(** * a finite cell at the root: the LCA mapping with every internal synteny complete *)
Definition ckey (ord : list fam) (o : otree) : sassign :=
  match o with
  | OLeaf sp syn => (sp, mask_of ord syn)
  | ONode _ _ => (root (lca_rec o), subseq_complete ord)
  end.
Definition root_fits (O : otree) (ord : list fam) : Prop :=
  match O with OLeaf _ syn => syn = ord | ONode _ _ => True end.

Lemma ckey_fst ord o : fst (ckey ord o) = root (lca_rec o).
Proof. destruct o; reflexivity. Qed.

Lemma contained_refl m : contained m m = true.
Proof. unfold contained. now rewrite N.ldiff_diag. Qed.

Lemma leaves_ord_nonempty S ord o : leaves_ord S ord o -> ord <> [].
Proof.
  induction o as [sp syn|a IHa b _]; cbn [leaves_ord].
  - intros [_ [N Sb]] ->. apply N. now apply Subseq_nil_inv.
  - intros [La _]. auto.
Qed.

Lemma complete_nonzero (ord : list fam) : ord <> [] -> subseq_complete ord <> 0%N.
Proof.
  destruct ord as [|x l]; [congruence|]. intros _. unfold subseq_complete. cbn [length].
  rewrite Nat2N.inj_succ, ones_succ. destruct (N.ones (N.of_nat (length l))); discriminate.
Qed.

Section FiniteRoot.
  Variables (S : stree) (c : costs) (extended : bool) (ord : list fam).
  Hypothesis ND : NoDup ord.

  Lemma ckey_mask_ok o : leaves_ord S ord o -> mask_ok (snd (ckey ord o)) (subseq_complete ord) = true.
  Proof.
    intros L. destruct o as [sp syn|a b]; cbn [ckey snd].
    - destruct L as [_ [N Sb]]. rewrite <- (mask_of_complete ord ND).
      apply (child_mask_ok ord ND ord syn); auto. apply Subseq_refl.
    - unfold mask_ok. rewrite contained_refl, andb_true_r. apply negb_true_iff. apply N.eqb_neq.
      apply complete_nonzero. eapply leaves_ord_nonempty; eauto.
  Qed.

  Lemma ckey_in_ckeys o is_root : leaves_ord S ord o -> In (ckey ord o) (ckeys S extended ord is_root o).
  Proof.
    intros L. destruct o as [sp syn|a b]; [now left|]. cbn [ckey ckeys]. apply in_prod_iff. split.
    - unfold allowed_species. destruct extended; [|now left].
      apply snodes_valid. apply (valid_rec_root_valid S (ONode a b)). apply lca_valid. eapply leaves_ord_ok; eauto.
    - unfold masks_for. destruct is_root; [now left|]. apply in_all_masks. apply complete_lt.
  Qed.

  Lemma Sval_ckey_le o : leaves_ord S ord o -> forall is_root,
    exists z, ele (Sval c S extended ord is_root o (ckey ord o)) (Fin z).
  Proof.
    induction o as [sp syn|a IHa b IHb]; intros L is_root.
    - exists 0. cbn [Sval ckey]. destruct (sassign_eqb_spec (sp, mask_of ord syn) (sp, mask_of ord syn)); [|congruence].
      apply ele_refl.
    - pose proof L as [La Lb]. destruct (IHa La false) as [za Ha]. destruct (IHb Lb false) as [zb Hb].
      pose proof (ckey_in_ckeys (ONode a b) is_root L) as Ik. apply existsb_sassign in Ik.
      cbn [Sval]. rewrite Ik. cbn [ckey fst snd lca_rec root].
      set (l := root (lca_rec a)). set (r := root (lca_rec b)). set (M := subseq_complete ord).
      set (v := Fin (c_dup c + c_floss c * (dist (lcp l r) l + dist (lcp l r) r) +
                     c_sloss c * (seg_dist (snd (ckey ord a)) M true + seg_dist (snd (ckey ord b)) M false))).
      assert (ele (ocost_ord c (lcp l r) M (ckey ord a) (ckey ord b)) v) as Lo.
      { apply ocost_ord_le; try (apply ckey_mask_ok; auto).
        unfold ofams. rewrite !ckey_fst. fold l r. rewrite lcp_prefix_l, lcp_prefix_r. cbn [andb].
        right. left. reflexivity. }
      eexists. eapply ele_trans.
      + apply (node_sval_le c (lcp l r) M _ _ _ _ (ckey ord a) (ckey ord b)); apply ckey_in_ckeys; auto.
      + unfold v in Lo. apply (ext_add_mono _ _ _ _ Lo (ext_add_mono _ _ _ _ Ha Hb)).
  Qed.

  Lemma ckey_root O : root_fits O ord -> ckey ord O = (root (lca_rec O), subseq_complete ord).
  Proof.
    destruct O as [sp syn|a b]; cbn [root_fits ckey]; [|reflexivity].
    intros ->. now rewrite (mask_of_complete ord ND).
  Qed.
End FiniteRoot.

Lemma sub_all_eq (syn ord : list fam) : NoDup ord -> Sub syn ord -> (forall x, In x ord -> In x syn) -> syn = ord.
Proof.
  intros ND H. induction H as [l|x cs p H IH|x cs p H IH]; intros A.
  - destruct l as [|y l]; [reflexivity|]. destruct (A y (or_introl eq_refl)).
  - inversion ND as [|? ? Nx ND']; subst. f_equal. apply IH; auto.
    intros y Hy. destruct (A y (or_intror Hy)) as [->|I]; [contradiction|exact I].
  - inversion ND as [|? ? Nx ND']; subst. exfalso. apply Nx.
    eapply Subseq_in; eauto. apply A. now left.
Qed.

(* what [root_orders] guarantees: the ordering holds exactly the families of the leaves *)
Lemma root_fits_of_families S O ord : NoDup ord -> leaves_ord S ord O ->
  (forall x, In x ord -> exists syn, In syn (leaf_syns O) /\ In x syn) -> root_fits O ord.
Proof.
  intros ND L F. destruct O as [sp syn|a b]; cbn [root_fits]; [|exact I].
  destruct L as [_ [_ Sb]]. apply sub_all_eq; auto.
  intros x Hx. destruct (F x Hx) as [syn' [[<-|[]] I]]. exact I.
Qed.

Lemma valid_lab_root_valid S O t : valid_lab S O t -> valid_sp S (lroot t) = true.
Proof. destruct 1; auto. Qed.

Lemma valid_ordered_root_fits S ord O t : valid_ordered S ord O t -> root_fits O ord.
Proof. intros [V E]. destruct V; cbn [root_fits lsyn] in *; auto. Qed.

Lemma ele_fin_not_PInf a z : ele a (Fin z) -> a <> PInf.
Proof. unfold ele. destruct a; simpl; congruence. Qed.

(* a non-empty batch of tagged candidates leaves a tag *)
Lemma upd_nonempty_tags {T} (eqb : T -> T -> bool) (eqb_spec : forall x y, reflect (x = y) (eqb x y)) rp cs :
  rp <> RNONE -> cs <> [] -> (forall w ot, In (w, ot) cs -> exists t, ot = Some t) ->
  tags (Entry.update eqb MIN rp (default_entry MIN) cs) <> [].
Proof.
  intros N NE Sm. destruct (ext_eqb (val (Entry.update eqb MIN rp (default_entry MIN) cs)) PInf) eqn:E.
  - apply ext_eqb_eq in E. destruct cs as [|[w ot] cs']; [congruence|].
    destruct (Sm w ot (or_introl eq_refl)) as [t ->].
    apply (upd_tags_nonempty eqb eqb_spec rp _ t N). rewrite E.
    pose proof (upd_le eqb rp ((w, Some t) :: cs') w (Some t) (or_introl eq_refl)) as L. rewrite E in L.
    apply ele_PInf_inv in L. subst w. now left.
  - assert (val (Entry.update eqb MIN rp (default_entry MIN) cs) <> PInf) as NV by (intros X; rewrite X in E; discriminate).
    destruct (upd_attained eqb rp cs NV) as [ot I]. destruct (Sm _ _ I) as [t ->].
    apply (upd_tags_nonempty eqb eqb_spec rp _ t N I).
Qed.

(** * the final theorems *)
(* solutions: valid ordered labellings for one of the root orders, on an allowed species mapping *)
Definition sol (S : stree) (extended : bool) (orders : list (list fam)) (O : otree) (lt : ltree) : Prop :=
  exists ord, In ord orders /\ valid_ordered S ord O lt /\ mapping_ok extended O lt.
(* the evaluator's total cost; a failed assertion counts as infinitely bad (never happens on solutions) *)
Definition cost_of (c : costs) (O : otree) (lt : ltree) : ext :=
  match total_cost c O true lt with Some v => v | None => PInf end.
Definition optimal_sol (S : stree) (c : costs) (extended : bool) (orders : list (list fam)) (O : otree)
    (lt : ltree) : Prop :=
  sol S extended orders O lt /\
  forall lt', sol S extended orders O lt' -> ele (cost_of c O lt) (cost_of c O lt').

Section Final.
  Variables (S : stree) (c : costs) (extended : bool) (orders : list (list fam)) (O : otree).
  Hypothesis Hh : nn (c_hgt c).
  Hypothesis HO : orders_ok S O orders.

  Lemma cost_of_tcost ord lt : In ord orders -> valid_ordered S ord O lt -> cost_of c O lt = tcost c ord O lt.
  Proof.
    intros Io V. destruct (HO ord Io) as [ND _]. unfold cost_of. now rewrite (total_cost_tcost c S ord O lt ND V).
  Qed.

  Section Policy.
    Variable rp : ret.
    Hypothesis Hrp : rp <> RNONE.
    Notation cands := (spfs_candidates S c rp extended orders O).

    Lemma candidate_intro ord s lt v : In ord orders -> In s (snodes S) ->
      In (Some lt) (sdecode ord (spfs_table S c rp extended ord true O) (s, subseq_complete ord)) ->
      total_cost c O true lt = Some v -> In (Some (v, Some lt)) cands.
    Proof.
      intros Io Is Id Tc. apply in_spfs_candidates. exists ord, s, (Some lt). repeat split; auto.
      now rewrite Tc.
    Qed.

    Lemma candidate_sol v lt : In (Some (v, Some lt)) cands -> sol S extended orders O lt /\ cost_of c O lt = v.
    Proof.
      intros H. destruct (candidate_sound S c rp extended orders O Hh HO _ H)
        as [ord [s [t [w [E [Io [_ [_ [Tc [V [M _]]]]]]]]]]]. inversion E; subst.
      split; [exists ord; auto|]. unfold cost_of. now rewrite Tc.
    Qed.

    (* a root order that fits has a decodable root cell: the solver finds something *)
    Lemma root_candidate ord : In ord orders -> root_fits O ord ->
      exists x v, In (Some (v, Some x)) cands /\
        In (Some x) (sdecode ord (spfs_table S c rp extended ord true O) (root (lca_rec O), subseq_complete ord)).
    Proof.
      intros Io RF. destruct (HO ord Io) as [ND L].
      destruct (Sval_ckey_le S c extended ord ND O L true) as [z Hz].
      rewrite (ckey_root ord ND O RF) in Hz.
      rewrite <- (stable_value S c rp extended ord Hh Hrp O L true) in Hz.
      pose proof (sdecode_nonempty S c rp extended ord Hh Hrp O L true _ (ele_fin_not_PInf _ _ Hz)) as NE.
      destruct (sdecode ord (spfs_table S c rp extended ord true O) (root (lca_rec O), subseq_complete ord))
        as [|ot dl] eqn:D; [congruence|].
      assert (In ot (sdecode ord (spfs_table S c rp extended ord true O) (root (lca_rec O), subseq_complete ord))) as Iot
        by (rewrite D; now left).
      destruct (sdecode_valid S c rp extended ord Hh O L true _ _ Iot) as [x [-> [V _]]].
      destruct (total_cost_some c S O x V) as [v Tc]. exists x, v. split; [|now left].
      apply (candidate_intro ord (root (lca_rec O))); auto.
      apply snodes_valid. apply (valid_rec_root_valid S O). apply lca_valid. eapply leaves_ord_ok; eauto.
    Qed.

    Lemma sol_candidate lt : sol S extended orders O lt -> exists x v, In (Some (v, Some x)) cands.
    Proof.
      intros [ord [Io [V _]]]. destruct (root_candidate ord Io (valid_ordered_root_fits _ _ _ _ V)) as [x [v [I _]]]. eauto.
    Qed.

    Hypothesis Hc : coherent_ord c.

    (* every solution is matched by a candidate that costs no more *)
    Lemma candidate_below lt' : sol S extended orders O lt' -> cost_of c O lt' <> PInf ->
      exists x, In (Some (cost_of c O x, Some x)) cands /\ ele (cost_of c O x) (cost_of c O lt') /\
                In (Some x) (sdecode (lsyn lt') (spfs_table S c rp extended (lsyn lt') true O) (key_of (lsyn lt') lt')) /\
                cost_of c O x = Sval c S extended (lsyn lt') true O (key_of (lsyn lt') lt').
    Proof.
      intros [ord [Io [[V Es] M]]] NE. destruct (HO ord Io) as [ND L]. rewrite Es.
      assert (key_of ord lt' = (lroot lt', subseq_complete ord)) as Ek.
      { unfold key_of. now rewrite Es, (mask_of_complete ord ND). }
      assert (Sub (lsyn lt') ord) as Sy by (rewrite Es; apply Subseq_refl).
      pose proof (Sval_lower S c extended ord ND Hc O lt' V L Sy M true (fun _ => Es)) as LB.
      rewrite <- (cost_of_tcost ord lt' Io (conj V Es)) in LB.
      rewrite <- (stable_value S c rp extended ord Hh Hrp O L true) in LB.
      assert (val (sread (spfs_table S c rp extended ord true O) (key_of ord lt')) <> PInf) as NT.
      { intros X. rewrite X in LB. apply NE. now apply ele_PInf_inv. }
      pose proof (sdecode_nonempty S c rp extended ord Hh Hrp O L true _ NT) as NEd.
      destruct (sdecode ord (spfs_table S c rp extended ord true O) (key_of ord lt')) as [|ot dl] eqn:D; [congruence|].
      assert (In ot (sdecode ord (spfs_table S c rp extended ord true O) (key_of ord lt'))) as Iot by (rewrite D; now left).
      destruct (sdecode_valid S c rp extended ord Hh O L true _ _ Iot) as [x [-> [Vx [Rx [Syx [Mx _]]]]]].
      assert (valid_ordered S ord O x) as VOx.
      { split; auto. rewrite Ek in Syx. cbn [snd] in Syx. rewrite (complete_mask ord) in Syx. now inversion Syx. }
      pose proof (sdecode_cost S c rp extended ord Hh Hrp ND Hc O L true _ x Iot) as Cx.
      rewrite <- (cost_of_tcost ord x Io VOx) in Cx.
      exists x. repeat split.
      - apply (candidate_intro ord (lroot lt')); auto.
        + apply snodes_valid. eapply valid_lab_root_valid; eauto.
        + rewrite <- Ek. exact Iot.
        + rewrite (total_cost_tcost c S ord O x ND VOx). f_equal. symmetry. apply cost_of_tcost; auto.
      - rewrite Cx. exact LB.
      - now left.
      - rewrite Cx. apply stable_value; auto.
    Qed.

    Variable l : list (ext * option ltree).
    Hypothesis El : all_some cands = Some l.
    Hypothesis Il : forall y, In y l <-> In (Some y) cands.
    Notation E := (Entry.update ltree_eqb MIN rp (default_entry MIN) l).

    Lemma l_tagged w ot : In (w, ot) l -> exists t, ot = Some t.
    Proof.
      intros H. apply Il in H. destruct (candidate_sound S c rp extended orders O Hh HO _ H)
        as [ord [s [t [v [Eq _]]]]]. inversion Eq. eauto.
    Qed.

    (* a candidate achieving the entry's value is an optimal solution *)
    Lemma best_candidate_optimal x : In (val E, Some x) l -> optimal_sol S c extended orders O x.
    Proof.
      intros I. apply Il in I. destruct (candidate_sol _ _ I) as [Sx Cx]. split; auto.
      intros lt' S'. destruct (ext_eqb (cost_of c O lt') PInf) eqn:Ep.
      - apply ext_eqb_eq in Ep. rewrite Ep. apply ele_PInf.
      - assert (cost_of c O lt' <> PInf) as NE by (intros X; rewrite X in Ep; discriminate).
        destruct (candidate_below lt' S' NE) as [y [Iy [Ly _]]].
        rewrite Cx. eapply ele_trans; [|exact Ly]. apply Il in Iy.
        exact (upd_le ltree_eqb rp _ _ _ Iy).
    Qed.
  End Policy.

  Hypothesis Hc : coherent_ord c.

  Lemma nn_cost_of lt : nn (cost_of c O lt).
  Proof.
    unfold cost_of, total_cost. destruct (labeling_cost c true lt); cbn [option_map]; [|apply nn_PInf].
    apply nn_add; [now apply cost_nn|apply nn_Fin].
  Qed.

  (** ALL: exactly the minimum-cost solutions over the given root orders (C02 / C05) *)
  Theorem spfs_all_exact e : spfs S c RALL extended orders O = Some e ->
    forall lt, In lt (tags e) <-> optimal_sol S c extended orders O lt.
  Proof.
    intros Es lt. destruct (spfs_some S c RALL extended orders O Hh HO) as [l [El Il]].
    unfold spfs in Es. rewrite El in Es. cbn [option_map] in Es. inversion Es; subst e. clear Es. split.
    - intros H. apply (best_candidate_optimal RALL RALL_not_none Hc l Il).
      now apply (upd_tags_sound ltree_eqb ltree_eqb_spec) in H.
    - intros [[ord [Io [V M]]] Opt]. destruct (HO ord Io) as [ND L].
      pose proof V as [Vl Es].
      (* some solution has a finite cost *)
      destruct (root_candidate RALL RALL_not_none ord Io (valid_ordered_root_fits _ _ _ _ V)) as [x0 [v0 [I0 D0]]].
      destruct (candidate_sol RALL _ _ I0) as [S0 C0].
      assert (cost_of c O x0 <> PInf) as F0.
      { destruct S0 as [ord0 [Io0 [V0 M0]]].
        pose proof (sdecode_cost S c RALL extended ord Hh RALL_not_none ND Hc O L true _ x0 D0) as Cx.
        destruct (sdecode_valid S c RALL extended ord Hh O L true _ _ D0) as [x' [Ex [Vx [_ [Syx _]]]]].
        inversion Ex; subst x'. cbn [snd] in Syx. rewrite (complete_mask ord) in Syx.
        assert (valid_ordered S ord O x0) as VO by (split; auto; now inversion Syx).
        rewrite (cost_of_tcost ord x0 Io VO), Cx.
        rewrite (stable_value S c RALL extended ord Hh RALL_not_none O L true).
        rewrite <- (ckey_root ord ND O (valid_ordered_root_fits _ _ _ _ V)).
        destruct (Sval_ckey_le S c extended ord ND O L true) as [z Hz]. eapply ele_fin_not_PInf; eauto. }
      assert (cost_of c O lt <> PInf) as NE.
      { pose proof (Opt x0 S0) as Le. pose proof (nn_cost_of lt) as Nn. pose proof (nn_cost_of x0) as N0.
        unfold nn, ele in *. destruct (cost_of c O lt), (cost_of c O x0); simpl in *; congruence. }
      assert (sol S extended orders O lt) as Slt by (exists ord; auto).
      destruct (candidate_below RALL RALL_not_none Hc lt Slt NE) as [x [Ix [Lx [Dx Cx]]]]. rewrite Es in Dx, Cx.
      destruct (candidate_sol RALL _ _ Ix) as [Sx _].
      assert (cost_of c O lt = Sval c S extended ord true O (key_of ord lt)) as ET.
      { rewrite <- Cx. apply ele_antisym; [now apply Opt|exact Lx]. }
      assert (Sub (lsyn lt) ord) as Sy by (rewrite Es; apply Subseq_refl).
      rewrite (cost_of_tcost ord lt Io V) in ET, NE.
      pose proof (sdecode_complete S c extended ord Hh ND Hc O lt Vl L Sy M true (fun _ => Es) NE ET) as Dlt.
      assert (key_of ord lt = (lroot lt, subseq_complete ord)) as Ek.
      { unfold key_of. now rewrite Es, (mask_of_complete ord ND). }
      rewrite Ek in Dlt.
      assert (In (Some (tcost c ord O lt, Some lt)) (spfs_candidates S c RALL extended orders O)) as Ic.
      { apply (candidate_intro RALL ord (lroot lt)); auto.
        - apply snodes_valid. eapply valid_lab_root_valid; eauto.
        - apply (total_cost_tcost c S ord O lt ND V). }
      apply Il in Ic.
      apply (upd_tags_complete ltree_eqb ltree_eqb_spec).
      replace (val (Entry.update ltree_eqb MIN RALL (default_entry MIN) l)) with (tcost c ord O lt); auto.
      apply ele_antisym; [|exact (upd_le ltree_eqb RALL _ _ _ Ic)].
      assert (val (Entry.update ltree_eqb MIN RALL (default_entry MIN) l) <> PInf) as NV.
      { pose proof (upd_le ltree_eqb RALL _ _ _ Ic) as Le. intros X. rewrite X in Le.
        apply NE. now apply ele_PInf_inv. }
      destruct (upd_attained ltree_eqb RALL _ NV) as [ot Io'].
      destruct (l_tagged RALL l Il _ _ Io') as [y ->].
      pose proof Io' as Iy. apply Il in Iy. destruct (candidate_sol RALL _ _ Iy) as [Sy' Cy].
      rewrite <- Cy, <- (cost_of_tcost ord lt Io V). now apply Opt.
  Qed.

  Theorem spfs_all_nodup e : spfs S c RALL extended orders O = Some e -> NoDup (tags e).
  Proof.
    unfold spfs. destruct (all_some _); cbn [option_map]; [|discriminate]. intros [= <-].
    apply (entry_tags_all_nodup ltree_eqb ltree_eqb_spec).
  Qed.

  (** ANY: one solution, optimal; or none when there is no solution at all *)
  Theorem spfs_any : exists e, spfs S c RANY extended orders O = Some e /\
    ((tags e = [] /\ forall lt, ~ sol S extended orders O lt) \/
     exists lt, tags e = [lt] /\ optimal_sol S c extended orders O lt).
  Proof.
    assert (RANY <> RNONE) as N by discriminate.
    destruct (spfs_some S c RANY extended orders O Hh HO) as [l [El Il]].
    unfold spfs. rewrite El. cbn [option_map]. eexists. split; [reflexivity|].
    destruct (entry_tags_any ltree_eqb MIN l) as [[Et No]|[t [Et It]]].
    - left. split; [exact Et|]. intros lt Slt.
      destruct (sol_candidate RANY N lt Slt) as [x [v I]]. apply Il in I.
      assert (l <> []) as NE by (intros X; rewrite X in I; destruct I).
      apply (upd_nonempty_tags ltree_eqb ltree_eqb_spec RANY l N NE (l_tagged RANY l Il)). exact Et.
    - right. exists t. split; [exact Et|]. now apply (best_candidate_optimal RANY N Hc l Il).
  Qed.
End Final.

(** the result is empty exactly when there is no solution; with root orders that hold exactly the
    families of the leaves (what [root_orders] returns), exactly when there is no compatible order.
    No hypothesis on the unit costs. *)
Theorem spfs_empty_iff_nosol S c rp extended orders O e : nn (c_hgt c) -> orders_ok S O orders -> rp <> RNONE ->
  spfs S c rp extended orders O = Some e ->
  (tags e = [] <-> forall lt, ~ sol S extended orders O lt).
Proof.
  intros Hh HO N Es. destruct (spfs_some S c rp extended orders O Hh HO) as [l [El Il]].
  unfold spfs in Es. rewrite El in Es. cbn [option_map] in Es. inversion Es; subst e. clear Es. split.
  - intros Et lt Slt. destruct (sol_candidate S c extended orders O Hh HO rp N lt Slt) as [x [v I]]. apply Il in I.
    assert (l <> []) as NE by (intros X; rewrite X in I; destruct I).
    apply (upd_nonempty_tags ltree_eqb ltree_eqb_spec rp l N NE (l_tagged S c extended orders O Hh HO rp l Il)). exact Et.
  - intros No. destruct (tags (Entry.update ltree_eqb MIN rp (default_entry MIN) l)) as [|t tl] eqn:Et; [reflexivity|].
    exfalso. assert (In t (tags (Entry.update ltree_eqb MIN rp (default_entry MIN) l))) as H by (rewrite Et; now left).
    apply (upd_tags_sound ltree_eqb ltree_eqb_spec) in H. apply Il in H.
    destruct (candidate_sol S c extended orders O Hh HO rp _ _ H) as [St _]. exact (No t St).
Qed.

Theorem spfs_empty_iff S c rp extended orders O e : nn (c_hgt c) -> orders_ok S O orders -> rp <> RNONE ->
  (forall ord, In ord orders -> root_fits O ord) ->
  spfs S c rp extended orders O = Some e -> (tags e = [] <-> orders = []).
Proof.
  intros Hh HO N RF Es. rewrite (spfs_empty_iff_nosol S c rp extended orders O e Hh HO N Es). split.
  - intros No. destruct orders as [|ord os] eqn:Eo; [reflexivity|]. exfalso.
    destruct (root_candidate S c extended (ord :: os) O Hh HO rp N ord (or_introl eq_refl) (RF ord (or_introl eq_refl)))
      as [x [v [I _]]].
    destruct (candidate_sol S c extended (ord :: os) O Hh HO rp _ _ I) as [St _]. exact (No x St).
  - intros -> lt [ord [[] _]].
Qed.

(** * the two public solvers (statements of C02) *)
(* extended: minimum over the root orders, all species mappings and all labellings *)
Theorem ext_spfs_optimum S c orders O e : nn (c_hgt c) -> coherent_ord c -> orders_ok S O orders ->
  spfs S c RALL true orders O = Some e ->
  forall lt, In lt (tags e) <->
    ((exists ord, In ord orders /\ valid_ordered S ord O lt) /\
     forall lt' ord', In ord' orders -> valid_ordered S ord' O lt' -> ele (cost_of c O lt) (cost_of c O lt')).
Proof.
  intros Hh Hc HO Es lt. rewrite (spfs_all_exact S c true orders O Hh HO Hc e Es lt).
  unfold optimal_sol, sol, mapping_ok. split.
  - intros [[ord [Io [V _]]] Opt]. split; [eauto|]. intros lt' ord' Io' V'. apply Opt. exists ord'. auto.
  - intros [[ord [Io V]] Opt]. split; [exists ord; auto|]. intros lt' [ord' [Io' [V' _]]]. eapply Opt; eauto.
Qed.

(* base: minimum among the solutions that use the LCA species mapping *)
Theorem base_spfs_optimum S c orders O e : nn (c_hgt c) -> coherent_ord c -> orders_ok S O orders ->
  spfs S c RALL false orders O = Some e ->
  forall lt, In lt (tags e) <->
    ((exists ord, In ord orders /\ valid_ordered S ord O lt /\ forget lt = lca_rec O) /\
     forall lt' ord', In ord' orders -> valid_ordered S ord' O lt' -> forget lt' = lca_rec O ->
       ele (cost_of c O lt) (cost_of c O lt')).
Proof.
  intros Hh Hc HO Es lt. rewrite (spfs_all_exact S c false orders O Hh HO Hc e Es lt).
  unfold optimal_sol, sol, mapping_ok. split.
  - intros [[ord [Io [V [X|M]]]] Opt]; [discriminate|]. split; [eauto|].
    intros lt' ord' Io' V' M'. apply Opt. exists ord'. auto.
  - intros [[ord [Io [V M]]] Opt]. split; [exists ord; auto|].
    intros lt' [ord' [Io' [V' [X|M']]]]; [discriminate|]. eapply Opt; eauto.
Qed.

(** * the root orders the solver enumerates ([_make_prec_graph] + [toposort_all], C19) *)
Fixpoint leaves_wf (S : stree) (o : otree) : Prop :=
  match o with
  | OLeaf sp syn => valid_sp S sp = true /\ syn <> []
  | ONode a b => leaves_wf S a /\ leaves_wf S b
  end.

Lemma leaves_ord_iff S ord o :
  leaves_ord S ord o <-> leaves_wf S o /\ forall syn, In syn (leaf_syns o) -> Sub syn ord.
Proof.
  induction o as [sp syn|a IHa b IHb]; cbn [leaves_ord leaves_wf leaf_syns].
  - split.
    + intros [V [N Sb]]. split; auto. intros ? [<-|[]]. exact Sb.
    + intros [[V N] H]. repeat split; auto. apply H. now left.
  - rewrite IHa, IHb. split.
    + intros [[W1 H1] [W2 H2]]. split; auto. intros syn I. apply in_app_or in I as [I|I]; auto.
    + intros [[W1 W2] H]. repeat split; auto; intros; apply H; apply in_or_app; auto.
Qed.

Lemma Subseq_map {X Y} (f : X -> Y) c p : Subseq c p -> Subseq (map f c) (map f p).
Proof. induction 1; cbn [map]; constructor; auto. Qed.

Definition families (O : otree) (x : fam) : Prop := exists syn, In syn (leaf_syns O) /\ In x syn.

(* a root order compatible with the leaves: every family of the leaves once, every leaf synteny
   a sub-sequence *)
Definition compatible_order (O : otree) (ord : list fam) : Prop :=
  NoDup ord /\ (forall x, In x ord <-> families O x) /\ forall syn, In syn (leaf_syns O) -> Sub syn ord.

Lemma family_conv O n :
  ToposortProofs.family (map (map N.to_nat) (leaf_syns O)) n <-> families O (N.of_nat n).
Proof.
  unfold ToposortProofs.family, families. split.
  - intros [s [Is In_]]. apply in_map_iff in Is as [syn [<- Isyn]]. apply in_map_iff in In_ as [y [<- Iy]].
    exists syn. split; auto. now rewrite N2Nat.id.
  - intros [syn [Isyn Iy]]. exists (map N.to_nat syn). split; [now apply in_map|].
    apply in_map_iff. exists (N.of_nat n). split; [apply Nat2N.id|exact Iy].
Qed.

Lemma map_of_to (l : list N) : map N.of_nat (map N.to_nat l) = l.
Proof. rewrite map_map. rewrite <- (map_id l) at 2. apply map_ext. apply N2Nat.id. Qed.
Lemma map_to_of (l : list nat) : map N.to_nat (map N.of_nat l) = l.
Proof. rewrite map_map. rewrite <- (map_id l) at 2. apply map_ext. apply Nat2N.id. Qed.

Theorem root_orders_spec O orders : Spfs.root_orders O = Some orders ->
  forall ord, In ord orders <-> compatible_order O ord.
Proof.
  unfold Spfs.root_orders. set (leaves := map (map N.to_nat) (leaf_syns O)).
  destruct (make_prec_graph leaves) as [g| | | |] eqn:Eg; try discriminate.
  destruct (toposort_all g) as [R| | | |] eqn:ER; try discriminate. intros [= <-] ord.
  destruct (ToposortProofs.root_orders leaves g Eg) as [W T].
  pose proof (ToposortProofs.toposort_all_complete_sound g W _ ToposortProofs.set_order_id R ER) as CS.
  unfold compatible_order. split.
  - intros H. apply in_map_iff in H as [l [<- Il]]. apply CS, T in Il as [NDl [Fl Sl]]. repeat split.
    + apply Injective_map_NoDup; auto. intros x y. apply Nat2N.inj.
    + intros H. apply in_map_iff in H as [n [<- In_]]. apply family_conv. now apply Fl.
    + intros H. apply in_map_iff. exists (N.to_nat x). split; [apply N2Nat.id|].
      apply Fl. apply family_conv. now rewrite N2Nat.id.
    + intros syn Isyn. rewrite <- (map_of_to syn). apply Subseq_map. apply Sl. unfold leaves. now apply in_map.
  - intros [NDo [Fo So]]. apply in_map_iff. exists (map N.to_nat ord). split; [apply map_of_to|].
    apply CS, T. repeat split.
    + apply Injective_map_NoDup; auto. intros x y. apply N2Nat.inj.
    + intros H. apply in_map_iff in H as [y [<- Iy]]. apply family_conv. rewrite N2Nat.id. now apply Fo.
    + intros H. apply family_conv in H. apply Fo in H. apply in_map_iff. exists (N.of_nat x). split; [apply Nat2N.id|exact H].
    + intros s Is. unfold leaves in Is. apply in_map_iff in Is as [syn [<- Isyn]]. apply Subseq_map. now apply So.
Qed.

Lemma leaves_wf_nonempty S O syn : leaves_wf S O -> In syn (leaf_syns O) -> syn <> [].
Proof.
  induction O as [sp y|a IHa b IHb]; cbn [leaves_wf leaf_syns].
  - intros [_ N] [<-|[]]. exact N.
  - intros [Wa Wb] I. apply in_app_or in I as [I|I]; auto.
Qed.

(* on well-formed leaves the enumeration of the root orders does not raise *)
Theorem root_orders_total S O : leaves_wf S O -> exists orders, Spfs.root_orders O = Some orders.
Proof.
  intros W. unfold Spfs.root_orders.
  destruct (ToposortProofs.make_prec_graph_total (map (map N.to_nat) (leaf_syns O))) as [g Eg].
  { intros s Is. apply in_map_iff in Is as [syn [<- Isyn]]. pose proof (leaves_wf_nonempty S O syn W Isyn) as N.
    destruct syn; [exfalso; now apply N|discriminate]. }
  rewrite Eg. destruct (ToposortProofs.root_orders _ g Eg) as [Wg _].
  destruct (ToposortProofs.toposort_all_total g Wg _ ToposortProofs.set_order_id) as [R ER].
  unfold toposort_all. rewrite ER. eauto.
Qed.

(* they satisfy the hypotheses of the theorems above *)
Theorem root_orders_ok S O orders : leaves_wf S O -> Spfs.root_orders O = Some orders ->
  orders_ok S O orders /\ forall ord, In ord orders -> root_fits O ord.
Proof.
  intros W E.
  assert (forall ord, In ord orders -> NoDup ord /\ leaves_ord S ord O /\ root_fits O ord) as H.
  { intros ord Io. apply (root_orders_spec O orders E) in Io as [ND [F Sb]].
    assert (leaves_ord S ord O) as L by (apply leaves_ord_iff; auto).
    repeat split; auto. apply (root_fits_of_families S O ord ND L). intros x Hx. now apply F. }
  split; [intros ord Io; destruct (H ord Io) as [A [B _]]; auto|intros ord Io; now apply H].
Qed.

(** * the statements of C02 for the solver run on its own root orders *)
Theorem spfs_root_orders_optimum S c extended O : nn (c_hgt c) -> coherent_ord c -> leaves_wf S O ->
  exists orders e, Spfs.root_orders O = Some orders /\ spfs S c RALL extended orders O = Some e /\
    (forall lt, In lt (tags e) <-> optimal_sol S c extended orders O lt) /\
    (tags e = [] <-> forall ord, ~ compatible_order O ord).
Proof.
  intros Hh Hc W. destruct (root_orders_total S O W) as [orders Eo].
  destruct (root_orders_ok S O orders W Eo) as [HO RF].
  destruct (spfs_returns S c RALL extended orders O Hh HO) as [e Ee].
  exists orders, e. split; [exact Eo|]. split; [exact Ee|]. split.
  - now apply (spfs_all_exact S c extended orders O Hh HO Hc e Ee).
  - split.
    + intros Et ord Co. apply (root_orders_spec O orders Eo) in Co.
      apply (spfs_empty_iff S c RALL extended orders O e Hh HO RALL_not_none RF Ee) in Et. rewrite Et in Co. destruct Co.
    + intros No. apply (spfs_empty_iff S c RALL extended orders O e Hh HO RALL_not_none RF Ee).
      destruct orders as [|ord os]; [reflexivity|]. exfalso. apply (No ord).
      apply (root_orders_spec O _ Eo). now left.
Qed.

(** non-vacuity: a three-leaf instance with overlapping syntenies *)
Example spfs_example :
  let S := SNode SLeaf (SNode SLeaf SLeaf) in
  let O := ONode (OLeaf [false] [1; 2]%N) (ONode (OLeaf [true; false] [2; 3]%N) (OLeaf [true; true] [1; 3]%N)) in
  let c := {| c_spe := 0; c_dup := 1; c_hgt := Fin 1; c_floss := 1; c_sloss := 1 |} in
  nn (c_hgt c) /\ coherent_ord c /\ leaves_wf S O /\ Spfs.root_orders O = Some [[1; 2; 3]%N] /\
  option_map (fun e => (val e, length (tags e))) (spfs S c RALL true [[1; 2; 3]%N] O) = Some (Fin 3, 3%nat) /\
  option_map (fun e => (val e, length (tags e))) (spfs S c RALL false [[1; 2; 3]%N] O) = Some (Fin 3, 1%nat).
Proof.
  cbv zeta. split; [discriminate|]. split; [unfold coherent_ord; cbn; lia|].
  split; [cbn; repeat split; discriminate|]. split; [vm_compute; reflexivity|]. split; vm_compute; reflexivity.
Qed.
